#!/bin/sh
# hooks.baseline_off_cmd: the repository's own suite, hooks off (there are none), from a scratch copy.
set -e
D=$(mktemp -d /var/tmp/verif-baseline.XXXXXX)
trap 'rm -rf "$D"' EXIT
cd /repo
git ls-files -z | rsync -a --from0 --files-from=- ./ "$D/src/"
cd "$D/src"
# generated autotools files are not tracked: take them from /repo when present, else autoreconf
for f in configure Makefile.in aclocal.m4 config.h.in compile config.guess config.sub depcomp install-sh ltmain.sh missing test-driver; do
  [ -e "/repo/$f" ] && cp -a "/repo/$f" . || true
done
[ -d /repo/m4 ] && rsync -a /repo/m4/ m4/ || true
[ -x ./configure ] || ./autogen.sh >/dev/null 2>&1
./configure >/dev/null 2>&1
make -j16 check 2>&1 | grep -E '^(PASS|FAIL|ERROR|XFAIL|XPASS|SKIP|# )' | sort | tail -120
