"""Regenerate MANIFEST.json from props/*/meta.json (python3 -m vlib.manifest)."""
import glob
import json
import os

VERIF = os.path.dirname(os.path.dirname(os.path.abspath(__file__)))


def main():
    props = [json.loads(l) for l in open(os.path.join(VERIF, "properties.jsonl"))]
    checks = []
    na = []
    claimed = []
    integrated = set(open(os.path.join(VERIF, "integrated.txt")).read().split())
    for p in props:
        pid = p["id"]
        mp = os.path.join(VERIF, "props", pid, "meta.json")
        if pid in integrated and os.path.exists(mp) and os.path.exists(os.path.join(VERIF, "props", pid, "check.py")):
            m = json.load(open(mp))
            if m.get("not_applicable"):
                na.append(dict(property_id=pid, reason=m["not_applicable"]))
                continue
            claimed.append(pid)
            checks.append(dict(
                property_id=pid,
                quick_cmd="./check %s --tier quick" % pid,
                thorough_cmd="./check %s --tier thorough" % pid,
                evidence_file="evidence/%s.json" % pid,
                replay_cmd_template="./check %s --replay {path}" % pid,
                engine="coq-model+correspondence",
                level_claimed=dict(category=m["level"], text=m["text"], design_ref=m.get("design_ref", "DESIGN.md")),
                level_note=m["note"],
                technique=m["technique"]))
        else:
            na.append(dict(property_id=pid, reason="check not built yet in this development (planned: Coq model + correspondence, see DESIGN.md section 3); not claimed until its theorems and tie exist"))
    man = dict(
        version=1,
        setup_cmd="./setup.sh",
        hooks=dict(guard="SQFS_VERIF_HOOKS",
                   enable="no hooks in /repo: checks compile the working tree's sources directly (vlib/build.py) and reach internals by #include-ing .c files and -include/-D/--wrap shims from /verif",
                   baseline_off_cmd="./baseline.sh",
                   source_commits=[], add_only=True),
        engines=[dict(name="coq-model+correspondence", path="check", serves_properties=claimed,
                      kind_free_text="Coq 8.16.1 theorems about hand-written executable Gallina models (coq/), tied to /repo by differential runs of the OCaml-extracted models against C harnesses compiled from the working tree (props/*/), plus a direct search oracle per property")],
        checks=checks,
        not_applicable=na,
        notes="See DESIGN.md. Known findings: known_findings.json.")
    json.dump(man, open(os.path.join(VERIF, "MANIFEST.json"), "w"), indent=1)
    kf = dict(findings=[], fixed=[])
    ap = os.path.join(VERIF, "fixes_applied.json")
    applied = json.load(open(ap)) if os.path.exists(ap) else {}
    for fp in sorted(glob.glob(os.path.join(VERIF, "props", "*", "findings.json"))):
        if os.path.basename(os.path.dirname(fp)) not in integrated:
            continue
        d = json.load(open(fp))
        kf["findings"] += d.get("findings", [])
        for e in d.get("fixed", []):
            e = dict(e)
            c = applied.get(e.get("patch") or e.get("fix") or "", applied.get(e.get("id", "")))
            if c:
                e["commit"] = c
                e["line"] = "fixed: property=%s %s %s" % (e.get("property"), c, e.get("what", ""))
            kf["fixed"].append(e)
    json.dump(kf, open(os.path.join(VERIF, "known_findings.json"), "w"), indent=1)
    print("claimed:", claimed)


if __name__ == "__main__":
    main()
