"""Shared machinery of every check: Coq build / proof-obligation accounting,
extraction, evidence, known findings, VIOLATION reporting."""
import fcntl
import glob
import hashlib
import json
import os
import re
import shutil
import subprocess
import sys
import tempfile
import time

from . import build as B

VERIF = B.VERIF
REPO = B.REPO
COQ = os.path.join(VERIF, "coq")
CACHE = os.path.join(VERIF, ".cache")
COQC_TIMEOUT = int(os.environ.get("VERIF_COQC_TIMEOUT", "900"))

FORBIDDEN = re.compile(
    r"\bAdmitted\b|\badmit\b|\bAxiom\b|\bAxioms\b|\bParameter\b|\bParameters\b|\bConjecture\b|"
    r"Unset\s+Guard|bypass_check|Admit\s+Obligations|type-in-type|impredicative-set|"
    r"Unset\s+Universe\s+Checking|Unset\s+Positivity")

TRUSTED_BASE_COMMON = [
    "Coq 8.16.1 kernel (coqc); vm_compute used for closed computations; native_compute not used",
    "hand-written Gallina model of the anchored C code (the theorems are about the model)",
    "correspondence check: C harness built from /repo's working tree vs. OCaml extraction of the model on the same inputs",
    "extraction: Coq.extraction.ExtrOcamlBasic only (Extract Inductive bool/option/unit/list/prod/sumbool/sumor; Extract Inlined Constant andb/orb); OCaml 4.13.1",
    "vlib/gen_constants.c: translator /repo headers -> coq/Gen/Constants.v (regenerated on every run)",
]


class Lock:
    def __init__(self, name):
        os.makedirs(CACHE, exist_ok=True)
        self.path = os.path.join(CACHE, name + ".lock")

    def __enter__(self):
        self.f = open(self.path, "w")
        fcntl.flock(self.f, fcntl.LOCK_EX)
        return self

    def __exit__(self, *a):
        fcntl.flock(self.f, fcntl.LOCK_UN)
        self.f.close()


def sh(cmd, timeout=None, cwd=None, inp=None, env=None):
    try:
        r = subprocess.run(cmd, cwd=cwd, input=inp, stdout=subprocess.PIPE, stderr=subprocess.STDOUT,
                           timeout=timeout, env=env)
        return r.returncode, r.stdout.decode("utf-8", "replace")
    except subprocess.TimeoutExpired as e:
        return 124, (e.stdout or b"").decode("utf-8", "replace") + "\n[timeout]"


# --------------------------------------------------------------------------
# Coq side
# --------------------------------------------------------------------------

def regen_constants():
    """Regenerate coq/Gen/Constants.v from the current headers. Returns (changed, error)."""
    d = tempfile.mkdtemp(prefix="verif-const.")
    try:
        exe = os.path.join(d, "gc")
        shutil.copy(B.config_h_path(), os.path.join(d, "config.h"))
        rc, out = sh(["gcc", "-w", "-I" + os.path.join(REPO, "include"), "-I" + d,
                      os.path.join(VERIF, "vlib", "gen_constants.c"), "-o", exe])
        if rc != 0:
            return False, "gen_constants.c does not compile against the current headers:\n" + out[-2000:]
        rc, txt = sh([exe])
        if rc != 0:
            return False, "gen_constants failed"
        dst = os.path.join(COQ, "Gen", "Constants.v")
        old = open(dst).read() if os.path.exists(dst) else None
        if old != txt:
            os.makedirs(os.path.dirname(dst), exist_ok=True)
            open(dst, "w").write(txt)
            return True, None
        return False, None
    finally:
        shutil.rmtree(d, ignore_errors=True)


def coq_sources():
    out = []
    for p in sorted(glob.glob(os.path.join(COQ, "**", "*.v"), recursive=True)):
        rel = os.path.relpath(p, COQ)
        if rel.startswith("Properties_") or rel.startswith("Extract" + os.sep):
            continue
        out.append(rel)
    return out


def write_coqproject():
    txt = "-Q . SqfsV\n" + "\n".join(coq_sources()) + "\n"
    p = os.path.join(COQ, "_CoqProject")
    if not os.path.exists(p) or open(p).read() != txt:
        open(p, "w").write(txt)
        rc, out = sh(["coq_makefile", "-f", "_CoqProject", "-o", "Makefile"], cwd=COQ)
        if rc != 0:
            raise RuntimeError("coq_makefile failed: " + out)
    elif not os.path.exists(os.path.join(COQ, "Makefile")):
        sh(["coq_makefile", "-f", "_CoqProject", "-o", "Makefile"], cwd=COQ)


def coq_make(targets=None):
    """Full .vo build (make -k). Returns (rc, log)."""
    write_coqproject()
    cmd = ["timeout", str(COQC_TIMEOUT * 2), "make", "-k", "-j16"]
    if targets:
        cmd += targets
    return sh(cmd, cwd=COQ)


def prop_deps(prop):
    """direct .vo dependencies of Properties_<prop>.v (make resolves the transitive ones)."""
    rc, out = sh(["coqdep", "-Q", ".", "SqfsV", "Properties_%s.v" % prop], cwd=COQ)
    deps = []
    for line in out.split("\n"):
        if line.startswith("Properties_%s.vo" % prop) and ":" in line:
            for w in line.split(":", 1)[1].split():
                if w.endswith(".vo") and not w.startswith("Properties_"):
                    deps.append(w)
    return deps


def prop_closure(prop):
    """all .v files (relative to coq/) that Properties_<prop>.v transitively depends on, itself included."""
    files = [os.path.relpath(p, COQ) for p in glob.glob(os.path.join(COQ, "**", "*.v"), recursive=True)]
    rc, out = sh(["coqdep", "-Q", ".", "SqfsV"] + files, cwd=COQ)
    graph = {}
    for line in out.split("\n"):
        if ":" not in line:
            continue
        lhs, rhs = line.split(":", 1)
        tgt = [w for w in lhs.split() if w.endswith(".vo")]
        if not tgt:
            continue
        graph[tgt[0][:-1]] = [w[:-1] for w in rhs.split() if w.endswith(".vo")]
    todo = ["Properties_%s.v" % prop]
    seen = set()
    while todo:
        f = todo.pop()
        if f in seen:
            continue
        seen.add(f)
        todo += graph.get(f, [])
    return sorted(seen)


def forbidden_scan(only=None):
    """Scan .v files for forbidden declarations; also flags Variable/Hypothesis outside sections."""
    hits = []
    for p in sorted(glob.glob(os.path.join(COQ, "**", "*.v"), recursive=True)):
        rel = os.path.relpath(p, COQ)
        if only is not None and rel not in only:
            continue
        txt = open(p).read()
        # strip comments (nested)
        out = []
        depth = 0
        i = 0
        while i < len(txt):
            if txt.startswith("(*", i):
                depth += 1
                i += 2
            elif txt.startswith("*)", i) and depth > 0:
                depth -= 1
                i += 2
            else:
                if depth == 0:
                    out.append(txt[i])
                elif txt[i] == "\n":
                    out.append("\n")
                i += 1
        code = "".join(out)
        sect = 0
        for ln, line in enumerate(code.split("\n"), 1):
            if rel == os.path.join("Gen", "Constants.v"):
                pass
            if FORBIDDEN.search(line):
                hits.append("%s:%d: %s" % (rel, ln, line.strip()))
            s = line.strip()
            if re.match(r"^(Section|Module Type)\b", s):
                sect += 1
            elif re.match(r"^End\b", s) and sect > 0:
                sect -= 1
            elif re.match(r"^(Variable|Variables|Hypothesis|Hypotheses|Context)\b", s) and sect == 0:
                hits.append("%s:%d: %s (outside a section)" % (rel, ln, s))
    return hits


THM_RE = re.compile(r"^\s*(Theorem|Lemma|Corollary|Example)\s+([A-Za-z0-9_']+)", re.M)


def check_properties(prop):
    """Compile Properties_<prop>.v; return dict with obligations, discharged, axioms, log, ok."""
    f = "Properties_%s.v" % prop
    path = os.path.join(COQ, f)
    src = open(path).read()
    names = [(m.group(1), m.group(2), src[:m.start()].count("\n") + 1) for m in THM_RE.finditer(src)]
    theorems = [n for k, n, _ in names if k != "Example"]
    examples = [n for k, n, _ in names if k == "Example"]
    # The obligation "Properties_<prop>.v compiles against the current models" is re-established on every run.  When
    # neither the property file nor any .v file of its dependency closure changed since the last successful compile
    # (content hash), every closure .vo exists and is not older than its source, and the compiled Properties_<prop>.vo
    # is not older than any of them, the kernel already accepted exactly these sources: the recorded coqc output is
    # reused instead of spending 20-60 s on recompiling the same text (VERIF_NO_PROPCACHE=1 forces the compile).
    key, fresh = None, False
    cache_p = os.path.join(VERIF, ".cache", "propcache", prop + ".json")
    try:
        closure = prop_closure(prop)
        h = hashlib.sha256()
        newest = 0.0
        fresh = True
        for rel in closure:
            pv = os.path.join(COQ, rel)
            h.update(rel.encode()); h.update(open(pv, "rb").read())
            if rel != f:
                pvo = pv + "o"
                if not os.path.exists(pvo) or os.path.getmtime(pvo) < os.path.getmtime(pv):
                    fresh = False
                else:
                    newest = max(newest, os.path.getmtime(pvo))
        key = h.hexdigest()
        pvo = path + "o"
        if not os.path.exists(pvo) or os.path.getmtime(pvo) < newest or os.path.getmtime(pvo) < os.path.getmtime(path):
            fresh = False
    except OSError:
        fresh = False
    cached = None
    if fresh and os.environ.get("VERIF_NO_PROPCACHE") != "1" and os.path.exists(cache_p):
        try:
            c = json.load(open(cache_p))
            if c.get("key") == key and c.get("rc") == 0:
                cached = c
        except (OSError, ValueError):
            cached = None
    if cached is not None:
        rc, log = 0, cached["log"]
    else:
        rc, log = sh(["timeout", str(COQC_TIMEOUT), "coqc", "-Q", ".", "SqfsV", f], cwd=COQ)
        if rc == 0 and key is not None:
            try:
                os.makedirs(os.path.dirname(cache_p), exist_ok=True)
                json.dump(dict(key=key, rc=0, log=log, compiled_at=time.time()), open(cache_p, "w"))
            except OSError:
                pass
    res = dict(file=f, theorems=theorems, examples=examples, obligations=len(theorems) + len(examples),
               ok=(rc == 0), log=log[-6000:], failed=None,
               compile=("reused: sources of the whole dependency closure unchanged since the compile of %s"
                        % time.strftime("%Y-%m-%dT%H:%M:%S", time.localtime(cached["compiled_at"])) if cached is not None else "compiled in this run"))
    if rc == 0:
        res["discharged"] = res["obligations"]
    else:
        m = re.search(r'line (\d+), characters', log)
        fail_line = int(m.group(1)) if m else 0
        ok = [n for k, n, l in names]
        done = []
        failed = None
        for idx, (k, n, l) in enumerate(names):
            nxt = names[idx + 1][2] if idx + 1 < len(names) else 10 ** 9
            if fail_line and nxt <= fail_line:
                done.append(n)
            else:
                failed = n
                break
        res["discharged"] = len(done)
        res["failed"] = failed or "(dependency of %s does not compile)" % f
    # Print Assumptions output
    axioms = set()
    log_full = cached["log"] if cached is not None else log
    log = log_full
    closed = log.count("Closed under the global context")
    for m in re.finditer(r"^([A-Za-z0-9_.']+)\s*:", log, re.M):
        nm = m.group(1)
        if nm not in ("Axioms", "File", "Error", "Warning"):
            axioms.add(nm)
    res["closed"] = closed
    res["axioms"] = sorted(axioms) if "Axioms:" in log else []
    return res


def sources_hash(extra_files=()):
    h = hashlib.sha256()
    for rel in coq_sources():
        h.update(rel.encode())
        h.update(open(os.path.join(COQ, rel), "rb").read())
    for p in sorted(glob.glob(os.path.join(COQ, "Extract", "*.v"))):
        h.update(open(p, "rb").read())
    for p in extra_files:
        h.update(open(p, "rb").read())
    return h.hexdigest()


def build_model_driver(name, extract_v, driver_ml, stubs_c=None, packages=("unix",), cclibs=()):
    """Extract `extract_v` (a file under coq/Extract) and link it with driver_ml. Cached on source hash.
    Returns path of the executable."""
    with Lock("drvbuild-" + name):
        return _build_model_driver(name, extract_v, driver_ml, stubs_c, packages, cclibs)


def _build_model_driver(name, extract_v, driver_ml, stubs_c=None, packages=("unix",), cclibs=()):
    extra = [os.path.join(COQ, "Extract", extract_v), driver_ml] + ([stubs_c] if stubs_c else [])
    key = sources_hash(extra)[:20]
    out = os.path.join(CACHE, "extract", name)
    exe = os.path.join(out, "driver")
    stamp = os.path.join(out, "KEY")
    if os.path.exists(exe) and os.path.exists(stamp) and open(stamp).read() == key:
        return exe
    shutil.rmtree(out, ignore_errors=True)
    os.makedirs(out)
    shutil.copy(os.path.join(COQ, "Extract", extract_v), os.path.join(out, "Ex.v"))
    # the modules an extraction file requires need not be in the closure of any Properties file (definition-only
    # driver modules): build them first, from a fresh checkout they do not exist yet
    try:
        rc0, dep_out = sh(["coqdep", "-Q", ".", "SqfsV", os.path.join("Extract", extract_v)], cwd=COQ)
        deps = []
        for line in dep_out.split("\n"):
            if ":" in line and any(w.endswith(".vo") for w in line.split(":", 1)[0].split()):
                deps += [w for w in line.split(":", 1)[1].split() if w.endswith(".vo") and not w.startswith(("Extract/", "Properties_"))]
        # always through make (a no-op when up to date): a dependency can be stale through a file IT requires (a
        # regenerated Gen*.v), which no look at the module's own source shows ("inconsistent assumptions" otherwise)
        if deps:
            with Lock("coq"):
                write_coqproject()
                coq_make(sorted(set(deps)))
    except Exception:      # noqa: the coqc below reports what is really missing
        pass
    rc, log = sh(["timeout", str(COQC_TIMEOUT), "coqc", "-Q", COQ, "SqfsV", "Ex.v"], cwd=out)
    if rc != 0:
        raise RuntimeError("extraction of %s failed:\n%s" % (extract_v, log[-3000:]))
    mls = sorted(glob.glob(os.path.join(out, "*.ml")))
    if not mls:
        raise RuntimeError("extraction produced no .ml")
    shutil.copy(driver_ml, os.path.join(out, "driver_main.ml"))
    cmd = ["ocamlfind", "ocamlopt", "-O3" if False else "-unsafe", "-inline", "100", "-w", "-a", "-package", ",".join(packages), "-linkpkg"]
    for m in mls:
        mli = m[:-3] + ".mli"
        if os.path.exists(mli):
            cmd.append(os.path.basename(mli))
        cmd.append(os.path.basename(m))
    cmd.append("driver_main.ml")
    if stubs_c:
        shutil.copy(stubs_c, os.path.join(out, "stubs.c"))
        cmd.append("stubs.c")
    for l in cclibs:
        cmd += ["-cclib", l]
    cmd += ["-o", "driver"]
    rc, log = sh(cmd, cwd=out)
    if rc != 0:
        raise RuntimeError("ocaml build of %s failed:\n%s" % (name, log[-3000:]))
    open(stamp, "w").write(key)
    return exe


# --------------------------------------------------------------------------
# Check context, findings, evidence
# --------------------------------------------------------------------------

class Ctx:
    def __init__(self, prop, tier, seed, replay=None):
        self.prop = prop
        self.tier = tier
        self.seed = seed
        self.replay = replay
        self.t0 = time.time()
        self.violations = []       # dict(sig, what, replay, no_input)
        self.coverage = dict(evaluations=0, distinct_nontrivial=0, samples=[], rule="",
                             traces_validated_against_impl=0)
        self.assumptions = []
        self.notes = []
        self.trusted = list(TRUSTED_BASE_COMMON)
        self.proof = None
        self.scratch = tempfile.mkdtemp(prefix="verif.%s." % prop, dir=os.environ.get("TMPDIR", "/var/tmp"))
        self.replay_dir = os.path.join(VERIF, "replays", prop)
        self.tie_broken = []       # names of correspondences that no longer check
        self.proof_broken = []

    def cleanup(self):
        shutil.rmtree(self.scratch, ignore_errors=True)

    def log(self, *a):
        print("[%s %6.1fs]" % (self.prop, time.time() - self.t0), *a, flush=True)

    def write_replay(self, name, obj):
        os.makedirs(self.replay_dir, exist_ok=True)
        p = os.path.join(self.replay_dir, name + ".json")
        obj = dict(obj)
        obj.setdefault("property", self.prop)
        obj.setdefault("seed", self.seed)
        obj.setdefault("tier", self.tier)
        obj.setdefault("rerun", "./check %s --replay %s" % (self.prop, os.path.relpath(p, VERIF)))
        json.dump(obj, open(p, "w"), indent=1, default=str)
        return p

    def violation(self, sig, what, replay_obj, no_input=False):
        """sig: stable signature used for known-findings matching."""
        name = re.sub(r"[^A-Za-z0-9_.-]+", "_", sig)[:80]
        p = self.write_replay(name, dict(replay_obj, signature=sig, what=what,
                                         no_failing_input_found=bool(no_input)))
        self.violations.append(dict(sig=sig, what=what, replay=p, no_input=no_input))

    def add_samples(self, samples, limit=6):
        for s in samples:
            if len(self.coverage["samples"]) < limit:
                self.coverage["samples"].append(s)


def load_known():
    """known_findings.json (committed, merged by vlib/manifest.py) plus the per-property source files."""
    out = dict(findings=[], fixed=[])
    files = [os.path.join(VERIF, "known_findings.json")] + sorted(glob.glob(os.path.join(VERIF, "props", "*", "findings.json")))
    seen = set()
    for p in files:
        if not os.path.exists(p):
            continue
        d = json.load(open(p))
        for k in ("findings", "fixed"):
            for e in d.get(k, []):
                key = json.dumps(e, sort_keys=True)
                if key not in seen:
                    seen.add(key)
                    out[k].append(e)
    return out


# generated .v file (relative to coq/) -> (owning property, module, zero-argument generator function returning (changed, error))
FOREIGN_GENERATORS = {
    "Util/GenUtil.v": ("C19", "props/C19/util_tie.py", "regen_util_constants"),
    "C08/GenC08.v": ("C08", "props/C08/check.py", "regen_c08_constants"),
    "C10/GenC10.v": ("C10", "props/C10/check.py", "regen_genc10"),
    # owner included (ALWAYS): C01's own run() regenerates only after the first prepare_proofs
    "C01/GenC01.v": ("*", "props/C01/genc01.py", "regen_genc01"),
}


def prepare_proofs(ctx):
    """Steps 1-2 of every check. Fills ctx.proof; records broken obligations."""
    with Lock("coq"):
        changed, err = regen_constants()
        if err:
            ctx.proof_broken.append("Gen/Constants.v: " + err)
        if changed:
            ctx.log("Constants.v changed -> rebuilding dependent .vo")
        write_coqproject()
        deps = prop_deps(ctx.prop)
        # generated constant files of OTHER properties that this property's theorems depend on (the closures grew across
        # properties in session 3): regenerate them from the working tree too, so that an edit of e.g. hash_sizes[] re-checks
        # every theorem that rests on it, whichever check is run.  A generator that fails is noted, not reported (the
        # owning property's check reports it).
        try:
            clo = set(prop_closure(ctx.prop))
            for gen_v, (owner, mod_rel, fn) in FOREIGN_GENERATORS.items():
                if gen_v in clo and owner != ctx.prop:
                    try:
                        import importlib.util as _il
                        spec = _il.spec_from_file_location("gen_" + owner.replace("*", "any") + "_" + fn, os.path.join(VERIF, mod_rel))
                        m = _il.module_from_spec(spec); spec.loader.exec_module(m)
                        r = getattr(m, fn)()
                        if isinstance(r, tuple) and len(r) == 2 and r[1]:
                            ctx.notes.append("foreign generator %s: %s" % (gen_v, str(r[1])[-300:]))
                        elif isinstance(r, tuple) and r[0]:
                            ctx.log("%s regenerated from the working tree (changed)" % gen_v)
                    except Exception as e:   # noqa: never let a foreign generator break this check
                        ctx.notes.append("foreign generator %s failed: %r" % (gen_v, e))
        except Exception as e:
            ctx.notes.append("foreign generators skipped: %r" % (e,))
        rc, log = coq_make(deps) if deps else (0, "")
        if rc != 0:
            ctx.notes.append("coq make reported errors: " + log[-1500:])
        res = check_properties(ctx.prop)
    closure = prop_closure(ctx.prop)
    hits = forbidden_scan(only=set(closure))
    res["forbidden"] = hits
    res["files"] = closure
    ctx.proof = res
    if hits:
        ctx.proof_broken.append("forbidden declarations: " + "; ".join(hits[:5]))
    if not res["ok"]:
        ctx.proof_broken.append("theorem %s in %s no longer checks: %s" % (res["failed"], res["file"], res["log"][-1500:]))
    ctx.coverage.update(obligations=res["obligations"], discharged=res["discharged"],
                        checker_cmd="cd coq && make -k -j16 && coqc -Q . SqfsV %s (Print Assumptions after every theorem)" % res["file"],
                        theorems=res["theorems"], examples=res["examples"], coq_files=res["files"],
                        properties_compile=res.get("compile"),
                        print_assumptions=dict(closed_under_global_context=res["closed"], axioms=res["axioms"]))
    if ctx.tier == "thorough" and res["ok"] and os.environ.get("VERIF_NO_COQCHK") != "1":
        t = time.time()
        rc, out = sh(["timeout", "5400", "coqchk", "-o", "-silent", "-Q", ".", "SqfsV", "SqfsV.Properties_%s" % ctx.prop], cwd=COQ)
        ctx.coverage["coqchk"] = dict(rc=rc, wall_s=round(time.time() - t, 1), output=out[-3000:])
        if rc == 124:
            # the independent re-check ran out of time (machine load): no verdict, not a rejection; coqc's kernel
            # accepted every file above.  Recorded, never reported as a violation.
            ctx.coverage["coqchk"]["verdict"] = "inconclusive: timed out after 5400 s"
        elif rc != 0:
            ctx.proof_broken.append("coqchk rejects Properties_%s.vo: %s" % (ctx.prop, out[-800:]))
    return res


def finish(ctx, level="proof"):
    """Compare with known findings, print lines, write evidence, exit."""
    known = load_known()
    kf = [k for k in known.get("findings", []) if k.get("property") == ctx.prop]
    new = []
    printed = set()
    # broken proof / tie without concrete failing input
    for b in ctx.proof_broken:
        if not any(not v["no_input"] for v in ctx.violations):
            ctx.violation("proof-broken", b, dict(kind="proof obligation no longer checks", detail=b), no_input=True)
            break
    for v in ctx.violations:
        m = None
        for k in kf:
            if re.fullmatch(k["signature"], v["sig"]):
                m = k
                break
        if m is not None:
            if m["signature"] not in printed:
                print("KNOWN-FINDING: property=%s %s" % (ctx.prop, m["what"]))
                printed.add(m["signature"])
        else:
            new.append(v)
    # if there are concrete violations, drop the no-input ones (the concrete ones are the replay)
    concrete = [v for v in new if not v["no_input"]]
    report = concrete if concrete else new
    seen = set()
    for v in report:
        if v["sig"] in seen:
            continue
        seen.add(v["sig"])
        line = "VIOLATION property=%s replay=%s" % (ctx.prop, v["replay"])
        if v["no_input"]:
            line += " no-failing-input-found"
        print("# " + v["what"][:300].replace("\n", " "))
        print(line)
    cov = ctx.coverage
    cov["trusted_base"] = ctx.trusted
    cov.setdefault("obligations", 0)
    cov.setdefault("discharged", 0)
    if not cov.get("checker_cmd"):
        cov["checker_cmd"] = "coqc"
    if not cov["samples"]:
        cov["samples"] = ["(no sample recorded)"]
    ev = dict(property_id=ctx.prop, tier=ctx.tier, seed=ctx.seed, level=level, coverage=cov,
              assumptions=ctx.assumptions, wall_s=round(time.time() - ctx.t0, 2),
              violations=len(report), known_findings_hit=sorted(printed), notes=ctx.notes)
    if os.path.realpath(REPO) == "/repo":
        evdir = os.path.join(VERIF, "evidence")
    else:
        # a trial against another tree (VERIF_REPO=<worktree with a seeded change>): never overwrite the evidence
        # of the run against /repo itself
        evdir = os.path.join(CACHE, "evidence-other-tree")
        ev["repo"] = REPO
    os.makedirs(evdir, exist_ok=True)
    json.dump(ev, open(os.path.join(evdir, ctx.prop + ".json"), "w"), indent=1, default=str)
    ctx.cleanup()
    if report:
        sys.exit(1)
    print("OK property=%s tier=%s obligations=%d discharged=%d evaluations=%d wall=%.1fs" % (
        ctx.prop, ctx.tier, cov["obligations"], cov["discharged"], cov["evaluations"], time.time() - ctx.t0))
    sys.exit(0)
