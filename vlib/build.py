"""Build the implementation side from /repo's *current working tree*.

Nothing is ever built inside /repo.  Sources are compiled directly with
gcc/clang into a content-addressed cache directory under /verif/.cache/build
(key = sha256 of every .c/.h/config.h under /repo that can influence the
result + compiler + flags), so a changed tree always gets a fresh build and an
unchanged tree re-uses the objects.  The cache holds a handful of entries and
is pruned on every call.
"""
import hashlib
import os
import shutil
import subprocess
import sys
import time
from concurrent.futures import ThreadPoolExecutor

REPO = os.environ.get("VERIF_REPO", "/repo")
VERIF = os.path.dirname(os.path.dirname(os.path.abspath(__file__)))
CACHE = os.path.join(VERIF, ".cache", "build")

LIB_DIRS = ["lib/util/src", "lib/compat/src", "lib/sqfs/src", "lib/fstree/src",
            "lib/common/src", "lib/tar/src", "lib/xfrm/src"]
EXCLUDE = {
    "lib/sqfs/src/io/win32.c", "lib/sqfs/src/io/dir_win32.c",
    "lib/compat/src/w32_perror.c", "lib/compat/src/w32_stdio.c",
    "lib/compat/src/w32_wmain.c", "lib/compat/src/path_to_windows.c",
    "lib/common/src/comp_lzo.c",
}
TOOLS = {
    "gensquashfs": "bin/gensquashfs/src",
    "rdsquashfs": "bin/rdsquashfs/src",
    "sqfs2tar": "bin/sqfs2tar/src",
    "tar2sqfs": "bin/tar2sqfs/src",
    "sqfsdiff": "bin/sqfsdiff/src",
}
BASE_DEFS = ["-D_GNU_SOURCE", "-DWITH_GZIP", "-DWITH_XZ", "-DWITH_LZ4",
             "-DWITH_ZSTD", "-DWITH_BZIP2", "-DHAVE_PTHREAD", "-DWITH_SELINUX"]
LIBS = ["-lz", "-llzma", "-llz4", "-lzstd", "-lbz2", "-lselinux", "-lpthread"]
SAN = ["-fsanitize=address,undefined", "-fno-sanitize-recover=all",
       "-fno-sanitize=nonnull-attribute", "-fno-omit-frame-pointer"]

FALLBACK_CONFIG_H = os.path.join(VERIF, "vlib", "config.h.fallback")


def _walk_sources(root, sub):
    out = []
    base = os.path.join(root, sub)
    for d, _, fs in sorted(os.walk(base)):
        for f in sorted(fs):
            if f.endswith(".c"):
                rel = os.path.relpath(os.path.join(d, f), root)
                out.append(rel)
    return out


def lib_sources(serial=False):
    srcs = []
    for d in LIB_DIRS:
        for s in _walk_sources(REPO, d):
            if s in EXCLUDE:
                continue
            if "/test/" in s:
                continue
            srcs.append(s)
    if serial:
        srcs = [s for s in srcs if s != "lib/util/src/threadpool.c"]
    else:
        srcs = [s for s in srcs if s != "lib/util/src/threadpool_serial.c"]
    return srcs


def tree_hash():
    """sha256 over every file of the working tree that can influence a build."""
    h = hashlib.sha256()
    for top in ("include", "lib", "bin"):
        for d, dn, fs in sorted(os.walk(os.path.join(REPO, top))):
            dn.sort()
            if "/.deps" in d or "/.libs" in d:
                continue
            for f in sorted(fs):
                if f.endswith((".c", ".h")):
                    p = os.path.join(d, f)
                    h.update(os.path.relpath(p, REPO).encode())
                    with open(p, "rb") as fh:
                        h.update(fh.read())
    h.update(open(config_h_path(), "rb").read())
    return h.hexdigest()


def config_h_path():
    p = os.path.join(REPO, "config.h")
    if os.path.exists(p):
        return p
    # the fallback must be reachable as "<dir>/config.h" (callers pass -I dirname): keep a copy under that name
    d = os.path.join(VERIF, ".cache", "cfg-fallback")
    q = os.path.join(d, "config.h")
    try:
        if not os.path.exists(q) or open(q, "rb").read() != open(FALLBACK_CONFIG_H, "rb").read():
            os.makedirs(d, exist_ok=True)
            tmp = q + ".%d" % os.getpid()
            shutil.copy(FALLBACK_CONFIG_H, tmp)
            os.replace(tmp, q)
        return q
    except OSError:
        return FALLBACK_CONFIG_H


def _prune(keep=40, min_age=2 * 3600):
    """Drop old cache entries: beyond `keep` newest, and only those untouched for `min_age` seconds
    (another check may be running binaries from a younger one)."""
    if not os.path.isdir(CACHE):
        return
    ents = []
    now = time.time()
    for e in os.listdir(CACHE):
        p = os.path.join(CACHE, e)
        try:
            ents.append((os.path.getmtime(p), p))
        except OSError:
            pass
    ents.sort(reverse=True)
    for mt, p in ents[keep:]:
        if now - mt > min_age:
            shutil.rmtree(p, ignore_errors=True)


class BuildError(Exception):
    pass


def _run(cmd, cwd=None):
    r = subprocess.run(cmd, cwd=cwd, stdout=subprocess.PIPE, stderr=subprocess.STDOUT, text=True)
    if r.returncode != 0:
        raise BuildError("command failed: %s\n%s" % (" ".join(cmd), r.stdout[-4000:]))
    return r.stdout


def build(variant="plain", cc=None, extra_defs=(), extra_cflags=(), serial=False,
          tools=True, per_file_flags=None, tag=""):
    """Build libs (one archive all.a) and tools for the current tree.

    variant: plain | asan
    per_file_flags: dict rel-source -> list of extra flags (e.g. -include shim)
    Returns dict(dir=..., lib=path to all.a, tools={name: path}, cflags=[...]).
    """
    cc = cc or "gcc"
    cflags = ["-O1", "-g", "-w", "-pthread"]
    defs = list(BASE_DEFS) + list(extra_defs)
    if variant == "asan":
        cflags += SAN
        defs.append("-DNO_CUSTOM_ALLOC")
    if serial:
        defs.append("-DNO_THREAD_IMPL")
    cflags += list(extra_cflags)
    per_file_flags = per_file_flags or {}
    th = tree_hash()
    key = hashlib.sha256(("|".join([th, cc, variant, str(serial), str(tools), tag] + cflags + defs +
                                   [k + "=" + " ".join(v) for k, v in sorted(per_file_flags.items())])).encode()).hexdigest()[:24]
    out = os.path.join(CACHE, key)
    stamp = os.path.join(out, "DONE")
    info = dict(dir=out, lib=os.path.join(out, "all.a"), tools={}, key=key, tree_hash=th,
                inc=["-I" + os.path.join(REPO, "include"), "-I" + os.path.join(out, "cfg")],
                cflags=cflags, defs=defs, libs=LIBS, cc=cc, cached=True)
    for t in TOOLS:
        info["tools"][t] = os.path.join(out, t)
    if os.path.exists(stamp):
        os.utime(out)
        return info
    info["cached"] = False
    tmp = out + ".tmp%d" % os.getpid()
    shutil.rmtree(tmp, ignore_errors=True)
    os.makedirs(os.path.join(tmp, "cfg"))
    os.makedirs(os.path.join(tmp, "obj"))
    shutil.copy(config_h_path(), os.path.join(tmp, "cfg", "config.h"))
    inc = ["-I" + os.path.join(REPO, "include"), "-I" + os.path.join(tmp, "cfg")]
    jobs = []
    srcs = lib_sources(serial=serial)
    objs = []
    for s in srcs:
        o = os.path.join(tmp, "obj", s.replace("/", "_")[:-2] + ".o")
        objs.append(o)
        jobs.append([cc] + cflags + defs + inc + per_file_flags.get(s, []) + ["-c", os.path.join(REPO, s), "-o", o])
    tool_objs = {}
    if tools:
        for t, d in TOOLS.items():
            tool_objs[t] = []
            for s in _walk_sources(REPO, d):
                o = os.path.join(tmp, "obj", "tool_" + s.replace("/", "_")[:-2] + ".o")
                tool_objs[t].append(o)
                jobs.append([cc] + cflags + defs + inc + ["-I" + os.path.join(REPO, d)] +
                            per_file_flags.get(s, []) + ["-c", os.path.join(REPO, s), "-o", o])
    errs = []

    def comp(cmd):
        r = subprocess.run(cmd, stdout=subprocess.PIPE, stderr=subprocess.STDOUT, text=True)
        if r.returncode != 0:
            errs.append(" ".join(cmd) + "\n" + r.stdout[-3000:])

    with ThreadPoolExecutor(max_workers=16) as ex:
        list(ex.map(comp, jobs))
    if errs:
        shutil.rmtree(tmp, ignore_errors=True)
        raise BuildError("compile failed:\n" + "\n".join(errs[:3]))
    _run(["ar", "rcs", os.path.join(tmp, "all.a")] + objs)
    if tools:
        links = []
        for t in TOOLS:
            links.append([cc] + cflags + tool_objs[t] + [os.path.join(tmp, "all.a")] + LIBS + ["-o", os.path.join(tmp, t)])
        with ThreadPoolExecutor(max_workers=8) as ex:
            list(ex.map(comp, links))
        if errs:
            shutil.rmtree(tmp, ignore_errors=True)
            raise BuildError("link failed:\n" + "\n".join(errs[:3]))
    open(os.path.join(tmp, "DONE"), "w").write(time.ctime())
    os.makedirs(CACHE, exist_ok=True)
    if os.path.exists(out):
        shutil.rmtree(tmp, ignore_errors=True)
    else:
        try:
            os.rename(tmp, out)
        except OSError:
            shutil.rmtree(tmp, ignore_errors=True)
    _prune()
    return info


def compile_harness(info, sources, out_name, extra=(), includes=(), link_lib=True, cc=None, libs=None):
    """Compile a harness (list of .c paths) against the build `info` into info.dir/out_name.
    Harnesses may #include repo .c files: -I/repo is on the path as well."""
    cc = cc or info["cc"]
    out = os.path.join(info["dir"], out_name)
    hk = hashlib.sha256()
    for s in sources:
        hk.update(open(s, "rb").read())
    hk.update((" ".join(extra) + " ".join(includes) + str(link_lib)).encode())
    stamp = out + ".stamp"
    if os.path.exists(out) and os.path.exists(stamp) and open(stamp).read() == hk.hexdigest():
        return out
    cmd = [cc] + info["cflags"] + info["defs"] + info["inc"] + ["-I" + REPO] + list(includes) + list(extra) + list(sources)
    if link_lib:
        cmd += [info["lib"]]
    cmd += (libs if libs is not None else info["libs"]) + ["-o", out + ".tmp%d" % os.getpid()]
    _run(cmd)
    os.rename(out + ".tmp%d" % os.getpid(), out)
    open(stamp, "w").write(hk.hexdigest())
    return out


if __name__ == "__main__":
    t0 = time.time()
    v = sys.argv[1] if len(sys.argv) > 1 else "plain"
    i = build(v)
    print(i["dir"], "cached" if i["cached"] else "built", "%.1fs" % (time.time() - t0))
