/* Translator: prints coq/Gen/Constants.v from /repo's current headers.
 * Compiled and run by every check (vlib/core.py: regen_constants). */
#include "config.h"
#include <stdio.h>
#include <stddef.h>
#include "sqfs/super.h"
#include "sqfs/block.h"
#include "sqfs/dir.h"
#include "sqfs/dir_entry.h"
#include "sqfs/inode.h"
#include "sqfs/error.h"
#include "sqfs/compressor.h"
#include "sqfs/xattr.h"
#include "sqfs/table.h"
#include "sqfs/io.h"
#include "tar/tar.h"
#include "tar/format.h"

#define C(name) printf("Definition c_%s : N := %llu.\n", #name, (unsigned long long)(name))
#define CZ(name) printf("Definition c_%s : Z := (%lld)%%Z.\n", #name, (long long)(name))
#define SZ(t) printf("Definition sizeof_%s : N := %llu.\n", #t, (unsigned long long)sizeof(t))
#define OFF(t, f) printf("Definition off_%s_%s : N := %llu.\n", #t, #f, (unsigned long long)offsetof(t, f))

int main(void)
{
	printf("(* GENERATED from /repo headers by vlib/gen_constants.c -- do not edit *)\n");
	printf("From Coq Require Import NArith ZArith.\nLocal Open Scope N_scope.\n");
	C(SQFS_MAGIC); C(SQFS_VERSION_MAJOR); C(SQFS_VERSION_MINOR); C(SQFS_DEVBLK_SIZE);
	C(SQFS_MIN_BLOCK_SIZE); C(SQFS_MAX_BLOCK_SIZE); C(SQFS_DEFAULT_BLOCK_SIZE);
	C(SQFS_META_BLOCK_SIZE); C(SQFS_MAX_DIR_ENT);
	C(SQFS_COMP_MIN); C(SQFS_COMP_MAX);
	C(SQFS_COMP_GZIP); C(SQFS_COMP_LZMA); C(SQFS_COMP_LZO); C(SQFS_COMP_XZ); C(SQFS_COMP_LZ4); C(SQFS_COMP_ZSTD);
	C(SQFS_FLAG_UNCOMPRESSED_INODES); C(SQFS_FLAG_UNCOMPRESSED_DATA); C(SQFS_FLAG_UNCOMPRESSED_FRAGMENTS);
	C(SQFS_FLAG_NO_FRAGMENTS); C(SQFS_FLAG_ALWAYS_FRAGMENTS); C(SQFS_FLAG_NO_DUPLICATES);
	C(SQFS_FLAG_EXPORTABLE); C(SQFS_FLAG_UNCOMPRESSED_XATTRS); C(SQFS_FLAG_NO_XATTRS);
	C(SQFS_FLAG_COMPRESSOR_OPTIONS); C(SQFS_FLAG_UNCOMPRESSED_IDS);
	SZ(sqfs_super_t);
	OFF(sqfs_super_t, magic); OFF(sqfs_super_t, inode_count); OFF(sqfs_super_t, modification_time);
	OFF(sqfs_super_t, block_size); OFF(sqfs_super_t, fragment_entry_count); OFF(sqfs_super_t, compression_id);
	OFF(sqfs_super_t, block_log); OFF(sqfs_super_t, flags); OFF(sqfs_super_t, id_count);
	OFF(sqfs_super_t, version_major); OFF(sqfs_super_t, version_minor); OFF(sqfs_super_t, root_inode_ref);
	OFF(sqfs_super_t, bytes_used); OFF(sqfs_super_t, id_table_start); OFF(sqfs_super_t, xattr_id_table_start);
	OFF(sqfs_super_t, inode_table_start); OFF(sqfs_super_t, directory_table_start);
	OFF(sqfs_super_t, fragment_table_start); OFF(sqfs_super_t, export_table_start);
	SZ(sqfs_dir_header_t); SZ(sqfs_dir_node_t); SZ(sqfs_dir_index_t);
	SZ(sqfs_inode_t); SZ(sqfs_inode_dev_t); SZ(sqfs_inode_dev_ext_t); SZ(sqfs_inode_ipc_t); SZ(sqfs_inode_ipc_ext_t);
	SZ(sqfs_inode_slink_t); SZ(sqfs_inode_slink_ext_t); SZ(sqfs_inode_file_t); SZ(sqfs_inode_file_ext_t);
	SZ(sqfs_inode_dir_t); SZ(sqfs_inode_dir_ext_t);
	SZ(sqfs_fragment_t); SZ(sqfs_xattr_entry_t); SZ(sqfs_xattr_value_t); SZ(sqfs_xattr_id_t); SZ(sqfs_xattr_id_table_t);
	C(SQFS_INODE_DIR); C(SQFS_INODE_FILE); C(SQFS_INODE_SLINK); C(SQFS_INODE_BDEV); C(SQFS_INODE_CDEV);
	C(SQFS_INODE_FIFO); C(SQFS_INODE_SOCKET); C(SQFS_INODE_EXT_DIR); C(SQFS_INODE_EXT_FILE);
	C(SQFS_INODE_EXT_SLINK); C(SQFS_INODE_EXT_BDEV); C(SQFS_INODE_EXT_CDEV); C(SQFS_INODE_EXT_FIFO);
	C(SQFS_INODE_EXT_SOCKET);
	CZ(SQFS_ERROR_ALLOC); CZ(SQFS_ERROR_IO); CZ(SQFS_ERROR_COMPRESSOR); CZ(SQFS_ERROR_INTERNAL);
	CZ(SQFS_ERROR_CORRUPTED); CZ(SQFS_ERROR_UNSUPPORTED); CZ(SQFS_ERROR_OVERFLOW); CZ(SQFS_ERROR_OUT_OF_BOUNDS);
	CZ(SFQS_ERROR_SUPER_MAGIC); CZ(SFQS_ERROR_SUPER_VERSION); CZ(SQFS_ERROR_SUPER_BLOCK_SIZE);
	CZ(SQFS_ERROR_NOT_DIR); CZ(SQFS_ERROR_NO_ENTRY); CZ(SQFS_ERROR_LINK_LOOP); CZ(SQFS_ERROR_NOT_FILE);
	CZ(SQFS_ERROR_ARG_INVALID); CZ(SQFS_ERROR_SEQUENCE);
	C(SQFS_BLK_DONT_COMPRESS); C(SQFS_BLK_DONT_HASH); C(SQFS_BLK_DONT_FRAGMENT); C(SQFS_BLK_DONT_DEDUPLICATE);
	C(SQFS_BLK_IGNORE_SPARSE); C(SQFS_BLK_IS_SPARSE); C(SQFS_BLK_FIRST_BLOCK); C(SQFS_BLK_LAST_BLOCK);
	C(SQFS_BLK_IS_FRAGMENT); C(SQFS_BLK_FRAGMENT_BLOCK); C(SQFS_BLK_IS_COMPRESSED);
	C(SQFS_BLK_USER_SETTABLE_FLAGS); C(SQFS_BLK_FLAGS_ALL);
	C(TAR_RECORD_SIZE);
	SZ(tar_header_t);
	OFF(tar_header_t, name); OFF(tar_header_t, mode); OFF(tar_header_t, uid); OFF(tar_header_t, gid);
	OFF(tar_header_t, size); OFF(tar_header_t, mtime); OFF(tar_header_t, chksum); OFF(tar_header_t, typeflag);
	OFF(tar_header_t, linkname); OFF(tar_header_t, magic); OFF(tar_header_t, version);
	OFF(tar_header_t, uname); OFF(tar_header_t, gname); OFF(tar_header_t, devmajor); OFF(tar_header_t, devminor);
	OFF(tar_header_t, tail);
	return 0;
}
