"""Independent SquashFS 4.0 reader and writer in Python (written from doc/format.adoc, not from
the C sources).  Shared by several checks:

* `Image(data)`            parse a real image (any supported compressor) into inodes / listings / contents
* `Image.walk()`           flattened tree: path -> Node (type, mode, uid, gid, mtime, target, dev, nlink,
                           inode number, xattrs, file block list / fragment) for read-back comparison
* `Image.validate()`       list of violated on-disk invariants (C03 oracle)
* `Builder`                write an image with *uncompressed* metadata from an explicit description, every
                           on-disk field overridable (hostile images for C05/C06/C10/C14)

Decompression: zlib/lzma from the Python stdlib, zstd/lz4 through ctypes on the system libraries.
"""
import ctypes
import ctypes.util
import lzma
import struct
import zlib

MAGIC = 0x73717368
META = 8192
COMP = {1: "gzip", 2: "lzma", 3: "lzo", 4: "xz", 5: "lz4", 6: "zstd"}
T_DIR, T_FILE, T_SLINK, T_BDEV, T_CDEV, T_FIFO, T_SOCK = 1, 2, 3, 4, 5, 6, 7
TYPE_NAME = {1: "dir", 2: "file", 3: "slink", 4: "bdev", 5: "cdev", 6: "fifo", 7: "sock"}
NOID = 0xFFFFFFFF
NOTBL = 0xFFFFFFFFFFFFFFFF


class ParseError(Exception):
    pass


_zstd = None
_lz4 = None


def _load(name):
    p = ctypes.util.find_library(name)
    return ctypes.CDLL(p) if p else None


def decompress(comp_id, data, cap):
    global _zstd, _lz4
    c = COMP.get(comp_id)
    if c == "gzip":
        return zlib.decompress(data)
    if c == "xz":
        return lzma.decompress(data, format=lzma.FORMAT_XZ)
    if c == "lzma":
        # squashfs lzma: 5 byte props + 8 byte LE size, raw lzma1 stream
        return lzma.decompress(data[:5] + struct.pack("<Q", struct.unpack("<Q", data[5:13])[0]) + data[13:], format=lzma.FORMAT_ALONE)
    if c == "zstd":
        if _zstd is None:
            _zstd = _load("zstd")
        buf = ctypes.create_string_buffer(cap)
        _zstd.ZSTD_decompress.restype = ctypes.c_size_t
        n = _zstd.ZSTD_decompress(buf, ctypes.c_size_t(cap), data, ctypes.c_size_t(len(data)))
        if _zstd.ZSTD_isError(ctypes.c_size_t(n)):
            raise ParseError("zstd error")
        return buf.raw[:n]
    if c == "lz4":
        if _lz4 is None:
            _lz4 = _load("lz4")
        buf = ctypes.create_string_buffer(cap)
        n = _lz4.LZ4_decompress_safe(data, buf, len(data), cap)
        if n < 0:
            raise ParseError("lz4 error")
        return buf.raw[:n]
    raise ParseError("unsupported compressor %r" % comp_id)


SUPER_FMT = "<IIIIIHHHHHHQQQQQQQQ"
SUPER_FIELDS = ["magic", "inode_count", "mod_time", "block_size", "frag_count", "comp_id", "block_log", "flags",
                "id_count", "ver_major", "ver_minor", "root_ref", "bytes_used", "id_table_start", "xattr_table_start",
                "inode_table_start", "dir_table_start", "frag_table_start", "export_table_start"]


class Node:
    __slots__ = ("ref", "type", "ext", "mode", "uid_idx", "gid_idx", "uid", "gid", "mtime", "ino", "nlink", "size",
                 "target", "dev", "xattr_idx", "xattrs", "blocks_start", "block_sizes", "frag_idx", "frag_off",
                 "sparse", "dir_start", "dir_off", "parent_ino", "index", "raw_type", "children")

    def __init__(self):
        for s in self.__slots__:
            setattr(self, s, None)

    def summary(self):
        d = dict(type=TYPE_NAME.get(self.type, "?"), mode=self.mode, uid=self.uid, gid=self.gid, mtime=self.mtime,
                 ino=self.ino, nlink=self.nlink)
        if self.type == T_SLINK:
            d["target"] = self.target
        if self.type in (T_BDEV, T_CDEV):
            d["dev"] = self.dev
        if self.type == T_FILE:
            d["size"] = self.size
        if self.xattrs:
            d["xattrs"] = self.xattrs
        return d


class MetaStream:
    """Random access into a metadata area: position = (block byte offset relative to `base`, offset)."""

    def __init__(self, img, base, limit):
        self.img = img
        self.base = base
        self.limit = limit
        self.cache = {}
        self.blocks_seen = {}

    def block(self, off):
        """returns (data, next_off) of the metadata block at absolute offset base+off"""
        if off in self.cache:
            return self.cache[off]
        pos = self.base + off
        d = self.img.data
        if pos + 2 > len(d) or pos + 2 > self.limit:
            raise ParseError("metadata block header out of bounds at %d" % pos)
        hdr = struct.unpack_from("<H", d, pos)[0]
        size = hdr & 0x7FFF
        unc = bool(hdr & 0x8000)
        if size > META or size == 0 and False:
            raise ParseError("metadata block size %d > 8192 at %d" % (size, pos))
        if pos + 2 + size > len(d) or pos + 2 + size > self.limit:
            raise ParseError("metadata block body out of bounds at %d" % pos)
        raw = d[pos + 2:pos + 2 + size]
        data = raw if unc else decompress(self.img.super["comp_id"], raw, META)
        if len(data) > META:
            raise ParseError("metadata block expands to %d > 8192" % len(data))
        self.blocks_seen[off] = dict(stored=size, uncompressed=unc, length=len(data))
        r = (data, off + 2 + size)
        self.cache[off] = r
        return r

    def read(self, blk, off, n):
        """read n bytes starting at (blk, off); returns (bytes, new_blk, new_off)"""
        out = b""
        while n > 0:
            data, nxt = self.block(blk)
            if off > len(data):
                raise ParseError("metadata offset %d beyond block of %d" % (off, len(data)))
            take = data[off:off + n]
            if not take:
                if len(data) == 0:
                    raise ParseError("empty metadata block")
                blk, off = nxt, 0
                continue
            out += take
            n -= len(take)
            off += len(take)
            if off >= len(data) and n > 0:
                blk, off = nxt, 0
        return out, blk, off


class Image:
    def __init__(self, data, lenient=False):
        self.data = data
        if len(data) < 96:
            raise ParseError("short superblock")
        vals = struct.unpack_from(SUPER_FMT, data, 0)
        self.super = dict(zip(SUPER_FIELDS, vals))
        s = self.super
        if s["magic"] != MAGIC:
            raise ParseError("bad magic")
        if (s["ver_major"], s["ver_minor"]) != (4, 0):
            raise ParseError("bad version")
        self.bs = s["block_size"]
        lim = len(data)
        self.inodes = MetaStream(self, s["inode_table_start"], min(lim, s["dir_table_start"]))
        upper = min(x for x in (s["frag_table_start"], s["export_table_start"], s["id_table_start"],
                                s["xattr_table_start"], lim) if x != NOTBL and x > s["dir_table_start"])
        self.dirs = MetaStream(self, s["dir_table_start"], upper)
        self.ids = self._read_table(s["id_table_start"], s["id_count"], 4, "<I")
        self.frags = []
        if s["frag_table_start"] != NOTBL and s["frag_count"] > 0:
            raw = self._read_table(s["frag_table_start"], s["frag_count"], 16, None)
            self.frags = [struct.unpack_from("<QII", raw, 16 * i) for i in range(s["frag_count"])]
        self.export = None
        if s["export_table_start"] != NOTBL:
            self.export = self._read_table(s["export_table_start"], s["inode_count"], 8, "<Q")
        self.xattr_ids = []
        self.xattr_stream = None
        if s["xattr_table_start"] != NOTBL:
            self._read_xattr_tables()
        self._node_cache = {}

    # ---- tables ----
    def _read_table(self, start, count, esz, fmt):
        d = self.data
        total = count * esz
        nblk = (total + META - 1) // META
        if start + 8 * nblk > len(d):
            raise ParseError("table location list out of bounds")
        locs = struct.unpack_from("<%dQ" % nblk, d, start)
        ms = MetaStream(self, 0, len(d))
        raw = b""
        for i, l in enumerate(locs):
            data, _ = ms.block(l)
            raw += data
        self.__dict__.setdefault("table_blocks", []).append((start, locs, dict(ms.blocks_seen)))
        if len(raw) < total:
            raise ParseError("table shorter than announced (%d < %d)" % (len(raw), total))
        raw = raw[:total]
        if fmt is None:
            return raw
        return [struct.unpack_from(fmt, raw, esz * i)[0] for i in range(count)]

    def _read_xattr_tables(self):
        d = self.data
        st = self.super["xattr_table_start"]
        if st + 16 > len(d):
            raise ParseError("xattr id table header out of bounds")
        kv_start, count, _ = struct.unpack_from("<QII", d, st)
        self.xattr_kv_start = kv_start
        nblk = (count * 16 + META - 1) // META
        if st + 16 + 8 * nblk > len(d):
            raise ParseError("xattr id location list out of bounds")
        locs = struct.unpack_from("<%dQ" % nblk, d, st + 16)
        ms = MetaStream(self, 0, len(d))
        raw = b""
        for l in locs:
            raw += ms.block(l)[0]
        if len(raw) < count * 16:
            raise ParseError("xattr id table short")
        self.xattr_ids = [struct.unpack_from("<QII", raw, 16 * i) for i in range(count)]
        self.xattr_stream = MetaStream(self, kv_start, len(d))

    def xattrs(self, idx):
        if idx is None or idx == NOID:
            return {}
        if idx >= len(self.xattr_ids):
            raise ParseError("xattr index out of range")
        ref, count, size = self.xattr_ids[idx]
        blk, off = ref >> 16, ref & 0xFFFF
        out = {}
        PREFIX = {0: b"user.", 1: b"trusted.", 2: b"security."}
        for _ in range(count):
            h, blk, off = self.xattr_stream.read(blk, off, 4)
            typ, ksz = struct.unpack("<HH", h)
            key, blk, off = self.xattr_stream.read(blk, off, ksz)
            vh, blk, off = self.xattr_stream.read(blk, off, 4)
            vsz = struct.unpack("<I", vh)[0]
            if typ & 0x100:
                r, blk, off = self.xattr_stream.read(blk, off, 8)
                r = struct.unpack("<Q", r)[0]
                b2, o2 = r >> 16, r & 0xFFFF
                vh2, b2, o2 = self.xattr_stream.read(b2, o2, 4)
                vsz2 = struct.unpack("<I", vh2)[0]
                val, _, _ = self.xattr_stream.read(b2, o2, vsz2)
            else:
                val, blk, off = self.xattr_stream.read(blk, off, vsz)
            pfx = PREFIX.get(typ & 0xFF)
            if pfx is None:
                raise ParseError("unknown xattr prefix %d" % typ)
            out[(pfx + key).decode("latin-1")] = val.hex()
        return out

    # ---- inodes ----
    def inode(self, ref):
        if ref in self._node_cache:
            return self._node_cache[ref]
        blk, off = ref >> 16, ref & 0xFFFF
        ms = self.inodes
        h, blk, off = ms.read(blk, off, 16)
        typ, mode, uidx, gidx, mtime, ino = struct.unpack("<HHHHII", h)
        n = Node()
        n.ref, n.raw_type, n.mode, n.uid_idx, n.gid_idx, n.mtime, n.ino = ref, typ, mode, uidx, gidx, mtime, ino
        if uidx >= len(self.ids) or gidx >= len(self.ids):
            raise ParseError("id index out of range")
        n.uid, n.gid = self.ids[uidx], self.ids[gidx]
        n.ext = typ > 7
        base = typ - 7 if typ > 7 else typ
        if not 1 <= base <= 7:
            raise ParseError("bad inode type %d" % typ)
        n.type = base
        n.xattr_idx = NOID
        n.nlink = 1
        if typ == 1:
            b, blk, off = ms.read(blk, off, 16)
            n.dir_start, n.nlink, n.size, n.dir_off, n.parent_ino = struct.unpack("<IIHHI", b)
        elif typ == 8:
            b, blk, off = ms.read(blk, off, 24)
            n.nlink, n.size, n.dir_start, n.parent_ino, icount, n.dir_off, n.xattr_idx = struct.unpack("<IIIIHHI", b)
            n.index = []
            for _ in range(icount):
                b, blk, off = ms.read(blk, off, 12)
                idx, sb, sz = struct.unpack("<III", b)
                nm, blk, off = ms.read(blk, off, sz + 1)
                n.index.append((idx, sb, nm))
        elif typ == 2:
            b, blk, off = ms.read(blk, off, 16)
            n.blocks_start, n.frag_idx, n.frag_off, n.size = struct.unpack("<IIII", b)
            n.sparse = 0
        elif typ == 9:
            b, blk, off = ms.read(blk, off, 40)
            n.blocks_start, n.size, n.sparse, n.nlink, n.frag_idx, n.frag_off, n.xattr_idx = struct.unpack("<QQQIIII", b)
        elif typ in (3, 10):
            b, blk, off = ms.read(blk, off, 8)
            n.nlink, tsz = struct.unpack("<II", b)
            n.target, blk, off = ms.read(blk, off, tsz)
            n.size = tsz
            if typ == 10:
                b, blk, off = ms.read(blk, off, 4)
                n.xattr_idx = struct.unpack("<I", b)[0]
        elif typ in (4, 5, 11, 12):
            b, blk, off = ms.read(blk, off, 8)
            n.nlink, n.dev = struct.unpack("<II", b)
            if typ > 7:
                b, blk, off = ms.read(blk, off, 4)
                n.xattr_idx = struct.unpack("<I", b)[0]
        elif typ in (6, 7, 13, 14):
            b, blk, off = ms.read(blk, off, 4)
            n.nlink = struct.unpack("<I", b)[0]
            if typ > 7:
                b, blk, off = ms.read(blk, off, 4)
                n.xattr_idx = struct.unpack("<I", b)[0]
        if n.type == T_FILE:
            bs = self.bs
            nblk = n.size // bs
            if n.frag_idx == NOID and n.size % bs:
                nblk += 1
            if nblk > (1 << 26):
                raise ParseError("absurd block count")
            b, blk, off = ms.read(blk, off, 4 * nblk)
            n.block_sizes = list(struct.unpack("<%dI" % nblk, b))
        n.xattrs = self.xattrs(n.xattr_idx)
        self._node_cache[ref] = n
        return n

    def readdir(self, n):
        """list of (name, inode_ref, type, inode_number) in on-disk order, plus header records."""
        if n.type != T_DIR:
            raise ParseError("not a directory")
        size = n.size
        if size < 3:
            raise ParseError("directory size < 3")
        remaining = size - 3
        blk, off = n.dir_start, n.dir_off
        ents = []
        headers = []
        ms = self.dirs
        while remaining > 0:
            if remaining < 12:
                raise ParseError("directory listing truncated (header)")
            pos = size - 3 - remaining
            h, blk, off = ms.read(blk, off, 12)
            remaining -= 12
            count, start, ino = struct.unpack("<III", h)
            if count >= 256:
                raise ParseError("directory header count %d" % (count + 1))
            hd = dict(count=count + 1, start=start, ino=ino, pos=pos, meta_blk=None, entries=[])
            headers.append(hd)
            for _ in range(count + 1):
                if remaining < 8:
                    raise ParseError("directory listing truncated (entry)")
                e, blk, off = ms.read(blk, off, 8)
                eoff, diff, typ, nsz = struct.unpack("<HhHH", e)
                nm, blk, off = ms.read(blk, off, nsz + 1)
                remaining -= 8 + nsz + 1
                if remaining < 0:
                    raise ParseError("directory entry overruns listing")
                ent = (nm, (start << 16) | eoff, typ, (ino + diff) & 0xFFFFFFFF)
                ents.append(ent)
                hd["entries"].append(dict(name=nm, off=eoff, diff=diff, type=typ))
        return ents, headers

    def walk(self, max_nodes=1 << 20):
        """dict path(bytes) -> Node; directories get .children (sorted as on disk)."""
        out = {}
        root = self.inode(self.super["root_ref"])
        stack = [(b"", root, frozenset([root.ref]))]
        cnt = 0
        while stack:
            path, n, anc = stack.pop()
            out[path] = n
            cnt += 1
            if cnt > max_nodes:
                raise ParseError("too many nodes")
            if n.type == T_DIR:
                ents, hdrs = self.readdir(n)
                n.children = ents
                for nm, ref, typ, ino in reversed(ents):
                    if ref in anc:
                        raise ParseError("directory loop")
                    c = self.inode(ref)
                    p = (path + b"/" + nm) if path else nm
                    stack.append((p, c, anc | {ref}))
        return out

    # ---- file data ----
    def file_blocks(self, n):
        """[(offset, stored_size, compressed?, logical_len)]; sparse blocks have stored_size 0"""
        out = []
        pos = n.blocks_start
        rem = n.size
        for w in n.block_sizes:
            sz = w & 0xFFFFFF
            comp = not (w & (1 << 24))
            ln = min(self.bs, rem)
            out.append((pos, sz, comp, ln))
            pos += sz
            rem -= ln
        return out

    def read_file(self, n):
        out = []
        for pos, sz, comp, ln in self.file_blocks(n):
            if sz == 0:
                out.append(b"\0" * ln)
                continue
            if pos + sz > len(self.data):
                raise ParseError("data block out of bounds")
            raw = self.data[pos:pos + sz]
            blk = decompress(self.super["comp_id"], raw, self.bs) if comp else raw
            if len(blk) != ln:
                raise ParseError("data block length %d, expected %d" % (len(blk), ln))
            out.append(blk)
        if n.frag_idx != NOID:
            tail = n.size % self.bs
            if n.frag_idx >= len(self.frags):
                raise ParseError("fragment index out of range")
            start, w, _ = self.frags[n.frag_idx]
            sz = w & 0xFFFFFF
            raw = self.data[start:start + sz]
            fb = raw if (w & (1 << 24)) else decompress(self.super["comp_id"], raw, self.bs)
            if n.frag_off + tail > len(fb):
                raise ParseError("fragment slice out of block")
            out.append(fb[n.frag_off:n.frag_off + tail])
        return b"".join(out)

    # ---- invariants (C03 oracle) ----
    def validate(self, devblk=4096):
        """Returns a list of strings, one per violated invariant. Empty = structurally valid."""
        bad = []
        s = self.super
        d = self.data
        if s["block_size"] != 1 << s["block_log"] or not (4096 <= s["block_size"] <= 1 << 20):
            bad.append("block_size/block_log inconsistent")
        if s["comp_id"] not in COMP:
            bad.append("compressor id")
        if len(d) % devblk != 0:
            bad.append("file size %d not padded to %d" % (len(d), devblk))
        if s["bytes_used"] > len(d) or len(d) - s["bytes_used"] >= devblk:
            bad.append("bytes_used %d inconsistent with file size %d" % (s["bytes_used"], len(d)))
        if any(d[s["bytes_used"]:]):
            bad.append("padding not zero")
        order = [("inode_table_start", s["inode_table_start"]), ("dir_table_start", s["dir_table_start"])]
        for k in ("frag_table_start", "export_table_start", "id_table_start", "xattr_table_start"):
            if s[k] != NOTBL:
                order.append((k, s[k]))
        for (ka, a), (kb, b) in zip(order, order[1:]):
            if a > b:
                bad.append("table order: %s=%d > %s=%d" % (ka, a, kb, b))
        if order[-1][1] >= s["bytes_used"]:
            bad.append("last table start beyond bytes_used")
        try:
            tree = self.walk()
        except ParseError as e:
            return bad + ["walk: %s" % e]
        nodes = {}
        refs_count = {}
        for p, n in tree.items():
            nodes.setdefault(n.ino, n)
            if nodes[n.ino].ref != n.ref:
                bad.append("inode number %d used by two inodes" % n.ino)
            refs_count[n.ino] = refs_count.get(n.ino, 0) + 1
        N = s["inode_count"]
        if sorted(nodes) != list(range(1, N + 1)):
            bad.append("inode numbers are not exactly 1..%d (have %d distinct, min %s max %s)" % (
                N, len(nodes), min(nodes) if nodes else None, max(nodes) if nodes else None))
        for p, n in tree.items():
            if n.type == T_DIR:
                ents, hdrs = self.readdir(n)
                names = [e[0] for e in ents]
                for a, b in zip(names, names[1:]):
                    if not a < b:
                        bad.append("directory %r not strictly sorted: %r >= %r" % (p, a, b))
                        break
                nsub = sum(1 for e in ents if tree[(p + b"/" + e[0]) if p else e[0]].type == T_DIR)
                if n.nlink != nsub + 2 and n.nlink != len(ents) + 2:
                    bad.append("directory %r link count %d (subdirs %d, entries %d)" % (p, n.nlink, nsub, len(ents)))
                for h in hdrs:
                    if not 1 <= h["count"] <= 256:
                        bad.append("directory header count %d" % h["count"])
                    for e in h["entries"]:
                        if not -32768 <= e["diff"] <= 32767:
                            bad.append("inode delta out of range")
                        if e["off"] >= META:
                            bad.append("entry inode offset >= 8192")
                for nm, ref, typ, ino in ents:
                    c = tree[(p + b"/" + nm) if p else nm]
                    if c.ino != ino:
                        bad.append("dir entry %r inode number %d != inode's %d" % (nm, ino, c.ino))
                    if typ != c.type:
                        bad.append("dir entry %r type %d != inode basic type %d" % (nm, typ, c.type))
                    if c.type == T_DIR and c.parent_ino != n.ino:
                        bad.append("parent inode number of %r is %d, expected %d" % (nm, c.parent_ino, n.ino))
                    if len(nm) < 1 or len(nm) > 256:
                        bad.append("name length")
                if n.index is not None:
                    starts = {h["pos"]: h for h in hdrs}
                    for idx, sb, nm in n.index:
                        if idx not in starts:
                            bad.append("directory index of %r points at %d, not a header" % (p, idx))
                        else:
                            h = starts[idx]
                            if h["entries"][0]["name"] != nm:
                                bad.append("directory index name %r != first entry %r" % (nm, h["entries"][0]["name"]))
            else:
                if n.type != T_DIR and n.nlink != refs_count.get(n.ino, 0):
                    bad.append("link count of %r is %d, referenced %d times" % (p, n.nlink, refs_count.get(n.ino, 0)))
            if n.type == T_FILE:
                for pos, sz, comp, ln in self.file_blocks(n):
                    if sz > self.bs:
                        bad.append("data block of %r stored size %d > block size" % (p, sz))
                    if comp and sz >= ln and sz != 0:
                        bad.append("compressed data block of %r not smaller than its data (%d >= %d)" % (p, sz, ln))
                    if sz and pos + sz > s["inode_table_start"]:
                        bad.append("data block of %r beyond data area" % (p,))
                try:
                    self.read_file(n)
                except (ParseError, Exception) as e:
                    bad.append("file %r unreadable: %s" % (p, e))
                if n.frag_idx != NOID and n.frag_idx >= s["frag_count"]:
                    bad.append("fragment index out of range")
        for st in (self.inodes, self.dirs, self.xattr_stream):
            if st is None:
                continue
            for off, b in st.blocks_seen.items():
                if b["stored"] > META or b["length"] > META:
                    bad.append("metadata block > 8192")
                if not b["uncompressed"] and b["stored"] >= b["length"]:
                    bad.append("compressed metadata block at +%d not smaller than its data (%d >= %d)" % (off, b["stored"], b["length"]))
        for start, w, _ in self.frags:
            sz = w & 0xFFFFFF
            if sz > self.bs:
                bad.append("fragment block stored size > block size")
        if self.export is not None:
            for ino, ref in enumerate(self.export, 1):
                if ino in nodes and nodes[ino].ref != ref:
                    bad.append("export table entry %d = %#x, inode is at %#x" % (ino, ref, nodes[ino].ref))
        root = self.inode(s["root_ref"])
        if root.type != T_DIR:
            bad.append("root is not a directory")
        return bad


# --------------------------------------------------------------------------
# Builder: independent writer, uncompressed metadata, every field overridable
# --------------------------------------------------------------------------

class BNode:
    """Description of one inode for the Builder."""

    def __init__(self, typ, mode=0o644, uid=0, gid=0, mtime=0, **kw):
        self.typ = typ            # T_*
        self.mode = mode
        self.uid = uid
        self.gid = gid
        self.mtime = mtime
        self.children = kw.get("children", [])   # list of (name bytes, BNode) -- written in the order given
        self.target = kw.get("target", b"")
        self.dev = kw.get("dev", 0)
        self.data = kw.get("data", b"")
        self.nlink = kw.get("nlink", None)
        self.ext = kw.get("ext", False)
        self.ov = kw.get("ov", {})                # field overrides, see Builder
        self.ino = None
        self.ref = None


class Builder:
    """Writes: super | data blocks (stored uncompressed) | inode table | dir table | frag table | id table.
    Metadata blocks are stored uncompressed.  `ov` dicts override on-disk fields by name:
      inode: type mode uid_idx gid_idx mtime ino nlink size start_block offset parent frag_idx frag_off
             blocks_start file_size block_sizes target_size dev
      dir entries (per child, via BNode.ov of the *child*): ent_name ent_type ent_off ent_diff ent_start
      header (per directory): hdr_count hdr_start hdr_ino
    super overrides: Builder.super_ov.
    """

    def __init__(self, root, block_size=4096, comp_id=1, super_ov=None, frag=False, pad=4096):
        self.root = root
        self.bs = block_size
        self.comp_id = comp_id
        self.super_ov = super_ov or {}
        self.pad = pad
        self.use_frag = frag

    def build(self):
        bs = self.bs
        ids = []

        def idx(v):
            if v not in ids:
                ids.append(v)
            return ids.index(v)
        # number inodes: children before parents (as the reference writer does), root last
        order = []

        def number(n):
            for _, c in n.children:
                if c.ino is None:
                    number(c)
            if n.ino is None:
                order.append(n)
                n.ino = len(order)
        number(self.root)
        out = bytearray(b"\0" * 96)
        # data
        frag_data = bytearray()
        frags = []
        for n in order:
            if n.typ == T_FILE:
                n._blocks_start = len(out)
                n._sizes = []
                n._frag = (NOID, 0)
                d = n.data
                full = len(d) // bs
                for i in range(full):
                    blk = d[i * bs:(i + 1) * bs]
                    if blk.count(0) == len(blk):
                        n._sizes.append(0)
                    else:
                        out += blk
                        n._sizes.append(len(blk) | (1 << 24))
                tail = d[full * bs:]
                if tail:
                    if self.use_frag:
                        if len(frag_data) + len(tail) > bs:
                            frags.append((len(out), len(frag_data) | (1 << 24)))
                            out += frag_data
                            frag_data = bytearray()
                        n._frag = (len(frags), len(frag_data))
                        frag_data += tail
                    else:
                        out += tail
                        n._sizes.append(len(tail) | (1 << 24))
        if frag_data:
            frags.append((len(out), len(frag_data) | (1 << 24)))
            out += frag_data
        # directory table first (needs inode refs -> two passes: compute inode sizes first)
        def inode_size(n):
            t = n.typ
            ext = n.ext or n.ov.get("force_ext")
            if t == T_DIR:
                return 16 + (24 if ext else 16)
            if t == T_FILE:
                return 16 + (40 if ext else 16) + 4 * len(n.ov.get("block_sizes", n._sizes))
            if t == T_SLINK:
                return 16 + 8 + len(n.target) + (4 if ext else 0)
            if t in (T_BDEV, T_CDEV):
                return 16 + 8 + (4 if ext else 0)
            return 16 + 4 + (4 if ext else 0)
        pos = 0
        for n in order:
            n._ipos = pos
            pos += inode_size(n)
        # refs: position in uncompressed stream -> (block start on disk, offset); blocks are 8192 + 2 header
        def ref_of(p):
            b = p // META
            return ((b * (META + 2)) << 16) | (p % META)
        for n in order:
            n.ref = n.ov.get("ref", ref_of(n._ipos))
        dirstream = bytearray()
        for n in order:
            if n.typ != T_DIR:
                continue
            n._dpos = len(dirstream)
            listing = bytearray()
            ch = n.children
            i = 0
            while i < len(ch):
                # run: same inode metadata block, max 256
                first = ch[i][1]
                fb = first.ref >> 16
                run = []
                while i < len(ch) and len(run) < 256 and (ch[i][1].ref >> 16) == fb and \
                        -32768 <= ch[i][1].ino - first.ino <= 32767:
                    run.append(ch[i])
                    i += 1
                listing += struct.pack("<III", n.ov.get("hdr_count", len(run) - 1) & 0xFFFFFFFF,
                                       n.ov.get("hdr_start", fb) & 0xFFFFFFFF, n.ov.get("hdr_ino", first.ino) & 0xFFFFFFFF)
                for nm, c in run:
                    nm2 = c.ov.get("ent_name", nm)
                    listing += struct.pack("<HhHH", c.ov.get("ent_off", c.ref & 0xFFFF) & 0xFFFF,
                                           c.ov.get("ent_diff", c.ino - first.ino),
                                           c.ov.get("ent_type", c.typ) & 0xFFFF,
                                           c.ov.get("ent_nsize", len(nm2) - 1) & 0xFFFF) + nm2
            n._dsize = len(listing) + 3
            dirstream += listing
        # inode table
        parents = {}
        for n in order:
            for _, c in n.children:
                parents.setdefault(id(c), n)
        ist = bytearray()
        for n in order:
            o = n.ov
            ext = n.ext or o.get("force_ext")
            t = n.typ + (7 if ext else 0)
            nl = n.nlink
            if nl is None:
                nl = (2 + sum(1 for _, c in n.children if c.typ == T_DIR)) if n.typ == T_DIR else 1
            hdr = struct.pack("<HHHHII", o.get("type", t) & 0xFFFF, o.get("mode", n.mode) & 0xFFFF,
                              o.get("uid_idx", idx(n.uid)) & 0xFFFF, o.get("gid_idx", idx(n.gid)) & 0xFFFF,
                              o.get("mtime", n.mtime) & 0xFFFFFFFF, o.get("ino", n.ino) & 0xFFFFFFFF)
            body = b""
            if n.typ == T_DIR:
                par = parents.get(id(n))
                pino = par.ino if par else len(order) + 1
                db, do = (n._dpos // META) * (META + 2), n._dpos % META
                if ext:
                    body = struct.pack("<IIIIHHI", o.get("nlink", nl) & 0xFFFFFFFF, o.get("size", n._dsize) & 0xFFFFFFFF,
                                       o.get("start_block", db) & 0xFFFFFFFF, o.get("parent", pino) & 0xFFFFFFFF,
                                       o.get("icount", 0) & 0xFFFF, o.get("offset", do) & 0xFFFF, o.get("xattr", NOID))
                else:
                    body = struct.pack("<IIHHI", o.get("start_block", db) & 0xFFFFFFFF, o.get("nlink", nl) & 0xFFFFFFFF,
                                       o.get("size", n._dsize) & 0xFFFF, o.get("offset", do) & 0xFFFF,
                                       o.get("parent", pino) & 0xFFFFFFFF)
            elif n.typ == T_FILE:
                sizes = o.get("block_sizes", n._sizes)
                fi, fo = n._frag
                if ext:
                    body = struct.pack("<QQQIIII", o.get("blocks_start", n._blocks_start), o.get("file_size", len(n.data)),
                                       o.get("sparse", 0), o.get("nlink", nl) & 0xFFFFFFFF, o.get("frag_idx", fi) & 0xFFFFFFFF,
                                       o.get("frag_off", fo) & 0xFFFFFFFF, o.get("xattr", NOID))
                else:
                    body = struct.pack("<IIII", o.get("blocks_start", n._blocks_start) & 0xFFFFFFFF,
                                       o.get("frag_idx", fi) & 0xFFFFFFFF, o.get("frag_off", fo) & 0xFFFFFFFF,
                                       o.get("file_size", len(n.data)) & 0xFFFFFFFF)
                body += b"".join(struct.pack("<I", w & 0xFFFFFFFF) for w in sizes)
            elif n.typ == T_SLINK:
                body = struct.pack("<II", o.get("nlink", nl) & 0xFFFFFFFF, o.get("target_size", len(n.target)) & 0xFFFFFFFF) + n.target
                if ext:
                    body += struct.pack("<I", o.get("xattr", NOID))
            elif n.typ in (T_BDEV, T_CDEV):
                body = struct.pack("<II", o.get("nlink", nl) & 0xFFFFFFFF, o.get("dev", n.dev) & 0xFFFFFFFF)
                if ext:
                    body += struct.pack("<I", o.get("xattr", NOID))
            else:
                body = struct.pack("<I", o.get("nlink", nl) & 0xFFFFFFFF)
                if ext:
                    body += struct.pack("<I", o.get("xattr", NOID))
            assert len(hdr) + len(body) == inode_size(n), (n.typ, len(body), inode_size(n))
            ist += hdr + body

        def meta_blocks(stream):
            o = bytearray()
            for i in range(0, max(len(stream), 1), META):
                chunk = stream[i:i + META]
                o += struct.pack("<H", len(chunk) | 0x8000) + chunk
            return o
        inode_start = len(out)
        out += meta_blocks(ist)
        dir_start = len(out)
        out += meta_blocks(dirstream)
        frag_start = NOTBL
        if frags:
            fb = b"".join(struct.pack("<QII", a, b, 0) for a, b in frags)
            locs = []
            for i in range(0, len(fb), META):
                locs.append(len(out))
                chunk = fb[i:i + META]
                out += struct.pack("<H", len(chunk) | 0x8000) + chunk
            frag_start = len(out)
            out += b"".join(struct.pack("<Q", l) for l in locs)
        idb = b"".join(struct.pack("<I", v & 0xFFFFFFFF) for v in ids)
        locs = []
        for i in range(0, len(idb), META):
            locs.append(len(out))
            chunk = idb[i:i + META]
            out += struct.pack("<H", len(chunk) | 0x8000) + chunk
        id_start = len(out)
        out += b"".join(struct.pack("<Q", l) for l in locs)
        bytes_used = len(out)
        if self.pad and len(out) % self.pad:
            out += b"\0" * (self.pad - len(out) % self.pad)
        sv = dict(magic=MAGIC, inode_count=len(order), mod_time=0, block_size=bs, frag_count=len(frags),
                  comp_id=self.comp_id, block_log=bs.bit_length() - 1,
                  flags=0x0001 | 0x0002 | 0x0008 | 0x0800 | 0x0200 | (0 if frags else 0x0010),
                  id_count=len(ids), ver_major=4, ver_minor=0, root_ref=self.root.ref, bytes_used=bytes_used,
                  id_table_start=id_start, xattr_table_start=NOTBL, inode_table_start=inode_start,
                  dir_table_start=dir_start, frag_table_start=frag_start, export_table_start=NOTBL)
        sv.update(self.super_ov)
        struct.pack_into(SUPER_FMT, out, 0, *[sv[k] & ((1 << (8 * struct.calcsize("<" + f))) - 1)
                                              for k, f in zip(SUPER_FIELDS, SUPER_FMT[1:])])
        self.layout = dict(inode_start=inode_start, dir_start=dir_start, frag_start=frag_start, id_start=id_start,
                           bytes_used=bytes_used, ids=ids, order=order)
        return bytes(out)


def tree_summary(img):
    """canonical {path: summary} of an Image for comparisons"""
    t = img.walk()
    out = {}
    for p, n in t.items():
        d = n.summary()
        if n.type == T_FILE:
            import hashlib
            d["sha256"] = hashlib.sha256(img.read_file(n)).hexdigest()
        out[p.decode("latin-1")] = d
    return out
