(* ImgReader — the embedding (definitions only).

   coq/Img's writer model produces the inode table bytes, the directory table bytes, the id table contents and
   the root reference (TreeModel.simg).  coq/C05's reader model consumes the whole image byte list [img], the
   decoded super block [sup] and a C-style decompressor.  This file says
     * when an image + super block CONTAIN a serializer output ([laid]) and gives the minimal image that does
       ([layout]: arbitrary prefix, inode table, directory table, id table written by C03's write_table);
     * how the two vocabularies of inodes and trees correspond ([conv]: the C05 inode sqfs_meta_reader_read_inode
       builds for a C01 inode; [ltree_of]: a C05 tree read as an Img.ltree);
     * the decompressor contract that links C05's [uc] to Img's [uncompress];
     * the (decidable) conditions under which the reader's allocations stay below the allocator limit of the
       C05 model ([alloc_fits]) and the fuel bounds. *)
From Coq Require Import List NArith ZArith Bool.
From SqfsV Require Import Base.Bytes Gen.Constants.
From SqfsV Require C03.Common C03.MetaModel C03.DirModel C03.TableModel.
From SqfsV Require C01.Res C01.InodeModel Img.TreeModel.
From SqfsV Require Import C05.RBase C05.GenC05 C05.Meta C05.Super C05.Inode C05.Dir.
From SqfsV Require Import ImgReader.MetaRefine.
Import ListNotations.
Local Open Scope N_scope.

(* ------------------------------------------------------------------ *)
(* decompressor contract                                                *)
(* ------------------------------------------------------------------ *)
(* C05's [uc inp cap] is do_block in uncompress mode with an output buffer of [cap] bytes.  What the theorems
   need: input that is a compressed metadata block (in the sense of the abstract inverse [uncompress] of the
   writer's compressor) whose contents fit a metadata block is decompressed to exactly these contents. *)
Definition uc_meets (uncompress : list N -> option (list N)) (uc : list N -> N -> res (list N)) : Prop :=
  forall c b, uncompress c = Some b -> cl b <= meta_sz -> uc c meta_sz = Ok b.

(* ------------------------------------------------------------------ *)
(* inodes                                                               *)
(* ------------------------------------------------------------------ *)
Definition idx_bytes (idx : list InodeModel.dir_idx) : list N := flat_map InodeModel.enc_idx idx.

Definition conv_base (i : InodeModel.inode) : ibase :=
  let b := InodeModel.i_base i in
  MkBase (InodeModel.type_of (InodeModel.i_body i)) (InodeModel.ib_mode b) (InodeModel.ib_uid b)
         (InodeModel.ib_gid b) (InodeModel.ib_mtime b) (InodeModel.ib_ino b).

(* the sqfs_inode_generic_t that read_inode.c builds for the on-disk form of [i] *)
Definition conv (i : InodeModel.inode) : inode :=
  let b := conv_base i in
  match InodeModel.i_body i with
  | InodeModel.BDir sb nl sz off par => MkInode b (IDir sb nl sz off par) 0 [] []
  | InodeModel.BFile st fi fo fs bl => MkInode b (IFile st fi fo fs) (u32 (Res.nlen bl * 4)) bl []
  | InodeModel.BSlink nl t => MkInode b (ISlink nl (Res.nlen t)) (u32 (Res.nlen t)) [] t
  | InodeModel.BDev _ nl d => MkInode b (IDev nl d) 0 [] []
  | InodeModel.BIpc _ nl _ => MkInode b (IIpc nl) 0 [] []
  | InodeModel.BDirX nl sz sb par ic off xa idx =>
      MkInode b (IDirExt nl sz sb par ic off xa) (u32 (cl (idx_bytes idx))) [] (idx_bytes idx)
  | InodeModel.BFileX st fs sp nl fi fo xa bl =>
      MkInode b (IFileExt st fs sp nl fi fo xa) (u32 (Res.nlen bl * 4)) bl []
  | InodeModel.BSlinkX nl t xa => MkInode b (ISlinkExt nl (Res.nlen t) xa) (u32 (Res.nlen t)) [] t
  | InodeModel.BDevX _ nl d xa => MkInode b (IDevExt nl d xa) 0 [] []
  | InodeModel.BIpcX _ nl xa => MkInode b (IIpcExt nl xa) 0 [] []
  end.

(* ------------------------------------------------------------------ *)
(* trees                                                                *)
(* ------------------------------------------------------------------ *)
Definition is_chr_type (t : N) : bool := (t =? c_SQFS_INODE_CDEV) || (t =? c_SQFS_INODE_EXT_CDEV).
Definition is_sock_type (t : N) : bool := (t =? c_SQFS_INODE_SOCKET) || (t =? c_SQFS_INODE_EXT_SOCKET).

Definition lkind_of_c05 (i : inode) : TreeModel.lkind :=
  match i_data i with
  | IDir _ _ _ _ par => TreeModel.LDir par
  | IDirExt _ _ _ par _ _ _ => TreeModel.LDir par
  | IFile st fi fo sz => TreeModel.LFile st sz 0 fi fo (i_words i)
  | IFileExt st sz sp _ fi fo _ => TreeModel.LFile st sz sp fi fo (i_words i)
  | ISlink _ _ => TreeModel.LSlink (i_bytes i)
  | ISlinkExt _ _ _ => TreeModel.LSlink (i_bytes i)
  | IDev _ d => TreeModel.LDev (is_chr_type (b_type (i_base i))) d
  | IDevExt _ d _ => TreeModel.LDev (is_chr_type (b_type (i_base i))) d
  | IIpc _ => TreeModel.LIpc (is_sock_type (b_type (i_base i)))
  | IIpcExt _ _ => TreeModel.LIpc (is_sock_type (b_type (i_base i)))
  end.

Definition nlink_of_c05 (i : inode) : N :=
  match i_data i with
  | IDir _ nl _ _ _ => nl
  | IDirExt nl _ _ _ _ _ _ => nl
  | IFile _ _ _ _ => 1
  | IFileExt _ _ _ nl _ _ _ => nl
  | ISlink nl _ => nl
  | ISlinkExt nl _ _ => nl
  | IDev nl _ => nl
  | IDevExt nl _ _ => nl
  | IIpc nl => nl
  | IIpcExt nl _ => nl
  end.

(* what a tree node of read_tree.c (inode + the resolved uid / gid) says, in Img's vocabulary *)
Definition lview_of_c05 (i : inode) (u g : N) : TreeModel.lview :=
  TreeModel.mkLv (b_mode (i_base i)) (Some u) (Some g) (b_mtime (i_base i)) (b_inum (i_base i))
                 (nlink_of_c05 i) (inode_xattr_index i) (lkind_of_c05 i).

Definition tree_name (t : tree) : list N := match t with Node nm _ _ _ _ => nm end.

Fixpoint ltree_of (t : tree) : TreeModel.ltree :=
  match t with
  | Node _ ino u g ch => TreeModel.LT (lview_of_c05 ino u g) (map (fun c => (tree_name c, ltree_of c)) ch)
  end.

(* ------------------------------------------------------------------ *)
(* where the tables are                                                 *)
(* ------------------------------------------------------------------ *)
(* [MetaRefine.window img base d]: [d] is what the image holds at byte offset [base] *)

(* limit of the directory meta reader (sqfs_dir_reader_create) *)
Definition dir_limit (s : sup) : N :=
  let limit0 := s_id_start s in
  let limit1 := if s_frag_start s <? limit0 then s_frag_start s else limit0 in
  if s_export_start s <? limit1 then s_export_start s else limit1.

(* lower bound of the id table's blocks (sqfs_id_table_read) *)
Definition id_lower (s : sup) : N :=
  let upper := s_id_start s in
  let lower0 := s_dir_start s in
  let lower1 := if (lower0 <? s_frag_start s) && (s_frag_start s <? upper) then s_frag_start s else lower0 in
  if (lower1 <? s_export_start s) && (s_export_start s <? upper) then s_export_start s else lower1.

Section Laid.
  Variable compress : list N -> Common.cres.

  (* image [img] with decoded super block [s] contains the serializer output [si] for data block size [bs]:
     the inode table at inode_table_start and entirely below directory_table_start, the directory table at
     directory_table_start and entirely below the next table, the id table as sqfs_write_table (C03) writes it
     somewhere above the directory table with its location list at id_table_start, root reference, block size,
     id count.  Everything else in the image is arbitrary. *)
  Record laid (img : list N) (s : sup) (bs : N) (si : TreeModel.simg) : Prop := mkLaid {
    ld_small : cl img < two63;
    ld_itbl : window img (s_inode_start s) (TreeModel.si_itbl si);
    ld_iend : s_inode_start s + cl (TreeModel.si_itbl si) <= s_dir_start s;
    ld_dtbl : window img (s_dir_start s) (TreeModel.si_dtbl si);
    ld_dend : s_dir_start s + cl (TreeModel.si_dtbl si) <= dir_limit s;
    ld_root : s_root s = TreeModel.si_root si;
    ld_bs : s_block_size s = bs;
    ld_idc : s_id_count s = Res.nlen (TreeModel.si_ids si);
    ld_id : exists size0 bytes,
        TableModel.write_table compress size0 (InodeModel.id_table_bytes (TreeModel.si_ids si))
          = Common.Ok (bytes, s_id_start s) /\
        window img size0 bytes /\ id_lower s <= size0 /\ s_id_start s < s_bytes_used s
  }.

  (* the minimal image: [pre] (super block, data blocks, whatever), inode table, directory table, id table *)
  Definition layout_parts (pre : list N) (si : TreeModel.simg) : option (list N * N) :=
    let size0 := cl pre + cl (TreeModel.si_itbl si) + cl (TreeModel.si_dtbl si) in
    match TableModel.write_table compress size0 (InodeModel.id_table_bytes (TreeModel.si_ids si)) with
    | Common.Ok (idb, start) => Some (pre ++ TreeModel.si_itbl si ++ TreeModel.si_dtbl si ++ idb, start)
    | _ => None
    end.

  Definition layout (pre : list N) (si : TreeModel.simg) : list N :=
    match layout_parts pre si with Some (img, _) => img | None => [] end.

  (* the super block fields the reader stack looks at (the rest: no fragment / export / xattr table) *)
  Definition layout_sup (pre : list N) (bs : N) (comp : N) (si : TreeModel.simg) : sup :=
    let istart := cl pre in
    let dstart := istart + cl (TreeModel.si_itbl si) in
    let idstart := match layout_parts pre si with Some (_, st) => st | None => 0 end in
    MkSup (Res.nlen (TreeModel.si_refs si)) 0 bs 0 comp (N.log2 bs) c_SQFS_FLAG_NO_FRAGMENTS
          (Res.nlen (TreeModel.si_ids si)) (TreeModel.si_root si) (cl (layout pre si))
          idstart max64 istart dstart max64 max64.
End Laid.

(* ------------------------------------------------------------------ *)
(* allocator limit and fuel                                             *)
(* ------------------------------------------------------------------ *)
(* The C05 model refuses allocations above [alloc_limit] (2 GiB, the limit the implementation is run with);
   an inode whose variable part is larger is answered with SQFS_ERROR_ALLOC although the format allows it
   (tables up to 4 GiB).  The theorems are stated for inodes below that limit: block list, symlink target,
   directory index (the index buffer is doubled, hence the factor 2). *)
Definition inode_alloc_ok (i : InodeModel.inode) : bool :=
  match InodeModel.i_body i with
  | InodeModel.BFile _ _ _ _ bl => gsz + Res.nlen bl * 4 <=? alloc_limit
  | InodeModel.BFileX _ _ _ _ _ _ _ bl => gsz + Res.nlen bl * 4 <=? alloc_limit
  | InodeModel.BSlink _ t => gsz + Res.nlen t + 1 <=? alloc_limit
  | InodeModel.BSlinkX _ t _ => gsz + Res.nlen t + 1 <=? alloc_limit
  | InodeModel.BDirX _ _ _ _ _ _ _ idx => gsz + 2 * cl (idx_bytes idx) + 256 <=? alloc_limit
  | _ => true
  end.

Definition alloc_fits (si : TreeModel.simg) : bool := forallb inode_alloc_ok (TreeModel.si_inodes si).

(* entries of the largest directory *)
Definition max_entries (t : TreeModel.fstree) : nat :=
  fold_right (fun n a => match TreeModel.fn_payload n with
                         | TreeModel.PDir _ ch => Nat.max (length ch) a
                         | _ => a
                         end) O t.

(* number of metadata blocks of a table (2 bytes header + at least 1 byte each) *)
Definition meta_blocks (uncompress : list N -> option (list N)) (tbl : list N) : nat :=
  match MetaModel.parse_blocks uncompress (length tbl) tbl 0 with
  | Some l => length l
  | None => O
  end.
