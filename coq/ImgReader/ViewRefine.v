(* ImgReader — the two vocabularies agree: what read_tree.c stores in a tree node for [conv i] (inode fields,
   uid / gid through sqfs_id_table_index_to_id) is what Img's reader specification reports for [i]. *)
From Coq Require Import List NArith ZArith Lia Bool ZifyBool ZifyNat ZifyN.
From SqfsV Require Import Base.Bytes Gen.Constants.
From SqfsV Require C03.Common.
From SqfsV Require C01.GenC01 C01.Res C01.InodeModel C01.InodeProofs Img.TreeModel.
From SqfsV Require Import C05.RBase C05.GenC05 C05.Meta C05.Super C05.Inode C05.Dir.
From SqfsV Require Import ImgReader.MetaRefine ImgReader.Embed.
Import ListNotations.
Local Open Scope N_scope.

Lemma is_dir_conv i :
  is_dir_type (b_type (i_base (conv i))) =
  match TreeModel.dir_loc (InodeModel.i_body i) with Some _ => true | None => false end.
Proof.
  destruct i as [b body]. destruct body; try destruct chr; try destruct sock; reflexivity.
Qed.

Lemma readdir_init_conv s i sb off sz :
  TreeModel.dir_loc (InodeModel.i_body i) = Some (sb, off, sz) ->
  readdir_init s (conv i) = Ok (MkRd 0 (u64 (sb + s_dir_start s)) off (u32 sz) 0 0).
Proof.
  destruct i as [b body]. destruct body; cbn [TreeModel.dir_loc InodeModel.i_body]; try discriminate;
    intro H; injection H as <- <- <-; reflexivity.
Qed.

Lemma inum_conv i : b_inum (i_base (conv i)) = InodeModel.ib_ino (InodeModel.i_base i).
Proof. destruct i as [b body]. destruct body; reflexivity. Qed.

Lemma id_lookup_index ids idx u :
  InodeModel.index_to_id ids idx = Some u -> id_lookup ids idx = Ok u.
Proof.
  unfold InodeModel.index_to_id, id_lookup, nth_chk, nN, Res.nlen, RBase.lenN.
  destruct (N.ltb_spec idx (N.of_nat (length ids))) as [L|L]; [|discriminate].
  intro H. destruct (N.leb_spec (N.of_nat (length ids)) idx) as [|_]; [lia|]. rewrite H. reflexivity.
Qed.

Lemma lkind_conv i : lkind_of_c05 (conv i) = TreeModel.lkind_of_body (InodeModel.i_body i).
Proof.
  destruct i as [b body]. destruct body; try destruct chr; try destruct sock; reflexivity.
Qed.

Lemma nlink_conv i : nlink_of_c05 (conv i) = InodeModel.nlink_of (InodeModel.i_body i).
Proof. destruct i as [b body]. destruct body; reflexivity. Qed.

Lemma xattr_conv i : inode_xattr_index (conv i) = InodeModel.get_xattr_index (InodeModel.i_body i).
Proof. destruct i as [b body]. destruct body; reflexivity. Qed.

(* a tree node of read_tree.c for [conv i] *)
Lemma view_conv ids i v :
  TreeModel.lview_of_inode ids i = v ->
  forall u g, TreeModel.lv_uid v = Some u -> TreeModel.lv_gid v = Some g ->
  node_ids ids (conv i) = (u, g, true) /\ lview_of_c05 (conv i) u g = v.
Proof.
  intros <- u g Hu Hg. unfold TreeModel.lview_of_inode in *. cbn [TreeModel.lv_uid TreeModel.lv_gid] in Hu, Hg.
  split.
  - unfold node_ids.
    replace (b_uid (i_base (conv i))) with (InodeModel.ib_uid (InodeModel.i_base i))
      by (destruct i as [b body]; destruct body; reflexivity).
    replace (b_gid (i_base (conv i))) with (InodeModel.ib_gid (InodeModel.i_base i))
      by (destruct i as [b body]; destruct body; reflexivity).
    rewrite (id_lookup_index _ _ _ Hu), (id_lookup_index _ _ _ Hg). reflexivity.
  - unfold lview_of_c05. rewrite lkind_conv, nlink_conv, xattr_conv, inum_conv, Hu, Hg.
    destruct i as [b body]. destruct body; reflexivity.
Qed.
