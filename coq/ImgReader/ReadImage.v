(* ImgReader — the reader model run on a whole image file (definitions only; extracted by
   coq/Extract/ExtractC01Reader.v).

   [read_image_c05] is the sequence every tool performs before it looks at a path, in C05's model of libsquashfs:
   sqfs_super_read, sqfs_id_table_read, sqfs_dir_reader_create + sqfs_dir_reader_get_full_hierarchy (C05.Run.run_all
   without the fragment table / data queries).  [uc_of] turns an abstract decompressor (the inverse of the writer's
   compressor, as Img's theorems quantify over it) into the C style one of the C05 model (do_block in uncompress mode:
   input, capacity of the output buffer; [Ok []] = "does not fit"). *)
From Coq Require Import List NArith ZArith Bool.
From SqfsV Require Import Base.Bytes Gen.Constants.
From SqfsV Require C14.SuperModel.
From SqfsV Require Img.TreeModel.
From SqfsV Require Import C05.RBase C05.GenC05 C05.Meta C05.Super C05.Inode C05.Dir.
From SqfsV Require Import ImgReader.MetaRefine ImgReader.Embed.
Import ListNotations.
Local Open Scope N_scope.

Definition uc_of (uncompress : list N -> option (list N)) (c : list N) (cap : N) : res (list N) :=
  match uncompress c with
  | Some b => if cl b <=? cap then Ok b else Ok []
  | None => Err E_COMPRESSOR
  end.

(* sqfs_super_t as sqfs_super_read leaves it (C14's record) in the C05 model's vocabulary *)
Definition sup_of (f : SuperModel.super) : sup :=
  MkSup (SuperModel.s_inode_count f) (SuperModel.s_mtime f) (SuperModel.s_block_size f) (SuperModel.s_frag_count f)
        (SuperModel.s_comp_id f) (SuperModel.s_block_log f) (SuperModel.s_flags f) (SuperModel.s_id_count f)
        (SuperModel.s_root_ref f) (SuperModel.s_bytes_used f) (SuperModel.s_id_start f) (SuperModel.s_xattr_start f)
        (SuperModel.s_inode_start f) (SuperModel.s_dir_start f) (SuperModel.s_frag_start f)
        (SuperModel.s_export_start f).

(* behind the super block: the id table, then the whole hierarchy *)
Definition read_tables_c05 (uc : list N -> N -> res (list N)) (depth efuel fuel : nat) (img : list N) (s : sup)
  : res (list N * tree) :=
  do ids <- id_table_read uc img fuel s;
  do (_, T) <- full_hierarchy uc img depth efuel fuel s ids (dreader_create s);
  Ok (ids, T).

Definition read_image_c05 (uc : list N -> N -> res (list N)) (depth efuel fuel : nat) (img : list N)
  : res (sup * list N * tree) :=
  do s <- super_read img;
  do (ids, T) <- read_tables_c05 uc depth efuel fuel img s;
  Ok (s, ids, T).

(* the same, in Img's vocabulary: the tree as (view, named children) *)
Definition read_image_ltree (uc : list N -> N -> res (list N)) (depth efuel fuel : nat) (img : list N)
  : res TreeModel.ltree :=
  do (_, _, T) <- read_image_c05 uc depth efuel fuel img;
  Ok (ltree_of T).

(* fuel that suffices for an image whose inode / directory table have these sizes (every metadata block occupies at
   least 3 bytes; the id table has at most 32 blocks) *)
Definition reader_fuel (itbl dtbl : list N) : nat := Nat.max 64 (Nat.max (length itbl) (length dtbl)).

(* ---- boolean equality of trees in Img's vocabulary (for examples that compute; sound: Closed.ltree_eqb_eq) ---- *)
Fixpoint listN_eqb (a b : list N) : bool :=
  match a, b with
  | [], [] => true
  | x :: a', y :: b' => (x =? y) && listN_eqb a' b'
  | _, _ => false
  end.

Definition optN_eqb (a b : option N) : bool :=
  match a, b with
  | Some x, Some y => x =? y
  | None, None => true
  | _, _ => false
  end.

Definition lkind_eqb (a b : TreeModel.lkind) : bool :=
  match a, b with
  | TreeModel.LDir p, TreeModel.LDir q => p =? q
  | TreeModel.LFile a1 a2 a3 a4 a5 w, TreeModel.LFile b1 b2 b3 b4 b5 v =>
      (a1 =? b1) && (a2 =? b2) && (a3 =? b3) && (a4 =? b4) && (a5 =? b5) && listN_eqb w v
  | TreeModel.LSlink t, TreeModel.LSlink u => listN_eqb t u
  | TreeModel.LDev c d, TreeModel.LDev c' d' => Bool.eqb c c' && (d =? d')
  | TreeModel.LIpc s, TreeModel.LIpc s' => Bool.eqb s s'
  | _, _ => false
  end.

Definition lview_eqb (a b : TreeModel.lview) : bool :=
  (TreeModel.lv_mode a =? TreeModel.lv_mode b) && optN_eqb (TreeModel.lv_uid a) (TreeModel.lv_uid b) &&
  optN_eqb (TreeModel.lv_gid a) (TreeModel.lv_gid b) && (TreeModel.lv_mtime a =? TreeModel.lv_mtime b) &&
  (TreeModel.lv_ino a =? TreeModel.lv_ino b) && (TreeModel.lv_nlink a =? TreeModel.lv_nlink b) &&
  (TreeModel.lv_xattr a =? TreeModel.lv_xattr b) && lkind_eqb (TreeModel.lv_kind a) (TreeModel.lv_kind b).

Fixpoint ltree_eqb (a b : TreeModel.ltree) : bool :=
  match a, b with
  | TreeModel.LT va ea, TreeModel.LT vb eb =>
      lview_eqb va vb &&
      (fix go (x y : list (list N * TreeModel.ltree)) : bool :=
         match x, y with
         | [], [] => true
         | (n1, t1) :: x', (n2, t2) :: y' => listN_eqb n1 n2 && ltree_eqb t1 t2 && go x' y'
         | _, _ => false
         end) ea eb
  end.

Definition opt_ltree_eqb (a b : option TreeModel.ltree) : bool :=
  match a, b with
  | Some x, Some y => ltree_eqb x y
  | _, _ => false
  end.

(* ---- entry points of the tie's driver (props/C01/reader_driver.ml), with result types of their own so that the
        extracted names do not depend on how many [res] types an extraction contains ---- *)
Inductive rdout :=
| RTree (s : sup) (ids : list N) (lt : TreeModel.ltree)
| RErr (e : Z)
| RCrash
| RFuel.

Definition read_image_out (uc : list N -> N -> res (list N)) (depth efuel fuel : nat) (img : list N) : rdout :=
  match read_image_c05 uc depth efuel fuel img with
  | Ok (s, ids, T) => RTree s ids (ltree_of T)
  | Err e => RErr e
  | Crash => RCrash
  | OutOfFuel => RFuel
  end.

(* the decidable hypotheses of Closed.read_tables_serialized_l on a tree: (representable, trace_fits, alloc_fits) of
   the model's own serializer run; None = the model refuses the tree *)
Definition hyp_flags (compress : list N -> Common.cres) (limit bs : N) (t : TreeModel.fstree)
  : option (bool * bool * bool) :=
  match TreeModel.serialize_fstree compress limit t with
  | Res.Ok si => Some (TreeModel.representable bs t, TreeModel.trace_fits si, alloc_fits si)
  | _ => None
  end.
