(* ImgReader — [alloc_fits] from a bound on the INPUT tree.

   Embed.alloc_fits asks of every written inode that its variable part stays below the allocation limit of the C05
   reader model (block list, symlink target, 2 x directory index + 256).  It is a condition on the serializer's
   output.  Here it is derived from a decidable condition on the tree handed to the serializer:
     regular file   gsz + 4 * #block size words          <= alloc_limit
     symbolic link  gsz + |target| + 1                   <= alloc_limit
     directory      every entry name is at most [max_name] = 16000 bytes long
   together with [trace_fits] (fewer than 65536 index entries per directory): an index entry carries 12 bytes + the
   name of one entry of the directory (Img.SerDefs.idx_facts), so the index has less than 65536 * 16012 bytes. *)
From Coq Require Import List NArith ZArith Lia Bool ZifyBool ZifyNat ZifyN.
From SqfsV Require Import Base.Bytes Gen.Constants C03.Common C03.ListN C03.MetaModel C03.MetaProofs C03.MetaRT
  C03.DirModel C03.DirProofs C03.DirRT C03.DirEnd.
From SqfsV Require Import C01.GenC01 C01.Res C01.InodeModel C01.InodeProofs.
From SqfsV Require Import Img.TreeModel Img.MetaLemmas Img.InodeLemmas Img.SerDefs Img.SerDir Img.SerProofs
  Img.Final Img.Domain Img.ReadProofs Img.TreeRT.
From SqfsV Require C05.RBase C05.GenC05 C05.Inode.
From SqfsV Require Import ImgReader.MetaRefine ImgReader.Embed ImgReader.InodeRefine.
Import ListNotations.
Local Open Scope N_scope.

Definition max_name : N := 16000.

Definition lkind_alloc_okb (k : lkind) : bool :=
  match k with
  | LFile _ _ _ _ _ bl => Inode.gsz + nlen bl * 4 <=? RBase.alloc_limit
  | LSlink t => Inode.gsz + nlen t + 1 <=? RBase.alloc_limit
  | _ => true
  end.

Definition payload_alloc_okb (p : fpayload) : bool :=
  match p with
  | PDir _ ch => forallb (fun e => nlen (fst e) <=? max_name) ch
  | _ => lkind_alloc_okb (lkind_of_payload p)
  end.

(* the decidable input condition *)
Definition tree_alloc_okb (t : fstree) : bool := forallb (fun n => payload_alloc_okb (fn_payload n)) t.

Definition idx_of_body (b : ibody) : list dir_idx :=
  match b with BDirX _ _ _ _ _ _ _ idx => idx | _ => [] end.

Lemma body_alloc b :
  lkind_alloc_okb (lkind_of_body b) = true ->
  Inode.gsz + 2 * cl (idx_bytes (idx_of_body b)) + 256 <= RBase.alloc_limit ->
  inode_alloc_ok (mkInode (mkBase 0 0 0 0 0) b) = true.
Proof.
  intros H1 H2. unfold inode_alloc_ok. cbn [InodeModel.i_body].
  destruct b; cbn [lkind_of_body lkind_alloc_okb idx_of_body] in *; try reflexivity; try exact H1.
  apply N.leb_le. exact H2.
Qed.

Lemma inode_alloc_body i j : InodeModel.i_body i = InodeModel.i_body j -> inode_alloc_ok i = inode_alloc_ok j.
Proof. unfold inode_alloc_ok. intros ->. reflexivity. Qed.

Lemma cl_enc_idx e : cl (enc_idx e) = 12 + cl (dx_name e).
Proof. unfold enc_idx. rewrite ListN.lenN_app, cl_encf. reflexivity. Qed.

Lemma idx_bytes_bound (idx : list dir_idx) L :
  Forall (fun e => cl (dx_name e) <= L) idx -> cl (idx_bytes idx) <= cl idx * (12 + L).
Proof.
  unfold idx_bytes. induction 1 as [|e r He _ IH]; [cbn; lia|].
  cbn [flat_map]. rewrite ListN.lenN_app, cl_enc_idx, ListN.lenN_cons. lia.
Qed.

Lemma idx_nil_ok : Inode.gsz + 2 * cl (idx_bytes []) + 256 <= RBase.alloc_limit.
Proof. vm_compute. discriminate. Qed.

(* the index a directory inode carries is the one the directory writer produced, or none *)
Lemma idx_shape n r s c idx par :
  tn_kind n = KDir r s c idx par -> idx_of_body (shape n) = idx \/ idx_of_body (shape n) = [].
Proof.
  intro K. unfold shape. rewrite K. cbn [is_kdir negb]. rewrite andb_false_r.
  unfold set_xattr_index, dir_create_inode.
  destruct (N.eqb_spec (tn_xattr n) NOX) as [E|E]; cbn [negb orb].
  - destruct ((U32MAX <? r / 65536) || (U16MAX - 3 <? s) || (c_DIR_INDEX_THRESHOLD <=? c)); cbn; auto.
  - cbn. auto.
Qed.

Lemma idx_shape_other n :
  (match tn_kind n with KFile b => is_file b = true | _ => True end) ->
  (match tn_kind n with KDir _ _ _ _ _ => False | _ => True end) ->
  idx_of_body (shape n) = [].
Proof.
  intros Hf Hd. pose proof (lkind_shape n Hf) as L.
  destruct (tn_kind n) as [r s c idx par|b|t|ch d|so]; try contradiction; cbn [lkind_of_nkind] in L.
  - destruct b; try discriminate; destruct (shape n); cbn in L |- *; try discriminate; reflexivity.
  - destruct (shape n); cbn in L |- *; try discriminate; reflexivity.
  - destruct (shape n); cbn in L |- *; try discriminate; reflexivity.
  - destruct (shape n); cbn in L |- *; try discriminate; reflexivity.
Qed.

Section AB.
  Variable compress : list N -> cres.
  Variable uncompress : list N -> option (list N).
  Hypothesis compress_ok :
    forall b c, compress b = CData c -> cl c <= cl b /\ uncompress c = Some b.
  Variable limit : N.
  Hypothesis limit_ok : limit <= 65536.
  Variable bs : N.
  Variable t : fstree.
  Variable si : simg.
  Hypothesis Hrep : representable bs t = true.
  Hypothesis Hser : serialize_fstree compress limit t = Res.Ok si.
  Hypothesis Hfit : trace_fits si = true.
  Hypothesis Htree : tree_alloc_okb t = true.

  Theorem alloc_fits_of_tree : alloc_fits si = true.
  Proof.
    destruct (serialize_final compress uncompress compress_ok limit t si (repr_children_before bs t Hrep) Hser)
      as (a & im & dm & FIN).
    unfold alloc_fits. apply forallb_forall. intros i Hin.
    destruct (In_nth_error _ _ Hin) as [j Hj].
    assert (Hlen : (j < length t)%nat).
    { pose proof FIN as (_ & _ & _ & _ & _ & _ & _ & _ & _ & _ & _ & _ & _ & _ & _ & L3 & _).
      rewrite <- L3. apply nth_error_Some. congruence. }
    destruct (node_run_of compress uncompress compress_ok limit limit_ok bs t si Hrep Hfit a im dm j FIN Hlen)
      as (n & tn & i' & b & r & NR).
    pose proof NR as [N1 N2 N3 _ _ _ _ _ _ N10 _ N12 _ N14].
    rewrite Hj in N3. injection N3 as <-.
    (* what the tree says about node j *)
    unfold tree_alloc_okb in Htree. rewrite forallb_forall in Htree.
    pose proof (Htree n (nth_error_In _ _ N1)) as Pn.
    pose proof (node_file_ok bs tn N12) as Hf.
    rewrite (inode_alloc_body i (mkInode (mkBase 0 0 0 0 0) (shape tn))) by exact N14.
    apply body_alloc.
    - rewrite (lkind_shape tn Hf), (kind_payload compress t _ _ _ _ _ N10).
      destruct (fn_payload n); try exact Pn. reflexivity.
    - destruct (tn_kind tn) as [rr sz c idx par'|b0|tg|cd dv|so] eqn:K.
      + (* a directory *)
        destruct (fn_payload n) as [par ch| | | |] eqn:P; cbn [SerDefs.KindOk] in N10; try contradiction.
        destruct N10 as [_ (ents & pre & post & D1 & _ & _ & _ & _ & D6)].
        destruct (idx_shape tn rr sz c idx par' K) as [-> | ->];
          [|exact idx_nil_ok].
        destruct (trace_fits_facts si Hfit) as (_ & _ & TN).
        pose proof (TN tn (nth_error_In _ _ N2)) as Q. rewrite K in Q. destruct Q as [_ Q].
        pose proof (dents_of_rel _ _ _ _ D1) as R.
        cbn [payload_alloc_okb] in Pn. rewrite forallb_forall in Pn.
        assert (NB : Forall (fun e => cl (dx_name e) <= max_name) idx).
        { apply Forall_forall. intros e He. unfold idx_facts in D6. rewrite Forall_forall in D6.
          destruct (D6 e He) as (_ & _ & d & Hd & ->).
          clear - R Hd Pn. induction R as [|x y ch0 ents0 Hxy _ IH]; [contradiction|].
          destruct Hd as [<-|Hd].
          - destruct Hxy as (E1 & _). rewrite E1. specialize (Pn x (or_introl eq_refl)).
            apply N.leb_le in Pn. exact Pn.
          - apply IH; [intros z Hz; apply Pn; right; exact Hz|exact Hd]. }
        pose proof (idx_bytes_bound idx max_name NB) as B.
        unfold nlen in Q. change (N.of_nat (length idx)) with (cl idx) in Q.
        unfold RBase.alloc_limit, Inode.gsz, GenC05.c5_sizeof_sqfs_inode_generic_t, max_name in *. nia.
      + rewrite idx_shape_other; [|rewrite K; exact Hf|rewrite K; exact I].
        exact idx_nil_ok.
      + rewrite idx_shape_other; [|rewrite K; exact I|rewrite K; exact I].
        exact idx_nil_ok.
      + rewrite idx_shape_other; [|rewrite K; exact I|rewrite K; exact I].
        exact idx_nil_ok.
      + rewrite idx_shape_other; [|rewrite K; exact I|rewrite K; exact I].
        exact idx_nil_ok.
  Qed.
End AB.
