(* ImgReader — non-vacuity of the end-to-end theorems: the ten add operations of ImgPost/Example.v (implicit
   directories, a hard link chain defined before its target, links to a device and to a symlink, a link that makes
   reorder_hard_links move its target) are post-processed, written as a whole image (export table, data area) and
   read back by the C05 reader model from the bytes of the file: the flattened tree is the flattening of what the
   adds denote, with the hard-link groups {d/sub/f, a, d/l2, z}, {dev, B}, {s, d/sub/k}. *)
From Coq Require Import List NArith ZArith Bool.
From SqfsV Require Import Base.Bytes Gen.Constants C03.Common.
From SqfsV Require Import C01.GenC01 C01.Res C01.InodeModel Img.TreeModel.
From SqfsV Require Import C11.StrOrder C11.FstreeModel C11.PostModel.
From SqfsV Require Import ImgPost.Bridge ImgPost.InputOk ImgPost.PathsModel ImgPost.PathsProofs ImgPost.Example.
From SqfsV Require Import Image.FinishModel Image.ImageProofs.
From SqfsV Require Import ImgReader.MetaRefine ImgReader.Embed ImgReader.ReadImage ImgReader.ImageLaid ImgReader.AllocBound
  ImgReader.E2E.
From SqfsV Require Import C05.RBase C05.Super C05.Inode C05.Dir.
Import ListNotations.
Local Open Scope N_scope.

Definition e2e_cfg : wcfg := mkCfg 4096 1600000000 1 4096 true false.
Definition e2e_inp (pp : ppout) : winput := mkIn [] (repeat 7 5000) [] (to_img exp_fb exp_xa pp) None.
Definition e2e_uc : list N -> N -> res (list N) := uc_of (img_uncompress 3).

Definition e2e_run : option (ppout * wimage * res (sup * list N * tree)) :=
  match exp_pp with
  | Some pp =>
      match write_image (img_compress 3) c_id_table_limit e2e_cfg (e2e_inp pp) with
      | Res.Ok w =>
          Some (pp, w,
                read_image_c05 e2e_uc (length (pp_inodes pp)) (S (max_entries (to_img exp_fb exp_xa pp)))
                               (reader_fuel (si_itbl (w_img w)) (si_dtbl (w_img w))) (image_bytes w))
      | _ => None
      end
  | None => None
  end.

(* the decidable hypotheses of pack_image_read_by_reader (input_okb / attached_okb: ImgPost/Example.v) *)
Example ex_e2e_hyps :
  match e2e_run with
  | Some (pp, w, _) =>
      image_rest_okb e2e_cfg (e2e_inp pp) = true /\ image_fits w = true /\ reader_fits w = true /\
      tree_alloc_okb (to_img exp_fb exp_xa pp) = true /\ (cl (image_bytes w) <? two63) = true /\
      c_block_size e2e_cfg = 4096 /\ length (pp_inodes pp) = 7%nat /\ max_entries (to_img exp_fb exp_xa pp) = 6%nat
  | None => False
  end.
Proof. vm_compute. repeat split; reflexivity. Qed.

Example ex_e2e_read :
  match e2e_run with
  | Some (pp, w, Ok (s, ids, T)) =>
      s = sup_of (w_super w) /\ ids = si_ids (w_img w) /\ ids = [1000; 100; 0; 5; 6; 1; 2] /\
      flat_lt [] (ltree_of T) = map (number (pp_inodes pp))
                                    (flat_pp exp_fb exp_xa (pp_root pp) (pp_inodes pp) [] (pp_root pp)) /\
      map (fun x => (fst (fst x), snd x)) (flat_lt [] (ltree_of T)) =
        [([], 7); ([n_B], 6); ([n_a], 1); ([n_d], 5); ([n_d; n_l2], 1); ([n_d; n_sub], 4); ([n_d; n_sub; n_f], 1);
         ([n_d; n_sub; n_k], 3); ([n_d; n_sub; n_p], 2); ([n_dev], 6); ([n_s], 3); ([n_z], 1)] /\
      group_of N.eqb (flat_lt [] (ltree_of T)) 1 = [[n_a]; [n_d; n_l2]; [n_d; n_sub; n_f]; [n_z]] /\
      group_of N.eqb (flat_lt [] (ltree_of T)) 3 = [[n_d; n_sub; n_k]; [n_s]] /\
      map (fun x => snd (fst x)) (filter (fun x => path_eqb (fst (fst x)) [n_d; n_l2]) (flat_lt [] (ltree_of T))) =
        [mkPv 33188 (Some 1000) (Some 100) 1600000000 NOX (LFile 96 5000 0 NOX NOX [4096; 904])]
  | _ => False
  end.
Proof. vm_compute. repeat split; reflexivity. Qed.
