(* ImgReader — layer (e): the C05 model of sqfs_read_table (coq/C05/Super.v: allocation arithmetic, the location
   list read with read_at, one meta reader seek + read per block through the [lower, upper) window) run on a lookup
   table as C03's model of sqfs_write_table lays it out returns the table; sqfs_id_table_read on a laid-out
   serializer output returns the id table sqfs_serialize_fstree built. *)
From Coq Require Import List NArith ZArith Lia Bool ZifyBool ZifyNat ZifyN.
From SqfsV Require Import Base.Bytes Gen.Constants C03.Common C03.ListN C03.MetaModel C03.MetaProofs C03.MetaRT
  C03.TableModel C03.TableProofs.
From SqfsV Require C01.GenC01 C01.Res C01.InodeModel Img.TreeModel.
From SqfsV Require Import C05.RBase C05.GenC05 C05.Meta C05.Super.
From SqfsV Require Import ImgReader.MetaRefine ImgReader.Embed ImgReader.Tables.
Import ListNotations.
Local Open Scope N_scope.
Ltac Zify.zify_post_hook ::= Z.div_mod_to_equations.

Lemma MB_is : MB = 8192.
Proof. reflexivity. Qed.

(* ---- an array of k byte little endian numbers, read the C05 way ---- *)
Lemma skipn_app_exact {A} (a b : list A) n : length a = n -> skipn n (a ++ b) = b.
Proof. intros <-. rewrite skipn_app, Nat.sub_diag, skipn_all. reflexivity. Qed.

Lemma items_le k : forall l rest, Forall (fun x => x < 256 ^ N.of_nat k) l ->
  items k (length l) (concat (map (le k) l) ++ rest) = l.
Proof.
  induction l as [|x l IH]; intros rest F; [reflexivity|].
  cbn [length items map concat]. rewrite <- app_assoc. f_equal.
  - unfold rdk. rewrite rd_le_mod, N.mod_mod by (apply N.pow_nonzero; discriminate).
    apply N.mod_small. exact (Forall_inv F).
  - rewrite skipn_app_exact by apply le_length. apply IH. exact (Forall_inv_tail F).
Qed.

Lemma lenN_concat_le k l : cl (concat (map (le k) l)) = N.of_nat k * cl l.
Proof.
  induction l as [|x l IH]; [cbn; lia|]. cbn [map concat]. rewrite ListN.lenN_app, lenN_le, IH, ListN.lenN_cons. lia.
Qed.

Section RT.
  Variable compress : list N -> cres.
  Variable uncompress : list N -> option (list N).
  Hypothesis compress_ok :
    forall b c, compress b = CData c -> cl c <= cl b /\ uncompress c = Some b.
  Variable uc : list N -> N -> res (list N).
  Hypothesis uc_ok : uc_meets uncompress uc.
  Variable img : list N.
  Hypothesis img_small : cl img < two63.

  Notation enc := (enc compress).
  Notation table_ok := (table_ok compress img).
  Notation Coh := (Coh compress).
  Notation Rd := (Rd compress).
  Notation bpos := (bpos compress).

  (* the while loop of sqfs_read_table over the blocks j, j+1, ... of a table area *)
  Lemma rt_loop_ok T fuel :
    table_ok T -> Forall full (removelast (t_raws T)) -> (2 * length (t_raws T) <= fuel)%nat ->
    forall cnt j m, (j + cnt = length (t_raws T))%nat -> Coh T m ->
      rt_loop uc img fuel m (map (bpos T) (seq j cnt)) (cl (concat (skipn j (t_raws T))))
      = Ok (concat (skipn j (t_raws T))).
  Proof.
    intros TO FU Hf. pose proof TO as (F & _).
    induction cnt as [|cnt IH]; intros j m Hj C.
    - rewrite skipn_all2 by lia. reflexivity.
    - assert (Hlt : (j < length (t_raws T))%nat) by lia.
      rewrite (skipn_S_nth [] j (t_raws T) Hlt). set (c := nth j (t_raws T) []).
      set (rest := skipn (S j) (t_raws T)).
      pose proof (nth_blk_ok T j F Hlt) as [Hc0 Hc1]. fold c in Hc0, Hc1.
      cbn [concat seq map rt_loop]. rewrite ListN.lenN_app.
      destruct (N.eqb_spec (cl c + cl (concat rest)) 0) as [|_]; [lia|].
      (* seek to the start of block j *)
      assert (P : PosAt compress T (bpos T j, 0) (c ++ concat rest)).
      { exists j. cbn [fst snd]. split; [reflexivity|]. split; [unfold suffix; rewrite dropN_0; reflexivity|].
        left. split; [exact Hlt|exact Hc0]. }
      assert (Hne : c ++ concat rest <> []).
      { intro E. assert (Z : cl (c ++ concat rest) = 0) by (rewrite E; reflexivity). rewrite ListN.lenN_app in Z. lia. }
      destruct (mr_seek_ok compress uncompress compress_ok uc uc_ok img img_small T m _ _ _ TO C P Hne) as (m1 & SK & R1).
      rewrite SK. cbn [bind].
      (* the chunk is the whole block *)
      assert (Hd : (if cl c + cl (concat rest) <? meta_sz then cl c + cl (concat rest) else meta_sz) = cl c).
      { rewrite meta_sz_MB.
        destruct (Nat.eq_dec (S j) (length (t_raws T))) as [El|Nl].
        - assert (Er : rest = []) by (unfold rest; apply skipn_all2; lia). rewrite Er. cbn [concat].
          rewrite ListN.lenN_nil, N.add_0_r. destruct (N.ltb_spec (cl c) MB); lia.
        - assert (Hfull : full c).
          { unfold c. rewrite <- (nth_removelast [] (t_raws T) j) by lia. rewrite Forall_forall in FU. apply FU.
            apply nth_In. rewrite removelast_length. lia. }
          unfold full in Hfull. destruct (N.ltb_spec (cl c + cl (concat rest)) MB); lia. }
      rewrite Hd.
      destruct (mr_read_ok compress uncompress compress_ok uc uc_ok img img_small T m1 _ fuel
                  (cl c + cl (concat rest)) (cl c) TO R1) as (m2 & RD & R2).
      { rewrite ListN.lenN_app. lia. }
      { lia. }
      { exact Hf. }
      rewrite RD. cbn [bind].
      rewrite takeN_app_exact by reflexivity.
      replace (cl c + cl (concat rest) - cl c) with (cl (concat rest)) by lia.
      unfold rest. rewrite (IH (S j) m2 ltac:(lia) (Rd_Coh compress T _ _ R2)). reflexivity.
  Qed.

  (* sqfs_read_table on what sqfs_write_table appended at size0, found anywhere in the image *)
  Theorem read_table_written size0 data bytes start lower upper fuel :
    write_table compress size0 data = Common.Ok (bytes, start) -> data <> [] ->
    window img size0 bytes -> lower <= size0 -> start <= upper ->
    cl data <= alloc_limit -> (2 * N.to_nat ((cl data + 8191) / 8192) <= fuel)%nat ->
    read_table uc img fuel (cl data) start lower upper = Ok data.
  Proof.
    intros W Hne Win Hlo Hup Hal Hf.
    destruct (write_table_ok_l compress uncompress compress_ok size0 data bytes start W)
      as (chunks & Cat & Fok & Ffull & Hcnt & Hb & Hs & _).
    rewrite MB_is in Hcnt. replace (cl data + 8192 - 1) with (cl data + 8191) in Hcnt by lia.
    set (T := mkT size0 chunks lower upper).
    set (disk := concat (map enc chunks)) in *.
    set (locs := table_locs compress size0 chunks) in *.
    assert (Hdl : 0 < cl data) by (apply lenN_pos; exact Hne).
    assert (Hll : cl locs = cl chunks).
    { unfold locs, table_locs, Common.lenN. rewrite map_length, seq_length. reflexivity. }
    assert (Hbl : cl bytes = cl disk + 8 * cl chunks).
    { rewrite Hb, ListN.lenN_app. unfold le64. rewrite lenN_concat_le, Hll. lia. }
    assert (Hc1 : 1 <= cl chunks) by lia.
    assert (Hbne : bytes <> []).
    { intro E. rewrite E, ListN.lenN_nil in Hbl. lia. }
    pose proof (window_len _ _ _ Win Hbne) as WL.
    assert (TO : table_ok T).
    { unfold MetaRefine.table_ok, T. cbn [t_raws t_base t_start t_limit]. change (MetaRefine.disk compress (mkT size0 chunks lower upper)) with disk.
      split; [exact Fok|]. split; [exact Hlo|]. split; [lia|].
      replace size0 with (size0 + 0) by lia. apply (window_sub img size0 bytes 0 disk Win).
      rewrite dropN_0, Hb. apply takeN_app_exact. reflexivity. }
    assert (Hlocs : locs = map (bpos T) (seq 0 (length chunks))).
    { unfold locs, table_locs. apply map_ext. intro k. reflexivity. }
    unfold read_table, malloc_chk.
    destruct (N.ltb_spec alloc_limit (cl data)) as [|_]; [lia|]. cbn [bind].
    assert (Hbc : cl data / meta_sz + (if cl data mod meta_sz =? 0 then 0 else 1) = cl chunks).
    { rewrite Hcnt, meta_sz_MB, MB_is. destruct (N.eqb_spec (cl data mod 8192) 0); lia. }
    rewrite Hbc.
    unfold alloc_array, sz_mul_ov, malloc_chk. unfold alloc_limit, two64 in *.
    destruct (N.ltb_spec (cl chunks * 8) 18446744073709551616) as [_|]; [|lia].
    destruct (N.ltb_spec 2147483648 (cl chunks * 8)) as [|_]; [lia|]. cbn [bind].
    unfold put_check. destruct (N.leb_spec (0 + 8 * cl chunks) (cl chunks * 8)) as [_|]; [|lia]. cbn [bind].
    (* the location list *)
    assert (Hloc : read_at img start (8 * cl chunks) = Ok (concat (map le64 locs))).
    { rewrite Hs. fold disk.
      rewrite (read_at_window img size0 bytes (cl disk) (8 * cl chunks) Win).
      - rewrite Hb, dropN_app_exact by reflexivity. rewrite takeN_all; [reflexivity|].
        unfold le64. rewrite lenN_concat_le, Hll. lia.
      - lia.
      - lia.
      - unfold two63 in *. lia. }
    rewrite Hloc. cbn [bind].
    assert (Hit : items 8 (nN (cl chunks)) (concat (map le64 locs)) = locs).
    { replace (nN (cl chunks)) with (length locs) by (unfold nN; rewrite <- Hll; unfold Common.lenN; lia).
      rewrite <- (app_nil_r (concat (map le64 locs))). apply items_le.
      rewrite Hlocs. apply Forall_forall. intros x Hx. apply in_map_iff in Hx. destruct Hx as (k & <- & _).
      pose proof (bpos_le_end compress uncompress compress_ok uc uc_ok img img_small T k) as B. change (t_base T) with size0 in B.
      change (MetaRefine.disk compress T) with disk in B.
      change (256 ^ N.of_nat 8) with 18446744073709551616.
      unfold two63 in *. lia. }
    rewrite Hit, Hlocs.
    pose proof (rt_loop_ok T fuel TO Ffull) as RL. change (t_raws T) with chunks in RL.
    assert (Hf' : (2 * length chunks <= fuel)%nat).
    { assert (length chunks = N.to_nat ((cl data + 8191) / 8192)) by (rewrite <- Hcnt; unfold Common.lenN; lia). lia. }
    specialize (RL Hf' (length chunks) 0%nat (mr_create lower upper) eq_refl (Coh_create compress T)).
    cbn [skipn] in RL. rewrite Cat in RL. exact RL.
  Qed.
End RT.

(* ---- sqfs_id_table_read ---- *)
Section IDT.
  Variable compress : list N -> cres.
  Variable uncompress : list N -> option (list N).
  Hypothesis compress_ok :
    forall b c, compress b = CData c -> cl c <= cl b /\ uncompress c = Some b.
  Variable uc : list N -> N -> res (list N).
  Hypothesis uc_ok : uc_meets uncompress uc.

  Lemma id_bytes_len l : cl (InodeModel.id_table_bytes l) = 4 * cl l.
  Proof. unfold InodeModel.id_table_bytes. rewrite flat_map_concat_map. unfold le32. apply lenN_concat_le. Qed.

  Lemma id_table_read_unfold img fuel s :
    id_table_read uc img fuel s =
    if (s_id_count s =? 0) || (s_bytes_used s <=? s_id_start s) then Err E_CORRUPTED
    else
      do raw <- read_table uc img fuel (s_id_count s * 4) (s_id_start s) (id_lower s) (s_id_start s);
      do _ <- put_check (RBase.lenN raw) 0 (s_id_count s * 4);
      Ok (items 4 (nN (s_id_count s)) raw).
  Proof. reflexivity. Qed.

  Theorem id_table_read_ok img s bs si fuel :
    laid compress img s bs si ->
    Forall (fun x => x < 4294967296) (TreeModel.si_ids si) -> 1 <= Res.nlen (TreeModel.si_ids si) ->
    Res.nlen (TreeModel.si_ids si) <= 65536 -> (64 <= fuel)%nat ->
    id_table_read uc img fuel s = Ok (TreeModel.si_ids si).
  Proof.
    intros LD F32 H1 H2 Hf. destruct LD. destruct ld_id as (size0 & bytes & W & Win & Hlo & Hlt).
    set (ids := TreeModel.si_ids si) in *.
    assert (Hn : Res.nlen ids = cl ids) by reflexivity.
    rewrite id_table_read_unfold, ld_idc.
    destruct (N.eqb_spec (Res.nlen ids) 0) as [|_]; [lia|].
    destruct (N.leb_spec (s_bytes_used s) (s_id_start s)) as [|_]; [lia|]. cbn [orb].
    pose proof (id_bytes_len ids) as BL.
    assert (E4 : Res.nlen ids * 4 = cl (InodeModel.id_table_bytes ids)) by (rewrite BL; lia).
    rewrite E4.
    rewrite (read_table_written compress uncompress compress_ok uc uc_ok img ld_small size0
               (InodeModel.id_table_bytes ids) bytes (s_id_start s) (id_lower s) (s_id_start s) fuel W).
    - cbn [bind]. unfold put_check. rewrite <- E4.
      change (@RBase.lenN N) with (@Common.lenN N). rewrite BL, Hn.
      destruct (N.leb_spec (0 + cl ids * 4) (4 * cl ids)) as [_|]; [|lia]. cbn [bind]. f_equal.
      unfold InodeModel.id_table_bytes. rewrite flat_map_concat_map.
      replace (nN (cl ids)) with (length ids) by (unfold nN, Common.lenN; lia).
      
      rewrite <- (app_nil_r (concat (map le32 ids))). apply (items_le 4). exact F32.
    - intro E. rewrite E, ListN.lenN_nil in BL. lia.
    - exact Win.
    - exact Hlo.
    - lia.
    - rewrite BL. unfold alloc_limit. lia.
    - rewrite BL. assert ((4 * cl ids + 8191) / 8192 <= 32) by lia. lia.
  Qed.
End IDT.
