(* ImgReader — layer (d): sqfs_dir_reader_get_full_hierarchy of the C05 model (dr_get_inode, fill_entries with
   the ancestor check, fill_dir's recursion, resolve_ids) on a laid-out serializer output returns the tree the
   serializer was given. *)
From Coq Require Import List NArith ZArith Lia Bool ZifyBool ZifyNat ZifyN.
From SqfsV Require Import Base.Bytes Gen.Constants C03.Common C03.ListN C03.MetaModel C03.MetaProofs C03.MetaRT
  C03.DirModel C03.DirProofs C03.DirRT C03.DirEnd.
From SqfsV Require Import C01.GenC01 C01.Res C01.InodeModel C01.InodeProofs.
From SqfsV Require Import Img.TreeModel Img.MetaLemmas Img.InodeLemmas Img.SerDefs Img.SerDir Img.SerProofs
  Img.Final Img.Domain Img.ReadProofs Img.TreeRT.
From SqfsV Require Import ImgReader.MetaRefine ImgReader.WriterFacts ImgReader.Embed ImgReader.Tables
  ImgReader.InodeRefine ImgReader.DirRefine ImgReader.ViewRefine.
From SqfsV Require Import C05.RBase C05.GenC05 C05.Meta C05.Super C05.Inode C05.Dir.
Import ListNotations.
Local Open Scope N_scope.
Ltac Zify.zify_post_hook ::= Z.div_mod_to_equations.

Notation cl := Common.lenN.

Lemma ent_rel_unique t refs : forall ch e1 e2,
  Forall2 (ent_rel t refs) ch e1 -> Forall2 (ent_rel t refs) ch e2 -> e1 = e2.
Proof.
  intros ch e1 e2 H1. revert e2. induction H1 as [|c x ch e1 A _ IH]; intros e2 H2.
  - inversion H2. reflexivity.
  - inversion H2 as [|c' y ch' e2' B H2']; subst. f_equal; [|apply IH; exact H2'].
    destruct A as (A1 & A2 & A3 & ta & Ga & Ta). destruct B as (B1 & B2 & B3 & tb & Gb & Tb).
    destruct x, y. cbn in *.
    rewrite Ga in Gb. injection Gb as <-. rewrite Ta in Tb. injection Tb as <-. congruence.
Qed.

Lemma mem_N_ge x anc : Forall (fun a => x < a) anc -> mem_N x anc = false.
Proof.
  induction 1 as [|a r Ha _ IH]; [reflexivity|]. cbn [mem_N]. rewrite IH.
  destruct (N.eqb_spec x a); [lia|reflexivity].
Qed.

(* the second loop of fill_dir, with the recursive call as a parameter *)
Fixpoint children_loop (rec : dreader -> list N -> rdstate -> res (dreader * list tree)) (s : sup) (ids anc : list N)
                       (l : list (list N * inode)) (dr : dreader) : res (dreader * list tree) :=
  match l with
  | [] => Ok (dr, [])
  | (nm, ino) :: rest =>
    let '(u, g, _) := node_ids ids ino in
    if is_dir_type (b_type (i_base ino)) then
      do it' <- readdir_init s ino;
      do (dr2, sub) <- rec dr (b_inum (i_base ino) :: anc) it';
      do (dr3, sibs) <- children_loop rec s ids anc rest dr2;
      Ok (dr3, Node nm ino u g sub :: sibs)
    else
      do (dr3, sibs) <- children_loop rec s ids anc rest dr;
      Ok (dr3, Node nm ino u g [] :: sibs)
  end.

Lemma fill_dir_unfold uc img depth efuel fuel s ids dr anc it :
  fill_dir uc img (S depth) efuel fuel s ids dr anc it =
  (do (dr1, ents) <- fill_entries uc img efuel fuel s dr anc it;
   children_loop (fill_dir uc img depth efuel fuel s ids) s ids anc ents dr1).
Proof.
  cbn [fill_dir]. destruct (fill_entries uc img efuel fuel s dr anc it) as [[dr1 ents]| | |]; cbn [bind]; try reflexivity.
  revert dr1. induction ents as [|[nm ino] rest IH]; intro dr1; [reflexivity|].
  cbn [children_loop]. destruct (node_ids ids ino) as [[u g] ok].
  destruct (is_dir_type (b_type (i_base ino))).
  - destruct (readdir_init s ino) as [it'| | |]; cbn [bind]; try reflexivity.
    destruct (fill_dir uc img depth efuel fuel s ids dr1 (b_inum (i_base ino) :: anc) it') as [[dr2 sub]| | |];
      cbn [bind]; try reflexivity.
    rewrite IH. reflexivity.
  - rewrite IH. reflexivity.
Qed.

(* more fuel does not change what the tree specification says *)
Lemma spec_ents_ext (f g : N -> option ltree) : forall ch sub,
  (forall c x, In c (map snd ch) -> f c = Some x -> g c = Some x) ->
  spec_ents f ch = Some sub -> spec_ents g ch = Some sub.
Proof.
  induction ch as [|[nm c] ch IH]; intros sub H E; [exact E|].
  cbn [spec_ents] in *. fold (spec_ents f ch) in E. fold (spec_ents g ch).
  destruct (f c) as [x|] eqn:F; [|discriminate].
  destruct (spec_ents f ch) as [r|] eqn:R; [|discriminate].
  rewrite (H c x (or_introl eq_refl) F), (IH r (fun c' x' I' => H c' x' (or_intror I')) eq_refl). exact E.
Qed.

Lemma spec_tree_S t f c :
  spec_tree t (S f) c =
  match get t c with
  | None => None
  | Some n =>
    match fn_payload n with
    | PDir _ ch => match spec_ents (spec_tree t f) ch with
                   | Some ents => Some (LT (lview_of_fnode c n) ents)
                   | None => None
                   end
    | _ => Some (LT (lview_of_fnode c n) [])
    end
  end.
Proof. reflexivity. Qed.

Lemma spec_ents_cons st nm c ch :
  spec_ents st ((nm, c) :: ch) =
  match st c, spec_ents st ch with
  | Some x, Some rest => Some ((nm, x) :: rest)
  | _, _ => None
  end.
Proof. reflexivity. Qed.

Lemma spec_tree_mono t : forall f f' c lt, (f <= f')%nat -> spec_tree t f c = Some lt -> spec_tree t f' c = Some lt.
Proof.
  induction f as [|f IH]; intros f' c lt Hle E; [discriminate|].
  destruct f' as [|f']; [lia|]. cbn [spec_tree] in *.
  destruct (get t c) as [n|]; [|discriminate].
  destruct (fn_payload n); try exact E.
  destruct (spec_ents (spec_tree t f) children) as [ents|] eqn:S; [|discriminate].
  rewrite (spec_ents_ext (spec_tree t f) (spec_tree t f') children ents); [exact E| |exact S].
  intros c' x _ F. apply (IH f' c' x); [lia|exact F].
Qed.

Section TR.
  Variable compress : list N -> cres.
  Variable uncompress : list N -> option (list N).
  Hypothesis compress_ok :
    forall b c, compress b = CData c -> cl c <= cl b /\ uncompress c = Some b.
  Variable uc : list N -> N -> res (list N).
  Hypothesis uc_ok : uc_meets uncompress uc.
  Variable limit : N.
  Hypothesis limit_ok : limit <= 65536.
  Variable bs : N.
  Variable t : fstree.
  Variable si : simg.
  Hypothesis Hrep : representable bs t = true.
  Hypothesis Hser : serialize_fstree compress limit t = Res.Ok si.
  Hypothesis Hfit : trace_fits si = true.
  Hypothesis Halloc : alloc_fits si = true.
  Variable img : list N.
  Variable s : sup.
  Hypothesis LD : laid compress img s bs si.
  Variable a : astate.
  Variables im dm : mw.
  Hypothesis FIN : Final compress limit t si a im dm.
  Variable fuel : nat.
  Hypothesis HfuelI : (2 * length (a_rawsI a) <= fuel)%nat.
  Hypothesis HfuelD : (2 * length (a_rawsD a) <= fuel)%nat.

  Notation TI := (TI s a).
  Notation TD := (TD s a).
  Notation node_run := (node_run compress limit bs t si a).

  Let TIok := TI_ok compress uncompress compress_ok img limit s bs t si a im dm LD FIN.
  Let TDok := TD_ok compress uncompress compress_ok img limit s bs t si a im dm LD FIN.
  Let ismall := img_small compress img s bs si LD.

  Definition DrCoh (dr : dreader) : Prop := Coh compress TI (dr_ino dr) /\ Coh compress TD (dr_dir dr).

  Lemma Hbs : s_block_size s <> 0.
  Proof. destruct LD. rewrite ld_bs. destruct (repr_facts bs t Hrep) as (H & _). exact H. Qed.

  (* ---- sqfs_dir_reader_get_inode at a recorded reference ---- *)
  Lemma get_inode_ok dr j n tn i b r :
    node_run j n tn i b r -> DrCoh dr ->
    exists dr', dr_get_inode uc img fuel s dr r = Ok (dr', conv i) /\ DrCoh dr' /\ dr_dir dr' = dr_dir dr.
  Proof.
    intros NR [CI CD]. destruct NR.
    destruct (writer_facts compress uncompress compress_ok limit t si a im dm Hser FIN) as (FI & _ & RO & _).
    pose proof FIN as (I1 & C1 & T1 & _ & _ & _ & _ & _ & _ & _ & _ & _ & CB & _).
    destruct (nth_error_split _ _ nr_b) as (l1 & l2 & Hbl & Hl1).
    assert (Fj : firstn j (a_bl a) = l1).
    { rewrite Hbl, <- Hl1. rewrite firstn_app, Nat.sub_diag, firstn_all. cbn. apply app_nil_r. }
    rewrite Fj in nr_pos.
    pose proof (encode_nonempty _ _ nr_enc) as Hne.
    assert (HL : cl (concat l1) < cl (concat (a_rawsI a))).
    { rewrite CB, Hbl, concat_app. cbn [concat]. rewrite !ListN.lenN_app. lia. }
    assert (Hoff : snd (split_ref r) < MB).
    { rewrite Forall_forall in RO. apply (RO r). eapply nth_error_In. exact nr_r. }
    pose proof TIok as (F & _). change (t_raws TI) with (a_rawsI a) in F.
    pose proof (pos_canon compress uncompress compress_ok img TI (split_ref r) _ F FI Hoff nr_pos HL) as P.
    change (t_raws TI) with (a_rawsI a) in P. change (t_base TI) with (s_inode_start s) in P.
    rewrite CB, Hbl, concat_app in P. cbn [concat] in P.
    rewrite dropN_app_exact in P by reflexivity.
    unfold split_ref in P, Hoff. cbn [fst snd] in P, Hoff.
    (* the seek target does not wrap *)
    assert (Hs : u64 (r / 65536 + s_inode_start s) = s_inode_start s + r / 65536).
    { unfold u64. rewrite N.add_comm. apply N.mod_small.
      pose proof (pos_ok_block_le compress im (a_rawsI a) [] _ _ I1 nr_pos) as Q. cbn [fst split_ref] in Q.
      rewrite <- T1 in Q. destruct LD.
      assert (Hi : si_itbl si <> []).
      { intro E. rewrite T1 in E. destruct I1 as [(A1 & _) _]. rewrite E in A1.
        assert (Z : cl (concat (map (enc compress) (a_rawsI a))) = 0) by (rewrite <- A1; reflexivity).
        destruct (a_rawsI a) as [|r0 rr]; [cbn in HL; lia|].
        pose proof (enc_len compress uncompress compress_ok r0 (Forall_inv F)).
        cbn [map concat] in Z. rewrite ListN.lenN_app in Z. lia. }
      pose proof (window_len _ _ _ ld_itbl Hi). unfold two64, two63 in *. lia. }
    assert (Hne2 : b ++ concat l2 <> []).
    { intro E. assert (Z : cl (b ++ concat l2) = 0) by (rewrite E; reflexivity). rewrite ListN.lenN_app in Z. lia. }
    destruct (mr_seek_ok compress uncompress compress_ok uc uc_ok img ismall TI (dr_ino dr) _ _ _ TIok CI P Hne2)
      as (m0 & SK & R0).
    assert (AL : inode_alloc_ok i = true).
    { unfold alloc_fits in Halloc. rewrite forallb_forall in Halloc. apply Halloc. eapply nth_error_In. exact nr_i. }
    assert (Wf : inode_wfb (s_block_size s) i = true) by (destruct LD; rewrite ld_bs; exact nr_wf).
    rewrite <- Hs in SK.
    destruct (read_inode_ok compress uncompress compress_ok uc uc_ok img ismall TI TIok fuel HfuelI s Hbs
                (dr_ino dr) m0 (r / 65536) (r mod 65536) i b (concat l2) Wf AL nr_enc SK R0) as (m' & RI & R').
    unfold dr_get_inode. rewrite RI. cbn [bind].
    eexists. split; [reflexivity|]. split; [|reflexivity].
    split; [exact (Rd_Coh compress TI _ _ R')|exact CD].
  Qed.
  (* ---- the listing behind a directory inode, as the iterator sees it ---- *)
  Definition first0 : DirModel.dent := mkDent [] 0 0 0.

  Lemma dir_start j n tn i b r par ch :
    node_run j n tn i b r -> fn_payload n = PDir par ch ->
    exists ents it post,
      readdir_init s (conv i) = Ok it /\
      Forall2 (ent_rel t (si_refs si)) ch ents /\ Forall dent_ok ents /\
      RdSt compress TD it first0 [] (hdrs_of (length ents) (r_off it) 0 ents) post.
  Proof.
    intros NR Hp.
    destruct (dir_bytes compress uncompress compress_ok limit limit_ok bs t si Hrep Hfit a im dm j n tn i b r par ch FIN NR Hp)
      as (ents' & _ & _ & _ & _ & Hok' & R' & _ & _).
    destruct (writer_facts compress uncompress compress_ok limit t si a im dm Hser FIN) as (_ & FD & _ & NO).
    destruct (trace_fits_facts si Hfit) as (_ & _ & TN).
    pose proof FIN as (_ & _ & _ & I2 & C2 & T2 & _).
    destruct NR. rewrite Hp in nr_kind.
    destruct (tn_kind tn) as [rr sz c idx par'| | | |] eqn:K; cbn [SerDefs.KindOk] in nr_kind; try contradiction.
    destruct nr_kind as [-> (ents & pre & post0 & D1 & D2 & D3 & D4 & D5 & D6)].
    pose proof (dents_of_rel _ _ _ _ D1) as R.
    assert (ents' = ents) by (eapply ent_rel_unique; eassumption). subst ents'.
    pose proof (dir_loc_shape tn rr sz c idx par K) as DL. rewrite <- nr_body in DL.
    pose proof (TN tn (nth_error_In _ _ nr_tn)) as Q. rewrite K in Q. destruct Q as [Q1 Q2].
    assert (U32 : u32 (sz + 3) = sz + 3) by (unfold u32, two32; apply N.mod_small; lia).
    exists ents. eexists. exists post0.
    split; [rewrite (readdir_init_conv s i _ _ _ DL), U32; reflexivity|].
    split; [exact R|]. split; [exact Hok'|].
    cbn [r_off]. unfold RdSt. cbn [r_entries r_size r_block r_off r_iblock r_ibase].
    assert (RB : rem_bytes first0 [] (hdrs_of (length ents) (rr mod 65536) 0 ents) = listing (rr mod 65536) ents)
      by reflexivity.
    rewrite RB.
    split; [reflexivity|]. split; [rewrite D3; reflexivity|]. split; [|intro X; contradiction X; reflexivity].
    intro Hne.
    assert (Hcat : concat (a_rawsD a) = pre ++ listing (rr mod 65536) ents ++ post0).
    { rewrite <- D5, app_nil_r. reflexivity. }
    assert (HL : cl pre < cl (concat (a_rawsD a))).
    { rewrite Hcat, !ListN.lenN_app. pose proof (lenN_pos _ Hne). lia. }
    assert (Hoff : snd (split_ref rr) < MB).
    { rewrite Forall_forall in NO. specialize (NO tn (nth_error_In _ _ nr_tn)). unfold node_off_ok in NO.
      rewrite K in NO. exact NO. }
    pose proof TDok as (F & _). change (t_raws TD) with (a_rawsD a) in F.
    pose proof (pos_canon compress uncompress compress_ok img TD (split_ref rr) _ F FD Hoff D4 HL) as P.
    change (t_raws TD) with (a_rawsD a) in P. change (t_base TD) with (s_dir_start s) in P.
    rewrite Hcat in P. rewrite dropN_app_exact in P by reflexivity.
    unfold split_ref in P. cbn [fst snd] in P.
    assert (Hs : u64 (rr / 65536 + s_dir_start s) = s_dir_start s + rr / 65536).
    { unfold u64. rewrite N.add_comm. apply N.mod_small.
      pose proof (pos_ok_block_le compress dm (a_rawsD a) [] _ _ I2 D4) as Q. cbn [fst split_ref] in Q.
      rewrite <- T2 in Q. destruct LD.
      assert (Hi : si_dtbl si <> []).
      { intro E. rewrite T2 in E. destruct I2 as [(A1 & _) _]. rewrite E in A1.
        assert (Z : cl (concat (map (enc compress) (a_rawsD a))) = 0) by (rewrite <- A1; reflexivity).
        destruct (a_rawsD a) as [|r0 rest0]; [cbn in HL; lia|].
        pose proof (enc_len compress uncompress compress_ok r0 (Forall_inv F)).
        cbn [map concat] in Z. rewrite ListN.lenN_app in Z. lia. }
      pose proof (window_len _ _ _ ld_dtbl Hi). unfold two64, two63 in *. lia. }
    rewrite Hs. exact P.
  Qed.
  (* ---- the first loop of fill_dir ---- *)
  Definition EntOk (anc : list N) (e : DirModel.dent) : Prop :=
    dent_ok e /\ forallb (fun b => negb (b =? 0)) (de_name e) = true /\
    exists j n tn i b r, node_run j n tn i b r /\ de_num e = N.of_nat j + 1 /\ de_ref e = r /\
                         mem_N (N.of_nat j + 1) anc = false.

  Definition ent_node (e : DirModel.dent) (x : list N * inode) : Prop :=
    fst x = de_name e /\
    exists j n tn i b r, node_run j n tn i b r /\ de_num e = N.of_nat j + 1 /\ snd x = conv i.

  Lemma ino_of_run j n tn i b r : node_run j n tn i b r -> b_inum (i_base (conv i)) = N.of_nat j + 1.
  Proof.
    intro NR. destruct NR. rewrite inum_conv.
    destruct nr_ser as (tbl & tbl' & more & S1 & _). unfold serialize in S1.
    destruct (id_to_index limit tbl (tn_uid tn)) as [[t1 ui]| | |]; try discriminate. cbn [Res.bind] in S1.
    destruct (id_to_index limit t1 (tn_gid tn)) as [[t2 gi]| | |]; try discriminate. cbn [Res.bind] in S1.
    injection S1 as _ <-. cbn [InodeModel.i_base ib_ino]. rewrite nr_node. reflexivity.
  Qed.

  Lemma fill_entries_ok anc post : forall len run hs first it dr k,
    length (run ++ concat (map snd hs)) = len -> (len < k)%nat -> DrCoh dr ->
    RdSt compress TD it first run hs post ->
    Forall (EntOk anc) (run ++ concat (map snd hs)) -> Forall (fun h => run_ok (snd h)) hs ->
    exists dr' L, fill_entries uc img k fuel s dr anc it = Ok (dr', L) /\ DrCoh dr' /\
                  Forall2 ent_node (run ++ concat (map snd hs)) L.
  Proof.
    induction len as [|len IH]; intros run hs first it dr k Hlen Hk [CI CD] St EO RO.
    - (* nothing left *)
      destruct run as [|e run]; [|discriminate].
      destruct hs as [|h hs].
      + destruct k as [|k]; [lia|]. cbn [fill_entries].
        destruct (readdir_end compress uc img TD fuel (dr_dir dr) it first post St) as (it' & E).
        rewrite E. cbn [bind]. eexists. exists []. split; [reflexivity|]. split; [split; assumption|constructor].
      + exfalso. pose proof (Forall_inv RO) as R1. destruct h as [ph rh]. cbn [app map concat snd] in Hlen, R1.
        destruct rh; [contradiction|discriminate].
    - destruct k as [|k]; [lia|].
      assert (STEP : forall e rest first' run' hs' m' it' x,
                run ++ concat (map snd hs) = e :: rest -> rest = run' ++ concat (map snd hs') ->
                mr_readdir uc img fuel (dr_dir dr) it = Ok (m', it', Some x) -> Coh compress TD m' -> ent_out x e ->
                RdSt compress TD it' first' run' hs' post -> Forall (fun h => run_ok (snd h)) hs' ->
                exists dr' L, fill_entries uc img (S k) fuel s dr anc it = Ok (dr', L) /\ DrCoh dr' /\
                              Forall2 ent_node (run ++ concat (map snd hs)) L).
      { intros e rest first' run' hs' m' it' [[d inum] iref] E1 E2 RD CD' EOx St' RO'.
        rewrite E1 in EO, Hlen |- *. pose proof (Forall_inv EO) as (DO & NZ & j & n & tn & i & b & r & NR & Hnum & Href & Hanc).
        pose proof (Forall_inv_tail EO) as EO'.
        destruct EOx as (X1 & X2 & X3 & X4).
        cbn [fill_entries]. rewrite RD. cbn [bind].
        destruct (get_inode_ok (MkDr m' (dr_ino dr)) j n tn i b r NR (conj CI CD')) as (dr2 & GI & C2 & D2).
        rewrite X4, Href, GI. cbn [bind].
        rewrite (ino_of_run _ _ _ _ _ _ NR), Hanc.
        destruct (IH run' hs' first' it' dr2 k) as (dr3 & L & FE & C3 & F2); try assumption.
        { cbn [length] in Hlen. rewrite <- E2. lia. }
        { lia. }
        { rewrite <- E2. exact EO'. }
        rewrite FE. cbn [bind]. exists dr3. eexists. split; [reflexivity|]. split; [exact C3|].
        constructor; [|rewrite E2; exact F2].
        split; [cbn [fst]; rewrite X1; apply cstr_id; exact NZ|].
        exists j, n, tn, i, b, r. auto. }
      destruct run as [|e run].
      + destruct hs as [|h hs]; [discriminate|].
        pose proof (Forall_inv RO) as R1. pose proof (Forall_inv_tail RO) as RO'.
        assert (DOh : Forall dent_ok (snd h)).
        { cbn [app map concat] in EO. apply Forall_app in EO. destruct EO as [EO1 _].
          eapply Forall_impl; [|exact EO1]. intros x (D & _). exact D. }
        destruct (readdir_header compress uncompress compress_ok uc uc_ok img ismall TD TDok fuel HfuelD
                    (dr_dir dr) it first h hs post CD St R1 DOh) as (f1 & run1 & m' & it' & x & Eh & RD & CD' & EOx & St').
        apply (STEP f1 (run1 ++ concat (map snd hs)) f1 run1 hs m' it' x); try assumption.
        * cbn [app map concat]. rewrite Eh. reflexivity.
        * reflexivity.
      + pose proof (Forall_inv EO) as (DO & _).
        destruct (readdir_entry compress uncompress compress_ok uc uc_ok img ismall TD TDok fuel HfuelD
                    (dr_dir dr) it first e run hs post CD St DO) as (m' & it' & x & RD & CD' & EOx & St').
        apply (STEP e (run ++ concat (map snd hs)) first run hs m' it' x); try assumption; reflexivity.
  Qed.
  (* ---- the recursion ---- *)
  Variable efuel : nat.
  Hypothesis Hefuel : (max_entries t < efuel)%nat.

  Lemma entries_lt j n par ch : nth_error t j = Some n -> fn_payload n = PDir par ch -> (length ch < efuel)%nat.
  Proof.
    intros Hn Hp. clear - Hn Hp Hefuel. revert j Hn Hefuel. unfold max_entries.
    induction t as [|x l IH]; intros j Hn He; [destruct j; discriminate|].
    cbn [fold_right] in He. destruct j as [|j]; cbn [nth_error] in Hn.
    - injection Hn as ->. rewrite Hp in He. lia.
    - apply (IH j Hn). destruct (fn_payload x); lia.
  Qed.

  Definition ch_node (e : list N * N) (x : list N * inode) : Prop :=
    fst x = fst e /\ exists j n tn i b r, node_run j n tn i b r /\ snd e = N.of_nat j + 1 /\ snd x = conv i.

  Definition names_of (sub : list tree) : list (list N * ltree) := map (fun c => (tree_name c, ltree_of c)) sub.

  (* the statement for one directory, at recursion depth S k *)
  Definition DirGoal (k : nat) : Prop :=
    forall j n tn i b r par ch dr anc it,
      node_run j n tn i b r -> fn_payload n = PDir par ch -> (j + 1 <= S k)%nat -> DrCoh dr ->
      Forall (fun x => N.of_nat j + 1 <= x) anc -> readdir_init s (conv i) = Ok it ->
      exists dr' sub, fill_dir uc img (S k) efuel fuel s (si_ids si) dr anc it = Ok (dr', sub) /\ DrCoh dr' /\
                      spec_ents (spec_tree t k) ch = Some (names_of sub).

  Lemma node_view j n tn i b r :
    node_run j n tn i b r ->
    node_ids (si_ids si) (conv i) = (fn_uid n, fn_gid n, true) /\
    lview_of_c05 (conv i) (fn_uid n) (fn_gid n) = lview_of_fnode (N.of_nat j + 1) n.
  Proof.
    intro NR. pose proof (lview_node compress limit limit_ok bs t si a j n tn i b r NR) as LV.
    rewrite lview_clear_slack in LV. apply (view_conv _ _ _ LV); reflexivity.
  Qed.

  Lemma children_ok k (IHk : forall k', (k' < k)%nat -> DirGoal k') d anc :
    (N.to_nat d <= S k)%nat -> Forall (fun x => d <= x) anc ->
    forall ch L dr, Forall2 ch_node ch L -> Forall (fun e => 1 <= snd e /\ snd e < d) ch -> DrCoh dr ->
    exists dr' sub, children_loop (fill_dir uc img k efuel fuel s (si_ids si)) s (si_ids si) anc L dr = Ok (dr', sub) /\
                    DrCoh dr' /\ spec_ents (spec_tree t k) ch = Some (names_of sub).
  Proof.
    intros Hd Hanc ch L dr F. revert dr. induction F as [|[nm c] [nm' ino] ch L (X1 & j & n & tn & i & b & r & NR & Hc & Hi) _ IH];
      intros dr CB C.
    - exists dr, []. split; [reflexivity|]. split; [exact C|reflexivity].
    - cbn [fst snd] in *. subst nm' ino.
      pose proof (Forall_inv CB) as [C1 C2]. cbn [snd] in C1, C2. pose proof (Forall_inv_tail CB) as CB'.
      destruct (node_view j n tn i b r NR) as [NI LV].
      pose proof NR as [N1 _ _ _ _ _ _ _ _ _ _ _ _ N14].
      assert (Hk : exists k', k = S k') by (destruct k; [lia|eexists; reflexivity]). destruct Hk as [k' ->].
      assert (G : get t c = Some n) by (rewrite Hc; apply get_of_nth; exact N1).
      cbn [children_loop]. rewrite NI, is_dir_conv, N14.
      rewrite spec_ents_cons, (spec_tree_S t k' c), G.
      destruct (fn_payload n) as [par chc|fb|tg|cd dv|so] eqn:P.
      + (* a directory: recurse *)
        destruct (dir_start j n tn i b r par chc NR P) as (ents & it' & post & RI & _).
        assert (DL : exists x, dir_loc (shape tn) = Some x).
        { destruct NR. rewrite P in nr_kind.
          destruct (tn_kind tn) as [rr sz cc idx par'| | | |] eqn:K; cbn [SerDefs.KindOk] in nr_kind; try contradiction.
          eexists. apply (dir_loc_shape tn rr sz cc idx par' K). }
        destruct DL as [x DL]. rewrite DL, RI. cbn [bind].
        rewrite (ino_of_run _ _ _ _ _ _ NR).
        destruct (IHk k' ltac:(lia) j n tn i b r par chc dr (N.of_nat j + 1 :: anc) it' NR P ltac:(lia) C) as (dr2 & sub & FD & C2' & SE);
          [constructor; [lia|eapply Forall_impl; [|exact Hanc]; cbv beta; intros; lia]|exact RI|].
        rewrite FD. cbn [bind]. rewrite SE.
        destruct (IH dr2 CB' C2') as (dr3 & sibs & CL & C3 & SS).
        rewrite CL. cbn [bind]. rewrite SS.
        exists dr3. eexists. split; [reflexivity|]. split; [exact C3|].
        unfold names_of. cbn [map tree_name ltree_of]. rewrite LV, Hc. reflexivity.
      + rewrite (not_dir_loc compress limit bs t si a j n tn i b r NR) by (rewrite P; discriminate).
        destruct (IH dr CB' C) as (dr3 & sibs & CL & C3 & SS). rewrite CL. cbn [bind]. rewrite SS.
        exists dr3. eexists. split; [reflexivity|]. split; [exact C3|].
        unfold names_of. cbn [map tree_name ltree_of]. rewrite LV, Hc. reflexivity.
      + rewrite (not_dir_loc compress limit bs t si a j n tn i b r NR) by (rewrite P; discriminate).
        destruct (IH dr CB' C) as (dr3 & sibs & CL & C3 & SS). rewrite CL. cbn [bind]. rewrite SS.
        exists dr3. eexists. split; [reflexivity|]. split; [exact C3|].
        unfold names_of. cbn [map tree_name ltree_of]. rewrite LV, Hc. reflexivity.
      + rewrite (not_dir_loc compress limit bs t si a j n tn i b r NR) by (rewrite P; discriminate).
        destruct (IH dr CB' C) as (dr3 & sibs & CL & C3 & SS). rewrite CL. cbn [bind]. rewrite SS.
        exists dr3. eexists. split; [reflexivity|]. split; [exact C3|].
        unfold names_of. cbn [map tree_name ltree_of]. rewrite LV, Hc. reflexivity.
      + rewrite (not_dir_loc compress limit bs t si a j n tn i b r NR) by (rewrite P; discriminate).
        destruct (IH dr CB' C) as (dr3 & sibs & CL & C3 & SS). rewrite CL. cbn [bind]. rewrite SS.
        exists dr3. eexists. split; [reflexivity|]. split; [exact C3|].
        unfold names_of. cbn [map tree_name ltree_of]. rewrite LV, Hc. reflexivity.
  Qed.
  Lemma node_run_at c tgt :
    get t c = Some tgt ->
    exists j n tn i b r, node_run j n tn i b r /\ c = N.of_nat j + 1 /\ n = tgt /\ ref_of (si_refs si) c = r.
  Proof.
    intro G. apply get_nth in G. destruct G as [G1 G2].
    set (j := N.to_nat (c - 1)) in *.
    assert (Hj : (j < length t)%nat) by (apply nth_error_Some; congruence).
    destruct (node_run_of compress uncompress compress_ok limit limit_ok bs t si Hrep Hfit a im dm j FIN Hj)
      as (n & tn & i & b & r & NR).
    exists j, n, tn, i, b, r. split; [exact NR|]. split; [unfold j; lia|].
    destruct NR. split; [congruence|]. replace c with (N.of_nat j + 1) by (unfold j; lia).
    apply ref_of_index. exact nr_r.
  Qed.

  Lemma ents_ok anc d : forall ch ents,
    Forall2 (ent_rel t (si_refs si)) ch ents -> Forall dent_ok ents ->
    (forall e, In e ch -> name_okb (fst e) = true) ->
    Forall (fun e => 1 <= snd e /\ snd e < d) ch -> Forall (fun x => d <= x) anc ->
    Forall (EntOk anc) ents.
  Proof.
    intros ch ents R. induction R as [|e x ch0 ents0 Hed R' IH]; intros DO PO CB Hanc; [constructor|].
    pose proof (Forall_inv DO) as D1. pose proof (Forall_inv_tail DO) as DO'.
    pose proof (Forall_inv CB) as [C1 C2]. pose proof (Forall_inv_tail CB) as CB'.
    constructor; [|apply IH; [exact DO'|intros y Hy; apply PO; right; exact Hy|exact CB'|exact Hanc]].
    destruct Hed as (E1 & E2 & E3 & tgt & G & Ty).
    pose proof (PO e (or_introl eq_refl)) as Pn.
    unfold name_okb in Pn. rewrite !andb_true_iff in Pn. destruct Pn as [_ Pz].
    split; [exact D1|]. split; [rewrite E1; exact Pz|].
    destruct (node_run_at _ _ G) as (jc & nc & tnc & ic & bc & rc & NRc & Hc & _ & Hr).
    exists jc, nc, tnc, ic, bc, rc. split; [exact NRc|]. split; [congruence|]. split; [congruence|].
    rewrite <- Hc. apply mem_N_ge. eapply Forall_impl; [|exact Hanc]. cbv beta. intros y Hy. lia.
  Qed.

  Lemma ch_nodes : forall ch ents L,
    Forall2 (ent_rel t (si_refs si)) ch ents -> Forall2 ent_node ents L -> Forall2 ch_node ch L.
  Proof.
    intros ch ents L R. revert L. induction R as [|e d ch0 ents0 Hed _ IH]; intros L F2; inversion F2; subst; constructor.
    - destruct Hed as (E1 & E2 & _).
      match goal with H : ent_node d _ |- _ => destruct H as (X1 & jj & nn & tt & ii & bb & rr & NRx & Hn & Hx) end.
      split; [congruence|]. exists jj, nn, tt, ii, bb, rr. split; [exact NRx|]. split; [congruence|exact Hx].
    - apply IH. assumption.
  Qed.

  Lemma dir_goal : forall k, DirGoal k.
  Proof.
    induction k as [k IHk] using lt_wf_ind.
    intros j n tn i b r par ch dr anc it NR Hp Hj C Hanc RI.
    rewrite fill_dir_unfold.
    destruct (dir_start j n tn i b r par ch NR Hp) as (ents & it0 & post & RI0 & R & DO & St).
    rewrite RI in RI0. injection RI0 as <-.
    destruct (hdrs_of_spec (length ents) (r_off it) 0 ents (Nat.le_refl _)) as [HA HB].
    set (hs := hdrs_of (length ents) (r_off it) 0 ents) in *.
    pose proof NR as [N1 _ _ _ _ _ _ _ _ _ N11 _ _ _].
    pose proof (Forall2_len _ _ _ R) as Hlen.
    (* what the tree says about the children *)
    destruct N11 as [_ _ _ _ _ _ PO]. rewrite Hp in PO. cbn [payload_okb] in PO.
    rewrite !andb_true_iff in PO. destruct PO as [[_ PO] _]. rewrite forallb_forall in PO.
    assert (CB : Forall (fun e => 1 <= snd e /\ snd e < N.of_nat j + 1) ch).
    { apply Forall_forall. intros e He. specialize (PO e He). rewrite !andb_true_iff, N.leb_le, N.ltb_lt in PO. lia. }
    assert (EO : Forall (EntOk anc) ([] ++ concat (map snd hs))).
    { cbn [app]. rewrite HA. apply (ents_ok anc (N.of_nat j + 1) ch ents R DO); try assumption.
      intros e He. specialize (PO e He). rewrite !andb_true_iff in PO. tauto. }
    destruct (fill_entries_ok anc post (length ents) [] hs first0 it dr efuel) as (dr1 & L & FE & C1 & F2); try assumption.
    { cbn [app]. rewrite HA. reflexivity. }
    { rewrite <- Hlen. eapply entries_lt; eassumption. }
    rewrite FE. cbn [bind]. cbn [app] in F2. rewrite HA in F2.
    pose proof (ch_nodes ch ents L R F2) as F3.
    apply (children_ok k (fun k' Hk' => IHk k' Hk') (N.of_nat j + 1) anc ltac:(lia) Hanc ch L dr1 F3 CB C1).
  Qed.

  (* ---- sqfs_dir_reader_get_full_hierarchy ---- *)
  Lemma dreader_create_coh : DrCoh (dreader_create s).
  Proof. split; [exact (Coh_create compress TI)|exact (Coh_create compress TD)]. Qed.

  Theorem full_hierarchy_ok depth :
    (length t <= depth)%nat ->
    exists dr' T, full_hierarchy uc img depth efuel fuel s (si_ids si) (dreader_create s) = Ok (dr', T) /\
                  spec_tree t (length t) (nlen t) = Some (ltree_of T) /\ tree_name T = [].
  Proof.
    intro Hd.
    destruct (repr_facts bs t Hrep) as (_ & Hn1 & Hn2 & (nr & par & ch & G & Hp) & _).
    destruct (node_run_at _ _ G) as (j & n & tn & i & b & r & NR & Hc & -> & Hr).
    pose proof FIN as (_ & _ & _ & _ & _ & _ & _ & _ & _ & _ & _ & _ & _ & _ & _ & _ & _ & _ & RT & _).
    assert (Hroot : s_root s = r) by (destruct LD; rewrite ld_root, RT; exact Hr).
    destruct (get_inode_ok (dreader_create s) j nr tn i b r NR dreader_create_coh) as (dr1 & GI & C1 & _).
    unfold full_hierarchy. rewrite Hroot, GI. cbn [bind].
    destruct (node_view j nr tn i b r NR) as [NI LV].
    destruct (dir_start j nr tn i b r par ch NR Hp) as (ents & it & post & RI & _).
    assert (DL : exists x, dir_loc (shape tn) = Some x).
    { destruct NR. rewrite Hp in nr_kind.
      destruct (tn_kind tn) as [rr sz cc idx par'| | | |] eqn:K; cbn [SerDefs.KindOk] in nr_kind; try contradiction.
      eexists. apply (dir_loc_shape tn rr sz cc idx par' K). }
    destruct DL as [x DL].
    pose proof NR as [_ _ _ _ _ _ _ _ _ _ _ _ _ N14].
    rewrite is_dir_conv, N14, DL, RI. cbn [bind].
    destruct depth as [|k]; [unfold nlen in Hn1; lia|].
    rewrite (ino_of_run _ _ _ _ _ _ NR).
    destruct (dir_goal k j nr tn i b r par ch dr1 [N.of_nat j + 1] it NR Hp) as (dr2 & sub & FD & C2 & SE); try assumption.
    { unfold nlen in Hc. lia. }
    { constructor; [lia|constructor]. }
    rewrite FD. cbn [bind]. rewrite NI.
    exists dr2. eexists. split; [reflexivity|]. split; [|reflexivity].
    destruct (tree_roundtrip_l compress uncompress compress_ok limit limit_ok bs t si Hrep Hser Hfit) as (lt & ST & _).
    rewrite ST. f_equal.
    pose proof (spec_tree_mono t (length t) (S k) (nlen t) lt Hd ST) as M.
    rewrite spec_tree_S, G, Hp, SE in M. injection M as <-.
    cbn [ltree_of]. rewrite LV, Hc. reflexivity.
  Qed.
End TR.
