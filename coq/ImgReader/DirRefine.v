(* ImgReader — layer (c): the C05 model of sqfs_meta_reader_readdir (coq/C05/Dir.v: header / entry state
   machine, size accounting, the signed 16 bit inode number delta, references from header block + entry
   offset) run over a listing as C03's directory writer lays it out returns the entries in order, then the
   end of the listing. *)
From Coq Require Import List NArith ZArith Lia Bool ZifyBool ZifyNat ZifyN.
From SqfsV Require Import Base.Bytes Gen.Constants.
From SqfsV Require Import C03.Common C03.ListN C03.MetaModel C03.MetaProofs C03.DirModel C03.DirProofs C03.DirRT.
From SqfsV Require Import C05.RBase C05.GenC05 C05.Meta C05.Super C05.Inode C05.Dir.
From SqfsV Require Import ImgReader.MetaRefine ImgReader.Embed.
Import ListNotations.
Local Open Scope N_scope.
Ltac Zify.zify_post_hook ::= Z.div_mod_to_equations.

(* ---- fields of the two on-disk structs, read the C05 way ---- *)
Lemma fld_rd16 o l : RBase.fld 2 o l = rd16 (dropN o l) mod 65536.
Proof. reflexivity. Qed.
Lemma fld_rd32 o l : RBase.fld 4 o l = rd32 (dropN o l) mod 4294967296.
Proof. reflexivity. Qed.

Lemma hdr_flds a b :
  let h := enc_header a b in
  RBase.fld 4 o_sqfs_dir_header_t_count h = (a - 1) mod 4294967296 /\
  RBase.fld 4 o_sqfs_dir_header_t_start_block h = (de_ref b / U16) mod 4294967296 /\
  RBase.fld 4 o_sqfs_dir_header_t_inode_number h = de_num b mod 4294967296.
Proof.
  cbv zeta. unfold enc_header.
  destruct (header_fields (a - 1) (de_ref b / U16) (de_num b) []) as (F1 & F2 & F3 & _).
  cbv zeta in F1, F2, F3. rewrite app_nil_r in F1, F2, F3.
  rewrite !fld_rd32. unfold o_sqfs_dir_header_t_count, o_sqfs_dir_header_t_start_block, o_sqfs_dir_header_t_inode_number.
  rewrite dropN_0, F1, F2, F3. rewrite !N.mod_mod by discriminate. repeat split.
Qed.

Lemma ent_flds f it :
  let e := enc_entry f it in
  RBase.fld 2 o_sqfs_dir_node_t_offset e = (de_ref it mod U16) mod 65536 /\
  RBase.fld 2 o_sqfs_dir_node_t_inode_diff e = (de_num it + U32 - de_num f) mod 65536 /\
  RBase.fld 2 o_sqfs_dir_node_t_type e = de_type it mod 65536 /\
  RBase.fld 2 o_sqfs_dir_node_t_size e = (cl (de_name it) - 1) mod 65536.
Proof.
  cbv zeta. unfold enc_entry.
  destruct (entry_fields (de_ref it mod U16) (de_num it + U32 - de_num f) (de_type it) (cl (de_name it) - 1) [])
    as (F1 & F2 & F3 & F4 & _).
  cbv zeta in F1, F2, F3, F4. rewrite app_nil_r in F1, F2, F3, F4.
  rewrite !fld_rd16. unfold o_sqfs_dir_node_t_offset, o_sqfs_dir_node_t_inode_diff, o_sqfs_dir_node_t_type,
    o_sqfs_dir_node_t_size.
  rewrite dropN_0, F1, F2, F3, F4. rewrite !N.mod_mod by discriminate. repeat split.
Qed.

(* inum_base + (s16)inode_diff in 32 bits gives the entry's number back *)
Lemma delta_u32 a b :
  a < 4294967296 -> b < 4294967296 -> (-32767 <= s32_diff a b <= 32767)%Z ->
  let d := (a + U32 - b) mod 65536 in
  u32 (b + (if d <? 32768 then d else d + two32 - 65536)) = a.
Proof.
  intros Ha Hb. unfold s32_diff, u32, two32. rewrite U32_val. cbv zeta.
  destruct ((a + 4294967296 - b) mod 4294967296 <? 2147483648) eqn:E1;
  destruct ((a + 4294967296 - b) mod 65536 <? 32768) eqn:E2; intro H; lia.
Qed.

(* names the directory writer accepts are C strings *)
Lemma cstr_id : forall l, forallb (fun b => negb (b =? 0)) l = true -> cstr l = l.
Proof.
  induction l as [|c r IH]; intro H; [reflexivity|].
  cbn [forallb] in H. apply andb_true_iff in H. destruct H as [H1 H2].
  cbn [cstr]. apply negb_true_iff in H1. rewrite H1. f_equal. apply IH. exact H2.
Qed.

(* the bytes still to be read: the rest of the current run, then the following runs *)
Definition rem_bytes (first : DirModel.dent) (run : list DirModel.dent) (hs : list (N * list DirModel.dent)) : list N :=
  enc_body first run ++ listing_of hs.

Definition ent_good (e : DirModel.dent) : Prop :=
  dent_ok e /\ forallb (fun b => negb (b =? 0)) (de_name e) = true.

Lemma listing_of_cons h hs : listing_of (h :: hs) = enc_run (snd h) ++ listing_of hs.
Proof. reflexivity. Qed.

Section DR.
  Variable compress : list N -> cres.
  Variable uncompress : list N -> option (list N).
  Hypothesis compress_ok :
    forall b c, compress b = CData c -> cl c <= cl b /\ uncompress c = Some b.
  Variable uc : list N -> N -> res (list N).
  Hypothesis uc_ok : uc_meets uncompress uc.
  Variable img : list N.
  Hypothesis img_small : cl img < two63.
  Variable T : table.
  Hypothesis TO : table_ok compress img T.
  Variable fuel : nat.
  Hypothesis Hfuel : (2 * length (t_raws T) <= fuel)%nat.

  Notation Rd := (Rd compress T).
  Notation Coh := (Coh compress T).
  Notation PosAt := (PosAt compress T).
  Notation read := (mr_read uc true img).
  Notation seek := (mr_seek uc true img).

  Lemma read_seg m a r cap n :
    Rd m (a ++ r) -> n = cl a -> n <= cap ->
    exists m', read fuel m cap n = Ok (m', a) /\ Rd m' r.
  Proof.
    intros R -> Hc.
    destruct (mr_read_ok compress uncompress compress_ok uc uc_ok img img_small T m (a ++ r) fuel cap (cl a) TO R)
      as (m' & E & R'); try assumption.
    { rewrite ListN.lenN_app. lia. }
    rewrite takeN_app_exact in E by reflexivity. rewrite dropN_app_exact in R' by reflexivity.
    exists m'. split; assumption.
  Qed.

  (* the iterator state between two calls *)
  Definition RdSt (it : rdstate) (first : DirModel.dent) (run : list DirModel.dent)
             (hs : list (N * list DirModel.dent)) (post : list N) : Prop :=
    r_entries it = cl run /\ r_size it = cl (rem_bytes first run hs) + 3 /\
    (rem_bytes first run hs <> [] -> PosAt (r_block it, r_off it) (rem_bytes first run hs ++ post)) /\
    (run <> [] -> r_iblock it = de_ref first / U16 /\ r_ibase it = de_num first /\
                  de_num first < 4294967296 /\ Forall (run_member_ok first) run).

  (* what sqfs_meta_reader_readdir hands out for entry e *)
  Definition ent_out (x : Dir.dent * N * N) (e : DirModel.dent) : Prop :=
    let '(d, inum, iref) := x in
    d_name d = de_name e /\ d_type d = de_type e /\ inum = de_num e /\ iref = de_ref e.

  (* the second half of sqfs_meta_reader_readdir: one entry *)
  Definition rd_entry (m1 : mr) (it1 : rdstate) : res (mr * rdstate * option (Dir.dent * N * N)) :=
    if r_size it1 <=? ent_sz then
      Ok (m1, MkRd (r_iblock it1) (r_block it1) (r_off it1) 0 0 (r_ibase it1), None)
    else
      do m2 <- seek m1 (r_block it1) (r_off it1);
      do (m3, e) <- read fuel m2 ent_sz ent_sz;
      let esize := RBase.fld 2 o_sqfs_dir_node_t_size e in
      do (m4, nm) <- read fuel m3 (esize + 2) (esize + 1);
      let '(blk, off) := mr_position m4 in
      let sz1 := r_size it1 - ent_sz in
      let count := esize + 1 in
      let sz2 := if sz1 <=? count then 0 else sz1 - count in
      let d := MkDent (RBase.fld 2 o_sqfs_dir_node_t_offset e) (RBase.fld 2 o_sqfs_dir_node_t_inode_diff e)
                      (RBase.fld 2 o_sqfs_dir_node_t_type e) esize nm in
      let sdiff := if d_diff d <? 32768 then d_diff d else d_diff d + two32 - 65536 in
      let inum := u32 (r_ibase it1 + sdiff) in
      let iref := r_iblock it1 * 65536 + d_off d in
      Ok (m4, MkRd (r_iblock it1) blk off sz2 (r_entries it1 - 1) (r_ibase it1), Some (d, inum, iref)).

  Lemma rd_entry_ok m it first e run hs post :
    Coh m -> RdSt it first (e :: run) hs post -> dent_ok e ->
    exists m' it' x, rd_entry m it = Ok (m', it', Some x) /\ Coh m' /\ ent_out x e /\ RdSt it' first run hs post.
  Proof.
    intros C (S1 & S2 & S3 & S4) (N1 & N2 & Rf & Nu & Ty).
    destruct (S4 ltac:(discriminate)) as (I1 & I2 & I3 & I4).
    pose proof (Forall_inv I4) as [Sb Dl]. pose proof (Forall_inv_tail I4) as I4'.
    assert (S3' : rem_bytes first (e :: run) hs <> []).
    { unfold rem_bytes, enc_body, enc_entry, le16, le. cbn [map concat app]. discriminate. }
    specialize (S3 S3'). clear S3'.
    unfold rem_bytes in *. unfold enc_body in S2, S3. cbn [map concat] in S2, S3. fold (enc_body first run) in S2, S3.
    rewrite <- !app_assoc in S2. rewrite <- !app_assoc in S3.
    set (tail := enc_body first run ++ listing_of hs) in *.
    assert (L : cl (enc_entry first e ++ de_name e ++ tail) = 8 + cl (de_name e) + cl tail).
    { rewrite !ListN.lenN_app, lenN_enc_entry. lia. }
    unfold rd_entry. unfold ent_sz, sizeof_sqfs_dir_node_t. rewrite S2, L.
    destruct (N.leb_spec (8 + cl (de_name e) + cl tail + 3) 8) as [|_]; [lia|].
    destruct (mr_seek_ok compress uncompress compress_ok uc uc_ok img img_small T m _ _ _ TO C S3) as (m2 & SK & R2).
    { unfold enc_entry, le16, le. discriminate. }
    rewrite SK. cbn [bind].
    destruct (read_seg m2 _ _ 8 8 R2 (eq_sym (lenN_enc_entry first e)) (N.le_refl _)) as (m3 & E3 & R3).
    rewrite E3. cbn [bind].
    destruct (ent_flds first e) as (F1 & F2 & F3 & F4). cbv zeta in F1, F2, F3, F4.
    cbv zeta. rewrite F1, F2, F3, F4.
    assert (Hes : (cl (de_name e) - 1) mod 65536 = cl (de_name e) - 1) by (apply N.mod_small; clear - N1 N2; lia).
    rewrite Hes. replace (cl (de_name e) - 1 + 1) with (cl (de_name e)) by (clear - N1; lia).
    destruct (read_seg m3 _ _ (cl (de_name e) - 1 + 2) (cl (de_name e)) R3 eq_refl ltac:(clear - N1; lia)) as (m4 & E4 & R4).
    rewrite E4. cbn [bind].
    pose proof (mr_position_ok compress uncompress compress_ok uc uc_ok img img_small T m4 _ TO R4) as P4.
    destruct (mr_position m4) as [blk off].
    exists m4. eexists. eexists. split; [reflexivity|].
    split; [exact (Rd_Coh compress T _ _ R4)|]. split.
    - unfold ent_out. cbn [d_name d_type d_diff d_off].
      split; [reflexivity|]. split; [apply N.mod_small; exact Ty|]. split.
      + rewrite I2. apply (delta_u32 (de_num e) (de_num first) Nu I3 Dl).
      + rewrite I1. rewrite U16_val in *. rewrite N.mod_mod by discriminate. unfold same_block in Sb. rewrite U16_val in Sb.
        clear - Sb. lia.
    - unfold RdSt, rem_bytes. fold tail. cbn [r_entries r_size r_block r_off r_iblock r_ibase].
      split; [rewrite S1, ListN.lenN_cons; clear; lia|]. split.
      { clear. destruct (N.leb_spec (8 + cl (de_name e) + cl tail + 3 - 8) (cl (de_name e))); lia. }
      split; [intros _; unfold tail; rewrite <- app_assoc; exact P4|]. intros _. repeat split; assumption.
  Qed.

  (* the whole call *)
  Lemma readdir_entry m it first e run hs post :
    Coh m -> RdSt it first (e :: run) hs post -> dent_ok e ->
    exists m' it' x, mr_readdir uc img fuel m it = Ok (m', it', Some x) /\ Coh m' /\ ent_out x e /\
                     RdSt it' first run hs post.
  Proof.
    intros C S D. pose proof S as (S1 & _).
    destruct (rd_entry_ok m it first e run hs post C S D) as (m' & it' & x & E & R).
    exists m', it', x. split; [|exact R]. rewrite <- E.
    unfold mr_readdir. cbv zeta. rewrite S1, ListN.lenN_cons.
    destruct (N.eqb_spec (cl run + 1) 0) as [|_]; [lia|]. cbn [bind negb]. reflexivity.
  Qed.

  Lemma readdir_header m it first0 h hs post :
    Coh m -> RdSt it first0 [] (h :: hs) post -> run_ok (snd h) -> Forall dent_ok (snd h) ->
    exists first run m' it' x,
      snd h = first :: run /\
      mr_readdir uc img fuel m it = Ok (m', it', Some x) /\ Coh m' /\ ent_out x first /\
      RdSt it' first run hs post.
  Proof.
    intros C (S1 & S2 & S3 & _) RO DO.
    destruct (snd h) as [|first run] eqn:Eh; [contradiction|].
    destruct RO as [RL RM]. pose proof (Forall_inv DO) as D1.
    pose proof D1 as (N1 & N2 & Rf & Nu & Ty).
    assert (S3' : rem_bytes first0 [] (h :: hs) <> []).
    { unfold rem_bytes. cbn [enc_body map concat app]. rewrite listing_of_cons, Eh. cbn [enc_run].
      unfold enc_header, le32, le. cbn [app]. discriminate. }
    specialize (S3 S3'). clear S3'.
    unfold rem_bytes in S2, S3. cbn [enc_body map concat app] in S2, S3.
    rewrite listing_of_cons, Eh in S2, S3. cbn [enc_run] in S2, S3. rewrite <- !app_assoc in S3.
    set (body := enc_body first (first :: run)) in *.
    assert (L : cl ((enc_header (cl (first :: run)) first ++ body) ++ listing_of hs) = 12 + cl body + cl (listing_of hs)).
    { rewrite !ListN.lenN_app, lenN_enc_header. lia. }
    assert (Lb : 9 <= cl body).
    { unfold body. rewrite lenN_enc_body. change (run_bytes (first :: run)) with (ent_bytes first + run_bytes run).
      unfold ent_bytes. rewrite ENT_SZ_val. lia. }
    exists first, run.
    assert (HD : exists m1 it1,
               (if r_size it <=? hdr_sz then Ok (m, it, false)
                else
                  do m0 <- seek m (r_block it) (r_off it);
                  do (m1, hh) <- read fuel m0 hdr_sz hdr_sz;
                  let count := RBase.fld 4 o_sqfs_dir_header_t_count hh in
                  if c_SQFS_MAX_DIR_ENT - 1 <? count then Err E_CORRUPTED
                  else
                    let '(blk, off) := mr_position m1 in
                    Ok (m1, MkRd (RBase.fld 4 o_sqfs_dir_header_t_start_block hh) blk off (r_size it - hdr_sz) (count + 1)
                                 (RBase.fld 4 o_sqfs_dir_header_t_inode_number hh), true)) = Ok (m1, it1, true) /\
               Coh m1 /\ RdSt it1 first (first :: run) hs post).
    { unfold hdr_sz, sizeof_sqfs_dir_header_t. rewrite S2, L.
      destruct (N.leb_spec (12 + cl body + cl (listing_of hs) + 3) 12) as [|_]; [lia|].
      destruct (mr_seek_ok compress uncompress compress_ok uc uc_ok img img_small T m _ _ _ TO C S3) as (m0 & SK & R0).
      { unfold enc_header, le32, le. discriminate. }
      rewrite SK. cbn [bind].
      destruct (read_seg m0 _ _ 12 12 R0 (eq_sym (lenN_enc_header _ _)) (N.le_refl _)) as (m1 & E1 & R1).
      rewrite E1. cbn [bind].
      destruct (hdr_flds (cl (first :: run)) first) as (F1 & F2 & F3). cbv zeta in F1, F2, F3.
      cbv zeta. rewrite F1, F2, F3.
      pose proof MAX_ENT_le_256 as H256. unfold c_SQFS_MAX_DIR_ENT.
      assert (Hc : (cl (first :: run) - 1) mod 4294967296 = cl (first :: run) - 1) by (apply N.mod_small; lia).
      rewrite Hc.
      destruct (N.ltb_spec (256 - 1) (cl (first :: run) - 1)) as [|_]; [lia|].
      pose proof (mr_position_ok compress uncompress compress_ok uc uc_ok img img_small T m1 _ TO R1) as P1.
      destruct (mr_position m1) as [blk off].
      exists m1. eexists. split; [reflexivity|]. split; [exact (Rd_Coh compress T _ _ R1)|].
      unfold RdSt. cbn [r_entries r_size r_block r_off r_iblock r_ibase].
      assert (L1 : 1 <= cl (first :: run)) by (rewrite ListN.lenN_cons; lia).
      split; [lia|]. split; [unfold rem_bytes; fold body; rewrite ListN.lenN_app; lia|].
      split; [intros _; unfold rem_bytes; fold body; rewrite <- app_assoc; exact P1|].
      intros _. rewrite U16_val in *.
      split; [apply N.mod_small; lia|]. split; [apply N.mod_small; lia|]. split; [exact Nu|exact RM]. }
    destruct HD as (m1 & it1 & HD & C1 & St1).
    destruct (rd_entry_ok m1 it1 first first run hs post C1 St1 D1) as (m' & it' & x & E & R).
    exists m', it', x. split; [reflexivity|]. split; [|exact R]. rewrite <- E.
    unfold mr_readdir. cbv zeta. rewrite S1. cbn [Common.lenN length N.of_nat N.eqb].
    cbv zeta in HD. rewrite HD. cbn [bind negb]. reflexivity.
  Qed.

  Lemma readdir_end m it first0 post :
    RdSt it first0 [] [] post ->
    exists it', mr_readdir uc img fuel m it = Ok (m, it', None).
  Proof.
    intros (S1 & S2 & _). unfold mr_readdir. cbv zeta. rewrite S1.
    cbn [Common.lenN length N.of_nat N.eqb]. rewrite S2.
    unfold rem_bytes, enc_body, listing_of. cbn [map concat app Common.lenN length N.of_nat].
    unfold hdr_sz, sizeof_sqfs_dir_header_t. cbn [N.add N.leb N.compare Pos.compare Pos.compare_cont bind negb].
    eexists. reflexivity.
  Qed.
End DR.
