(* ImgReader — layer (b): the C05 model of sqfs_meta_reader_read_inode (coq/C05/Inode.v: the sequence of meta
   reader reads, the allocation arithmetic, the index loop) run on the bytes C01's [encode] produces for a
   well-formed inode returns [conv] of that inode, for every inode type. *)
From Coq Require Import List NArith ZArith Lia Bool ZifyBool ZifyNat ZifyN.
From SqfsV Require Import Base.Bytes Gen.Constants.
From SqfsV Require Import C03.Common C03.ListN C03.MetaModel C03.MetaProofs.
From SqfsV Require C01.GenC01 C01.Res C01.InodeModel C01.InodeProofs.
From SqfsV Require Import C05.RBase C05.GenC05 C05.Meta C05.Super C05.Inode.
From SqfsV Require Import ImgReader.MetaRefine ImgReader.Embed.
Import ListNotations.
Local Open Scope N_scope.
Ltac Zify.zify_post_hook ::= Z.div_mod_to_equations.

Notation nlen := Res.nlen.

Lemma nlen_cl {A} (l : list A) : nlen l = cl l.
Proof. reflexivity. Qed.

(* ---- fields of an encoded struct, read the C05 way ---- *)
Lemma getf_fits : forall fs off k v,
  InodeProofs.fitsb fs = true -> InodeProofs.getf fs off k = Some v -> v < 256 ^ N.of_nat k.
Proof.
  induction fs as [|[k' v'] fs IH]; intros off k v F G; [discriminate|].
  apply InodeProofs.fitsb_cons in F. destruct F as [Fv Fr]. cbn [InodeProofs.getf] in G.
  destruct (Nat.eqb_spec off 0) as [->|Hoff].
  - destruct (Nat.eqb_spec k k') as [->|]; [|discriminate]. injection G as <-. exact Fv.
  - destruct (Nat.leb_spec k' off); [|discriminate]. eapply IH; eassumption.
Qed.

Lemma fld_encf fs o k v r :
  InodeProofs.fitsb fs = true -> InodeProofs.getf fs (N.to_nat o) k = Some v ->
  RBase.fld k o (InodeModel.encf fs ++ r) = v.
Proof.
  intros F G. unfold RBase.fld, rdk, nN.
  pose proof (InodeProofs.rdf_encf fs (N.to_nat o) k v r F G) as R. unfold InodeModel.rdf in R. rewrite R.
  apply N.mod_small. eapply getf_fits; eassumption.
Qed.

Lemma fld_encf0 fs o k v :
  InodeProofs.fitsb fs = true -> InodeProofs.getf fs (N.to_nat o) k = Some v ->
  RBase.fld k o (InodeModel.encf fs) = v.
Proof. intros F G. rewrite <- (app_nil_r (InodeModel.encf fs)). apply fld_encf; assumption. Qed.

Ltac flds F := repeat (erewrite fld_encf0; [ | exact F | reflexivity ]).

Lemma cl_encf fs : cl (InodeModel.encf fs) = N.of_nat (InodeProofs.widths fs).
Proof. unfold Common.lenN. rewrite InodeProofs.encf_length. reflexivity. Qed.

(* ---- mode ---- *)
Lemma type_ifmt_eq ty : type_ifmt ty = InodeModel.ifmt_of_type ty.
Proof. reflexivity. Qed.

Lemma mode_split ty m f :
  InodeModel.ifmt_of_type ty = Some f -> InodeProofs.mode_okb ty m = true ->
  (N.ldiff m GenC01.c_SQFS_INODE_MODE_MASK) mod 4096 + f = m.
Proof.
  intros E W. unfold InodeProofs.mode_okb in W. rewrite E in W.
  rewrite andb_true_iff, N.leb_le, N.ltb_lt in W. destruct W as [H1 H2].
  assert (Hp : m - f < 4096) by lia.
  pose proof (InodeProofs.mode_check_ok f (m - f) (InodeProofs.ifmt_in _ _ E) Hp) as C.
  unfold InodeProofs.mode_check in C. rewrite andb_true_iff, !N.eqb_eq in C. destruct C as [C1 _].
  replace (m - f + f) with m in C1 by lia. rewrite C1. rewrite N.mod_small by exact Hp. lia.
Qed.

(* ---- block size words ---- *)
Lemma items_words : forall bl r, InodeProofs.wordsb bl = true ->
  items 4 (length bl) (InodeModel.enc_words bl ++ r) = bl.
Proof.
  induction bl as [|w bl IH]; intros r W; [reflexivity|].
  cbn [InodeProofs.wordsb forallb] in W. apply andb_true_iff in W. destruct W as [Ww Wr]. apply N.ltb_lt in Ww.
  cbn [InodeModel.enc_words flat_map length items]. fold (InodeModel.enc_words bl). rewrite <- app_assoc.
  f_equal.
  - unfold rdk, le32. rewrite rd_le_mod. change (256 ^ N.of_nat 4) with 4294967296.
    rewrite N.mod_mod by discriminate. apply N.mod_small. exact Ww.
  - replace (skipn 4 (le32 w ++ InodeModel.enc_words bl ++ r)) with (InodeModel.enc_words bl ++ r).
    + apply IH. exact Wr.
    + unfold le32, le. reflexivity.
Qed.

Lemma block_count_eq size bs fi fo : bs <> 0 ->
  get_block_count size bs fi fo = Ok (InodeModel.block_count size bs fi fo).
Proof.
  intro H. unfold get_block_count, InodeModel.block_count. apply N.eqb_neq in H. rewrite H.
  change max32 with InodeModel.NOX.
  destruct (negb (size mod bs =? 0) && ((fi =? InodeModel.NOX) || (fo =? InodeModel.NOX))); f_equal; lia.
Qed.

(* ---- the doubling loop of read_inode_dir_ext ---- *)
Lemma grow_ok : forall k new_sz need used,
  used <= new_sz -> 1 <= new_sz -> used + need <= new_sz * 2 ^ N.of_nat k -> used + need < two63 ->
  exists s, grow k new_sz need used = Ok s /\ new_sz <= s /\ used + need <= s /\
            (s = new_sz \/ s < 2 * (used + need)).
Proof.
  induction k as [|k IH]; intros new_sz need used Hu H1 Hk Hb; cbn [grow]; unfold sub64;
    destruct (N.leb_spec used new_sz) as [_|]; try lia.
  - destruct (N.leb_spec need (new_sz - used)) as [L|L].
    + exists new_sz. repeat split; lia.
    + cbn in Hk. lia.
  - destruct (N.leb_spec need (new_sz - used)) as [L|L].
    + exists new_sz. repeat split; lia.
    + unfold sz_mul_ov. destruct (N.ltb_spec (new_sz * 2) two64) as [_|G]; [|unfold two64, two63 in *; lia].
      destruct (IH (new_sz * 2) need used) as (s & G & A & B & C); try lia.
      { rewrite Nat2N.inj_succ, N.pow_succ_r' in Hk. lia. }
      exists s. split; [exact G|]. split; [lia|]. split; [exact B|].
      right. destruct C as [->|C]; lia.
Qed.

Lemma res_ok_inj {A} (a b : A) : Res.Ok a = Res.Ok b -> a = b.
Proof. congruence. Qed.

Section IR.
  Variable compress : list N -> cres.
  Variable uncompress : list N -> option (list N).
  Hypothesis compress_ok :
    forall b c, compress b = CData c -> cl c <= cl b /\ uncompress c = Some b.
  Variable uc : list N -> N -> res (list N).
  Hypothesis uc_ok : uc_meets uncompress uc.
  Variable img : list N.
  Hypothesis img_small : cl img < two63.
  Variable T : table.
  Hypothesis TO : table_ok compress img T.
  Variable fuel : nat.
  Hypothesis Hfuel : (2 * length (t_raws T) <= fuel)%nat.

  Notation Rd := (Rd compress T).
  Notation read := (mr_read uc true img).

  (* one sqfs_meta_reader_read of a known segment *)
  Lemma read_seg m a r cap :
    Rd m (a ++ r) -> cl a <= cap ->
    exists m', read fuel m cap (cl a) = Ok (m', a) /\ Rd m' r.
  Proof.
    intros R Hc.
    destruct (mr_read_ok compress uncompress compress_ok uc uc_ok img img_small T m (a ++ r) fuel cap (cl a) TO R)
      as (m' & E & R'); try assumption.
    { rewrite ListN.lenN_app. lia. }
    rewrite takeN_app_exact in E by reflexivity. rewrite dropN_app_exact in R' by reflexivity.
    exists m'. split; assumption.
  Qed.

  Lemma read_seg_n m a r cap n :
    Rd m (a ++ r) -> n = cl a -> n <= cap ->
    exists m', read fuel m cap n = Ok (m', a) /\ Rd m' r.
  Proof. intros R -> Hc. apply read_seg; assumption. Qed.
  (* peel one read off the stream: R : Rd m (a ++ r), the goal starts with a read of cl a bytes from m *)
  Ltac rd_next R :=
    let m' := fresh "m" in let E := fresh "E" in let R' := fresh "R" in
    match type of R with
    | MetaRefine.Rd _ _ ?m (?a ++ ?r) =>
      match goal with
      | |- context [mr_read uc true img fuel m ?cap ?n] =>
        destruct (read_seg_n m a r cap n R) as (m' & E & R');
        [ try (rewrite cl_encf; reflexivity) | try (apply N.le_refl) | rewrite E; cbn [bind] ]
      end
    end.

  Ltac type_tests :=
    unfold c_SQFS_INODE_DIR, c_SQFS_INODE_FILE, c_SQFS_INODE_SLINK, c_SQFS_INODE_BDEV,
      c_SQFS_INODE_CDEV, c_SQFS_INODE_FIFO, c_SQFS_INODE_SOCKET, c_SQFS_INODE_EXT_DIR, c_SQFS_INODE_EXT_FILE,
      c_SQFS_INODE_EXT_SLINK, c_SQFS_INODE_EXT_BDEV, c_SQFS_INODE_EXT_CDEV, c_SQFS_INODE_EXT_FIFO,
      c_SQFS_INODE_EXT_SOCKET;
    cbn [N.eqb Pos.eqb orb].

  Variable s : sup.
  Hypothesis Hbs : s_block_size s <> 0.

  Lemma alloc_small n : gsz + n <= alloc_limit -> n < two64 /\ gsz + n < two64.
  Proof. unfold gsz, c5_sizeof_sqfs_inode_generic_t, alloc_limit, two64. lia. Qed.

  (* block list of a file inode *)
  Lemma read_words m bl r b d :
    Rd m (InodeModel.enc_words bl ++ r) -> InodeProofs.wordsb bl = true -> gsz + nlen bl * 4 <= alloc_limit ->
    forall cap, cap = nlen bl * 4 ->
    exists m', (do (m2, ws) <- read fuel m cap (u64 (nlen bl * 4));
                do _ <- put_check cap 0 (nlen bl * 4);
                Ok (m2, MkInode b d (u32 (nlen bl * 4)) (items 4 (nN (nlen bl)) ws) [])) =
               Ok (m', MkInode b d (u32 (nlen bl * 4)) bl []) /\ Rd m' r.
  Proof.
    intros R W A cap ->. destruct (alloc_small _ A) as [A1 A2].
    assert (U : u64 (nlen bl * 4) = nlen bl * 4) by (unfold u64; apply N.mod_small; exact A1).
    rewrite U.
    destruct (read_seg_n m _ r (nlen bl * 4) (nlen bl * 4) R) as (m' & E & R').
    { symmetry. exact (InodeProofs.enc_words_length bl). }
    { apply N.le_refl. }
    rewrite E. cbn [bind]. unfold put_check.
    destruct (N.leb_spec (0 + nlen bl * 4) (nlen bl * 4)) as [_|]; [|lia]. cbn [bind].
    exists m'. split; [|exact R']. do 3 f_equal.
    unfold nN, Res.nlen. rewrite Nat2N.id.
    rewrite <- (app_nil_r (InodeModel.enc_words bl)). apply items_words. exact W.
  Qed.
  Lemma read_file_ok m b st fi fo fs bl r :
    Rd m (InodeModel.encf (InodeModel.body_fields (InodeModel.BFile st fi fo fs bl)) ++ InodeModel.enc_words bl ++ r) ->
    InodeProofs.fitsb (InodeModel.body_fields (InodeModel.BFile st fi fo fs bl)) = true ->
    InodeProofs.wordsb bl = true -> nlen bl = InodeModel.block_count fs (s_block_size s) fi fo ->
    gsz + nlen bl * 4 <= alloc_limit ->
    exists m', read_inode_file uc img fuel m b (s_block_size s) =
               Ok (m', MkInode b (IFile st fi fo fs) (u32 (nlen bl * 4)) bl []) /\ Rd m' r.
  Proof.
    intros R F W C A. destruct (alloc_small _ A) as [A1 A2].
    unfold read_inode_file. cbv zeta. cbn [InodeModel.body_fields] in *.
    rd_next R. flds F. rewrite (block_count_eq _ _ _ _ Hbs), <- C. cbn [bind].
    unfold alloc_flex, sz_mul_ov, sz_add_ov, malloc_chk.
    destruct (N.ltb_spec (nlen bl * 4) two64) as [_|]; [|lia].
    destruct (N.ltb_spec (gsz + nlen bl * 4) two64) as [_|]; [|lia].
    destruct (N.ltb_spec alloc_limit (gsz + nlen bl * 4)) as [|_]; [lia|]. cbn [bind].
    apply read_words; try assumption. reflexivity.
  Qed.

  Lemma read_file_ext_ok m b st fs sp nl fi fo xa bl r :
    Rd m (InodeModel.encf (InodeModel.body_fields (InodeModel.BFileX st fs sp nl fi fo xa bl)) ++ InodeModel.enc_words bl ++ r) ->
    InodeProofs.fitsb (InodeModel.body_fields (InodeModel.BFileX st fs sp nl fi fo xa bl)) = true ->
    InodeProofs.wordsb bl = true -> nlen bl = InodeModel.block_count fs (s_block_size s) fi fo ->
    gsz + nlen bl * 4 <= alloc_limit ->
    exists m', read_inode_file_ext uc img fuel m b (s_block_size s) =
               Ok (m', MkInode b (IFileExt st fs sp nl fi fo xa) (u32 (nlen bl * 4)) bl []) /\ Rd m' r.
  Proof.
    intros R F W C A. destruct (alloc_small _ A) as [A1 A2].
    unfold read_inode_file_ext. cbv zeta. cbn [InodeModel.body_fields] in *.
    rd_next R. flds F. rewrite (block_count_eq _ _ _ _ Hbs), <- C. cbn [bind].
    unfold sz_mul_ov, sz_add_ov, malloc_chk.
    destruct (N.ltb_spec (nlen bl * 4) two64) as [_|]; [|lia].
    destruct (N.ltb_spec (gsz + nlen bl * 4) two64) as [_|]; [|lia].
    destruct (N.ltb_spec alloc_limit (gsz + nlen bl * 4)) as [|_]; [lia|]. cbn [bind].
    apply read_words; try assumption. reflexivity.
  Qed.

  Lemma read_slink_ok m b nl t r :
    Rd m (InodeModel.encf [(InodeModel.W4, nl); (InodeModel.W4, nlen t)] ++ t ++ r) ->
    InodeProofs.fitsb [(InodeModel.W4, nl); (InodeModel.W4, nlen t)] = true ->
    gsz + nlen t + 1 <= alloc_limit ->
    exists m', read_inode_slink uc img fuel m b = Ok (m', (nl, nlen t, t)) /\ Rd m' r.
  Proof.
    intros R F A.
    assert (A1 : gsz + (nlen t + 1) < two64 /\ nlen t + 1 < two64)
      by (unfold gsz, c5_sizeof_sqfs_inode_generic_t, alloc_limit, two64 in *; lia).
    unfold read_inode_slink. cbv zeta.
    rd_next R. flds F.
    unfold sz_add_ov, malloc_chk.
    destruct (N.ltb_spec (nlen t + 1) two64) as [_|]; [|lia].
    destruct (N.ltb_spec (gsz + (nlen t + 1)) two64) as [_|]; [|lia].
    destruct (N.ltb_spec alloc_limit (gsz + (nlen t + 1))) as [|_]; [lia|]. cbn [bind].
    destruct (read_seg_n m0 t r (gsz + (nlen t + 1) - gsz) (nlen t) R0) as (m' & E' & R'); [reflexivity|lia|].
    rewrite E'. cbn [bind]. exists m'. split; [reflexivity|exact R'].
  Qed.
  (* the index of an extended directory inode *)
  Lemma dx_loop_ok : forall idx m imax used acc r,
    Rd m (idx_bytes idx ++ r) -> forallb InodeProofs.idx_wfb idx = true ->
    used <= imax -> 128 <= imax -> imax <= 128 + 2 * used ->
    gsz + 2 * (used + cl (idx_bytes idx)) + 256 <= alloc_limit ->
    exists m', dx_loop uc img fuel (length idx) m imax used acc =
               Ok (m', used + cl (idx_bytes idx), acc ++ idx_bytes idx) /\ Rd m' r.
  Proof.
    induction idx as [|e idx IH]; intros m imax used acc r R W Hu H128 Hinv A.
    - cbn [length dx_loop idx_bytes flat_map] in *. rewrite ListN.lenN_nil, N.add_0_r, app_nil_r.
      exists m. split; [reflexivity|exact R].
    - cbn [forallb] in W. apply andb_true_iff in W. destruct W as [We Wr].
      unfold InodeProofs.idx_wfb in We. rewrite !andb_true_iff, !N.ltb_lt, negb_true_iff, N.eqb_neq, N.leb_le in We.
      destruct We as [[[[E1 E2] E3] E4] E5].
      unfold idx_bytes in *. cbn [flat_map] in *. fold (idx_bytes idx) in *.
      unfold InodeModel.enc_idx at 1 in R. rewrite <- !app_assoc in R.
      set (nm := InodeModel.dx_name e) in *.
      set (fs := [(InodeModel.W4, InodeModel.dx_index e); (InodeModel.W4, InodeModel.dx_start e);
                  (InodeModel.W4, nlen nm - 1)]) in *.
      assert (L : cl (InodeModel.enc_idx e ++ idx_bytes idx) = 12 + nlen nm + cl (idx_bytes idx)).
      { unfold InodeModel.enc_idx. fold nm. fold fs. rewrite !ListN.lenN_app, cl_encf.
        change (N.of_nat (InodeProofs.widths fs)) with 12. unfold Res.nlen, Common.lenN. lia. }
      rewrite L in A.
      assert (Hnm : nlen nm < 2147483648) by (unfold gsz, c5_sizeof_sqfs_inode_generic_t, alloc_limit in A; lia).
      assert (F : InodeProofs.fitsb fs = true).
      { unfold InodeProofs.fitsb, fs. cbn [forallb fst snd]. rewrite !andb_true_iff, !N.ltb_lt.
        unfold InodeModel.W4. change (256 ^ N.of_nat 4) with 4294967296. repeat split; try assumption; lia. }
      cbn [length dx_loop]. cbv zeta.
      rd_next R. flds F.
      replace (sizeof_sqfs_dir_index_t + (nlen nm - 1) + 1) with (12 + nlen nm)
        by (unfold sizeof_sqfs_dir_index_t; lia).
      assert (B1 : used + (12 + nlen nm) < two63)
        by (unfold two63; unfold gsz, c5_sizeof_sqfs_inode_generic_t, alloc_limit in A; lia).
      assert (B2 : used + (12 + nlen nm) <= imax * 2 ^ N.of_nat 64)
        by (change (2 ^ N.of_nat 64) with 18446744073709551616; unfold two63 in B1; lia).
      destruct (grow_ok 64 imax (12 + nlen nm) used Hu ltac:(lia) B2 B1) as (sz & G & G1 & G2 & G3).
      rewrite G. cbn [bind].
      assert (Hsz : gsz + sz <= alloc_limit) by lia.
      assert (IM : (if imax <? sz then do _ <- malloc_chk (u64 (gsz + sz)); Ok sz else Ok imax) = Ok sz).
      { destruct (N.ltb_spec imax sz) as [Lt|Ge].
        - unfold malloc_chk, u64. rewrite N.mod_small by (unfold two64, alloc_limit in *; lia).
          destruct (N.ltb_spec alloc_limit (gsz + sz)) as [|_]; [lia|]. reflexivity.
        - f_equal. lia. }
      rewrite IM. cbn [bind]. unfold put_check at 1. unfold sizeof_sqfs_dir_index_t.
      destruct (N.leb_spec (used + 12) sz) as [_|]; [|lia]. cbn [bind].
      assert (U : u32 (nlen nm - 1 + 1) = nlen nm).
      { unfold u32, two32. rewrite N.mod_small by lia. lia. }
      rewrite U.
      destruct (read_seg_n m0 nm (idx_bytes idx ++ r) (sz - (used + 12)) (nlen nm) R0) as (m1 & E1' & R1);
        [reflexivity|lia|].
      rewrite E1'. cbn [bind].
      destruct (IH m1 sz (used + 12 + nlen nm) ((acc ++ InodeModel.encf fs) ++ nm) r R1 Wr) as (m' & D & R'); try lia.
      exists m'. split; [|exact R']. rewrite <- app_assoc in D. rewrite D. do 2 f_equal.
      + f_equal. lia.
      + unfold InodeModel.enc_idx. fold nm. fold fs. rewrite <- !app_assoc. reflexivity.
  Qed.
  (* sqfs_meta_reader_read_inode after its seek *)
  Lemma read_inode_ok m m0 blk off i bytes rest :
    InodeProofs.inode_wfb (s_block_size s) i = true -> inode_alloc_ok i = true ->
    InodeModel.encode i = Res.Ok bytes ->
    mr_seek uc true img m (u64 (blk + s_inode_start s)) off = Ok m0 -> Rd m0 (bytes ++ rest) ->
    exists m', read_inode uc img fuel m s blk off = Ok (m', conv i) /\ Rd m' rest.
  Proof.
    intros W AL E SK R0.
    unfold InodeProofs.inode_wfb in W. apply andb_true_iff in W. destruct W as [Wb Wd].
    destruct i as [b body]. cbn [InodeModel.i_base InodeModel.i_body] in *.
    unfold InodeModel.encode in E. cbn [InodeModel.i_base InodeModel.i_body] in E.
    destruct (InodeModel.body_payload body) as [p| | |] eqn:P; try discriminate. cbn [Res.bind] in E.
    apply res_ok_inj in E. subst bytes. rewrite <- !app_assoc in R0.
    pose proof Wb as Wb0. unfold InodeProofs.base_wfb in Wb0. rewrite !andb_true_iff in Wb0.
    destruct Wb0 as [[[[Wm _] _] _] _].
    destruct (InodeProofs.mode_rt _ _ Wm) as [pp [Hpp [Hl _]]].
    pose proof (InodeProofs.base_fits _ b pp Wb Hl Hpp (InodeProofs.type_of_small body)) as FB.
    destruct (InodeModel.ifmt_of_type (InodeModel.type_of body)) as [f|] eqn:Ef;
      [|unfold InodeProofs.mode_okb in Wm; rewrite Ef in Wm; discriminate].
    pose proof (mode_split _ _ _ Ef Wm) as Hmode.
    unfold InodeProofs.body_wfb in Wd. apply andb_true_iff in Wd. destruct Wd as [F Wd].
    unfold read_inode. cbv zeta. rewrite SK. cbn [bind].
    rd_next R0. flds FB.
    change (type_ifmt (InodeModel.type_of body)) with (InodeModel.ifmt_of_type (InodeModel.type_of body)).
    rewrite Ef, Hmode. clear Hmode Ef f.
    unfold conv, conv_base, inode_alloc_ok in *. cbn [InodeModel.i_base InodeModel.i_body] in *.
    destruct body; cbn [InodeModel.type_of InodeModel.body_payload] in *;
      try (apply res_ok_inj in P; subst p); try destruct chr; try destruct sock; type_tests.
    - (* dir *)
      cbn [InodeModel.body_fields] in *. rd_next R. flds F. exists m2. split; [reflexivity|exact R1].
    - (* file *)
      apply andb_true_iff in Wd. destruct Wd as [W1 W2]. apply N.eqb_eq in W2. apply N.leb_le in AL.
      apply read_file_ok; assumption.
    - (* slink *)
      apply N.leb_le in AL. cbn [InodeModel.body_fields] in *.
      match goal with |- context [read_inode_slink uc img fuel m1 ?bb] =>
        destruct (read_slink_ok m1 bb nlink target rest R F ltac:(lia)) as (m2 & E2 & R2) end.
      rewrite E2. cbn [bind]. exists m2. split; [reflexivity|exact R2].
    - cbn [InodeModel.body_fields] in *. rd_next R. flds F. exists m2. split; [reflexivity|exact R1].
    - cbn [InodeModel.body_fields] in *. rd_next R. flds F. exists m2. split; [reflexivity|exact R1].
    - cbn [InodeModel.body_fields] in *. rd_next R. flds F. exists m2. split; [reflexivity|exact R1].
    - cbn [InodeModel.body_fields] in *. rd_next R. flds F. exists m2. split; [reflexivity|exact R1].
    - (* ext dir *)
      rewrite !andb_true_iff in Wd. destruct Wd as [[W1 W2] W3]. apply N.eqb_eq in W1. apply N.leb_le in AL.
      rewrite (InodeProofs.idx_names_ok_of_wf _ W2) in P. apply res_ok_inj in P. subst p.
      unfold read_inode_dir_ext. cbv zeta. cbn [InodeModel.body_fields] in *.
      rd_next R. flds F.
      destruct (N.eqb_spec size 0) as [Z|Z].
      + cbn [negb orb] in W3. apply N.eqb_eq in W3. destruct index; [|discriminate].
        exists m2. split; [reflexivity|exact R1].
      + subst icount. unfold nN, Res.nlen. rewrite Nat2N.id.
        destruct (dx_loop_ok index m2 128 0 [] rest R1 W2) as (m3 & D & R3); try lia.
        rewrite D. cbn [bind app]. rewrite N.add_0_l. exists m3. split; [reflexivity|exact R3].
    - (* ext file *)
      apply andb_true_iff in Wd. destruct Wd as [W1 W2]. apply N.eqb_eq in W2. apply N.leb_le in AL.
      apply read_file_ext_ok; assumption.
    - (* ext slink *)
      apply andb_true_iff in Wd. destruct Wd as [W1 W2]. apply N.ltb_lt in W2. apply N.leb_le in AL.
      cbn [InodeModel.body_fields] in *. rewrite <- app_assoc in R.
      match goal with |- context [read_inode_slink uc img fuel m1 ?bb] =>
        destruct (read_slink_ok m1 bb nlink target (le32 xattr ++ rest) R F ltac:(lia)) as (m2 & E2 & R2) end.
      rewrite E2. cbn [bind].
      destruct (read_seg_n m2 (le32 xattr) rest 4 4 R2) as (m3 & E3 & R3); [reflexivity|apply N.le_refl|].
      rewrite E3. cbn [bind]. exists m3. split; [|exact R3]. do 4 f_equal.
      unfold rdk, le32. rewrite <- (app_nil_r (le 4 xattr)), rd_le_mod. change (256 ^ N.of_nat 4) with 4294967296.
      rewrite N.mod_mod by discriminate. rewrite N.mod_small by exact W2. reflexivity.
    - cbn [InodeModel.body_fields] in *. rd_next R. flds F. exists m2. split; [reflexivity|exact R1].
    - cbn [InodeModel.body_fields] in *. rd_next R. flds F. exists m2. split; [reflexivity|exact R1].
    - cbn [InodeModel.body_fields] in *. rd_next R. flds F. exists m2. split; [reflexivity|exact R1].
    - cbn [InodeModel.body_fields] in *. rd_next R. flds F. exists m2. split; [reflexivity|exact R1].
  Qed.
End IR.
