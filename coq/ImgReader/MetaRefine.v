(* ImgReader — layer (a): the C05 model of sqfs_meta_reader_seek / _read (coq/C05/Meta.v) on a
   well-formed metadata area returns exactly the bytes of the metadata stream.

   A metadata area is described the way C03's writer proofs describe what the meta writer leaves:
   the list [raws] of uncompressed block contents, stored as [concat (map enc raws)] somewhere in
   the image.  The reader is the REAL reader model: absolute block positions, the [start, limit)
   window, the 16 bit header with the 0x8000 flag, the C-style decompressor with an output capacity,
   the cache of the current block, the loop that crosses block borders. *)
From Coq Require Import List NArith ZArith Lia Bool ZifyBool ZifyNat ZifyN.
From SqfsV Require Import Base.Bytes Gen.Constants.
From SqfsV Require Import C03.Common C03.ListN C03.MetaModel C03.MetaProofs C03.MetaRT.
From SqfsV Require Import C05.RBase C05.Meta.
Import ListNotations.
Local Open Scope N_scope.
Ltac Zify.zify_post_hook ::= Z.div_mod_to_equations.

(* C05 and C03 both define lenN / N-indexed firstn, skipn; one spelling for the proofs *)
Ltac nrm :=
  change (@RBase.lenN) with (@Common.lenN) in *;
  unfold nN in *;
  repeat match goal with
         | |- context [firstn (N.to_nat ?n) ?l] => change (firstn (N.to_nat n) l) with (takeN n l)
         | |- context [skipn (N.to_nat ?n) ?l] => change (skipn (N.to_nat n) l) with (dropN n l)
         | H : context [firstn (N.to_nat ?n) ?l] |- _ => change (firstn (N.to_nat n) l) with (takeN n l) in H
         | H : context [skipn (N.to_nat ?n) ?l] |- _ => change (skipn (N.to_nat n) l) with (dropN n l) in H
         end.

Notation cl := Common.lenN.

Lemma meta_sz_MB : meta_sz = MB.
Proof. reflexivity. Qed.

Lemma takeN_split {A} a n (l : list A) : a <= n -> takeN n l = takeN a l ++ takeN (n - a) (dropN a l).
Proof. intro H. rewrite takeN_takeN_dropN. f_equal. lia. Qed.

Lemma dropN_all {A} n (l : list A) : cl l <= n -> dropN n l = [].
Proof. unfold Common.lenN, dropN. intro H. apply skipn_all2. lia. Qed.

Lemma firstn_S_nth {A} (d : A) : forall k l, (k < length l)%nat -> firstn (S k) l = firstn k l ++ [nth k l d].
Proof.
  induction k as [|k IH]; intros l H; destruct l as [|x l]; simpl in H; try lia.
  - reflexivity.
  - cbn [firstn nth app]. f_equal. apply IH. lia.
Qed.

Lemma skipn_S_nth {A} (d : A) : forall k l, (k < length l)%nat -> skipn k l = nth k l d :: skipn (S k) l.
Proof.
  induction k as [|k IH]; intros l H; destruct l as [|x l]; simpl in H; try lia.
  - reflexivity.
  - simpl. apply IH. lia.
Qed.

Lemma lenN_pos {A} (l : list A) : l <> [] -> 0 < cl l.
Proof. destruct l; [congruence|]. intros _. rewrite ListN.lenN_cons. lia. Qed.

(* a window of the image *)
Definition window (img : list N) (base : N) (d : list N) : Prop :=
  takeN (cl d) (dropN base img) = d.

Lemma window_len img base d : window img base d -> d <> [] -> base + cl d <= cl img.
Proof.
  intros W Hd. unfold window in W.
  assert (L : cl (takeN (cl d) (dropN base img)) = cl d) by (rewrite W; reflexivity).
  rewrite lenN_takeN, lenN_dropN in L. pose proof (lenN_pos d Hd). lia.
Qed.

Lemma window_sub img base d a x :
  window img base d -> takeN (cl x) (dropN a d) = x -> window img (base + a) x.
Proof.
  unfold window. intros W X.
  assert (Hx : cl x <= cl d - a).
  { assert (L : cl (takeN (cl x) (dropN a d)) = cl x) by (rewrite X; reflexivity).
    rewrite lenN_takeN, lenN_dropN in L. lia. }
  transitivity (takeN (cl x) (dropN a d)); [|exact X].
  replace (base + a) with (a + base) by lia.
  rewrite <- (dropN_dropN a base img).
  set (I := dropN base img) in *.
  assert (Ld : cl (takeN (cl d) I) = cl d) by (rewrite W; reflexivity).
  destruct (N.le_gt_cases a (cl d)) as [Ha|Ha].
  - rewrite <- (takeN_dropN (cl d) I) at 1.
    rewrite dropN_app_le by lia. rewrite takeN_app_le by (rewrite lenN_dropN; lia).
    rewrite W. reflexivity.
  - assert (E : cl x = 0) by lia. rewrite E. reflexivity.
Qed.

Lemma read_at_window img base d a n :
  window img base d -> a + n <= cl d -> n <> 0 -> base + a + n < two63 ->
  read_at img (base + a) n = Ok (takeN n (dropN a d)).
Proof.
  intros W Hn Hz Hlt. unfold read_at.
  destruct (N.eqb_spec n 0) as [|_]; [contradiction|].
  destruct (N.leb_spec two63 (base + a + n)) as [|_]; [lia|].
  assert (Hd : d <> []) by (intro E; subst d; cbn in Hn; lia).
  pose proof (window_len _ _ _ W Hd) as HL.
  nrm.
  destruct (N.leb_spec (base + a + n) (cl img)) as [_|]; [|lia].
  f_equal.
  assert (X : takeN (cl (takeN n (dropN a d))) (dropN a d) = takeN n (dropN a d)).
  { rewrite lenN_takeN, lenN_dropN. replace (N.min n (cl d - a)) with n by lia. reflexivity. }
  pose proof (window_sub img base d a _ W X) as W2. unfold window in W2.
  rewrite lenN_takeN, lenN_dropN in W2. replace (N.min n (cl d - a)) with n in W2 by lia.
  exact W2.
Qed.

Section MR.
  Variable compress : list N -> cres.
  Variable uncompress : list N -> option (list N).
  Hypothesis compress_ok :
    forall b c, compress b = CData c -> cl c <= cl b /\ uncompress c = Some b.
  (* C05's decompressor (do_block in uncompress mode: input, capacity of the output buffer) against the
     abstract inverse of the writer's compressor: valid input whose output fits is decompressed *)
  Variable uc : list N -> N -> res (list N).
  Hypothesis uc_ok :
    forall c b, uncompress c = Some b -> cl b <= meta_sz -> uc c meta_sz = Ok b.
  Variable img : list N.
  Hypothesis img_small : cl img < two63.

  Notation enc := (enc compress).
  Notation stored_size := (stored_size compress).

  (* a metadata area inside the image and the window the reader was created with *)
  Record table := mkT { t_base : N; t_raws : list (list N); t_start : N; t_limit : N }.

  Definition disk (T : table) : list N := concat (map enc (t_raws T)).

  Definition table_ok (T : table) : Prop :=
    Forall blk_ok (t_raws T) /\ t_start T <= t_base T /\ t_base T + cl (disk T) <= t_limit T /\
    window img (t_base T) (disk T).

  (* absolute byte position of block k *)
  Definition bpos (T : table) (k : nat) : N := t_base T + cl (concat (map enc (firstn k (t_raws T)))).

  (* the stream from in-block offset off of block k on *)
  Definition suffix (T : table) (k : nat) (off : N) : list N :=
    dropN off (nth k (t_raws T) []) ++ concat (skipn (S k) (t_raws T)).

  (* (blk, off) is a position the reader can seek to and the stream behind it is l: inside a block, or the
     end of the area *)
  Definition PosAt (T : table) (p : N * N) (l : list N) : Prop :=
    exists k, fst p = bpos T k /\ l = suffix T k (snd p) /\
      (((k < length (t_raws T))%nat /\ snd p < cl (nth k (t_raws T) [])) \/
       (k = length (t_raws T) /\ snd p = 0)).

  Definition at_block (T : table) (m : mr) (k : nat) : Prop :=
    (k < length (t_raws T))%nat /\ m_block m = bpos T k /\ m_data m = nth k (t_raws T) [] /\
    m_next m = bpos T (S k) /\ m_off m <= cl (m_data m).

  (* the reader is in a state the operations below leave it in *)
  Definition Coh (T : table) (m : mr) : Prop :=
    m_start m = t_start T /\ m_limit m = t_limit T /\
    (m = mr_create (t_start T) (t_limit T) \/ exists k, at_block T m k).

  (* ... and the stream from its cursor on is l *)
  Definition Rd (T : table) (m : mr) (l : list N) : Prop :=
    m_start m = t_start T /\ m_limit m = t_limit T /\
    exists k, at_block T m k /\ l = suffix T k (m_off m).

  Lemma Rd_Coh T m l : Rd T m l -> Coh T m.
  Proof. intros (A & B & k & C & _). split; [exact A|]. split; [exact B|]. right. exists k. exact C. Qed.

  Lemma Coh_create T : Coh T (mr_create (t_start T) (t_limit T)).
  Proof. split; [reflexivity|]. split; [reflexivity|]. left. reflexivity. Qed.

  (* ---- geometry of the area ---- *)
  Lemma nth_blk_ok T k : Forall blk_ok (t_raws T) -> (k < length (t_raws T))%nat -> blk_ok (nth k (t_raws T) []).
  Proof. intros F Hk. rewrite Forall_forall in F. apply F. apply nth_In. exact Hk. Qed.

  Lemma bpos_S T k : Forall blk_ok (t_raws T) -> (k < length (t_raws T))%nat ->
    bpos T (S k) = bpos T k + cl (enc (nth k (t_raws T) [])).
  Proof.
    intros F Hk. unfold bpos.
    rewrite (firstn_S_nth [] k (t_raws T) Hk).
    rewrite map_app, concat_app, ListN.lenN_app. cbn [map concat]. rewrite app_nil_r. lia.
  Qed.

  Lemma bpos_le_end T k : bpos T k <= t_base T + cl (disk T).
  Proof.
    unfold bpos, disk. rewrite <- (firstn_skipn k (t_raws T)) at 2.
    rewrite map_app, concat_app, ListN.lenN_app. lia.
  Qed.

  Lemma bpos_lt T : Forall blk_ok (t_raws T) ->
    forall k2 k1, (k1 < k2)%nat -> (k2 <= length (t_raws T))%nat -> bpos T k1 < bpos T k2.
  Proof.
    intro F. induction k2 as [|k2 IH]; intros k1 H1 H2; [lia|].
    rewrite (bpos_S T k2 F) by lia.
    pose proof (enc_len compress uncompress compress_ok _ (nth_blk_ok T k2 F ltac:(lia))) as EL.
    destruct (Nat.eq_dec k1 k2) as [->|Hne]; [lia|].
    specialize (IH k1 ltac:(lia) ltac:(lia)). lia.
  Qed.

  (* the encoded block k sits at bpos k *)
  Lemma block_window T k : table_ok T -> (k < length (t_raws T))%nat ->
    window img (bpos T k) (enc (nth k (t_raws T) [])) /\
    bpos T k + cl (enc (nth k (t_raws T) [])) <= t_base T + cl (disk T).
  Proof.
    intros (F & _ & _ & W) Hk.
    assert (D : disk T = concat (map enc (firstn k (t_raws T))) ++ enc (nth k (t_raws T) []) ++
                         concat (map enc (skipn (S k) (t_raws T)))).
    { unfold disk. rewrite <- (firstn_skipn k (t_raws T)) at 1.
      rewrite (skipn_S_nth [] k (t_raws T) Hk). rewrite map_app, concat_app. reflexivity. }
    split.
    - unfold bpos. apply (window_sub img (t_base T) (disk T)); [exact W|].
      rewrite D. rewrite dropN_app_exact by reflexivity. apply takeN_app_exact. reflexivity.
    - unfold bpos. rewrite D. rewrite !ListN.lenN_app. lia.
  Qed.

  (* ---- sqfs_meta_reader_seek ---- *)
  Lemma mr_seek'_at T m k off :
    table_ok T -> Coh T m -> (k < length (t_raws T))%nat -> off < cl (nth k (t_raws T) []) ->
    exists m', mr_seek' uc true img m (bpos T k) off = (m', Ok tt) /\
      m_start m' = t_start T /\ m_limit m' = t_limit T /\ at_block T m' k /\ m_off m' = off.
  Proof.
    intros TO (Cs & Cl & Cst) Hk Hoff.
    pose proof TO as (F & Hst & Hlim & W).
    set (r := nth k (t_raws T) []) in *.
    pose proof (nth_blk_ok T k F Hk) as OK. fold r in OK.
    destruct (block_window T k TO Hk) as [BW BE]. fold r in BW, BE.
    pose proof (enc_len compress uncompress compress_ok r OK) as EL.
    pose proof (bpos_S T k F Hk) as BS. fold r in BS.
    pose proof (window_len _ _ _ W) as WL.
    assert (Hb1 : t_base T <= bpos T k) by (unfold bpos; lia).
    assert (Hdisk : disk T <> []).
    { intro E. rewrite E in BE. rewrite ListN.lenN_nil in BE. lia. }
    specialize (WL Hdisk).
    unfold mr_seek'. rewrite Cs, Cl.
    destruct (N.ltb_spec (bpos T k) (t_start T)) as [|_]; [lia|].
    destruct (N.leb_spec (t_limit T) (bpos T k)) as [|_]; [lia|]. cbn [orb].
    destruct (N.eqb_spec (bpos T k) (m_block m)) as [Eb|Eb].
    - (* the block is the cached one *)
      destruct Cst as [->|(k' & K1 & K2 & K3 & K4 & K5)].
      { exfalso. cbn [mr_create m_block] in Eb. unfold max64, two64, two63 in *. lia. }
      assert (k' = k).
      { destruct (Nat.lt_trichotomy k' k) as [L|[E|L]]; [|exact E|].
        - pose proof (bpos_lt T F k k' L ltac:(lia)). lia.
        - pose proof (bpos_lt T F k' k L ltac:(lia)). lia. }
      subst k'. nrm. rewrite K3. fold r.
      destruct (N.leb_spec (cl r) off) as [|_]; [lia|].
      eexists. split; [reflexivity|]. cbn [mr_set_off m_start m_limit m_off].
      split; [exact Cs|]. split; [exact Cl|]. split; [|reflexivity].
      unfold at_block. cbn [mr_set_off m_block m_data m_next m_off]. rewrite K3. fold r.
      repeat split; try assumption. lia.
    - (* load it *)
      pose proof MB_small as HS. pose proof FLAG_val as HF. destruct OK as [Hp Hm].
      assert (HV : exists hv pay,
                enc r = le16 hv ++ pay /\ hv < 65536 /\ hv mod 32768 = cl pay /\ 0 < cl pay /\ cl pay <= MB /\
                (if (hv / 32768) mod 2 =? 0 then uc pay meta_sz else Ok pay) = Ok r).
      { destruct (enc_cases compress uncompress compress_ok r (conj Hp Hm))
          as [[_ (c & Ec & Nc & E & L & U)]|[_ E]].
        - pose proof (lenN_pos c Nc) as Hc. exists (cl c), c.
          split; [exact E|]. split; [lia|]. split; [apply N.mod_small; lia|]. split; [lia|]. split; [lia|].
          assert (Hz : (cl c / 32768) mod 2 =? 0 = true).
          { apply N.eqb_eq. rewrite N.div_small by lia. reflexivity. }
          rewrite Hz. apply uc_ok; [exact U|]. rewrite meta_sz_MB. exact Hm.
        - rewrite HF in E. exists (cl r + 32768), r.
          split; [exact E|]. split; [lia|]. split; [lia|]. split; [lia|]. split; [lia|].
          assert (Hz : ((cl r + 32768) / 32768) mod 2 =? 0 = false).
          { apply N.eqb_neq. replace ((cl r + 32768) / 32768) with 1 by lia. discriminate. }
          rewrite Hz. reflexivity. }
      destruct HV as (hv & pay & E & Hhv & Hsz & Hpp & Hpm & Hdec).
      assert (Lh : cl (enc r) = 2 + cl pay).
      { rewrite E, ListN.lenN_app. unfold le16. rewrite lenN_le. reflexivity. }
      pose proof (read_at_window img (bpos T k) (enc r) 0 2 BW ltac:(lia) ltac:(lia) ltac:(lia)) as RA1.
      rewrite N.add_0_r in RA1. rewrite RA1.
      assert (Hhd : rdk 2 (takeN 2 (dropN 0 (enc r))) = hv).
      { rewrite dropN_0, E. rewrite takeN_app_exact by (unfold le16; rewrite lenN_le; reflexivity).
        unfold rdk. rewrite <- (app_nil_r (le16 hv)). unfold le16. rewrite rd_le_mod.
        change (256 ^ N.of_nat 2) with 65536. rewrite N.mod_mod by discriminate. apply N.mod_small. exact Hhv. }
      cbv zeta. rewrite Hhd, Hsz, meta_sz_MB.
      destruct (N.ltb_spec MB (cl pay)) as [|_]; [lia|].
      assert (U1 : u64 (bpos T k + 2 + cl pay) = bpos T k + 2 + cl pay).
      { unfold u64. apply N.mod_small. unfold two64, two63 in *. lia. }
      assert (U2 : u64 (bpos T k + 2) = bpos T k + 2).
      { unfold u64. apply N.mod_small. unfold two64, two63 in *. lia. }
      assert (U3 : u64 (bpos T k + cl pay + 2) = bpos T (S k)).
      { unfold u64. rewrite N.mod_small by (unfold two64, two63 in *; lia). lia. }
      rewrite U1, U2, U3.
      destruct (N.ltb_spec (t_limit T) (bpos T k + 2 + cl pay)) as [|_]; [lia|].
      unfold put_check at 1.
      destruct (N.leb_spec (0 + cl pay) MB) as [_|]; [|lia].
      rewrite (read_at_window img (bpos T k) (enc r) 2 (cl pay) BW) by (unfold two63 in *; lia).
      assert (Hpay : takeN (cl pay) (dropN 2 (enc r)) = pay).
      { rewrite E, dropN_app_exact by (unfold le16; rewrite lenN_le; reflexivity).
        apply takeN_all. lia. }
      rewrite Hpay.
      assert (Hdec' : (if (hv / 32768) mod 2 =? 0
                       then bind (uc pay MB) (fun out => bind (put_check MB 0 (RBase.lenN out)) (fun _ => Ok out))
                       else Ok pay) = Ok r).
      { rewrite <- meta_sz_MB. destruct ((hv / 32768) mod 2 =? 0).
        - rewrite Hdec. cbn [bind]. unfold put_check. nrm. rewrite meta_sz_MB.
          destruct (N.leb_spec (0 + cl r) MB) as [_|]; [reflexivity|lia].
        - exact Hdec. }
      rewrite Hdec'. nrm.
      destruct (N.leb_spec (cl r) off) as [|_]; [lia|].
      eexists. split; [reflexivity|]. cbn [m_start m_limit m_off].
      split; [reflexivity|]. split; [reflexivity|]. split; [|reflexivity].
      unfold at_block. cbn [m_block m_data m_next m_off]. fold r. repeat split; try assumption; try reflexivity. lia.
  Qed.
  Lemma Rd_of_at T m k : m_start m = t_start T -> m_limit m = t_limit T -> at_block T m k ->
    Rd T m (suffix T k (m_off m)).
  Proof. intros A B C. split; [exact A|]. split; [exact B|]. exists k. split; [exact C|reflexivity]. Qed.

  Lemma mr_seek'_ok T m p l :
    table_ok T -> Coh T m -> PosAt T p l -> l <> [] ->
    exists m', mr_seek' uc true img m (fst p) (snd p) = (m', Ok tt) /\ Rd T m' l.
  Proof.
    intros TO C (k & Pb & Pl & Pc) Hne.
    assert (Hk : (k < length (t_raws T))%nat /\ snd p < cl (nth k (t_raws T) [])).
    { destruct Pc as [Pc|[Pk Po]]; [exact Pc|]. exfalso. apply Hne. rewrite Pl, Pk, Po. unfold suffix.
      rewrite nth_overflow by lia. rewrite skipn_all2 by lia. reflexivity. }
    destruct Hk as [Hk Hoff].
    destruct (mr_seek'_at T m k (snd p) TO C Hk Hoff) as (m' & S & A & B & AB & O).
    exists m'. rewrite Pb. split; [exact S|]. rewrite Pl, <- O. apply Rd_of_at; assumption.
  Qed.

  Lemma mr_seek_ok T m blk off l :
    table_ok T -> Coh T m -> PosAt T (blk, off) l -> l <> [] ->
    exists m', mr_seek uc true img m blk off = Ok m' /\ Rd T m' l.
  Proof.
    intros TO C P Hne.
    destruct (mr_seek'_ok T m (blk, off) l TO C P Hne) as (m' & S & R). cbn [fst snd] in S.
    exists m'. unfold mr_seek. rewrite S. cbn [bind]. split; [reflexivity|exact R].
  Qed.

  (* ---- sqfs_meta_reader_read ---- *)
  (* rounds of the read loop that are enough from the current cursor: two per remaining block *)
  Definition cost (T : table) (k : nat) (m : mr) : nat :=
    (2 * (length (t_raws T) - k) - (if (m_off m =? cl (m_data m))%N then 1 else 0))%nat.

  Lemma mr_read_loop_ok T : table_ok T -> forall fuel m k n,
    m_start m = t_start T -> m_limit m = t_limit T -> at_block T m k ->
    n <= cl (suffix T k (m_off m)) -> (n = 0 \/ (cost T k m <= fuel)%nat) ->
    exists m', mr_read_loop uc true img fuel m n = (m', Ok (takeN n (suffix T k (m_off m)))) /\
               Rd T m' (dropN n (suffix T k (m_off m))).
  Proof.
    intros TO. pose proof TO as (F & _).
    induction fuel as [|f IH]; intros m k n Cs Cl AB Hn Hf.
    - destruct (N.eq_dec n 0) as [->|Hnz].
      + exists m. cbn. split; [reflexivity|]. apply Rd_of_at; assumption.
      + exfalso. destruct Hf as [|Hf]; [contradiction|]. unfold cost in Hf. destruct AB as (Hk & _).
        destruct (m_off m =? cl (m_data m)); lia.
    - cbn [mr_read_loop].
      destruct (N.eqb_spec n 0) as [->|Hnz].
      { exists m. split; [reflexivity|]. rewrite dropN_0. apply Rd_of_at; assumption. }
      destruct Hf as [|Hf]; [contradiction|].
      pose proof AB as (Hk & Bk & Dk & Nk & Ok).
      nrm. unfold sub64.
      destruct (N.leb_spec (m_off m) (cl (m_data m))) as [_|]; [|lia].
      destruct (N.eqb_spec (cl (m_data m) - m_off m) 0) as [Ez|Ez].
      + (* at the end of the block: load the next one *)
        assert (Eo : m_off m = cl (m_data m)) by lia.
        assert (El : suffix T k (m_off m) = suffix T (S k) 0).
        { unfold suffix. rewrite <- Dk, Eo, dropN_all by lia. rewrite dropN_0. cbn [app].
          destruct (Nat.lt_ge_cases (S k) (length (t_raws T))) as [L|L].
          - rewrite (skipn_S_nth [] (S k) (t_raws T) L). reflexivity.
          - rewrite nth_overflow by lia. rewrite !skipn_all2 by lia. reflexivity. }
        rewrite El in *.
        assert (Hk' : (S k < length (t_raws T))%nat).
        { destruct (Nat.lt_ge_cases (S k) (length (t_raws T))) as [L|L]; [exact L|].
          exfalso. unfold suffix in Hn. rewrite nth_overflow in Hn by lia. rewrite skipn_all2 in Hn by lia.
          cbn in Hn. lia. }
        pose proof (nth_blk_ok T (S k) F Hk') as [Hp1 Hm1].
        assert (C : Coh T m) by (split; [exact Cs|]; split; [exact Cl|]; right; exists k; exact AB).
        destruct (mr_seek'_at T m (S k) 0 TO C Hk' Hp1) as (m1 & S1 & Cs1 & Cl1 & AB1 & Off1).
        rewrite Nk, S1.
        pose proof AB1 as (_ & B1 & D1 & N1 & O1). rewrite D1, Off1.
        set (r1 := nth (S k) (t_raws T) []) in *.
        set (diff := if n <? cl r1 then n else cl r1).
        assert (Hdiff : 1 <= diff /\ diff <= n /\ diff <= cl r1).
        { unfold diff. destruct (N.ltb_spec n (cl r1)); lia. }
        unfold slice. nrm.
        destruct (N.leb_spec (0 + diff) (cl r1)) as [_|]; [|lia].
        set (m2 := mr_set_off m1 (0 + diff)).
        assert (AB2 : at_block T m2 (S k)).
        { unfold at_block, m2. cbn [mr_set_off m_block m_data m_next m_off]. rewrite D1. fold r1.
          repeat split; try assumption. lia. }
        assert (E2 : suffix T (S k) (m_off m2) = dropN diff (suffix T (S k) 0)).
        { unfold m2. cbn [mr_set_off m_off]. unfold suffix. fold r1. rewrite dropN_0.
          rewrite dropN_app_le by lia. reflexivity. }
        destruct (IH m2 (S k) (n - diff)) as (m3 & R3 & RD3); try assumption.
        { rewrite E2, lenN_dropN. lia. }
        { destruct (N.eq_dec (n - diff) 0) as [|Hnz2]; [left; assumption|right].
          unfold cost in *. unfold m2. cbn [mr_set_off m_off m_data]. rewrite D1. fold r1.
          assert (diff = cl r1) by (unfold diff in *; destruct (N.ltb_spec n (cl r1)); lia).
          destruct (N.eqb_spec (0 + diff) (cl r1)) as [_|]; [|lia].
          destruct (N.eqb_spec (m_off m) (cl (m_data m))) as [_|]; [|lia]. lia. }
        rewrite R3. rewrite E2 in R3, RD3 |- *.
        exists m3. split.
        * f_equal. f_equal. rewrite dropN_0.
          rewrite (takeN_split diff n (suffix T (S k) 0)) by lia. f_equal.
          unfold suffix. fold r1. rewrite dropN_0. rewrite takeN_app_le by lia. reflexivity.
        * rewrite dropN_dropN in RD3. replace (n - diff + diff) with n in RD3 by lia. exact RD3.
      + (* copy from the current block *)
        set (r0 := m_data m) in *.
        set (diff := if n <? cl r0 - m_off m then n else cl r0 - m_off m).
        assert (Hdiff : 1 <= diff /\ diff <= n /\ m_off m + diff <= cl r0).
        { unfold diff. destruct (N.ltb_spec n (cl r0 - m_off m)); lia. }
        unfold slice. nrm.
        destruct (N.leb_spec (m_off m + diff) (cl r0)) as [_|]; [|lia].
        set (m2 := mr_set_off m (m_off m + diff)).
        assert (AB2 : at_block T m2 k).
        { unfold at_block, m2. cbn [mr_set_off m_block m_data m_next m_off]. fold r0.
          repeat split; try assumption. lia. }
        assert (E0 : suffix T k (m_off m) = dropN (m_off m) r0 ++ concat (skipn (S k) (t_raws T))).
        { unfold suffix. rewrite <- Dk. reflexivity. }
        assert (E2 : suffix T k (m_off m2) = dropN diff (suffix T k (m_off m))).
        { rewrite E0. unfold m2. cbn [mr_set_off m_off]. unfold suffix. rewrite <- Dk. fold r0.
          rewrite dropN_app_le by (rewrite lenN_dropN; lia). rewrite dropN_dropN. f_equal. f_equal. lia. }
        destruct (IH m2 k (n - diff)) as (m3 & R3 & RD3); try assumption.
        { rewrite E2, lenN_dropN. lia. }
        { destruct (N.eq_dec (n - diff) 0) as [|Hnz2]; [left; assumption|right].
          unfold cost in *. unfold m2. cbn [mr_set_off m_off m_data]. fold r0. fold r0 in Hf.
          assert (diff = cl r0 - m_off m) by (unfold diff in *; destruct (N.ltb_spec n (cl r0 - m_off m)); lia).
          destruct (N.eqb_spec (m_off m + diff) (cl r0)) as [_|]; [|lia].
          destruct (N.eqb_spec (m_off m) (cl r0)) as [|_]; [lia|]. lia. }
        rewrite R3. rewrite E2 in R3, RD3 |- *.
        exists m3. split.
        * f_equal. f_equal.
          rewrite (takeN_split diff n (suffix T k (m_off m))) by lia. f_equal.
          rewrite E0. rewrite takeN_app_le by (rewrite lenN_dropN; lia). reflexivity.
        * rewrite dropN_dropN in RD3. replace (n - diff + diff) with n in RD3 by lia. exact RD3.
  Qed.

  Lemma cost_le T k m : (cost T k m <= 2 * length (t_raws T))%nat.
  Proof. unfold cost. lia. Qed.

  (* sqfs_meta_reader_read(m, data, size) into a destination of cap bytes *)
  Lemma mr_read_ok T m l fuel cap n :
    table_ok T -> Rd T m l -> n <= cl l -> n <= cap -> (2 * length (t_raws T) <= fuel)%nat ->
    exists m', mr_read uc true img fuel m cap n = Ok (m', takeN n l) /\ Rd T m' (dropN n l).
  Proof.
    intros TO (Cs & Cl & k & AB & El) Hn Hcap Hf. subst l.
    destruct (mr_read_loop_ok T TO fuel m k n Cs Cl AB Hn) as (m' & R & RD).
    { right. pose proof (cost_le T k m). lia. }
    exists m'. unfold mr_read, mr_read', put_check.
    destruct (N.leb_spec (0 + n) cap) as [_|]; [|lia].
    rewrite R. cbn [bind]. split; [reflexivity|exact RD].
  Qed.

  (* sqfs_meta_reader_get_position *)
  Lemma mr_position_ok T m l : table_ok T -> Rd T m l -> PosAt T (mr_position m) l.
  Proof.
    intros (F & _) (Cs & Cl & k & (Hk & Bk & Dk & Nk & Ok) & El).
    unfold mr_position. nrm.
    destruct (N.eqb_spec (m_off m) (cl (m_data m))) as [E|E].
    - exists (S k). cbn [fst snd]. split; [exact Nk|]. split.
      + rewrite El. unfold suffix. rewrite <- Dk, E, dropN_all by lia. rewrite dropN_0. cbn [app].
        destruct (Nat.lt_ge_cases (S k) (length (t_raws T))) as [L|L].
        * rewrite (skipn_S_nth [] (S k) (t_raws T) L). reflexivity.
        * rewrite nth_overflow by lia. rewrite !skipn_all2 by lia. reflexivity.
      + destruct (Nat.eq_dec (S k) (length (t_raws T))) as [Eq|Hne]; [right; split; [exact Eq|reflexivity]|].
        left. split; [lia|]. apply (nth_blk_ok T (S k) F). lia.
    - exists k. cbn [fst snd]. split; [exact Bk|]. split; [exact El|].
      left. split; [exact Hk|]. rewrite <- Dk. lia.
  Qed.
End MR.
