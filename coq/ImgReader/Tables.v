(* ImgReader — from "the image contains the serializer output" ([laid]) and the serializer invariant
   (Img.Final + WriterFacts) to the metadata areas the meta reader lemmas are about, and from the
   positions the writer recorded to positions the reader can seek to. *)
From Coq Require Import List NArith ZArith Lia Bool ZifyBool ZifyNat ZifyN.
From SqfsV Require Import Base.Bytes Gen.Constants C03.Common C03.ListN C03.MetaModel C03.MetaProofs C03.MetaRT
  C03.DirModel C03.DirProofs C03.DirRT C03.DirEnd.
From SqfsV Require Import C01.GenC01 C01.Res C01.InodeModel C01.InodeProofs.
From SqfsV Require Import Img.TreeModel Img.MetaLemmas Img.InodeLemmas Img.SerDefs Img.SerDir Img.SerProofs
  Img.Final.
From SqfsV Require C05.RBase C05.Meta C05.Super.
From SqfsV Require Import ImgReader.MetaRefine ImgReader.WriterFacts ImgReader.Embed.
Import ListNotations.
Local Open Scope N_scope.
Ltac Zify.zify_post_hook ::= Z.div_mod_to_equations.

Lemma nth_removelast {A} (d : A) : forall (l : list A) k, (S k < length l)%nat -> nth k (removelast l) d = nth k l d.
Proof.
  induction l as [|x l IH]; intros k H; [simpl in H; lia|].
  destruct l as [|y l]; [simpl in H; lia|].
  destruct k as [|k]; [reflexivity|]. cbn [removelast nth]. apply IH. simpl in *. lia.
Qed.

Lemma removelast_length {A} (l : list A) : length (removelast l) = (length l - 1)%nat.
Proof.
  induction l as [|x l IH]; [reflexivity|]. destruct l as [|y l]; [reflexivity|].
  cbn [removelast length] in *. rewrite IH. lia.
Qed.

Section Tb.
  Variable compress : list N -> cres.
  Variable uncompress : list N -> option (list N).
  Hypothesis compress_ok :
    forall b c, compress b = CData c -> lenN c <= lenN b /\ uncompress c = Some b.
  Variable img : list N.

  Notation enc := (enc compress).
  Notation pos_ok := (pos_ok compress).
  Notation PosAt := (PosAt compress).
  Notation table_ok := (table_ok compress img).

  (* a recorded position with data behind it, in an area whose blocks are full except the last one, with an
     in-block offset below the block size: strictly inside its block *)
  Lemma pos_canon T p L :
    Forall blk_ok (t_raws T) -> Forall (full) (removelast (t_raws T)) -> snd p < MB ->
    pos_ok (t_raws T) [] p L -> L < lenN (concat (t_raws T)) ->
    PosAt T (t_base T + fst p, snd p) (dropN L (concat (t_raws T))).
  Proof.
    intros F FU Ho (k & Hk & P1 & P2 & P3) HL.
    set (raws := t_raws T) in *.
    assert (Hlt : (k < length raws)%nat).
    { destruct (Nat.eq_dec k (length raws)) as [->|Hne]; [|lia].
      rewrite app_nth2, Nat.sub_diag in P3 by lia. cbn [nth] in P3. rewrite lenN_nil in P3.
      rewrite firstn_all in P2. lia. }
    rewrite app_nth1 in P3 by lia.
    assert (D : concat raws = concat (firstn k raws) ++ nth k raws [] ++ concat (skipn (S k) raws)).
    { rewrite <- (firstn_skipn k raws) at 1. rewrite (skipn_S_nth [] k raws Hlt), concat_app. reflexivity. }
    exists k. cbn [fst snd]. split; [unfold bpos; fold raws; rewrite P1; reflexivity|]. split.
    - unfold suffix. fold raws. rewrite D, P2.
      rewrite dropN_app_ge by lia.
      replace (lenN (concat (firstn k raws)) + snd p - lenN (concat (firstn k raws))) with (snd p) by lia.
      rewrite dropN_app_le by exact P3. reflexivity.
    - left. split; [exact Hlt|]. fold raws.
      destruct (Nat.eq_dec (S k) (length raws)) as [Hl|Hl].
      + rewrite D, !lenN_app in HL. rewrite skipn_all2 in HL by lia. cbn [concat] in HL. rewrite lenN_nil in HL. lia.
      + assert (Hf : full (nth k raws [])).
        { rewrite <- (nth_removelast [] raws k) by lia. rewrite Forall_forall in FU. apply FU. apply nth_In.
          rewrite removelast_length. lia. }
        unfold full in Hf. lia.
  Qed.

  (* ---- the two areas of a laid-out serializer output ---- *)
  Variable limit : N.
  Variable s : Super.sup.
  Variable bs : N.
  Variable t : fstree.
  Variable si : simg.
  Variable a : astate.
  Variables im dm : mw.
  Hypothesis LD : laid compress img s bs si.
  Hypothesis FIN : Final compress limit t si a im dm.

  Definition TI : table := mkT (Super.s_inode_start s) (a_rawsI a) (Super.s_inode_start s) (Super.s_dir_start s).
  Definition TD : table := mkT (Super.s_dir_start s) (a_rawsD a) (Super.s_dir_start s) (dir_limit s).

  Lemma disk_TI : disk compress TI = si_itbl si.
  Proof.
    destruct FIN as ([(A & _) _] & _ & T1 & _). unfold disk, TI. cbn [t_raws]. rewrite T1, A. reflexivity.
  Qed.

  Lemma disk_TD : disk compress TD = si_dtbl si.
  Proof.
    destruct FIN as (_ & _ & _ & [(A & _) _] & _ & T2 & _). unfold disk, TD. cbn [t_raws]. rewrite T2, A. reflexivity.
  Qed.

  Lemma TI_ok : table_ok TI.
  Proof.
    pose proof disk_TI as D. destruct LD. destruct FIN as ([(_ & _ & C & _) _] & _).
    unfold MetaRefine.table_ok. rewrite D. unfold TI at 1 2 3 4 5. cbn [t_raws t_base t_start t_limit].
    split; [exact C|]. split; [lia|]. split; [exact ld_iend|exact ld_itbl].
  Qed.

  Lemma TD_ok : table_ok TD.
  Proof.
    pose proof disk_TD as D. destruct LD. destruct FIN as (_ & _ & _ & [(_ & _ & C & _) _] & _).
    unfold MetaRefine.table_ok. rewrite D. unfold TD at 1 2 3 4 5. cbn [t_raws t_base t_start t_limit].
    split; [exact C|]. split; [lia|]. split; [exact ld_dend|exact ld_dtbl].
  Qed.

  Lemma img_small : lenN img < RBase.two63.
  Proof. destruct LD. exact ld_small. Qed.
End Tb.
