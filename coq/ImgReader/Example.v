(* ImgReader — non-vacuity: on the concrete image of Image/Example.v (96 inode tree: nested directories, hard link,
   7000 byte symlink, device with xattr index, listings crossing metadata block borders, inode table of two blocks with
   a compressed first block, compressor options, data area, fragment table, export table) every hypothesis of the
   refinement theorems holds and the C05 reader model, run on the bytes of the file, computes the committed super
   block, the id table and the tree that was serialized. *)
From Coq Require Import List NArith ZArith Bool.
From SqfsV Require Import Base.Bytes Gen.Constants C03.Common.
From SqfsV Require Import C01.GenC01 C01.Res C01.InodeModel Img.TreeModel Img.ZrleProofs Img.Example.
From SqfsV Require Import Image.FinishModel Image.ImageProofs Image.Example.
From SqfsV Require Import ImgReader.MetaRefine ImgReader.Embed ImgReader.ReadImage ImgReader.Closed ImgReader.ImageLaid
  ImgReader.AllocBound.
From SqfsV Require Import C05.RBase C05.Super C05.Inode C05.Dir.
Import ListNotations.
Local Open Scope N_scope.

Definition ex_uc : list N -> N -> res (list N) := uc_of (img_uncompress 3).
Definition ex_depth : nat := length ex_tree.
Definition ex_efuel : nat := S (max_entries ex_tree).

(* the decidable hypotheses of written_image_read_back on the example (image_domain / image_fits: Image/Example.v) *)
Example ex_reader_hyps :
  match ex_w with
  | Res.Ok w =>
      reader_fits w = true /\ alloc_fits (w_img w) = true /\ (cl (image_bytes w) <? two63) = true /\
      tree_alloc_okb ex_tree = true /\
      N.of_nat ex_depth = 96 /\ N.of_nat ex_efuel = 47 /\
      N.of_nat (reader_fuel (si_itbl (w_img w)) (si_dtbl (w_img w))) = 18939
  | _ => False
  end.
Proof. vm_compute. repeat split; reflexivity. Qed.

(* the reader model on the bytes of the file: super block, id table, and a tree of 97 nodes (96 inodes, the hard
   link shows twice) that is exactly what the specification says about the input tree (opt_ltree_eqb: boolean
   equality, sound by Closed.opt_ltree_eqb_eq); too little depth / entry fuel is reported as OutOfFuel *)
Example ex_image_read_back :
  match ex_w with
  | Res.Ok w =>
      let fuel := reader_fuel (si_itbl (w_img w)) (si_dtbl (w_img w)) in
      match read_image_c05 ex_uc ex_depth ex_efuel fuel (image_bytes w) with
      | Ok (s, ids, T) =>
          s = sup_of (w_super w) /\ ids = [1000; 100; 0] /\ tree_name T = [] /\
          N.of_nat (length (flatten T)) = 97 /\
          opt_ltree_eqb (Some (ltree_of T)) (spec_tree ex_tree (length ex_tree) (nlen ex_tree)) = true /\
          s_inode_start s = 202 /\ s_dir_start s = 8915 /\ s_id_start s = 28363 /\ s_root s = 525075220
      | _ => False
      end /\
      read_image_c05 ex_uc 2 ex_efuel fuel (image_bytes w) = OutOfFuel /\
      read_image_c05 ex_uc ex_depth 46 fuel (image_bytes w) = OutOfFuel
  | _ => False
  end.
Proof. vm_compute. repeat split; reflexivity. Qed.

(* the image contains the serializer output (hypothesis [laid] of the serializer level theorems) *)
Example ex_laid :
  match ex_w with
  | Res.Ok w => laid (img_compress 3) (image_bytes w) (sup_of (w_super w)) 4096 (w_img w)
  | _ => False
  end.
Proof.
  pose proof ex_image_domain as (D1 & _ & F). pose proof ex_reader_hyps as R.
  unfold ex_w in *.
  destruct (write_image (img_compress 3) c_id_table_limit ex_cfg ex_inp) as [w| | |] eqn:E; try exact R.
  destruct ex_w2 as [w2| | |]; try contradiction. destruct F as [F _]. destruct R as (_ & _ & S & _).
  apply N.ltb_lt in S.
  (* the side condition first, so that a regenerated constant that violates it fails HERE at once (inlined as
     ltac:(...) in the term below, a false instance made elaboration run for the whole make time-out) *)
  assert (L : (c_id_table_limit <= 65535)%N) by (vm_compute; discriminate).
  exact (image_laid (img_compress 3) (img_uncompress 3) (img_contract 3 (or_intror eq_refl)) c_id_table_limit
           L ex_cfg ex_inp w E D1 F S).
Qed.
