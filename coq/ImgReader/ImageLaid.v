(* ImgReader — the whole image file: what Image.FinishModel.write_image (sqfs_writer_init / sqfs_writer_finish: super
   block, compressor options, data area, inode table, directory table, fragment table, export table, id table, xattr
   section, padding) writes CONTAINS the serializer output in the sense of Embed.laid, and begins with a super block
   the C05 model of sqfs_super_read accepts.  Hence: the C05 reader model run on the bytes of the file
   (ReadImage.read_image_c05) returns the committed super block, the id table and the tree that was packed. *)
From Coq Require Import List NArith ZArith Lia Bool ZifyBool ZifyNat ZifyN.
From SqfsV Require Import Base.Bytes Gen.Constants C03.Common C03.ListN C03.MetaModel C03.MetaProofs C03.TableModel.
From SqfsV Require C14.SuperModel C14.SuperProofs.
From SqfsV Require Import C01.GenC01 C01.Res C01.InodeModel Img.TreeModel Img.Domain.
From SqfsV Require Import Image.FinishModel.
From SqfsV Require Image.FinishProofs Image.ImageProofs.
From SqfsV Require Import ImgReader.MetaRefine ImgReader.Embed ImgReader.ReadImage ImgReader.SuperRefine
  ImgReader.Closed.
From SqfsV Require Import C05.RBase C05.GenC05 C05.Meta C05.Super C05.Inode C05.Dir.
Import ListNotations.
Local Open Scope N_scope.

Lemma window_mid (pre d post : list N) base : cl pre = base -> window (pre ++ d ++ post) base d.
Proof.
  intros <-. unfold window. rewrite dropN_app_exact by reflexivity. apply takeN_app_exact. reflexivity.
Qed.

(* what the reader's arithmetic needs beyond image_fits: file offsets are off_t (63 bit) *)
Definition reader_fits (w : wimage) : bool :=
  alloc_fits (w_img w) && (cl (image_bytes w) <? two63).

Section IL.
  Variable compress : list N -> cres.
  Variable uncompress : list N -> option (list N).
  Hypothesis compress_ok :
    forall b c, compress b = CData c -> cl c <= cl b /\ uncompress c = Some b.
  Variable limit : N.
  Hypothesis limit_ok : limit <= 65535.
  Variable cfg : wcfg.
  Variable inp : winput.
  Variable w : wimage.
  Hypothesis Hw : write_image compress limit cfg inp = Res.Ok w.
  Hypothesis Hdom : ImageProofs.image_domain cfg inp = true.
  Hypothesis Hfit : ImageProofs.image_fits w = true.
  Hypothesis Hsmall : cl (image_bytes w) < two63.

  Notation sf := (w_super w).
  Notation si := (w_img w).

  Lemma no_table_val : SuperModel.NO_TABLE = 18446744073709551615.
  Proof. reflexivity. Qed.

  Theorem image_laid : laid compress (image_bytes w) (sup_of sf) (c_block_size cfg) si.
  Proof.
    pose proof (ImageProofs.layout compress limit cfg inp w Hw Hdom) as [L1 L2 L3 L4 L5 L6 L7 L8].
    pose proof (ImageProofs.order_facts compress uncompress compress_ok limit limit_ok cfg inp w Hw Hdom)
      as (O1 & O2 & O3 & O4 & O5 & O6 & O7 & O8).
    destruct (ImageProofs.frag_span compress uncompress compress_ok limit limit_ok cfg inp w Hw Hdom) as [_ FS].
    destruct (ImageProofs.export_span compress uncompress compress_ok limit limit_ok cfg inp w Hw Hdom) as [_ ES].
    destruct (ImageProofs.fixed_fields compress uncompress compress_ok limit limit_ok cfg inp w Hw Hdom)
      as (_ & _ & _ & M4 & _ & _ & M7 & _ & _ & M10).
    destruct (ImageProofs.fit_facts w Hfit) as [_ BU].
    pose proof no_table_val as NT.
    unfold FinishProofs.o_frag in *.
    change (2 ^ 64) with 18446744073709551616 in BU.
    constructor; cbn [sup_of s_inode_start s_dir_start s_root s_block_size s_id_count s_id_start s_bytes_used].
    - exact Hsmall.
    - rewrite (ImageProofs.split_inode compress limit cfg inp w Hw). apply window_mid.
      exact (ImageProofs.len_pre_inode compress uncompress compress_ok limit limit_ok cfg inp w Hw Hdom).
    - lia.
    - rewrite (ImageProofs.split_dir compress limit cfg inp w Hw). apply window_mid.
      exact (ImageProofs.len_pre_dir compress uncompress compress_ok limit limit_ok cfg inp w Hw Hdom).
    - unfold dir_limit. cbn [sup_of s_id_start s_frag_start s_export_start].
      assert (A : SuperModel.s_dir_start sf + cl (si_dtbl si) <= SuperModel.s_frag_start sf).
      { destruct L3 as [(_ & _ & -> & _)|(Z & _ & _)]; [rewrite NT; lia|]. destruct (FS Z) as [F1 _]. lia. }
      assert (B : SuperModel.s_dir_start sf + cl (si_dtbl si) <= SuperModel.s_export_start sf).
      { destruct L4 as [(_ & _ & ->)|(l & dwr & Z & _)]; [rewrite NT; lia|]. destruct (ES l Z) as [E1 _]. lia. }
      destruct (SuperModel.s_frag_start sf <? SuperModel.s_id_start sf);
        match goal with |- _ <= (if ?c then _ else _) => destruct c end; lia.
    - exact M10.
    - exact M4.
    - exact M7.
    - exists (FinishProofs.o_id w), (w_idb w).
      split; [exact L5|]. split.
      { rewrite (ImageProofs.split_id compress limit cfg inp w Hw). apply window_mid.
        exact (ImageProofs.len_pre_id compress uncompress compress_ok limit limit_ok cfg inp w Hw Hdom). }
      split; [|lia].
      unfold id_lower. cbn [sup_of s_id_start s_dir_start s_frag_start s_export_start].
      assert (A : SuperModel.s_frag_start sf < SuperModel.s_id_start sf -> SuperModel.s_frag_start sf <= FinishProofs.o_id w).
      { intro H. destruct L3 as [(_ & _ & E & _)|(Z & _ & _)]; [rewrite E, NT in H; lia|]. destruct (FS Z) as [_ F2]. lia. }
      assert (B : SuperModel.s_export_start sf < SuperModel.s_id_start sf -> SuperModel.s_export_start sf <= FinishProofs.o_id w).
      { intro H. destruct L4 as [(_ & _ & E)|(l & dwr & Z & _)]; [rewrite E, NT in H; lia|]. destruct (ES l Z) as [_ E2]. lia. }
      destruct (N.ltb_spec (SuperModel.s_frag_start sf) (SuperModel.s_id_start sf)) as [Hf|Hf];
        [specialize (A Hf)|clear A]; rewrite ?andb_true_r, ?andb_false_r;
        [destruct (SuperModel.s_dir_start sf <? SuperModel.s_frag_start sf)|];
        (destruct (N.ltb_spec (SuperModel.s_export_start sf) (SuperModel.s_id_start sf)) as [He|He];
         [specialize (B He)|clear B]; rewrite ?andb_true_r, ?andb_false_r;
         [match goal with |- (if ?c then _ else _) <= _ => destruct c end|]; lia).
  Qed.

  Lemma image_super_accepted : SuperModel.super_in_range sf /\ super_accepted sf.
  Proof.
    split; [exact (ImageProofs.super_range compress uncompress compress_ok limit limit_ok cfg inp w Hw Hdom Hfit)|].
    destruct (ImageProofs.fixed_fields compress uncompress compress_ok limit limit_ok cfg inp w Hw Hdom)
      as (M1 & _ & _ & M4 & M5 & M6 & M7 & M8 & M9 & _).
    pose proof (ImageProofs.log_facts compress uncompress compress_ok limit limit_ok cfg inp w Hw) as LF.
    destruct (ImageProofs.s0_facts compress limit cfg inp w Hw) as (_ & P2 & _).
    destruct (ImageProofs.dom_facts cfg inp Hdom) as (_ & C & _).
    destruct (ImageProofs.ids_facts compress uncompress compress_ok limit limit_ok cfg inp w Hw Hdom) as (_ & Ne & _).
    unfold super_accepted. rewrite M1, M4, M5, M6, M7, M8, M9.
    repeat split; try reflexivity; try lia; try exact P2.
    destruct (si_ids si); [congruence|]. unfold nlen. cbn [length]. lia.
  Qed.

  Lemma image_super_read : super_read (image_bytes w) = Ok (sup_of sf).
  Proof.
    destruct image_super_accepted as [R A].
    rewrite (ImageProofs.bytes_eq compress limit cfg inp w Hw). apply super_read_encoded; assumption.
  Qed.

  (* the reader model on the bytes of the file *)
  Variable uc : list N -> N -> res (list N).
  Hypothesis uc_ok : uc_meets uncompress uc.
  Hypothesis Halloc : alloc_fits si = true.

  Theorem image_read_back depth efuel fuel :
    let t := in_tree inp in
    (length t <= depth)%nat -> (max_entries t < efuel)%nat ->
    (reader_fuel (si_itbl si) (si_dtbl si) <= fuel)%nat ->
    exists T, read_image_c05 uc depth efuel fuel (image_bytes w) = Ok (sup_of sf, si_ids si, T) /\
              spec_tree t (length t) (nlen t) = Some (ltree_of T) /\ tree_name T = [].
  Proof.
    intros t Hd He Hf.
    destruct (ImageProofs.dom_facts cfg inp Hdom) as (Rep & _).
    destruct (ImageProofs.fit_facts w Hfit) as [TF _].
    pose proof (ImageProofs.ser_ok compress limit cfg inp w Hw) as Ser.
    destruct (read_tables_serialized_l compress uncompress compress_ok uc uc_ok limit ltac:(lia)
                (c_block_size cfg) t si Rep Ser TF Halloc (image_bytes w) (sup_of sf) image_laid
                depth efuel fuel Hd He Hf) as (T & RT & ST & NM).
    exists T. split; [|split; assumption].
    unfold read_image_c05. rewrite image_super_read. cbn [bind]. rewrite RT. reflexivity.
  Qed.
End IL.

(* section-free statement with the decidable hypotheses *)
Theorem written_image_read_back_l :
  forall (compress : list N -> cres) (uncompress : list N -> option (list N)),
  (forall b c, compress b = CData c -> cl c <= cl b /\ uncompress c = Some b) ->
  forall uc, uc_meets uncompress uc ->
  forall limit, limit <= 65535 ->
  forall cfg inp w,
  write_image compress limit cfg inp = Res.Ok w ->
  ImageProofs.image_domain cfg inp = true -> ImageProofs.image_fits w = true -> reader_fits w = true ->
  forall depth efuel fuel,
  let t := in_tree inp in
  (length t <= depth)%nat -> (max_entries t < efuel)%nat ->
  (reader_fuel (si_itbl (w_img w)) (si_dtbl (w_img w)) <= fuel)%nat ->
  exists T, read_image_c05 uc depth efuel fuel (image_bytes w) = Ok (sup_of (w_super w), si_ids (w_img w), T) /\
            spec_tree t (length t) (nlen t) = Some (ltree_of T) /\ tree_name T = [].
Proof.
  intros compress uncompress compress_ok uc uc_ok limit limit_ok cfg inp w Hw Hdom Hfit Hrf depth efuel fuel.
  unfold reader_fits in Hrf. apply andb_true_iff in Hrf. destruct Hrf as [Ha Hs]. apply N.ltb_lt in Hs.
  exact (image_read_back compress uncompress compress_ok limit limit_ok cfg inp w Hw Hdom Hfit Hs uc uc_ok Ha
           depth efuel fuel).
Qed.
