(* ImgReader — end to end: from the packer's add operations to what the REAL reader model returns.

     adds --fstree_add_generic*--> fstree --fstree_post_process--> fs->inodes[] --to_img--> Img.fstree
          --sqfs_serialize_fstree (+ sqfs_writer_finish: write_image)--> image bytes
          --C05: sqfs_super_read, sqfs_id_table_read, sqfs_dir_reader_get_full_hierarchy--> tree T
          --flatten--> path |-> (attributes, inode number)   =   what the adds denote (ImgPost.PathsModel.denotes)

   Composition of ImgPost.RoundTrip.pack_paths_roundtrip_l (lib/fstree model + reader SPECIFICATION) with the
   refinement of this directory (reader MODEL = reader specification on serializer output). *)
From Coq Require Import List NArith ZArith Lia Bool ZifyBool ZifyNat ZifyN.
From SqfsV Require Import Base.Bytes Gen.Constants C03.Common.
From SqfsV Require Import C01.GenC01 C01.Res C01.InodeModel Img.TreeModel Img.Domain Img.TreeRT.
From SqfsV Require Import C11.StrOrder C11.FstreeModel C11.PostModel.
From SqfsV Require Import C11.OrderProofs C11.TreeProofs C11.PostProofs.
From SqfsV Require Import ImgPost.Bridge ImgPost.InputOk ImgPost.TreeInv ImgPost.ResolveInv ImgPost.ListPos ImgPost.AllocInv
  ImgPost.ReorderInv ImgPost.PathsModel ImgPost.BridgeProofs ImgPost.PathsProofs ImgPost.RoundTrip.
From SqfsV Require Import Image.FinishModel.
From SqfsV Require Image.ImageProofs.
From SqfsV Require Import ImgReader.MetaRefine ImgReader.Embed ImgReader.ReadImage ImgReader.Closed ImgReader.ImageLaid
  ImgReader.AllocBound.
From SqfsV Require Import C05.RBase C05.GenC05 C05.Meta C05.Super C05.Inode C05.Dir.
Import ListNotations.
Local Open Scope N_scope.

(* what image_domain asks beside "the tree is representable" (which is proved of every packed tree): compressor id,
   fragment entries, compressor options, xattr section header *)
Definition image_rest_okb (cfg : wcfg) (inp : winput) : bool :=
  (c_SQFS_COMP_MIN <=? c_comp_id cfg) && (c_comp_id cfg <=? c_SQFS_COMP_MAX) &&
  forallb ImageProofs.frag_okb (in_frags inp) && (nlen (in_frags inp) <? 4294967296) &&
  ImageProofs.opts_okb (c_comp_id cfg) (in_opts inp) && ImageProofs.xattr_okb (in_xattr inp).

Lemma image_domain_split cfg inp :
  ImageProofs.image_domain cfg inp = representable (c_block_size cfg) (in_tree inp) && image_rest_okb cfg inp.
Proof. unfold ImageProofs.image_domain, image_rest_okb. rewrite !andb_assoc. reflexivity. Qed.

(* every node the adds denote got a real inode number: [ino_of] (position in fs->inodes + 1, 0 = "none") of the node a
   flattened path resolves to lies in 1 .. #inodes.  (pack_paths_roundtrip's injectivity clause alone would tolerate one
   un-numbered node, since ino_of defaults to 0.) *)
Lemma denoted_numbered : forall bs d ops fs pp fb xa fl,
  input_okb bs d ops = true ->
  run_adds d (fs_init d) ops = Some fs ->
  post_process fs = POk pp ->
  denotes fb xa (fs_root fs) fl ->
  forall x, In x fl -> 1 <= ino_of (pp_inodes pp) (snd x) <= N.of_nat (length (pp_inodes pp)).
Proof.
  intros bs d ops fs pp fb xa fl Hin Hrun Hpost [_ D2] x Hx.
  destruct (facts bs d ops fs pp Hin Hrun Hpost) as (st & R & Er & Ef & El & I & P).
  rewrite Forall_forall in D2. pose proof (D2 x Hx) as Dx. destruct x as [[p v] id]. cbn [snd].
  destruct Dx as [Rs _]. destruct (resolves_end _ _ _ Rs) as (nd & L & Hh).
  assert (Nm : numbered (pp_root pp) id).
  { exists (decorate st id nd). rewrite Er, lookup_decorate, L, decorate_is_hardlink. auto. }
  destruct (index_of_in id (pp_inodes pp) (inv_complete _ _ I id Nm)) as [k Hk].
  unfold ino_of. rewrite Hk. apply index_of_nth in Hk.
  assert (k < length (pp_inodes pp))%nat by (apply nth_error_Some; congruence). lia.
Qed.

Section E2E.
  Variable compress : list N -> cres.
  Variable uncompress : list N -> option (list N).
  Hypothesis compress_ok :
    forall b c, compress b = CData c -> cl c <= cl b /\ uncompress c = Some b.
  Variable uc : list N -> N -> res (list N).
  Hypothesis uc_ok : uc_meets uncompress uc.

  (* pack_paths_roundtrip with the numbering clause (reader SPECIFICATION side, as in Properties_C01.v section 5) *)
  Theorem pack_paths_roundtrip_numbered_l : forall limit, limit <= 65536 ->
    forall bs d ops fs pp fb xa img,
    input_okb bs d ops = true ->
    run_adds d (fs_init d) ops = Some fs ->
    post_process fs = POk pp ->
    attached_okb bs fb xa pp = true ->
    serialize_fstree compress limit (to_img fb xa pp) = Res.Ok img ->
    trace_fits img = true ->
    exists lt fl,
      read_tree uncompress bs (si_itbl img) (si_dtbl img) (si_ids img) (length (pp_inodes pp)) (si_root img) = Some lt /\
      denotes fb xa (fs_root fs) fl /\
      flat_lt [] lt = map (number (pp_inodes pp)) fl /\
      (forall x, In x fl -> 1 <= ino_of (pp_inodes pp) (snd x) <= N.of_nat (length (pp_inodes pp))) /\
      (forall x y, In x fl -> In y fl ->
         ino_of (pp_inodes pp) (snd x) = ino_of (pp_inodes pp) (snd y) -> snd x = snd y).
  Proof.
    intros limit limit_ok bs d ops fs pp fb xa img Hin Hrun Hpost Hatt Hser Hfit.
    destruct (pack_paths_roundtrip_l compress uncompress compress_ok limit limit_ok bs d ops fs pp fb xa img
                Hin Hrun Hpost Hatt Hser Hfit) as (lt & fl & Rd & Dn & Fl & Inj).
    exists lt, fl. split; [exact Rd|]. split; [exact Dn|]. split; [exact Fl|].
    split; [exact (denoted_numbered bs d ops fs pp fb xa fl Hin Hrun Hpost Dn)|exact Inj].
  Qed.

  (* serializer level: any image that contains the serializer's output *)
  Theorem pack_read_by_reader_l : forall limit, limit <= 65536 ->
    forall bs d ops fs pp fb xa si,
    input_okb bs d ops = true ->
    run_adds d (fs_init d) ops = Some fs ->
    post_process fs = POk pp ->
    attached_okb bs fb xa pp = true ->
    serialize_fstree compress limit (to_img fb xa pp) = Res.Ok si ->
    trace_fits si = true -> alloc_fits si = true ->
    forall img s, laid compress img s bs si ->
    forall depth efuel fuel,
    (length (pp_inodes pp) <= depth)%nat -> (max_entries (to_img fb xa pp) < efuel)%nat ->
    (reader_fuel (si_itbl si) (si_dtbl si) <= fuel)%nat ->
    exists T fl,
      read_tables_c05 uc depth efuel fuel img s = Ok (si_ids si, T) /\
      denotes fb xa (fs_root fs) fl /\
      flat_lt [] (ltree_of T) = map (number (pp_inodes pp)) fl /\
      (forall x, In x fl -> 1 <= ino_of (pp_inodes pp) (snd x) <= N.of_nat (length (pp_inodes pp))) /\
      (forall x y, In x fl -> In y fl ->
         ino_of (pp_inodes pp) (snd x) = ino_of (pp_inodes pp) (snd y) -> snd x = snd y).
  Proof.
    intros limit limit_ok bs d ops fs pp fb xa si Hin Hrun Hpost Hatt Hser Hfit Halloc img s LD depth efuel fuel Hd He Hf.
    pose proof (post_tree_representable_l bs d ops fs pp fb xa Hin Hrun Hpost Hatt) as Rep.
    set (t := to_img fb xa pp) in *.
    assert (Len : length t = length (pp_inodes pp)) by (unfold t, to_img; apply map_length).
    destruct (pack_paths_roundtrip_l compress uncompress compress_ok limit limit_ok bs d ops fs pp fb xa si
                Hin Hrun Hpost Hatt Hser Hfit) as (lt & fl & Rd & Dn & Fl & Inj).
    destruct (tree_roundtrip_l compress uncompress compress_ok limit limit_ok bs t si Rep Hser Hfit)
      as (lt' & Sp & Rd').
    rewrite Len in Rd'. rewrite Rd in Rd'. injection Rd' as <-.
    destruct (read_tables_serialized_l compress uncompress compress_ok uc uc_ok limit limit_ok bs t si Rep Hser
                Hfit Halloc img s LD depth efuel fuel ltac:(lia) He Hf) as (T & RT & ST & _).
    rewrite Sp in ST. injection ST as ->.
    exists T, fl. split; [exact RT|]. split; [exact Dn|]. split; [exact Fl|].
    split; [exact (denoted_numbered bs d ops fs pp fb xa fl Hin Hrun Hpost Dn)|exact Inj].
  Qed.

  (* image level: the bytes of the file write_image (sqfs_writer_init / sqfs_writer_finish) leaves *)
  Theorem pack_image_read_by_reader_l : forall limit, limit <= 65535 ->
    forall d ops fs pp fb xa cfg inp w,
    input_okb (c_block_size cfg) d ops = true ->
    run_adds d (fs_init d) ops = Some fs ->
    post_process fs = POk pp ->
    attached_okb (c_block_size cfg) fb xa pp = true ->
    in_tree inp = to_img fb xa pp -> image_rest_okb cfg inp = true ->
    write_image compress limit cfg inp = Res.Ok w ->
    ImageProofs.image_fits w = true -> reader_fits w = true ->
    forall depth efuel fuel,
    (length (pp_inodes pp) <= depth)%nat -> (max_entries (to_img fb xa pp) < efuel)%nat ->
    (reader_fuel (si_itbl (w_img w)) (si_dtbl (w_img w)) <= fuel)%nat ->
    exists T fl,
      read_image_c05 uc depth efuel fuel (image_bytes w) = Ok (sup_of (w_super w), si_ids (w_img w), T) /\
      denotes fb xa (fs_root fs) fl /\
      flat_lt [] (ltree_of T) = map (number (pp_inodes pp)) fl /\
      (forall x, In x fl -> 1 <= ino_of (pp_inodes pp) (snd x) <= N.of_nat (length (pp_inodes pp))) /\
      (forall x y, In x fl -> In y fl ->
         ino_of (pp_inodes pp) (snd x) = ino_of (pp_inodes pp) (snd y) -> snd x = snd y).
  Proof.
    intros limit limit_ok d ops fs pp fb xa cfg inp w Hin Hrun Hpost Hatt Ht Hrest Hw Hfit Hrf depth efuel fuel Hd He Hf.
    pose proof (post_tree_representable_l _ d ops fs pp fb xa Hin Hrun Hpost Hatt) as Rep.
    assert (Hdom : ImageProofs.image_domain cfg inp = true).
    { rewrite image_domain_split, Ht, Rep, Hrest. reflexivity. }
    unfold reader_fits in Hrf. apply andb_true_iff in Hrf. destruct Hrf as [Ha Hs]. apply N.ltb_lt in Hs.
    destruct (ImageProofs.fit_facts w Hfit) as [TF _].
    pose proof (ImageProofs.ser_ok compress limit cfg inp w Hw) as Ser. rewrite Ht in Ser.
    pose proof (image_laid compress uncompress compress_ok limit limit_ok cfg inp w Hw Hdom Hfit Hs) as LD.
    destruct (pack_read_by_reader_l limit ltac:(lia) (c_block_size cfg) d ops fs pp fb xa (w_img w)
                Hin Hrun Hpost Hatt Ser TF Ha (image_bytes w) (sup_of (w_super w)) LD depth efuel fuel Hd He Hf)
      as (T & fl & RT & Dn & Fl & Nu & Inj).
    exists T, fl. split; [|split; [exact Dn|split; [exact Fl|split; [exact Nu|exact Inj]]]].
    unfold read_image_c05.
    rewrite (image_super_read compress uncompress compress_ok limit limit_ok cfg inp w Hw Hdom Hfit Hs).
    cbn [bind]. rewrite RT. reflexivity.
  Qed.
  (* the same with [alloc_fits] replaced by the bound on the tree handed to the serializer (AllocBound.tree_alloc_okb:
     block lists, symlink targets, entry names of at most 16000 bytes) *)
  Theorem pack_image_read_by_reader_bounds_l : forall limit, limit <= 65535 ->
    forall d ops fs pp fb xa cfg inp w,
    input_okb (c_block_size cfg) d ops = true ->
    run_adds d (fs_init d) ops = Some fs ->
    post_process fs = POk pp ->
    attached_okb (c_block_size cfg) fb xa pp = true ->
    tree_alloc_okb (to_img fb xa pp) = true ->
    in_tree inp = to_img fb xa pp -> image_rest_okb cfg inp = true ->
    write_image compress limit cfg inp = Res.Ok w ->
    ImageProofs.image_fits w = true -> cl (image_bytes w) < two63 ->
    forall depth efuel fuel,
    (length (pp_inodes pp) <= depth)%nat -> (max_entries (to_img fb xa pp) < efuel)%nat ->
    (reader_fuel (si_itbl (w_img w)) (si_dtbl (w_img w)) <= fuel)%nat ->
    exists T fl,
      read_image_c05 uc depth efuel fuel (image_bytes w) = Ok (sup_of (w_super w), si_ids (w_img w), T) /\
      denotes fb xa (fs_root fs) fl /\
      flat_lt [] (ltree_of T) = map (number (pp_inodes pp)) fl /\
      (forall x, In x fl -> 1 <= ino_of (pp_inodes pp) (snd x) <= N.of_nat (length (pp_inodes pp))) /\
      (forall x y, In x fl -> In y fl ->
         ino_of (pp_inodes pp) (snd x) = ino_of (pp_inodes pp) (snd y) -> snd x = snd y).
  Proof.
    intros limit limit_ok d ops fs pp fb xa cfg inp w Hin Hrun Hpost Hatt Hal Ht Hrest Hw Hfit Hs.
    pose proof (post_tree_representable_l _ d ops fs pp fb xa Hin Hrun Hpost Hatt) as Rep.
    destruct (ImageProofs.fit_facts w Hfit) as [TF _].
    pose proof (ImageProofs.ser_ok compress limit cfg inp w Hw) as Ser. rewrite Ht in Ser.
    pose proof (alloc_fits_of_tree compress uncompress compress_ok limit ltac:(lia) (c_block_size cfg) _ (w_img w)
                  Rep Ser TF Hal) as AF.
    apply (pack_image_read_by_reader_l limit limit_ok d ops fs pp fb xa cfg inp w Hin Hrun Hpost Hatt Ht Hrest Hw Hfit).
    unfold reader_fits. rewrite AF. apply N.ltb_lt in Hs. rewrite Hs. reflexivity.
  Qed.
End E2E.
