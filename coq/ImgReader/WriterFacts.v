(* ImgReader — two facts about what sqfs_serialize_fstree leaves that coq/Img's invariant does not keep,
   because Img's reader specification does not need them, but the real meta reader does:

   * every metadata block of the inode table and of the directory table except the last one holds exactly
     SQFS_META_BLOCK_SIZE bytes (the writers are flushed only when a block is full, and once at the end);
   * every recorded position (inode references, directory listing starts) has an in-block offset below
     SQFS_META_BLOCK_SIZE (sqfs_meta_writer_append flushes eagerly).

   Together: a recorded position with data behind it is strictly inside its block — what
   sqfs_meta_reader_seek demands (offset >= data_used is SQFS_ERROR_OUT_OF_BOUNDS), whereas Img.stream_at
   also accepts offset = block size. *)
From Coq Require Import List NArith ZArith Lia Bool ZifyBool ZifyNat ZifyN.
From SqfsV Require Import Base.Bytes Gen.Constants C03.Common C03.ListN C03.MetaModel C03.MetaProofs C03.MetaRT
  C03.DirModel C03.DirProofs C03.DirRT C03.DirEnd.
From SqfsV Require Import C01.GenC01 C01.Res C01.InodeModel C01.InodeProofs.
From SqfsV Require Import Img.TreeModel Img.MetaLemmas Img.InodeLemmas Img.SerDefs Img.SerDir Img.SerProofs
  Img.Final Img.Domain.
Import ListNotations.
Local Open Scope N_scope.
Ltac Zify.zify_post_hook ::= Z.div_mod_to_equations.

Section WF.
  Variable compress : list N -> cres.
  Variable uncompress : list N -> option (list N).
  Hypothesis compress_ok :
    forall b c, compress b = CData c -> lenN c <= lenN b /\ uncompress c = Some b.
  Variable limit : N.

  Notation Idle := (Idle compress).
  Notation mw_run := (mw_run compress).
  Notation enc := (enc compress).

  (* ---- a block list is determined by the bytes ---- *)
  Lemma Idle_unique m1 r1 m2 r2 : Idle m1 r1 -> Idle m2 r2 -> mw_disk m1 = mw_disk m2 -> r1 = r2.
  Proof.
    intros [(A1 & _ & C1 & _) _] [(A2 & _ & C2 & _) _] E.
    pose proof (parse_blocks_spec compress uncompress compress_ok r1 [] (length r1 + length r2) C1 ltac:(lia)) as P1.
    pose proof (parse_blocks_spec compress uncompress compress_ok r2 [] (length r1 + length r2) C2 ltac:(lia)) as P2.
    cbn [app] in P1, P2. rewrite <- A1 in P1. rewrite <- A2, <- E in P2. rewrite P1 in P2.
    injection P2 as P2.
    assert (M : forall l : list (list N), map (fun b : list N * N * bool => fst (fst b))
                  (map (fun r => (r, stored_size compress r, is_comp compress r)) l) = l).
    { intro l. rewrite map_map. cbn [fst]. apply map_id. }
    rewrite <- (M r1), <- (M r2), P2. reflexivity.
  Qed.

  (* ---- "only appends" ---- *)
  Definition Appends (m m' : mw) : Prop := exists ops, no_flush ops /\ mw_run m ops = Common.Ok m'.

  Lemma run_cat : forall a b m mm mf, mw_run m a = Common.Ok mm -> mw_run mm b = Common.Ok mf -> mw_run m (a ++ b) = Common.Ok mf.
  Proof.
    induction a as [|o a IH]; intros b m mm mf H1 H2.
    - cbn in H1. injection H1 as <-. exact H2.
    - cbn [app MetaModel.mw_run] in *. destruct (mw_step compress m o) as [m1|e|]; try discriminate.
      eapply IH; eassumption.
  Qed.

  Lemma Appends_refl m : Appends m m.
  Proof. exists []. split; [constructor|reflexivity]. Qed.

  Lemma Appends_trans m1 m2 m3 : Appends m1 m2 -> Appends m2 m3 -> Appends m1 m3.
  Proof.
    intros (o1 & N1 & R1) (o2 & N2 & R2). exists (o1 ++ o2). split; [apply Forall_app; split; assumption|].
    eapply run_cat; eassumption.
  Qed.

  Lemma Appends_one m d m' : mw_append compress m d = Common.Ok m' -> Appends m m'.
  Proof.
    intro H. exists [MAppend d]. split; [constructor; [exact I|constructor]|].
    cbn [MetaModel.mw_run mw_step]. rewrite H. reflexivity.
  Qed.

  (* the blocks closed by appends alone are full *)
  Lemma Appends_full m raws m' :
    Idle m raws -> Appends m m' -> exists fulls, Idle m' (raws ++ fulls) /\ Forall (full) fulls.
  Proof.
    intros HI (ops & NF & R).
    destruct (run_spec compress uncompress compress_ok ops m raws m' HI R) as (raws' & I' & _ & _ & _ & F).
    destruct (F NF) as (fulls & -> & Hf). exists fulls. split; assumption.
  Qed.

  (* ---- the directory writer only appends ---- *)
  Lemma emit_appends : forall run dm size first dm' size',
    dw_emit compress dm size first run = Common.Ok (dm', size') -> Appends dm dm'.
  Proof.
    induction run as [|it r IH]; intros dm size first dm' size' H.
    - cbn in H. injection H as <- _. apply Appends_refl.
    - cbn [dw_emit] in H.
      destruct (mw_append compress dm (enc_entry first it)) as [dm1|e|] eqn:A1; try discriminate.
      destruct (mw_append compress dm1 (de_name it)) as [dm2|e|] eqn:A2; try discriminate.
      eapply Appends_trans; [exact (Appends_one _ _ _ A1)|].
      eapply Appends_trans; [exact (Appends_one _ _ _ A2)|]. eapply IH. exact H.
  Qed.

  Lemma end_loop_appends : forall fuel dm size idx l dm' size' idx',
    dw_end_loop compress fuel dm size idx l = Common.Ok (dm', size', idx') -> Appends dm dm'.
  Proof.
    induction fuel as [|f IH]; intros dm size idx l dm' size' idx' H.
    - destruct l; cbn in H; [injection H as <- _ _; apply Appends_refl|discriminate].
    - destruct l as [|first rest]; [cbn in H; injection H as <- _ _; apply Appends_refl|].
      cbn [dw_end_loop] in H. unfold mw_position in H.
      destruct (mw_append compress dm (enc_header (gcec (mw_off dm) (first :: rest)) first)) as [dm1|e|] eqn:A1;
        try discriminate.
      destruct (dw_emit compress dm1 (size + HDR_SZ) first (takeN (gcec (mw_off dm) (first :: rest)) (first :: rest)))
        as [[dm2 size2]|e|] eqn:E; try discriminate.
      eapply Appends_trans; [exact (Appends_one _ _ _ A1)|].
      eapply Appends_trans; [exact (emit_appends _ _ _ _ _ _ E)|]. eapply IH. exact H.
  Qed.

  Lemma dw_end_appends w w' : dw_end compress w = Common.Ok w' -> Appends (dw_dm w) (dw_dm w').
  Proof.
    unfold dw_end. intro H.
    destruct (dw_end_loop compress (S (length (dw_list w))) (dw_dm w) (dw_size w) (dw_idx w) (dw_list w))
      as [[[dm size] idx]|e|] eqn:L; try discriminate.
    injection H as <-. cbn [dw_dm]. eapply end_loop_appends. exact L.
  Qed.

  Lemma write_dir_entries_appends t refs w par ch w2 kind :
    dw_export w = None ->
    write_dir_entries compress t refs w par ch = Ok (w2, kind) -> Appends (dw_dm w) (dw_dm w2).
  Proof.
    intros Hx H. unfold write_dir_entries in H.
    destruct (add_children t refs (dw_begin w) ch) as [w1| | |] eqn:A; try discriminate. cbn [bind] in H.
    destruct (lift (dw_end compress w1)) as [w2'| | |] eqn:E; try discriminate. cbn [bind] in H.
    injection H as <- _. apply lift_ok in E.
    apply add_children_spec in A; [|unfold dw_begin, mw_position; exact Hx].
    destruct A as (ents & _ & _ & _ & _ & _ & _ & M & _).
    unfold dw_begin, mw_position in M. cbn [dw_dm] in M. rewrite <- M. apply dw_end_appends. exact E.
  Qed.

  (* ---- the loop of sqfs_serialize_fstree ---- *)
  Definition off_ok (r : N) : Prop := r mod 65536 < MB.
  Definition node_off_ok (tn : tnode) : Prop :=
    match tn_kind tn with KDir r _ _ _ _ => off_ok r | _ => True end.

  Definition WInv (st : sstate) : Prop :=
    Appends (mw_init false) (s_im st) /\ Appends (mw_init true) (dw_dm (s_dw st)) /\
    dw_export (s_dw st) = None /\
    Forall off_ok (s_refs st) /\ Forall node_off_ok (s_nodes st).

  Lemma init_winv : WInv st_init.
  Proof.
    unfold WInv, st_init. cbn [s_im s_dw s_refs s_nodes dw_create dw_dm dw_export].
    split; [apply Appends_refl|]. split; [apply Appends_refl|]. split; [reflexivity|]. split; constructor.
  Qed.

  Lemma idle_of_appends keep m : Appends (mw_init keep) m -> exists raws, Idle m raws.
  Proof.
    intro A. destruct (Appends_full _ [] _ (init_idle compress keep) A) as (fulls & I & _).
    exists ([] ++ fulls). exact I.
  Qed.

  Lemma ser_node_winv t st ino n st' :
    WInv st -> ser_node compress limit t st ino n = Ok st' -> WInv st'.
  Proof.
    intros (A1 & A2 & X & R & Nn) H. unfold ser_node in H.
    destruct (negb (N.land (fn_mode n) c_S_IFMT =? payload_fmt (fn_payload n))); [discriminate|].
    match type of H with bind ?kp _ = _ => destruct kp as [[w' kind]| | |] eqn:KP; try discriminate end.
    cbn [bind] in H.
    destruct (serialize limit (s_ids st) _) as [[ids' i]| | |] eqn:S; try discriminate. cbn [bind] in H.
    unfold mw_position in H.
    destruct (encode i) as [bytes| | |] eqn:En; try discriminate. cbn [bind] in H.
    destruct (lift (mw_append compress (s_im st) bytes)) as [im'| | |] eqn:Ap; try discriminate. cbn [bind] in H.
    injection H as <-. apply lift_ok in Ap.
    destruct (idle_of_appends _ _ A1) as (rawsI & I1).
    destruct (idle_of_appends _ _ A2) as (rawsD & I2).
    destruct (idle_off compress _ _ I1) as [_ O1].
    pose proof MB_lt_65536 as HM.
    assert (K : Appends (dw_dm (s_dw st)) (dw_dm w') /\ dw_export w' = None /\
                match kind with KDir r _ _ _ _ => off_ok r | _ => True end).
    { destruct (fn_payload n) as [par ch|b|tg|c dv|s] eqn:P;
        try (injection KP as <- <-; split; [apply Appends_refl|split; [exact X|exact I]]).
      destruct (write_dir_entries compress t (s_refs st) (s_dw st) par ch) as [[w2 k2]| | |] eqn:W; try discriminate.
      injection KP as <- <-.
      split; [exact (write_dir_entries_appends _ _ _ _ _ _ _ X W)|].
      destruct (write_dir_entries_spec compress uncompress compress_ok _ _ _ _ _ _ _ _ I2 X W)
        as (ents & raws' & _ & Kd & _ & X2 & _ & O2 & _).
      cbv zeta in Kd, O2. split; [exact X2|]. rewrite Kd. unfold off_ok. lia. }
    destruct K as (K1 & K2 & K3).
    unfold WInv. cbn [s_im s_dw s_refs s_nodes].
    split; [eapply Appends_trans; [exact A1|exact (Appends_one _ _ _ Ap)]|].
    split; [eapply Appends_trans; [exact A2|exact K1]|].
    split; [exact K2|].
    split.
    - apply Forall_app. split; [exact R|]. constructor; [|constructor]. unfold off_ok. lia.
    - apply Forall_app. split; [exact Nn|]. constructor; [|constructor]. unfold node_off_ok. cbn [tn_kind]. exact K3.
  Qed.

  Lemma ser_loop_winv t : forall l st ino st',
    WInv st -> ser_loop compress limit t st ino l = Ok st' -> WInv st'.
  Proof.
    induction l as [|n l IH]; intros st ino st' W H.
    - cbn in H. injection H as <-. exact W.
    - cbn [ser_loop] in H.
      destruct (ser_node compress limit t st ino n) as [st1| | |] eqn:SN; try discriminate. cbn [bind] in H.
      eapply IH; [|exact H]. eapply ser_node_winv; eassumption.
  Qed.

  Lemma full_removelast fulls (cur : list N) : Forall full fulls -> Forall full (removelast (fulls ++ ne cur)).
  Proof.
    intro F. destruct cur as [|c0 cr]; cbn [ne].
    - rewrite app_nil_r. clear - F. induction F as [|g r Hg F IH]; [constructor|].
      destruct r; [constructor|]. cbn [removelast]. constructor; [exact Hg|exact IH].
    - rewrite removelast_app by discriminate. cbn [removelast]. rewrite app_nil_r. exact F.
  Qed.

  (* ---- what the finished tables satisfy ---- *)
  Theorem writer_facts t img a im dm :
    serialize_fstree compress limit t = Ok img -> Final compress limit t img a im dm ->
    Forall full (removelast (a_rawsI a)) /\ Forall full (removelast (a_rawsD a)) /\
    Forall off_ok (si_refs img) /\ Forall node_off_ok (si_nodes img).
  Proof.
    intros H FIN. unfold serialize_fstree in H.
    destruct (ser_loop compress limit t st_init 1 t) as [st| | |] eqn:L; try discriminate. cbn [bind] in H.
    destruct (lift (mw_flush compress (s_im st))) as [im1| | |] eqn:F1; try discriminate. cbn [bind] in H.
    destruct (lift (mw_flush compress (dw_dm (s_dw st)))) as [dm1| | |] eqn:F2; try discriminate. cbn [bind] in H.
    injection H as <-. apply lift_ok in F1. apply lift_ok in F2.
    destruct (ser_loop_winv t t st_init 1 st init_winv L) as (A1 & A2 & _ & R & Nn).
    destruct (Appends_full _ [] _ (init_idle compress false) A1) as (fI & I1 & FI).
    destruct (Appends_full _ [] _ (init_idle compress true) A2) as (fD & I2 & FD).
    cbn [app] in I1, I2.
    destruct (flush_idle compress uncompress compress_ok _ _ _ I1 F1) as (I1' & C1' & K1' & _).
    destruct (flush_idle compress uncompress compress_ok _ _ _ I2 F2) as (I2' & C2' & K2' & _).
    destruct FIN as (J1 & _ & T1 & J2 & _ & T2 & _).
    cbn [si_itbl si_dtbl si_refs si_nodes] in *.
    assert (KI : mw_keep im1 = false).
    { rewrite K1'. destruct A1 as (ops & _ & Rn).
      destruct (run_spec compress uncompress compress_ok ops _ [] _ (init_idle compress false) Rn) as (_ & _ & _ & _ & K & _).
      exact K. }
    assert (KD : mw_keep dm1 = true).
    { rewrite K2'. destruct A2 as (ops & _ & Rn).
      destruct (run_spec compress uncompress compress_ok ops _ [] _ (init_idle compress true) Rn) as (_ & _ & _ & _ & K & _).
      exact K. }
    assert (E1 : a_rawsI a = fI ++ ne (mw_cur (s_im st))).
    { apply (Idle_unique im _ im1 _ J1 I1'). rewrite <- T1. unfold mw_disk. rewrite KI. reflexivity. }
    assert (E2 : a_rawsD a = fD ++ ne (mw_cur (dw_dm (s_dw st)))).
    { apply (Idle_unique dm _ dm1 _ J2 I2'). rewrite <- T2.
      exact (flushed_disk_keep compress dm1 _ I2' KD). }
    rewrite E1, E2.
    split; [apply full_removelast; exact FI|]. split; [apply full_removelast; exact FD|].
    split; assumption.
  Qed.
  (* ---- the id table holds 32 bit values and is not empty ---- *)
  Definition id32 (x : N) : Prop := x < 4294967296.

  Lemma id_to_index_range tbl id tbl' i :
    Forall id32 tbl -> id32 id -> id_to_index limit tbl id = Ok (tbl', i) -> Forall id32 tbl' /\ 1 <= nlen tbl'.
  Proof.
    intros F H E. destruct (id_to_index_spec _ _ _ _ _ E) as (_ & _ & L & _). split; [|lia].
    unfold id_to_index in E. destruct (find_id id tbl 0).
    - injection E as <- _. exact F.
    - destruct (limit <=? nlen tbl); [discriminate|]. injection E as <- _.
      apply Forall_app. split; [exact F|]. constructor; [exact H|constructor].
  Qed.

  Lemma ser_node_ids t st ino n st' :
    Forall id32 (s_ids st) -> id32 (fn_uid n) -> id32 (fn_gid n) ->
    ser_node compress limit t st ino n = Ok st' -> Forall id32 (s_ids st') /\ 1 <= nlen (s_ids st').
  Proof.
    intros F Hu Hg H. unfold ser_node in H.
    destruct (negb (N.land (fn_mode n) c_S_IFMT =? payload_fmt (fn_payload n))); [discriminate|].
    match type of H with bind ?kp _ = _ => destruct kp as [[w' kind]| | |] eqn:KP; try discriminate end.
    cbn [bind] in H.
    destruct (serialize limit (s_ids st) _) as [[ids' i]| | |] eqn:S; try discriminate. cbn [bind] in H.
    unfold mw_position in H.
    destruct (encode i) as [bytes| | |]; try discriminate. cbn [bind] in H.
    destruct (lift (mw_append compress (s_im st) bytes)) as [im'| | |]; try discriminate. cbn [bind] in H.
    injection H as <-. cbn [s_ids].
    unfold serialize in S. cbn [tn_uid tn_gid] in S.
    destruct (id_to_index limit (s_ids st) (fn_uid n)) as [[t1 ui]| | |] eqn:E1; try discriminate. cbn [bind] in S.
    destruct (id_to_index limit t1 (fn_gid n)) as [[t2 gi]| | |] eqn:E2; try discriminate. cbn [bind] in S.
    injection S as <- _.
    destruct (id_to_index_range _ _ _ _ F Hu E1) as [F1 _].
    exact (id_to_index_range _ _ _ _ F1 Hg E2).
  Qed.

  Lemma ser_loop_ids t : forall l st ino st',
    Forall (fun n => id32 (fn_uid n) /\ id32 (fn_gid n)) l -> Forall id32 (s_ids st) ->
    ser_loop compress limit t st ino l = Ok st' ->
    Forall id32 (s_ids st') /\ (l <> [] -> 1 <= nlen (s_ids st')).
  Proof.
    induction l as [|n l IH]; intros st ino st' FN F H.
    - cbn in H. injection H as <-. split; [exact F|]. intro X. contradiction.
    - cbn [ser_loop] in H.
      destruct (ser_node compress limit t st ino n) as [st1| | |] eqn:SN; try discriminate. cbn [bind] in H.
      pose proof (Forall_inv FN) as [Hu Hg].
      destruct (ser_node_ids t st ino n st1 F Hu Hg SN) as [F1 N1].
      destruct (IH st1 (ino + 1) st' (Forall_inv_tail FN) F1 H) as [F2 N2].
      split; [exact F2|]. intros _.
      destruct l as [|n2 l2]; [cbn in H; injection H as <-; exact N1|]. apply N2. discriminate.
  Qed.

  Theorem ids_range bs t img :
    representable bs t = true -> serialize_fstree compress limit t = Ok img ->
    Forall id32 (si_ids img) /\ 1 <= nlen (si_ids img).
  Proof.
    intros Hrep H. unfold serialize_fstree in H.
    destruct (ser_loop compress limit t st_init 1 t) as [st| | |] eqn:L; try discriminate. cbn [bind] in H.
    destruct (lift (mw_flush compress (s_im st))) as [im1| | |]; try discriminate. cbn [bind] in H.
    destruct (lift (mw_flush compress (dw_dm (s_dw st)))) as [dm1| | |]; try discriminate. cbn [bind] in H.
    injection H as <-. cbn [si_ids].
    destruct (repr_facts bs t Hrep) as (_ & Hn1 & _ & _ & FO).
    assert (FN : Forall (fun n => id32 (fn_uid n) /\ id32 (fn_gid n)) t).
    { apply Forall_forall. intros n Hin. destruct (In_nth_error _ _ Hin) as [j Hj].
      destruct (fnode_okb_facts _ _ _ _ (FO j n Hj)) as [_ U G _ _ _ _]. split; assumption. }
    destruct (ser_loop_ids t t st_init 1 st FN ltac:(constructor) L) as [F1 N1].
    split; [exact F1|]. apply N1. intro E. rewrite E in Hn1. cbn in Hn1. lia.
  Qed.
End WF.
