(* ImgReader — the C05 model of sqfs_super_read (coq/C05/Super.v super_read: read_at of 96 bytes, every field through
   [fld] at the header's offset, the sanity tests in the order of read_super.c) on a file that begins with the
   encoding of a super block [sf] (C14.SuperModel.encode = sqfs_super_write) returns [sup_of sf], provided [sf] is one
   that sqfs_super_read accepts. *)
From Coq Require Import List NArith ZArith Lia Bool ZifyBool ZifyNat ZifyN.
From SqfsV Require Import Base.Bytes Gen.Constants.
From SqfsV Require C14.SuperModel C14.SuperProofs.
From SqfsV Require Import C05.RBase C05.GenC05 C05.Meta C05.Super.
From SqfsV Require Import ImgReader.MetaRefine ImgReader.Embed ImgReader.ReadImage.
Import ListNotations.
Local Open Scope N_scope.

Lemma fld_mod k off l : RBase.fld k off l = SuperModel.fld k off l mod 256 ^ N.of_nat k.
Proof. reflexivity. Qed.

Lemma fld_first96 k off l v :
  (N.to_nat off + k <= SuperModel.SB)%nat -> SuperModel.fld k off l = v -> v < 256 ^ N.of_nat k ->
  RBase.fld k off (firstn SuperModel.SB l) = v.
Proof.
  intros H E L. rewrite fld_mod, SuperProofs.fld_firstn by exact H. rewrite E. apply N.mod_small. exact L.
Qed.

(* what sqfs_super_read demands of the fields *)
Definition super_accepted (sf : SuperModel.super) : Prop :=
  SuperModel.s_magic sf = c_SQFS_MAGIC /\
  SuperModel.s_vmaj sf = c_SQFS_VERSION_MAJOR /\ SuperModel.s_vmin sf = c_SQFS_VERSION_MINOR /\
  12 <= SuperModel.s_block_log sf <= 20 /\ SuperModel.s_block_size sf = 2 ^ SuperModel.s_block_log sf /\
  c_SQFS_COMP_MIN <= SuperModel.s_comp_id sf <= c_SQFS_COMP_MAX /\
  SuperModel.s_id_count sf <> 0.

Lemma pow2_block_ok k : 12 <= k <= 20 ->
  N.land (u32 (2 ^ k + two32 - 1)) (2 ^ k) = 0 /\
  c_SQFS_MIN_BLOCK_SIZE <= 2 ^ k <= c_SQFS_MAX_BLOCK_SIZE.
Proof.
  intro H.
  assert (C : k = 12 \/ k = 13 \/ k = 14 \/ k = 15 \/ k = 16 \/ k = 17 \/ k = 18 \/ k = 19 \/ k = 20) by lia.
  destruct C as [->|[->|[->|[->|[->|[->|[->|[->| ->]]]]]]]]; vm_compute; (split; [reflexivity|split; discriminate]).
Qed.

Theorem super_read_encoded sf rest :
  SuperModel.super_in_range sf -> super_accepted sf ->
  super_read (SuperModel.encode sf ++ rest) = Ok (sup_of sf).
Proof.
  intros R (A1 & A2 & A3 & A4 & A5 & A6 & A7).
  set (img := SuperModel.encode sf ++ rest).
  assert (D : SuperModel.decode img = sf) by (apply SuperProofs.super_rt_l; exact R).
  assert (Len : (SuperModel.SB <= length img)%nat).
  { unfold img. rewrite app_length, SuperProofs.encode_length. lia. }
  assert (RA : read_at img 0 sizeof_sqfs_super_t = Ok (firstn SuperModel.SB img)).
  { unfold read_at. change (sizeof_sqfs_super_t =? 0) with false. cbv iota.
    change (two63 <=? 0 + sizeof_sqfs_super_t) with false. cbv iota.
    assert (L : 0 + sizeof_sqfs_super_t <=? RBase.lenN img = true).
    { apply N.leb_le. unfold RBase.lenN. unfold SuperModel.SB in Len. lia. }
    rewrite L. reflexivity. }
  unfold super_read. rewrite RA. cbn [bind].
  destruct R as (R1 & R2 & R3 & R4 & R5 & R6 & R7 & R8 & R9 & R10 & R11 & R12 & R13 & R14 & R15 & R16 & R17 & R18 & R19).
  assert (F1 : RBase.fld 4 off_sqfs_super_t_magic (firstn SuperModel.SB img) = SuperModel.s_magic sf)
    by (apply fld_first96; [vm_compute; lia|rewrite <- D; reflexivity|exact R1]).
  assert (F2 : RBase.fld 4 off_sqfs_super_t_inode_count (firstn SuperModel.SB img) = SuperModel.s_inode_count sf)
    by (apply fld_first96; [vm_compute; lia|rewrite <- D; reflexivity|exact R2]).
  assert (F3 : RBase.fld 4 off_sqfs_super_t_modification_time (firstn SuperModel.SB img) = SuperModel.s_mtime sf)
    by (apply fld_first96; [vm_compute; lia|rewrite <- D; reflexivity|exact R3]).
  assert (F4 : RBase.fld 4 off_sqfs_super_t_block_size (firstn SuperModel.SB img) = SuperModel.s_block_size sf)
    by (apply fld_first96; [vm_compute; lia|rewrite <- D; reflexivity|exact R4]).
  assert (F5 : RBase.fld 4 off_sqfs_super_t_fragment_entry_count (firstn SuperModel.SB img) = SuperModel.s_frag_count sf)
    by (apply fld_first96; [vm_compute; lia|rewrite <- D; reflexivity|exact R5]).
  assert (F6 : RBase.fld 2 off_sqfs_super_t_compression_id (firstn SuperModel.SB img) = SuperModel.s_comp_id sf)
    by (apply fld_first96; [vm_compute; lia|rewrite <- D; reflexivity|exact R6]).
  assert (F7 : RBase.fld 2 off_sqfs_super_t_block_log (firstn SuperModel.SB img) = SuperModel.s_block_log sf)
    by (apply fld_first96; [vm_compute; lia|rewrite <- D; reflexivity|exact R7]).
  assert (F8 : RBase.fld 2 off_sqfs_super_t_flags (firstn SuperModel.SB img) = SuperModel.s_flags sf)
    by (apply fld_first96; [vm_compute; lia|rewrite <- D; reflexivity|exact R8]).
  assert (F9 : RBase.fld 2 off_sqfs_super_t_id_count (firstn SuperModel.SB img) = SuperModel.s_id_count sf)
    by (apply fld_first96; [vm_compute; lia|rewrite <- D; reflexivity|exact R9]).
  assert (F10 : RBase.fld 2 off_sqfs_super_t_version_major (firstn SuperModel.SB img) = SuperModel.s_vmaj sf)
    by (apply fld_first96; [vm_compute; lia|rewrite <- D; reflexivity|exact R10]).
  assert (F11 : RBase.fld 2 off_sqfs_super_t_version_minor (firstn SuperModel.SB img) = SuperModel.s_vmin sf)
    by (apply fld_first96; [vm_compute; lia|rewrite <- D; reflexivity|exact R11]).
  assert (F12 : RBase.fld 8 off_sqfs_super_t_root_inode_ref (firstn SuperModel.SB img) = SuperModel.s_root_ref sf)
    by (apply fld_first96; [vm_compute; lia|rewrite <- D; reflexivity|exact R12]).
  assert (F13 : RBase.fld 8 off_sqfs_super_t_bytes_used (firstn SuperModel.SB img) = SuperModel.s_bytes_used sf)
    by (apply fld_first96; [vm_compute; lia|rewrite <- D; reflexivity|exact R13]).
  assert (F14 : RBase.fld 8 off_sqfs_super_t_id_table_start (firstn SuperModel.SB img) = SuperModel.s_id_start sf)
    by (apply fld_first96; [vm_compute; lia|rewrite <- D; reflexivity|exact R14]).
  assert (F15 : RBase.fld 8 off_sqfs_super_t_xattr_id_table_start (firstn SuperModel.SB img) = SuperModel.s_xattr_start sf)
    by (apply fld_first96; [vm_compute; lia|rewrite <- D; reflexivity|exact R15]).
  assert (F16 : RBase.fld 8 off_sqfs_super_t_inode_table_start (firstn SuperModel.SB img) = SuperModel.s_inode_start sf)
    by (apply fld_first96; [vm_compute; lia|rewrite <- D; reflexivity|exact R16]).
  assert (F17 : RBase.fld 8 off_sqfs_super_t_directory_table_start (firstn SuperModel.SB img) = SuperModel.s_dir_start sf)
    by (apply fld_first96; [vm_compute; lia|rewrite <- D; reflexivity|exact R17]).
  assert (F18 : RBase.fld 8 off_sqfs_super_t_fragment_table_start (firstn SuperModel.SB img) = SuperModel.s_frag_start sf)
    by (apply fld_first96; [vm_compute; lia|rewrite <- D; reflexivity|exact R18]).
  assert (F19 : RBase.fld 8 off_sqfs_super_t_export_table_start (firstn SuperModel.SB img) = SuperModel.s_export_start sf)
    by (apply fld_first96; [vm_compute; lia|rewrite <- D; reflexivity|exact R19]).
  cbv zeta.
  rewrite F1, F2, F3, F4, F5, F6, F7, F8, F9, F10, F11, F12, F13, F14, F15, F16, F17, F18, F19.
  destruct (pow2_block_ok _ A4) as (P1 & P2 & P3).
  rewrite A1, A2, A3, A5, P1, !N.eqb_refl. cbn [negb orb].
  destruct (N.ltb_spec (2 ^ SuperModel.s_block_log sf) c_SQFS_MIN_BLOCK_SIZE) as [|_]; [lia|].
  destruct (N.ltb_spec c_SQFS_MAX_BLOCK_SIZE (2 ^ SuperModel.s_block_log sf)) as [|_]; [lia|].
  destruct (N.ltb_spec (SuperModel.s_block_log sf) 12) as [|_]; [lia|].
  destruct (N.ltb_spec 20 (SuperModel.s_block_log sf)) as [|_]; [lia|]. cbn [orb].
  destruct (N.ltb_spec (SuperModel.s_comp_id sf) c_SQFS_COMP_MIN) as [|_]; [lia|].
  destruct (N.ltb_spec c_SQFS_COMP_MAX (SuperModel.s_comp_id sf)) as [|_]; [lia|]. cbn [orb].
  destruct (N.eqb_spec (SuperModel.s_id_count sf) 0) as [|_]; [contradiction|].
  unfold sup_of. rewrite A5. reflexivity.
Qed.
