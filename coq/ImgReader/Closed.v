(* ImgReader — the refinement result without section hypotheses: for every image that CONTAINS the output of
   sqfs_serialize_fstree (Embed.laid), the C05 reader model — sqfs_id_table_read, sqfs_dir_reader_create,
   sqfs_dir_reader_get_full_hierarchy — returns the id table the serializer built and the tree it was given.
   [Final] (the serializer's loop invariant at the end of the run) comes from Img.Final.serialize_final, the fuel
   bounds are stated on the sizes of the two tables. *)
From Coq Require Import List NArith ZArith Lia Bool ZifyBool ZifyNat ZifyN.
From SqfsV Require Import Base.Bytes Gen.Constants C03.Common C03.ListN C03.MetaModel C03.MetaProofs C03.MetaRT
  C03.DirModel C03.DirProofs C03.DirRT C03.DirEnd.
From SqfsV Require Import C01.GenC01 C01.Res C01.InodeModel C01.InodeProofs.
From SqfsV Require Import Img.TreeModel Img.MetaLemmas Img.InodeLemmas Img.SerDefs Img.SerDir Img.SerProofs
  Img.Final Img.Domain Img.ReadProofs Img.TreeRT.
From SqfsV Require Import ImgReader.MetaRefine ImgReader.WriterFacts ImgReader.Embed ImgReader.Tables
  ImgReader.InodeRefine ImgReader.DirRefine ImgReader.ViewRefine ImgReader.TreeRefine ImgReader.IdRefine
  ImgReader.ReadImage.
From SqfsV Require Import C05.RBase C05.GenC05 C05.Meta C05.Super C05.Inode C05.Dir.
Import ListNotations.
Local Open Scope N_scope.

Section CL.
  Variable compress : list N -> cres.
  Variable uncompress : list N -> option (list N).
  Hypothesis compress_ok :
    forall b c, compress b = CData c -> cl c <= cl b /\ uncompress c = Some b.

  (* every metadata block occupies at least three bytes of its table *)
  Lemma raws_len raws : Forall blk_ok raws -> 3 * cl raws <= cl (concat (map (enc compress) raws)).
  Proof.
    induction 1 as [|r l Hr _ IH]; [cbn; lia|].
    cbn [map concat]. rewrite ListN.lenN_app, ListN.lenN_cons.
    assert (3 <= cl (enc compress r)).
    { destruct Hr as [Hp Hm].
      destruct (enc_cases compress uncompress compress_ok r (conj Hp Hm)) as [[_ (c & _ & Nc & -> & _)]|[_ ->]];
        rewrite ListN.lenN_app; unfold le16; rewrite lenN_le.
      - pose proof (lenN_pos c Nc). lia.
      - lia. }
    lia.
  Qed.

  Lemma idle_raws_len m raws : Idle compress m raws -> (2 * length raws <= length (mw_disk m))%nat.
  Proof.
    intros [(A & _ & Cr & _) _]. pose proof (raws_len raws Cr) as L. rewrite <- A in L.
    unfold Common.lenN in L. lia.
  Qed.
End CL.

(* the hierarchy; the id table is the one the serializer built *)
Theorem full_hierarchy_serialized_l :
  forall (compress : list N -> cres) (uncompress : list N -> option (list N)),
  (forall b c, compress b = CData c -> cl c <= cl b /\ uncompress c = Some b) ->
  forall uc, uc_meets uncompress uc ->
  forall limit, limit <= 65536 ->
  forall bs t si,
  representable bs t = true -> serialize_fstree compress limit t = Res.Ok si ->
  trace_fits si = true -> alloc_fits si = true ->
  forall img s, laid compress img s bs si ->
  forall depth efuel fuel,
  (length t <= depth)%nat -> (max_entries t < efuel)%nat ->
  (reader_fuel (si_itbl si) (si_dtbl si) <= fuel)%nat ->
  exists dr T, full_hierarchy uc img depth efuel fuel s (si_ids si) (dreader_create s) = Ok (dr, T) /\
               spec_tree t (length t) (nlen t) = Some (ltree_of T) /\ tree_name T = [].
Proof.
  intros compress uncompress compress_ok uc uc_ok limit limit_ok bs t si Hrep Hser Hfit Halloc img s LD
         depth efuel fuel Hd He Hf.
  destruct (serialize_final compress uncompress compress_ok limit t si (repr_children_before bs t Hrep) Hser)
    as (a & im & dm & FIN).
  pose proof FIN as (I1 & _ & T1 & I2 & _ & T2 & _).
  pose proof (idle_raws_len compress uncompress compress_ok _ _ I1) as L1. rewrite <- T1 in L1.
  pose proof (idle_raws_len compress uncompress compress_ok _ _ I2) as L2. rewrite <- T2 in L2.
  unfold reader_fuel in Hf.
  apply (full_hierarchy_ok compress uncompress compress_ok uc uc_ok limit limit_ok bs t si Hrep Hser Hfit Halloc
           img s LD a im dm FIN fuel ltac:(lia) ltac:(lia) efuel He depth Hd).
Qed.

(* sqfs_id_table_read + the hierarchy *)
Theorem read_tables_serialized_l :
  forall (compress : list N -> cres) (uncompress : list N -> option (list N)),
  (forall b c, compress b = CData c -> cl c <= cl b /\ uncompress c = Some b) ->
  forall uc, uc_meets uncompress uc ->
  forall limit, limit <= 65536 ->
  forall bs t si,
  representable bs t = true -> serialize_fstree compress limit t = Res.Ok si ->
  trace_fits si = true -> alloc_fits si = true ->
  forall img s, laid compress img s bs si ->
  forall depth efuel fuel,
  (length t <= depth)%nat -> (max_entries t < efuel)%nat ->
  (reader_fuel (si_itbl si) (si_dtbl si) <= fuel)%nat ->
  exists T, read_tables_c05 uc depth efuel fuel img s = Ok (si_ids si, T) /\
            spec_tree t (length t) (nlen t) = Some (ltree_of T) /\ tree_name T = [].
Proof.
  intros compress uncompress compress_ok uc uc_ok limit limit_ok bs t si Hrep Hser Hfit Halloc img s LD
         depth efuel fuel Hd He Hf.
  destruct (full_hierarchy_serialized_l compress uncompress compress_ok uc uc_ok limit limit_ok bs t si Hrep Hser
              Hfit Halloc img s LD depth efuel fuel Hd He Hf) as (dr & T & FH & ST & NM).
  destruct (ids_range compress uncompress compress_ok limit bs t si Hrep Hser) as [F32 H1].
  destruct (serialize_final compress uncompress compress_ok limit t si (repr_children_before bs t Hrep) Hser)
    as (a & im & dm & FIN).
  assert (HL : nlen (si_ids si) <= limit) by (unfold Final in FIN; tauto).
  assert (Hf64 : (64 <= fuel)%nat) by (unfold reader_fuel in Hf; lia).
  exists T. split; [|split; assumption].
  unfold read_tables_c05.
  rewrite (id_table_read_ok compress uncompress compress_ok uc uc_ok img s bs si fuel LD F32 H1 ltac:(lia) Hf64).
  cbn [bind]. rewrite FH. reflexivity.
Qed.

(* the C style decompressor derived from an abstract one meets the contract the refinement needs *)
Lemma uc_of_meets uncompress : uc_meets uncompress (uc_of uncompress).
Proof.
  intros c b U L. unfold uc_of. rewrite U. destruct (N.leb_spec (cl b) meta_sz) as [_|]; [reflexivity|lia].
Qed.

(* ---- the boolean tree equality of ReadImage.v is sound ---- *)
Lemma listN_eqb_eq : forall a b, listN_eqb a b = true -> a = b.
Proof.
  induction a as [|x a IH]; intros [|y b] H; try discriminate; [reflexivity|].
  cbn [listN_eqb] in H. apply andb_true_iff in H. destruct H as [H1 H2]. apply N.eqb_eq in H1.
  f_equal; [exact H1|apply IH; exact H2].
Qed.

Lemma optN_eqb_eq a b : optN_eqb a b = true -> a = b.
Proof. destruct a, b; cbn; intro H; try discriminate; [apply N.eqb_eq in H; congruence|reflexivity]. Qed.

Lemma lkind_eqb_eq a b : lkind_eqb a b = true -> a = b.
Proof.
  destruct a, b; cbn [lkind_eqb]; intro H; try discriminate.
  - apply N.eqb_eq in H. congruence.
  - rewrite !andb_true_iff, !N.eqb_eq in H. destruct H as [[[[[-> ->] ->] ->] ->] H]. apply listN_eqb_eq in H. congruence.
  - apply listN_eqb_eq in H. congruence.
  - rewrite andb_true_iff, N.eqb_eq in H. destruct H as [H ->]. apply Bool.eqb_prop in H. congruence.
  - apply Bool.eqb_prop in H. congruence.
Qed.

Lemma lview_eqb_eq a b : lview_eqb a b = true -> a = b.
Proof.
  destruct a, b. unfold lview_eqb. simpl.
  rewrite !andb_true_iff, !N.eqb_eq. intros [[[[[[[-> H1] H2] ->] ->] ->] ->] H3].
  apply optN_eqb_eq in H1. apply optN_eqb_eq in H2. apply lkind_eqb_eq in H3. congruence.
Qed.

Lemma ltree_eqb_eq : forall a b, ltree_eqb a b = true -> a = b.
Proof.
  fix IH 1. intros [va ea] [vb eb] H. cbn [ltree_eqb] in H. apply andb_true_iff in H. destruct H as [Hv He].
  apply lview_eqb_eq in Hv. subst vb. f_equal.
  revert eb He. induction ea as [|[n1 t1] ea IHl]; intros [|[n2 t2] eb] He; try discriminate; [reflexivity|].
  rewrite !andb_true_iff in He. destruct He as [[H1 H2] H3].
  apply listN_eqb_eq in H1. apply IH in H2. apply IHl in H3. congruence.
Qed.

Lemma opt_ltree_eqb_eq a b : opt_ltree_eqb a b = true -> a = b /\ a <> None.
Proof.
  destruct a as [x|], b as [y|]; cbn; intro H; try discriminate. apply ltree_eqb_eq in H. split; congruence.
Qed.
