(* Img — the end of sqfs_serialize_fstree (flush both writers, move the directory blocks to the file) and what
   the loop invariant says about the finished tables. *)
From Coq Require Import List NArith ZArith Lia Bool ZifyBool ZifyNat ZifyN.
From SqfsV Require Import Base.Bytes Gen.Constants C03.Common C03.ListN C03.MetaModel C03.MetaProofs C03.MetaRT
  C03.DirModel C03.DirProofs C03.DirRT C03.DirEnd.
From SqfsV Require Import C01.GenC01 C01.Res C01.InodeModel C01.InodeProofs.
From SqfsV Require Import Img.TreeModel Img.MetaLemmas Img.InodeLemmas Img.SerDefs Img.SerDir Img.SerProofs.
Import ListNotations.
Local Open Scope N_scope.

Section Fin.
  Variable compress : list N -> cres.
  Variable uncompress : list N -> option (list N).
  Hypothesis compress_ok :
    forall b c, compress b = CData c -> lenN c <= lenN b /\ uncompress c = Some b.
  Variable limit : N.

  Notation Idle := (Idle compress).
  Notation NodeOk := (NodeOk compress limit).

  (* the finished run: both streams flushed, tables = the writers' disks *)
  Definition Final (t : fstree) (img : simg) (a : astate) (im dm : mw) : Prop :=
    Idle im (a_rawsI a) /\ mw_cur im = [] /\ si_itbl img = mw_disk im /\
    Idle dm (a_rawsD a) /\ mw_cur dm = [] /\ si_dtbl img = mw_disk dm /\
    a_curI a = [] /\ a_curD a = [] /\
    a_ids a = si_ids img /\ a_refs a = si_refs img /\ a_nodes a = si_nodes img /\ a_inodes a = si_inodes img /\
    concat (a_rawsI a) = concat (a_bl a) /\
    length (si_refs img) = length t /\ length (si_nodes img) = length t /\ length (si_inodes img) = length t /\
    length (a_bl a) = length t /\
    nlen (si_ids img) <= limit /\
    si_root img = ref_of (si_refs img) (nlen t) /\
    forall j, (j < length t)%nat -> NodeOk t a j.

  Lemma flushed_disk_keep dm raws :
    Idle dm raws -> mw_keep dm = true -> mw_out (mw_write_to_file dm) = mw_disk dm.
  Proof.
    intros [(A & B & Cr & D & E & F & O) _] K.
    assert (W : concat (map write_block (mw_mem dm)) = concat (mw_mem dm)).
    { f_equal. clear - E. induction E; simpl; [reflexivity|]. rewrite H, IHE. reflexivity. }
    unfold mw_write_to_file, mw_disk. cbn [mw_out]. rewrite K, W. reflexivity.
  Qed.

  Theorem serialize_final t img :
    children_before t -> serialize_fstree compress limit t = Ok img ->
    exists a im dm, Final t img a im dm.
  Proof.
    intros CB H. unfold serialize_fstree in H.
    destruct (ser_loop compress limit t st_init 1 t) as [st| | |] eqn:L; try discriminate. cbn [bind] in H.
    destruct (lift (mw_flush compress (s_im st))) as [im1| | |] eqn:F1; try discriminate. cbn [bind] in H.
    destruct (lift (mw_flush compress (dw_dm (s_dw st)))) as [dm1| | |] eqn:F2; try discriminate. cbn [bind] in H.
    injection H as <-. apply lift_ok in F1. apply lift_ok in F2.
    change 1 with (N.of_nat (length (@nil fnode)) + 1) in L.
    destruct (ser_loop_spec compress uncompress compress_ok limit t t [] st_init [] [] [] st CB eq_refl (init_inv compress limit t) L)
      as (rawsI & rawsD & bl & (I1 & K1 & I2 & K2 & X & C & L1 & L2 & L3 & L4 & LI & NO)).
    destruct (flush_idle compress uncompress compress_ok _ _ _ I1 F1) as (I1' & C1' & K1' & E1').
    destruct (flush_idle compress uncompress compress_ok _ _ _ I2 F2) as (I2' & C2' & K2' & E2').
    set (a := mkA [] (rawsI ++ ne (mw_cur (s_im st))) [] (rawsD ++ ne (mw_cur (dw_dm (s_dw st))))
                  (s_ids st) (s_refs st) (s_nodes st) (s_inodes st) bl).
    exists a, im1, dm1. unfold Final.
    cbn [si_itbl si_dtbl si_root si_refs si_ids si_nodes si_inodes].
    unfold a at 1 2 3 4 5 6 7 8 9 10 11. cbn [a_rawsI a_rawsD a_curI a_curD a_ids a_refs a_nodes a_inodes a_bl].
    split; [exact I1'|]. split; [exact C1'|].
    split; [unfold mw_disk; rewrite K1', K1; reflexivity|].
    split; [exact I2'|]. split; [exact C2'|].
    split; [apply (flushed_disk_keep dm1 _ I2'); congruence|].
    repeat (split; [reflexivity|]).
    split; [rewrite concat_app, concat_ne; exact C|].
    repeat (split; [assumption|]).
    split; [reflexivity|].
    intros j Hj.
    eapply (NodeOk_grows compress uncompress compress_ok); [exact CB| | |apply NO; exact Hj].
    - unfold abs. cbn [a_refs]. lia.
    - unfold grows, abs, a. cbn [a_rawsI a_rawsD a_curI a_curD a_ids a_refs a_nodes a_inodes a_bl].
      rewrite C1' in E1'. rewrite C2' in E2'.
      split; [exact E1'|]. split; [exact E2'|].
      split; [exists []; rewrite !app_nil_r, concat_app, concat_ne; reflexivity|].
      repeat split; exists []; rewrite app_nil_r; reflexivity.
  Qed.
End Fin.
