(* Img — write_dir_entries: what the directory writer has written and reports when serialize_fstree
   builds the inode of a directory (instantiating C03's directory writer theorems). *)
From Coq Require Import List NArith ZArith Lia Bool ZifyBool ZifyNat ZifyN.
From SqfsV Require Import Base.Bytes Gen.Constants C03.Common C03.ListN C03.MetaModel C03.MetaProofs C03.MetaRT
  C03.DirModel C03.DirProofs C03.DirRT C03.DirEnd.
From SqfsV Require Import C01.GenC01 C01.Res C01.InodeModel C01.InodeProofs.
From SqfsV Require Import Img.TreeModel Img.MetaLemmas Img.InodeLemmas Img.SerDefs.
Import ListNotations.
Local Open Scope N_scope.

Lemma add_children_spec t refs : forall ch w w1,
  dw_export w = None ->
  add_children t refs w ch = Ok w1 ->
  exists ents, dents_of t refs ch = Some ents /\
    dw_list w1 = dw_list w ++ ents /\ dw_count w1 = dw_count w + lenN ents /\
    dw_idx w1 = dw_idx w /\ dw_ref w1 = dw_ref w /\ dw_size w1 = dw_size w /\ dw_dm w1 = dw_dm w /\
    dw_export w1 = None.
Proof.
  induction ch as [|[nm c] r IH]; intros w w1 Hx H.
  - cbn in H. injection H as <-. exists []. rewrite app_nil_r, lenN_nil, N.add_0_r. repeat split; auto.
  - cbn [add_children] in H. cbn [dents_of].
    destruct (get t c) as [tgt|]; [|discriminate].
    unfold dir_add_entry in H. destruct (get_type (fn_mode tgt)) as [ty|] eqn:Ty; [|discriminate].
    destruct ((lenN nm =? 0) || (c <? 1)) eqn:C1; [discriminate|].
    destruct (65536 <? lenN nm); [discriminate|].
    unfold dw_add_entry in H. rewrite Ty, C1, Hx in H. cbn [export_add lift bind] in H.
    apply IH in H; [|reflexivity].
    destruct H as (ents & D & L & Cn & I & R & S & M & X). cbn [dw_list dw_count dw_idx dw_ref dw_size dw_dm dw_export] in *.
    rewrite D. exists (mkDent nm (ref_of refs c) c ty :: ents).
    split; [reflexivity|]. split; [rewrite L, <- app_assoc; reflexivity|].
    split; [rewrite Cn, lenN_cons; lia|]. repeat split; assumption.
Qed.

Section SD.
  Variable compress : list N -> cres.
  Variable uncompress : list N -> option (list N).
  Hypothesis compress_ok :
    forall b c, compress b = CData c -> lenN c <= lenN b /\ uncompress c = Some b.

  Notation Idle := (Idle compress).
  Notation pos_ok := (pos_ok compress).
  Notation adv := (adv compress).

  Lemma idx_facts_of dm raws raws' curF idxs hs ents :
    Forall2 (idx_rel compress dm raws 0 raws' curF) idxs hs -> concat (map snd hs) = ents ->
    idx_facts (map (fun i => InodeModel.mkIdx (ix_index i) (ix_block i mod DirModel.U32) (de_name (ix_ent i))) idxs) ents.
  Proof.
    intros F <-. unfold idx_facts. induction F as [|ix h idxs hs R _ IH]; cbn [map]; constructor.
    - destruct R as (Q1 & Q2 & _). cbn [dx_index dx_start dx_name].
      split; [rewrite Q2, U32_val; apply N.mod_lt; discriminate|].
      split; [rewrite U32_val; apply N.mod_lt; discriminate|].
      exists (ix_ent ix). split; [|reflexivity]. cbn [concat]. apply in_or_app. left.
      destruct (snd h) as [|x l]; [discriminate|]. injection Q1 as ->. left. reflexivity.
    - eapply Forall_impl; [|exact IH]. intros e (A & B & d & Hd & Hn). split; [exact A|]. split; [exact B|].
      exists d. split; [|exact Hn]. cbn [concat]. apply in_or_app. right. exact Hd.
  Qed.

  (* sqfs_dir_writer_begin .. add_entry* .. end, and what create_inode is given *)
  Lemma write_dir_entries_spec t refs w rawsD par ch w2 kind :
    Idle (dw_dm w) rawsD -> dw_export w = None ->
    write_dir_entries compress t refs w par ch = Ok (w2, kind) ->
    let dm := dw_dm w in
    let off := mw_off dm in
    let r := mw_boff dm * 65536 + off in
    exists ents raws',
      dents_of t refs ch = Some ents /\
      kind = KDir r (lenN (listing off ents)) (lenN ents) (index_of w2) par /\
      adv dm rawsD (listing off ents) (dw_dm w2) raws' /\
      dw_export w2 = None /\
      idx_facts (index_of w2) ents /\
      off < MB /\ off = lenN (mw_cur dm).
  Proof.
    intros HI Hx H. cbv zeta. unfold write_dir_entries in H.
    destruct (add_children t refs (dw_begin w) ch) as [w1| | |] eqn:A; try discriminate. cbn [bind] in H.
    destruct (lift (dw_end compress w1)) as [w2'| | |] eqn:E; try discriminate. cbn [bind] in H.
    injection H as <- <-. apply lift_ok in E.
    unfold dw_begin, mw_position in A.
    apply add_children_spec in A; [|exact Hx].
    destruct A as (ents & D & L & Cn & I & R & S & M & X).
    cbn [dw_list dw_count dw_idx dw_ref dw_size dw_dm dw_export] in *. rewrite app_nil_l in L.
    rewrite <- M in HI.
    destruct (dw_end_spec_l compress uncompress compress_ok w1 rawsD w2' HI I S E)
      as (raws' & V & Sz & F & L2 & R2 & C2 & X2).
    cbv zeta in V, F. rewrite M, L in *.
    destruct (idle_off compress _ _ HI) as [O1 O2].
    exists ents, raws'. split; [exact D|]. split.
    { f_equal; [rewrite R2, R, U16_val; reflexivity|exact Sz|rewrite C2, Cn; lia]. }
    split; [exact V|]. split; [rewrite X2; exact X|]. split; [|split; [exact O2|exact O1]].
    unfold index_of.
    eapply idx_facts_of; [exact F|].
    apply (hdrs_of_spec (length ents) (mw_off (dw_dm w)) 0 ents (Nat.le_refl _)).
  Qed.
End SD.

(* the id table only grows *)
Lemma serialize_ids limit tbl n tbl' i :
  serialize limit tbl n = Ok (tbl', i) ->
  (exists more, tbl' = tbl ++ more) /\ (nlen tbl <= limit -> nlen tbl' <= limit).
Proof.
  unfold serialize.
  destruct (id_to_index limit tbl (tn_uid n)) as [[t1 ui]| | |] eqn:E1; try discriminate. cbn [bind].
  destruct (id_to_index limit t1 (tn_gid n)) as [[t2 gi]| | |] eqn:E2; try discriminate. cbn [bind].
  intro H. injection H as <- <-.
  destruct (id_to_index_spec _ _ _ _ _ E1) as [[m1 M1] [_ [_ [U3 _]]]].
  destruct (id_to_index_spec _ _ _ _ _ E2) as [[m2 M2] [_ [_ [G3 _]]]].
  split; [exists (m1 ++ m2); subst; rewrite app_assoc; reflexivity|]. auto.
Qed.
