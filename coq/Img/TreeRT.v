(* Img — tree_roundtrip: the reader specification, started at the root reference, returns the tree that was
   serialized; the fuel "number of inodes" suffices. *)
From Coq Require Import List NArith ZArith Lia Bool ZifyBool ZifyNat ZifyN.
From SqfsV Require Import Base.Bytes Gen.Constants C03.Common C03.ListN C03.MetaModel C03.MetaProofs C03.MetaRT
  C03.DirModel C03.DirProofs C03.DirRT C03.DirEnd.
From SqfsV Require Import C01.GenC01 C01.Res C01.InodeModel C01.InodeProofs.
From SqfsV Require Import Img.TreeModel Img.MetaLemmas Img.InodeLemmas Img.SerDefs Img.SerDir Img.SerProofs
  Img.Final Img.Domain Img.ReadProofs.
Import ListNotations.
Local Open Scope N_scope.

Lemma spec_tree_view t fuel c v sub :
  spec_tree t fuel c = Some (LT v sub) -> exists n, get t c = Some n /\ v = lview_of_fnode c n.
Proof.
  destruct fuel; [discriminate|]. cbn [spec_tree]. destruct (get t c) as [n|]; [|discriminate].
  intro H. exists n. split; [reflexivity|].
  destruct (fn_payload n); try (injection H as <- _; reflexivity).
  destruct (spec_ents (spec_tree t fuel) children); [injection H as <- _; reflexivity|discriminate].
Qed.

Lemma ref_of_index refs j r : nth_error refs j = Some r -> ref_of refs (N.of_nat j + 1) = r.
Proof.
  intro H. unfold ref_of. replace (N.to_nat (N.of_nat j + 1 - 1)) with j by lia.
  apply nth_error_nth. exact H.
Qed.

Section TR.
  Variable compress : list N -> cres.
  Variable uncompress : list N -> option (list N).
  Hypothesis compress_ok :
    forall b c, compress b = CData c -> lenN c <= lenN b /\ uncompress c = Some b.
  Variable limit : N.
  Hypothesis limit_ok : limit <= 65536.
  Variable bs : N.
  Variable t : fstree.
  Variable img : simg.
  Hypothesis Hrep : representable bs t = true.
  Hypothesis Hser : serialize_fstree compress limit t = Ok img.
  Hypothesis Hfit : trace_fits img = true.

  Notation inode_at := (inode_at uncompress bs (si_itbl img)).
  Notation read_listing := (read_listing uncompress (si_dtbl img)).
  Notation read_tree := (read_tree uncompress bs (si_itbl img) (si_dtbl img) (si_ids img)).
  Notation node_run := (node_run compress limit bs t img).
  Notation Final := (Final compress limit t img).

  Lemma kind_payload refs curD rawsD p k :
    KindOk compress t refs curD rawsD p k -> lkind_of_nkind k = lkind_of_payload p.
  Proof.
    destruct p; destruct k; cbn [SerDefs.KindOk]; try contradiction; cbn [lkind_of_nkind lkind_of_payload].
    - intros [-> _]. reflexivity.
    - intros ->. reflexivity.
    - intros ->. reflexivity.
    - intros [-> ->]. reflexivity.
    - intros ->. reflexivity.
  Qed.

  Lemma lview_node a j n tn i b r :
    node_run a j n tn i b r ->
    lview_of_inode (si_ids img) (clear_slack i) = lview_of_fnode (N.of_nat j + 1) n.
  Proof.
    intro NR. destruct NR. destruct nr_ser as (tbl & tbl' & more & S1 & S2 & S3).
    destruct (lview_serialize bs limit tbl tn tbl' i more nr_ok limit_ok S2 S1) as [V _].
    rewrite lview_clear_slack, S3, V. rewrite (kind_payload _ _ _ _ _ nr_kind).
    rewrite nr_node. reflexivity.
  Qed.

  Lemma not_dir_loc a j n tn i b r :
    node_run a j n tn i b r -> (forall par ch, fn_payload n <> PDir par ch) -> dir_loc (shape tn) = None.
  Proof.
    intros NR Hnd. destruct NR. apply dir_loc_shape_none; [exact (node_file_ok bs tn nr_ok)|].
    destruct (tn_kind tn) eqn:K; try exact I.
    destruct (fn_payload n) as [par ch| | | |]; cbn [SerDefs.KindOk] in nr_kind; try contradiction.
    exact (Hnd par ch eq_refl).
  Qed.

  Lemma tree_rt_gen a im dm :
    Final a im dm ->
    forall fuel ino, 1 <= ino -> ino <= nlen t -> (N.to_nat ino <= fuel)%nat ->
    exists lt, spec_tree t fuel ino = Some lt /\ read_tree fuel (ref_of (si_refs img) ino) = Some lt.
  Proof.
    intro FIN. induction fuel as [|f IH]; intros ino H1 H2 H3; [lia|].
    set (j := N.to_nat (ino - 1)).
    assert (Hj : (j < length t)%nat) by (unfold nlen in H2; unfold j; lia).
    assert (Hino : ino = N.of_nat j + 1) by (unfold j; lia).
    destruct (node_run_of compress uncompress compress_ok limit limit_ok bs t img Hrep Hfit a im dm j FIN Hj)
      as (n & tn & i & b & r & NR).
    pose proof (resolve_node compress uncompress compress_ok limit limit_ok bs t img Hrep a im dm j n tn i b r FIN NR) as RES.
    pose proof (lview_node a j n tn i b r NR) as LV.
    pose proof NR as [N1 N2 N3 N4 N5 N6 N7 N8 N9 N10 N11 N12 N13 N14].
    cbn [spec_tree TreeModel.read_tree].
    rewrite Hino, (get_of_nth t j n N1). rewrite (ref_of_index _ _ _ N5). rewrite RES, dir_loc_clear_slack, N14, LV.
    destruct (fn_payload n) as [par ch|fb|tg|c dv|s] eqn:P.
    - destruct (read_dir compress uncompress compress_ok limit limit_ok bs t img Hrep Hfit
                  a im dm j n tn i b r par ch FIN NR P) as (ents & sb & off & sz & DL & RL & R).
      rewrite DL, RL.
      pose proof (repr_children_before bs t Hrep j n par ch N1 P) as CBj.
      assert (E : exists sub, spec_ents (spec_tree t f) ch = Some sub /\
                              read_ents (read_tree f) ents = Some sub).
      { clear - R CBj IH H3 Hino Hj. induction R as [|e d ch0 ents0 Hed _ IHR].
        - exists []. split; reflexivity.
        - pose proof (Forall_inv CBj) as [C1 C2]. pose proof (Forall_inv_tail CBj) as CB'.
          destruct (IHR CB') as (sub & S1 & S2).
          destruct e as [nm c]. cbn [snd fst] in *.
          destruct Hed as (E1 & E2 & E3 & tgt & G & Ty). cbn [fst snd] in *.
          destruct (IH c C1) as (ltc & Q1 & Q2); [unfold nlen; lia|lia|].
          destruct ltc as [v sub0].
          destruct (spec_tree_view _ _ _ _ _ Q1) as (n' & G' & ->).
          rewrite G in G'. injection G' as <-.
          exists ((nm, LT (lview_of_fnode c tgt) sub0) :: sub).
          cbn [spec_ents read_ents]. fold (spec_ents (spec_tree t f)). fold (read_ents (read_tree f)).
          rewrite Q1, S1, E3, Q2, S2.
          unfold entry_matches, lview_of_fnode. cbn [lv_ino lv_mode]. rewrite E2, N.eqb_refl, Ty, N.eqb_refl.
          cbn [andb]. rewrite E1. split; reflexivity. }
      destruct E as (sub & S1 & S2). rewrite S1, S2. eexists. split; reflexivity.
    - rewrite (not_dir_loc a j n tn i b r NR) by (rewrite P; discriminate). eexists. split; reflexivity.
    - rewrite (not_dir_loc a j n tn i b r NR) by (rewrite P; discriminate). eexists. split; reflexivity.
    - rewrite (not_dir_loc a j n tn i b r NR) by (rewrite P; discriminate). eexists. split; reflexivity.
    - rewrite (not_dir_loc a j n tn i b r NR) by (rewrite P; discriminate). eexists. split; reflexivity.
  Qed.

  (* what a reader sees of the inode written for node j is what the tree says about that node *)
  Theorem inode_view_l : forall j n i,
    nth_error t j = Some n -> nth_error (si_inodes img) j = Some i ->
    lview_of_inode (si_ids img) (clear_slack i) = lview_of_fnode (N.of_nat j + 1) n.
  Proof.
    intros j n i Hn Hi.
    destruct (serialize_final compress uncompress compress_ok limit t img (repr_children_before bs t Hrep) Hser)
      as (a & im & dm & FIN).
    assert (Hj : (j < length t)%nat) by (apply nth_error_Some; congruence).
    destruct (node_run_of compress uncompress compress_ok limit limit_ok bs t img Hrep Hfit a im dm j FIN Hj)
      as (n0 & tn & i0 & b & r & NR).
    pose proof (lview_node a j n0 tn i0 b r NR) as LV. destruct NR.
    rewrite Hn in nr_n. injection nr_n as <-. rewrite Hi in nr_i. injection nr_i as <-. exact LV.
  Qed.

  Theorem tree_roundtrip_l :
    exists lt, spec_tree t (length t) (nlen t) = Some lt /\
               read_tree (length t) (si_root img) = Some lt.
  Proof.
    destruct (serialize_final compress uncompress compress_ok limit t img (repr_children_before bs t Hrep) Hser)
      as (a & im & dm & FIN).
    destruct (repr_facts bs t Hrep) as (_ & Hn1 & _).
    pose proof FIN as (_ & _ & _ & _ & _ & _ & _ & _ & _ & _ & _ & _ & _ & _ & _ & _ & _ & _ & RT & _).
    rewrite RT. apply (tree_rt_gen a im dm FIN); [exact Hn1|lia|unfold nlen; lia].
  Qed.
End TR.
