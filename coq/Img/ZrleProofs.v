(* Img — the zero-run-length toy compressor of the composition tie meets the compressor contract (so the
   theorems about serialize_fstree apply to the runs the tie compares, and the non-vacuity example can use
   compressed metadata blocks). *)
From Coq Require Import List NArith ZArith Lia Bool ZifyBool ZifyNat ZifyN.
From SqfsV Require Import Base.Bytes C03.Common C03.ListN C03.MetaModel C03.ToyProofs Img.TreeModel.
Import ListNotations.
Local Open Scope N_scope.

Lemma repeat_snoc {A} (x : A) n l : repeat x (S n) ++ l = repeat x n ++ x :: l.
Proof. induction n as [|n IH]; simpl; [reflexivity|]. simpl in IH. rewrite IH. reflexivity. Qed.

Lemma zrle_dec_enc : forall l z, z <= 255 -> zrle_dec (zrle_enc l z) = Some (repeat 0 (N.to_nat z) ++ l).
Proof.
  induction l as [|x r IH]; intros z Hz; cbn [zrle_enc].
  - destruct (N.eqb_spec z 0) as [->|Hne]; [reflexivity|].
    cbn [zrle_dec]. rewrite N.eqb_refl. apply N.eqb_neq in Hne. rewrite Hne. reflexivity.
  - destruct (N.eqb_spec x 0) as [->|Hx].
    + destruct (N.eqb_spec z 255) as [->|Hz2].
      * cbn [zrle_dec]. rewrite N.eqb_refl. change (255 =? 0) with false. cbv iota.
        rewrite IH by lia. change (N.to_nat 1) with 1%nat. reflexivity.
      * rewrite IH by lia. replace (N.to_nat (z + 1)) with (S (N.to_nat z)) by lia.
        rewrite repeat_snoc. reflexivity.
    + apply N.eqb_neq in Hx.
      destruct (N.eqb_spec z 0) as [->|Hne].
      * cbn [zrle_dec]. rewrite Hx, IH by lia. reflexivity.
      * apply N.eqb_neq in Hne. cbn [zrle_dec]. rewrite N.eqb_refl, Hne. cbn [zrle_dec]. rewrite Hx, IH by lia.
        reflexivity.
Qed.

Theorem zrle_contract : forall b c, zrle_compress b = CData c -> lenN c <= lenN b /\ zrle_dec c = Some b.
Proof.
  intros b c H. unfold zrle_compress in H.
  destruct (N.ltb_spec (lenN (zrle_enc b 0)) (lenN b)) as [L|L]; [|discriminate].
  injection H as <-. split; [lia|]. rewrite zrle_dec_enc by lia. reflexivity.
Qed.

(* the compressors of the tie that meet the contract: modes 0, 1 (C03's toy) and 3 (zero-run-length) *)
Theorem img_contract : forall mode, mode <= 1 \/ mode = 3 ->
  forall b c, img_compress mode b = CData c -> lenN c <= lenN b /\ img_uncompress mode c = Some b.
Proof.
  intros mode [Hm| ->] b c H.
  - unfold img_compress, img_uncompress in *. destruct (N.eqb_spec mode 3); [lia|].
    apply (toy_contract mode Hm). exact H.
  - apply zrle_contract. exact H.
Qed.
