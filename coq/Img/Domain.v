(* Img — from the boolean domain predicates (representable, trace_fits) to the hypotheses of the component
   theorems (C01 node_ok, C03 dent_ok). *)
From Coq Require Import List NArith ZArith Lia Bool ZifyBool ZifyNat ZifyN.
From SqfsV Require Import Base.Bytes Gen.Constants C03.Common C03.ListN C03.MetaModel C03.MetaProofs C03.MetaRT
  C03.DirModel C03.DirProofs C03.DirRT C03.DirEnd.
From SqfsV Require Import C01.GenC01 C01.Res C01.InodeModel C01.InodeProofs.
From SqfsV Require Import Img.TreeModel Img.MetaLemmas Img.InodeLemmas Img.SerDefs.
Import ListNotations.
Local Open Scope N_scope.

Lemma nodes_okb_nth bs t : forall l ino j n,
  nodes_okb bs t ino l = true -> nth_error l j = Some n -> fnode_okb bs t (ino + N.of_nat j) n = true.
Proof.
  induction l as [|x l IH]; intros ino j n H Hn; [destruct j; discriminate|].
  cbn [nodes_okb] in H. apply andb_true_iff in H. destruct H as [H1 H2].
  destruct j as [|j]; cbn [nth_error] in Hn.
  - injection Hn as <-. rewrite N.add_0_r. exact H1.
  - replace (ino + N.of_nat (S j)) with (ino + 1 + N.of_nat j) by lia. apply IH; assumption.
Qed.

Lemma repr_facts bs t :
  representable bs t = true ->
  bs <> 0 /\ 1 <= nlen t /\ nlen t < 4294967296 /\
  (exists n par ch, get t (nlen t) = Some n /\ fn_payload n = PDir par ch) /\
  (forall j n, nth_error t j = Some n -> fnode_okb bs t (N.of_nat j + 1) n = true).
Proof.
  unfold representable. rewrite !andb_true_iff. intros [[[[H1 H2] H3] H4] H5].
  split; [destruct (N.eqb_spec bs 0); [discriminate|assumption]|].
  split; [lia|]. split; [lia|]. split.
  - destruct (get t (nlen t)) as [n|]; [|discriminate]. destruct (fn_payload n) eqn:P; try discriminate.
    eauto.
  - intros j n Hn. rewrite N.add_comm. apply (nodes_okb_nth bs t t 1 j n H5 Hn).
Qed.

Lemma get_nth t ino n : get t ino = Some n <-> 1 <= ino /\ nth_error t (N.to_nat (ino - 1)) = Some n.
Proof.
  unfold get. destruct (N.eqb_spec ino 0) as [E|E].
  - split; [discriminate|]. intros [H _]. lia.
  - split; [intro H; split; [lia|exact H]|intros [_ H]; exact H].
Qed.

Lemma get_of_nth t j n : nth_error t j = Some n -> get t (N.of_nat j + 1) = Some n.
Proof.
  intro H. apply get_nth. split; [lia|]. replace (N.to_nat (N.of_nat j + 1 - 1)) with j by lia. exact H.
Qed.

Record fnode_facts (bs : N) (ino : N) (n : fnode) : Prop := {
  ff_mode : payload_fmt (fn_payload n) <= fn_mode n < payload_fmt (fn_payload n) + 4096;
  ff_uid : fn_uid n < 4294967296; ff_gid : fn_gid n < 4294967296; ff_mtime : fn_mtime n < 4294967296;
  ff_nlink : 1 <= fn_nlink n < 4294967296; ff_xattr : fn_xattr n < 4294967296;
  ff_payload : payload_okb bs [] ino (fn_payload n) = true
}.

Lemma payload_okb_t bs t t' ino p : payload_okb bs t ino p = payload_okb bs t' ino p.
Proof. destruct p; reflexivity. Qed.

Lemma fnode_okb_facts bs t ino n : fnode_okb bs t ino n = true -> fnode_facts bs ino n.
Proof.
  unfold fnode_okb. cbv zeta. rewrite !andb_true_iff, !N.leb_le, !N.ltb_lt.
  intros [[[[[[[[A B] C] D] E] F] G] H] I]. constructor; try lia.
  rewrite (payload_okb_t bs [] t). exact I.
Qed.

Lemma repr_children_before bs t : representable bs t = true -> children_before t.
Proof.
  intros R j n par ch Hn Hp. destruct (repr_facts bs t R) as (_ & _ & _ & _ & F).
  destruct (fnode_okb_facts _ _ _ _ (F j n Hn)) as [_ _ _ _ _ _ P]. rewrite Hp in P. cbn [payload_okb] in P.
  rewrite !andb_true_iff in P. destruct P as [[_ P] _].
  rewrite forallb_forall in P. apply Forall_forall. intros e He. specialize (P e He).
  rewrite !andb_true_iff, N.leb_le, N.ltb_lt in P. lia.
Qed.

(* ---- entries ---- *)
Definition ent_rel (t : fstree) (refs : list N) (e : list N * N) (d : dent) : Prop :=
  de_name d = fst e /\ de_num d = snd e /\ de_ref d = ref_of refs (snd e) /\
  exists tgt, get t (snd e) = Some tgt /\ get_type (fn_mode tgt) = Some (de_type d).

Lemma dents_of_rel t refs : forall ch ents,
  dents_of t refs ch = Some ents -> Forall2 (ent_rel t refs) ch ents.
Proof.
  induction ch as [|[nm c] r IH]; intros ents H; cbn [dents_of] in H.
  - injection H as <-. constructor.
  - destruct (get t c) as [tgt|] eqn:G; [|discriminate].
    destruct (get_type (fn_mode tgt)) as [ty|] eqn:Ty; [|discriminate].
    destruct (dents_of t refs r) as [es|]; [|discriminate]. injection H as <-.
    constructor; [|apply IH; reflexivity].
    unfold ent_rel. cbn [de_name de_num de_ref de_type fst snd]. repeat split. exists tgt. auto.
Qed.

Lemma Forall2_len {A B} (R : A -> B -> Prop) l1 l2 : Forall2 R l1 l2 -> length l1 = length l2.
Proof. induction 1; simpl; congruence. Qed.

Lemma get_type_small m ty : get_type m = Some ty -> ty < 65536.
Proof.
  unfold get_type. cbv zeta.
  repeat match goal with |- context [if ?c then _ else _] => destruct c end; intro H; try discriminate;
    injection H as <-; reflexivity.
Qed.

(* ---- C01's node_ok for the node serialize_tree_node saw ---- *)
Lemma forallb_idx_wfb idx ents :
  idx_facts idx ents -> Forall (fun d => name_okb (de_name d) = true) ents -> forallb idx_wfb idx = true.
Proof.
  intros F Hn. apply forallb_forall. intros e He. unfold idx_facts in F. rewrite Forall_forall in F.
  destruct (F e He) as (A & B & d & Hd & En). rewrite Forall_forall in Hn. specialize (Hn d Hd).
  unfold name_okb in Hn. rewrite !andb_true_iff, !N.leb_le in Hn. destruct Hn as [[[N1 N2] N3] _].
  unfold idx_wfb. rewrite En. unfold nlen, lenN in *.
  rewrite !andb_true_iff, !N.ltb_lt, N.leb_le, negb_true_iff, N.eqb_neq. repeat split; try lia. exact N3.
Qed.

Lemma file_body_ok bs b : file_body_okb bs b = true ->
  file_fits b /\ nlen (blocks_of b) = block_count (match kind_of b with VFile s => s | _ => 0 end) bs
                 (match b with BFile _ fi _ _ _ => fi | BFileX _ _ _ _ fi _ _ _ => fi | _ => 0 end)
                 (match b with BFile _ _ fo _ _ => fo | BFileX _ _ _ _ _ fo _ _ => fo | _ => 0 end).
Proof.
  destruct b; try discriminate; cbn [file_body_okb]; rewrite !andb_true_iff, N.eqb_eq;
    intros [[A B] C]; (split; [repeat split; assumption|exact C]).
Qed.

Section NodeOk.
  Variable compress : list N -> cres.
  Variable bs : N.

  Lemma node_ok_of t refs curD rawsD j n tn :
    fnode_facts bs (N.of_nat j + 1) n -> N.of_nat j + 1 < 4294967296 ->
    tn = mkNode (fn_mode n) (fn_uid n) (fn_gid n) (fn_mtime n) (N.of_nat j + 1) (fn_nlink n) (fn_xattr n) (tn_kind tn) ->
    KindOk compress t refs curD rawsD (fn_payload n) (tn_kind tn) ->
    (match tn_kind tn with
     | KDir r s _ idx _ => r / 65536 < 4294967296 /\ s + 3 < 4294967296 /\ nlen idx < 65536
     | _ => True
     end) ->
    node_ok bs tn.
  Proof.
    intros [Fm Fu Fg Ft Fn Fx Fp] Hino -> K Tr. cbn [tn_kind] in *.
    set (kind := tn_kind tn) in *. clearbody kind.
    unfold node_ok. cbn [tn_mode tn_mtime tn_ino tn_nlink tn_xattr tn_kind].
    assert (Hk : kind_fmt kind = payload_fmt (fn_payload n) /\ kind_ok bs kind).
    { destruct (fn_payload n) as [par ch|b|tg|c dv|s]; destruct kind as [r sz cnt idx par'|b'|tg'|c' d'|s'];
        cbn [SerDefs.KindOk] in K; try contradiction; cbn [payload_okb] in Fp.
      - destruct K as [-> (ents & pre & post & D1 & D2 & D3 & _ & _ & D6)].
        split; [reflexivity|]. cbn [kind_ok].
        rewrite !andb_true_iff, !N.ltb_lt in Fp. destruct Fp as [[[P1 P2] P3] _].
        destruct Tr as (T1 & T2 & T3).
        pose proof (dents_of_rel _ _ _ _ D1) as R.
        assert (Hlen : lenN ents = nlen ch).
        { unfold lenN, nlen. rewrite (Forall2_len _ _ _ R). reflexivity. }
        repeat split; try lia.
        apply (forallb_idx_wfb idx ents D6).
        rewrite forallb_forall in P3. clear - R P3.
        induction R as [|e d ch ents Hed _ IH]; constructor.
        + destruct Hed as [-> _]. specialize (P3 e (or_introl eq_refl)).
          rewrite !andb_true_iff in P3. tauto.
        + apply IH. intros x Hx. apply P3. right. exact Hx.
      - subst b'. split; [reflexivity|]. cbn [kind_ok]. apply file_body_ok. exact Fp.
      - subst tg'. split; [reflexivity|]. cbn [kind_ok]. rewrite andb_true_iff, N.ltb_lt in Fp. exact Fp.
      - destruct K as [-> ->]. split; [reflexivity|]. cbn [kind_ok]. apply N.ltb_lt. exact Fp.
      - subst s'. split; [reflexivity|exact I]. }
    destruct Hk as [Hk1 Hk2]. rewrite Hk1. repeat split; try lia; assumption.
  Qed.
End NodeOk.
