(* Img — small lemmas about C01's inode shaping (InodeModel.shape / serialize) that the composition needs:
   what a reader sees of the shaped inode in the terms of Img.TreeModel (lkind, dir_loc, lview). *)
From Coq Require Import List NArith ZArith Lia Bool ZifyBool ZifyNat ZifyN.
From SqfsV Require Import Base.Bytes Gen.Constants C01.GenC01 C01.Res C01.InodeModel C01.InodeProofs.
From SqfsV Require Import Img.TreeModel.
Import ListNotations.
Local Open Scope N_scope.

Lemma lkind_clear_slack i : lkind_of_body (i_body (clear_slack i)) = lkind_of_body (i_body i).
Proof. destruct i as [b body]. destruct body; reflexivity. Qed.

Lemma dir_loc_clear_slack i : dir_loc (i_body (clear_slack i)) = dir_loc (i_body i).
Proof. destruct i as [b body]. destruct body; reflexivity. Qed.

Lemma lview_clear_slack ids i : lview_of_inode ids (clear_slack i) = lview_of_inode ids i.
Proof. destruct i as [b body]. destruct body; reflexivity. Qed.

(* the kind a node's payload shows to a reader *)
Definition lkind_of_nkind (k : nkind) : lkind :=
  match k with
  | KDir _ _ _ _ par => LDir par
  | KFile b => lkind_of_body b
  | KSlink t => LSlink t
  | KDev c d => LDev c d
  | KIpc s => LIpc s
  end.

Lemma lkind_make_basic b : lkind_of_body (make_basic b) = lkind_of_body b.
Proof.
  unfold make_basic. destruct (negb (get_xattr_index b =? NOX)); [reflexivity|].
  destruct b; try reflexivity.
  - destruct (U16MAX <? size); reflexivity.
  - destruct (N.ltb_spec 0 sparse) as [H|H].
    + rewrite !orb_true_r. cbn [orb]. destruct ((U32MAX <? blocks_start) || (U32MAX <? file_size)); reflexivity.
    + assert (sparse = 0) by lia. subst.
      destruct ((U32MAX <? blocks_start) || (U32MAX <? file_size) || false || (1 <? nlink)); reflexivity.
Qed.

Lemma lkind_put_xattr b x : lkind_of_body (put_xattr b x) = lkind_of_body b.
Proof. destruct b; reflexivity. Qed.

Lemma lkind_make_extended b : lkind_of_body (make_extended b) = lkind_of_body b.
Proof. destruct b; reflexivity. Qed.

Lemma lkind_put_nlink b n : lkind_of_body (put_nlink b n) = lkind_of_body b.
Proof. destruct b; reflexivity. Qed.

Lemma lkind_set_xattr_index b x : lkind_of_body (set_xattr_index b x) = lkind_of_body b.
Proof.
  unfold set_xattr_index. rewrite lkind_put_xattr. destruct (x =? NOX); [reflexivity|apply lkind_make_extended].
Qed.

Lemma lkind_shape n :
  (match tn_kind n with KFile b => is_file b = true | _ => True end) ->
  lkind_of_body (shape n) = lkind_of_nkind (tn_kind n).
Proof.
  intro Hf. unfold shape.
  assert (E : lkind_of_body (set_xattr_index
     match tn_kind n with
     | KDir r s c idx par => put_nlink (dir_create_inode r s c 0 (tn_xattr n) par idx) (tn_nlink n)
     | KFile b =>
         match b with
         | BFile _ _ _ _ _ => if 1 <? tn_nlink n then put_nlink (make_extended b) (tn_nlink n) else put_nlink b (tn_nlink n)
         | _ => put_nlink b (tn_nlink n)
         end
     | KSlink t => BSlink (tn_nlink n) t
     | KDev c d => BDev c (tn_nlink n) d
     | KIpc s => BIpc s (tn_nlink n) 0
     end (tn_xattr n)) = lkind_of_nkind (tn_kind n)).
  { rewrite lkind_set_xattr_index.
    destruct (tn_kind n) as [r s c idx par|b|t|ch d|so]; cbn [lkind_of_nkind]; try reflexivity.
    - rewrite lkind_put_nlink. unfold dir_create_inode.
      destruct (negb (tn_xattr n =? NOX) || (U32MAX <? r / 65536) || (U16MAX - 3 <? s) || (c_DIR_INDEX_THRESHOLD <=? c));
        reflexivity.
    - destruct b; try discriminate.
      + destruct (1 <? tn_nlink n); rewrite lkind_put_nlink; [apply lkind_make_extended|reflexivity].
      + apply lkind_put_nlink. }
  destruct ((tn_xattr n =? NOX) && negb (is_kdir (tn_kind n))); [rewrite lkind_make_basic|]; exact E.
Qed.

(* where the inode of a directory says its listing is *)
Lemma dir_loc_shape n r s c idx par :
  tn_kind n = KDir r s c idx par ->
  dir_loc (shape n) = Some (r / 65536, r mod 65536, s + 3).
Proof.
  intro K. unfold shape. rewrite K. cbn [is_kdir negb]. rewrite andb_false_r.
  unfold set_xattr_index, dir_create_inode.
  destruct (N.eqb_spec (tn_xattr n) NOX) as [E|E]; cbn [negb orb].
  - destruct ((U32MAX <? r / 65536) || (U16MAX - 3 <? s) || (c_DIR_INDEX_THRESHOLD <=? c)); reflexivity.
  - reflexivity.
Qed.

Lemma dir_loc_shape_none n :
  (match tn_kind n with KFile b => is_file b = true | _ => True end) ->
  (match tn_kind n with KDir _ _ _ _ _ => False | _ => True end) ->
  dir_loc (shape n) = None.
Proof.
  intros Hf Hd.
  pose proof (lkind_shape n Hf) as L.
  destruct (tn_kind n) as [r s c idx par|b|t|ch d|so]; try contradiction; cbn [lkind_of_nkind] in L.
  - destruct b; try discriminate; destruct (shape n); cbn in L |- *; try discriminate; reflexivity.
  - destruct (shape n); cbn in L |- *; try discriminate; reflexivity.
  - destruct (shape n); cbn in L |- *; try discriminate; reflexivity.
  - destruct (shape n); cbn in L |- *; try discriminate; reflexivity.
Qed.

(* what a reader sees of the inode serialize_tree_node emitted, with any later id table *)
Lemma lview_serialize bs limit tbl n tbl' i more :
  node_ok bs n -> limit <= 65536 -> nlen tbl <= limit ->
  serialize limit tbl n = Ok (tbl', i) ->
  lview_of_inode (tbl' ++ more) i =
    mkLv (tn_mode n) (Some (tn_uid n)) (Some (tn_gid n)) (tn_mtime n) (tn_ino n) (tn_nlink n) (tn_xattr n)
         (lkind_of_nkind (tn_kind n)) /\
  i_body i = shape n.
Proof.
  intros Hn Hl Ht S.
  destruct (serialize_choice_ok_l bs limit tbl n tbl' i Hn Hl Ht S) as [W [_ [_ [U G]]]].
  unfold serialize in S.
  destruct (id_to_index limit tbl (tn_uid n)) as [[t1 ui]| | |]; try discriminate. cbn [bind] in S.
  destruct (id_to_index limit t1 (tn_gid n)) as [[t2 gi]| | |]; try discriminate. cbn [bind] in S.
  injection S as <- <-. cbn [i_base ib_uid ib_gid] in U, G.
  pose proof Hn as [_ [_ [_ [[Hn1 _] _]]]].
  destruct (shape_view n Hn1 (node_file_ok bs n Hn)) as [V1 [V2 V3]].
  split; [|reflexivity].
  unfold lview_of_inode. cbn [i_base i_body ib_mode ib_uid ib_gid ib_mtime ib_ino].
  rewrite V2, V3, (index_to_id_app _ more _ _ U), (index_to_id_app _ more _ _ G).
  rewrite (lkind_shape n (node_file_ok bs n Hn)). reflexivity.
Qed.
