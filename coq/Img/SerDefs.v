(* Img — the invariant of the serialize_fstree loop (definitions and the monotonicity lemmas). *)
From Coq Require Import List NArith ZArith Lia Bool ZifyBool ZifyNat ZifyN.
From SqfsV Require Import Base.Bytes Gen.Constants C03.Common C03.ListN C03.MetaModel C03.MetaProofs C03.MetaRT
  C03.DirModel C03.DirProofs C03.DirRT C03.DirEnd.
From SqfsV Require Import C01.GenC01 C01.Res C01.InodeModel C01.InodeProofs.
From SqfsV Require Import Img.TreeModel Img.MetaLemmas Img.InodeLemmas.
Import ListNotations.
Local Open Scope N_scope.

Lemma lift_ok {A} (r : Common.res A) a : lift r = Ok a -> r = Common.Ok a.
Proof. destruct r; simpl; congruence. Qed.

(* the entries the children of a directory stand for, given the inode references *)
Fixpoint dents_of (t : fstree) (refs : list N) (ch : list (list N * N)) : option (list dent) :=
  match ch with
  | [] => Some []
  | (nm, c) :: r =>
    match get t c with
    | None => None
    | Some tgt =>
      match get_type (fn_mode tgt), dents_of t refs r with
      | Some ty, Some es => Some (mkDent nm (ref_of refs c) c ty :: es)
      | _, _ => None
      end
    end
  end.

Definition split_ref (r : N) : N * N := (r / 65536, r mod 65536).

(* every entry of every directory names an inode numbered before the directory *)
Definition children_before (t : fstree) : Prop :=
  forall j n par ch, nth_error t j = Some n -> fn_payload n = PDir par ch ->
    Forall (fun e => 1 <= snd e /\ snd e <= N.of_nat j) ch.

Lemma ref_of_app refs more c : 1 <= c -> c <= nlen refs -> ref_of (refs ++ more) c = ref_of refs c.
Proof. unfold ref_of, nlen. intros H1 H2. apply app_nth1. lia. Qed.

Lemma dents_of_app t refs more : forall ch,
  Forall (fun e => 1 <= snd e /\ snd e <= nlen refs) ch ->
  dents_of t (refs ++ more) ch = dents_of t refs ch.
Proof.
  induction ch as [|[nm c] r IH]; intro H; [reflexivity|].
  inversion H as [|? ? [H1 H2] Hr]; subst. cbn [dents_of snd] in *.
  rewrite (IH Hr), (ref_of_app _ _ _ H1 H2). reflexivity.
Qed.

(* index entries of a directory inode: 32 bit fields, names taken from entries *)
Definition idx_facts (idx : list dir_idx) (ents : list dent) : Prop :=
  Forall (fun e => dx_index e < 4294967296 /\ dx_start e < 4294967296 /\
                   exists d, In d ents /\ dx_name e = de_name d) idx.

Section Inv.
  Variable compress : list N -> cres.
  Variable uncompress : list N -> option (list N).
  Hypothesis compress_ok :
    forall b c, compress b = CData c -> lenN c <= lenN b /\ uncompress c = Some b.
  Variable limit : N.

  Notation Idle := (Idle compress).
  Notation pos_ok := (pos_ok compress).

  (* directory: the listing of these entries lies in the directory stream at the recorded reference *)
  Definition DirOk (t : fstree) (refs : list N) (curD : list N) (rawsD : list (list N))
             (ch : list (list N * N)) (r s c : N) (idx : list dir_idx) : Prop :=
    exists ents pre post,
      dents_of t refs ch = Some ents /\ c = lenN ents /\ s = lenN (listing (r mod 65536) ents) /\
      pos_ok rawsD curD (split_ref r) (lenN pre) /\
      concat rawsD ++ curD = pre ++ listing (r mod 65536) ents ++ post /\
      idx_facts idx ents.

  Definition KindOk (t : fstree) (refs : list N) (curD : list N) (rawsD : list (list N))
             (p : fpayload) (k : nkind) : Prop :=
    match p, k with
    | PDir par ch, KDir r s c idx par' => par' = par /\ DirOk t refs curD rawsD ch r s c idx
    | PFile b, KFile b' => b' = b
    | PSlink tg, KSlink tg' => tg' = tg
    | PDev c d, KDev c' d' => c' = c /\ d' = d
    | PIpc s, KIpc s' => s' = s
    | _, _ => False
    end.

  (* the abstract part of a state: what the proofs look at *)
  Record astate := mkA {
    a_curI : list N; a_rawsI : list (list N);
    a_curD : list N; a_rawsD : list (list N);
    a_ids : list N; a_refs : list N; a_nodes : list tnode; a_inodes : list inode;
    a_bl : list (list N)          (* the encoded inodes, in order *)
  }.

  Definition NodeOk (t : fstree) (a : astate) (j : nat) : Prop :=
    exists n tn i b r,
      nth_error t j = Some n /\ nth_error (a_nodes a) j = Some tn /\ nth_error (a_inodes a) j = Some i /\
      nth_error (a_bl a) j = Some b /\ nth_error (a_refs a) j = Some r /\
      encode i = Ok b /\
      pos_ok (a_rawsI a) (a_curI a) (split_ref r) (lenN (concat (firstn j (a_bl a)))) /\
      (exists tbl tbl' more, serialize limit tbl tn = Ok (tbl', i) /\ nlen tbl <= limit /\ a_ids a = tbl' ++ more) /\
      tn = mkNode (fn_mode n) (fn_uid n) (fn_gid n) (fn_mtime n) (N.of_nat j + 1) (fn_nlink n) (fn_xattr n) (tn_kind tn) /\
      KindOk t (a_refs a) (a_curD a) (a_rawsD a) (fn_payload n) (tn_kind tn).

  (* a' continues a: both streams only grew, the lists only got longer *)
  Definition grows (a a' : astate) : Prop :=
    ext (a_rawsI a) (a_curI a) (a_rawsI a') (a_curI a') /\
    ext (a_rawsD a) (a_curD a) (a_rawsD a') (a_curD a') /\
    (exists d, concat (a_rawsD a') ++ a_curD a' = (concat (a_rawsD a) ++ a_curD a) ++ d) /\
    (exists m, a_ids a' = a_ids a ++ m) /\ (exists m, a_refs a' = a_refs a ++ m) /\
    (exists m, a_nodes a' = a_nodes a ++ m) /\ (exists m, a_inodes a' = a_inodes a ++ m) /\
    (exists m, a_bl a' = a_bl a ++ m).

  Lemma nth_error_app_l {A} (l m : list A) j x : nth_error l j = Some x -> nth_error (l ++ m) j = Some x.
  Proof.
    intro H. rewrite nth_error_app1; [exact H|]. apply nth_error_Some. congruence.
  Qed.

  Lemma firstn_app_l {A} (l m : list A) j : (j <= length l)%nat -> firstn j (l ++ m) = firstn j l.
  Proof. intro H. rewrite firstn_app. replace (j - length l)%nat with 0%nat by lia. simpl. apply app_nil_r. Qed.

  Lemma KindOk_grows t refs refs' curD rawsD curD' rawsD' d p k :
    ext rawsD curD rawsD' curD' -> concat rawsD' ++ curD' = (concat rawsD ++ curD) ++ d ->
    (forall par ch, p = PDir par ch -> dents_of t refs' ch = dents_of t refs ch) ->
    KindOk t refs curD rawsD p k -> KindOk t refs' curD' rawsD' p k.
  Proof.
    intros E C S K. destruct p as [par ch|b|tg|c dv|s]; destruct k as [r sz cnt idx par'|b'|tg'|c' d'|s'];
      cbn [KindOk] in *; try exact K.
    destruct K as [Hp (ents & pre & post & D1 & D2 & D3 & D4 & D5 & D6)].
    split; [exact Hp|]. exists ents, pre, (post ++ d).
    split; [rewrite (S par ch eq_refl); exact D1|]. split; [exact D2|]. split; [exact D3|].
    split; [exact (pos_ok_ext compress uncompress compress_ok _ _ _ _ _ _ E D4)|].
    split; [rewrite C, D5, <- !app_assoc; reflexivity|exact D6].
  Qed.

  Lemma NodeOk_grows t a a' j :
    children_before t -> (j < length (a_refs a))%nat ->
    grows a a' -> NodeOk t a j -> NodeOk t a' j.
  Proof.
    intros CB Hj (E1 & E2 & [d C] & [mi Hi] & [mr Hr] & [mn Hn] & [mo Ho] & [mb Hb])
           (n & tn & i & b & r & N1 & N2 & N3 & N4 & N5 & N6 & N7 & (tbl & tbl' & more & S1 & S2 & S3) & N9 & N10).
    exists n, tn, i, b, r.
    split; [exact N1|]. split; [rewrite Hn; apply nth_error_app_l; exact N2|].
    split; [rewrite Ho; apply nth_error_app_l; exact N3|].
    split; [rewrite Hb; apply nth_error_app_l; exact N4|].
    split; [rewrite Hr; apply nth_error_app_l; exact N5|].
    split; [exact N6|].
    split.
    { rewrite Hb, firstn_app_l.
      - exact (pos_ok_ext compress uncompress compress_ok _ _ _ _ _ _ E1 N7).
      - assert (j < length (a_bl a))%nat by (apply nth_error_Some; congruence). lia. }
    split; [exists tbl, tbl', (more ++ mi); rewrite Hi, S3, <- app_assoc; auto|].
    split; [exact N9|].
    eapply KindOk_grows; [exact E2|exact C| |exact N10].
    intros par ch Hp. rewrite Hr. apply dents_of_app.
    eapply Forall_impl; [|exact (CB j n par ch N1 Hp)].
    intros e [H1 H2]. split; [exact H1|]. unfold nlen. lia.
  Qed.

  Lemma grows_refl a : grows a a.
  Proof.
    unfold grows. repeat split; try apply ext_refl; exists []; rewrite app_nil_r; reflexivity.
  Qed.
End Inv.
