(* Img — the serialize_fstree loop keeps the invariant of SerDefs.v: every recorded inode reference is a
   position of the inode stream at which the bytes of that inode start, every directory inode describes a
   listing that lies in the directory stream. *)
From Coq Require Import List NArith ZArith Lia Bool ZifyBool ZifyNat ZifyN.
From SqfsV Require Import Base.Bytes Gen.Constants C03.Common C03.ListN C03.MetaModel C03.MetaProofs C03.MetaRT
  C03.DirModel C03.DirProofs C03.DirRT C03.DirEnd.
From SqfsV Require Import C01.GenC01 C01.Res C01.InodeModel C01.InodeProofs.
From SqfsV Require Import Img.TreeModel Img.MetaLemmas Img.InodeLemmas Img.SerDefs Img.SerDir.
Import ListNotations.
Local Open Scope N_scope.
Ltac Zify.zify_post_hook ::= Z.div_mod_to_equations.

Lemma split_ref_pos b o : o < 65536 -> split_ref (b * 65536 + o) = (b, o).
Proof. intro H. unfold split_ref. f_equal; lia. Qed.

Lemma MB_lt_65536 : MB < 65536.
Proof. pose proof MB_small. pose proof FLAG_val. lia. Qed.

Lemma nth_error_snoc {A} (l : list A) x : nth_error (l ++ [x]) (length l) = Some x.
Proof. rewrite nth_error_app2, Nat.sub_diag by lia. reflexivity. Qed.

Section SP.
  Variable compress : list N -> cres.
  Variable uncompress : list N -> option (list N).
  Hypothesis compress_ok :
    forall b c, compress b = CData c -> lenN c <= lenN b /\ uncompress c = Some b.
  Variable limit : N.

  Notation Idle := (Idle compress).
  Notation pos_ok := (pos_ok compress).
  Notation NodeOk := (NodeOk compress limit).
  Notation KindOk := (KindOk compress).

  Definition abs (st : sstate) (rawsI rawsD bl : list (list N)) : astate :=
    mkA (mw_cur (s_im st)) rawsI (mw_cur (dw_dm (s_dw st))) rawsD (s_ids st) (s_refs st) (s_nodes st)
        (s_inodes st) bl.

  Definition SInv (t : fstree) (st : sstate) (k : nat) (rawsI rawsD bl : list (list N)) : Prop :=
    Idle (s_im st) rawsI /\ mw_keep (s_im st) = false /\
    Idle (dw_dm (s_dw st)) rawsD /\ mw_keep (dw_dm (s_dw st)) = true /\ dw_export (s_dw st) = None /\
    concat rawsI ++ mw_cur (s_im st) = concat bl /\
    length (s_refs st) = k /\ length (s_nodes st) = k /\ length (s_inodes st) = k /\ length bl = k /\
    nlen (s_ids st) <= limit /\
    forall j, (j < k)%nat -> NodeOk t (abs st rawsI rawsD bl) j.

  Lemma init_inv t : SInv t st_init 0 [] [] [].
  Proof.
    unfold SInv, st_init. cbn [s_im s_dw s_ids s_refs s_nodes s_inodes dw_create dw_dm dw_export].
    split; [apply init_idle|]. split; [reflexivity|]. split; [apply init_idle|].
    repeat split; try reflexivity.
    - unfold nlen. simpl. lia.
    - intros j Hj. lia.
  Qed.

  (* the directory part of serialize_tree_node *)
  Lemma kind_part_spec t st rawsD n w' kind :
    Idle (dw_dm (s_dw st)) rawsD -> mw_keep (dw_dm (s_dw st)) = true -> dw_export (s_dw st) = None ->
    match fn_payload n with
    | PDir par ch =>
        match write_dir_entries compress t (s_refs st) (s_dw st) par ch with
        | Err _ => Err c_SQFS_ERROR_INTERNAL
        | r => r
        end
    | PFile b => Ok (s_dw st, KFile b)
    | PSlink tg => Ok (s_dw st, KSlink tg)
    | PDev c d => Ok (s_dw st, KDev c d)
    | PIpc s => Ok (s_dw st, KIpc s)
    end = Ok (w', kind) ->
    exists rawsD' d,
      Idle (dw_dm w') rawsD' /\ mw_keep (dw_dm w') = true /\ dw_export w' = None /\
      ext rawsD (mw_cur (dw_dm (s_dw st))) rawsD' (mw_cur (dw_dm w')) /\
      concat rawsD' ++ mw_cur (dw_dm w') = (concat rawsD ++ mw_cur (dw_dm (s_dw st))) ++ d /\
      KindOk t (s_refs st) (mw_cur (dw_dm w')) rawsD' (fn_payload n) kind.
  Proof.
    intros I2 K2 X KP.
    assert (Same : forall k0, @Ok (dw * nkind) (s_dw st, k0) = Ok (w', kind) -> KindOk t (s_refs st) (mw_cur (dw_dm (s_dw st))) rawsD (fn_payload n) k0 ->
              exists rawsD' d,
                Idle (dw_dm w') rawsD' /\ mw_keep (dw_dm w') = true /\ dw_export w' = None /\
                ext rawsD (mw_cur (dw_dm (s_dw st))) rawsD' (mw_cur (dw_dm w')) /\
                concat rawsD' ++ mw_cur (dw_dm w') = (concat rawsD ++ mw_cur (dw_dm (s_dw st))) ++ d /\
                KindOk t (s_refs st) (mw_cur (dw_dm w')) rawsD' (fn_payload n) kind).
    { intros k0 E Hk. injection E as <- <-. exists rawsD, [].
      split; [exact I2|]. split; [exact K2|]. split; [exact X|]. split; [apply ext_refl|].
      split; [rewrite app_nil_r; reflexivity|exact Hk]. }
    destruct (fn_payload n) as [par ch|b|tg|c dv|s] eqn:P.
    - destruct (write_dir_entries compress t (s_refs st) (s_dw st) par ch) as [[w2 k2]| | |] eqn:W; try discriminate.
      injection KP as <- <-.
      destruct (write_dir_entries_spec compress uncompress compress_ok _ _ _ _ _ _ _ _ I2 X W)
        as (ents & raws' & D & Kd & V & X2 & IF & O2 & O1).
      cbv zeta in Kd, V, IF, O2, O1.
      destruct V as (I' & E' & C' & _ & K').
      exists raws', (listing (mw_off (dw_dm (s_dw st))) ents).
      split; [exact I'|]. split; [congruence|]. split; [exact X2|]. split; [exact E'|]. split; [exact C'|].
      rewrite Kd. cbn [SerDefs.KindOk]. split; [reflexivity|].
      pose proof MB_lt_65536 as HM.
      assert (Hmod : (mw_boff (dw_dm (s_dw st)) * 65536 + mw_off (dw_dm (s_dw st))) mod 65536 = mw_off (dw_dm (s_dw st))) by lia.
      exists ents, (concat rawsD ++ mw_cur (dw_dm (s_dw st))), [].
      rewrite Hmod. split; [exact D|]. split; [reflexivity|]. split; [reflexivity|].
      split.
      { rewrite split_ref_pos by lia.
        eapply (pos_ok_ext compress uncompress compress_ok); [exact E'|].
        pose proof (pos_ok_here compress _ _ I2) as Q. unfold mw_position in Q. rewrite lenN_app. exact Q. }
      split; [rewrite app_nil_r; exact C'|exact IF].
    - apply (Same _ KP). reflexivity.
    - apply (Same _ KP). reflexivity.
    - apply (Same _ KP). split; reflexivity.
    - apply (Same _ KP). reflexivity.
  Qed.

  Lemma ser_node_spec t st k rawsI rawsD bl n st' :
    children_before t -> SInv t st k rawsI rawsD bl -> nth_error t k = Some n ->
    ser_node compress limit t st (N.of_nat k + 1) n = Ok st' ->
    exists rawsI' rawsD' b, SInv t st' (S k) rawsI' rawsD' (bl ++ [b]).
  Proof.
    intros CB (I1 & K1 & I2 & K2 & X & C & L1 & L2 & L3 & L4 & LI & NO) Hn H.
    unfold ser_node in H.
    destruct (negb (N.land (fn_mode n) c_S_IFMT =? payload_fmt (fn_payload n))); [discriminate|].
    match type of H with bind ?kp _ = _ => destruct kp as [[w' kind]| | |] eqn:KP; try discriminate end.
    cbn [bind] in H.
    destruct (kind_part_spec t st rawsD n w' kind I2 K2 X KP) as (rawsD' & d & I2' & K2' & X' & E2 & C2 & KO).
    set (tn := mkNode (fn_mode n) (fn_uid n) (fn_gid n) (fn_mtime n) (N.of_nat k + 1) (fn_nlink n) (fn_xattr n) kind) in *.
    destruct (serialize limit (s_ids st) tn) as [[ids' i]| | |] eqn:S; try discriminate. cbn [bind] in H.
    unfold mw_position in H.
    destruct (encode i) as [bytes| | |] eqn:En; try discriminate. cbn [bind] in H.
    destruct (lift (mw_append compress (s_im st) bytes)) as [im'| | |] eqn:Ap; try discriminate. cbn [bind] in H.
    injection H as <-. apply lift_ok in Ap.
    destruct (append_spec compress uncompress compress_ok _ _ _ _ I1 Ap) as (fulls & I1' & F1 & C1 & E1 & K1').
    destruct (serialize_ids _ _ _ _ _ S) as [[mi Hmi] Hlim].
    exists (rawsI ++ fulls), rawsD', bytes.
    unfold SInv. cbn [s_im s_dw s_ids s_refs s_nodes s_inodes].
    split; [exact I1'|]. split; [congruence|]. split; [exact I2'|]. split; [exact K2'|]. split; [exact X'|].
    split.
    { rewrite !concat_app. cbn [concat]. rewrite app_nil_r, <- app_assoc, C1, app_assoc, C. reflexivity. }
    rewrite !app_length. cbn [length].
    split; [lia|]. split; [lia|]. split; [lia|]. split; [lia|]. split; [auto|].
    assert (G : grows (abs st rawsI rawsD bl)
                      (abs (mkS im' w' ids' (s_refs st ++ [mw_boff (s_im st) * 65536 + mw_off (s_im st)])
                                (s_nodes st ++ [tn]) (s_inodes st ++ [i])) (rawsI ++ fulls) rawsD' (bl ++ [bytes]))).
    { unfold grows, abs. cbn [a_curI a_rawsI a_curD a_rawsD a_ids a_refs a_nodes a_inodes a_bl s_im s_dw s_ids s_refs s_nodes s_inodes].
      split; [exact E1|]. split; [exact E2|]. split; [exists d; exact C2|].
      split; [exists mi; exact Hmi|]. repeat split; eexists; reflexivity. }
    intros j Hj.
    destruct (Nat.eq_dec j k) as [->|Hne].
    - (* the node just written *)
      destruct (idle_off compress _ _ I1) as [O1 O2]. pose proof MB_lt_65536 as HM.
      exists n, tn, i, bytes, (mw_boff (s_im st) * 65536 + mw_off (s_im st)).
      unfold abs. cbn [a_curI a_rawsI a_curD a_rawsD a_ids a_refs a_nodes a_inodes a_bl s_im s_dw s_ids s_refs s_nodes s_inodes].
      split; [exact Hn|].
      split; [rewrite <- L2; apply nth_error_snoc|].
      split; [rewrite <- L3; apply nth_error_snoc|].
      split; [rewrite <- L4; apply nth_error_snoc|].
      split; [rewrite <- L1; apply nth_error_snoc|].
      split; [exact En|].
      split.
      { rewrite split_ref_pos by lia.
        rewrite firstn_app_l by lia. rewrite <- L4, firstn_all, <- C, lenN_app.
        eapply (pos_ok_ext compress uncompress compress_ok); [exact E1|].
        pose proof (pos_ok_here compress _ _ I1) as Q. unfold mw_position in Q. exact Q. }
      split; [exists (s_ids st), ids', []; rewrite app_nil_r; auto|].
      split; [reflexivity|].
      cbn [tn_kind tn].
      eapply (KindOk_grows compress uncompress compress_ok) with (d := []); [apply ext_refl|rewrite app_nil_r; reflexivity| |exact KO].
      intros par ch Hp. apply dents_of_app.
      eapply Forall_impl; [|exact (CB k n par ch Hn Hp)].
      intros e [H1 H2]. split; [exact H1|]. unfold nlen. lia.
    - assert (Hlt : (j < k)%nat) by lia.
      eapply (NodeOk_grows compress uncompress compress_ok); [exact CB| |exact G|apply NO; exact Hlt].
      unfold abs. cbn [a_refs]. lia.
  Qed.

  Lemma ser_loop_spec t : forall l done st rawsI rawsD bl st',
    children_before t -> t = done ++ l ->
    SInv t st (length done) rawsI rawsD bl ->
    ser_loop compress limit t st (N.of_nat (length done) + 1) l = Ok st' ->
    exists rawsI' rawsD' bl', SInv t st' (length t) rawsI' rawsD' bl'.
  Proof.
    induction l as [|n l IH]; intros done st rawsI rawsD bl st' CB Ht HI H.
    - cbn in H. injection H as <-. rewrite app_nil_r in Ht. subst done. eauto.
    - cbn [ser_loop] in H.
      destruct (ser_node compress limit t st (N.of_nat (length done) + 1) n) as [st1| | |] eqn:SN; try discriminate.
      cbn [bind] in H.
      assert (Hn : nth_error t (length done) = Some n).
      { subst t. rewrite nth_error_app2, Nat.sub_diag by lia. reflexivity. }
      destruct (ser_node_spec t st (length done) rawsI rawsD bl n st1 CB HI Hn SN) as (rI & rD & b & HI1).
      apply (IH (done ++ [n]) st1 rI rD (bl ++ [b]) st' CB).
      + subst t. rewrite <- app_assoc. reflexivity.
      + rewrite app_length. cbn [length]. replace (length done + 1)%nat with (S (length done)) by lia. exact HI1.
      + rewrite app_length. cbn [length].
        replace (N.of_nat (length done + 1) + 1) with (N.of_nat (length done) + 1 + 1) by lia. exact H.
  Qed.
End SP.
