(* Img — reading the finished tables back: every recorded reference resolves to the inode written for it
   (serialize_refs_resolve), every directory inode leads to the listing of its entries, and the reader
   specification returns the tree that was serialized (tree_roundtrip). *)
From Coq Require Import List NArith ZArith Lia Bool ZifyBool ZifyNat ZifyN.
From SqfsV Require Import Base.Bytes Gen.Constants C03.Common C03.ListN C03.MetaModel C03.MetaProofs C03.MetaRT
  C03.DirModel C03.DirProofs C03.DirRT C03.DirEnd.
From SqfsV Require Import C01.GenC01 C01.Res C01.InodeModel C01.InodeProofs.
From SqfsV Require Import Img.TreeModel Img.MetaLemmas Img.InodeLemmas Img.SerDefs Img.SerDir Img.SerProofs
  Img.Final Img.Domain.
Import ListNotations.
Local Open Scope N_scope.
Ltac Zify.zify_post_hook ::= Z.div_mod_to_equations.

Lemma encode_nonempty i b : encode i = Ok b -> 16 <= lenN b.
Proof.
  unfold encode. destruct (body_payload (i_body i)) as [p| | |]; try discriminate. cbn [bind].
  intro H. injection H as <-. unfold base_fields, W2, W4. cbn [encf le app]. rewrite !lenN_cons. lia.
Qed.

Lemma trace_fits_facts img :
  trace_fits img = true ->
  lenN (si_itbl img) < 4294967296 /\ lenN (si_dtbl img) < 4294967296 /\
  forall tn, In tn (si_nodes img) ->
    match tn_kind tn with
    | KDir _ s _ idx _ => s + 3 < 4294967296 /\ nlen idx < 65536
    | _ => True
    end.
Proof.
  unfold trace_fits. rewrite !andb_true_iff, !N.ltb_lt. intros [[A B] C].
  split; [exact A|]. split; [exact B|]. intros tn Hin. rewrite forallb_forall in C. specialize (C tn Hin).
  destruct (tn_kind tn); try exact I. rewrite andb_true_iff, !N.ltb_lt in C. exact C.
Qed.

Section RP.
  Variable compress : list N -> cres.
  Variable uncompress : list N -> option (list N).
  Hypothesis compress_ok :
    forall b c, compress b = CData c -> lenN c <= lenN b /\ uncompress c = Some b.
  Variable limit : N.
  Hypothesis limit_ok : limit <= 65536.
  Variable bs : N.
  Variable t : fstree.
  Variable img : simg.
  Hypothesis Hrep : representable bs t = true.
  Hypothesis Hser : serialize_fstree compress limit t = Ok img.
  Hypothesis Hfit : trace_fits img = true.

  Notation Idle := (Idle compress).
  Notation pos_ok := (pos_ok compress).
  Notation NodeOk := (NodeOk compress limit).
  Notation inode_at := (inode_at uncompress bs (si_itbl img)).
  Notation read_listing := (read_listing uncompress (si_dtbl img)).
  Notation read_tree := (read_tree uncompress bs (si_itbl img) (si_dtbl img) (si_ids img)).

  (* everything the run says about the node with index j (inode number j + 1) *)
  Record node_run (a : astate) (j : nat) (n : fnode) (tn : tnode) (i : inode) (b : list N) (r : N) : Prop := {
    nr_n : nth_error t j = Some n;
    nr_tn : nth_error (si_nodes img) j = Some tn;
    nr_i : nth_error (si_inodes img) j = Some i;
    nr_b : nth_error (a_bl a) j = Some b;
    nr_r : nth_error (si_refs img) j = Some r;
    nr_enc : encode i = Ok b;
    nr_pos : pos_ok (a_rawsI a) [] (split_ref r) (lenN (concat (firstn j (a_bl a))));
    nr_ser : exists tbl tbl' more, serialize limit tbl tn = Ok (tbl', i) /\ nlen tbl <= limit /\ si_ids img = tbl' ++ more;
    nr_node : tn = mkNode (fn_mode n) (fn_uid n) (fn_gid n) (fn_mtime n) (N.of_nat j + 1) (fn_nlink n) (fn_xattr n) (tn_kind tn);
    nr_kind : KindOk compress t (si_refs img) [] (a_rawsD a) (fn_payload n) (tn_kind tn);
    nr_facts : fnode_facts bs (N.of_nat j + 1) n;
    nr_ok : node_ok bs tn;
    nr_wf : inode_wfb bs i = true;
    nr_body : i_body i = shape tn
  }.

  Lemma node_run_of a im dm j :
    Final compress limit t img a im dm -> (j < length t)%nat ->
    exists n tn i b r, node_run a j n tn i b r.
  Proof.
    intros (I1 & C1 & T1 & I2 & C2 & T2 & A1 & A2 & A3 & A4 & A5 & A6 & CB & L1 & L2 & L3 & L4 & LI & RT & NO) Hj.
    destruct (NO j Hj) as (n & tn & i & b & r & N1 & N2 & N3 & N4 & N5 & N6 & N7 & N8 & N9 & N10).
    rewrite A1 in N7. rewrite A2, A4 in N10. rewrite A3 in N8. rewrite A4 in N5. rewrite A5 in N2. rewrite A6 in N3.
    destruct (repr_facts bs t Hrep) as (Hbs & Hn1 & Hn2 & _ & FO).
    destruct (trace_fits_facts img Hfit) as (TI & TD & TN).
    pose proof (fnode_okb_facts _ _ _ _ (FO j n N1)) as FF.
    assert (Hino : N.of_nat j + 1 < 4294967296) by (unfold nlen in Hn2; lia).
    assert (OK : node_ok bs tn).
    { apply (node_ok_of compress bs t (si_refs img) [] (a_rawsD a) j n tn FF Hino N9 N10).
      pose proof (TN tn (nth_error_In _ _ N2)) as Q.
      destruct (tn_kind tn) as [rr s c idx par| | | |] eqn:K; try exact I.
      destruct Q as [Q1 Q2]. split; [|split; assumption].
      destruct (fn_payload n); cbn [SerDefs.KindOk] in N10; try contradiction.
      destruct N10 as [_ (ents & pre & post & _ & _ & _ & P & _)].
      pose proof (pos_ok_block_le compress dm (a_rawsD a) [] _ _ I2 P) as Q. unfold split_ref in Q. cbn [fst] in Q.
      rewrite <- T2 in Q. lia. }
    destruct N8 as (tbl & tbl' & more & S1 & S2 & S3).
    destruct (serialize_choice_ok_l bs limit tbl tn tbl' i OK limit_ok S2 S1) as [W _].
    destruct (lview_serialize bs limit tbl tn tbl' i more OK limit_ok S2 S1) as [_ B].
    exists n, tn, i, b, r. constructor; try assumption. exists tbl, tbl', more. auto.
  Qed.

  (* ---- serialize_refs_resolve ---- *)
  Lemma resolve_node a im dm j n tn i b r :
    Final compress limit t img a im dm -> node_run a j n tn i b r ->
    inode_at r = Some (clear_slack i).
  Proof.
    intros (I1 & C1 & T1 & _ & _ & _ & _ & _ & _ & _ & _ & _ & CB & _) NR.
    destruct NR. destruct (repr_facts bs t Hrep) as (Hbs & _).
    destruct (nth_error_split _ _ nr_b0) as (l1 & l2 & Hbl & Hl1).
    assert (F : firstn j (a_bl a) = l1).
    { rewrite Hbl. rewrite <- Hl1. rewrite firstn_app, Nat.sub_diag, firstn_all. simpl. apply app_nil_r. }
    rewrite F in nr_pos0.
    pose proof (encode_nonempty _ _ nr_enc0) as Hne.
    assert (HL : lenN (concat l1) < lenN (concat (a_rawsI a))).
    { rewrite CB, Hbl, concat_app. cbn [concat]. rewrite !lenN_app. lia. }
    pose proof (stream_at_pos compress uncompress compress_ok im (a_rawsI a) _ _ I1 C1 nr_pos0 HL) as S.
    unfold split_ref in S. cbn [fst snd] in S.
    unfold TreeModel.inode_at. rewrite T1, S.
    rewrite CB, Hbl, concat_app. cbn [concat].
    rewrite dropN_app_exact by reflexivity.
    destruct (inode_rt_l bs i (concat l2) Hbs nr_wf0) as (bytes & E & D).
    rewrite nr_enc0 in E. injection E as <-. rewrite D. reflexivity.
  Qed.

  Theorem refs_resolve_l : forall j r i,
    nth_error (si_refs img) j = Some r -> nth_error (si_inodes img) j = Some i ->
    inode_at r = Some (clear_slack i).
  Proof.
    intros j r i Hr Hi.
    destruct (serialize_final compress uncompress compress_ok limit t img (repr_children_before bs t Hrep) Hser)
      as (a & im & dm & FIN).
    assert (Hj : (j < length t)%nat).
    { destruct FIN as (_ & _ & _ & _ & _ & _ & _ & _ & _ & _ & _ & _ & _ & L1 & _). rewrite <- L1.
      apply nth_error_Some. congruence. }
    destruct (node_run_of a im dm j FIN Hj) as (n & tn & i' & b & r' & NR).
    pose proof (resolve_node a im dm j n tn i' b r' FIN NR) as R.
    destruct NR. congruence.
  Qed.

  (* ---- references and entries fit the fields of the format ---- *)
  Lemma ref_small a im dm j n tn i b r :
    Final compress limit t img a im dm -> node_run a j n tn i b r -> r < 281474976710656.
  Proof.
    intros (I1 & C1 & T1 & _) NR. destruct NR.
    destruct (trace_fits_facts img Hfit) as (TI & _).
    pose proof (pos_ok_block_le compress im (a_rawsI a) [] _ _ I1 nr_pos0) as Q1.
    destruct I1 as [(_ & _ & Cr & _) _].
    assert (Hc : lenN (@nil N) <= MB) by (rewrite lenN_nil; pose proof MB_pos; lia).
    pose proof (pos_ok_off_le compress uncompress compress_ok (a_rawsI a) [] _ _ Cr Hc nr_pos0) as Q2.
    unfold split_ref in Q1, Q2. cbn [fst snd] in Q1, Q2. rewrite <- T1 in Q1.
    pose proof MB_lt_65536. lia.
  Qed.

  Lemma ref_of_nth refs j r : nth_error refs j = Some r -> ref_of refs (N.of_nat j + 1) = r.
  Proof.
    intro H. unfold ref_of. replace (N.to_nat (N.of_nat j + 1 - 1)) with j by lia.
    apply nth_error_nth. exact H.
  Qed.

  (* ---- the listing of a directory ---- *)
  Lemma dir_bytes a im dm j n tn i b r par ch :
    Final compress limit t img a im dm -> node_run a j n tn i b r -> fn_payload n = PDir par ch ->
    exists ents sb off s,
      dir_loc (shape tn) = Some (sb, off, s + 3) /\
      Forall dent_ok ents /\ Forall2 (ent_rel t (si_refs img)) ch ents /\
      meta_read uncompress (length (si_dtbl img)) (si_dtbl img) sb off s = Some (listing off ents) /\
      lenN (listing off ents) = s.
  Proof.
    intros FIN NR Hp. pose proof FIN as (I1 & C1 & T1 & I2 & C2 & T2 & _).
    destruct NR. rewrite Hp in nr_kind0.
    destruct (tn_kind tn) as [rr s c idx par'| | | |] eqn:K; cbn [SerDefs.KindOk] in nr_kind0; try contradiction.
    destruct nr_kind0 as [-> (ents & pre & post & D1 & D2 & D3 & D4 & D5 & D6)].
    pose proof (dents_of_rel _ _ _ _ D1) as R.
    exists ents, (rr / 65536), (rr mod 65536), s.
    split; [apply (dir_loc_shape tn rr s c idx par K)|].
    (* the entries fit *)
    assert (Hok : Forall dent_ok ents).
    { destruct nr_facts0 as [_ _ _ _ _ _ P]. rewrite Hp in P. cbn [payload_okb] in P.
      rewrite !andb_true_iff in P. destruct P as [[_ P] _]. rewrite forallb_forall in P.
      pose proof (repr_children_before bs t Hrep j n par ch nr_n0 Hp) as CBj.
      assert (Hjlt : N.of_nat j < 4294967296).
      { destruct (repr_facts bs t Hrep) as (_ & _ & Hn2 & _).
        assert (j < length t)%nat by (apply nth_error_Some; congruence). unfold nlen in Hn2. lia. }
      clear - R P CBj FIN Hrep Hser Hfit compress_ok limit_ok Hjlt.
      induction R as [|e d ch0 ents0 Hed _ IH]; constructor.
      - destruct Hed as (E1 & E2 & E3 & tgt & G & Ty).
        specialize (P e (or_introl eq_refl)). rewrite !andb_true_iff, !N.leb_le, N.ltb_lt in P.
        destruct P as [[Pn _] _]. unfold name_okb in Pn. rewrite !andb_true_iff, !N.leb_le in Pn.
        inversion CBj as [|? ? [C1 C2] _]; subst.
        unfold dent_ok. rewrite E1, E2, E3.
        split; [tauto|]. split; [tauto|].
        split.
        + set (jc := N.to_nat (snd e - 1)).
          assert (Hjc : (jc < length t)%nat).
          { apply get_nth in G. destruct G as [_ G]. apply nth_error_Some. fold jc in G. congruence. }
          destruct (node_run_of _ im dm jc FIN Hjc) as (n' & tn' & i' & b' & r' & NR').
          pose proof (ref_small _ im dm jc _ _ _ _ _ FIN NR') as Q. destruct NR'.
          rewrite <- (ref_of_nth _ _ _ nr_r0) in Q. replace (N.of_nat jc + 1) with (snd e) in Q by (unfold jc; lia).
          exact Q.
        + split; [lia|]. exact (get_type_small _ _ Ty).
      - apply IH; [intros x Hx; apply P; right; exact Hx|]. inversion CBj; assumption. }
    split; [exact Hok|]. split; [exact R|].
    assert (Hcat : concat (a_rawsD a) = pre ++ listing (rr mod 65536) ents ++ post).
    { rewrite <- D5, app_nil_r. reflexivity. }
    pose proof (read_at_pos compress uncompress compress_ok dm (a_rawsD a) (split_ref rr) (lenN pre) s
                  (length (mw_disk dm)) I2) as RD.
    rewrite C2 in RD. specialize (RD D4).
    rewrite T2. unfold split_ref in RD. cbn [fst snd] in RD. rewrite RD.
    - rewrite Hcat, dropN_app_exact by reflexivity. rewrite D3, takeN_app_exact by reflexivity.
      split; reflexivity.
    - rewrite Hcat, !lenN_app. lia.
    - lia.
  Qed.

  Lemma read_dir a im dm j n tn i b r par ch :
    Final compress limit t img a im dm -> node_run a j n tn i b r -> fn_payload n = PDir par ch ->
    exists ents sb off sz,
      dir_loc (shape tn) = Some (sb, off, sz) /\
      read_listing sb off sz = Some ents /\
      Forall2 (ent_rel t (si_refs img)) ch ents.
  Proof.
    intros FIN NR Hp.
    destruct (dir_bytes a im dm j n tn i b r par ch FIN NR Hp) as (ents & sb & off & s & DL & Hok & R & MR & LS).
    exists ents, sb, off, (s + 3). split; [exact DL|]. split; [|exact R].
    unfold TreeModel.read_listing.
    assert (Hs : s + 3 <? 3 = false) by (apply N.ltb_ge; lia). rewrite Hs.
    replace (s + 3 - 3) with s by lia. rewrite MR.
    destruct (listing_entries_rt off ents (length (listing off ents)) Hok) as (runs & PL & CR).
    { pose proof (listing_ge off ents). unfold lenN in *. lia. }
    rewrite PL, CR. reflexivity.
  Qed.
End RP.
