(* Img — non-vacuity: a concrete tree in the domain of the theorems (nested directories, a hard link, a symlink, a
   device with an xattr index, two directories whose listings cross a metadata block border, an inode table of
   two blocks, compressed metadata blocks) on which the round trip computes. *)
From Coq Require Import List NArith ZArith Bool.
From SqfsV Require Import Base.Bytes Gen.Constants C03.Common C03.MetaModel C03.DirModel.
From SqfsV Require Import C01.GenC01 C01.Res C01.InodeModel Img.TreeModel.
Import ListNotations.
Local Open Scope N_scope.

Definition ex_name (c i : N) : list N := repeat c 198 ++ [48 + i / 10; 48 + i mod 10].    (* 200 bytes *)
Definition ex_fifo : fnode := mkFnode 4516 0 0 0 1 NOX (PIpc false).
Definition ex_seq (n : nat) : list N := map N.of_nat (seq 0 n).

(*  /dev (c 1,3; xattr 7)  /dirA/{a..00 .. a..44 (fifos), zsub/{b..00 .. b..44 (fifos), hl -> /file}}  /file  /link
    numbers: file 1, link 2, dev 3, fifos 4..48 and 49..93, zsub 94, dirA 95, root 96 *)
Definition ex_tree : fstree :=
  [ mkFnode 33188 1000 100 1600000000 2 NOX (PFile (BFile 96 NOX NOX 5000 [4096; 904]));
    mkFnode 41471 0 0 5 1 NOX (PSlink (repeat 120 (N.to_nat 7000)));
    mkFnode 8576 0 0 0 1 7 (PDev true 259) ]
  ++ repeat ex_fifo 90 ++
  [ mkFnode 16877 1000 100 1600000000 48 NOX
      (PDir 95 (map (fun i => (ex_name 98 i, 49 + i)) (ex_seq 45) ++ [([104; 108], 1)]));
    mkFnode 16877 1000 100 1600000000 48 NOX
      (PDir 96 (map (fun i => (ex_name 97 i, 4 + i)) (ex_seq 45) ++ [([122; 115; 117; 98], 94)]));
    mkFnode 16877 0 0 0 6 NOX
      (PDir 0 [([100; 101; 118], 3); ([100; 105; 114; 65], 95); ([102; 105; 108; 101], 1); ([108; 105; 110; 107], 2)]) ].

Definition ex_img : res simg := serialize_fstree (img_compress 3) c_id_table_limit ex_tree.

Definition is_some {A} (o : option A) : bool := match o with Some _ => true | None => false end.

Example ex_tree_representable : representable 4096 ex_tree = true.
Proof. vm_compute. reflexivity. Qed.

(* the run fits, the directory table has three blocks and the inode table two (so references into the second
   block and a listing that starts in one block and ends in the next occur), and reading the tables back
   through the reader specification gives the tree *)
Example ex_tree_roundtrip :
  match ex_img with
  | Ok img =>
      trace_fits img = true /\
      (2 * 8192 <? lenN (si_dtbl img)) = true /\
      (rd16 (si_itbl img) <? 32768) = true /\          (* the first inode block is stored compressed *)
      existsb (fun r => 0 <? r / 65536) (si_refs img) = true /\
      read_tree (img_uncompress 3) 4096 (si_itbl img) (si_dtbl img) (si_ids img) (length ex_tree) (si_root img)
        = spec_tree ex_tree (length ex_tree) (nlen ex_tree) /\
      is_some (spec_tree ex_tree (length ex_tree) (nlen ex_tree)) = true
  | _ => False
  end.
Proof. vm_compute. repeat split; reflexivity. Qed.
