(* Img — lemmas on top of C03's meta writer / directory writer proofs that the composition needs:
   the metadata stream behind a recorded position (stream_at), positions are inside the written area,
   size of a listing, entries of the parsed runs. *)
From Coq Require Import List NArith ZArith Lia Bool ZifyBool ZifyNat ZifyN.
From SqfsV Require Import Base.Bytes Gen.Constants C03.Common C03.ListN C03.MetaModel C03.MetaProofs C03.MetaRT
  C03.DirModel C03.DirProofs C03.DirRT C03.DirEnd.
From SqfsV Require Import Img.TreeModel.
Import ListNotations.
Local Open Scope N_scope.

Lemma skipn_nth {A} (d : A) : forall k l, (k < length l)%nat -> skipn k l = nth k l d :: skipn (S k) l.
Proof.
  induction k as [|k IH]; intros l H; destruct l as [|x l]; simpl in H; try lia.
  - reflexivity.
  - simpl. apply IH. lia.
Qed.

Lemma concat_firstn_skipn {A} k (l : list (list A)) : concat l = concat (firstn k l) ++ concat (skipn k l).
Proof. rewrite <- concat_app, firstn_skipn. reflexivity. Qed.

Section ML.
  Variable compress : list N -> cres.
  Variable uncompress : list N -> option (list N).
  Hypothesis compress_ok :
    forall b c, compress b = CData c -> lenN c <= lenN b /\ uncompress c = Some b.

  Notation enc := (enc compress).
  Notation Idle := (Idle compress).
  Notation pos_ok := (pos_ok compress).

  Lemma enc_prefix_le k raws :
    lenN (concat (map enc (firstn k raws))) <= lenN (concat (map enc raws)).
  Proof.
    rewrite (concat_firstn_skipn k (map enc raws)), lenN_app, firstn_map. lia.
  Qed.

  (* a recorded position lies inside the written area *)
  Lemma pos_ok_block_le m raws cur p L :
    Idle m raws -> pos_ok raws cur p L -> fst p <= lenN (mw_disk m).
  Proof.
    intros [(A & _) _] (k & _ & P1 & _). rewrite A, P1. apply enc_prefix_le.
  Qed.

  Lemma pos_ok_off_le raws cur p L : Forall blk_ok raws -> lenN cur <= MB -> pos_ok raws cur p L -> snd p <= MB.
  Proof.
    intros HF Hc (k & Hk & _ & _ & P3).
    destruct (Nat.eq_dec k (length raws)) as [->|Hne].
    - rewrite app_nth2, Nat.sub_diag in P3 by lia. simpl in P3. lia.
    - rewrite app_nth1 in P3 by lia.
      assert (In (nth k raws []) raws) by (apply nth_In; lia).
      rewrite Forall_forall in HF. destruct (HF _ H) as [_ Q]. lia.
  Qed.

  (* the metadata stream behind a recorded position, once everything has been flushed *)
  Lemma stream_at_pos m raws p L :
    Idle m raws -> mw_cur m = [] -> pos_ok raws [] p L -> L < lenN (concat raws) ->
    stream_at uncompress (mw_disk m) (fst p) (snd p) = Some (dropN L (concat raws)).
  Proof.
    intros [(A & B & C & D & E & F & O) _] Hc (k & Hk & P1 & P2 & P3) HL.
    assert (Hlt : (k < length raws)%nat).
    { destruct (Nat.eq_dec k (length raws)) as [->|Hne]; [|lia].
      rewrite app_nth2, Nat.sub_diag in P3 by lia. simpl in P3. rewrite lenN_nil in P3.
      rewrite firstn_all in P2. lia. }
    rewrite app_nth1 in P3 by lia.
    pose proof (skipn_nth [] k raws Hlt) as Hs.
    set (r := nth k raws []) in *. set (rest := skipn (S k) raws) in *.
    assert (Cs : Forall blk_ok (r :: rest)).
    { rewrite <- Hs. rewrite <- (firstn_skipn k raws) in C. apply Forall_app in C. apply C. }
    unfold stream_at. rewrite A, P1.
    rewrite (concat_firstn_skipn k (map enc raws)), firstn_map, skipn_map, Hs.
    rewrite (parse_blocks_spec compress uncompress compress_ok (r :: rest)).
    - cbn [map]. apply N.leb_le in P3. rewrite P3. f_equal.
      rewrite map_map. cbn [fst]. rewrite map_id.
      rewrite (concat_firstn_skipn k raws), Hs. cbn [concat].
      rewrite (dropN_app_ge L) by lia. f_equal. lia.
    - exact Cs.
    - rewrite app_length.
      pose proof (blocks_le_disk compress uncompress compress_ok (r :: rest) Cs). lia.
  Qed.
End ML.

(* ---- listings ---- *)
Lemma snd_mk_rhdr h : snd (mk_rhdr h) = snd h.
Proof. unfold mk_rhdr. destruct (snd h); reflexivity. Qed.

Lemma run_bytes_ge l : lenN l <= run_bytes l.
Proof.
  induction l as [|x l IH]; [rewrite lenN_nil; simpl; lia|].
  change (run_bytes (x :: l)) with (ent_bytes x + run_bytes l). unfold ent_bytes.
  rewrite lenN_cons, ENT_SZ_val. lia.
Qed.

Lemma listing_of_ge hs :
  Forall (fun h => run_ok (snd h)) hs -> lenN (concat (map snd hs)) <= lenN (listing_of hs).
Proof.
  induction 1 as [|h hs Hh _ IH]; [reflexivity|].
  unfold listing_of in *. cbn [map concat]. rewrite !lenN_app.
  assert (snd h <> []) by (destruct (snd h); [contradiction|discriminate]).
  rewrite (lenN_enc_run _ H). pose proof (run_bytes_ge (snd h)). lia.
Qed.

(* a listing has at least as many bytes as entries (fuel of the listing parser) *)
Lemma listing_ge off l : lenN l <= lenN (listing off l).
Proof.
  unfold listing. destruct (hdrs_of_spec (length l) off 0 l (Nat.le_refl _)) as [A B].
  rewrite <- A at 1. apply listing_of_ge. exact B.
Qed.

(* reading a listing back: the entries, in order *)
Lemma listing_entries_rt off l fuel :
  Forall dent_ok l -> (length l <= fuel)%nat ->
  exists runs, parse_listing fuel 0 (listing off l) = Some runs /\ concat (map snd runs) = l.
Proof.
  intros Hok Hf. unfold listing.
  rewrite (parse_listing_rt (length l) off 0 l fuel (Nat.le_refl _) Hf Hok).
  eexists. split; [reflexivity|].
  rewrite map_map. rewrite (map_ext _ snd) by (intro; apply snd_mk_rhdr).
  apply (hdrs_of_spec (length l) off 0 l (Nat.le_refl _)).
Qed.
