(* Img — totality: on a representable tree the model of sqfs_serialize_fstree never reaches a Crash (dangling child,
   node->mode not matching the union member) and never runs out of loop fuel; it either produces the tables or
   refuses with an error code (id table full, compressor error, directory writer refusal). *)
From Coq Require Import List NArith ZArith Lia Bool ZifyBool ZifyNat ZifyN.
From SqfsV Require Import Base.Bytes Gen.Constants C03.Common C03.ListN C03.MetaModel C03.MetaProofs C03.MetaRT
  C03.DirModel C03.DirProofs C03.DirRT C03.DirEnd.
From SqfsV Require Import C01.GenC01 C01.Res C01.InodeModel C01.InodeProofs.
From SqfsV Require Import Img.TreeModel Img.MetaLemmas Img.InodeLemmas Img.SerDefs Img.SerDir Img.SerProofs
  Img.Domain.
Import ListNotations.
Local Open Scope N_scope.

Definition graceful {A} (r : res A) : Prop := r <> Crash /\ r <> OutOfFuel.

(* S_IFMT bits of a mode in [f, f + 4096): exhaustive over the 7 file types x 12 permission bits *)
Definition fmt_check (f p : N) : bool := N.land (p + f) c_S_IFMT =? f.

Lemma fmt_check_all : forallb (fun f => forallb (fmt_check f) (map N.of_nat (seq 0 4096))) fmts = true.
Proof. vm_compute. reflexivity. Qed.

Lemma land_fmt f m : In f fmts -> f <= m < f + 4096 -> N.land m c_S_IFMT = f.
Proof.
  intros Hf Hm. pose proof fmt_check_all as A. rewrite forallb_forall in A.
  specialize (A f Hf). rewrite forallb_forall in A.
  assert (Hin : In (m - f) (map N.of_nat (seq 0 4096))).
  { rewrite <- (N2Nat.id (m - f)). apply in_map. apply in_seq. lia. }
  specialize (A _ Hin). unfold fmt_check in A. apply N.eqb_eq in A.
  replace (m - f + f) with m in A by lia. exact A.
Qed.

Lemma payload_fmt_in p : In (payload_fmt p) fmts.
Proof. destruct p as [| | |[]|[]]; cbn; tauto. Qed.

Lemma serialize_graceful limit tbl n : graceful (serialize limit tbl n).
Proof.
  unfold graceful, serialize, id_to_index.
  destruct (find_id (tn_uid n) tbl 0); [|destruct (limit <=? nlen tbl)]; cbn [bind];
    try (split; discriminate);
    match goal with |- context [find_id ?a ?b ?c] => destruct (find_id a b c) end;
    try match goal with |- context [limit <=? ?x] => destruct (limit <=? x) end; cbn [bind]; split; discriminate.
Qed.

Lemma encode_graceful i : graceful (encode i).
Proof.
  unfold graceful, encode. destruct (i_body i); cbn [body_payload bind]; try (split; discriminate).
  destruct (idx_names_ok index); cbn [bind]; split; discriminate.
Qed.

Lemma add_children_graceful t refs : forall ch w,
  Forall (fun e => exists n, get t (snd e) = Some n) ch -> graceful (add_children t refs w ch).
Proof.
  induction ch as [|[nm c] r IH]; intros w H; [split; discriminate|].
  inversion H as [|? ? [n G] Hr]; subst. cbn [snd] in G. cbn [add_children]. rewrite G.
  unfold dir_add_entry. destruct (get_type (fn_mode n)); [|split; discriminate].
  destruct ((lenN nm =? 0) || (c <? 1)); [split; discriminate|].
  destruct (65536 <? lenN nm); [split; discriminate|].
  unfold dw_add_entry. destruct (get_type (fn_mode n)); [|split; discriminate].
  destruct ((lenN nm =? 0) || (c <? 1)); [split; discriminate|].
  destruct (export_add (dw_export w) c (ref_of refs c)) as [ex|e|] eqn:X; cbn [lift bind].
  - apply IH. exact Hr.
  - split; discriminate.
  - exfalso. unfold export_add in X. destruct (dw_export w); [destruct (c <? 1)|]; discriminate.
Qed.

Section Tot.
  Variable compress : list N -> cres.
  Variable uncompress : list N -> option (list N).
  Hypothesis compress_ok :
    forall b c, compress b = CData c -> lenN c <= lenN b /\ uncompress c = Some b.
  Variable limit : N.
  Variable bs : N.
  Variable t : fstree.
  Hypothesis Hrep : representable bs t = true.

  Lemma children_exist j n par ch :
    nth_error t j = Some n -> fn_payload n = PDir par ch ->
    Forall (fun e => exists n', get t (snd e) = Some n') ch.
  Proof.
    intros Hn Hp. pose proof (repr_children_before bs t Hrep j n par ch Hn Hp) as CB.
    assert (Hj : (j < length t)%nat) by (apply nth_error_Some; congruence).
    eapply Forall_impl; [|exact CB]. intros e [H1 H2].
    destruct (nth_error t (N.to_nat (snd e - 1))) as [n'|] eqn:E.
    - exists n'. apply get_nth. split; [exact H1|exact E].
    - apply nth_error_None in E. lia.
  Qed.

  Lemma ser_node_graceful st k rawsI rawsD bl n :
    SInv compress limit t st k rawsI rawsD bl -> nth_error t k = Some n ->
    graceful (ser_node compress limit t st (N.of_nat k + 1) n).
  Proof.
    intros (I1 & K1 & I2 & K2 & X & _) Hn.
    destruct (repr_facts bs t Hrep) as (_ & _ & _ & _ & FO).
    destruct (fnode_okb_facts _ _ _ _ (FO k n Hn)) as [Fm _ _ _ _ _ _].
    unfold ser_node. rewrite (land_fmt _ _ (payload_fmt_in _) Fm), N.eqb_refl. cbn [negb].
    assert (KP : forall kp : res (dw * nkind),
      graceful kp ->
      (forall w' kind, kp = Ok (w', kind) -> True) ->
      graceful (do (w', kind) <- kp;
                let tn := mkNode (fn_mode n) (fn_uid n) (fn_gid n) (fn_mtime n) (N.of_nat k + 1) (fn_nlink n) (fn_xattr n) kind in
                do (ids', i) <- serialize limit (s_ids st) tn;
                let '(block, offset) := mw_position (s_im st) in
                let ref := block * 65536 + offset in
                do bytes <- encode i;
                do im' <- lift (mw_append compress (s_im st) bytes);
                Ok (mkS im' w' ids' (s_refs st ++ [ref]) (s_nodes st ++ [tn]) (s_inodes st ++ [i])))).
    { intros kp [G1 G2] _. destruct kp as [[w' kind]|e| |]; cbn [bind]; try (split; discriminate); try contradiction.
      set (tn := mkNode _ _ _ _ _ _ _ kind).
      destruct (serialize_graceful limit (s_ids st) tn) as [S1 S2].
      destruct (serialize limit (s_ids st) tn) as [[ids' i]|e| |]; cbn [bind]; try (split; discriminate); try contradiction.
      unfold mw_position.
      destruct (encode_graceful i) as [E1 E2].
      destruct (encode i) as [bytes|e| |]; cbn [bind]; try (split; discriminate); try contradiction.
      pose proof (append_no_fuel compress uncompress compress_ok _ _ bytes I1) as NF.
      destruct (mw_append compress (s_im st) bytes); cbn [lift bind]; try (split; discriminate). contradiction. }
    apply KP; [|auto].
    destruct (fn_payload n) as [par ch|b|tg|c dv|s] eqn:P; try (split; discriminate).
    unfold write_dir_entries.
    destruct (add_children_graceful t (s_refs st) ch (dw_begin (s_dw st)) (children_exist k n par ch Hn P)) as [A1 A2].
    destruct (add_children t (s_refs st) (dw_begin (s_dw st)) ch) as [w1|e| |] eqn:A; cbn [bind];
      try (split; discriminate); try contradiction.
    apply add_children_spec in A; [|exact X].
    destruct A as (ents & _ & _ & _ & _ & _ & _ & M & _).
    unfold dw_begin, mw_position in M. cbn [dw_dm] in M.
    assert (I2' : Idle compress (dw_dm w1) rawsD) by (rewrite M; exact I2).
    pose proof (dw_end_no_fuel_l compress uncompress compress_ok w1 rawsD I2') as NF.
    destruct (dw_end compress w1); cbn [lift bind]; try (split; discriminate). contradiction.
  Qed.

  Lemma ser_loop_graceful : forall l done st rawsI rawsD bl,
    t = done ++ l -> SInv compress limit t st (length done) rawsI rawsD bl ->
    graceful (ser_loop compress limit t st (N.of_nat (length done) + 1) l) /\
    forall st', ser_loop compress limit t st (N.of_nat (length done) + 1) l = Ok st' ->
      exists rI rD bl', SInv compress limit t st' (length t) rI rD bl'.
  Proof.
    intros l done st rawsI rawsD bl Ht HI. split.
    - revert done st rawsI rawsD bl Ht HI.
      induction l as [|n l IH]; intros done st rawsI rawsD bl Ht HI; [split; discriminate|].
      cbn [ser_loop].
      assert (Hn : nth_error t (length done) = Some n).
      { subst t. rewrite nth_error_app2, Nat.sub_diag by lia. reflexivity. }
      destruct (ser_node_graceful st (length done) rawsI rawsD bl n HI Hn) as [G1 G2].
      destruct (ser_node compress limit t st (N.of_nat (length done) + 1) n) as [st1|e| |] eqn:SN; cbn [bind];
        try (split; discriminate); try contradiction.
      destruct (ser_node_spec compress uncompress compress_ok limit t st (length done) rawsI rawsD bl n st1
                  (repr_children_before bs t Hrep) HI Hn SN) as (rI & rD & b & HI1).
      specialize (IH (done ++ [n]) st1 rI rD (bl ++ [b])).
      rewrite app_length in IH. cbn [length] in IH.
      replace (N.of_nat (length done + 1) + 1) with (N.of_nat (length done) + 1 + 1) in IH by lia.
      apply IH.
      + subst t. rewrite <- app_assoc. reflexivity.
      + replace (length done + 1)%nat with (S (length done)) by lia. exact HI1.
    - intros st' H.
      exact (ser_loop_spec compress uncompress compress_ok limit t l done st rawsI rawsD bl st'
               (repr_children_before bs t Hrep) Ht HI H).
  Qed.

  Theorem serialize_graceful_l : graceful (serialize_fstree compress limit t).
  Proof.
    unfold serialize_fstree.
    change 1 with (N.of_nat (length (@nil fnode)) + 1).
    destruct (ser_loop_graceful t [] st_init [] [] [] eq_refl (init_inv compress limit t)) as [[G1 G2] GS].
    destruct (ser_loop compress limit t st_init (N.of_nat (length (@nil fnode)) + 1) t) as [st|e| |] eqn:L; cbn [bind];
      try (split; discriminate); try contradiction.
    destruct (GS st eq_refl) as (rI & rD & bl & (I1 & K1 & I2 & K2 & _)).
    pose proof (flush_no_fuel compress (s_im st)) as F1.
    destruct (mw_flush compress (s_im st)) as [im1|e|] eqn:E1; cbn [lift bind]; try (split; discriminate); try contradiction.
    pose proof (flush_no_fuel compress (dw_dm (s_dw st))) as F2.
    destruct (mw_flush compress (dw_dm (s_dw st))) as [dm1|e|] eqn:E2; cbn [lift bind]; try (split; discriminate); contradiction.
  Qed.
End Tot.
