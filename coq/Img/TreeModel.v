(* Img — the composition: lib/common/src/writer/serialize_fstree.c on top of the component models of C01
   (inode codec, serialize_tree_node's inode shaping, id table) and C03 (meta writer, directory writer),
   and a specification-style reader of the two tables it produces.  Definitions only.

   C                                             model
   fstree_t after fstree_post_process            fstree = list fnode: fs->inodes[0 .. unique_inode_count),
                                                 element i is the node with inode number i + 1; fs->root is the
                                                 last one (post_process.c numbers it last, reorder_hard_links
                                                 never moves it)
   tree_node_t (mode, uid, gid, mod_time,        fnode; a directory carries node->parent->inode_num (0 for the
     link_count, xattr_idx, data)                root) and its children in list order as (name, inode number of
                                                 the node the entry stands for): for a hard link entry
                                                 (S_ISLNK && FLAG_LINK_IS_HARD) that is data.target_node, else
                                                 the child itself
   tree_node_t.inode_ref                         s_refs: references recorded so far, in inode number order; a
                                                 node not yet serialised still has the calloc value 0
   tree_node_t.data.file.inode                   PFile b: the inode the block processor left (C08 owns the data
                                                 path: block list, fragment location, sizes are inputs here)
   sqfs_writer_t.im / dm / dirwr / idtbl         s_im : mw, s_dw : dw (dm inside), s_ids
   write_dir_entries                             write_dir_entries
   tree_node_to_inode + serialize_tree_node      C01.InodeModel.serialize (shape + id_to_index) + encode
   sqfs_meta_writer_write_inode                  one append of C01.InodeModel.encode (the C function appends the
                                                 same bytes in several pieces)
   sqfs_serialize_fstree                         serialize_fstree

   The reader side (read_tree) is written from doc/format.adoc on top of the reader specifications of C03
   (parse_blocks, meta_read, parse_listing) and C01's decode (= read_inode.c after the seek). *)
From Coq Require Import List NArith ZArith Bool.
From SqfsV Require Import Base.Bytes Gen.Constants C03.Common C03.MetaModel C03.DirModel.
From SqfsV Require Import C01.GenC01 C01.Res C01.InodeModel C01.InodeProofs.
Import ListNotations.
Local Open Scope N_scope.

(* C03's result type -> C01's *)
Definition lift {A} (r : Common.res A) : res A :=
  match r with
  | Common.Ok a => Ok a
  | Common.Err e => Err e
  | Common.Fuel => OutOfFuel
  end.

(* ------------------------------------------------------------------ *)
(* the post-processed tree                                              *)
(* ------------------------------------------------------------------ *)

Inductive fpayload :=
| PDir (parent : N) (children : list (list N * N))
| PFile (b : ibody)
| PSlink (target : list N)
| PDev (chr : bool) (devno : N)
| PIpc (sock : bool).

Record fnode := mkFnode {
  fn_mode : N; fn_uid : N; fn_gid : N; fn_mtime : N; fn_nlink : N; fn_xattr : N; fn_payload : fpayload }.

Definition fstree := list fnode.

(* fs->inodes[ino - 1] *)
Definition get (t : fstree) (ino : N) : option fnode :=
  if ino =? 0 then None else nth_error t (N.to_nat (ino - 1)).

(* S_IFxxx the C code must see in node->mode to take the branch that interprets node->data this way *)
Definition payload_fmt (p : fpayload) : N :=
  match p with
  | PDir _ _ => c_S_IFDIR
  | PFile _ => c_S_IFREG
  | PSlink _ => c_S_IFLNK
  | PDev c _ => if c then c_S_IFCHR else c_S_IFBLK
  | PIpc s => if s then c_S_IFSOCK else c_S_IFIFO
  end.

(* tgt->inode_ref of the node with number c *)
Definition ref_of (refs : list N) (c : N) : N := nth (N.to_nat (c - 1)) refs 0.

(* what sqfs_dir_writer_create_inode copies out of the index list (start_block is a 32 bit field) *)
Definition index_of (w : dw) : list dir_idx :=
  map (fun i => InodeModel.mkIdx (ix_index i) (ix_block i mod DirModel.U32) (de_name (ix_ent i))) (dw_idx w).

Record sstate := mkS {
  s_im : mw;                (* wr->im *)
  s_dw : dw;                (* wr->dirwr, wr->dm inside *)
  s_ids : list N;           (* wr->idtbl *)
  s_refs : list N;          (* inode_ref of the nodes serialised so far *)
  s_nodes : list tnode;     (* trace: what serialize_tree_node's inode part saw, per node *)
  s_inodes : list inode     (* trace: the inode handed to sqfs_meta_writer_write_inode, per node *)
}.

Record simg := mkImg {
  si_itbl : list N;         (* file bytes [inode_table_start, directory_table_start) *)
  si_dtbl : list N;         (* file bytes [directory_table_start, end) *)
  si_root : N;              (* super.root_inode_ref *)
  si_refs : list N;
  si_ids : list N;
  si_nodes : list tnode;
  si_inodes : list inode
}.

Section Ser.
  Variable compress : list N -> cres.
  Variable limit : N.       (* number of ids sqfs_id_table_id_to_index accepts (GenC01.c_id_table_limit) *)

  (* sqfs_dir_writer_add_entry of the working tree.  C03's dw_add_entry predates the name length test
     (strlen(name) > 0x10000 -> SQFS_ERROR_OVERFLOW, repo commit 86cfe5d); the tests are repeated here in the
     order of the C code so that refusals agree exactly. *)
  Definition dir_add_entry (w : dw) (name : list N) (inum iref mode : N) : res dw :=
    match get_type mode with
    | None => Err c_SQFS_ERROR_UNSUPPORTED
    | Some _ =>
      if (lenN name =? 0) || (inum <? 1) then Err c_SQFS_ERROR_ARG_INVALID
      else if 65536 <? lenN name then Err c_SQFS_ERROR_OVERFLOW
      else lift (dw_add_entry w name inum iref mode)
    end.

  (* the for loop of write_dir_entries *)
  Fixpoint add_children (t : fstree) (refs : list N) (w : dw) (ch : list (list N * N)) : res dw :=
    match ch with
    | [] => Ok w
    | (name, c) :: r =>
      match get t c with
      | None => Crash            (* a child pointer always points at a node: excluded by [representable] *)
      | Some tgt =>
        do w1 <- dir_add_entry w name c (ref_of refs c) (fn_mode tgt);
        add_children t refs w1 r
      end
    end.

  (* write_dir_entries up to sqfs_dir_writer_end; the inode is built from what the writer then reports *)
  Definition write_dir_entries (t : fstree) (refs : list N) (w : dw) (parent : N) (ch : list (list N * N))
    : res (dw * nkind) :=
    let w0 := dw_begin w in
    do w1 <- add_children t refs w0 ch;
    do w2 <- lift (dw_end compress w1);
    Ok (w2, KDir (dw_ref w2) (dw_size w2) (dw_count w2) (index_of w2) parent).

  (* serialize_tree_node(filename, wr, n) for n = fs->inodes[ino - 1] *)
  Definition ser_node (t : fstree) (st : sstate) (ino : N) (n : fnode) : res sstate :=
    if negb (N.land (fn_mode n) c_S_IFMT =? payload_fmt (fn_payload n)) then Crash else
    do (w', kind) <-
      match fn_payload n with
      | PDir par ch =>
          (* inode = write_dir_entries(...); ret = SQFS_ERROR_INTERNAL; if (inode == NULL) return ret; *)
          match write_dir_entries t (s_refs st) (s_dw st) par ch with
          | Err _ => Err c_SQFS_ERROR_INTERNAL
          | r => r
          end
      | PFile b => Ok (s_dw st, KFile b)
      | PSlink tg => Ok (s_dw st, KSlink tg)
      | PDev c d => Ok (s_dw st, KDev c d)
      | PIpc s => Ok (s_dw st, KIpc s)
      end;
    let tn := mkNode (fn_mode n) (fn_uid n) (fn_gid n) (fn_mtime n) ino (fn_nlink n) (fn_xattr n) kind in
    do (ids', i) <- serialize limit (s_ids st) tn;
    let '(block, offset) := mw_position (s_im st) in
    let ref := block * 65536 + offset in           (* (block << 16) | offset, offset < 8192 *)
    do bytes <- encode i;
    do im' <- lift (mw_append compress (s_im st) bytes);
    Ok (mkS im' w' ids' (s_refs st ++ [ref]) (s_nodes st ++ [tn]) (s_inodes st ++ [i])).

  (* for (i = 0; i < wr->fs.unique_inode_count; ++i) *)
  Fixpoint ser_loop (t : fstree) (st : sstate) (ino : N) (l : list fnode) : res sstate :=
    match l with
    | [] => Ok st
    | n :: r => do st' <- ser_node t st ino n; ser_loop t st' (ino + 1) r
    end.

  (* sqfs_writer_init creates im (writes through), dm (KEEP_IN_MEMORY), the directory writer on dm and an empty
     id table; nothing else touches them before sqfs_serialize_fstree *)
  Definition st_init : sstate := mkS (mw_init false) (dw_create (mw_init true) false) [] [] [] [].

  Definition serialize_fstree (t : fstree) : res simg :=
    do st <- ser_loop t st_init 1 t;
    do im1 <- lift (mw_flush compress (s_im st));
    do dm1 <- lift (mw_flush compress (dw_dm (s_dw st)));
    let root_ref := ref_of (s_refs st) (nlen t) in
    let dm2 := mw_write_to_file dm1 in
    Ok (mkImg (mw_out im1) (mw_out dm2) root_ref (s_refs st) (s_ids st) (s_nodes st) (s_inodes st)).
End Ser.

(* ------------------------------------------------------------------ *)
(* what a tree is, independent of its serialisation                     *)
(* ------------------------------------------------------------------ *)

Inductive lkind :=
| LDir (parent : N)
| LFile (blocks_start file_size sparse frag_idx frag_off : N) (blocks : list N)
| LSlink (target : list N)
| LDev (chr : bool) (devno : N)
| LIpc (sock : bool).

Record lview := mkLv {
  lv_mode : N; lv_uid : option N; lv_gid : option N; lv_mtime : N; lv_ino : N; lv_nlink : N; lv_xattr : N;
  lv_kind : lkind }.

(* a node with the subtree below every entry; a hard link shows as the same lv_ino under several entries *)
Inductive ltree := LT (v : lview) (ents : list (list N * ltree)).

Definition lkind_of_body (b : ibody) : lkind :=
  match b with
  | BDir _ _ _ _ par => LDir par
  | BDirX _ _ _ par _ _ _ _ => LDir par
  | BFile bs fi fo fs bl => LFile bs fs 0 fi fo bl
  | BFileX bs fs sp _ fi fo _ bl => LFile bs fs sp fi fo bl
  | BSlink _ t | BSlinkX _ t _ => LSlink t
  | BDev c _ d | BDevX c _ d _ => LDev c d
  | BIpc s _ _ | BIpcX s _ _ => LIpc s
  end.

Definition lkind_of_payload (p : fpayload) : lkind :=
  match p with
  | PDir par _ => LDir par
  | PFile b => lkind_of_body b
  | PSlink t => LSlink t
  | PDev c d => LDev c d
  | PIpc s => LIpc s
  end.

(* what a reader sees of an inode (owner ids through the id table) *)
Definition lview_of_inode (ids : list N) (i : inode) : lview :=
  mkLv (ib_mode (i_base i)) (index_to_id ids (ib_uid (i_base i))) (index_to_id ids (ib_gid (i_base i)))
       (ib_mtime (i_base i)) (ib_ino (i_base i)) (nlink_of (i_body i)) (get_xattr_index (i_body i))
       (lkind_of_body (i_body i)).

(* what the tree says about the node with number ino *)
Definition lview_of_fnode (ino : N) (n : fnode) : lview :=
  mkLv (fn_mode n) (Some (fn_uid n)) (Some (fn_gid n)) (fn_mtime n) ino (fn_nlink n) (fn_xattr n)
       (lkind_of_payload (fn_payload n)).

(* the subtrees below the entries of a directory, given the function for one inode number *)
Definition spec_ents (st : N -> option ltree) : list (list N * N) -> option (list (list N * ltree)) :=
  fix go (l : list (list N * N)) : option (list (list N * ltree)) :=
    match l with
    | [] => Some []
    | (nm, c) :: r =>
      match st c, go r with
      | Some s, Some rest => Some ((nm, s) :: rest)
      | _, _ => None
      end
    end.

(* the tree below inode number ino, unfolded along the directory entries *)
Fixpoint spec_tree (t : fstree) (fuel : nat) (ino : N) : option ltree :=
  match fuel with
  | O => None
  | S f =>
    match get t ino with
    | None => None
    | Some n =>
      match fn_payload n with
      | PDir _ ch =>
        match spec_ents (spec_tree t f) ch with
        | Some ents => Some (LT (lview_of_fnode ino n) ents)
        | None => None
        end
      | _ => Some (LT (lview_of_fnode ino n) [])
      end
    end
  end.

(* ------------------------------------------------------------------ *)
(* reader specification (doc/format.adoc: inode table, directory table) *)
(* ------------------------------------------------------------------ *)

Section Read.
  Variable uncompress : list N -> option (list N).
  Variable bs : N.              (* data block size of the image (super block); needed for file inodes *)
  Variable itbl dtbl : list N.  (* the two metadata areas as the super block delimits them *)
  Variable ids : list N.        (* the id table *)

  (* the uncompressed metadata stream from in-block offset off of the block stored at byte pos of tbl
     (off = size of the block: the stream continues with the next block, as sqfs_meta_reader_read does) *)
  Definition stream_at (tbl : list N) (pos off : N) : option (list N) :=
    match parse_blocks uncompress (length tbl) tbl pos with
    | Some ((c, _, _) :: r) =>
      if off <=? lenN c then Some (dropN off (c ++ concat (map (fun b => fst (fst b)) r))) else None
    | _ => None
    end.

  (* an inode reference is (block start relative to the inode table) << 16 | offset in the block *)
  Definition inode_at (ref : N) : option inode :=
    match stream_at itbl (ref / 65536) (ref mod 65536) with
    | Some s => match decode bs s with Ok (i, _) => Some i | _ => None end
    | None => None
    end.

  (* where a directory inode says its listing is: start block, offset, size field *)
  Definition dir_loc (b : ibody) : option (N * N * N) :=
    match b with
    | BDir sb _ sz off _ => Some (sb, off, sz)
    | BDirX _ sz sb _ _ off _ _ => Some (sb, off, sz)
    | _ => None
    end.

  (* the size field counts 3 bytes more than the listing has ("." and ".."); the listing is a sequence of
     headers, each followed by its entries *)
  Definition read_listing (sb off sz : N) : option (list dent) :=
    if sz <? 3 then None else
    match meta_read uncompress (length dtbl) dtbl sb off (sz - 3) with
    | Some l =>
      match parse_listing (length l) 0 l with
      | Some runs => Some (concat (map snd runs))
      | None => None
      end
    | None => None
    end.

  (* an entry agrees with the inode it refers to: same inode number, and the entry's type is the basic type
     of the inode's mode *)
  Definition entry_matches (e : dent) (v : lview) : bool :=
    (lv_ino v =? de_num e) &&
    match get_type (lv_mode v) with Some ty => ty =? de_type e | None => false end.

  (* the subtrees below the entries of a listing, given the function that reads the tree behind a reference *)
  Definition read_ents (rt : N -> option ltree) : list dent -> option (list (list N * ltree)) :=
    fix go (l : list dent) : option (list (list N * ltree)) :=
      match l with
      | [] => Some []
      | e :: r =>
        match rt (de_ref e), go r with
        | Some (LT v sub), Some rest =>
          if entry_matches e v then Some ((de_name e, LT v sub) :: rest) else None
        | _, _ => None
        end
      end.

  Fixpoint read_tree (fuel : nat) (ref : N) : option ltree :=
    match fuel with
    | O => None
    | S f =>
      match inode_at ref with
      | None => None
      | Some i =>
        match dir_loc (i_body i) with
        | None => Some (LT (lview_of_inode ids i) [])
        | Some (sb, off, sz) =>
          match read_listing sb off sz with
          | None => None
          | Some es =>
            match read_ents (read_tree f) es with
            | Some ents => Some (LT (lview_of_inode ids i) ents)
            | None => None
            end
          end
        end
      end
    end.
End Read.

(* ------------------------------------------------------------------ *)
(* the domain of the theorems                                           *)
(* ------------------------------------------------------------------ *)

(* strcmp order on names (unsigned bytes) *)
Fixpoint name_ltb (a b : list N) : bool :=
  match a, b with
  | [], [] => false
  | [], _ :: _ => true
  | _ :: _, [] => false
  | x :: a', y :: b' => (x <? y) || ((x =? y) && name_ltb a' b')
  end.

Fixpoint sorted_names (l : list (list N)) : bool :=
  match l with
  | a :: ((b :: _) as r) => name_ltb a b && sorted_names r
  | _ => true
  end.

(* what sqfs_dir_writer_add_entry accepts as a name: 1 .. 0x10000 bytes (C string: no NUL) *)
Definition name_okb (nm : list N) : bool :=
  (1 <=? lenN nm) && (lenN nm <=? 65536) && bytesb nm && forallb (fun b => negb (b =? 0)) nm.

Definition file_body_okb (bs : N) (b : ibody) : bool :=
  match b with
  | BFile _ fi fo fs bl =>
      fitsb (body_fields b) && wordsb bl && (nlen bl =? block_count fs bs fi fo)
  | BFileX _ fs _ _ fi fo _ bl =>
      fitsb (body_fields b) && wordsb bl && (nlen bl =? block_count fs bs fi fo)
  | _ => false
  end.

Definition payload_okb (bs : N) (t : fstree) (ino : N) (p : fpayload) : bool :=
  match p with
  | PDir par ch =>
      (par <? 4294967296) && (nlen ch + 2 <? 4294967296) &&
      forallb (fun e => name_okb (fst e) && (1 <=? snd e) && (snd e <? ino)) ch &&
      sorted_names (map fst ch)
  | PFile b => file_body_okb bs b
  | PSlink tg => bytesb tg && (nlen tg <? 4294967296)
  | PDev _ d => d <? 4294967296
  | PIpc _ => true
  end.

Definition fnode_okb (bs : N) (t : fstree) (ino : N) (n : fnode) : bool :=
  let f := payload_fmt (fn_payload n) in
  (f <=? fn_mode n) && (fn_mode n <? f + 4096) &&
  (fn_uid n <? 4294967296) && (fn_gid n <? 4294967296) && (fn_mtime n <? 4294967296) &&
  (1 <=? fn_nlink n) && (fn_nlink n <? 4294967296) && (fn_xattr n <? 4294967296) &&
  payload_okb bs t ino (fn_payload n).

Fixpoint nodes_okb (bs : N) (t : fstree) (ino : N) (l : list fnode) : bool :=
  match l with
  | [] => true
  | n :: r => fnode_okb bs t ino n && nodes_okb bs t (ino + 1) r
  end.

(* the trees the theorems are about: 1 .. 2^32 - 1 inodes, the last one (the root) a directory, every field in
   the range of its tree_node_t member, every entry names an inode numbered before the directory (what
   alloc_inode_num_dfs + reorder_hard_links establish), names as the directory writer accepts them, sorted and
   distinct, file inodes as the block processor leaves them *)
Definition representable (bs : N) (t : fstree) : bool :=
  negb (bs =? 0) && (1 <=? nlen t) && (nlen t <? 4294967296) &&
  match get t (nlen t) with
  | Some n => match fn_payload n with PDir _ _ => true | _ => false end
  | None => false
  end &&
  nodes_okb bs t 1 t.

(* what the run itself must satisfy for the 32 / 16 bit location fields of the format (the code has no check):
   both tables below 4 GiB, every listing + 3 below 4 GiB, fewer than 65536 headers per directory *)
Definition trace_fits (img : simg) : bool :=
  (lenN (si_itbl img) <? 4294967296) && (lenN (si_dtbl img) <? 4294967296) &&
  forallb (fun tn => match tn_kind tn with
                     | KDir _ s _ idx _ => (s + 3 <? 4294967296) && (nlen idx <? 65536)
                     | _ => true
                     end) (si_nodes img).

(* ------------------------------------------------------------------ *)
(* a second toy metadata compressor for the tie (same function in props/C01/h_img.c): zero-run-length.
   A maximal run of k zero bytes (split at 255) becomes [0; k], every other byte is copied.  Unlike C03's
   toy_compress mode 1 it shrinks real inode / directory tables, so that compressed blocks of varying size
   occur and inode references are not multiples of 8194. *)
Fixpoint zrle_enc (l : list N) (z : N) : list N :=
  match l with
  | [] => if z =? 0 then [] else [0; z]
  | x :: r =>
    if x =? 0 then (if z =? 255 then 0 :: 255 :: zrle_enc r 1 else zrle_enc r (z + 1))
    else if z =? 0 then x :: zrle_enc r 0 else 0 :: z :: x :: zrle_enc r 0
  end.

Definition zrle_compress (b : list N) : cres :=
  let c := zrle_enc b 0 in
  if lenN c <? lenN b then CData c else CStore.

Fixpoint zrle_dec (l : list N) : option (list N) :=
  match l with
  | [] => Some []
  | x :: r =>
    if x =? 0 then
      match r with
      | k :: r' => if k =? 0 then None else
                   match zrle_dec r' with Some d => Some (repeat 0 (N.to_nat k) ++ d) | None => None end
      | [] => None
      end
    else match zrle_dec r with Some d => Some (x :: d) | None => None end
  end.

(* modes 0, 1, 2 = C03's toy compressor, mode 3 = zrle *)
Definition img_compress (mode : N) (b : list N) : cres :=
  if mode =? 3 then zrle_compress b else toy_compress mode b.
Definition img_uncompress (mode : N) (c : list N) : option (list N) :=
  if mode =? 3 then zrle_dec c else toy_uncompress c.
