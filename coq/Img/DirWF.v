(* Img — C03: every listing sqfs_serialize_fstree writes obeys the run invariants of the directory writer
   theorems, lies where the directory inode says, is sorted, and every entry points at the inode of the node it
   names (reference, inode number, type). *)
From Coq Require Import List NArith ZArith Lia Bool ZifyBool ZifyNat ZifyN.
From SqfsV Require Import Base.Bytes Gen.Constants C03.Common C03.ListN C03.MetaModel C03.MetaProofs C03.MetaRT
  C03.DirModel C03.DirProofs C03.DirRT C03.DirEnd.
From SqfsV Require Import C01.GenC01 C01.Res C01.InodeModel C01.InodeProofs.
From SqfsV Require Import Img.TreeModel Img.MetaLemmas Img.InodeLemmas Img.SerDefs Img.SerDir Img.SerProofs
  Img.Final Img.Domain Img.ReadProofs Img.TreeRT.
Import ListNotations.
Local Open Scope N_scope.

Lemma serialize_base limit tbl n tbl' i :
  serialize limit tbl n = Ok (tbl', i) -> ib_mode (i_base i) = tn_mode n /\ ib_ino (i_base i) = tn_ino n.
Proof.
  unfold serialize.
  destruct (id_to_index limit tbl (tn_uid n)) as [[t1 ui]| | |]; try discriminate. cbn [bind].
  destruct (id_to_index limit t1 (tn_gid n)) as [[t2 gi]| | |]; try discriminate. cbn [bind].
  intro H. injection H as <- <-. split; reflexivity.
Qed.

Section WF.
  Variable compress : list N -> cres.
  Variable uncompress : list N -> option (list N).
  Hypothesis compress_ok :
    forall b c, compress b = CData c -> lenN c <= lenN b /\ uncompress c = Some b.
  Variable limit : N.
  Hypothesis limit_ok : limit <= 65536.
  Variable bs : N.
  Variable t : fstree.
  Variable img : simg.
  Hypothesis Hrep : representable bs t = true.
  Hypothesis Hser : serialize_fstree compress limit t = Ok img.
  Hypothesis Hfit : trace_fits img = true.

  Notation inode_at := (inode_at uncompress bs (si_itbl img)).

  (* what an entry promises about the node it names *)
  Definition entry_points_at (e : list N * N) (d : dent) : Prop :=
    de_name d = fst e /\ de_num d = snd e /\
    exists i', nth_error (si_inodes img) (N.to_nat (snd e - 1)) = Some i' /\
      inode_at (de_ref d) = Some (clear_slack i') /\
      ib_ino (i_base i') = de_num d /\ get_type (ib_mode (i_base i')) = Some (de_type d).

  Theorem dirs_wellformed_l : forall j n par ch i,
    nth_error t j = Some n -> fn_payload n = PDir par ch -> nth_error (si_inodes img) j = Some i ->
    exists sb off s ents,
      dir_loc (i_body i) = Some (sb, off, s + 3) /\
      meta_read uncompress (length (si_dtbl img)) (si_dtbl img) sb off s = Some (listing off ents) /\
      lenN (listing off ents) = s /\
      (let hs := hdrs_of (length ents) off 0 ents in
       parse_listing (length ents) 0 (listing off ents) = Some (map mk_rhdr hs) /\
       concat (map snd hs) = ents /\ Forall (fun h => run_ok (snd h)) hs) /\
      sorted_names (map de_name ents) = true /\
      Forall2 entry_points_at ch ents.
  Proof.
    intros j n par ch i Hn Hp Hi.
    destruct (serialize_final compress uncompress compress_ok limit t img (repr_children_before bs t Hrep) Hser)
      as (a & im & dm & FIN).
    assert (Hj : (j < length t)%nat) by (apply nth_error_Some; congruence).
    destruct (node_run_of compress uncompress compress_ok limit limit_ok bs t img Hrep Hfit a im dm j FIN Hj)
      as (n0 & tn & i0 & b & r & NR).
    pose proof NR as [N1 N2 N3 N4 N5 N6 N7 N8 N9 N10 N11 N12 N13 N14].
    rewrite Hn in N1. injection N1 as <-. rewrite Hi in N3. injection N3 as <-.
    destruct (dir_bytes compress uncompress compress_ok limit limit_ok bs t img Hrep Hfit a im dm j n tn i b r par ch FIN NR Hp)
      as (ents & sb & off & s & DL & Hok & R & MR & LS).
    exists sb, off, s, ents. rewrite N14.
    split; [exact DL|]. split; [exact MR|]. split; [exact LS|].
    destruct (dir_listing_rt_l off ents Hok) as (A & B & C & _). cbv zeta in A, B, C.
    split; [cbv zeta; auto|].
    assert (Hnames : map de_name ents = map fst ch).
    { clear - R. induction R as [|e d ch0 ents0 Hed _ IH]; [reflexivity|]. cbn [map]. destruct Hed as [-> _].
      rewrite IH. reflexivity. }
    split.
    { rewrite Hnames. destruct N11 as [_ _ _ _ _ _ P]. rewrite Hp in P. cbn [payload_okb] in P.
      rewrite !andb_true_iff in P. tauto. }
    clear - R FIN compress_ok limit_ok Hrep Hfit.
    induction R as [|e d ch0 ents0 Hed _ IH]; constructor; [|exact IH].
    destruct Hed as (E1 & E2 & E3 & tgt & G & Ty).
    unfold entry_points_at. split; [exact E1|]. split; [exact E2|].
    set (jc := N.to_nat (snd e - 1)).
    apply get_nth in G. destruct G as [G1 G2]. fold jc in G2.
    assert (Hjc : (jc < length t)%nat) by (apply nth_error_Some; congruence).
    destruct (node_run_of compress uncompress compress_ok limit limit_ok bs t img Hrep Hfit a im dm jc FIN Hjc)
      as (n' & tn' & i' & b' & r' & NR').
    pose proof (resolve_node compress uncompress compress_ok limit limit_ok bs t img Hrep a im dm jc n' tn' i' b' r' FIN NR') as RES.
    destruct NR'. rewrite G2 in nr_n. injection nr_n as <-.
    exists i'. split; [exact nr_i|].
    assert (Hc : snd e = N.of_nat jc + 1) by (unfold jc; lia).
    split; [rewrite E3, Hc, (ref_of_index _ _ _ nr_r); exact RES|].
    destruct nr_ser as (tbl & tbl' & more & S1 & _ & _).
    destruct (serialize_base _ _ _ _ _ S1) as [B1 B2].
    rewrite B1, B2, nr_node. cbn [tn_mode tn_ino]. split; [lia|exact Ty].
  Qed.
End WF.
