(* ImgPost — non-vacuity: a concrete sequence of fstree_add_generic calls with implicit directories (d, d/sub created
   by the first add, d made explicit later: fill branch with the unclamped mtime 2^32 + 5 -> 5), adds in
   child-before-parent order, a hard link chain defined before its target (a -> d/l2 -> "./d//sub/f"), a second link
   to the same file (z), a link to a device (B -> dev) and a link that makes reorder_hard_links move its target
   (d/sub/k -> s: s is numbered after d/sub by alloc_inode_num_dfs), a symlink with a negative mtime.  The input bounds
   hold, fstree_post_process succeeds, the result is representable, serializes, and reads back path by path. *)
From Coq Require Import List NArith ZArith Bool.
From SqfsV Require Import Gen.Constants C03.Common C03.MetaModel C03.DirModel.
From SqfsV Require Import C01.GenC01 C01.Res C01.InodeModel Img.TreeModel.
From SqfsV Require Import C11.StrOrder C11.FstreeModel C11.PostModel.
From SqfsV Require Import ImgPost.Bridge ImgPost.InputOk ImgPost.PathsModel ImgPost.PathsProofs.
Import ListNotations.
Local Open Scope N_scope.

Definition n_d : name := [100].
Definition n_sub : name := [115; 117; 98].
Definition n_f : name := [102].
Definition n_a : name := [97].
Definition n_l2 : name := [108; 50].
Definition n_z : name := [122].
Definition n_s : name := [115].
Definition n_dev : name := [100; 101; 118].
Definition n_B : name := [66].
Definition n_p : name := [112].
Definition n_k : name := [107].

Definition exp_defaults : fsdefaults := mkDefaults 0 0 1600000000 493.

Definition exp_ops : list op :=
  [ (mkEnt [n_d; n_sub; n_f] FReg 420 1000 100 1600000000%Z 0 false, None);
    (mkEnt [n_a] FLnk 0 0 0 0%Z 0 true, Some [100; 47; 108; 50]);                                 (* a -> "d/l2" *)
    (mkEnt [n_d] FDir 448 1 2 4294967301%Z 0 false, None);
    (mkEnt [n_d; n_l2] FLnk 0 0 0 0%Z 0 true, Some [46; 47; 100; 47; 47; 115; 117; 98; 47; 102]);  (* -> "./d//sub/f" *)
    (mkEnt [n_z] FLnk 0 0 0 0%Z 0 true, Some [100; 47; 115; 117; 98; 47; 102]);                   (* z -> "d/sub/f" *)
    (mkEnt [n_s] FLnk 0 5 6 (-7)%Z 0 false, Some [116; 103; 116]);                                (* s -> tgt (symlink) *)
    (mkEnt [n_dev] FChr 384 0 0 1%Z 259 false, None);
    (mkEnt [n_B] FLnk 0 0 0 0%Z 0 true, Some [100; 101; 118]);                                    (* B -> "dev" *)
    (mkEnt [n_d; n_sub; n_p] FFifo 420 0 0 2%Z 0 false, None);
    (mkEnt [n_d; n_sub; n_k] FLnk 0 0 0 0%Z 0 true, Some [115]) ].                                (* d/sub/k -> "s" *)

Definition exp_fb (p : path) : ibody :=
  if path_eqb p [n_d; n_sub; n_f] then BFile 96 NOX NOX 5000 [4096; 904] else BFile 0 NOX NOX 0 [].
Definition exp_xa (p : path) : N := if path_eqb p [n_dev] then 7 else NOX.

Definition exp_pp : option ppout := pack_tree exp_defaults exp_ops.

(* the hypotheses of post_tree_representable hold, reorder_hard_links really moved a node, the implicit directory d
   carries the attributes of the explicit add, and the conclusion computes *)
Example ex_pack_representable :
  input_okb 4096 exp_defaults exp_ops = true /\
  match exp_pp with
  | Some pp =>
      attached_okb 4096 exp_fb exp_xa pp = true /\
      representable 4096 (to_img exp_fb exp_xa pp) = true /\
      pp_inodes pp = [[n_d; n_sub; n_f]; [n_d; n_sub; n_p]; [n_s]; [n_d; n_sub]; [n_d]; [n_dev]; []] /\
      alloc_list [] (pp_root pp) = [[n_d; n_sub; n_f]; [n_d; n_sub; n_p]; [n_d; n_sub]; [n_d]; [n_dev]; [n_s]] /\
      map (fun n => (fn_mode n, fn_uid n, fn_mtime n, fn_nlink n)) (to_img exp_fb exp_xa pp) =
        [(33188, 1000, 1600000000, 4); (4516, 0, 2, 1); (41471, 5, 0, 2); (16877, 0, 1600000000, 5);
         (16832, 1, 5, 4); (8576, 0, 1, 2); (16877, 0, 1600000000, 8)]
  | None => False
  end.
Proof. vm_compute. repeat split; reflexivity. Qed.

Definition exp_read : option (bool * ltree * ppout) :=
  match exp_pp with
  | Some pp =>
      match serialize_fstree (img_compress 3) c_id_table_limit (to_img exp_fb exp_xa pp) with
      | Ok img =>
          match read_tree (img_uncompress 3) 4096 (si_itbl img) (si_dtbl img) (si_ids img)
                          (length (pp_inodes pp)) (si_root img) with
          | Some lt => Some (trace_fits img, lt, pp)
          | None => None
          end
      | _ => None
      end
  | None => None
  end.

(* the run fits, the tables read back, and the flattening of what was read is the flattening of the packed tree:
   every path with its inode number (hard link groups {d/sub/f, a, d/l2, z}, {dev, B}, {s, d/sub/k}), and the view of
   d/l2 (a link to a link) is the view of the regular file *)
Example ex_pack_paths_roundtrip :
  match exp_read with
  | Some (fits, lt, pp) =>
      fits = true /\
      flat_lt [] lt = map (number (pp_inodes pp))
                          (flat_pp exp_fb exp_xa (pp_root pp) (pp_inodes pp) [] (pp_root pp)) /\
      map (fun x => (fst (fst x), snd x)) (flat_lt [] lt) =
        [([], 7); ([n_B], 6); ([n_a], 1); ([n_d], 5); ([n_d; n_l2], 1); ([n_d; n_sub], 4); ([n_d; n_sub; n_f], 1);
         ([n_d; n_sub; n_k], 3); ([n_d; n_sub; n_p], 2); ([n_dev], 6); ([n_s], 3); ([n_z], 1)] /\
      group_of N.eqb (flat_lt [] lt) 1 = [[n_a]; [n_d; n_l2]; [n_d; n_sub; n_f]; [n_z]] /\
      map (fun x => snd (fst x)) (filter (fun x => path_eqb (fst (fst x)) [n_d; n_l2]) (flat_lt [] lt)) =
        [mkPv 33188 (Some 1000) (Some 100) 1600000000 NOX (LFile 96 5000 0 NOX NOX [4096; 904])]
  | None => False
  end.
Proof. vm_compute. repeat split; reflexivity. Qed.
