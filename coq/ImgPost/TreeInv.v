(* ImgPost — invariants of the tree built by fstree_add_generic (C11 model [fs_add]): children strictly sorted
   (hence distinct), names / attributes inside the input bounds, link counts, size, and the links_unresolved list
   holds every hard link node. *)
From Coq Require Import List NArith ZArith Bool Lia Sorted ZifyBool ZifyNat ZifyN.
From SqfsV Require Import C01.Res C01.InodeModel C01.InodeProofs Img.TreeModel.
From SqfsV Require Import C11.StrOrder C11.FstreeModel C11.PostModel C11.OrderProofs C11.CanonProofs C11.TreeProofs
  C11.PostProofs.
From SqfsV Require Import ImgPost.Bridge ImgPost.InputOk.
Import ListNotations.
Local Open Scope N_scope.

(* ------------------------------------------------------------------ sorted names *)

Definition names_sorted (l : list tnode) : Prop := StronglySorted str_lt (map node_name l).

Lemma find_child_none_notin : forall nm l, find_child nm l = None -> ~ In nm (map node_name l).
Proof.
  induction l as [|c r IH]; simpl; intros H; [tauto|].
  destruct (str_eqb (node_name c) nm) eqn:E; [discriminate|].
  apply str_eqb_neq in E. intros [H1|H1]; [congruence|]. exact (IH H H1).
Qed.

Lemma find_child_in : forall nm l x, find_child nm l = Some x -> In x l.
Proof.
  induction l as [|c r IH]; simpl; intros x H; [discriminate|].
  destruct (str_eqb (node_name c) nm); [inversion H; auto|right; auto].
Qed.

Lemma insert_sorted_names : forall x l,
  names_sorted l -> ~ In (node_name x) (map node_name l) -> names_sorted (insert_sorted x l).
Proof.
  unfold names_sorted. induction l as [|c r IH]; simpl; intros Hs Hn.
  - constructor; constructor.
  - inversion Hs as [|? ? Hr Hc]; subst.
    destruct (str_ltb (node_name c) (node_name x)) eqn:E; simpl.
    + constructor; [apply IH; tauto|].
      apply str_ltb_lt in E. clear - Hc E. induction r as [|d r IHr]; simpl.
      * constructor; [exact E|constructor].
      * inversion Hc; subst. destruct (str_ltb (node_name d) (node_name x)); simpl.
        -- constructor; auto.
        -- constructor; [exact E|]. constructor; auto.
    + apply str_ltb_false in E. destruct E as [E|E]; [exfalso; apply Hn; left; exact E|].
      constructor; [exact Hs|]. constructor; [exact E|].
      eapply Forall_impl; [|exact Hc]. intros y Hy. eapply str_lt_trans; eauto.
Qed.

Lemma replace_child_names : forall nm new l,
  node_name new = nm -> map node_name (replace_child nm new l) = map node_name l.
Proof.
  induction l as [|c r IH]; simpl; intros Hn; auto.
  destruct (str_eqb (node_name c) nm) eqn:E; simpl.
  - apply str_eqb_eq in E. congruence.
  - rewrite IH; auto.
Qed.

Lemma replace_child_length : forall nm new l, length (replace_child nm new l) = length l.
Proof. induction l as [|c r IH]; simpl; auto. destruct (str_eqb (node_name c) nm); simpl; auto. Qed.

Lemma insert_sorted_length : forall x l, length (insert_sorted x l) = S (length l).
Proof. induction l as [|c r IH]; simpl; auto. destruct (str_ltb (node_name c) (node_name x)); simpl; auto. Qed.

Lemma insert_sorted_Forall (P : tnode -> Prop) : forall x l, P x -> Forall P l -> Forall P (insert_sorted x l).
Proof.
  induction l as [|c r IH]; simpl; intros Hx Hl; [constructor; auto|].
  inversion Hl; subst. destruct (str_ltb (node_name c) (node_name x)); constructor; auto.
Qed.

Lemma replace_child_Forall (P : tnode -> Prop) : forall nm new l, P new -> Forall P l -> Forall P (replace_child nm new l).
Proof.
  induction l as [|c r IH]; simpl; intros Hx Hl; [constructor|].
  inversion Hl; subst. destruct (str_eqb (node_name c) nm); constructor; auto.
Qed.

Lemma sorted_names_nodup : forall l, names_sorted l -> NoDup (map node_name l).
Proof.
  unfold names_sorted. intros l. induction (map node_name l) as [|a r IH]; intros H; [constructor|].
  inversion H as [|? ? Hr Ha]; subst. constructor; [|auto].
  intros Hin. rewrite Forall_forall in Ha. exact (str_lt_irrefl a (Ha a Hin)).
Qed.

(* ------------------------------------------------------------------ well-formed trees *)

Definition attr_okb (a : tattr) : bool :=
  (a_perm a <? 4096) && (a_uid a <? U32) && (a_gid a <? U32) && (a_mtime a <? U32) && (a_devno a <? U32) &&
  bytesb (a_target a) && (nlen (a_target a) <? U32).

(* link_count as mknode / parent->link_count++ leave it *)
Definition links_ok (a : tattr) (ch : list tnode) : Prop :=
  if ftype_eqb (a_type a) FDir then a_links a = 2 + N.of_nat (length ch) else a_links a = 1 /\ ch = [].

Inductive wf : tnode -> Prop :=
| wf_node nm a ch :
    attr_okb a = true -> links_ok a ch ->
    Forall (fun c => name_okb (node_name c) = true) ch ->
    names_sorted ch ->
    Forall wf ch ->
    wf (TNode nm a ch).

Lemma wf_inv nm a ch : wf (TNode nm a ch) ->
  attr_okb a = true /\ links_ok a ch /\ Forall (fun c => name_okb (node_name c) = true) ch /\
  names_sorted ch /\ Forall wf ch.
Proof. intro H. inversion H; subst. tauto. Qed.

Lemma clamp_ts_u32 t : clamp_ts t < U32.
Proof. unfold clamp_ts, U32. destruct (t <? 0)%Z eqn:A; [lia|]. destruct (t >? 4294967295)%Z eqn:B; lia. Qed.

Lemma trunc_u32_u32 t : trunc_u32 t < U32.
Proof.
  unfold trunc_u32, U32. pose proof (Z.mod_pos_bound t 4294967296 ltac:(lia)). lia.
Qed.

Lemma attr_okb_intro a :
  a_perm a < 4096 -> a_uid a < U32 -> a_gid a < U32 -> a_mtime a < U32 -> a_devno a < U32 ->
  bytesb (a_target a) = true -> nlen (a_target a) < U32 -> attr_okb a = true.
Proof.
  intros. unfold attr_okb. rewrite !andb_true_iff, !N.ltb_lt. tauto.
Qed.

Lemma attr_okb_elim a : attr_okb a = true ->
  a_perm a < 4096 /\ a_uid a < U32 /\ a_gid a < U32 /\ a_mtime a < U32 /\ a_devno a < U32 /\
  bytesb (a_target a) = true /\ nlen (a_target a) < U32.
Proof. unfold attr_okb. rewrite !andb_true_iff, !N.ltb_lt. tauto. Qed.

Lemma defaults_ok_init d : defaults_okb d = true -> wf (fs_root (fs_init d)).
Proof.
  unfold defaults_okb. rewrite !andb_true_iff, !N.ltb_lt. intros [[[A B] C] D].
  unfold fs_init. cbn [fs_root]. constructor.
  - apply attr_okb_intro; cbn [a_perm a_uid a_gid a_mtime a_devno a_target]; auto; try reflexivity.
  - unfold links_ok. cbn. reflexivity.
  - constructor.
  - constructor.
  - constructor.
Qed.

Lemma implicit_dir_wf d nm : defaults_okb d = true -> wf (implicit_dir d nm).
Proof.
  unfold defaults_okb. rewrite !andb_true_iff, !N.ltb_lt. intros [[[A B] C] D].
  unfold implicit_dir. constructor.
  - apply attr_okb_intro; cbn [a_perm a_uid a_gid a_mtime a_devno a_target]; auto; try reflexivity.
  - unfold links_ok. cbn. reflexivity.
  - constructor.
  - constructor.
  - constructor.
Qed.

Lemma ftype_eqb_eq a b : ftype_eqb a b = true <-> a = b.
Proof. destruct a, b; simpl; split; intro H; congruence. Qed.

Lemma mknode_wf nm e x n : op_okb (e, x) = true -> mknode nm e x = Some n -> wf n /\ node_name n = nm.
Proof.
  unfold op_okb. rewrite !andb_true_iff, !N.ltb_lt. intros [[[[A B] C] _] D]. unfold mknode.
  destruct (if e_hard e then match x with Some x0 => canon_comps x0 | None => None end else Some []) as [hp|]; [|discriminate].
  intro H. injection H as <-. split; [|reflexivity].
  constructor; [| |constructor|constructor|constructor].
  - pose proof (clamp_ts_u32 (e_mtime e)) as T.
    apply attr_okb_intro; cbn [a_perm a_uid a_gid a_mtime a_devno a_target]; auto.
    + destruct (e_hard e); [reflexivity|]. destruct (e_type e); cbn; try exact A; reflexivity.
    + destruct (e_hard e); [reflexivity|]. destruct (e_type e); cbn; try reflexivity; apply N.ltb_lt; exact D.
    + destruct (e_hard e); [reflexivity|]. destruct (e_type e); cbn; try reflexivity.
      destruct x as [t|]; [|reflexivity]. apply andb_true_iff in D. tauto.
    + destruct (e_hard e); [reflexivity|]. destruct (e_type e); cbn; try reflexivity.
      destruct x as [t|]; [|reflexivity]. apply andb_true_iff in D. destruct D as [_ D]. apply N.ltb_lt. exact D.
  - unfold links_ok. cbn [a_type a_links].
    destruct (ftype_eqb (if e_hard e then FLnk else e_type e) FDir); [reflexivity|split; reflexivity].
Qed.

Lemma fill_dir_wf c e x c' : op_okb (e, x) = true -> wf c -> fill_dir c e = Some c' ->
  wf c' /\ node_name c' = node_name c /\ is_dir c' = true /\ node_children c' = node_children c.
Proof.
  unfold op_okb. rewrite !andb_true_iff, !N.ltb_lt. intros [[[[A B] C] _] _] W.
  destruct c as [nm a ch]. unfold fill_dir.
  destruct (ftype_eqb (a_type a) FDir && ftype_eqb (e_type e) FDir && a_implicit a) eqn:G; [|discriminate].
  intro H. injection H as <-.
  rewrite !andb_true_iff in G. destruct G as [[G1 _] _].
  destruct (wf_inv _ _ _ W) as (W1 & W2 & W3 & W4 & W5).
  split; [|split; [reflexivity|split; reflexivity]].
  constructor; auto.
  - destruct (attr_okb_elim _ W1) as (P1 & P2 & P3 & P4 & P5 & P6 & P7).
    apply attr_okb_intro; cbn [a_perm a_uid a_gid a_mtime a_devno a_target]; auto. apply trunc_u32_u32.
  - unfold links_ok in *. cbn [a_type a_links]. rewrite G1 in W2. exact W2.
Qed.

(* the children of a well-formed directory after one more child *)
Lemma wf_insert nm a ch x :
  wf (TNode nm a ch) -> ftype_eqb (a_type a) FDir = true ->
  wf x -> name_okb (node_name x) = true -> find_child (node_name x) ch = None ->
  wf (TNode nm (inc_links a) (insert_sorted x ch)).
Proof.
  intros W D Wx Nx F. destruct (wf_inv _ _ _ W) as (W1 & W2 & W3 & W4 & W5).
  constructor.
  - exact W1.
  - unfold links_ok in *. cbn [inc_links a_type a_links]. rewrite D in *. rewrite insert_sorted_length. lia.
  - apply insert_sorted_Forall; auto.
  - apply insert_sorted_names; auto. apply find_child_none_notin. exact F.
  - apply insert_sorted_Forall; auto.
Qed.

Lemma wf_replace nm a ch c x x' :
  wf (TNode nm a ch) -> find_child c ch = Some x -> wf x' -> node_name x' = node_name x ->
  wf (TNode nm a (replace_child c x' ch)).
Proof.
  intros W F Wx Nx. destruct (wf_inv _ _ _ W) as (W1 & W2 & W3 & W4 & W5).
  pose proof (find_child_name _ _ _ F) as Hc.
  constructor.
  - exact W1.
  - unfold links_ok in *. rewrite replace_child_length.
    destruct (ftype_eqb (a_type a) FDir); [exact W2|]. destruct W2 as [_ ->]. discriminate.
  - apply replace_child_Forall; auto. rewrite Nx.
    rewrite Forall_forall in W3. apply W3. eapply find_child_in; eauto.
  - unfold names_sorted. rewrite replace_child_names by congruence. exact W4.
  - apply replace_child_Forall; auto.
Qed.

Lemma add_path_wf d : forall comps e x n n',
  defaults_okb d = true -> op_okb (e, x) = true -> forallb name_okb comps = true ->
  wf n -> add_path d comps e x n = Some n' -> wf n' /\ node_name n' = node_name n.
Proof.
  induction comps as [|c rest IH]; intros e x n n' Hd He Hc W H; destruct n as [nm a ch]; cbn [add_path] in H.
  - destruct (negb (ftype_eqb (a_type a) FDir)); discriminate.
  - destruct (negb (ftype_eqb (a_type a) FDir)) eqn:D; [discriminate|]. apply negb_false_iff in D.
    cbn [forallb] in Hc. apply andb_true_iff in Hc. destruct Hc as [Hc1 Hc2].
    destruct (wf_inv _ _ _ W) as (W1 & W2 & W3 & W4 & W5).
    destruct rest as [|c2 rest'].
    + destruct (find_child c ch) as [y|] eqn:F.
      * destruct (fill_dir y e) as [y'|] eqn:FD; [|discriminate]. injection H as <-.
        assert (Wy : wf y) by (rewrite Forall_forall in W5; apply W5; eapply find_child_in; eauto).
        destruct (fill_dir_wf y e x y' He Wy FD) as (Wy' & Ny' & _).
        split; [|reflexivity]. eapply wf_replace; eauto.
      * destruct (mknode c e x) as [y|] eqn:MK; [|discriminate]. injection H as <-.
        destruct (mknode_wf c e x y He MK) as [Wy Ny].
        split; [|reflexivity]. apply wf_insert; auto; rewrite Ny; auto.
    + destruct (find_child c ch) as [y|] eqn:F.
      * destruct (add_path d (c2 :: rest') e x y) as [y'|] eqn:AP; [|discriminate]. injection H as <-.
        assert (Wy : wf y) by (rewrite Forall_forall in W5; apply W5; eapply find_child_in; eauto).
        destruct (IH e x y y' Hd He Hc2 Wy AP) as [Wy' Ny'].
        split; [|reflexivity]. eapply wf_replace; eauto.
      * destruct (add_path d (c2 :: rest') e x (implicit_dir d c)) as [y'|] eqn:AP; [|discriminate]. injection H as <-.
        destruct (IH e x _ y' Hd He Hc2 (implicit_dir_wf d c Hd) AP) as [Wy' Ny'].
        cbn [implicit_dir node_name] in Ny'.
        split; [|reflexivity]. apply wf_insert; auto; rewrite Ny'; auto.
Qed.

Lemma op_ok_path e x : op_okb (e, x) = true -> forallb name_okb (e_path e) = true.
Proof. unfold op_okb. rewrite !andb_true_iff. tauto. Qed.

Lemma fs_add_wf d fs e x fs' :
  defaults_okb d = true -> op_okb (e, x) = true -> wf (fs_root fs) -> fs_add d fs e x = Some fs' -> wf (fs_root fs').
Proof.
  intros Hd He W H. unfold fs_add in H.
  destruct (add_generic d (fs_root fs) e x) as [r|] eqn:A; [|discriminate]. injection H as <-. cbn [fs_root].
  unfold add_generic in A.
  destruct (ftype_eqb (e_type e) FLnk && match x with None => true | Some _ => false end); [discriminate|].
  destruct (e_path e) as [|c p] eqn:P.
  - eapply fill_dir_wf; eauto.
  - eapply add_path_wf; eauto. rewrite <- P. apply op_ok_path with x. exact He.
Qed.

(* ------------------------------------------------------------------ reachable trees *)

Lemma run_adds_wf d : forall ops fs fs',
  defaults_okb d = true -> forallb op_okb ops = true -> wf (fs_root fs) -> run_adds d fs ops = Some fs' ->
  wf (fs_root fs').
Proof.
  induction ops as [|[e x] r IH]; intros fs fs' Hd Ho W H; cbn [run_adds] in H.
  - injection H as <-. exact W.
  - cbn [forallb] in Ho. apply andb_true_iff in Ho. destruct Ho as [Ho1 Ho2].
    destruct (fs_add d fs e x) as [fs1|] eqn:A; [|discriminate].
    apply (IH fs1 fs' Hd Ho2); [eapply fs_add_wf; eauto|exact H].
Qed.

(* ------------------------------------------------------------------ size *)

Fixpoint sizes (l : list tnode) : nat :=
  match l with [] => O | c :: r => (tree_size c + sizes r)%nat end.

Lemma tree_size_eq nm a ch : tree_size (TNode nm a ch) = S (sizes ch).
Proof. reflexivity. Qed.

Lemma sizes_insert x l : sizes (insert_sorted x l) = (tree_size x + sizes l)%nat.
Proof.
  induction l as [|c r IH]; cbn [insert_sorted sizes]; [lia|].
  destruct (str_ltb (node_name c) (node_name x)); cbn [sizes]; lia.
Qed.

Lemma sizes_replace c x x' l : find_child c l = Some x ->
  (sizes (replace_child c x' l) + tree_size x = sizes l + tree_size x')%nat.
Proof.
  induction l as [|y r IH]; cbn [find_child replace_child sizes]; intros F; [discriminate|].
  destruct (str_eqb (node_name y) c).
  - injection F as <-. cbn [sizes]. lia.
  - cbn [sizes]. specialize (IH F). lia.
Qed.

Lemma sizes_length l : (length l <= sizes l)%nat.
Proof.
  induction l as [|c r IH]; simpl; [lia|]. destruct c as [nm a ch]. rewrite tree_size_eq. lia.
Qed.

Lemma fill_dir_size c e c' : fill_dir c e = Some c' -> tree_size c' = tree_size c.
Proof.
  destruct c as [nm a ch]. unfold fill_dir.
  destruct (ftype_eqb (a_type a) FDir && ftype_eqb (e_type e) FDir && a_implicit a); [|discriminate].
  intro H. injection H as <-. rewrite !tree_size_eq. reflexivity.
Qed.

Lemma mknode_size nm e x n : mknode nm e x = Some n -> tree_size n = 1%nat.
Proof.
  unfold mknode.
  destruct (if e_hard e then match x with Some x0 => canon_comps x0 | None => None end else Some []); [|discriminate].
  intro H. injection H as <-. reflexivity.
Qed.

Lemma add_path_size d : forall comps e x n n',
  add_path d comps e x n = Some n' -> (tree_size n' <= tree_size n + length comps)%nat.
Proof.
  induction comps as [|c rest IH]; intros e x n n' H; destruct n as [nm a ch]; cbn [add_path] in H.
  - destruct (negb (ftype_eqb (a_type a) FDir)); discriminate.
  - destruct (negb (ftype_eqb (a_type a) FDir)); [discriminate|].
    destruct rest as [|c2 rest'].
    + destruct (find_child c ch) as [y|] eqn:F.
      * destruct (fill_dir y e) as [y'|] eqn:FD; [|discriminate]. injection H as <-.
        rewrite !tree_size_eq. pose proof (sizes_replace c y y' ch F). rewrite (fill_dir_size _ _ _ FD) in H. simpl. lia.
      * destruct (mknode c e x) as [y|] eqn:MK; [|discriminate]. injection H as <-.
        rewrite !tree_size_eq, sizes_insert, (mknode_size _ _ _ _ MK). simpl. lia.
    + destruct (find_child c ch) as [y|] eqn:F.
      * destruct (add_path d (c2 :: rest') e x y) as [y'|] eqn:AP; [|discriminate]. injection H as <-.
        rewrite !tree_size_eq. pose proof (sizes_replace c y y' ch F). specialize (IH _ _ _ _ AP).
        cbn [length] in *. lia.
      * destruct (add_path d (c2 :: rest') e x (implicit_dir d c)) as [y'|] eqn:AP; [|discriminate]. injection H as <-.
        rewrite !tree_size_eq, sizes_insert. specialize (IH _ _ _ _ AP).
        change (tree_size (implicit_dir d c)) with 1%nat in IH. cbn [length] in *. lia.
Qed.

Lemma fs_add_size d fs e x fs' : fs_add d fs e x = Some fs' ->
  (tree_size (fs_root fs') <= tree_size (fs_root fs) + length (e_path e))%nat /\
  (length (fs_unres fs') <= S (length (fs_unres fs)))%nat.
Proof.
  unfold fs_add. destruct (add_generic d (fs_root fs) e x) as [r|] eqn:A; [|discriminate].
  intro H. injection H as <-. cbn [fs_root fs_unres]. split.
  - unfold add_generic in A.
    destruct (ftype_eqb (e_type e) FLnk && match x with None => true | Some _ => false end); [discriminate|].
    destruct (e_path e) as [|c p] eqn:P.
    + rewrite (fill_dir_size _ _ _ A). simpl. lia.
    + eapply add_path_size; eauto.
  - destruct (e_hard e && is_none (lookup_path (e_path e) (fs_root fs))); simpl; lia.
Qed.

Lemma run_adds_size d : forall ops fs fs', run_adds d fs ops = Some fs' ->
  (tree_size (fs_root fs') <= tree_size (fs_root fs) + ops_size ops)%nat /\
  (length (fs_unres fs') <= length (fs_unres fs) + length ops)%nat.
Proof.
  induction ops as [|[e x] r IH]; intros fs fs' H; cbn [run_adds] in H.
  - injection H as <-. simpl. lia.
  - destruct (fs_add d fs e x) as [fs1|] eqn:A; [|discriminate].
    destruct (fs_add_size _ _ _ _ _ A) as [S1 S2]. destruct (IH _ _ H) as [S3 S4].
    cbn [ops_size fold_right fst length] in *. fold (ops_size r). lia.
Qed.

(* ------------------------------------------------------------------ links_unresolved holds every hard link *)

Definition links_queued (root : tnode) (unres : list path) : Prop :=
  forall p nd, lookup_path p root = Some nd -> is_hardlink nd = true -> In p unres.

Lemma is_hardlink_not_dir n : is_hardlink n = true -> is_dir n = false.
Proof.
  unfold is_hardlink, is_dir. destruct (a_type (node_attr n)); simpl; intros H; try discriminate; reflexivity.
Qed.

Lemma lookup_cons c q nm a ch :
  lookup_path (c :: q) (TNode nm a ch) =
  if negb (ftype_eqb (a_type a) FDir) then None
  else match find_child c ch with Some x => lookup_path q x | None => None end.
Proof. reflexivity. Qed.

Lemma mknode_hard nm e x n : mknode nm e x = Some n -> is_hardlink n = e_hard e.
Proof.
  unfold mknode.
  destruct (if e_hard e then match x with Some x0 => canon_comps x0 | None => None end else Some []); [|discriminate].
  intro H. injection H as <-. unfold is_hardlink. cbn [node_attr a_type a_hard].
  destruct (e_hard e); [reflexivity|]. apply andb_false_r.
Qed.

(* where a hard link node of the tree after add_path comes from *)
Lemma add_path_links d : forall comps e x n n',
  add_path d comps e x n = Some n' ->
  forall q nd, lookup_path q n' = Some nd -> is_hardlink nd = true ->
    lookup_path q n = Some nd \/ (q = comps /\ e_hard e = true /\ lookup_path comps n = None).
Proof.
  induction comps as [|c rest IH]; intros e x n n' H q nd L Hh; destruct n as [nm a ch]; cbn [add_path] in H.
  - destruct (negb (ftype_eqb (a_type a) FDir)); discriminate.
  - destruct (negb (ftype_eqb (a_type a) FDir)) eqn:D; [discriminate|].
    assert (Root : forall a' ch', lookup_path [] (TNode nm a' ch') = Some nd -> a_type a' = a_type a -> False).
    { intros a' ch' E Ety. cbn in E. injection E as <-. unfold is_hardlink in Hh. cbn [node_attr] in Hh.
      apply negb_false_iff, ftype_eqb_eq in D. rewrite Ety, D in Hh. discriminate. }
    destruct rest as [|c2 rest'].
    + destruct (find_child c ch) as [y|] eqn:F.
      * destruct (fill_dir y e) as [y'|] eqn:FD; [|discriminate]. injection H as <-.
        destruct q as [|c' q']; [exfalso; eapply Root; eauto|].
        rewrite lookup_cons, D in L. left. rewrite lookup_cons, D.
        destruct (list_eq_dec N.eq_dec c' c) as [->|Ne].
        -- assert (Ny : node_name y' = c).
           { destruct y as [ynm ya ych]. unfold fill_dir in FD.
             destruct (ftype_eqb (a_type ya) FDir && ftype_eqb (e_type e) FDir && a_implicit ya); [|discriminate].
             injection FD as <-. cbn. exact (find_child_name _ _ _ F). }
           rewrite (find_child_replace_same c y' ch y F Ny) in L. rewrite F.
           (* y' is a directory with the children of y *)
           destruct y as [ynm ya ych]. unfold fill_dir in FD.
           destruct (ftype_eqb (a_type ya) FDir && ftype_eqb (e_type e) FDir && a_implicit ya) eqn:G; [|discriminate].
           injection FD as <-. rewrite !andb_true_iff in G. destruct G as [[G1 _] _].
           destruct q' as [|c3 q3].
           ++ cbn in L. injection L as <-. unfold is_hardlink in Hh. cbn in Hh. discriminate.
           ++ rewrite lookup_cons in L. rewrite lookup_cons. cbn [a_type] in L. rewrite G1 in *. exact L.
        -- rewrite (find_child_replace_other c' c y' ch Ne) in L; [exact L|].
           destruct y as [ynm ya ych]. unfold fill_dir in FD.
           destruct (ftype_eqb (a_type ya) FDir && ftype_eqb (e_type e) FDir && a_implicit ya); [|discriminate].
           injection FD as <-. cbn. exact (find_child_name _ _ _ F).
      * destruct (mknode c e x) as [y|] eqn:MK; [|discriminate]. injection H as <-.
        destruct q as [|c' q']; [exfalso; eapply Root; eauto|].
        rewrite lookup_cons in L. cbn [inc_links a_type] in L. rewrite D in L.
        assert (Ny : node_name y = c).
        { unfold mknode in MK.
          destruct (if e_hard e then match x with Some x0 => canon_comps x0 | None => None end else Some []); [|discriminate].
          injection MK as <-. reflexivity. }
        destruct (list_eq_dec N.eq_dec c' c) as [->|Ne].
        -- rewrite (find_child_insert_same c y ch Ny F) in L.
           destruct q' as [|c3 q3].
           ++ cbn in L. injection L as <-. right. split; [reflexivity|]. split.
              ** rewrite <- (mknode_hard _ _ _ _ MK). exact Hh.
              ** rewrite lookup_cons, D, F. reflexivity.
           ++ exfalso. (* y has no children and, being a new node of any type, lookup below it fails *)
              unfold mknode in MK.
              destruct (if e_hard e then match x with Some x0 => canon_comps x0 | None => None end else Some []); [|discriminate].
              injection MK as <-. rewrite lookup_cons in L. cbn [find_child] in L.
              match type of L with context [if ?b then _ else _] => destruct b end; discriminate.
        -- rewrite (find_child_insert_other c' y ch) in L by congruence.
           left. rewrite lookup_cons, D. exact L.
    + destruct (find_child c ch) as [y|] eqn:F.
      * destruct (add_path d (c2 :: rest') e x y) as [y'|] eqn:AP; [|discriminate]. injection H as <-.
        destruct q as [|c' q']; [exfalso; eapply Root; eauto|].
        rewrite lookup_cons, D in L. rewrite !lookup_cons, D, F.
        destruct (list_eq_dec N.eq_dec c' c) as [->|Ne].
        -- assert (Ny : node_name y' = c).
           { clear - AP F. destruct y as [ynm ya ych]. cbn [add_path] in AP.
             destruct (negb _); [discriminate|].
             pose proof (find_child_name _ _ _ F) as E. cbn in E.
             destruct rest'; destruct (find_child c2 ych);
               repeat match type of AP with
                      | match ?X with _ => _ end = _ => destruct X; try discriminate
                      end; injection AP as <-; exact E. }
           rewrite (find_child_replace_same c y' ch y F Ny) in L. rewrite F.
           destruct (IH e x y y' AP q' nd L Hh) as [K|(K1 & K2 & K3)].
           ++ left. exact K.
           ++ right. subst q'. auto.
        -- rewrite (find_child_replace_other c' c y' ch Ne) in L.
           ++ left. exact L.
           ++ clear - AP F. destruct y as [ynm ya ych]. cbn [add_path] in AP.
              destruct (negb _); [discriminate|].
              pose proof (find_child_name _ _ _ F) as E. cbn in E.
              destruct rest'; destruct (find_child c2 ych);
                repeat match type of AP with
                       | match ?X with _ => _ end = _ => destruct X; try discriminate
                       end; injection AP as <-; exact E.
      * destruct (add_path d (c2 :: rest') e x (implicit_dir d c)) as [y'|] eqn:AP; [|discriminate]. injection H as <-.
        destruct q as [|c' q']; [exfalso; eapply Root; eauto|].
        rewrite lookup_cons in L. cbn [inc_links a_type] in L. rewrite D in L. rewrite !lookup_cons, D, F.
        assert (Ny : node_name y' = c).
        { clear - AP. unfold implicit_dir in AP. cbn [add_path] in AP. cbn [negb ftype_eqb a_type] in AP.
          destruct rest'; cbn [find_child] in AP;
            repeat match type of AP with
                   | match ?X with _ => _ end = _ => destruct X; try discriminate
                   end; injection AP as <-; reflexivity. }
        destruct (list_eq_dec N.eq_dec c' c) as [->|Ne].
        -- rewrite (find_child_insert_same c y' ch Ny F) in L.
           destruct (IH e x _ y' AP q' nd L Hh) as [K|(K1 & K2 & K3)].
           ++ exfalso. (* nothing hangs below a fresh implicit directory *)
              destruct q' as [|c3 q3]; cbn in K; [|discriminate].
              injection K as <-. unfold is_hardlink in Hh. cbn in Hh. discriminate.
           ++ right. subst q'. auto.
        -- rewrite (find_child_insert_other c' y' ch) in L by congruence. left. exact L.
Qed.

Lemma fs_add_links_queued d fs e x fs' :
  links_queued (fs_root fs) (fs_unres fs) -> fs_add d fs e x = Some fs' -> links_queued (fs_root fs') (fs_unres fs').
Proof.
  intros Q H. unfold fs_add in H.
  destruct (add_generic d (fs_root fs) e x) as [r|] eqn:A; [|discriminate]. injection H as <-. cbn [fs_root fs_unres].
  unfold add_generic in A.
  destruct (ftype_eqb (e_type e) FLnk && match x with None => true | Some _ => false end); [discriminate|].
  intros p nd L Hh.
  assert (Old : lookup_path p (fs_root fs) = Some nd ->
                In p (if e_hard e && is_none (lookup_path (e_path e) (fs_root fs)) then e_path e :: fs_unres fs else fs_unres fs)).
  { intro K. specialize (Q p nd K Hh). destruct (e_hard e && is_none _); [right|]; exact Q. }
  destruct (e_path e) as [|c pth] eqn:P.
  - (* the root was filled in: same children, still a directory *)
    destruct (fs_root fs) as [nm a ch] eqn:R. unfold fill_dir in A.
    destruct (ftype_eqb (a_type a) FDir && ftype_eqb (e_type e) FDir && a_implicit a) eqn:G; [|discriminate].
    injection A as <-. rewrite !andb_true_iff in G. destruct G as [[G1 _] _].
    apply Old. destruct p as [|c' p'].
    + cbn in L. injection L as <-. unfold is_hardlink in Hh. cbn in Hh. discriminate.
    + rewrite lookup_cons in *. cbn [a_type] in L. rewrite G1 in *. exact L.
  - destruct (add_path_links d _ _ _ _ _ A p nd L Hh) as [K|(K1 & K2 & K3)].
    + apply Old. exact K.
    + rewrite K2, K3. cbn. left. symmetry. exact K1.
Qed.

Lemma init_links_queued d : links_queued (fs_root (fs_init d)) (fs_unres (fs_init d)).
Proof.
  intros p nd L Hh. unfold fs_init in L. cbn [fs_root] in L. destruct p as [|c q].
  - cbn in L. injection L as <-. unfold is_hardlink in Hh. cbn in Hh. discriminate.
  - cbn in L. discriminate.
Qed.

Lemma run_adds_links_queued d : forall ops fs fs',
  links_queued (fs_root fs) (fs_unres fs) -> run_adds d fs ops = Some fs' ->
  links_queued (fs_root fs') (fs_unres fs').
Proof.
  induction ops as [|[e x] r IH]; intros fs fs' Q H; cbn [run_adds] in H.
  - injection H as <-. exact Q.
  - destruct (fs_add d fs e x) as [fs1|] eqn:A; [|discriminate].
    eapply IH; [|exact H]. eapply fs_add_links_queued; eauto.
Qed.
