(* ImgPost — alloc_inode_num_dfs + map_inodes_dfs (C11 model [alloc_list]): the initial contents of fs->inodes.
   For a tree with distinct sibling names: no path occurs twice, every element names a node of the tree that is not
   a hard link, and every child that gets a number stands before its directory. *)
From Coq Require Import List NArith Bool Arith Lia Sorted Permutation.
From SqfsV Require Import C11.StrOrder C11.FstreeModel C11.PostModel C11.OrderProofs C11.TreeProofs C11.PostProofs.
From SqfsV Require Import ImgPost.Bridge ImgPost.InputOk ImgPost.TreeInv ImgPost.ResolveInv ImgPost.ListPos.
Import ListNotations.

Fixpoint subs_list (pp : path) (l : list tnode) : list path :=
  match l with
  | [] => []
  | c :: r => (if is_dir c then alloc_list (pp ++ [node_name c]) c else []) ++ subs_list pp r
  end.

Lemma alloc_list_eq pp nm a ch : alloc_list pp (TNode nm a ch) = subs_list pp ch ++ own_children pp ch.
Proof.
  cbn [alloc_list]. f_equal. induction ch as [|c r IH]; [reflexivity|].
  cbn [subs_list]. rewrite <- IH. reflexivity.
Qed.

Lemma alloc_list_children pp n : alloc_list pp n = subs_list pp (node_children n) ++ own_children pp (node_children n).
Proof. destruct n. apply alloc_list_eq. Qed.

(* ---- the form of the elements ---- *)

Lemma own_children_in pp ch x :
  In x (own_children pp ch) <-> exists c, In c ch /\ is_hardlink c = false /\ x = pp ++ [node_name c].
Proof.
  unfold own_children. rewrite in_map_iff. split.
  - intros (c & <- & Hc). apply filter_In in Hc. destruct Hc as [H1 H2]. apply negb_true_iff in H2. eauto.
  - intros (c & H1 & H2 & ->). exists c. split; [reflexivity|]. apply filter_In. rewrite H2. auto.
Qed.

Lemma subs_list_in pp ch x :
  In x (subs_list pp ch) <-> exists c, In c ch /\ is_dir c = true /\ In x (alloc_list (pp ++ [node_name c]) c).
Proof.
  induction ch as [|c r IH]; cbn [subs_list].
  - split; [intros []|]. intros (c & [] & _).
  - rewrite in_app_iff, IH. split.
    + intros [H|(c' & H1 & H2 & H3)].
      * destruct (is_dir c) eqn:D; [|destruct H]. exists c. simpl. auto.
      * exists c'. simpl. auto.
    + intros (c' & [->|H1] & H2 & H3).
      * left. rewrite H2. exact H3.
      * right. eauto.
Qed.

Lemma alloc_prefix : forall n pp x, In x (alloc_list pp n) -> exists q, q <> [] /\ x = pp ++ q.
Proof.
  induction n as [nm a ch IH] using tnode_ind'. intros pp x H. rewrite alloc_list_eq in H.
  apply in_app_or in H. destruct H as [H|H].
  - apply subs_list_in in H. destruct H as (c & Hc & _ & Hx).
    rewrite Forall_forall in IH. destruct (IH c Hc _ _ Hx) as (q & Hq & ->).
    exists (node_name c :: q). split; [discriminate|]. rewrite <- app_assoc. reflexivity.
  - apply own_children_in in H. destruct H as (c & _ & _ & ->). exists [node_name c]. split; [discriminate|reflexivity].
Qed.

(* every element names a node that is not a hard link *)
Lemma alloc_nodes : forall n pp x, snames n -> is_dir n = true -> In x (alloc_list pp n) ->
  exists q nd, q <> [] /\ x = pp ++ q /\ lookup_path q n = Some nd /\ is_hardlink nd = false.
Proof.
  induction n as [nm a ch IH] using tnode_ind'. intros pp x S D H. rewrite alloc_list_eq in H.
  destruct (snames_inv _ _ _ S) as [S1 S2]. pose proof (sorted_names_nodup _ S1) as ND.
  assert (Dn : negb (ftype_eqb (a_type a) FDir) = false) by (unfold is_dir in D; cbn in D; rewrite D; reflexivity).
  apply in_app_or in H. destruct H as [H|H].
  - apply subs_list_in in H. destruct H as (c & Hc & Dc & Hx).
    rewrite Forall_forall in IH, S2.
    destruct (IH c Hc _ _ (S2 c Hc) Dc Hx) as (q & nd & Hq & -> & L & Hh).
    exists (node_name c :: q), nd. split; [discriminate|]. split; [rewrite <- app_assoc; reflexivity|].
    split; [|exact Hh]. rewrite lookup_cons, Dn, (find_child_of_in ch c ND Hc). exact L.
  - apply own_children_in in H. destruct H as (c & Hc & Hh & ->).
    exists [node_name c], c. split; [discriminate|]. split; [reflexivity|]. split; [|exact Hh].
    rewrite lookup_cons, Dn, (find_child_of_in ch c ND Hc). reflexivity.
Qed.

(* ---- no duplicates ---- *)

Lemma NoDup_app_intro {A} (l1 l2 : list A) :
  NoDup l1 -> NoDup l2 -> (forall x, In x l1 -> In x l2 -> False) -> NoDup (l1 ++ l2).
Proof.
  induction l1 as [|a r IH]; simpl; intros H1 H2 D; [exact H2|].
  inversion H1; subst. constructor.
  - intro Hin. apply in_app_or in Hin. destruct Hin as [Hin|Hin]; [contradiction|]. eapply D; eauto.
  - apply IH; auto. intros x Hx. apply D. right. exact Hx.
Qed.

Lemma own_children_nodup pp ch : NoDup (map node_name ch) -> NoDup (own_children pp ch).
Proof.
  unfold own_children. induction ch as [|c r IH]; simpl; intros H; [constructor|].
  inversion H as [|? ? Hc Hr]; subst.
  destruct (negb (is_hardlink c)); simpl; [|auto]. constructor; [|auto].
  intro Hin. apply in_map_iff in Hin. destruct Hin as (c' & E & Hc'). apply filter_In in Hc'. destruct Hc' as [Hc' _].
  apply app_inv_head in E. injection E as E. apply Hc. rewrite <- E. apply in_map. exact Hc'.
Qed.

Lemma alloc_nodup : forall n pp, snames n -> NoDup (alloc_list pp n).
Proof.
  induction n as [nm a ch IH] using tnode_ind'. intros pp S. rewrite alloc_list_eq.
  destruct (snames_inv _ _ _ S) as [S1 S2]. pose proof (sorted_names_nodup _ S1) as ND.
  apply NoDup_app_intro.
  - (* the sub directories *)
    clear S S1. induction ch as [|c r IHr]; cbn [subs_list]; [constructor|].
    inversion IH as [|? ? IHc IHr']; subst. inversion S2 as [|? ? Sc Sr]; subst.
    inversion ND as [|? ? Nc Nr]; subst.
    apply NoDup_app_intro; [destruct (is_dir c); [apply IHc; exact Sc|constructor]|apply IHr; auto|].
    intros x H1 H2. destruct (is_dir c); [|destruct H1].
    destruct (alloc_prefix _ _ _ H1) as (q1 & _ & E1).
    apply subs_list_in in H2. destruct H2 as (c' & Hc' & _ & H2).
    destruct (alloc_prefix _ _ _ H2) as (q2 & _ & E2). subst x.
    rewrite <- !app_assoc in E2. apply app_inv_head in E2. injection E2 as E2 _.
    apply Nc. rewrite E2. apply in_map. exact Hc'.
  - apply own_children_nodup. exact ND.
  - intros x H1 H2. apply subs_list_in in H1. destruct H1 as (c & _ & _ & H1).
    destruct (alloc_prefix _ _ _ H1) as (q & Hq & E).
    apply own_children_in in H2. destruct H2 as (c' & _ & _ & ->).
    rewrite <- app_assoc in E. apply app_inv_head in E. injection E as _ E.
    destruct q; [congruence|discriminate].
Qed.

(* ---- order ---- *)

Definition before (L : list path) (x y : path) : Prop := exists A B C, L = A ++ x :: B ++ y :: C.

Lemma before_lr L1 L2 x y : In x L1 -> In y L2 -> before (L1 ++ L2) x y.
Proof.
  intros Hx Hy. destruct (in_split _ _ Hx) as (A & B & ->). destruct (in_split _ _ Hy) as (C & D & ->).
  exists A, (B ++ C), D. rewrite <- ?app_assoc. cbn [app]. rewrite <- ?app_assoc. reflexivity.
Qed.

Lemma before_embed S1 M S2 x y : before M x y -> before (S1 ++ M ++ S2) x y.
Proof.
  intros (A & B & C & ->). exists (S1 ++ A), B, (C ++ S2).
  rewrite <- ?app_assoc. cbn [app]. rewrite <- ?app_assoc. reflexivity.
Qed.

Lemma before_nth L x y : before L x y ->
  exists a b, nth_error L a = Some x /\ nth_error L b = Some y /\ (a < b)%nat.
Proof.
  intros (A & B & C & ->). exists (length A), (length A + S (length B))%nat. split; [|split; [|lia]].
  - rewrite nth_error_app2, Nat.sub_diag by lia. reflexivity.
  - rewrite nth_error_app2 by lia. replace (length A + S (length B) - length A)%nat with (S (length B)) by lia.
    cbn [nth_error]. rewrite nth_error_app2, Nat.sub_diag by lia. reflexivity.
Qed.

Lemma subs_list_split pp : forall ch c, In c ch -> is_dir c = true ->
  exists S1 S2, subs_list pp ch = S1 ++ alloc_list (pp ++ [node_name c]) c ++ S2.
Proof.
  induction ch as [|x r IH]; intros c Hin D; [destruct Hin|]. cbn [subs_list].
  destruct Hin as [->|Hin].
  - rewrite D. exists [], (subs_list pp r). reflexivity.
  - destruct (IH c Hin D) as (S1 & S2 & E). rewrite E.
    exists ((if is_dir x then alloc_list (pp ++ [node_name x]) x else []) ++ S1), S2.
    rewrite <- app_assoc. reflexivity.
Qed.

(* below the node itself: every numbered child of a directory at q <> [] stands before that directory *)
Lemma alloc_order : forall n pp q nd c,
  snames n -> q <> [] -> lookup_path q n = Some nd -> is_dir nd = true ->
  In c (node_children nd) -> is_hardlink c = false ->
  before (alloc_list pp n) (pp ++ q ++ [node_name c]) (pp ++ q).
Proof.
  induction n as [nm a ch IH] using tnode_ind'. intros pp q nd c S Hq L D Hc Hh.
  destruct q as [|c1 q']; [congruence|]. rewrite lookup_cons in L.
  destruct (negb (ftype_eqb (a_type a) FDir)); [discriminate|].
  destruct (find_child c1 ch) as [x1|] eqn:F; [|discriminate].
  pose proof (find_child_in _ _ _ F) as Hx1. pose proof (find_child_name _ _ _ F) as Nx1.
  destruct (snames_inv _ _ _ S) as [S1 S2]. rewrite Forall_forall in IH, S2.
  rewrite alloc_list_eq.
  destruct q' as [|c2 q''].
  - cbn in L. injection L as <-.
    apply before_lr.
    + apply subs_list_in. exists x1. split; [exact Hx1|]. split; [exact D|].
      rewrite alloc_list_children. apply in_or_app. right. apply own_children_in.
      exists c. rewrite Nx1. split; [exact Hc|]. split; [exact Hh|]. rewrite <- app_assoc. reflexivity.
    + apply own_children_in. exists x1. split; [exact Hx1|]. split; [|rewrite Nx1; reflexivity].
      unfold is_hardlink. unfold is_dir in D. destruct (a_type (node_attr x1)); try discriminate; reflexivity.
  - assert (Dx : is_dir x1 = true).
    { cbn [lookup_path] in L. destruct (is_dir x1); [reflexivity|discriminate]. }
    destruct (subs_list_split pp ch x1 Hx1 Dx) as (T1 & T2 & E). rewrite E, <- !app_assoc.
    apply before_embed. rewrite Nx1.
    pose proof (IH x1 Hx1 (pp ++ [c1]) (c2 :: q'') nd c (S2 x1 Hx1) ltac:(discriminate) L D Hc Hh) as B.
    rewrite <- !app_assoc in B. exact B.
Qed.

(* ---- the array fstree_post_process starts reorder_hard_links with ---- *)

Definition arr0 (root : tnode) : list path := alloc_list [] root ++ [[]].

(* a path that has an inode number: names a node that is not a hard link *)
Definition numbered (root : tnode) (p : path) : Prop :=
  exists nd, lookup_path p root = Some nd /\ is_hardlink nd = false.

(* numbered children stand before their directory *)
Definition CB (root : tnode) (arr : list path) : Prop :=
  forall dp nd c, lookup_path dp root = Some nd -> is_dir nd = true ->
    In c (node_children nd) -> is_hardlink c = false ->
    exists a b, nth_error arr a = Some (dp ++ [node_name c]) /\ nth_error arr b = Some dp /\ (a < b)%nat.

Lemma arr0_nodup root : snames root -> NoDup (arr0 root).
Proof.
  intro S. unfold arr0. apply NoDup_app_intro; [apply alloc_nodup; exact S|repeat constructor; simpl; tauto|].
  intros x H1 [<-|[]]. destruct (alloc_prefix _ _ _ H1) as (q & Hq & E). cbn in E. congruence.
Qed.

Lemma arr0_numbered root : snames root -> is_dir root = true -> Forall (numbered root) (arr0 root).
Proof.
  intros S D. unfold arr0. apply Forall_app. split.
  - apply Forall_forall. intros x Hx. destruct (alloc_nodes root [] x S D Hx) as (q & nd & _ & -> & L & Hh).
    exists nd. auto.
  - constructor; [|constructor]. exists root. split; [reflexivity|].
    unfold is_hardlink. unfold is_dir in D. destruct (a_type (node_attr root)); try discriminate; reflexivity.
Qed.

Lemma arr0_CB root : snames root -> CB root (arr0 root).
Proof.
  intros S dp nd c L D Hc Hh. apply before_nth. unfold arr0.
  destruct dp as [|c1 q].
  - cbn in L. injection L as <-. apply before_lr; [|left; reflexivity].
    rewrite alloc_list_children. apply in_or_app. right. apply own_children_in. exists c. auto.
  - pose proof (alloc_order root [] (c1 :: q) nd c S ltac:(discriminate) L D Hc Hh) as B. cbn [app] in B.
    destruct B as (A & B & C & E). exists A, B, (C ++ [[]]). rewrite E, <- ?app_assoc. cbn [app]. rewrite <- ?app_assoc. reflexivity.
Qed.

Lemma arr0_last root : nth_error (arr0 root) (length (arr0 root) - 1) = Some [].
Proof.
  unfold arr0. rewrite app_length. cbn [length]. rewrite nth_error_app2 by lia.
  replace (length (alloc_list [] root) + 1 - 1 - length (alloc_list [] root))%nat with O by lia. reflexivity.
Qed.

(* the number of elements: at most one per node *)
Lemma alloc_length : forall n pp, (length (alloc_list pp n) < tree_size n)%nat.
Proof.
  induction n as [nm a ch IH] using tnode_ind'. intro pp. rewrite alloc_list_eq, tree_size_eq, app_length.
  assert (H1 : (length (own_children pp ch) <= length ch)%nat).
  { unfold own_children. rewrite map_length. clear. induction ch as [|c r IHr]; simpl; [lia|].
    destruct (negb (is_hardlink c)); simpl; lia. }
  assert (H2 : (length (subs_list pp ch) + length ch <= sizes ch)%nat).
  { clear H1. induction ch as [|c r IHr]; cbn [subs_list sizes length]; [lia|].
    inversion IH as [|? ? IHc IHr']; subst. specialize (IHr IHr'). rewrite app_length.
    destruct (is_dir c).
    - specialize (IHc (pp ++ [node_name c])). lia.
    - destruct c as [cn ca cch]. rewrite tree_size_eq. simpl. lia. }
  lia.
Qed.
