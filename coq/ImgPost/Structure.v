(* ImgPost — post_tree_structure: the clauses of Img.TreeModel.representable that lib/fstree establishes by itself,
   for EVERY input (no bounds): fs->inodes holds every node that gets a number exactly once with the root last (so
   the numbers are exactly 1..N), directory children are strictly sorted (hence distinct), every entry — a child or
   the target of a hard link — is numbered before the directory that names it, and link counts are at least 1. *)
From Coq Require Import List NArith ZArith Bool Arith Lia Sorted Permutation ZifyBool ZifyNat ZifyN.
From SqfsV Require Import C01.GenC01 C01.Res C01.InodeModel C01.InodeProofs Img.TreeModel.
From SqfsV Require Import C11.StrOrder C11.FstreeModel C11.PostModel C11.OrderProofs C11.TreeProofs C11.PostProofs.
From SqfsV Require Import ImgPost.Bridge ImgPost.InputOk ImgPost.TreeInv ImgPost.ResolveInv ImgPost.ListPos
  ImgPost.AllocInv ImgPost.ReorderInv ImgPost.StructInv ImgPost.BridgeProofs ImgPost.PathsModel ImgPost.PathsProofs.
Import ListNotations.
Local Open Scope N_scope.

Lemma post_targets_s root0 unres st :
  snames root0 -> links_queued root0 unres -> resolve_all root0 unres (mkRs [] []) = POk st ->
  forall dp nd c, lookup_path dp (decorate st [] root0) = Some nd -> is_dir nd = true -> In c (node_children nd) ->
    is_hardlink c = true -> exists t, a_resolved (node_attr c) = Some t /\ good_target (decorate st [] root0) t.
Proof.
  intros S0 Q R dp nd c L Dn Hc Hh.
  assert (S1 : snames (decorate st [] root0)) by (apply snames_decorate; exact S0).
  pose proof (snames_lookup dp _ nd S1 L) as Sn. destruct nd as [nm a ch]. destruct (snames_inv _ _ _ Sn) as [Sn1 _].
  pose proof (find_child_of_in ch c (sorted_names_nodup _ Sn1) Hc) as F.
  pose proof (lookup_app1 dp _ _ c L Dn F) as Lc.
  exact (resolved_links root0 unres st Q R _ c Lc Hh).
Qed.

Theorem post_tree_structure_l : forall d ops fs pp fb xa,
  run_adds d (fs_init d) ops = Some fs ->
  post_process fs = POk pp ->
  let arr := pp_inodes pp in
  let t := to_img fb xa pp in
  NoDup arr /\
  (forall p, In p arr <-> numbered (pp_root pp) p) /\
  nth_error arr (length arr - 1) = Some [] /\
  length t = length arr /\
  (exists n par ch, nth_error t (length arr - 1) = Some n /\ fn_payload n = PDir par ch) /\
  forall j n, nth_error t j = Some n ->
    1 <= fn_nlink n /\
    forall par ch, fn_payload n = PDir par ch ->
      sorted_names (map fst ch) = true /\
      Forall (fun e => 1 <= snd e /\ snd e < N.of_nat j + 1) ch.
Proof.
  intros d ops fs pp fb xa Hrun Hpost arr t.
  pose proof (run_adds_swf d ops _ fs (init_swf d) Hrun) as W.
  pose proof (root0_queued d ops fs Hrun) as Q.
  pose proof (root0_dir d ops fs Hrun) as D0.
  destruct (post_process_facts fs pp (swf_snames _ W) D0 Q Hpost) as (st & R & Er & Ef & El & I & P).
  fold arr in I, P, El.
  assert (S1 : snames (pp_root pp)) by (rewrite Er; apply snames_decorate, swf_snames; exact W).
  assert (TG : forall dp nd c, lookup_path dp (pp_root pp) = Some nd -> is_dir nd = true -> In c (node_children nd) ->
                 is_hardlink c = true -> exists tg, a_resolved (node_attr c) = Some tg /\ good_target (pp_root pp) tg).
  { rewrite Er. apply (post_targets_s (fs_root fs) (fs_unres fs) st (swf_snames _ W) Q R). }
  assert (Len : length t = length arr) by (unfold t, to_img; apply map_length).
  split; [exact (inv_nodup _ _ I)|]. split.
  { intro p. split; [|apply (inv_complete _ _ I)].
    intro Hp. pose proof (inv_numbered _ _ I) as Nm. rewrite Forall_forall in Nm. apply Nm. exact Hp. }
  split; [exact (inv_last _ _ I)|]. split; [exact Len|]. split.
  { unfold t, to_img. fold arr. rewrite nth_error_map, (inv_last _ _ I). cbn [option_map].
    exists (node_img fb xa arr (pp_root pp) []). unfold node_img. cbn [lookup_path]. rewrite Er.
    destruct (fs_root fs) as [nm a ch]. cbn [decorate]. unfold is_dir in D0. cbn in D0.
    apply ftype_eqb_eq in D0. cbn [set_post a_type]. rewrite D0. eexists. eexists. split; reflexivity. }
  intros j n Hn. unfold t, to_img in Hn. fold arr in Hn.
  rewrite nth_error_map in Hn. destruct (nth_error arr j) as [p|] eqn:Hj; [|discriminate].
  cbn in Hn. injection Hn as <-.
  pose proof (inv_numbered _ _ I) as Nm. rewrite Forall_forall in Nm.
  destruct (Nm p (nth_error_In _ _ Hj)) as (nd & L & Hh).
  pose proof L as L'. rewrite Er in L'. destruct (lookup_decorate_root _ _ _ _ L') as (nd0 & L0 & E).
  pose proof (swf_lookup p _ nd0 W L0) as W0.
  unfold node_img. rewrite L. subst nd. destruct nd0 as [nm a ch]. cbn [decorate] in *.
  destruct (swf_inv _ _ _ W0) as (K1 & _ & _).
  unfold is_hardlink in Hh. cbn [node_attr set_post a_type a_hard] in Hh.
  cbn [set_post a_type a_perm a_uid a_gid a_mtime a_links a_hard a_target a_devno].
  destruct (a_type a) eqn:Ty; cbn [fn_nlink fn_payload];
    try (split; [lia|intros par ch' E; discriminate E]).
  - (* directory *)
    split; [lia|]. intros par ch' E. injection E as _ <-.
    assert (Dn : is_dir (TNode nm (set_post a (count_path p (rs_cnt st)) (assoc_path p (rs_res st)))
                          (map (fun c => decorate st (p ++ [node_name c]) c) ch)) = true)
      by (unfold is_dir; cbn; rewrite Ty; reflexivity).
    split.
    + apply sorted_names_of. rewrite map_map. cbn [entry_of fst].
      pose proof (snames_lookup p _ _ S1 L) as Sn. destruct (snames_inv _ _ _ Sn) as [Sn1 _]. exact Sn1.
    + apply Forall_forall. intros e He. apply in_map_iff in He. destruct He as (c & <- & Hc).
      exact (entry_numbers (pp_root pp) arr I P TG j p _ c Hj L Dn Hc).
  - (* symbolic link *)
    cbn in Hh. rewrite Hh. cbn [fn_nlink fn_payload]. split; [lia|intros par ch' E; discriminate E].
Qed.
