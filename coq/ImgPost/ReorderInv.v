(* ImgPost — reorder_hard_links (C11 model [reorder_loop] / [reorder_children] / [move_to]): the loop keeps the array
   a duplicate-free list of the numbered nodes with numbered children before their directory and the root last, and
   when it ends every hard link target stands before every directory that has a link to it. *)
From Coq Require Import List NArith Bool Arith Lia Sorted Permutation.
From SqfsV Require Import C11.StrOrder C11.FstreeModel C11.PostModel C11.OrderProofs C11.TreeProofs C11.PostProofs.
From SqfsV Require Import ImgPost.Bridge ImgPost.InputOk ImgPost.TreeInv ImgPost.ResolveInv ImgPost.ListPos
  ImgPost.AllocInv.
Import ListNotations.

(* every numbered node is in the initial array *)
Lemma alloc_complete : forall q n pp nd,
  lookup_path q n = Some nd -> q <> [] -> is_hardlink nd = false -> In (pp ++ q) (alloc_list pp n).
Proof.
  induction q as [|c1 q IH]; intros n pp nd L Hq Hh; [congruence|].
  destruct n as [nm a ch]. rewrite lookup_cons in L. destruct (negb _); [discriminate|].
  destruct (find_child c1 ch) as [x1|] eqn:F; [|discriminate].
  pose proof (find_child_in _ _ _ F) as Hx1. pose proof (find_child_name _ _ _ F) as Nx1.
  rewrite alloc_list_eq. apply in_or_app. destruct q as [|c2 q'].
  - cbn in L. injection L as <-. right. apply own_children_in. exists x1. rewrite Nx1. auto.
  - left. apply subs_list_in. exists x1. split; [exact Hx1|]. split.
    + cbn [lookup_path] in L. destruct (is_dir x1); [reflexivity|discriminate].
    + rewrite Nx1. replace (pp ++ c1 :: c2 :: q') with ((pp ++ [c1]) ++ c2 :: q') by (rewrite <- app_assoc; reflexivity).
      eapply IH; eauto. discriminate.
Qed.

Lemma arr0_complete root p : numbered root p -> In p (arr0 root).
Proof.
  intros (nd & L & Hh). unfold arr0. apply in_or_app. destruct p as [|c q]; [right; left; reflexivity|].
  left. apply (alloc_complete (c :: q) root [] nd L ltac:(discriminate) Hh).
Qed.

Section Reorder.
  Variable root : tnode.
  Hypothesis root_dir : is_dir root = true.
  (* what fstree_resolve_hard_links left in target_node of every hard link entry *)
  Hypothesis targets_good : forall dp nd c t,
    lookup_path dp root = Some nd -> is_dir nd = true -> In c (node_children nd) ->
    is_hardlink c = true -> a_resolved (node_attr c) = Some t -> good_target root t.

  Record Inv (arr : list path) : Prop := {
    inv_nodup : NoDup arr;
    inv_numbered : Forall (numbered root) arr;
    inv_complete : forall p, numbered root p -> In p arr;
    inv_cb : CB root arr;
    inv_last : nth_error arr (length arr - 1) = Some []
  }.

  (* directories at positions below i have all their link targets in front of them *)
  Definition PD (arr : list path) (i : nat) : Prop :=
    forall dp nd k c t, lookup_path dp root = Some nd -> is_dir nd = true ->
      nth_error arr k = Some dp -> (k < i)%nat ->
      In c (node_children nd) -> is_hardlink c = true -> a_resolved (node_attr c) = Some t ->
      exists a, nth_error arr a = Some t /\ (a < k)%nat.

  Definition nondir (x : path) : Prop := forall nd, lookup_path x root = Some nd -> is_dir nd = false.

  Lemma good_nondir t : good_target root t -> nondir t.
  Proof. intros (nd & L & _ & D) nd' L'. congruence. Qed.

  Lemma good_numbered t : good_target root t -> numbered root t.
  Proof. intros (nd & L & H & _). exists nd. auto. Qed.

  Lemma inv_arr0 : snames root -> Inv (arr0 root).
  Proof.
    intro S. constructor.
    - apply arr0_nodup. exact S.
    - apply arr0_numbered; assumption.
    - apply arr0_complete.
    - apply arr0_CB. exact S.
    - apply arr0_last.
  Qed.

  Lemma shift_mono i ti a b : (i < ti)%nat -> (a < b)%nat -> b <> ti -> (shift i ti a < shift i ti b)%nat.
  Proof.
    intros H1 H2 H3. unfold shift.
    destruct (a <? i)%nat eqn:A1; destruct (b <? i)%nat eqn:B1;
      destruct (a <? ti)%nat eqn:A2; destruct (b <? ti)%nat eqn:B2;
      destruct (a =? ti)%nat eqn:A3; destruct (b =? ti)%nat eqn:B3;
      rewrite ?Nat.ltb_lt, ?Nat.ltb_ge, ?Nat.eqb_eq, ?Nat.eqb_neq in *; lia.
  Qed.

  Lemma move_inv arr i ti t :
    Inv arr -> (i < ti)%nat -> nth_error arr ti = Some t -> good_target root t -> Inv (move_to arr ti i).
  Proof.
    intros [I1 I2 I3 I4 I5] Hi Ht Gt.
    assert (Hle : (i <= ti)%nat) by lia.
    pose proof (move_to_perm arr ti i t Hle Ht) as P.
    constructor.
    - eapply Permutation_NoDup; [apply Permutation_sym; exact P|exact I1].
    - eapply Permutation_Forall; [apply Permutation_sym; exact P|exact I2].
    - intros p Hp. eapply Permutation_in; [apply Permutation_sym; exact P|]. apply I3. exact Hp.
    - intros dp nd c L D Hc Hh. destruct (I4 dp nd c L D Hc Hh) as (a & b & Ha & Hb & Hab).
      exists (shift i ti a), (shift i ti b).
      split; [eapply move_to_at; eauto|]. split; [eapply move_to_at; eauto|].
      apply shift_mono; auto. intros ->. rewrite Ht in Hb. injection Hb as ->.
      pose proof (good_nondir _ Gt nd L). congruence.
    - rewrite move_to_length.
      assert (Hlt : (ti < length arr)%nat) by (apply nth_error_Some; congruence).
      assert (Hne : ti <> (length arr - 1)%nat).
      { intros ->. rewrite I5 in Ht. injection Ht as <-.
        pose proof (good_nondir _ Gt root eq_refl). congruence. }
      replace (length arr - 1)%nat with (shift i ti (length arr - 1)) at 1.
      + eapply move_to_at; eauto.
      + unfold shift.
        destruct (length arr - 1 <? i)%nat eqn:A1; destruct (length arr - 1 <? ti)%nat eqn:A2;
          destruct (length arr - 1 =? ti)%nat eqn:A3;
          rewrite ?Nat.ltb_lt, ?Nat.ltb_ge, ?Nat.eqb_eq, ?Nat.eqb_neq in *; lia.
  Qed.

  Lemma index_of_first p arr k : nth_error arr k = Some p -> exists j, index_of p arr = Some j /\ (j <= k)%nat.
  Proof.
    revert k. induction arr as [|q r IH]; intros k H; [destruct k; discriminate|].
    cbn [index_of]. destruct (path_eqb q p) eqn:E; [exists O; split; [reflexivity|lia]|].
    destruct k as [|k]; cbn in H.
    - injection H as ->. rewrite path_eqb_refl in E. discriminate.
    - destruct (IH k H) as (j & Hj & Hle). rewrite Hj. exists (S j). split; [reflexivity|lia].
  Qed.

  Section Inner.
    Variable dp : path.
    Variable nd : tnode.
    Hypothesis Ldp : lookup_path dp root = Some nd.
    Hypothesis Ddp : is_dir nd = true.

    Lemma reorder_children_ok : forall chs i arr i' arr',
      Inv arr -> nth_error arr i = Some dp -> incl chs (node_children nd) ->
      reorder_children chs i arr = (i', arr') ->
      Inv arr' /\ nth_error arr' i' = Some dp /\ (i <= i')%nat /\
      (forall k, (k < i)%nat -> nth_error arr' k = nth_error arr k) /\
      (forall k, (i <= k < i')%nat -> exists x, nth_error arr' k = Some x /\ nondir x) /\
      (forall c t, In c chs -> is_hardlink c = true -> a_resolved (node_attr c) = Some t ->
                   exists a, nth_error arr' a = Some t /\ (a < i')%nat).
    Proof.
      induction chs as [|c r IH]; intros i arr i' arr' I Hi Hin H; cbn [reorder_children] in H.
      - injection H as <- <-. split; [exact I|]. split; [exact Hi|]. split; [lia|].
        split; [reflexivity|]. split; [intros k Hk; lia|]. intros c t [].
      - assert (Hr : incl r (node_children nd)) by (intros y Hy; apply Hin; right; exact Hy).
        assert (Hc : In c (node_children nd)) by (apply Hin; left; reflexivity).
        (* the cases in which nothing moves *)
        assert (Skip : reorder_children r i arr = (i', arr') ->
                       (forall t, is_hardlink c = true -> a_resolved (node_attr c) = Some t ->
                                  exists a, nth_error arr a = Some t /\ (a < i)%nat) ->
                       Inv arr' /\ nth_error arr' i' = Some dp /\ (i <= i')%nat /\
                       (forall k, (k < i)%nat -> nth_error arr' k = nth_error arr k) /\
                       (forall k, (i <= k < i')%nat -> exists x, nth_error arr' k = Some x /\ nondir x) /\
                       (forall c0 t, In c0 (c :: r) -> is_hardlink c0 = true -> a_resolved (node_attr c0) = Some t ->
                                     exists a, nth_error arr' a = Some t /\ (a < i')%nat)).
        { intros H' Hcase. destruct (IH i arr i' arr' I Hi Hr H') as (J1 & J2 & J3 & J4 & J5 & J6).
          split; [exact J1|]. split; [exact J2|]. split; [exact J3|]. split; [exact J4|]. split; [exact J5|].
          intros c0 t [<-|Hc0] Hh Hres; [|eapply J6; eauto].
          destruct (Hcase t Hh Hres) as (a & Ha & Hai). exists a. rewrite J4 by exact Hai. split; [exact Ha|lia]. }
        destruct (is_hardlink c) eqn:Hh; [|apply Skip; [exact H|discriminate]].
        destruct (a_resolved (node_attr c)) as [t|] eqn:Res; [|apply Skip; [exact H|discriminate]].
        pose proof (targets_good dp nd c t Ldp Ddp Hc Hh Res) as Gt.
        destruct (index_of t arr) as [ti|] eqn:Ix.
        2:{ exfalso. apply (index_of_none _ _ Ix). apply (inv_complete arr I). apply good_numbered. exact Gt. }
        pose proof (index_of_nth _ _ _ Ix) as Hti.
        assert (Hne : ti <> i).
        { intros ->. rewrite Hi in Hti. injection Hti as ->. pose proof (good_nondir _ Gt nd Ldp). congruence. }
        destruct (ti <=? i)%nat eqn:Cmp.
        + apply Nat.leb_le in Cmp. apply Skip; [exact H|].
          intros t' _ E. injection E as <-. exists ti. split; [exact Hti|lia].
        + apply Nat.leb_gt in Cmp.
          pose proof (move_inv arr i ti t I Cmp Hti Gt) as I1.
          assert (Hi1 : nth_error (move_to arr ti i) (S i) = Some dp).
          { replace (S i) with (shift i ti i).
            - eapply move_to_at; eauto. lia.
            - unfold shift. rewrite Nat.ltb_irrefl. destruct (i <? ti)%nat eqn:A; [reflexivity|].
              apply Nat.ltb_ge in A. lia. }
          assert (Ht1 : nth_error (move_to arr ti i) i = Some t).
          { replace i with (shift i ti ti) at 2.
            - eapply move_to_at; eauto. lia.
            - unfold shift. rewrite Nat.ltb_irrefl, Nat.eqb_refl.
              destruct (ti <? i)%nat eqn:A; [apply Nat.ltb_lt in A; lia|reflexivity]. }
          destruct (IH (S i) _ i' arr' I1 Hi1 Hr H) as (J1 & J2 & J3 & J4 & J5 & J6).
          split; [exact J1|]. split; [exact J2|]. split; [lia|]. split; [|split].
          * intros k Hk. rewrite J4 by lia. eapply move_to_below; eauto. lia.
          * intros k Hk. destruct (Nat.eq_dec k i) as [->|Hki].
            -- exists t. rewrite J4 by lia. split; [exact Ht1|]. apply good_nondir. exact Gt.
            -- apply J5. lia.
          * intros c0 t0 [<-|Hc0] Hh0 Hres0; [|eapply J6; eauto].
            rewrite Res in Hres0. injection Hres0 as <-. exists i. rewrite J4 by lia. split; [exact Ht1|lia].
    Qed.
  End Inner.

  Lemma PD_weaken arr i j : PD arr i -> (j <= i)%nat -> PD arr j.
  Proof. intros P Hj dp nd k c t L D Hk Hki. apply (P dp nd k c t L D Hk). lia. Qed.

  Lemma reorder_loop_ok : forall fuel i arr arr',
    Inv arr -> PD arr i -> reorder_loop fuel root i arr = Some arr' ->
    Inv arr' /\ PD arr' (length arr').
  Proof.
    induction fuel as [|f IH]; intros i arr arr' I P H; [discriminate|]. cbn [reorder_loop] in H.
    destruct (nth_error arr i) as [p|] eqn:Hi.
    2:{ injection H as <-. split; [exact I|]. apply (PD_weaken arr i); [exact P|].
        apply nth_error_None. exact Hi. }
    (* the cases in which position i holds no directory *)
    assert (Skip : (forall nd, lookup_path p root = Some nd -> is_dir nd = false) ->
                   reorder_loop f root (S i) arr = Some arr' -> Inv arr' /\ PD arr' (length arr')).
    { intros Hnd H'. apply (IH (S i) arr arr' I); [|exact H'].
      intros dp nd k c t L D Hk Hki Hc Hh Hres.
      destruct (Nat.eq_dec k i) as [->|Hne]; [|apply (P dp nd k c t L D Hk); auto; lia].
      rewrite Hi in Hk. injection Hk as ->. rewrite (Hnd nd L) in D. discriminate. }
    destruct (lookup_path p root) as [nd|] eqn:L; [|apply Skip; [discriminate|exact H]].
    destruct (is_dir nd) eqn:D; [|apply Skip; [intros nd' E; injection E as <-; exact D|exact H]].
    destruct (reorder_children (node_children nd) i arr) as [i' arr1] eqn:R.
    destruct (reorder_children_ok p nd L D (node_children nd) i arr i' arr1 I Hi (incl_refl _) R)
      as (J1 & J2 & J3 & J4 & J5 & J6).
    apply (IH (S i') arr1 arr' J1); [|exact H].
    intros dp nd' k c t L' D' Hk Hki Hc Hh Hres.
    destruct (Nat.lt_ge_cases k i) as [Hlt|Hge].
    - rewrite J4 in Hk by exact Hlt.
      destruct (P dp nd' k c t L' D' Hk Hlt Hc Hh Hres) as (a & Ha & Hak).
      exists a. rewrite J4 by lia. auto.
    - destruct (Nat.eq_dec k i') as [->|Hne].
      + rewrite J2 in Hk. injection Hk as <-. rewrite L in L'. injection L' as <-. apply (J6 c t Hc Hh Hres).
      + exfalso. destruct (J5 k ltac:(lia)) as (x & Hx & Nx). rewrite Hx in Hk. injection Hk as ->.
        rewrite (Nx nd' L') in D'. discriminate.
  Qed.
End Reorder.
