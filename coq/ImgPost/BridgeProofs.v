(* ImgPost — post_tree_representable: the tree lib/fstree hands to sqfs_serialize_fstree is in the domain of the
   serializer theorems (Img.TreeModel.representable), for every sequence of successful adds and every successful
   fstree_post_process, under the input bounds of InputOk.v. *)
From Coq Require Import List NArith ZArith Bool Arith Lia Sorted Permutation ZifyBool ZifyNat ZifyN.
From SqfsV Require Import C01.GenC01 C01.Res C01.InodeModel C01.InodeProofs Img.TreeModel.
From SqfsV Require Import C11.StrOrder C11.FstreeModel C11.PostModel C11.OrderProofs C11.TreeProofs C11.PostProofs.
From SqfsV Require Import ImgPost.Bridge ImgPost.InputOk ImgPost.TreeInv ImgPost.ResolveInv ImgPost.ListPos
  ImgPost.AllocInv ImgPost.ReorderInv.
Import ListNotations.
Local Open Scope N_scope.

(* ------------------------------------------------------------------ small facts *)

Lemma name_ltb_lt : forall a b, name_ltb a b = true <-> str_lt a b.
Proof.
  unfold str_lt. induction a as [|x a IH]; destruct b as [|y b]; cbn [name_ltb str_cmp]; try (split; congruence).
  destruct (N.compare_spec x y) as [E|E|E].
  - subst. rewrite N.ltb_irrefl, N.eqb_refl. cbn. apply IH.
  - apply N.ltb_lt in E. rewrite E. cbn. split; reflexivity.
  - assert (E1 : (x <? y) = false) by (apply N.ltb_ge; lia).
    assert (E2 : (x =? y) = false) by (apply N.eqb_neq; lia). rewrite E1, E2. cbn. split; discriminate.
Qed.

Lemma sorted_names_of : forall l, StronglySorted str_lt l -> sorted_names l = true.
Proof.
  induction l as [|a r IH]; intros H; [reflexivity|]. inversion H as [|? ? Hr Ha]; subst.
  destruct r as [|b r']; [reflexivity|]. cbn [sorted_names]. apply andb_true_iff. split.
  - apply name_ltb_lt. inversion Ha; subst. assumption.
  - apply IH. exact Hr.
Qed.

Lemma nodes_okb_intro bs t : forall l ino,
  (forall j n, nth_error l j = Some n -> fnode_okb bs t (ino + N.of_nat j) n = true) -> nodes_okb bs t ino l = true.
Proof.
  induction l as [|x l IH]; intros ino H; [reflexivity|]. cbn [nodes_okb]. apply andb_true_iff. split.
  - specialize (H O x eq_refl). rewrite N.add_0_r in H. exact H.
  - apply IH. intros j n Hn. specialize (H (S j) n Hn).
    replace (ino + 1 + N.of_nat j) with (ino + N.of_nat (S j)) by lia. exact H.
Qed.

Lemma tree_size_decorate st : forall n pp, tree_size (decorate st pp n) = tree_size n.
Proof.
  induction n as [nm a ch IH] using tnode_ind'. intro pp. cbn [decorate]. rewrite !tree_size_eq. f_equal.
  induction ch as [|c r IHr]; [reflexivity|]. inversion IH; subst. cbn [map sizes]. rewrite H1, IHr; auto.
Qed.

Lemma in_sizes : forall ch x, In x ch -> (tree_size x <= sizes ch)%nat.
Proof.
  induction ch as [|c r IH]; intros x H; [destruct H|]. destruct H as [<-|H]; cbn [sizes]; [lia|]. specialize (IH x H). lia.
Qed.

Lemma lookup_size : forall q n nd, lookup_path q n = Some nd -> (tree_size nd <= tree_size n)%nat.
Proof.
  induction q as [|c q IH]; intros n nd L.
  - cbn in L. injection L as <-. lia.
  - destruct n as [nm a ch]. rewrite lookup_cons in L. destruct (negb _); [discriminate|].
    destruct (find_child c ch) as [x|] eqn:F; [|discriminate].
    specialize (IH x nd L). pose proof (in_sizes ch x (find_child_in _ _ _ F)). rewrite tree_size_eq. lia.
Qed.

Lemma wf_lookup : forall q n nd, wf n -> lookup_path q n = Some nd -> wf nd.
Proof.
  induction q as [|c q IH]; intros n nd W L.
  - cbn in L. injection L as <-. exact W.
  - destruct n as [nm a ch]. rewrite lookup_cons in L. destruct (negb _); [discriminate|].
    destruct (find_child c ch) as [x|] eqn:F; [|discriminate].
    destruct (wf_inv _ _ _ W) as (_ & _ & _ & _ & W5). rewrite Forall_forall in W5.
    eapply IH; [|exact L]. apply W5. eapply find_child_in; eauto.
Qed.

(* the root stays a directory *)
Lemma add_path_is_dir d comps e x n n' : add_path d comps e x n = Some n' -> is_dir n' = true.
Proof.
  destruct comps as [|c rest]; destruct n as [nm a ch]; cbn [add_path].
  - destruct (negb _); discriminate.
  - destruct (negb (ftype_eqb (a_type a) FDir)) eqn:D; [discriminate|]. apply negb_false_iff in D.
    intro H. assert (E : exists a' ch', n' = TNode nm a' ch' /\ a_type a' = a_type a).
    { destruct rest; destruct (find_child c ch);
        repeat match type of H with
               | match ?X with _ => _ end = _ => destruct X; try discriminate
               end; injection H as <-; eauto. }
    destruct E as (a' & ch' & -> & E). unfold is_dir. cbn. rewrite E. exact D.
Qed.

Lemma fs_add_root_dir d fs e x fs' : is_dir (fs_root fs) = true -> fs_add d fs e x = Some fs' -> is_dir (fs_root fs') = true.
Proof.
  intros D H. unfold fs_add in H.
  destruct (add_generic d (fs_root fs) e x) as [r|] eqn:A; [|discriminate]. injection H as <-. cbn [fs_root].
  unfold add_generic in A.
  destruct (ftype_eqb (e_type e) FLnk && match x with None => true | Some _ => false end); [discriminate|].
  destruct (e_path e) as [|c p].
  - destruct (fs_root fs) as [nm a ch]. unfold fill_dir in A.
    destruct (ftype_eqb (a_type a) FDir && ftype_eqb (e_type e) FDir && a_implicit a); [|discriminate].
    injection A as <-. reflexivity.
  - eapply add_path_is_dir; eauto.
Qed.

Lemma run_adds_root_dir d : forall ops fs fs', is_dir (fs_root fs) = true -> run_adds d fs ops = Some fs' ->
  is_dir (fs_root fs') = true.
Proof.
  induction ops as [|[e x] r IH]; intros fs fs' D H; cbn [run_adds] in H.
  - injection H as <-. exact D.
  - destruct (fs_add d fs e x) as [fs1|] eqn:A; [|discriminate].
    eapply IH; [|exact H]. eapply fs_add_root_dir; eauto.
Qed.

Lemma reorder_loop_length root : forall fuel i arr arr',
  reorder_loop fuel root i arr = Some arr' -> length arr' = length arr.
Proof.
  induction fuel as [|f IH]; intros i arr arr' H; [discriminate|]. cbn [reorder_loop] in H.
  destruct (nth_error arr i) as [p|]; [|injection H as <-; reflexivity].
  destruct (lookup_path p root) as [nd|]; [|eapply IH; eauto].
  destruct (is_dir nd); [|eapply IH; eauto].
  destruct (reorder_children (node_children nd) i arr) as [i' arr1] eqn:R.
  destruct (reorder_children_inv _ _ _ _ _ R) as [_ E]. rewrite <- E. eapply IH; eauto.
Qed.

(* regular files are in fs->files *)
Lemma file_list_complete : forall q n pp nd,
  lookup_path q n = Some nd -> a_type (node_attr nd) = FReg -> In (pp ++ q) (file_list pp n).
Proof.
  induction q as [|c q IH]; intros n pp nd L T.
  - cbn in L. injection L as <-. destruct n as [nm a ch]. cbn in T. cbn [file_list]. rewrite T. cbn.
    left. rewrite app_nil_r. reflexivity.
  - destruct n as [nm a ch]. rewrite lookup_cons in L.
    destruct (negb (ftype_eqb (a_type a) FDir)) eqn:D; [discriminate|]. apply negb_false_iff in D.
    destruct (find_child c ch) as [x|] eqn:F; [|discriminate].
    cbn [file_list]. apply ftype_eqb_eq in D. rewrite D. cbn [ftype_eqb].
    pose proof (find_child_in _ _ _ F) as Hx. pose proof (find_child_name _ _ _ F) as Nx.
    specialize (IH x (pp ++ [c]) nd L T). rewrite <- app_assoc in IH. cbn [app] in IH.
    clear - Hx Nx IH. induction ch as [|y r IHr]; [destruct Hx|].
    apply in_or_app. destruct Hx as [->|Hx]; [left; rewrite Nx; exact IH|right; apply IHr; exact Hx].
Qed.

Lemma ino_of_le arr p : ino_of arr p <= N.of_nat (length arr).
Proof.
  unfold ino_of. destruct (index_of p arr) as [k|] eqn:E; [|lia].
  apply index_of_nth in E. assert (k < length arr)%nat by (apply nth_error_Some; congruence). lia.
Qed.

(* a path stored at position a has a number in 1 .. a+1 *)
Lemma ino_of_at arr a p : nth_error arr a = Some p -> 1 <= ino_of arr p <= N.of_nat a + 1.
Proof.
  intro H. unfold ino_of.
  assert (E : exists j, index_of p arr = Some j /\ (j <= a)%nat).
  { clear - H. revert a H. induction arr as [|q r IH]; intros a H; [destruct a; discriminate|].
    cbn [index_of]. destruct (path_eqb q p) eqn:E; [exists O; split; [reflexivity|lia]|].
    destruct a as [|a]; cbn in H.
    - injection H as ->. rewrite path_eqb_refl in E. discriminate.
    - destruct (IH a H) as (j & Hj & Hle). rewrite Hj. exists (S j). split; [reflexivity|lia]. }
  destruct E as (j & -> & Hj). lia.
Qed.

(* ------------------------------------------------------------------ the post-processed tree *)

(* everything the proofs need to know about a successful fstree_post_process of a reachable tree *)
Definition post_facts (root0 : tnode) (unres : list path) (pp : ppout) : Prop :=
  exists st,
    resolve_all root0 unres (mkRs [] []) = POk st /\
    pp_root pp = decorate st [] root0 /\
    pp_files pp = file_list [] (pp_root pp) /\
    length (pp_inodes pp) = S (length (alloc_list [] (pp_root pp))) /\
    Inv (pp_root pp) (pp_inodes pp) /\
    PD (pp_root pp) (pp_inodes pp) (length (pp_inodes pp)).

Lemma post_process_facts fs pp :
  snames (fs_root fs) -> is_dir (fs_root fs) = true -> links_queued (fs_root fs) (fs_unres fs) ->
  post_process fs = POk pp -> post_facts (fs_root fs) (fs_unres fs) pp.
Proof.
  intros W D Q H. unfold post_process in H.
  destruct (resolve_all (fs_root fs) (fs_unres fs) (mkRs [] [])) as [st| |] eqn:R; try discriminate.
  set (root := decorate st [] (fs_root fs)) in *.
  destruct (reorder_loop (S (length (alloc_list [] root ++ [[]]))) root 0 (alloc_list [] root ++ [[]])) as [arr'|] eqn:RL;
    [|discriminate].
  injection H as <-.
  assert (S1 : snames root) by (apply snames_decorate; exact W).
  assert (D1 : is_dir root = true) by (unfold root; rewrite decorate_is_dir; exact D).
  assert (TG : forall dp nd c t, lookup_path dp root = Some nd -> is_dir nd = true -> In c (node_children nd) ->
                                 is_hardlink c = true -> a_resolved (node_attr c) = Some t -> good_target root t).
  { intros dp nd c t L Dn Hc Hh Res.
    pose proof (snames_lookup dp root nd S1 L) as Sn. destruct nd as [nm a ch]. destruct (snames_inv _ _ _ Sn) as [Sn1 _].
    pose proof (find_child_of_in ch c (sorted_names_nodup _ Sn1) Hc) as F.
    pose proof (lookup_app1 dp root _ c L Dn F) as Lc.
    destruct (resolved_links (fs_root fs) (fs_unres fs) st Q R _ c Lc Hh) as (t' & E & G).
    rewrite Res in E. injection E as <-. exact G. }
  pose proof (inv_arr0 root D1 S1) as I0.
  assert (P0 : PD root (arr0 root) 0) by (intros dp nd k c t _ _ _ Hk; lia).
  destruct (reorder_loop_ok root D1 TG _ 0 (arr0 root) arr' I0 P0 RL) as [I1 P1].
  exists st. cbn [pp_root pp_inodes pp_files]. split; [exact R|]. split; [reflexivity|]. split; [reflexivity|].
  split; [|split; [exact I1|exact P1]].
  rewrite (reorder_loop_length _ _ _ _ _ RL), app_length. cbn. lia.
Qed.

(* ------------------------------------------------------------------ post_tree_representable *)

Section Repr.
  Variable bs : N.
  Variable d : fsdefaults.
  Variable ops : list op.
  Variable fs : fstree.
  Variable pp : ppout.
  Variable fb : path -> ibody.
  Variable xa : path -> N.
  Hypothesis Hin : input_okb bs d ops = true.
  Hypothesis Hrun : run_adds d (fs_init d) ops = Some fs.
  Hypothesis Hpost : post_process fs = POk pp.
  Hypothesis Hatt : attached_okb bs fb xa pp = true.

  Let root0 := fs_root fs.
  Let root := pp_root pp.
  Let arr := pp_inodes pp.

  Lemma in_bs : bs <> 0.
  Proof.
    unfold input_okb in Hin. rewrite !andb_true_iff in Hin. destruct Hin as [[[H _] _] _].
    apply negb_true_iff, N.eqb_neq in H. exact H.
  Qed.
  Lemma in_defaults : defaults_okb d = true.
  Proof. unfold input_okb in Hin. rewrite !andb_true_iff in Hin. tauto. Qed.
  Lemma in_ops : forallb op_okb ops = true.
  Proof. unfold input_okb in Hin. rewrite !andb_true_iff in Hin. tauto. Qed.
  Lemma in_size : N.of_nat (ops_size ops + length ops) + 3 < U32.
  Proof. unfold input_okb in Hin. rewrite !andb_true_iff, N.ltb_lt in Hin. tauto. Qed.

  Lemma root0_wf : wf root0.
  Proof. eapply run_adds_wf; [exact in_defaults|exact in_ops| |exact Hrun]. apply defaults_ok_init, in_defaults. Qed.

  Lemma root0_dir : is_dir root0 = true.
  Proof. eapply run_adds_root_dir; [|exact Hrun]. reflexivity. Qed.

  Lemma root0_queued : links_queued root0 (fs_unres fs).
  Proof. eapply run_adds_links_queued; [|exact Hrun]. apply init_links_queued. Qed.

  Lemma root0_size : (tree_size root0 <= 1 + ops_size ops)%nat /\ (length (fs_unres fs) <= length ops)%nat.
  Proof.
    destruct (run_adds_size d ops _ _ Hrun) as [A B].
    change (tree_size (fs_root (fs_init d))) with 1%nat in A. change (length (fs_unres (fs_init d))) with 0%nat in B.
    unfold root0. split; lia.
  Qed.

  Lemma facts : post_facts root0 (fs_unres fs) pp.
  Proof. apply post_process_facts; [apply wf_snames; exact root0_wf|exact root0_dir|exact root0_queued|exact Hpost]. Qed.

  Lemma arr_len : N.of_nat (length arr) + 2 < U32.
  Proof.
    destruct facts as (st & _ & Er & _ & El & _ & _). unfold arr. rewrite El.
    assert (A : (length (alloc_list [] (pp_root pp)) < tree_size root0)%nat).
    { rewrite <- (tree_size_decorate st root0 []), <- Er. apply alloc_length. }
    destruct root0_size as [B _]. pose proof in_size as C. unfold U32 in *. lia.
  Qed.

  (* the node at a position of the array *)
  Lemma node_at j p : nth_error arr j = Some p ->
    exists nd0 st, lookup_path p root0 = Some nd0 /\ wf nd0 /\ lookup_path p root = Some (decorate st p nd0) /\
                   is_hardlink nd0 = false /\ root = decorate st [] root0 /\
                   length (rs_cnt st) = length (fs_unres fs).
  Proof.
    intro Hj. destruct facts as (st & R & Er & _ & _ & I & _).
    pose proof (inv_numbered _ _ I) as Nm. rewrite Forall_forall in Nm.
    destruct (Nm p (nth_error_In _ _ Hj)) as (nd & L & Hh).
    rewrite Er in L. destruct (lookup_decorate_root _ _ _ _ L) as (nd0 & L0 & ->).
    rewrite decorate_is_hardlink in Hh.
    exists nd0, st. split; [exact L0|]. split; [eapply wf_lookup; [exact root0_wf|exact L0]|].
    split; [unfold root; rewrite Er; exact L|]. split; [exact Hh|]. split; [exact Er|].
    destruct (resolve_all_good root0 (fs_unres fs) (mkRs [] []) st (Forall_nil _) R) as (_ & _ & C). cbn in C. exact C.
  Qed.

  Lemma entries_ok j p nd : nth_error arr j = Some p -> lookup_path p root = Some nd -> is_dir nd = true ->
    forall c, In c (node_children nd) -> 1 <= snd (entry_of arr p c) /\ snd (entry_of arr p c) < N.of_nat j + 1.
  Proof.
    intros Hj L D c Hc. destruct facts as (st & R & Er & _ & _ & I & P). fold root arr in I, P.
    unfold entry_of. cbn [snd]. destruct (is_hardlink c) eqn:Hh.
    - (* a hard link: the number of target_node *)
      pose proof (snames_lookup p root nd) as Sn.
      assert (S1 : snames root) by (unfold root; rewrite Er; apply snames_decorate, wf_snames, root0_wf).
      specialize (Sn S1 L). destruct nd as [nm a ch]. destruct (snames_inv _ _ _ Sn) as [Sn1 _].
      pose proof (find_child_of_in ch c (sorted_names_nodup _ Sn1) Hc) as F.
      pose proof (lookup_app1 p root _ c L D F) as Lc.
      unfold root in Lc. rewrite Er in Lc.
      destruct (resolved_links root0 (fs_unres fs) st root0_queued R _ c Lc Hh) as (t & E & G).
      rewrite E.
      destruct (P p (TNode nm a ch) j c t L D Hj ltac:(apply nth_error_Some; rewrite Hj; discriminate) Hc Hh E)
        as (k & Hk & Hkj).
      pose proof (ino_of_at arr k t Hk). lia.
    - destruct (inv_cb _ _ I p nd c L D Hc Hh) as (a & b & Ha & Hb & Hab).
      assert (b = j).
      { pose proof (inv_nodup _ _ I) as ND. rewrite NoDup_nth_error in ND. apply ND; [|congruence].
        apply nth_error_Some. congruence. }
      subst b. pose proof (ino_of_at arr a _ Ha). lia.
  Qed.

  Lemma links_bound nd0 st p : wf nd0 -> lookup_path p root0 = Some nd0 -> length (rs_cnt st) = length (fs_unres fs) ->
    1 <= a_links (node_attr nd0) + count_path p (rs_cnt st) /\
    a_links (node_attr nd0) + count_path p (rs_cnt st) < U32 /\
    N.of_nat (length (node_children nd0)) + 2 < U32.
  Proof.
    intros W L C. destruct nd0 as [nm a ch]. destruct (wf_inv _ _ _ W) as (_ & W2 & _).
    pose proof (count_path_le p (rs_cnt st)) as Cl. rewrite C in Cl.
    pose proof (lookup_size _ _ _ L) as Sz. rewrite tree_size_eq in Sz. pose proof (sizes_length ch) as Sl.
    destruct root0_size as [B1 B2]. pose proof in_size as Bs. fold root0 in Sz. cbn [node_attr node_children].
    unfold links_ok in W2. destruct (ftype_eqb (a_type a) FDir).
    - rewrite W2. lia.
    - destruct W2 as [-> ->]. cbn [length]. lia.
  Qed.

  Lemma node_ok j n : nth_error (to_img fb xa pp) j = Some n -> fnode_okb bs (to_img fb xa pp) (1 + N.of_nat j) n = true.
  Proof.
    intro Hn. unfold to_img in Hn. fold arr root in Hn.
    rewrite nth_error_map in Hn. destruct (nth_error arr j) as [p|] eqn:Hj; [|discriminate].
    cbn in Hn. injection Hn as <-.
    destruct (node_at j p Hj) as (nd0 & st & L0 & W0 & L & Hh & Er & Cn).
    destruct (links_bound nd0 st p W0 L0 Cn) as (K1 & K2 & K3).
    pose proof Hatt as HA. unfold attached_okb in HA. apply andb_true_iff in HA. destruct HA as [Af Ax].
    rewrite forallb_forall in Af, Ax.
    assert (Xp : xa p < U32) by (apply N.ltb_lt, Ax; eapply nth_error_In; exact Hj).
    pose proof arr_len as AL.
    unfold node_img. rewrite L.
    destruct nd0 as [nm a ch]. cbn [decorate]. destruct (wf_inv _ _ _ W0) as (Wa & _ & Wn & Ws & _).
    destruct (attr_okb_elim _ Wa) as (P1 & P2 & P3 & P4 & P5 & P6 & P7).
    cbn [node_attr] in K1, K2. cbn [node_children] in K3.
    cbn [set_post a_type a_perm a_uid a_gid a_mtime a_links a_hard a_target a_devno].
    unfold is_hardlink in Hh. cbn [node_attr] in Hh.
    assert (Base : forall pl, payload_fmt pl = type_bits (a_type a) -> payload_okb bs (to_img fb xa pp) (1 + N.of_nat j) pl = true ->
              fnode_okb bs (to_img fb xa pp) (1 + N.of_nat j)
                (mkFnode (type_bits (a_type a) + a_perm a) (a_uid a) (a_gid a) (a_mtime a)
                         (a_links a + count_path p (rs_cnt st)) (xa p) pl) = true).
    { intros pl E1 E2. unfold fnode_okb. cbn [fn_payload fn_mode fn_uid fn_gid fn_mtime fn_nlink fn_xattr].
      rewrite E1, E2. clear - P1 P2 P3 P4 K1 K2 Xp. unfold U32 in *.
      generalize dependent (type_bits (a_type a)). intros f.
      rewrite !andb_true_iff, !N.leb_le, !N.ltb_lt. repeat split; lia. }
    destruct (a_type a) eqn:Ty.
    - (* regular file *)
      apply Base; [reflexivity|]. cbn [payload_okb]. apply Af.
      destruct facts as (st' & _ & Er' & Ef & _ & _ & _). rewrite Ef.
      apply (file_list_complete p (pp_root pp) [] _ L). cbn. exact Ty.
    - (* directory *)
      apply Base; [reflexivity|]. cbn [payload_okb].
      assert (Dn : is_dir (decorate st p (TNode nm a ch)) = true) by (unfold is_dir; cbn; rewrite Ty; reflexivity).
      rewrite !andb_true_iff. split; [split; [split|]|].
      + apply N.ltb_lt. unfold parent_ino. destruct p; [unfold U32 in *; lia|].
        pose proof (ino_of_le arr (removelast (n :: p))). unfold U32 in *. lia.
      + apply N.ltb_lt. unfold nlen. rewrite !map_length. unfold U32 in *. lia.
      + apply forallb_forall. intros e He. apply in_map_iff in He. destruct He as (c & <- & Hc).
        pose proof (entries_ok j p _ Hj L Dn c Hc) as [E1 E2].
        rewrite !andb_true_iff, N.leb_le, N.ltb_lt. split; [split|]; [|exact E1|lia].
        unfold entry_of. cbn [fst]. cbn [decorate node_children] in Hc.
        apply in_map_iff in Hc. destruct Hc as (c0 & <- & Hc0). rewrite decorate_name.
        rewrite Forall_forall in Wn. apply Wn. exact Hc0.
      + apply sorted_names_of. rewrite !map_map. cbn [entry_of fst].
        unfold names_sorted in Ws. erewrite map_ext; [exact Ws|]. intro c. cbn. apply decorate_name.
    - (* symbolic link *)
      cbn in Hh. rewrite Hh. apply Base; [reflexivity|]. cbn [payload_okb].
      apply andb_true_iff. split; [exact P6|apply N.ltb_lt; exact P7].
    - apply Base; [reflexivity|]. cbn [payload_okb]. apply N.ltb_lt. exact P5.
    - apply Base; [reflexivity|]. cbn [payload_okb]. apply N.ltb_lt. exact P5.
    - apply Base; reflexivity.
    - apply Base; reflexivity.
  Qed.

  Theorem post_tree_representable_s : representable bs (to_img fb xa pp) = true.
  Proof.
    pose proof arr_len as AL. destruct facts as (st & R & Er & Ef & El & I & P). fold root arr in I, P, El.
    assert (Len : length (to_img fb xa pp) = length arr) by (unfold to_img; apply map_length).
    assert (Pos : (1 <= length arr)%nat) by lia.
    unfold representable. rewrite !andb_true_iff. split; [split; [split; [split|]|]|].
    - apply negb_true_iff, N.eqb_neq. exact in_bs.
    - apply N.leb_le. unfold nlen. lia.
    - apply N.ltb_lt. unfold nlen, U32 in *. lia.
    - unfold get, nlen. rewrite Len. destruct (N.eqb_spec (N.of_nat (length arr)) 0) as [E|E]; [lia|].
      replace (N.to_nat (N.of_nat (length arr) - 1)) with (length arr - 1)%nat by lia.
      unfold to_img. fold arr root. rewrite nth_error_map, (inv_last _ _ I). cbn [option_map].
      unfold node_img. cbn [lookup_path]. pose proof root0_dir as D.
      unfold root. rewrite Er. destruct root0 as [nm a ch]. cbn [decorate]. unfold is_dir in D. cbn in D.
      apply ftype_eqb_eq in D. cbn [set_post a_type]. rewrite D. reflexivity.
    - apply nodes_okb_intro. intros j n Hn. apply node_ok. exact Hn.
  Qed.
End Repr.

Theorem post_tree_representable_l : forall bs d ops fs pp fb xa,
  input_okb bs d ops = true ->
  run_adds d (fs_init d) ops = Some fs ->
  post_process fs = POk pp ->
  attached_okb bs fb xa pp = true ->
  representable bs (to_img fb xa pp) = true.
Proof. intros. eapply post_tree_representable_s; eauto. Qed.
