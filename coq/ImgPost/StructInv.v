(* ImgPost — what lib/fstree guarantees about the tree it builds WITHOUT any bound on the input: children strictly
   sorted (hence distinct) at every level and link counts >= 1.  (TreeInv.wf is the same invariant together with the
   ranges that come from the input bounds.) *)
From Coq Require Import List NArith ZArith Bool Lia Sorted ZifyBool ZifyNat ZifyN.
From SqfsV Require Import C11.StrOrder C11.FstreeModel C11.PostModel C11.OrderProofs C11.TreeProofs C11.PostProofs.
From SqfsV Require Import ImgPost.Bridge ImgPost.InputOk ImgPost.TreeInv ImgPost.ResolveInv.
Import ListNotations.
Local Open Scope N_scope.

Inductive swf : tnode -> Prop :=
| swf_node nm a ch : 1 <= a_links a -> names_sorted ch -> Forall swf ch -> swf (TNode nm a ch).

Lemma swf_inv nm a ch : swf (TNode nm a ch) -> 1 <= a_links a /\ names_sorted ch /\ Forall swf ch.
Proof. intro H. inversion H; subst. tauto. Qed.

Lemma swf_snames : forall n, swf n -> snames n.
Proof.
  induction n as [nm a ch IH] using tnode_ind'. intro W.
  destruct (swf_inv _ _ _ W) as (_ & W2 & W3). constructor; [exact W2|].
  rewrite Forall_forall in *. intros c Hc. apply IH; auto.
Qed.

Lemma swf_lookup : forall q n nd, swf n -> lookup_path q n = Some nd -> swf nd.
Proof.
  induction q as [|c q IH]; intros n nd W L.
  - cbn in L. injection L as <-. exact W.
  - destruct n as [nm a ch]. rewrite lookup_cons in L. destruct (negb _); [discriminate|].
    destruct (find_child c ch) as [x|] eqn:F; [|discriminate].
    destruct (swf_inv _ _ _ W) as (_ & _ & W3). rewrite Forall_forall in W3.
    eapply IH; [|exact L]. apply W3. eapply find_child_in; eauto.
Qed.

Lemma mknode_swf nm e x n : mknode nm e x = Some n -> swf n /\ node_name n = nm.
Proof.
  unfold mknode.
  destruct (if e_hard e then match x with Some x0 => canon_comps x0 | None => None end else Some []); [|discriminate].
  intro H. injection H as <-. split; [|reflexivity]. constructor; [|constructor|constructor].
  cbn [a_links]. destruct (ftype_eqb _ FDir); lia.
Qed.

Lemma implicit_dir_swf d nm : swf (implicit_dir d nm).
Proof. unfold implicit_dir. constructor; [cbn; lia|constructor|constructor]. Qed.

Lemma fill_dir_swf c e c' : swf c -> fill_dir c e = Some c' -> swf c' /\ node_name c' = node_name c.
Proof.
  destruct c as [nm a ch]. unfold fill_dir.
  destruct (ftype_eqb (a_type a) FDir && ftype_eqb (e_type e) FDir && a_implicit a); [|discriminate].
  intros W H. injection H as <-. destruct (swf_inv _ _ _ W) as (W1 & W2 & W3).
  split; [|reflexivity]. constructor; auto.
Qed.

Lemma swf_insert nm a ch x :
  swf (TNode nm a ch) -> swf x -> find_child (node_name x) ch = None -> swf (TNode nm (inc_links a) (insert_sorted x ch)).
Proof.
  intros W Wx F. destruct (swf_inv _ _ _ W) as (W1 & W2 & W3). constructor.
  - cbn [inc_links a_links]. lia.
  - apply insert_sorted_names; auto. apply find_child_none_notin. exact F.
  - apply insert_sorted_Forall; auto.
Qed.

Lemma swf_replace nm a ch c x x' :
  swf (TNode nm a ch) -> find_child c ch = Some x -> swf x' -> node_name x' = node_name x ->
  swf (TNode nm a (replace_child c x' ch)).
Proof.
  intros W F Wx Nx. destruct (swf_inv _ _ _ W) as (W1 & W2 & W3).
  pose proof (find_child_name _ _ _ F) as Hc. constructor.
  - exact W1.
  - unfold names_sorted. rewrite replace_child_names by congruence. exact W2.
  - apply replace_child_Forall; auto.
Qed.

Lemma add_path_swf d : forall comps e x n n',
  swf n -> add_path d comps e x n = Some n' -> swf n' /\ node_name n' = node_name n.
Proof.
  induction comps as [|c rest IH]; intros e x n n' W H; destruct n as [nm a ch]; cbn [add_path] in H.
  - destruct (negb (ftype_eqb (a_type a) FDir)); discriminate.
  - destruct (negb (ftype_eqb (a_type a) FDir)); [discriminate|].
    destruct (swf_inv _ _ _ W) as (W1 & W2 & W3).
    destruct rest as [|c2 rest'].
    + destruct (find_child c ch) as [y|] eqn:F.
      * destruct (fill_dir y e) as [y'|] eqn:FD; [|discriminate]. injection H as <-.
        assert (Wy : swf y) by (rewrite Forall_forall in W3; apply W3; eapply find_child_in; eauto).
        destruct (fill_dir_swf y e y' Wy FD) as (Wy' & Ny').
        split; [|reflexivity]. eapply swf_replace; eauto.
      * destruct (mknode c e x) as [y|] eqn:MK; [|discriminate]. injection H as <-.
        destruct (mknode_swf c e x y MK) as [Wy Ny].
        split; [|reflexivity]. apply swf_insert; auto. rewrite Ny. exact F.
    + destruct (find_child c ch) as [y|] eqn:F.
      * destruct (add_path d (c2 :: rest') e x y) as [y'|] eqn:AP; [|discriminate]. injection H as <-.
        assert (Wy : swf y) by (rewrite Forall_forall in W3; apply W3; eapply find_child_in; eauto).
        destruct (IH e x y y' Wy AP) as [Wy' Ny'].
        split; [|reflexivity]. eapply swf_replace; eauto.
      * destruct (add_path d (c2 :: rest') e x (implicit_dir d c)) as [y'|] eqn:AP; [|discriminate]. injection H as <-.
        destruct (IH e x _ y' (implicit_dir_swf d c) AP) as [Wy' Ny'].
        cbn [implicit_dir node_name] in Ny'.
        split; [|reflexivity]. apply swf_insert; auto. rewrite Ny'. exact F.
Qed.

Lemma fs_add_swf d fs e x fs' : swf (fs_root fs) -> fs_add d fs e x = Some fs' -> swf (fs_root fs').
Proof.
  intros W H. unfold fs_add in H.
  destruct (add_generic d (fs_root fs) e x) as [r|] eqn:A; [|discriminate]. injection H as <-. cbn [fs_root].
  unfold add_generic in A.
  destruct (ftype_eqb (e_type e) FLnk && match x with None => true | Some _ => false end); [discriminate|].
  destruct (e_path e) as [|c p].
  - eapply fill_dir_swf; eauto.
  - eapply add_path_swf; eauto.
Qed.

Lemma init_swf d : swf (fs_root (fs_init d)).
Proof. unfold fs_init. cbn [fs_root]. constructor; [cbn; lia|constructor|constructor]. Qed.

Lemma run_adds_swf d : forall ops fs fs', swf (fs_root fs) -> run_adds d fs ops = Some fs' -> swf (fs_root fs').
Proof.
  induction ops as [|[e x] r IH]; intros fs fs' W H; cbn [run_adds] in H.
  - injection H as <-. exact W.
  - destruct (fs_add d fs e x) as [fs1|] eqn:A; [|discriminate].
    apply (IH fs1 fs'); [eapply fs_add_swf; eauto|exact H].
Qed.
