(* ImgPost — the path-level view of a packing run.  Definitions only.

   Reader side: the tree read back from the tables ([Img.TreeModel.ltree]) flattened, in directory order, to
     path |-> (what stat reports for that path, inode number)
   where two paths are hard links of each other iff they carry the same inode number.

   Packer side: what the add operations denote.  The tree built by fstree_add_generic (BEFORE post-processing), where
   a hard link entry stands for the node its target path leads to, following further hard links ([resolves]); the
   identity of a file is the path of that node, so two paths are hard links of each other iff they resolve to the same
   node.  [denotes] fixes the flattening completely: the paths are all nodes of the tree in depth-first child order, and
   each carries the attributes of the node it resolves to.  Inode numbers, link counts and parent numbers are not part
   of this view (they are compared against the post-processed tree by tree_roundtrip). *)
From Coq Require Import List NArith Bool.
From SqfsV Require Import C01.GenC01 C01.InodeModel Img.TreeModel.
From SqfsV Require Import C11.StrOrder C11.FstreeModel C11.PostModel ImgPost.Bridge.
Import ListNotations.
Local Open Scope N_scope.

(* what a reader reports for one path: type and permission bits, owner (through the id table), mtime, xattr index,
   and per type the symlink target / device number / file location, size and block list *)
Record pview := mkPv {
  pv_mode : N; pv_uid : option N; pv_gid : option N; pv_mtime : N; pv_xattr : N; pv_kind : lkind }.

(* the parent inode number of a directory inode is not a property of the path *)
Definition strip_kind (k : lkind) : lkind := match k with LDir _ => LDir 0 | _ => k end.

Definition pview_of_lview (v : lview) : pview :=
  mkPv (lv_mode v) (lv_uid v) (lv_gid v) (lv_mtime v) (lv_xattr v) (strip_kind (lv_kind v)).

(* ---- reader side ---- *)
Fixpoint flat_lt (p : path) (t : ltree) : list (path * pview * N) :=
  match t with
  | LT v ents =>
      (p, pview_of_lview v, lv_ino v) ::
      concat (map (fun e => match e with (nm, s) => flat_lt (p ++ [nm]) s end) ents)
  end.

(* ---- packer side ---- *)

(* the node a path stands for: hard links are followed (fstree_resolve_hard_links' meaning, without its bookkeeping) *)
Inductive resolves (root : tnode) : path -> path -> Prop :=
| rs_here p nd : lookup_path p root = Some nd -> is_hardlink nd = false -> resolves root p p
| rs_step p nd t : lookup_path p root = Some nd -> is_hardlink nd = true ->
                   resolves root (a_hardtgt (node_attr nd)) t -> resolves root p t.

Section Denote.
  Variable fb : path -> ibody.    (* file data location per regular file, as in Bridge.to_img *)
  Variable xa : path -> N.

  (* the attributes of the node [nd] found at path [id] *)
  Definition pview_of_node (id : path) (nd : tnode) : pview :=
    let a := node_attr nd in
    mkPv (type_bits (a_type a) + a_perm a) (Some (a_uid a)) (Some (a_gid a)) (a_mtime a) (xa id)
         (match a_type a with
          | FDir => LDir 0
          | FReg => lkind_of_body (fb id)
          | FLnk => LSlink (a_target a)
          | FBlk => LDev false (a_devno a)
          | FChr => LDev true (a_devno a)
          | FFifo => LIpc false
          | FSock => LIpc true
          end).

  (* all node paths, depth first in child order *)
  Fixpoint all_paths (pp : path) (n : tnode) : list path :=
    match n with
    | TNode _ _ ch =>
        pp :: (if is_dir n
               then concat (map (fun c => all_paths (pp ++ [node_name c]) c) ch)
               else [])
    end.

  (* fl is the flattening of the tree the adds built: (path, attributes of the node it resolves to, that node) *)
  Definition denotes (root : tnode) (fl : list (path * pview * path)) : Prop :=
    map (fun x => fst (fst x)) fl = all_paths [] root /\
    Forall (fun x => let '(p, v, id) := x in
                     resolves root p id /\
                     exists nd, lookup_path id root = Some nd /\ v = pview_of_node id nd) fl.
End Denote.

(* paths that are hard links of each other *)
Definition group_of {K : Type} (eqb : K -> K -> bool) (fl : list (path * pview * K)) (k : K) : list path :=
  map (fun x => fst (fst x)) (filter (fun x => eqb (snd x) k) fl).
