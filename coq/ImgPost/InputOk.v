(* ImgPost — the bounds on the INPUT of a packing run under which the post-processed tree is in the domain of the
   serializer theorems ([Img.TreeModel.representable]).  Definitions only; all of them are booleans.

   Everything [representable] asks that lib/fstree does not establish by itself is listed here:
     - field ranges of the entries handed to fstree_add_generic and of the fstree defaults (tree_node_t stores uid,
       gid in 32 bits, the mode in 16 bits of which 12 are permission bits, the inode stores devno in 32 bits),
     - every path component is a name sqfs_dir_writer_add_entry accepts (1 .. 65536 bytes, no NUL: a C string),
     - symbolic link targets are byte strings shorter than 2^32,
     - the number of nodes and links: every add creates at most one node per path component and queues at most one
       hard link; components + adds + 3 < 2^32 bounds the number of inodes, every directory's entry count + 2 and
       every link count (lib/fstree refuses 2^32 inodes and link counts of 2^32 - 1 itself: "Too many inodes" /
       EMLINK — those refusals are not part of the C11 model, so the bound is an input bound here),
     - the block size is not 0,
     - what the rest of the packer attaches to the nodes afterwards: the inode the block processor leaves for every
       regular file in fs->files meets [file_body_okb] (C08 / C02), every xattr index is a 32 bit value. *)
From Coq Require Import List NArith Bool.
From SqfsV Require Import C01.Res C01.InodeModel C01.InodeProofs Img.TreeModel.
From SqfsV Require Import C11.StrOrder C11.FstreeModel C11.PostModel ImgPost.Bridge.
Import ListNotations.
Local Open Scope N_scope.

Definition U32 : N := 4294967296.

Definition defaults_okb (d : fsdefaults) : bool :=
  (fd_perm d <? 4096) && (fd_uid d <? U32) && (fd_gid d <? U32) && (fd_mtime d <? U32).

(* one fstree_add_generic call *)
Definition op_okb (o : op) : bool :=
  let (e, x) := o in
  (e_perm e <? 4096) && (e_uid e <? U32) && (e_gid e <? U32) &&
  forallb name_okb (e_path e) &&
  (if e_hard e then true
   else match e_type e with
        | FLnk => match x with Some t => bytesb t && (nlen t <? U32) | None => true end
        | FBlk | FChr => e_rdev e <? U32
        | _ => true
        end).

(* number of path components of all adds: an upper bound for the number of nodes created *)
Definition ops_size (ops : list op) : nat :=
  fold_right (fun o a => (length (e_path (fst o)) + a)%nat) O ops.

Definition input_okb (bs : N) (d : fsdefaults) (ops : list op) : bool :=
  negb (bs =? 0) && defaults_okb d && forallb op_okb ops &&
  (N.of_nat (ops_size ops + length ops) + 3 <? U32).

(* what the packer attaches to the nodes after the adds: file inodes (for fs->files) and xattr indices *)
Definition attached_okb (bs : N) (fb : path -> ibody) (xa : path -> N) (pp : ppout) : bool :=
  forallb (fun p => file_body_okb bs (fb p)) (pp_files pp) &&
  forallb (fun p => xa p <? U32) (pp_inodes pp).
