(* ImgPost — pack_paths_roundtrip: from the packer's add calls to the reader's view.  Composition of
   post_tree_representable, Img.tree_roundtrip and the flattening lemmas of PathsProofs.v. *)
From Coq Require Import List NArith ZArith Bool Arith Lia Sorted Permutation ZifyBool ZifyNat ZifyN.
From SqfsV Require C03.Common.
From SqfsV Require Import C01.GenC01 C01.Res C01.InodeModel C01.InodeProofs Img.TreeModel Img.TreeRT.
From SqfsV Require Import C11.StrOrder C11.FstreeModel C11.PostModel C11.OrderProofs C11.TreeProofs C11.PostProofs.
From SqfsV Require Import ImgPost.Bridge ImgPost.InputOk ImgPost.TreeInv ImgPost.ResolveInv ImgPost.ListPos
  ImgPost.AllocInv ImgPost.ReorderInv ImgPost.BridgeProofs ImgPost.PathsModel ImgPost.PathsProofs.
Import ListNotations.
Local Open Scope N_scope.

(* the targets fstree_resolve_hard_links stored, seen from the decorated tree *)
Lemma post_targets root0 unres st :
  wf root0 -> links_queued root0 unres -> resolve_all root0 unres (mkRs [] []) = POk st ->
  forall dp nd c, lookup_path dp (decorate st [] root0) = Some nd -> is_dir nd = true -> In c (node_children nd) ->
    is_hardlink c = true -> exists t, a_resolved (node_attr c) = Some t /\ good_target (decorate st [] root0) t.
Proof.
  intros W Q R dp nd c L Dn Hc Hh.
  assert (S1 : snames (decorate st [] root0)) by (apply snames_decorate, wf_snames; exact W).
  pose proof (snames_lookup dp _ nd S1 L) as Sn. destruct nd as [nm a ch]. destruct (snames_inv _ _ _ Sn) as [Sn1 _].
  pose proof (find_child_of_in ch c (sorted_names_nodup _ Sn1) Hc) as F.
  pose proof (lookup_app1 dp _ _ c L Dn F) as Lc.
  exact (resolved_links root0 unres st Q R _ c Lc Hh).
Qed.

Lemma ino_of_inj arr x y : ino_of arr x = ino_of arr y -> ino_of arr x <> 0 -> x = y.
Proof.
  unfold ino_of. destruct (index_of x arr) as [i|] eqn:Ex; [|congruence].
  destruct (index_of y arr) as [j|] eqn:Ey; [|lia].
  intros E _. assert (i = j) by lia. subst j.
  apply index_of_nth in Ex. apply index_of_nth in Ey. congruence.
Qed.

Section RT.
  Variable compress : list N -> Common.cres.
  Variable uncompress : list N -> option (list N).
  Hypothesis compress_ok :
    forall b c, compress b = Common.CData c -> Common.lenN c <= Common.lenN b /\ uncompress c = Some b.
  Variable limit : N.
  Hypothesis limit_ok : limit <= 65536.

  Theorem pack_paths_roundtrip_l : forall bs d ops fs pp fb xa img,
    input_okb bs d ops = true ->
    run_adds d (fs_init d) ops = Some fs ->
    post_process fs = POk pp ->
    attached_okb bs fb xa pp = true ->
    serialize_fstree compress limit (to_img fb xa pp) = Ok img ->
    trace_fits img = true ->
    exists lt fl,
      read_tree uncompress bs (si_itbl img) (si_dtbl img) (si_ids img) (length (pp_inodes pp)) (si_root img) = Some lt /\
      denotes fb xa (fs_root fs) fl /\
      flat_lt [] lt = map (number (pp_inodes pp)) fl /\
      (forall x y, In x fl -> In y fl ->
                   ino_of (pp_inodes pp) (snd x) = ino_of (pp_inodes pp) (snd y) -> snd x = snd y).
  Proof.
    intros bs d ops fs pp fb xa img Hin Hrun Hpost Hatt Hser Hfit.
    pose proof (post_tree_representable_l bs d ops fs pp fb xa Hin Hrun Hpost Hatt) as Rep.
    destruct (tree_roundtrip_l compress uncompress compress_ok limit limit_ok bs _ img Rep Hser Hfit)
      as (lt & Sp & Rd).
    destruct (facts bs d ops fs pp Hin Hrun Hpost) as (st & R & Er & Ef & El & I & P).
    pose proof (root0_wf bs d ops fs Hin Hrun) as W.
    pose proof (root0_queued d ops fs Hrun) as Q.
    pose proof (root0_dir d ops fs Hrun) as D0.
    set (arr := pp_inodes pp) in *. set (root := pp_root pp) in *.
    assert (Len : length (to_img fb xa pp) = length arr) by (unfold to_img; apply map_length).
    rewrite Len in *.
    assert (S1 : snames root) by (rewrite Er; apply snames_decorate, wf_snames; exact W).
    assert (TG : forall dp nd c, lookup_path dp root = Some nd -> is_dir nd = true -> In c (node_children nd) ->
                   is_hardlink c = true -> exists t, a_resolved (node_attr c) = Some t /\ good_target root t).
    { rewrite Er. apply (post_targets (fs_root fs) (fs_unres fs) st W Q R). }
    (* the root: stored last, number = number of inodes *)
    assert (Lr : lookup_path [] root = Some root) by reflexivity.
    assert (Hr : is_hardlink root = false).
    { rewrite Er, decorate_is_hardlink. destruct (is_hardlink (fs_root fs)) eqn:E; [|reflexivity].
      apply is_hardlink_not_dir in E. congruence. }
    assert (Pos : (1 <= length arr)%nat).
    { pose proof (inv_last _ _ I) as L. fold arr in L. destruct arr; [discriminate|]. simpl. lia. }
    assert (Ino : ino_of arr [] = nlen (to_img fb xa pp)).
    { unfold ino_of, nlen. rewrite Len.
      rewrite (nth_index_nodup arr (length arr - 1) [] (inv_nodup _ _ I) (inv_last _ _ I)). lia. }
    pose proof (spec_of_node fb xa root arr S1 I P TG root [] Lr Hr (length arr)) as Sp'.
    rewrite Ino in Sp'. unfold nlen in Sp'. rewrite Len in Sp'.
    change (map (node_img fb xa arr root) arr) with (to_img fb xa pp) in Sp'.
    unfold nlen in Sp. rewrite Len in Sp. rewrite Sp' in Sp by lia. injection Sp as <-.
    exists (lt_of fb xa root arr [] root), (flat_pp fb xa root arr [] root).
    split; [exact Rd|].
    assert (Files : forall p, In p (file_list [] (decorate st [] (fs_root fs))) -> file_body_okb bs (fb p) = true).
    { intros p Hp. unfold attached_okb in Hatt. apply andb_true_iff in Hatt. destruct Hatt as [Af _].
      rewrite forallb_forall in Af. apply Af. rewrite Ef, Er. exact Hp. }
    assert (H0 : is_hardlink (fs_root fs) = false).
    { destruct (is_hardlink (fs_root fs)) eqn:E; [|reflexivity]. apply is_hardlink_not_dir in E. congruence. }
    destruct (flat_pp_denotes bs fb xa (fs_root fs) (fs_unres fs) st arr W Q R Files (fs_root fs) [] eq_refl H0)
      as [D1 D2].
    rewrite <- Er in D1, D2.
    split; [split; [exact D1|]|split].
    - eapply Forall_impl; [|exact D2]. intros [[p v] id] H. exact H.
    - apply flat_lt_of.
    - intros x y Hx Hy E. rewrite Forall_forall in D2.
      apply (ino_of_inj arr _ _ E).
      pose proof (D2 x Hx) as Dx. destruct x as [[p v] id]. cbn [snd]. destruct Dx as [Rs _].
      destruct (resolves_end _ _ _ Rs) as (nd & L & Hh).
      assert (Nm : numbered root id).
      { exists (decorate st id nd). rewrite Er, lookup_decorate, L, decorate_is_hardlink. auto. }
      destruct (index_of_in id arr (inv_complete _ _ I id Nm)) as [k Hk]. unfold ino_of. rewrite Hk. lia.
  Qed.
End RT.
