(* ImgPost — facts about fstree_resolve_hard_links (C11 model [resolve_all]) and the tree with the resolved targets
   and link counts written back ([decorate]): a successful resolution leaves every queued link with a target that is a
   node of the tree, not a hard link and not a directory; decoration keeps names, types and the shape of the tree. *)
From Coq Require Import List NArith ZArith Bool Lia Sorted ZifyBool ZifyNat ZifyN.
From SqfsV Require Import C11.StrOrder C11.FstreeModel C11.PostModel C11.OrderProofs C11.TreeProofs C11.PostProofs.
From SqfsV Require Import ImgPost.Bridge ImgPost.InputOk ImgPost.TreeInv.
Import ListNotations.

(* ------------------------------------------------------------------ decorate *)

Lemma decorate_name st pp n : node_name (decorate st pp n) = node_name n.
Proof. destruct n; reflexivity. Qed.

Lemma decorate_type st pp n : a_type (node_attr (decorate st pp n)) = a_type (node_attr n).
Proof. destruct n; reflexivity. Qed.

Lemma decorate_is_dir st pp n : is_dir (decorate st pp n) = is_dir n.
Proof. destruct n; reflexivity. Qed.

Lemma decorate_is_hardlink st pp n : is_hardlink (decorate st pp n) = is_hardlink n.
Proof. destruct n; reflexivity. Qed.

Lemma decorate_children st pp n :
  node_children (decorate st pp n) = map (fun c => decorate st (pp ++ [node_name c]) c) (node_children n).
Proof. destruct n; reflexivity. Qed.

Lemma decorate_resolved st pp n : a_resolved (node_attr (decorate st pp n)) = assoc_path pp (rs_res st).
Proof. destruct n; reflexivity. Qed.

Lemma decorate_links st pp n :
  a_links (node_attr (decorate st pp n)) = (a_links (node_attr n) + count_path pp (rs_cnt st))%N.
Proof. destruct n; reflexivity. Qed.

Lemma find_child_decorate st pp c : forall ch,
  find_child c (map (fun x => decorate st (pp ++ [node_name x]) x) ch) =
  option_map (decorate st (pp ++ [c])) (find_child c ch).
Proof.
  induction ch as [|x r IH]; simpl; [reflexivity|].
  rewrite decorate_name. destruct (str_eqb (node_name x) c) eqn:E; [|exact IH].
  apply str_eqb_eq in E. subst c. reflexivity.
Qed.

Lemma lookup_decorate st : forall q pp n,
  lookup_path q (decorate st pp n) = option_map (decorate st (pp ++ q)) (lookup_path q n).
Proof.
  induction q as [|c q IH]; intros pp n.
  - simpl. rewrite app_nil_r. reflexivity.
  - cbn [lookup_path]. rewrite decorate_is_dir. destruct (negb (is_dir n)); [reflexivity|].
    rewrite decorate_children, find_child_decorate.
    destruct (find_child c (node_children n)) as [x|]; [|reflexivity].
    cbn [option_map]. rewrite IH, <- app_assoc. reflexivity.
Qed.

Lemma lookup_decorate_root st q root nd :
  lookup_path q (decorate st [] root) = Some nd ->
  exists nd0, lookup_path q root = Some nd0 /\ nd = decorate st q nd0.
Proof.
  rewrite lookup_decorate. destruct (lookup_path q root) as [nd0|]; [|discriminate].
  cbn. intro H. injection H as <-. eauto.
Qed.

(* ------------------------------------------------------------------ resolve *)

(* a path fstree_resolve_hard_links may store in target_node *)
Definition good_target (root : tnode) (t : path) : Prop :=
  exists nd, lookup_path t root = Some nd /\ is_hardlink nd = false /\ is_dir nd = false.

Lemma resolve_walk_good root res start : forall fuel cur curnode t,
  lookup_path cur root = Some curnode ->
  resolve_walk fuel root res start cur curnode = ROk t -> good_target root t.
Proof.
  induction fuel as [|f IH]; intros cur curnode t L H; [discriminate|].
  cbn [resolve_walk] in H.
  destruct (negb (is_hardlink curnode)) eqn:E.
  - destruct (is_dir curnode) eqn:D; [discriminate|]. injection H as <-.
    exists curnode. apply negb_true_iff in E. auto.
  - set (nxt := match assoc_path cur res with Some t0 => t0 | None => a_hardtgt (node_attr curnode) end) in *.
    destruct (lookup_path nxt root) as [nd|] eqn:Ln; [|discriminate].
    destruct (path_eqb nxt start); [discriminate|].
    eapply IH; eauto.
Qed.

Lemma resolve_all_good root : forall l st st',
  Forall (fun e => good_target root (snd e)) (rs_res st) ->
  resolve_all root l st = POk st' ->
  Forall (fun e => good_target root (snd e)) (rs_res st') /\
  (forall p, In p l \/ In p (map fst (rs_res st)) -> In p (map fst (rs_res st'))) /\
  length (rs_cnt st') = (length (rs_cnt st) + length l)%nat.
Proof.
  induction l as [|p r IH]; intros st st' G H; cbn [resolve_all] in H.
  - injection H as <-. split; [exact G|]. split; [intros p [[]|Hp]; exact Hp|simpl; lia].
  - destruct (lookup_path p root) as [sn|] eqn:L; [|discriminate].
    destruct (resolve_walk (S (tree_size root)) root (rs_res st) p p sn) as [t| |] eqn:W; try discriminate.
    pose proof (resolve_walk_good root (rs_res st) p _ p sn t L W) as Gt.
    destruct (IH (mkRs ((p, t) :: rs_res st) (t :: rs_cnt st)) st' (Forall_cons (p, t) Gt G) H) as (G' & M & C).
    split; [exact G'|]. split.
    + intros q [[<-|Hq]|Hq]; apply M; cbn [rs_res map fst].
      * right. left. reflexivity.
      * left. exact Hq.
      * right. right. exact Hq.
    + cbn [rs_cnt length] in C. simpl. lia.
Qed.

Lemma assoc_path_in : forall p m, In p (map fst m) -> exists t, assoc_path p m = Some t /\ In (p, t) m.
Proof.
  induction m as [|[q t] r IH]; simpl; intros H; [tauto|].
  destruct (path_eqb q p) eqn:E.
  - apply path_eqb_eq in E. subst. eauto.
  - destruct H as [H|H]; [subst; rewrite path_eqb_refl in E; discriminate|].
    destruct (IH H) as (t' & A & B). eauto.
Qed.

Lemma count_path_le : forall p l, (count_path p l <= N.of_nat (length l))%N.
Proof.
  induction l as [|q r IH]; cbn [count_path length]; [lia|]. rewrite Nat2N.inj_succ. destruct (path_eqb q p); lia.
Qed.

(* what a successful resolution says about the decorated tree *)
Lemma resolved_links root unres st :
  links_queued root unres ->
  resolve_all root unres (mkRs [] []) = POk st ->
  forall p nd, lookup_path p (decorate st [] root) = Some nd -> is_hardlink nd = true ->
    exists t, a_resolved (node_attr nd) = Some t /\ good_target (decorate st [] root) t.
Proof.
  intros Q R p nd L Hh.
  destruct (lookup_decorate_root _ _ _ _ L) as (nd0 & L0 & ->).
  rewrite decorate_is_hardlink in Hh. rewrite decorate_resolved.
  destruct (resolve_all_good root unres (mkRs [] []) st (Forall_nil _) R) as (G & M & _).
  destruct (assoc_path_in p (rs_res st) (M p (or_introl (Q p nd0 L0 Hh)))) as (t & A & I).
  exists t. split; [exact A|].
  rewrite Forall_forall in G. destruct (G _ I) as (ndt & Lt & H1 & H2). cbn [snd] in Lt.
  exists (decorate st t ndt). rewrite lookup_decorate, Lt. cbn.
  rewrite decorate_is_hardlink, decorate_is_dir. auto.
Qed.

(* ------------------------------------------------------------------ hereditarily sorted names *)

Inductive snames : tnode -> Prop :=
| sn_node nm a ch : names_sorted ch -> Forall snames ch -> snames (TNode nm a ch).

Lemma wf_snames : forall n, wf n -> snames n.
Proof.
  induction n as [nm a ch IH] using tnode_ind'. intro W.
  destruct (wf_inv _ _ _ W) as (_ & _ & _ & W4 & W5). constructor; [exact W4|].
  rewrite Forall_forall in *. intros c Hc. apply IH; auto.
Qed.

Lemma snames_decorate st : forall n pp, snames n -> snames (decorate st pp n).
Proof.
  induction n as [nm a ch IH] using tnode_ind'. intros pp S. inversion S as [? ? ? S1 S2]; subst.
  cbn [decorate]. constructor.
  - unfold names_sorted in *. rewrite map_map.
    erewrite map_ext; [exact S1|]. intro c. apply decorate_name.
  - rewrite Forall_forall in *. intros c Hc. apply in_map_iff in Hc. destruct Hc as (c0 & <- & Hc0).
    apply IH; auto.
Qed.

Lemma snames_inv nm a ch : snames (TNode nm a ch) -> names_sorted ch /\ Forall snames ch.
Proof. intro H. inversion H; subst. tauto. Qed.

Lemma snames_lookup : forall q n nd, snames n -> lookup_path q n = Some nd -> snames nd.
Proof.
  induction q as [|c q IH]; intros n nd S L.
  - cbn in L. injection L as <-. exact S.
  - destruct n as [nm a ch]. rewrite lookup_cons in L. destruct (negb _); [discriminate|].
    destruct (find_child c ch) as [x|] eqn:F; [|discriminate].
    destruct (snames_inv _ _ _ S) as [_ S2]. rewrite Forall_forall in S2.
    eapply IH; [|exact L]. apply S2. eapply find_child_in; eauto.
Qed.

(* with distinct names, a child is found under its name *)
Lemma find_child_of_in : forall ch c, NoDup (map node_name ch) -> In c ch -> find_child (node_name c) ch = Some c.
Proof.
  induction ch as [|x r IH]; simpl; intros c Hn Hin; [tauto|].
  inversion Hn as [|? ? Hx Hr]; subst.
  destruct Hin as [->|Hin]; [rewrite str_eqb_refl; reflexivity|].
  destruct (str_eqb (node_name x) (node_name c)) eqn:E.
  - apply str_eqb_eq in E. exfalso. apply Hx. rewrite E. apply in_map. exact Hin.
  - apply IH; auto.
Qed.

Lemma lookup_app1 : forall q n nd c,
  lookup_path q n = Some nd -> is_dir nd = true -> find_child (node_name c) (node_children nd) = Some c ->
  lookup_path (q ++ [node_name c]) n = Some c.
Proof.
  induction q as [|b q IH]; intros n nd c L D F.
  - cbn in L. injection L as <-. cbn [app lookup_path]. rewrite D, F. reflexivity.
  - cbn [app lookup_path] in *. destruct (negb (is_dir n)); [discriminate|].
    destruct (find_child b (node_children n)) as [x|]; [|discriminate]. eapply IH; eauto.
Qed.
