(* ImgPost — the bridge between the model of lib/fstree (coq/C11: fstree_add_generic, fstree_post_process) and the
   model of lib/common/src/writer/serialize_fstree.c (coq/Img), whose input is the post-processed tree as the list
   of nodes in inode number order.  Definitions only.

   [to_img] is what sqfs_serialize_fstree reads from the fstree_t:

     fs->inodes[i], i < unique_inode_count     pp_inodes: position i = the node (named by its path) with number i+1
     n->mode                                   S_IFxxx of the node type + permission bits (C11 keeps the two apart)
     n->uid, gid, mod_time, link_count         the attributes of the decorated tree (link_count after
                                               fstree_resolve_hard_links = a_links of pp_root)
     n->xattr_idx                              [xa p]: set by the packer after the add (abstract, as in coq/Img)
     n->data.file.inode                        [fb p]: what the block processor left (abstract, as in coq/Img)
     n->data.children / it->next               children in list order
     it->name, tgt->inode_num                  (name, number of the child; for S_ISLNK && FLAG_LINK_IS_HARD the number
                                               of it->data.target_node = a_resolved)
     n->parent->inode_num (0 for the root)     number of the path without its last component
     n->data.target / n->data.devno            a_target / a_devno

   A node the C code could not serialise (a path in fs->inodes that names no node, a hard link entry in fs->inodes:
   assert in tree_node_to_inode, an unresolved hard link child: target_node is not a node) becomes [bad_node] resp.
   the child number 0, which [Img.TreeModel.representable] rejects; theorem post_tree_representable shows that this
   never happens for a tree built by fs_add and post_process. *)
From Coq Require Import List NArith Bool.
From SqfsV Require Import C01.GenC01 C01.InodeModel Img.TreeModel.
From SqfsV Require Import C11.StrOrder C11.FstreeModel C11.PostModel.
Import ListNotations.
Local Open Scope N_scope.

(* S_IFxxx of a node type (sys/stat.h values as C01/GenC01.v generates them) *)
Definition type_bits (t : ftype) : N :=
  match t with
  | FReg => c_S_IFREG
  | FDir => c_S_IFDIR
  | FLnk => c_S_IFLNK
  | FBlk => c_S_IFBLK
  | FChr => c_S_IFCHR
  | FFifo => c_S_IFIFO
  | FSock => c_S_IFSOCK
  end.

(* tree_node_t.inode_num of the node named p: position in fs->inodes + 1; 0 = none (calloc value) *)
Definition ino_of (arr : list path) (p : path) : N :=
  match PostModel.index_of p arr with
  | Some k => N.of_nat (S k)
  | None => 0
  end.

(* one iteration of the loop of write_dir_entries: (it->name, tgt->inode_num) *)
Definition entry_of (arr : list path) (pp : path) (c : tnode) : list N * N :=
  (node_name c,
   if is_hardlink c then
     match a_resolved (node_attr c) with
     | Some t => ino_of arr t
     | None => 0
     end
   else ino_of arr (pp ++ [node_name c])).

(* node->parent == NULL ? 0 : node->parent->inode_num *)
Definition parent_ino (arr : list path) (p : path) : N :=
  match p with
  | [] => 0
  | _ => ino_of arr (removelast p)
  end.

Definition bad_node : fnode := mkFnode 0 0 0 0 0 0 (PIpc false).

Section ToImg.
  Variable fb : path -> ibody.    (* n->data.file.inode of the regular file at that path *)
  Variable xa : path -> N.        (* n->xattr_idx of the node at that path *)

  Definition node_img (arr : list path) (root : tnode) (p : path) : fnode :=
    match lookup_path p root with
    | None => bad_node
    | Some (TNode _ a ch) =>
        let mk := mkFnode (type_bits (a_type a) + a_perm a) (a_uid a) (a_gid a) (a_mtime a) (a_links a) (xa p) in
        match a_type a with
        | FDir => mk (PDir (parent_ino arr p) (map (entry_of arr p) ch))
        | FReg => mk (PFile (fb p))
        | FLnk => if a_hard a then bad_node else mk (PSlink (a_target a))
        | FBlk => mk (PDev false (a_devno a))
        | FChr => mk (PDev true (a_devno a))
        | FFifo => mk (PIpc false)
        | FSock => mk (PIpc true)
        end
    end.

  Definition to_img (pp : ppout) : TreeModel.fstree :=
    map (node_img (pp_inodes pp) (pp_root pp)) (pp_inodes pp).
End ToImg.

(* ------------------------------------------------------------------ *)
(* a packing run at the level of lib/fstree: the add operations         *)
(* ------------------------------------------------------------------ *)

(* one fstree_add_generic call: the entry and the extra string (symlink target / hard link target / input file) *)
Definition op := (gent * option (list N))%type.

(* all adds succeed (the packers stop at the first failing add) *)
Fixpoint run_adds (d : fsdefaults) (fs : fstree) (ops : list op) : option fstree :=
  match ops with
  | [] => Some fs
  | (e, x) :: r =>
      match fs_add d fs e x with
      | Some fs' => run_adds d fs' r
      | None => None
      end
  end.

(* index of the first failing add, for the tie *)
Fixpoint run_adds_idx (d : fsdefaults) (fs : fstree) (ops : list op) (i : nat) : fstree + nat :=
  match ops with
  | [] => inl fs
  | (e, x) :: r =>
      match fs_add d fs e x with
      | Some fs' => run_adds_idx d fs' r (S i)
      | None => inr i
      end
  end.

(* fstree_init; fstree_add_generic*; fstree_post_process *)
Definition pack_tree (d : fsdefaults) (ops : list op) : option ppout :=
  match run_adds d (fs_init d) ops with
  | Some fs => match post_process fs with POk pp => Some pp | _ => None end
  | None => None
  end.
