(* ImgPost — positions in the inode array: facts about PostModel.index_of / remove_nth / insert_nth / move_to
   (the shift loop of reorder_hard_links) in terms of nth_error. *)
From Coq Require Import List NArith Bool Arith Lia Permutation.
From SqfsV Require Import C11.StrOrder C11.FstreeModel C11.PostModel C11.PostProofs.
Import ListNotations.

Lemma index_of_nth : forall p l k, index_of p l = Some k -> nth_error l k = Some p.
Proof.
  induction l as [|q r IH]; simpl; intros k H; [discriminate|].
  destruct (path_eqb q p) eqn:E.
  - injection H as <-. apply path_eqb_eq in E. subst. reflexivity.
  - destruct (index_of p r) as [j|]; [|discriminate]. injection H as <-. simpl. auto.
Qed.

Lemma index_of_in : forall p l, In p l -> exists k, index_of p l = Some k.
Proof.
  induction l as [|q r IH]; simpl; intros H; [tauto|].
  destruct (path_eqb q p) eqn:E; [eauto|].
  destruct H as [H|H]; [subst; rewrite path_eqb_refl in E; discriminate|].
  destruct (IH H) as [k Hk]. rewrite Hk. simpl. eauto.
Qed.

Lemma index_of_none : forall p l, index_of p l = None -> ~ In p l.
Proof.
  intros p l H Hin. destruct (index_of_in p l Hin) as [k Hk]. congruence.
Qed.

Lemma nth_index_nodup : forall l k p, NoDup l -> nth_error l k = Some p -> index_of p l = Some k.
Proof.
  intros l k p Hn Hk.
  assert (Hin : In p l) by (eapply nth_error_In; eauto).
  destruct (index_of_in p l Hin) as [j Hj]. rewrite Hj. f_equal.
  apply index_of_nth in Hj.
  rewrite NoDup_nth_error in Hn. apply Hn; [|congruence].
  apply nth_error_Some. congruence.
Qed.

(* ---- the shift ---- *)

Lemma remove_nth_app : forall (X : list path) t C, remove_nth (length X) (X ++ t :: C) = X ++ C.
Proof. induction X as [|x X IH]; simpl; intros; auto. rewrite IH. reflexivity. Qed.

Lemma insert_nth_app : forall (A : list path) t R, insert_nth (length A) t (A ++ R) = A ++ t :: R.
Proof. induction A as [|x A IH]; simpl; intros; [destruct R; reflexivity|]. rewrite IH. reflexivity. Qed.

Lemma split_two : forall (arr : list path) i ti t, (i <= ti)%nat -> nth_error arr ti = Some t ->
  exists A B C, arr = A ++ B ++ t :: C /\ length A = i /\ length B = (ti - i)%nat.
Proof.
  intros arr i ti t Hi Hn. destruct (nth_error_split arr ti Hn) as (l1 & l2 & E & L).
  exists (firstn i l1), (skipn i l1), l2. split; [|split].
  - rewrite app_assoc, firstn_skipn. exact E.
  - rewrite firstn_length. lia.
  - rewrite skipn_length. lia.
Qed.

Lemma move_to_split : forall A B t C,
  move_to (A ++ B ++ t :: C) (length A + length B) (length A) = A ++ t :: B ++ C.
Proof.
  intros A B t C. unfold move_to.
  assert (E : nth_error (A ++ B ++ t :: C) (length A + length B) = Some t).
  { rewrite app_assoc, <- app_length, nth_error_app2 by lia. rewrite Nat.sub_diag. reflexivity. }
  rewrite E. rewrite app_assoc, <- app_length, remove_nth_app, <- app_assoc. apply insert_nth_app.
Qed.

Lemma move_to_perm : forall arr ti i t, (i <= ti)%nat -> nth_error arr ti = Some t ->
  Permutation (move_to arr ti i) arr.
Proof.
  intros arr ti i t Hi Hn. destruct (split_two arr i ti t Hi Hn) as (A & B & C & -> & LA & LB).
  replace ti with (length A + length B)%nat by lia. rewrite <- LA, move_to_split.
  apply Permutation_app_head. apply (Permutation_middle B C t).
Qed.

(* where the element at position k ends up *)
Definition shift (i ti k : nat) : nat :=
  if (k <? i)%nat then k else if (k <? ti)%nat then S k else if (k =? ti)%nat then i else k.

Lemma move_to_at : forall arr ti i t k x, (i <= ti)%nat -> nth_error arr ti = Some t ->
  nth_error arr k = Some x -> nth_error (move_to arr ti i) (shift i ti k) = Some x.
Proof.
  intros arr ti i t k x Hi Hn Hk. destruct (split_two arr i ti t Hi Hn) as (A & B & C & -> & LA & LB).
  replace ti with (length A + length B)%nat in * by lia. rewrite <- LA in *. rewrite move_to_split.
  unfold shift.
  destruct (k <? length A)%nat eqn:E1.
  - apply Nat.ltb_lt in E1. rewrite nth_error_app1 in * by lia. exact Hk.
  - apply Nat.ltb_ge in E1. rewrite nth_error_app2 in Hk by lia.
    destruct (k <? length A + length B)%nat eqn:E2.
    + apply Nat.ltb_lt in E2. rewrite nth_error_app1 in Hk by lia.
      rewrite nth_error_app2 by lia. replace (S k - length A)%nat with (S (k - length A)) by lia.
      cbn [nth_error]. rewrite nth_error_app1 by lia. exact Hk.
    + apply Nat.ltb_ge in E2. rewrite nth_error_app2 in Hk by lia.
      destruct (k =? length A + length B)%nat eqn:E3.
      * apply Nat.eqb_eq in E3. replace (k - length A - length B)%nat with O in Hk by lia. cbn in Hk.
        rewrite nth_error_app2 by lia. rewrite Nat.sub_diag. exact Hk.
      * apply Nat.eqb_neq in E3.
        rewrite nth_error_app2 by lia. replace (k - length A)%nat with (S (k - length A - 1)) by lia.
        cbn [nth_error]. rewrite nth_error_app2 by lia.
        replace (k - length A - length B)%nat with (S (k - length A - 1 - length B)) in Hk by lia.
        cbn [nth_error] in Hk. exact Hk.
Qed.

(* positions below i are not touched *)
Lemma move_to_below : forall arr ti i t k, (i <= ti)%nat -> nth_error arr ti = Some t -> (k < i)%nat ->
  nth_error (move_to arr ti i) k = nth_error arr k.
Proof.
  intros arr ti i t k Hi Hn Hk. destruct (split_two arr i ti t Hi Hn) as (A & B & C & -> & LA & LB).
  replace ti with (length A + length B)%nat in * by lia. rewrite <- LA in *. rewrite move_to_split.
  rewrite !nth_error_app1 by lia. reflexivity.
Qed.

Lemma last_nth : forall (l : list path) d, l <> [] -> nth_error l (length l - 1) = Some (last l d).
Proof.
  induction l as [|x r IH]; intros d H; [congruence|].
  destruct r as [|y r']; [reflexivity|].
  replace (length (x :: y :: r') - 1)%nat with (S (length (y :: r') - 1)) by (simpl; lia).
  cbn [nth_error]. rewrite (IH d) by discriminate. reflexivity.
Qed.
