(* ImgPost — from the tree of inode numbers to paths: the specification tree of the serializer's input
   ([Img.TreeModel.spec_tree] of [to_img pp]) flattens to what the add operations denote ([PathsModel.denotes]). *)
From Coq Require Import List NArith ZArith Bool Arith Lia Sorted Permutation ZifyBool ZifyNat ZifyN.
From SqfsV Require Import C01.GenC01 C01.Res C01.InodeModel C01.InodeProofs Img.TreeModel.
From SqfsV Require Import C11.StrOrder C11.FstreeModel C11.PostModel C11.OrderProofs C11.TreeProofs C11.PostProofs.
From SqfsV Require Import ImgPost.Bridge ImgPost.InputOk ImgPost.TreeInv ImgPost.ResolveInv ImgPost.ListPos
  ImgPost.AllocInv ImgPost.ReorderInv ImgPost.BridgeProofs ImgPost.PathsModel.
Import ListNotations.
Local Open Scope N_scope.

(* ------------------------------------------------------------------ resolves *)

Lemma resolves_end root p t : resolves root p t -> exists nd, lookup_path t root = Some nd /\ is_hardlink nd = false.
Proof. induction 1; eauto. Qed.

Lemma resolves_fix root t t' nd : lookup_path t root = Some nd -> is_hardlink nd = false -> resolves root t t' -> t' = t.
Proof. intros L H R. inversion R; subst; [reflexivity|]. congruence. Qed.

Lemma resolves_chain root p t0 t : resolves root p t0 -> resolves root t0 t -> resolves root p t.
Proof.
  intros R1 R2. destruct (resolves_end _ _ _ R1) as (nd & L & H).
  rewrite (resolves_fix _ _ _ _ L H R2). exact R1.
Qed.

Lemma resolves_fun root p t : resolves root p t -> forall t', resolves root p t' -> t' = t.
Proof.
  induction 1 as [p nd L H|p nd t L H R IH]; intros t' R'.
  - eapply resolves_fix; eauto.
  - inversion R' as [? nd' L' H'|? nd' ? L' H' R'']; subst; [congruence|].
    rewrite L in L'. injection L' as <-. apply IH. exact R''.
Qed.

Lemma assoc_path_some_in : forall p m t, assoc_path p m = Some t -> In (p, t) m.
Proof.
  induction m as [|[q t0] r IH]; simpl; intros t H; [discriminate|].
  destruct (path_eqb q p) eqn:E.
  - injection H as <-. apply path_eqb_eq in E. subst. left. reflexivity.
  - right. apply IH. exact H.
Qed.

Lemma resolve_walk_resolves root res start :
  (forall q t, In (q, t) res -> resolves root q t) ->
  forall fuel cur curnode t, lookup_path cur root = Some curnode ->
    resolve_walk fuel root res start cur curnode = ROk t -> resolves root cur t.
Proof.
  intros Hres. induction fuel as [|f IH]; intros cur curnode t L H; [discriminate|].
  cbn [resolve_walk] in H. destruct (negb (is_hardlink curnode)) eqn:E.
  - destruct (is_dir curnode); [discriminate|]. injection H as <-.
    apply negb_true_iff in E. eapply rs_here; eauto.
  - apply negb_false_iff in E.
    destruct (assoc_path cur res) as [t0|] eqn:A.
    + destruct (lookup_path t0 root) as [nd|] eqn:Ln; [|discriminate].
      destruct (path_eqb t0 start); [discriminate|].
      eapply resolves_chain; [apply Hres, assoc_path_some_in; exact A|]. eapply IH; eauto.
    + destruct (lookup_path (a_hardtgt (node_attr curnode)) root) as [nd|] eqn:Ln; [|discriminate].
      destruct (path_eqb _ start); [discriminate|].
      eapply rs_step; eauto.
Qed.

Lemma resolve_all_resolves root : forall l st st',
  (forall q t, In (q, t) (rs_res st) -> resolves root q t) ->
  resolve_all root l st = POk st' -> forall q t, In (q, t) (rs_res st') -> resolves root q t.
Proof.
  induction l as [|p r IH]; intros st st' G H; cbn [resolve_all] in H.
  - injection H as <-. exact G.
  - destruct (lookup_path p root) as [sn|] eqn:L; [|discriminate].
    destruct (resolve_walk (S (tree_size root)) root (rs_res st) p p sn) as [t| |] eqn:W; try discriminate.
    apply (IH (mkRs ((p, t) :: rs_res st) (t :: rs_cnt st)) st'); [|exact H].
    intros q t' [E|Hin]; [|apply G; exact Hin]. injection E as <- <-.
    eapply resolve_walk_resolves; eauto.
Qed.

(* ------------------------------------------------------------------ the specification tree of to_img *)

Section Spec.
  Variable fb : path -> ibody.
  Variable xa : path -> N.
  Variable root : tnode.            (* pp_root: the decorated tree *)
  Variable arr : list path.         (* pp_inodes *)
  Hypothesis Hsn : snames root.
  Hypothesis Hinv : Inv root arr.
  Hypothesis Hpd : PD root arr (length arr).
  Hypothesis Htg : forall dp nd c, lookup_path dp root = Some nd -> is_dir nd = true -> In c (node_children nd) ->
    is_hardlink c = true -> exists t, a_resolved (node_attr c) = Some t /\ good_target root t.

  Let t : TreeModel.fstree := map (node_img fb xa arr root) arr.

  Definition view_at (p : path) : lview := lview_of_fnode (ino_of arr p) (node_img fb xa arr root p).

  (* the tree below the node n found at path p *)
  Fixpoint lt_of (p : path) (n : tnode) : ltree :=
    match n with
    | TNode _ a ch =>
        LT (view_at p)
           (if ftype_eqb (a_type a) FDir
            then map (fun c => (node_name c,
                                if is_hardlink c
                                then LT (view_at (match a_resolved (node_attr c) with Some tg => tg | None => [] end)) []
                                else lt_of (p ++ [node_name c]) c)) ch
            else [])
    end.

  Lemma numbered_pos p : numbered root p -> exists j, index_of p arr = Some j /\ nth_error arr j = Some p.
  Proof.
    intro Np. destruct (index_of_in p arr (inv_complete _ _ Hinv p Np)) as [j Hj].
    exists j. split; [exact Hj|]. apply index_of_nth. exact Hj.
  Qed.

  Lemma get_node p j : index_of p arr = Some j -> nth_error arr j = Some p ->
    ino_of arr p = N.of_nat j + 1 /\ get t (ino_of arr p) = Some (node_img fb xa arr root p).
  Proof.
    intros Hj Hn. unfold ino_of. rewrite Hj. split; [lia|]. unfold get.
    destruct (N.eqb_spec (N.of_nat (S j)) 0) as [E|E]; [lia|].
    replace (N.to_nat (N.of_nat (S j) - 1)) with j by lia. unfold t. rewrite nth_error_map, Hn. reflexivity.
  Qed.

  (* numbers of the entries of the directory stored at position j *)
  Lemma entry_numbers j p nd c : nth_error arr j = Some p -> lookup_path p root = Some nd -> is_dir nd = true ->
    In c (node_children nd) -> 1 <= snd (entry_of arr p c) /\ snd (entry_of arr p c) < N.of_nat j + 1.
  Proof.
    intros Hj L D Hc. unfold entry_of. cbn [snd]. destruct (is_hardlink c) eqn:Hh.
    - destruct (Htg p nd c L D Hc Hh) as (tg & E & G). rewrite E.
      destruct (Hpd p nd j c tg L D Hj ltac:(apply nth_error_Some; rewrite Hj; discriminate) Hc Hh E) as (k & Hk & Hkj).
      pose proof (ino_of_at arr k tg Hk). lia.
    - destruct (inv_cb _ _ Hinv p nd c L D Hc Hh) as (a & b & Ha & Hb & Hab).
      assert (b = j).
      { pose proof (inv_nodup _ _ Hinv) as ND. rewrite NoDup_nth_error in ND. apply ND; [|congruence].
        apply nth_error_Some. congruence. }
      subst b. pose proof (ino_of_at arr a _ Ha). lia.
  Qed.

  Lemma spec_ents_map (st : N -> option ltree) (entry : tnode -> list N * N) (sub : tnode -> ltree) : forall chs,
    (forall c, In c chs -> st (snd (entry c)) = Some (sub c)) ->
    spec_ents st (map entry chs) = Some (map (fun c => (fst (entry c), sub c)) chs).
  Proof.
    induction chs as [|c r IH]; intros H; [reflexivity|]. cbn [map spec_ents].
    destruct (entry c) as [nm cn] eqn:E. fold (spec_ents st).
    pose proof (H c (or_introl eq_refl)) as Hc. rewrite E in Hc. cbn [snd] in Hc. rewrite Hc.
    rewrite IH by (intros c' Hc'; apply H; right; exact Hc'). cbn [fst]. reflexivity.
  Qed.

  (* a numbered node that is not a directory: a leaf of the specification tree *)
  Lemma spec_leaf p nd : lookup_path p root = Some nd -> is_hardlink nd = false -> is_dir nd = false ->
    forall f, spec_tree t (S f) (ino_of arr p) = Some (LT (view_at p) []).
  Proof.
    intros L Hh D f. destruct (numbered_pos p (ex_intro _ nd (conj L Hh))) as (j & Hj & Hn).
    destruct (get_node p j Hj Hn) as [_ G]. cbn [spec_tree]. rewrite G.
    unfold view_at. unfold node_img at 1. rewrite L. destruct nd as [nm a ch].
    unfold is_dir in D. unfold is_hardlink in Hh. cbn [node_attr] in D, Hh.
    destruct (a_type a); try discriminate; try reflexivity.
    cbn in Hh. rewrite Hh. reflexivity.
  Qed.

  Lemma spec_of_node : forall n p, lookup_path p root = Some n -> is_hardlink n = false ->
    forall fuel, (N.to_nat (ino_of arr p) <= fuel)%nat -> spec_tree t fuel (ino_of arr p) = Some (lt_of p n).
  Proof.
    induction n as [nm a ch IH] using tnode_ind'. intros p L Hh fuel Hf.
    destruct (numbered_pos p (ex_intro _ _ (conj L Hh))) as (j & Hj & Hn).
    destruct (get_node p j Hj Hn) as [Ei G].
    destruct fuel as [|f]; [lia|].
    destruct (ftype_eqb (a_type a) FDir) eqn:Ty.
    2:{ rewrite (spec_leaf p _ L Hh); [|unfold is_dir; cbn; exact Ty]. cbn [lt_of]. rewrite Ty. reflexivity. }
    cbn [spec_tree lt_of]. rewrite G, Ty.
    assert (Pl : fn_payload (node_img fb xa arr root p) = PDir (parent_ino arr p) (map (entry_of arr p) ch)).
    { unfold node_img. rewrite L. apply ftype_eqb_eq in Ty. rewrite Ty. reflexivity. }
    rewrite Pl.
    assert (Dn : is_dir (TNode nm a ch) = true) by (unfold is_dir; cbn; exact Ty).
    pose proof (snames_lookup p root _ Hsn L) as Sn. destruct (snames_inv _ _ _ Sn) as [Sn1 _].
    pose proof (sorted_names_nodup _ Sn1) as ND.
    rewrite (spec_ents_map (spec_tree t f) (entry_of arr p)
               (fun c => if is_hardlink c
                         then LT (view_at (match a_resolved (node_attr c) with Some tg => tg | None => [] end)) []
                         else lt_of (p ++ [node_name c]) c)).
    - reflexivity.
    - intros c Hc. pose proof (entry_numbers j p _ c Hn L Dn Hc) as [E1 E2].
      unfold entry_of in *. cbn [snd] in *. destruct (is_hardlink c) eqn:Hc_h.
      + destruct (Htg p _ c L Dn Hc Hc_h) as (tg & E & (ndt & Lt & Ht1 & Ht2)). rewrite E in *.
        destruct f as [|f']; [lia|]. apply (spec_leaf tg ndt Lt Ht1 Ht2).
      + rewrite Forall_forall in IH. apply (IH c Hc).
        * apply (lookup_app1 p root _ c L Dn). apply find_child_of_in; assumption.
        * exact Hc_h.
        * lia.
  Qed.

  (* ---- flattening ---- *)

  Definition pv (id : path) : pview := pview_of_lview (view_at id).

  Fixpoint flat_pp (p : path) (n : tnode) : list (path * pview * path) :=
    match n with
    | TNode _ a ch =>
        (p, pv p, p) ::
        (if ftype_eqb (a_type a) FDir
         then concat (map (fun c => if is_hardlink c
                                    then let tg := match a_resolved (node_attr c) with Some tg => tg | None => [] end in
                                         [(p ++ [node_name c], pv tg, tg)]
                                    else flat_pp (p ++ [node_name c]) c) ch)
         else [])
    end.

  Definition number (x : path * pview * path) : path * pview * N :=
    let '(q, v, id) := x in (q, v, ino_of arr id).

  Lemma flat_lt_of : forall n p, flat_lt p (lt_of p n) = map number (flat_pp p n).
  Proof.
    induction n as [nm a ch IH] using tnode_ind'. intro p. cbn [lt_of flat_pp flat_lt map number].
    f_equal. destruct (ftype_eqb (a_type a) FDir); [|reflexivity].
    rewrite concat_map, !map_map. f_equal. apply map_ext_in. intros c Hc.
    destruct (is_hardlink c); [reflexivity|]. rewrite Forall_forall in IH. apply IH. exact Hc.
  Qed.
End Spec.

(* ------------------------------------------------------------------ the flattening is what the adds denote *)

Section Den.
  Variable bs : N.
  Variable fb : path -> ibody.
  Variable xa : path -> N.
  Variable root0 : tnode.           (* the tree the adds built *)
  Variable unres : list path.
  Variable st : rstate.
  Variable arr : list path.
  Hypothesis Hwf : wf root0.
  Hypothesis Hq : links_queued root0 unres.
  Hypothesis Hres : resolve_all root0 unres (mkRs [] []) = POk st.
  Let root := decorate st [] root0.
  Hypothesis Hfiles : forall p, In p (file_list [] root) -> file_body_okb bs (fb p) = true.

  Lemma strip_file b : file_body_okb bs b = true -> strip_kind (lkind_of_body b) = lkind_of_body b.
  Proof. destruct b; try discriminate; reflexivity. Qed.

  Lemma pv_node id nd0 : lookup_path id root0 = Some nd0 -> is_hardlink nd0 = false ->
    pv fb xa root arr id = pview_of_node fb xa id nd0.
  Proof.
    intros L Hh. unfold pv, view_at, pview_of_lview, lview_of_fnode, node_img.
    assert (Lr : lookup_path id root = Some (decorate st id nd0)) by (unfold root; rewrite lookup_decorate, L; reflexivity).
    rewrite Lr. destruct nd0 as [nm a ch]. cbn [decorate]. unfold pview_of_node. cbn [node_attr].
    unfold is_hardlink in Hh. cbn [node_attr] in Hh.
    cbn [set_post a_type a_perm a_uid a_gid a_mtime a_links a_hard a_target a_devno].
    destruct (a_type a) eqn:Ty; cbn [lv_mode lv_uid lv_gid lv_mtime lv_xattr lv_kind fn_mode fn_uid fn_gid fn_mtime fn_xattr
                                     fn_payload lkind_of_payload strip_kind]; try reflexivity.
    - f_equal. apply strip_file. apply Hfiles.
      apply (file_list_complete id root [] _ Lr). cbn. exact Ty.
    - cbn in Hh. rewrite Hh. reflexivity.
  Qed.

  Definition den_ok (x : path * pview * path) : Prop :=
    let '(p, v, id) := x in
    resolves root0 p id /\ exists nd, lookup_path id root0 = Some nd /\ v = pview_of_node fb xa id nd.

  Lemma link_target p nd0 : lookup_path p root0 = Some nd0 -> is_hardlink nd0 = true ->
    exists tg ndt, assoc_path p (rs_res st) = Some tg /\ resolves root0 p tg /\
                   lookup_path tg root0 = Some ndt /\ is_hardlink ndt = false.
  Proof.
    intros L Hh.
    destruct (resolve_all_good root0 unres (mkRs [] []) st (Forall_nil _) Hres) as (G & M & _).
    destruct (assoc_path_in p (rs_res st) (M p (or_introl (Hq p nd0 L Hh)))) as (tg & A & I).
    rewrite Forall_forall in G. destruct (G _ I) as (ndt & Lt & H1 & _). cbn [snd] in Lt.
    exists tg, ndt. split; [exact A|]. split; [|split; assumption].
    apply (resolve_all_resolves root0 unres (mkRs [] []) st); [intros q t []|exact Hres|exact I].
  Qed.

  Lemma flat_pp_denotes : forall n0 p, lookup_path p root0 = Some n0 -> is_hardlink n0 = false ->
    map (fun x => fst (fst x)) (flat_pp fb xa root arr p (decorate st p n0)) = all_paths p n0 /\
    Forall den_ok (flat_pp fb xa root arr p (decorate st p n0)).
  Proof.
    induction n0 as [nm a ch IH] using tnode_ind'. intros p L Hh.
    pose proof (wf_lookup p root0 _ Hwf L) as W. destruct (wf_inv _ _ _ W) as (_ & _ & _ & Ws & _).
    pose proof (sorted_names_nodup _ Ws) as ND.
    cbn [decorate flat_pp all_paths set_post a_type]. unfold is_dir. cbn [node_attr].
    assert (Head : den_ok (p, pv fb xa root arr p, p)).
    { split; [eapply rs_here; eauto|]. eexists. split; [exact L|]. apply pv_node; assumption. }
    destruct (ftype_eqb (a_type a) FDir) eqn:Ty.
    2:{ split; [reflexivity|]. constructor; [exact Head|constructor]. }
    assert (Dn : is_dir (TNode nm a ch) = true) by (unfold is_dir; cbn; exact Ty).
    set (G := fun c => if is_hardlink c
                       then let tg := match a_resolved (node_attr c) with Some tg => tg | None => [] end in
                            [(p ++ [node_name c], pv fb xa root arr tg, tg)]
                       else flat_pp fb xa root arr (p ++ [node_name c]) c).
    assert (Kid : forall c, In c ch ->
      map (fun x => fst (fst x)) (G (decorate st (p ++ [node_name c]) c)) = all_paths (p ++ [node_name c]) c /\
      Forall den_ok (G (decorate st (p ++ [node_name c]) c))).
    { intros c Hc. unfold G.
      assert (Lc : lookup_path (p ++ [node_name c]) root0 = Some c).
      { apply (lookup_app1 p root0 _ c L Dn). apply find_child_of_in; assumption. }
      rewrite decorate_is_hardlink, decorate_name, decorate_resolved.
      destruct (is_hardlink c) eqn:Hc_h.
      - destruct (link_target _ c Lc Hc_h) as (tg & ndt & A & Rs & Lt & Ht). rewrite A. cbv zeta.
        split.
        + cbn [map fst]. destruct c as [cn ca cch]. cbn [all_paths]. rewrite (is_hardlink_not_dir _ Hc_h). reflexivity.
        + constructor; [|constructor].
          split; [exact Rs|]. exists ndt. split; [exact Lt|]. apply pv_node; assumption.
      - rewrite Forall_forall in IH. apply (IH c Hc _ Lc Hc_h). }
    assert (K1 : map (fun x => fst (fst x)) (concat (map G (map (fun c => decorate st (p ++ [node_name c]) c) ch))) =
                 concat (map (fun c => all_paths (p ++ [node_name c]) c) ch)).
    { rewrite concat_map, !map_map. f_equal. apply map_ext_in. intros c Hc. apply (Kid c Hc). }
    assert (K2 : Forall den_ok (concat (map G (map (fun c => decorate st (p ++ [node_name c]) c) ch)))).
    { apply Forall_concat. rewrite map_map. apply Forall_map. apply Forall_forall. intros c Hc. apply (Kid c Hc). }
    split.
    - cbn [map fst]. f_equal. exact K1.
    - constructor; [exact Head|exact K2].
  Qed.
End Den.

(* ------------------------------------------------------------------ [denotes] fixes the flattening *)

Lemma denotes_unique fb xa root fl fl' : denotes fb xa root fl -> denotes fb xa root fl' -> fl = fl'.
Proof.
  intros [P1 F1] [P2 F2]. rewrite <- P2 in P1. clear P2.
  revert fl' F2 P1. induction fl as [|x r IH]; intros fl' F2 P1; destruct fl' as [|y r']; try discriminate; [reflexivity|].
  cbn [map] in P1. injection P1 as E1 E2.
  inversion F1 as [|? ? Hx Hr]; subst. inversion F2 as [|? ? Hy Hr']; subst.
  f_equal; [|apply IH; assumption].
  destruct x as [[p v] id]. destruct y as [[p' v'] id']. cbn [fst] in E1. subst p'.
  destruct Hx as (R1 & nd & L1 & ->). destruct Hy as (R2 & nd' & L2 & ->).
  pose proof (resolves_fun _ _ _ R1 _ R2) as ->. rewrite L1 in L2. injection L2 as <-. reflexivity.
Qed.
