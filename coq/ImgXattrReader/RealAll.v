(* ImgXattrReader — definitions: ImgE2E.PackAll.read_all with the LAST specification reader replaced.

   read_all_real reads the BYTES of the image with models of the real readers only:
     tree            coq/C05: sqfs_super_read, sqfs_id_table_read, sqfs_dir_reader_get_full_hierarchy   (read_image_c05)
     fragment table  coq/C05: sqfs_frag_table_read / sqfs_read_table
     contents        coq/C10: sqfs_data_reader_read, one reader object threaded through all files
     xattrs          coq/C05: sqfs_xattr_reader_load once, then sqfs_xattr_reader_read_all (get_desc, seek_kv, count x
                     read incl. out-of-line values) per path on the SAME reader object — its two meta readers keep their
                     cached block and cursor from one path to the next, as in rdsquashfs -x / sqfs2tar
   [efuel] also bounds the pairs of one set, [fuel] the rounds of one sqfs_meta_reader_read. *)
From Coq Require Import List NArith ZArith Bool.
From SqfsV Require Import Base.Bytes Gen.Constants.
From SqfsV Require Import ImgPost.PathsModel.
From SqfsV Require C05.RBase C05.Super C05.Xattr.
From SqfsV Require C10.DataModel.
From SqfsV Require Import ImgReader.Embed ImgReader.ReadImage.
From SqfsV Require Import ImgE2E.PackAll.
Import ListNotations.

Section ReadReal.
  Variable uc : list N -> N -> RBase.res (list N).
  Variable duncompress : list N -> nat -> option (list N).
  Variable img : list N.
  Variables efuel fuel : nat.

  Fixpoint read_nodes_real (s : Super.sup) (dr : DataModel.dr) (xr : Xattr.xreader) (l : list (FstreeModel.path * pview * N))
    : RBase.res (list rentry) :=
    match l with
    | [] => RBase.Ok []
    | (p, v, ino) :: rest =>
      let '(rd, dr') := read_contents duncompress img (Super.s_block_size s) dr (pv_kind v) in
      RBase.bind rd (fun d =>
      RBase.bind (Xattr.xattr_read_all uc true img efuel fuel xr (pv_xattr v)) (fun '(xr', x) =>
      RBase.bind (read_nodes_real s dr' xr' rest) (fun tl =>
      RBase.Ok (mkRe p v ino d x :: tl))))
    end.

  Definition read_all_real (depth : nat) : RBase.res (list rentry) :=
    RBase.bind (read_image_c05 uc depth efuel fuel img) (fun '(s, ids, T) =>
    RBase.bind (Super.frag_table_read uc img fuel s) (fun raw =>
    RBase.bind (Xattr.xattr_load img s) (fun xr =>
    read_nodes_real s (DataModel.mkDr (frag_table_of_raw raw) None None) xr (flat_lt [] (ltree_of T))))).
End ReadReal.
