(* ImgXattrReader — xattr_reader_model_refines_spec: on the bytes of an image write_image produces with a section from
   xflush, the C05 model of the real xattr reader — load once, then read_all for ANY sequence of indices on the same
   reader object — returns for every index exactly what the reader specification (ImgXattr.XattrRead.read_xattr_set)
   returns; hence (image_xattr_roundtrip) a permutation of set_spec of the recorded set. *)
From Coq Require Import List NArith ZArith Lia Bool Permutation ZifyBool ZifyNat ZifyN.
From SqfsV Require Import Base.Bytes Gen.Constants.
From SqfsV Require Import C03.Common C03.ListN C03.MetaModel C03.MetaProofs.
From SqfsV Require C14.SuperModel.
From SqfsV Require Import C01.GenC01 C01.XattrModel C01.XattrProofs C01.XattrWriterProofs.
From SqfsV Require C01.Res.
From SqfsV Require Import Image.FinishModel Image.FinishProofs Image.ImageProofs.
From SqfsV Require Import ImgXattr.FlushModel ImgXattr.CodecRel ImgXattr.KvRefine ImgXattr.FlushShape ImgXattr.XattrRead
  ImgXattr.SectionProofs ImgXattr.RoundTrip ImgXattr.ImageXattr.
From SqfsV Require Import C05.RBase C05.Meta C05.Super.
From SqfsV Require C05.Xattr.
From SqfsV Require Import ImgReader.MetaRefine ImgReader.Embed ImgReader.ReadImage.
From SqfsV Require Import ImgXattrReader.KSpec ImgXattrReader.Refine ImgXattrReader.SectionRefine ImgXattrReader.Session.
Import ListNotations.
Local Open Scope N_scope.

Section IR.
  Variable compress : list N -> cres.
  Variable uncompress : list N -> option (list N).
  Hypothesis compress_ok :
    forall b c, compress b = CData c -> cl c <= cl b /\ uncompress c = Some b.
  Variable uc : list N -> N -> res (list N).
  Hypothesis uc_ok : uc_meets uncompress uc.
  Variable limit : N.
  Hypothesis limit_ok : limit <= 65535.
  Variable cfg : wcfg.
  Variable inp : winput.
  Variable w : wimage.
  Hypothesis Hw : write_image compress limit cfg inp = Res.Ok w.
  Hypothesis Hdom : image_domain cfg inp = true.
  Hypothesis Hfit : image_fits w = true.
  Hypothesis Hsmall : cl (image_bytes w) < two63.

  Variable xw : xwr.
  Hypothesis Hx : xflush compress (o_xattr w) xw = Res.Ok (in_xattr inp).
  Variable sets : list (list (list N * list N)).
  Variable idxs : list N.
  Hypothesis Hsets : Forall set_ok sets.
  Hypothesis Hrun : xw_sets xw_empty sets = Res.Ok (xw, idxs).
  Hypothesis Hnoidx : Res.nlen (XattrModel.x_blocks xw) < NOIDX.
  Hypothesis H48 : cl (w_xattrb w) < 281474976710656.
  Hypothesis Hnox : c_no_xattr cfg = false.
  Hypothesis AL : xalloc_okb xw = true.

  Let sf := w_super w.
  Let s := sup_of sf.
  Let img := image_bytes w.
  Let n := Res.nlen (XattrModel.x_blocks xw).
  Let pre := pre_id inp w ++ w_idb w.
  Let post := FinishModel.zeros (w_pad w).

  Lemma Hcount : n < 4294967296.
  Proof. unfold n, NOIDX in *. lia. Qed.

  (* the reader object is in a state load / read_all leave it in *)
  Definition RInv (x : Xattr.xreader) : Prop :=
    XattrModel.x_blocks xw = [] \/
    exists off kvr idr descs,
      xshape compress (o_xattr w) xw (w_xattrb w) off kvr idr descs /\
      SuperModel.s_xattr_start sf = o_xattr w + off /\
      XInv compress kvr idr (o_xattr w) (s_id_start s) (s_bytes_used s) n
           (map (fun k => o_xattr w + cl (concat (map (enc compress) kvr)) + startN compress idr k) (seq 0 (length idr))) x.

  Lemma section_cases :
    (XattrModel.x_blocks xw = [] /\ in_xattr inp = None) \/
    (XattrModel.x_blocks xw <> [] /\
     exists off kvr idr descs, xshape compress (o_xattr w) xw (w_xattrb w) off kvr idr descs /\
                               in_xattr inp = Some (w_xattrb w, off) /\
                               SuperModel.s_xattr_start sf = o_xattr w + off).
  Proof.
    destruct (run_facts xw sets idxs Hsets Hrun) as (_ & _ & BNE & _).
    destruct (XattrModel.x_blocks xw) as [|b0 bl] eqn:EB.
    - left. split; [reflexivity|]. pose proof Hx as Hx'.
      assert (Z : xflush compress (o_xattr w) xw = Res.Ok None) by (apply (xflush_none compress (o_xattr w) xw BNE); exact EB).
      rewrite Z in Hx'. injection Hx' as <-. reflexivity.
    - right. split; [discriminate|].
      assert (EX0 : exists xb off, in_xattr inp = Some (xb, off)).
      { pose proof Hx as Hx'. destruct (in_xattr inp) as [[xb off]|]; [eauto|].
        exfalso. assert (Z : XattrModel.x_blocks xw = []) by (apply (xflush_none compress (o_xattr w) xw BNE); exact Hx').
        rewrite EB in Z. discriminate. }
      destruct EX0 as (xb & off & EX).
      destruct (write_image_shape compress limit cfg inp w Hw) as (dwr & f1 & f2 & _ & _ & _ & _ & _ & XW & _).
      rewrite EX, Hnox in XW. unfold xattr_write in XW. injection XW as EBy ES _.
      assert (EX' : in_xattr inp = Some (w_xattrb w, off)) by (rewrite EX, EBy; reflexivity).
      destruct (section_shape compress uncompress compress_ok inp w xw Hx off EX') as (kvr & idr & descs & SH).
      exists off, kvr, idr, descs. split; [exact SH|]. split; [exact EX'|]. symmetry. exact ES.
  Qed.

  Lemma img_split : img = pre ++ w_xattrb w ++ post.
  Proof. exact (img_eq compress limit cfg inp w Hw). Qed.

  Lemma flag_clear off : in_xattr inp = Some (w_xattrb w, off) -> N.land (s_flags s) c_SQFS_FLAG_NO_XATTRS = 0.
  Proof.
    intro EX. unfold s, sf. cbn [sup_of s_flags]. rewrite (flags_eq compress limit cfg inp w Hw). unfold flags_of.
    rewrite Hnox, EX. cbn [is_some].
    destruct (final_flags_bits (negb (is_nil (in_opts inp))) (is_nil (in_frags inp)) (existsb frag_compressed (in_frags inp))
                (is_some (w_export w)) (Some true)) as (_ & _ & _ & _ & _ & B & _).
    cbv zeta in B. destruct (N.eqb_spec (N.land (final_flags (negb (is_nil (in_opts inp))) (is_nil (in_frags inp))
                                                   (existsb frag_compressed (in_frags inp)) (is_some (w_export w)) (Some true))
                                                c_SQFS_FLAG_NO_XATTRS) 0) as [E|_]; [exact E|discriminate].
  Qed.

  Lemma flag_set_none : in_xattr inp = None -> N.land (s_flags s) c_SQFS_FLAG_NO_XATTRS <> 0.
  Proof.
    intro EX. unfold s, sf. cbn [sup_of s_flags]. rewrite (flags_eq compress limit cfg inp w Hw). unfold flags_of.
    rewrite Hnox, EX. cbn [is_some].
    destruct (final_flags_bits (negb (is_nil (in_opts inp))) (is_nil (in_frags inp)) (existsb frag_compressed (in_frags inp))
                (is_some (w_export w)) (Some false)) as (_ & _ & _ & _ & _ & B & _).
    cbv zeta in B. intro E. rewrite E in B. discriminate.
  Qed.

  (* the hypotheses of SectionRefine's section, from the image *)
  Lemma sr_hyps off :
    SuperModel.s_xattr_start sf = o_xattr w + off ->
    cl pre = o_xattr w /\ s_xattr_start s = o_xattr w + off /\ s_bytes_used s = o_xattr w + cl (w_xattrb w) /\
    s_id_start s <= o_xattr w /\ cl (pre ++ w_xattrb w ++ post) < two63.
  Proof.
    intro ES.
    pose proof (lay compress uncompress compress_ok limit limit_ok cfg inp w Hw Hdom Hfit) as L.
    destruct (il_used _ _ _ _ L) as [U _].
    destruct (order_facts compress uncompress compress_ok limit limit_ok cfg inp w Hw Hdom) as (_ & _ & _ & _ & _ & _ & O7 & _).
    split; [exact (pre_len compress uncompress compress_ok limit limit_ok cfg inp w Hw Hdom)|].
    split; [exact ES|]. split; [exact U|]. split; [unfold s, sf; cbn [sup_of s_id_start]; lia|].
    rewrite <- img_split. exact Hsmall.
  Qed.

  Lemma writer_facts :
    XattrProofs.tables_ok xw /\ Forall (Forall (pair_ok xw)) (XattrModel.x_blocks xw) /\
    Forall (fun b : list (nat * nat) => Res.nlen b < 4294967296) (XattrModel.x_blocks xw) /\ blocks_ne xw.
  Proof.
    destruct (run_facts xw sets idxs Hsets Hrun) as (I & BL & BNE & _). destruct I as [KN VN T CR CK BR].
    split; [exact T|]. split; [exact BR|]. split; [exact BL|exact BNE].
  Qed.

  (* ---- sqfs_xattr_reader_load ---- *)
  Theorem load_ok : exists x, Xattr.xattr_load img s = Ok x /\ RInv x.
  Proof.
    destruct section_cases as [[Z EX]|(NE & off & kvr & idr & descs & SH & EX & ES)].
    - exists Xattr.xr_empty. split; [|left; exact Z].
      unfold Xattr.xattr_load. pose proof (flag_set_none EX) as F.
      destruct (N.eqb_spec (N.land (s_flags s) c_SQFS_FLAG_NO_XATTRS) 0) as [E|_]; [contradiction|]. reflexivity.
    - destruct (sr_hyps off ES) as (P1 & P2 & P3 & P4 & P5).
      eexists. split.
      + rewrite img_split.
        exact (xattr_load_written compress uncompress compress_ok uc uc_ok (o_xattr w) xw (w_xattrb w) off kvr idr descs SH
                 pre post s P1 P2 P3 P4 (flag_clear off EX) Hcount H48 P5).
      + right. exists off, kvr, idr, descs. split; [exact SH|]. split; [exact ES|].
        exact (loaded_inv compress (o_xattr w) xw kvr idr s).
  Qed.

  (* the specification reader answers only NOIDX and indices of the table *)
  Lemma spec_ok_index k l : read_xattr_set uncompress img sf k = Res.Ok l -> k = NOIDX \/ k < n.
  Proof.
    unfold read_xattr_set. destruct (N.eqb_spec k NOIDX) as [E|_]; [left; exact E|]. intro H. right.
    pose proof (lay compress uncompress compress_ok limit limit_ok cfg inp w Hw Hdom Hfit) as L.
    destruct section_cases as [[Z EX]|(NE & off & kvr & idr & descs & SH & EX & ES)].
    - exfalso. destruct (il_xattr _ _ _ _ L) as [[_ S0]|(off & E & _)]; [|rewrite EX in E; discriminate].
      unfold read_xattr_table in H. fold sf in S0. rewrite S0 in H. discriminate.
    - destruct (sr_hyps off ES) as (P1 & _). destruct (il_used _ _ _ _ L) as [U _].
      rewrite img_split in H.
      rewrite (read_xattr_table_written compress uncompress compress_ok _ _ _ _ _ _ _ SH pre post sf P1 ES U
                 (used64 compress uncompress compress_ok limit limit_ok cfg inp w Hw Hdom Hfit) Hcount) in H.
      unfold xt_set, xt_desc, desc_with, written_table in H. cbn [xt_count] in H. fold n in H.
      destruct (N.leb_spec n k) as [|Hlt]; [discriminate|exact Hlt].
  Qed.

  Variables efuel fuel : nat.
  Hypothesis Hef : (xw_efuel xw <= efuel)%nat.
  Hypothesis Hfu : (length (w_xattrb w) <= fuel)%nat.

  (* ---- sqfs_xattr_reader_read_all: one call, from any state ---- *)
  Theorem step_ok x k :
    RInv x -> k = NOIDX \/ k < n ->
    exists x' l, Xattr.xattr_read_all uc true img efuel fuel x k = Ok (x', l) /\ RInv x' /\
                 read_xattr_set uncompress img sf k = Res.Ok l /\
                 (k < n -> exists blk, nth_error (XattrModel.x_blocks xw) (N.to_nat k) = Some blk /\ l = kmap xw blk).
  Proof.
    intros R [->|Hk].
    - exists x, []. split; [reflexivity|]. split; [exact R|]. split; [reflexivity|].
      intro H. unfold n, NOIDX in *. lia.
    - destruct R as [Z|(off & kvr & idr & descs & SH & ES & XI)]; [unfold n in Hk; rewrite Z in Hk; cbn in Hk; lia|].
      destruct (sr_hyps off ES) as (P1 & P2 & P3 & P4 & P5).
      destruct writer_facts as (TB & BR & CB & BNE).
      destruct (nth_error (XattrModel.x_blocks xw) (N.to_nat k)) as [blk|] eqn:Nb;
        [|apply nth_error_None in Nb; unfold n, Res.nlen in Hk; lia].
      assert (EXi : in_xattr inp = Some (w_xattrb w, off)).
      { destruct section_cases as [[Z _]|(_ & off' & kvr' & idr' & descs' & _ & EX' & ES')].
        - rewrite Z in Nb. destruct (N.to_nat k); discriminate.
        - rewrite ES in ES'. assert (off' = off) by lia. subst off'. exact EX'. }
      destruct (read_all_written compress uncompress compress_ok uc uc_ok (o_xattr w) xw (w_xattrb w) off kvr idr descs SH
                  pre post s P1 P2 P3 P4 (flag_clear off EXi) Hcount H48 P5 TB BR CB BNE AL (N.to_nat k) blk x efuel fuel true
                  Nb XI Hef Hfu) as (x' & RA & XI').
      rewrite N2Nat.id in RA. fold (kmap xw blk) in RA.
      exists x', (kmap xw blk). split; [rewrite img_split; exact RA|].
      split; [right; exists off, kvr, idr, descs; split; [exact SH|]; split; [exact ES|exact XI']|].
      split; [|intros _; exists blk; split; reflexivity].
      (* the specification reader *)
      unfold read_xattr_set. destruct (N.eqb_spec k NOIDX) as [E|_]; [unfold n in *; lia|].
      pose proof (lay compress uncompress compress_ok limit limit_ok cfg inp w Hw Hdom Hfit) as L.
      destruct (il_used _ _ _ _ L) as [U _].
      rewrite img_split.
      rewrite (read_xattr_table_written compress uncompress compress_ok _ _ _ _ _ _ _ SH pre post sf P1 ES U
                 (used64 compress uncompress compress_ok limit limit_ok cfg inp w Hw Hdom Hfit) Hcount).
      unfold written_table.
      pose proof (xt_set_written compress uncompress compress_ok _ _ _ _ _ _ _ SH Hcount TB BR BNE CB H48
                    (map (fun k0 => o_xattr w + cl (concat (map (enc compress) kvr)) + startN compress idr k0) (seq 0 (length idr)))
                    (N.to_nat k) blk Nb) as XS.
      rewrite N2Nat.id in XS. exact XS.
  Qed.

  (* ---- any sequence of calls on the loaded reader ---- *)
  Lemma seq_ok : forall ks x,
    RInv x -> Forall (fun k => k = NOIDX \/ k < n) ks ->
    exists ls, xattr_read_seq uc img efuel fuel x ks = Ok ls /\
               Forall2 (fun k l => read_xattr_set uncompress img sf k = Res.Ok l) ks ls.
  Proof.
    induction ks as [|k ks IH]; intros x R F.
    - exists []. split; [reflexivity|constructor].
    - inversion F as [|? ? Hk Fr]; subst.
      destruct (step_ok x k R Hk) as (x' & l & RA & R' & SP & _).
      destruct (IH x' R' Fr) as (ls & RS & F2).
      exists (l :: ls). split; [cbn [xattr_read_seq]; rewrite RA; cbn [bind]; rewrite RS; reflexivity|].
      constructor; assumption.
  Qed.

  Theorem session_refines_spec ks :
    Forall (fun k => k = NOIDX \/ k < n) ks ->
    exists ls, xattr_session uc img efuel fuel s ks = Ok ls /\
               Forall2 (fun k l => read_xattr_set uncompress img sf k = Res.Ok l) ks ls.
  Proof.
    intro F. destruct load_ok as (x & L & R). destruct (seq_ok ks x R F) as (ls & RS & F2).
    exists ls. split; [unfold xattr_session; rewrite L; exact RS|exact F2].
  Qed.
  (* ... hence the real-reader model returns the recorded sets: a session that asks for the index apply_xattrs got for
     set i returns a permutation of set_spec of that set *)
  Theorem real_roundtrip i kvs idx :
    nth_error sets i = Some kvs -> nth_error idxs i = Some idx ->
    exists l, xattr_session uc img efuel fuel s [idx] = Ok [l] /\ Permutation l (set_spec kvs) /\
              read_xattr_set uncompress img sf idx = Res.Ok l.
  Proof.
    intros Hs Hi.
    destruct (image_xattr_roundtrip_l compress uncompress compress_ok limit limit_ok cfg inp w Hw Hdom Hfit xw Hx Hcount
                sets idxs Hsets Hrun H48 Hnox Hnoidx) as (_ & RT).
    destruct (RT i kvs idx Hs Hi) as (l & Rl & Pl).
    pose proof (spec_ok_index idx l Rl) as Hk.
    destruct (session_refines_spec [idx] (Forall_cons _ Hk (Forall_nil _))) as (ls & SS & F2).
    inversion F2 as [|? l' ? ls' E1 F3]; subst. inversion F3; subst.
    fold img sf in Rl. rewrite Rl in E1. injection E1 as <-.
    exists l. split; [exact SS|]. split; [exact Pl|exact Rl].
  Qed.
End IR.
