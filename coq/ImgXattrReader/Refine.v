(* ImgXattrReader — the C05 model of xattr_reader.c (get_desc, seek_kv, read, read_all) on a metadata area made of
   key-value blocks followed by id blocks: whatever the k-specification (KSpec.k_pair over the strict seek) returns, the
   real-reader model returns, and its two meta readers stay coherent with the area (MetaRefine.Coh) — including the
   out-of-line value: position saved, seek to the reference, value read, position restored. *)
From Coq Require Import List NArith ZArith Lia Bool ZifyBool ZifyNat ZifyN.
From SqfsV Require Import Base.Bytes Gen.Constants.
From SqfsV Require Import C03.Common C03.ListN C03.MetaModel C03.MetaProofs C03.MetaRT.
From SqfsV Require C01.Res C01.XattrModel C01.XattrProofs.
From SqfsV Require Import C05.RBase C05.GenC05 C05.Meta C05.Super C05.Xattr.
From SqfsV Require Import ImgReader.MetaRefine.
From SqfsV Require Import ImgXattr.KvRefine ImgXattr.RoundTrip.
From SqfsV Require Import ImgXattrReader.KSpec ImgXattrReader.Geometry.
Import ListNotations.
Local Open Scope N_scope.
Ltac Zify.zify_post_hook ::= Z.div_mod_to_equations.

Lemma rdk_lt k l : rdk k l < 256 ^ N.of_nat k.
Proof. unfold rdk. apply N.mod_lt. apply N.pow_nonzero. discriminate. Qed.

Lemma rd_at_len s p n x : XattrModel.rd_at s p n = Res.Ok x -> cl x = n.
Proof.
  intro H. destruct (XattrProofs.rd_at_ok_inv _ _ _ _ H) as [B ->].
  unfold Common.lenN, Res.nlen in *. rewrite firstn_length, skipn_length. lia.
Qed.

Lemma xattr_prefix_len t pfx : xattr_prefix t = Some pfx -> cl pfx <= 9.
Proof.
  unfold xattr_prefix. destruct (t =? c5_SQFS_XATTR_USER); [intro H; injection H as <-; cbn; lia|].
  destruct (t =? c5_SQFS_XATTR_TRUSTED); [intro H; injection H as <-; cbn; lia|].
  destruct (t =? c5_SQFS_XATTR_SECURITY); [intro H; injection H as <-; cbn; lia|discriminate].
Qed.

Section Ref.
  Variable compress : list N -> cres.
  Variable uncompress : list N -> option (list N).
  Hypothesis compress_ok :
    forall b c, compress b = CData c -> cl c <= cl b /\ uncompress c = Some b.
  Variable uc : list N -> N -> res (list N).
  Hypothesis uc_ok :
    forall c b, uncompress c = Some b -> cl b <= meta_sz -> uc c meta_sz = Ok b.
  Variable img : list N.
  Hypothesis img_small : cl img < two63.

  Variables (kvr idr : list (list N)) (size0 ids used : N).
  Let T := mkT size0 (kvr ++ idr) ids used.
  Hypothesis TO : table_ok compress img T.
  Hypothesis idr_ne : idr <> [].
  Let S := concat kvr.
  Let I := concat idr.

  Notation RdT := (Rd compress T).
  Notation CohT := (Coh compress T).
  Notation sk := (sseek compress kvr).
  Notation enc := (enc compress).

  Lemma all_ok : Forall blk_ok kvr /\ Forall blk_ok idr.
  Proof. destruct TO as (F & _). unfold T in F. cbn [t_raws] in F. apply Forall_app in F. exact F. Qed.

  Lemma I_ne : I <> [].
  Proof.
    destruct all_ok as [_ F]. unfold I. destruct idr as [|b r]; [congruence|].
    inversion F as [|? ? [Hp _] _]; subst. cbn [concat]. intro E.
    apply (f_equal (@Common.lenN N)) in E. rewrite ListN.lenN_app, ListN.lenN_nil in E. lia.
  Qed.

  Lemma SI_ne p : dropN p S ++ I <> [].
  Proof. intro E. apply app_eq_nil in E. destruct E as [_ E]. exact (I_ne E). Qed.


  (* one sqfs_meta_reader_read of the key-value reader against one rd_at of the specification *)
  Lemma read_step m p n x cap fuel :
    RdT m (dropN p S ++ I) -> XattrModel.rd_at S p n = Res.Ok x -> n <= cap ->
    (2 * length (t_raws T) <= fuel)%nat ->
    exists m', mr_read uc true img fuel m cap n = Ok (m', x) /\ RdT m' (dropN (p + n) S ++ I).
  Proof.
    intros R E Hc Hf. destruct (XattrProofs.rd_at_ok_inv _ _ _ _ E) as [B ->].
    assert (Hn : n <= cl (dropN p S)) by (rewrite ListN.lenN_dropN; unfold Common.lenN, Res.nlen in *; lia).
    destruct (mr_read_ok compress uncompress compress_ok uc uc_ok img img_small T m (dropN p S ++ I) fuel cap n TO R)
      as (m' & RM & RD'); [rewrite ListN.lenN_app; lia|exact Hc|exact Hf|].
    exists m'. split.
    - rewrite RM. rewrite ListN.takeN_app_le by exact Hn. reflexivity.
    - rewrite ListN.dropN_app_le in RD' by exact Hn. rewrite ListN.dropN_dropN in RD'.
      replace (p + n) with (n + p) by lia. exact RD'.
  Qed.

  (* sqfs_meta_reader_seek of the key-value reader to a reference the strict seek accepts *)
  Lemma seek_step m ref q :
    CohT m -> sk ref = Res.Ok q -> used < two64 ->
    exists m', mr_seek uc true img m (u64 (size0 + ref / 65536)) (ref mod 65536) = Ok m' /\
               RdT m' (dropN q S ++ I) /\
               u64 (size0 + ref / 65536) < used /\ ref mod 65536 < meta_sz.
  Proof.
    intros C Sk U. unfold sseek in Sk. destruct (sfind compress kvr 0 0 ref) as [q'|] eqn:F; [|discriminate].
    injection Sk as ->. destruct (sfind_inv compress uncompress compress_ok _ _ _ _ _ F) as (j & Hj & D & M & P).
    rewrite !N.add_0_l in *.
    assert (HjT : (j < length (t_raws T))%nat) by (unfold T; cbn [t_raws]; rewrite app_length; lia).
    assert (Nj : nth j (t_raws T) [] = nth j kvr []) by (unfold T; cbn [t_raws]; apply app_nth1; exact Hj).
    destruct (block_window compress uncompress compress_ok uc uc_ok img img_small T j TO HjT) as [_ BE].
    destruct all_ok as [Fk _].
    assert (OKj : blk_ok (nth j kvr [])) by (rewrite Forall_forall in Fk; apply Fk, nth_In; exact Hj).
    pose proof (enc_len compress uncompress compress_ok _ OKj) as EL. rewrite Nj in BE.
    destruct TO as (_ & _ & Lim & _).
    change (t_base T) with size0 in Lim, BE. change (t_limit T) with used in Lim.
    assert (Bp : bpos compress T j = size0 + ref / 65536).
    { unfold T. rewrite (bpos_kv compress uncompress compress_ok kvr idr size0 ids used j) by lia. rewrite D. reflexivity. }
    assert (U64 : u64 (size0 + ref / 65536) = bpos compress T j).
    { rewrite Bp. unfold u64. apply N.mod_small. rewrite <- Bp. unfold two64 in *. lia. }
    rewrite U64.
    destruct (mr_seek_ok compress uncompress compress_ok uc uc_ok img img_small T m (bpos compress T j) (ref mod 65536)
                (suffix T j (ref mod 65536)) TO C) as (m' & SK & RD').
    - exists j. cbn [fst snd]. split; [reflexivity|]. split; [reflexivity|]. left. split; [exact HjT|]. rewrite Nj. exact M.
    - unfold T. rewrite (suffix_kv compress uncompress compress_ok kvr idr size0 ids used j _ Hj) by lia. apply SI_ne.
    - exists m'. split; [exact SK|]. split.
      + unfold T in RD' at 2. rewrite (suffix_kv compress uncompress compress_ok kvr idr size0 ids used j _ Hj) in RD' by lia. rewrite P. exact RD'.
      + split.
        * lia.
        * destruct OKj as [_ Hm]. rewrite meta_sz_MB. lia.
  Qed.
  Lemma sz_add_ok a b : a + b < two64 -> sz_add_ov a b = Some (a + b).
  Proof. intro H. unfold sz_add_ov. destruct (N.ltb_spec (a + b) two64); [reflexivity|lia]. Qed.

  (* sqfs_xattr_reader_read: one pair *)
  Lemma xattr_read_ok x kv p k v p' fuel :
    x_kvrd x = Some kv -> x_start x = size0 -> x_end x = used -> used < two64 ->
    RdT kv (dropN p S ++ I) ->
    k_pair sk S p = Res.Ok (k, v, p') -> pair_alloc (k, v) <= alloc_limit ->
    (2 * length (t_raws T) <= fuel)%nat ->
    exists kv', xattr_read uc img fuel x = Ok (with_kv x kv', (k, v)) /\ RdT kv' (dropN p' S ++ I).
  Proof.
    intros Hkv Hs He U R K A Hf. unfold k_pair in K.
    destruct (XattrModel.rd_at S p 4) as [h| | |] eqn:R1; cbn [Res.bind] in K; try discriminate.
    set (ty := fld 2 o_sqfs_xattr_entry_t_type h) in *.
    set (ksz := fld 2 o_sqfs_xattr_entry_t_size h) in *.
    destruct (xattr_prefix (N.land ty c5_SQFS_XATTR_PREFIX_MASK)) as [pfx|] eqn:PF; [|discriminate].
    destruct (XattrModel.rd_at S (p + 4) ksz) as [kb| | |] eqn:R2; cbn [Res.bind] in K; try discriminate.
    destruct (XattrModel.rd_at S (p + 4 + ksz) 4) as [vh| | |] eqn:R3; cbn [Res.bind] in K; try discriminate.
    assert (Hksz : ksz < 65536) by (unfold ksz, fld; apply (rdk_lt 2)).
    pose proof (xattr_prefix_len _ _ PF) as Hpl.
    pose proof (rd_at_len _ _ _ _ R2) as Lkb.
    set (plen := cl pfx) in *.
    destruct (read_step kv p 4 h 4 fuel R R1 ltac:(lia) Hf) as (m1 & M1 & RD1).
    destruct (read_step m1 (p + 4) ksz kb (plen + 1 + ksz - plen) fuel RD1 R2 ltac:(lia) Hf) as (m2 & M2 & RD2).
    destruct (read_step m2 (p + 4 + ksz) 4 vh 4 fuel RD2 R3 ltac:(lia) Hf) as (m3 & M3 & RD3).
    replace (p + 4 + ksz + 4) with (p + 8 + ksz) in RD3 by lia.
    unfold xattr_read. rewrite Hkv. nrm.
    change sizeof_sqfs_xattr_entry_t with 4. change sizeof_sqfs_xattr_value_t with 4.
    change c5_sizeof_sqfs_xattr_t with 32.
    rewrite M1. cbn [bind]. fold ty ksz. rewrite PF. fold plen.
    unfold put_check at 1. destruct (N.leb_spec (0 + plen) (plen + 1 + ksz)) as [_|]; [|lia]. cbn [bind].
    rewrite M2. cbn [bind]. rewrite M3. cbn [bind].
    unfold pair_alloc in A. cbn [fst snd] in A. change c5_sizeof_sqfs_xattr_t with 32 in A.
    destruct (negb (N.land ty c5_SQFS_XATTR_FLAG_OOL =? 0)) eqn:OOL.
    - (* out of line: save the position, seek to the reference, read, seek back *)
      destruct (XattrModel.rd_at S (p + 8 + ksz) 8) as [rb| | |] eqn:R4; cbn [Res.bind] in K; try discriminate.
      destruct (sk (rdk 8 rb)) as [q| | |] eqn:SK; cbn [Res.bind] in K; try discriminate.
      destruct (XattrModel.rd_at S q 4) as [vh2| | |] eqn:R5; cbn [Res.bind] in K; try discriminate.
      set (vsize := rdk 4 vh2) in *.
      destruct (XattrModel.rd_at S (q + 4) vsize) as [v0| | |] eqn:R6; cbn [Res.bind] in K; try discriminate.
      injection K as <- <- <-.
      assert (Hvs : vsize < 4294967296) by (unfold vsize; apply (rdk_lt 4)).
      pose proof (rd_at_len _ _ _ _ R6) as Lv.
      assert (A' : 32 + (plen + 1 + ksz) + vsize + 1 <= alloc_limit).
      { unfold Res.nlen in A. rewrite app_length in A. unfold plen, Common.lenN in *. lia. }
      destruct (read_step m3 (p + 8 + ksz) 8 rb 8 fuel RD3 R4 ltac:(lia) Hf) as (m4 & M4 & RD4).
      replace (p + 8 + ksz + 8) with (p + 16 + ksz) in RD4 by lia.
      rewrite M4. cbn [bind]. rewrite Hs, He.
      destruct (seek_step m4 (rdk 8 rb) q (Rd_Coh compress T _ _ RD4) SK U) as (m5 & M5 & RD5 & B1 & B2).
      destruct (N.leb_spec used (u64 (size0 + rdk 8 rb / 65536))) as [|_]; [lia|].
      destruct (N.leb_spec meta_sz (rdk 8 rb mod 65536)) as [|_]; [lia|]. cbn [orb].
      pose proof (mr_position_ok compress uncompress compress_ok uc uc_ok img img_small T m4 _ TO RD4) as PA.
      destruct (mr_position m4) as [pb po] eqn:EP.
      rewrite M5. cbn [bind].
      destruct (read_step m5 q 4 vh2 4 fuel RD5 R5 ltac:(lia) Hf) as (m6 & M6 & RD6).
      rewrite M6. cbn [bind]. fold vsize.
      rewrite (sz_add_ok (32 + (plen + 1 + ksz)) vsize) by (unfold two64, alloc_limit in *; lia).
      rewrite (sz_add_ok (32 + (plen + 1 + ksz) + vsize) 1) by (unfold two64, alloc_limit in *; lia).
      unfold malloc_chk. destruct (N.ltb_spec alloc_limit (32 + (plen + 1 + ksz) + vsize + 1)) as [|_]; [lia|]. cbn [bind].
      unfold put_check at 1.
      destruct (N.leb_spec (plen + ksz + 1 + vsize) (32 + (plen + 1 + ksz) + vsize + 1 - 32)) as [_|]; [|lia]. cbn [bind].
      destruct (read_step m6 (q + 4) vsize v0 (32 + (plen + 1 + ksz) + vsize + 1 - 32 - (plen + ksz + 1)) fuel RD6 R6
                  ltac:(lia) Hf) as (m7 & M7 & RD7).
      rewrite M7. cbn [bind].
      destruct (mr_seek_ok compress uncompress compress_ok uc uc_ok img img_small T m7 pb po _ TO
                  (Rd_Coh compress T _ _ RD7) PA (SI_ne _)) as (m8 & M8 & RD8).
      rewrite M8. cbn [bind].
      unfold put_check.
      destruct (N.leb_spec (plen + ksz + 1 + vsize + 1) (32 + (plen + 1 + ksz) + vsize + 1 - 32)) as [_|]; [|lia]. cbn [bind].
      exists m8. split; [reflexivity|exact RD8].
    - (* in line *)
      set (vsize := rdk 4 vh) in *.
      destruct (XattrModel.rd_at S (p + 8 + ksz) vsize) as [v0| | |] eqn:R4; cbn [Res.bind] in K; try discriminate.
      injection K as <- <- <-.
      assert (Hvs : vsize < 4294967296) by (unfold vsize; apply (rdk_lt 4)).
      pose proof (rd_at_len _ _ _ _ R4) as Lv.
      assert (A' : 32 + (plen + 1 + ksz) + vsize + 1 <= alloc_limit).
      { unfold Res.nlen in A. rewrite app_length in A. unfold plen, Common.lenN in *. lia. }
      cbn [bind]. fold vsize.
      rewrite (sz_add_ok (32 + (plen + 1 + ksz)) vsize) by (unfold two64, alloc_limit in *; lia).
      rewrite (sz_add_ok (32 + (plen + 1 + ksz) + vsize) 1) by (unfold two64, alloc_limit in *; lia).
      unfold malloc_chk. destruct (N.ltb_spec alloc_limit (32 + (plen + 1 + ksz) + vsize + 1)) as [|_]; [lia|]. cbn [bind].
      unfold put_check at 1.
      destruct (N.leb_spec (plen + ksz + 1 + vsize) (32 + (plen + 1 + ksz) + vsize + 1 - 32)) as [_|]; [|lia]. cbn [bind].
      destruct (read_step m3 (p + 8 + ksz) vsize v0 (32 + (plen + 1 + ksz) + vsize + 1 - 32 - (plen + ksz + 1)) fuel RD3 R4
                  ltac:(lia) Hf) as (m5 & M5 & RD5).
      rewrite M5. cbn [bind].
      unfold put_check.
      destruct (N.leb_spec (plen + ksz + 1 + vsize + 1) (32 + (plen + 1 + ksz) + vsize + 1 - 32)) as [_|]; [|lia]. cbn [bind].
      exists m5. split; [reflexivity|exact RD5].
  Qed.
  (* ---- the loaded reader ---- *)
  Variable n : N.
  Variable locs : list N.
  Hypothesis Hch : chunked idr.
  Hypothesis HI : cl I = n * 16.
  Hypothesis Hlocs : forall b, (b < length idr)%nat ->
    nth_error locs b = Some (size0 + cl (concat (map enc kvr)) + startE compress idr b).
  Hypothesis Hn : n < 4294967296.
  Hypothesis Hused : used < two64.

  Definition XInv (x : xreader) : Prop :=
    x_start x = size0 /\ x_end x = used /\ x_num_ids x = n /\ x_blocks x = locs /\
    exists mi mk, x_idrd x = Some mi /\ x_kvrd x = Some mk /\ CohT mi /\ CohT mk.

  (* sqfs_xattr_reader_get_desc *)
  Lemma get_desc_ok x idx d fuel :
    XInv x -> idx < n -> XattrModel.rd_at I (idx * 16) 16 = Res.Ok d -> (2 * length (t_raws T) <= fuel)%nat ->
    exists x', xattr_get_desc uc img fuel x idx
               = Ok (x', (fld 8 o_sqfs_xattr_id_t_xattr d, fld 4 o_sqfs_xattr_id_t_count d, fld 4 o_sqfs_xattr_id_t_size d)) /\
               XInv x'.
  Proof.
    intros (Xs & Xe & Xn & Xb & mi & mk & Ei & Ek & Ci & Ck) Hidx RD Hf.
    destruct (XattrProofs.rd_at_ok_inv _ _ _ _ RD) as [B ->].
    set (p := idx * 16) in *.
    assert (Hp : p < cl (concat idr)) by (fold I; rewrite HI; unfold p; lia).
    destruct (chunked_index idr p Hch Hp) as (Hb & HL & HM). cbv zeta in Hb, HL, HM.
    set (b := N.to_nat (p / 8192)) in *.
    unfold xattr_get_desc, idsz. change sizeof_sqfs_xattr_id_t with 16. change meta_sz with 8192.
    destruct (N.eqb_spec idx max32) as [E|_]; [unfold max32, two32 in E; lia|].
    rewrite Ek, Ei, Xn. destruct (N.leb_spec n idx) as [|_]; [lia|]. fold p.
    unfold nth_chk, nN. fold b. rewrite Xb, (Hlocs b Hb). cbn [bind].
    rewrite <- (bpos_id compress uncompress compress_ok kvr idr size0 ids used b). fold T.
    assert (Nb : nth (length kvr + b) (t_raws T) [] = nth b idr []).
    { unfold T. cbn [t_raws]. rewrite app_nth2 by lia. f_equal. lia. }
    assert (SF : suffix T (length kvr + b) (p mod 8192) = dropN p I).
    { unfold T. rewrite (suffix_id compress uncompress compress_ok kvr idr size0 ids used b _ Hb) by lia.
      fold I. f_equal. lia. }
    destruct (mr_seek_ok compress uncompress compress_ok uc uc_ok img img_small T mi (bpos compress T (length kvr + b))
                (p mod 8192) (suffix T (length kvr + b) (p mod 8192)) TO Ci) as (m1 & M1 & R1).
    - exists (length kvr + b)%nat. cbn [fst snd]. split; [reflexivity|]. split; [reflexivity|]. left.
      split; [unfold T; cbn [t_raws]; rewrite app_length; lia|]. rewrite Nb. exact HM.
    - rewrite SF. intro E. apply (f_equal (@Common.lenN N)) in E. rewrite ListN.lenN_dropN, ListN.lenN_nil in E.
      fold I in Hp. lia.
    - rewrite M1. cbn [bind]. rewrite SF in R1.
      destruct (mr_read_ok compress uncompress compress_ok uc uc_ok img img_small T m1 (dropN p I) fuel 16 16 TO R1)
        as (m2 & M2 & R2); [rewrite ListN.lenN_dropN; unfold p; lia|lia|exact Hf|].
      rewrite M2. cbn [bind]. eexists. split; [reflexivity|].
      unfold XInv. cbn [x_start x_end x_num_ids x_blocks x_idrd x_kvrd].
      split; [first [exact Xs|reflexivity]|]. split; [first [exact Xe|reflexivity]|]. split; [first [exact Xn|reflexivity]|].
      split; [first [exact Xb|reflexivity]|].
      exists m2, mk. split; [reflexivity|]. split; [first [exact Ek|reflexivity]|]. split; [exact (Rd_Coh compress T _ _ R2)|exact Ck].
  Qed.

  Lemma with_kv_same x kv : x_kvrd x = Some kv -> with_kv x kv = x.
  Proof. destruct x. cbn. intros ->. reflexivity. Qed.

  (* the loop of sqfs_xattr_reader_read_all *)
  Lemma read_n_ok : forall cnt x kv p l p' efuel fuel,
    x_kvrd x = Some kv -> x_start x = size0 -> x_end x = used ->
    RdT kv (dropN p S ++ I) ->
    k_scan sk S p cnt = Res.Ok (l, p') -> Forall (fun kv => pair_alloc kv <= alloc_limit) l ->
    (cnt <= efuel)%nat -> (2 * length (t_raws T) <= fuel)%nat ->
    exists kv', xattr_read_n uc img efuel (N.of_nat cnt) fuel x = Ok (with_kv x kv', l) /\ RdT kv' (dropN p' S ++ I).
  Proof.
    induction cnt as [|c IH]; intros x kv p l p' efuel fuel Hkv Hs He R K A Hef Hf.
    - cbn [k_scan] in K. injection K as <- <-. exists kv. destruct efuel; cbn [xattr_read_n N.of_nat N.eqb];
        rewrite (with_kv_same x kv Hkv); split; (reflexivity || exact R).
    - cbn [k_scan] in K.
      destruct (k_pair sk S p) as [[[k v] p1]| | |] eqn:K1; cbn [Res.bind] in K; try discriminate.
      destruct (k_scan sk S p1 c) as [[rest q]| | |] eqn:K2; cbn [Res.bind] in K; try discriminate.
      injection K as <- <-. pose proof (Forall_inv A) as A1. pose proof (Forall_inv_tail A) as A2.
      destruct efuel as [|e]; [lia|]. cbn [xattr_read_n].
      destruct (N.eqb_spec (N.of_nat (Datatypes.S c)) 0) as [Z|_]; [lia|].
      destruct (xattr_read_ok x kv p k v p1 fuel Hkv Hs He Hused R K1 A1 Hf) as (kv1 & X1 & R1).
      rewrite X1. cbn [bind].
      replace (N.of_nat (Datatypes.S c) - 1) with (N.of_nat c) by lia.
      destruct (IH (with_kv x kv1) kv1 p1 rest q e fuel eq_refl Hs He R1 K2 A2 ltac:(lia) Hf) as (kv2 & X2 & R2).
      rewrite X2. cbn [bind]. exists kv2. split; [reflexivity|exact R2].
  Qed.

  (* sqfs_xattr_reader_read_all on an index of the table *)
  Lemma read_all_ok x idx d q l q' efuel fuel fixed :
    XInv x -> idx < n -> XattrModel.rd_at I (idx * 16) 16 = Res.Ok d ->
    sk (fld 8 o_sqfs_xattr_id_t_xattr d) = Res.Ok q ->
    k_scan sk S q (N.to_nat (fld 4 o_sqfs_xattr_id_t_count d)) = Res.Ok (l, q') ->
    Forall (fun kv => pair_alloc kv <= alloc_limit) l ->
    (N.to_nat (fld 4 o_sqfs_xattr_id_t_count d) <= efuel)%nat -> (2 * length (t_raws T) <= fuel)%nat ->
    exists x', xattr_read_all uc fixed img efuel fuel x idx = Ok (x', l) /\ XInv x'.
  Proof.
    intros X Hidx RD SK KS A Hef Hf.
    destruct (get_desc_ok x idx d fuel X Hidx RD Hf) as (x1 & G & X1).
    destruct X1 as (Xs & Xe & Xn & Xb & mi & mk & Ei & Ek & Ci & Ck).
    unfold xattr_read_all. destruct (N.eqb_spec idx max32) as [E|_]; [unfold max32, two32 in E; lia|].
    rewrite G. cbn [bind]. unfold xattr_seek_kv. rewrite Ek, Xs.
    destruct (seek_step mk _ q Ck SK Hused) as (m1 & M1 & R1 & _).
    rewrite M1. cbn [bind].
    set (cnt := fld 4 o_sqfs_xattr_id_t_count d) in *.
    destruct (read_n_ok (N.to_nat cnt) (with_kv x1 m1) m1 q l q' efuel fuel eq_refl Xs Xe R1 KS A Hef Hf) as (kv' & RN & R2).
    rewrite N2Nat.id in RN. rewrite RN. eexists. split; [reflexivity|].
    unfold XInv. cbn [with_kv x_start x_end x_num_ids x_blocks x_idrd x_kvrd].
    split; [first [exact Xs|reflexivity]|]. split; [first [exact Xe|reflexivity]|]. split; [first [exact Xn|reflexivity]|].
      split; [first [exact Xb|reflexivity]|].
    exists mi, kv'. split; [exact Ei|]. split; [reflexivity|]. split; [exact Ci|exact (Rd_Coh compress T _ _ R2)].
  Qed.
End Ref.
