(* ImgXattrReader — non-vacuity on a section whose key-value stream spans two metadata blocks (9045 bytes; block 0 stored
   compressed by the zero-run-length toy) with an out-of-line reference from block 1 back into block 0:
     set 0   user.a = L (3000 zero bytes, in line at offset 9 of block 0), user.b = F (6000 bytes: crosses into block 1)
     set 1   user.b = "\001"
     set 2   user.c = L   (block 1, offset 836; the value is the reference to block 0, offset 9)
   The section is what xflush appends behind 96 bytes; xattr_load / read_all of the C05 model run on these bytes. *)
From Coq Require Import List NArith ZArith Bool.
From SqfsV Require Import Base.Bytes Gen.Constants C03.Common.
From SqfsV Require Import C01.GenC01 C01.XattrModel Img.TreeModel.
From SqfsV Require C01.Res.
From SqfsV Require Import ImgXattr.FlushModel.
From SqfsV Require Import ImgReader.ReadImage.
From SqfsV Require C05.RBase C05.Super C05.Xattr.
From SqfsV Require Import ImgXattrReader.KSpec ImgXattrReader.SectionRefine ImgXattrReader.Session.
Import ListNotations.
Local Open Scope N_scope.

Definition kb_a : list N := [117; 115; 101; 114; 46; 97].      (* "user.a" *)
Definition kb_b : list N := [117; 115; 101; 114; 46; 98].
Definition kb_c : list N := [117; 115; 101; 114; 46; 99].
Definition big_L : list N := repeat 0 (N.to_nat 3000).
Definition big_F : list N := repeat 9 (N.to_nat 6000).
Definition big_sets : list (list (list N * list N)) :=
  [[(kb_a, big_L); (kb_b, big_F)]; [(kb_b, [1])]; [(kb_c, big_L)]].

Definition big_section : option (xwr * list N * list N * N) :=
  match xw_sets xw_empty big_sets with
  | Res.Ok (xw, idxs) =>
    match xflush (img_compress 3) 96 xw with
    | Res.Ok (Some (bytes, off)) => Some (xw, idxs, bytes, off)
    | _ => None
    end
  | _ => None
  end.

Definition big_img (bytes : list N) : list N := repeat 7 96 ++ bytes ++ repeat 0 10.
Definition big_sup (bytes : list N) (off : N) : Super.sup :=
  Super.MkSup 0 0 4096 0 1 12 0 1 0 (96 + RBase.lenN bytes) 50 (96 + off) 0 0 0 0.
Definition big_uc := uc_of (img_uncompress 3).

Example big_section_shape :
  match big_section with
  | Some (xw, idxs, bytes, off) =>
      idxs = [0; 1; 2] /\ xalloc_okb xw = true /\ N.of_nat (xw_efuel xw) = 2 /\
      RBase.lenN bytes = 6126 /\ off = 6102 /\
      (* block 0 of the key-value area: header 5214 = stored size, bit 15 clear = compressed (8192 bytes in 5214), at the start
         of the section; block 1 follows at relative position 2 + 5214 *)
      RBase.read_at (big_img bytes) 96 2 = RBase.Ok (le16 5214) /\
      (* the descriptors: (reference, pairs, bytes); set 2 lives in the block at relative position 5216, offset 836 *)
      match Xattr.xattr_load (big_img bytes) (big_sup bytes off) with
      | RBase.Ok x =>
          map (fun k => match Xattr.xattr_get_desc big_uc (big_img bytes) 64 x k with
                        | RBase.Ok (_, d) => Some d
                        | _ => None
                        end) [0; 1; 2] =
          [Some (0, 2, 9018); Some (5216 * 65536 + 826, 1, 10); Some (5216 * 65536 + 836, 1, 17)]
      | _ => False
      end
  | None => False
  end.
Proof. vm_compute. repeat split; reflexivity. Qed.

(* one reader object: set 2 first (seek into block 1, out-of-line value in block 0, position restored), then set 0 (reads
   across the block border), set 1, set 2 again, NOIDX, set 0 again.  One round of the read loop is not enough for the
   value that crosses the border: OutOfFuel, not a wrong value *)
Example big_session :
  match big_section with
  | Some (xw, idxs, bytes, off) =>
      xattr_session big_uc (big_img bytes) 2 (length bytes) (big_sup bytes off) [2; 0; 1; 2; NOIDX; 0] =
        RBase.Ok [ [(kb_c, big_L)]; [(kb_a, big_L); (kb_b, big_F)]; [(kb_b, [1])]; [(kb_c, big_L)]; []; [(kb_a, big_L); (kb_b, big_F)] ] /\
      xattr_session big_uc (big_img bytes) 2 1 (big_sup bytes off) [0] = RBase.OutOfFuel /\
      xattr_session big_uc (big_img bytes) 2 (length bytes) (big_sup bytes off) [3] = RBase.Err RBase.E_OOB
  | None => False
  end.
Proof. vm_compute. repeat split; reflexivity. Qed.
