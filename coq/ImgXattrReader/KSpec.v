(* ImgXattrReader — definitions.

   The C05 model of lib/sqfs/src/xattr/xattr_reader.c (coq/C05/Xattr.v: xattr_load, xattr_get_desc, xattr_seek_kv,
   xattr_read, xattr_read_all — the model C05's check ties to the C code) is to be run on the bytes of an image whose
   xattr section comes from ImgXattr.FlushModel.xflush.  Two auxiliary notions:

   sseek     what sqfs_meta_reader_seek accepts, as a function on the list of the uncompressed key-value blocks: a
             reference names block j (its on-disk offset relative to the first block in the high 48 bits) and an offset
             STRICTLY inside the block (meta_reader.c: offset >= data_used is SQFS_ERROR_OUT_OF_BOUNDS; the reader
             specification ImgXattr.XattrRead.xt_seek also accepts offset = block length).
   k_pair    CodecRel.g_pair with the field decoding of the C05 model (fld / rdk: a k byte field is read modulo 256^k,
             the prefix table is Xattr.xattr_prefix).  On byte lists it is g_pair; stated separately because no theorem of
             this development assumes that the list elements that model bytes are below 256. *)
From Coq Require Import List NArith ZArith Bool.
From SqfsV Require Import Base.Bytes Gen.Constants C03.Common C03.MetaModel C03.MetaProofs.
From SqfsV Require Import C01.GenC01 C01.XattrModel.
From SqfsV Require C05.RBase C05.GenC05 C05.Meta C05.Xattr.
From SqfsV Require Import C01.Res.
Import ListNotations.
Local Open Scope N_scope.

Section Seek.
  Variable compress : list N -> cres.

  (* blocks [rest] start at disk offset [pos] (relative to the first block) and stream offset [off] *)
  Fixpoint sfind (rest : list (list N)) (pos off r : N) : option N :=
    match rest with
    | [] => None
    | c :: rest' =>
      if pos =? r / 65536 then (if r mod 65536 <? lenN c then Some (off + r mod 65536) else None)
      else sfind rest' (pos + lenN (enc compress c)) (off + lenN c) r
    end.

  Definition sseek (kvr : list (list N)) (r : N) : res N :=
    match sfind kvr 0 0 r with
    | Some p => Ok p
    | None => Err c_SQFS_ERROR_OUT_OF_BOUNDS
    end.
End Seek.

Section K.
  Variable seek : N -> res N.

  Definition k_pair (s : list N) (p : N) : res (list N * list N * N) :=
    do h <- rd_at s p 4;
    let ty := RBase.fld 2 GenC05.o_sqfs_xattr_entry_t_type h in
    let ksz := RBase.fld 2 GenC05.o_sqfs_xattr_entry_t_size h in
    match Xattr.xattr_prefix (N.land ty GenC05.c5_SQFS_XATTR_PREFIX_MASK) with
    | None => Err c_SQFS_ERROR_UNSUPPORTED
    | Some pfx =>
      do kb <- rd_at s (p + 4) ksz;
      do vh <- rd_at s (p + 4 + ksz) 4;
      if negb (N.land ty GenC05.c5_SQFS_XATTR_FLAG_OOL =? 0) then
        do rb <- rd_at s (p + 8 + ksz) 8;
        do q <- seek (RBase.rdk 8 rb);
        do vh2 <- rd_at s q 4;
        do v <- rd_at s (q + 4) (RBase.rdk 4 vh2);
        Ok (pfx ++ kb, v, p + 16 + ksz)
      else
        do v <- rd_at s (p + 8 + ksz) (RBase.rdk 4 vh);
        Ok (pfx ++ kb, v, p + 8 + ksz + RBase.rdk 4 vh)
    end.

  Fixpoint k_scan (s : list N) (p : N) (n : nat) : res (list (list N * list N) * N) :=
    match n with
    | O => Ok ([], p)
    | S n' =>
      do (k, v, p') <- k_pair s p;
      do (rest, q) <- k_scan s p' n';
      Ok ((k, v) :: rest, q)
    end.
End K.

(* the largest allocation sqfs_xattr_reader_read makes for the pair (key with prefix, value): sizeof(sqfs_xattr_t) +
   key + '\0' + value + '\0' *)
Definition pair_alloc (kv : list N * list N) : N := GenC05.c5_sizeof_sqfs_xattr_t + nlen (fst kv) + nlen (snd kv) + 2.
Definition pair_alloc_okb (kv : list N * list N) : bool := pair_alloc kv <=? RBase.alloc_limit.
