(* ImgXattrReader — definitions: one xattr reader object used the way rdsquashfs / sqfs2tar use it.

     xr = sqfs_xattr_reader_create(0); sqfs_xattr_reader_load(xr, &super, file, cmp);        xattr_session: xattr_load
     for every inode: sqfs_xattr_reader_read_all(xr, index, &list)   (dump_xattrs.c,         xattr_read_seq: xattr_read_all
       sqfs2tar iterator.c; = get_desc, seek_kv, count x read)                                 on the SAME reader object, in
                                                                                               the order of the index list
   All of it is the C05 model (coq/C05/Xattr.v), [fixed = true]: seek_kv after fixes/F22. *)
From Coq Require Import List NArith ZArith Bool.
From SqfsV Require Import Base.Bytes Gen.Constants.
From SqfsV Require Import C05.RBase C05.Meta C05.Super.
From SqfsV Require C05.Xattr.
Import ListNotations.
Local Open Scope N_scope.

Section Sess.
  Variable uc : list N -> N -> res (list N).
  Variable img : list N.
  Variables efuel fuel : nat.

  Fixpoint xattr_read_seq (x : Xattr.xreader) (ks : list N) : res (list (list (list N * list N))) :=
    match ks with
    | [] => Ok []
    | k :: r =>
      do (x', l) <- Xattr.xattr_read_all uc true img efuel fuel x k;
      do rest <- xattr_read_seq x' r;
      Ok (l :: rest)
    end.

  Definition xattr_session (s : sup) (ks : list N) : res (list (list (list N * list N))) :=
    do x <- Xattr.xattr_load img s;
    xattr_read_seq x ks.
End Sess.
