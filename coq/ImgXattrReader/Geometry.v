(* ImgXattrReader — geometry of a metadata area made of the key-value blocks followed by the id blocks (what
   sqfs_xattr_writer_flush leaves: ONE run of metadata blocks; both meta readers of xattr_reader.c are created on the
   window [id_table_start, bytes_used) that contains it), in the vocabulary of ImgReader.MetaRefine, and the strict seek
   function of KSpec. *)
From Coq Require Import List NArith ZArith Lia Bool ZifyBool ZifyNat ZifyN.
From SqfsV Require Import Base.Bytes Gen.Constants.
From SqfsV Require Import C03.Common C03.ListN C03.MetaModel C03.MetaProofs C03.MetaRT.
From SqfsV Require Import C05.RBase C05.Meta.
From SqfsV Require Import ImgReader.MetaRefine.
From SqfsV Require Import ImgXattrReader.KSpec.
Import ListNotations.
Local Open Scope N_scope.
Ltac Zify.zify_post_hook ::= Z.div_mod_to_equations.

Lemma concat_split3 {A} (d : list A) : forall j (l : list (list A)), (j < length l)%nat ->
  concat l = concat (firstn j l) ++ nth j l d ++ concat (skipn (S j) l).
Proof.
  intros j l H. rewrite <- (firstn_skipn j l) at 1. rewrite concat_app. f_equal.
  rewrite (skipn_S_nth d j l H). reflexivity.
Qed.

Section Geo.
  Variable compress : list N -> cres.
  Variable uncompress : list N -> option (list N).
  Hypothesis compress_ok :
    forall b c, compress b = CData c -> cl c <= cl b /\ uncompress c = Some b.

  Notation enc := (enc compress).

  Definition startE (raws : list (list N)) (k : nat) : N := cl (concat (map enc (firstn k raws))).

  (* ---- the strict seek function ---- *)
  Lemma sfind_inv : forall rest pos off r p,
    sfind compress rest pos off r = Some p ->
    exists j, (j < length rest)%nat /\ r / 65536 = pos + startE rest j /\
              r mod 65536 < cl (nth j rest []) /\ p = off + cl (concat (firstn j rest)) + r mod 65536.
  Proof.
    induction rest as [|c rest IH]; intros pos off r p H; cbn [sfind] in H; [discriminate|].
    destruct (N.eqb_spec pos (r / 65536)) as [E|_].
    - destruct (N.ltb_spec (r mod 65536) (cl c)) as [L|_]; [|discriminate]. injection H as <-.
      exists 0%nat. unfold startE. cbn [length firstn map concat nth]. rewrite !ListN.lenN_nil.
      split; [lia|]. split; [lia|]. split; [exact L|lia].
    - destruct (IH _ _ _ _ H) as (j & Hj & D & M & P). exists (S j). unfold startE in *.
      cbn [length firstn map concat nth]. rewrite !ListN.lenN_app.
      split; [lia|]. split; [lia|]. split; [exact M|lia].
  Qed.

  Lemma sfind_from : forall rest pos off j q,
    Forall blk_ok rest -> (j < length rest)%nat -> q < cl (nth j rest []) -> q < 65536 ->
    sfind compress rest pos off ((pos + startE rest j) * 65536 + q) = Some (off + cl (concat (firstn j rest)) + q).
  Proof.
    induction rest as [|c rest IH]; intros pos off j q OK Hj Hq Hq2; [cbn [length] in Hj; lia|].
    inversion OK as [|? ? OKc OK']; subst.
    pose proof (enc_len compress uncompress compress_ok c OKc) as EL.
    cbn [sfind]. unfold startE in *. destruct j as [|j].
    - cbn [firstn map concat nth] in *. rewrite !ListN.lenN_nil, !N.add_0_r.
      assert (D : (pos * 65536 + q) / 65536 = pos) by lia. assert (M : (pos * 65536 + q) mod 65536 = q) by lia.
      rewrite D, M, N.eqb_refl. destruct (N.ltb_spec q (cl c)); [reflexivity|lia].
    - cbn [firstn map concat nth length] in *. rewrite !ListN.lenN_app.
      set (tgt := pos + (cl (enc c) + cl (concat (map enc (firstn j rest))))).
      assert (D : (tgt * 65536 + q) / 65536 = tgt) by lia.
      rewrite D. destruct (N.eqb_spec pos tgt) as [E|_]; [unfold tgt in E; lia|].
      replace tgt with (pos + cl (enc c) + cl (concat (map enc (firstn j rest)))) by (unfold tgt; lia).
      rewrite IH; [f_equal; lia|exact OK'|lia|exact Hq|exact Hq2].
  Qed.

  (* ---- key-value blocks followed by id blocks ---- *)
  Variables (kvr idr : list (list N)) (size0 ids used : N).
  Let T := mkT size0 (kvr ++ idr) ids used.
  Let S := concat kvr.
  Let I := concat idr.

  Lemma raws_len : length (t_raws T) = (length kvr + length idr)%nat.
  Proof. unfold T. cbn [t_raws]. apply app_length. Qed.

  Lemma bpos_kv j : (j <= length kvr)%nat -> bpos compress T j = size0 + startE kvr j.
  Proof.
    intro H. unfold bpos, T, startE. cbn [t_base t_raws]. rewrite firstn_app.
    replace (j - length kvr)%nat with 0%nat by lia. cbn [firstn]. rewrite app_nil_r. reflexivity.
  Qed.

  Lemma bpos_id b : bpos compress T (length kvr + b) = size0 + cl (concat (map enc kvr)) + startE idr b.
  Proof.
    unfold bpos, T, startE. cbn [t_base t_raws]. rewrite firstn_app, firstn_all2 by lia.
    replace (length kvr + b - length kvr)%nat with b by lia.
    rewrite map_app, concat_app, ListN.lenN_app. lia.
  Qed.

  (* the stream behind offset o of key-value block j *)
  Lemma suffix_kv j o : (j < length kvr)%nat -> o <= cl (nth j kvr []) ->
    suffix T j o = dropN (cl (concat (firstn j kvr)) + o) S ++ I.
  Proof.
    intros Hj Ho. unfold suffix, T, S, I. cbn [t_raws].
    rewrite app_nth1 by exact Hj.
    assert (E : skipn (Datatypes.S j) (kvr ++ idr) = skipn (Datatypes.S j) kvr ++ idr).
    { rewrite skipn_app. replace (Datatypes.S j - length kvr)%nat with 0%nat by lia. reflexivity. }
    rewrite E, concat_app, app_assoc. f_equal.
    rewrite (concat_split3 [] j kvr Hj).
    rewrite dropN_app_ge by lia.
    replace (cl (concat (firstn j kvr)) + o - cl (concat (firstn j kvr))) with o by lia.
    rewrite dropN_app_le by exact Ho. reflexivity.
  Qed.

  (* ... of id block b *)
  Lemma suffix_id b o : (b < length idr)%nat -> o <= cl (nth b idr []) ->
    suffix T (length kvr + b) o = dropN (cl (concat (firstn b idr)) + o) I.
  Proof.
    intros Hb Ho. unfold suffix, T, I. cbn [t_raws].
    rewrite app_nth2 by lia. replace (length kvr + b - length kvr)%nat with b by lia.
    assert (E : skipn (Datatypes.S (length kvr + b)) (kvr ++ idr) = skipn (Datatypes.S b) idr).
    { rewrite skipn_app, skipn_all2 by lia. cbn [app]. f_equal. lia. }
    rewrite E. rewrite (concat_split3 [] b idr Hb).
    rewrite dropN_app_ge by lia.
    replace (cl (concat (firstn b idr)) + o - cl (concat (firstn b idr))) with o by lia.
    rewrite dropN_app_le by exact Ho. reflexivity.
  Qed.
End Geo.
