(* ImgXattrReader — pack_all_reads_back_real: ImgE2E's end-to-end theorem with read_all_real, the reader built from
   real-reader models only.  The xattr part of every entry is what the C05 model of xattr_reader.c returns on the image
   bytes, with ONE reader object threaded through all paths; by ImageRefine.step_ok it is what the reader specification
   returns, so read_all_real and read_all agree on the whole result. *)
From Coq Require Import List NArith ZArith Bool Lia Permutation ZifyBool ZifyNat ZifyN.
From SqfsV Require Import Base.Bytes Gen.Constants C03.Common C03.ListN.
From SqfsV Require C14.SuperModel.
From SqfsV Require Import C01.GenC01 C01.InodeModel C01.XattrModel C01.XattrProofs C01.XattrWriterProofs Img.TreeModel.
From SqfsV Require C01.Res.
From SqfsV Require Import C11.StrOrder C11.FstreeModel C11.PostModel.
From SqfsV Require Import ImgPost.Bridge ImgPost.PathsModel ImgPost.PathsProofs.
From SqfsV Require Import C08.DedupModel.
From SqfsV Require Import Image.FinishModel Image.FinishProofs Image.ImageProofs.
From SqfsV Require Import ImgXattr.FlushModel ImgXattr.XattrRead.
From SqfsV Require C05.RBase C05.Super C05.Xattr.
From SqfsV Require C10.DataModel.
From SqfsV Require Import ImgReader.Embed ImgReader.ReadImage.
From SqfsV Require Import ImgE2E.PackAll ImgE2E.Hyps ImgE2E.Facts ImgE2E.Compose.
From SqfsV Require Import ImgXattrReader.KSpec ImgXattrReader.SectionRefine ImgXattrReader.ImageRefine ImgXattrReader.RealAll.
Import ListNotations.
Local Open Scope N_scope.

(* loop bounds of read_all_real *)
Definition e2e_efuel_real (r : prun) : nat := Nat.max (e2e_efuel r) (xw_efuel (r_xw r)).
Definition e2e_fuel_real (r : prun) : nat := Nat.max (e2e_fuel r) (length (w_xattrb (r_w r))).

Section E2ER.
  Variable hashf : list N -> N.
  Variable dcompress : list N -> option (list N).
  Variable duncompress : list N -> nat -> option (list N).
  Hypothesis Hdcomp : forall b c, dcompress b = Some c ->
    (length c < length b)%nat /\ forall n, (length b <= n)%nat -> duncompress c n = Some b.
  Variable half : nat.
  Variable mcompress : list N -> cres.
  Variable muncompress : list N -> option (list N).
  Hypothesis Hmcomp : forall b c, mcompress b = CData c -> lenN c <= lenN b /\ muncompress c = Some b.
  Variable uc : list N -> N -> RBase.res (list N).
  Hypothesis uc_ok : uc_meets muncompress uc.
  Variable limit : N.
  Hypothesis Hlimit : limit <= 65535.
  Variable cfg : wcfg.
  Variable pi : pinput.
  Variable r : prun.
  Hypothesis Hrun : pack_all hashf dcompress duncompress half mcompress limit cfg pi = PDone r.
  Hypothesis Hok : e2e_okb half cfg pi r = true.
  Hypothesis AL : xalloc_okb (r_xw r) = true.
  Variables efuel fuel : nat.
  Hypothesis Hef : (xw_efuel (r_xw r) <= efuel)%nat.
  Hypothesis Hfu : (length (w_xattrb (r_w r)) <= fuel)%nat.

  Let w := r_w r.
  Let img := image_bytes w.
  Let sf := w_super w.
  Let xw := r_xw r.
  Let sets := map (pi_xattrs pi) (xattr_paths (r_pp r)).

  Notation RI := (RInv mcompress w xw).

  Lemma ir_args :
    write_image mcompress limit cfg (r_inp r) = Res.Ok w /\ image_domain cfg (r_inp r) = true /\ image_fits w = true /\
    lenN img < RBase.two63 /\ xflush mcompress (o_xattr w) xw = Res.Ok (in_xattr (r_inp r)) /\
    Forall set_ok sets /\ xw_sets xw_empty sets = Res.Ok (xw, r_idxs r) /\
    Res.nlen (x_blocks xw) < NOIDX /\ lenN (w_xattrb w) < 281474976710656 /\ c_no_xattr cfg = false.
  Proof.
    destruct (hyps half cfg pi r Hok) as (_ & H2 & _ & _ & _ & _ & Hnox & _ & _ & _ & _ & _ & Hnoidx & H48).
    destruct (run_facts hashf dcompress duncompress half mcompress limit cfg pi r Hrun)
      as (s0 & w0 & _ & _ & _ & XS & _).
    split; [exact (image_written hashf dcompress duncompress half mcompress limit cfg pi r Hrun)|].
    split; [exact (image_dom hashf dcompress duncompress Hdcomp half mcompress muncompress Hmcomp limit Hlimit cfg pi r Hrun Hok)|].
    split; [exact (image_fit half cfg pi r Hok)|]. split; [exact (image_small half cfg pi r Hok)|].
    split; [exact (flush_at_final_offset hashf dcompress duncompress half mcompress limit cfg pi r Hrun)|].
    split; [exact (sets_okb_ok _ H2)|]. split; [exact XS|]. split; [exact Hnoidx|]. split; [exact H48|exact Hnox].
  Qed.

  Lemma nodes_real_eq : forall l dr xr out,
    RI xr ->
    read_nodes muncompress duncompress img (sup_of sf) dr l = RBase.Ok out ->
    read_nodes_real uc duncompress img efuel fuel (sup_of sf) dr xr l = RBase.Ok out.
  Proof.
    destruct ir_args as (A1 & A2 & A3 & A4 & A5 & A6 & A7 & A8 & A9 & A10).
    induction l as [|[[p v] ino] l IH]; intros dr xr out R H; [exact H|].
    cbn [read_nodes read_nodes_real] in *.
    destruct (read_contents duncompress img (Super.s_block_size (sup_of sf)) dr (pv_kind v)) as [rd dr'].
    destruct rd as [d|e| |]; cbn [RBase.bind] in *; try discriminate.
    destruct (read_xattr_set muncompress img (sm_of (sup_of sf)) (pv_xattr v)) as [x|e| |] eqn:RX;
      cbn [of_res RBase.bind] in H; try discriminate.
    rewrite (read_xattr_set_start muncompress img (sm_of (sup_of sf)) sf (pv_xattr v) eq_refl) in RX.
    pose proof (spec_ok_index mcompress muncompress Hmcomp limit Hlimit cfg (r_inp r) w A1 A2 A3 A4 xw A5 sets (r_idxs r)
                  A6 A7 A8 A9 A10 _ _ RX) as Hk.
    destruct (step_ok mcompress muncompress Hmcomp uc uc_ok limit Hlimit cfg (r_inp r) w A1 A2 A3 A4 xw A5 sets (r_idxs r)
                A6 A7 A8 A9 A10 AL efuel fuel Hef Hfu xr (pv_xattr v) R Hk) as (xr' & l' & RA & R' & SP & _).
    fold img sf in SP. rewrite RX in SP. injection SP as <-.
    fold img in RA. rewrite RA. cbn [RBase.bind].
    destruct (read_nodes muncompress duncompress img (sup_of sf) dr' l) as [tl|e| |] eqn:RN;
      cbn [RBase.bind] in H; try discriminate.
    rewrite (IH dr' xr' tl R' RN). cbn [RBase.bind]. exact H.
  Qed.

  Lemma read_all_real_eq depth out T :
    read_image_c05 uc depth efuel fuel img = RBase.Ok (sup_of sf, si_ids (w_img w), T) ->
    read_all uc muncompress duncompress img depth efuel fuel = RBase.Ok out ->
    read_all_real uc duncompress img efuel fuel depth = RBase.Ok out.
  Proof.
    destruct ir_args as (A1 & A2 & A3 & A4 & A5 & A6 & A7 & A8 & A9 & A10).
    intros RT RA. unfold read_all in RA. unfold read_all_real. rewrite RT in *. cbn [RBase.bind] in *.
    destruct (Super.frag_table_read uc img fuel (sup_of sf)) as [raw|e| |]; cbn [RBase.bind] in *; try discriminate.
    destruct (load_ok mcompress muncompress Hmcomp uc uc_ok limit Hlimit cfg (r_inp r) w A1 A2 A3 A4 xw A5 sets (r_idxs r)
                A6 A7 A8 A9 A10) as (x0 & L & R0).
    fold img sf in L. rewrite L. cbn [RBase.bind].
    exact (nodes_real_eq _ _ x0 out R0 RA).
  Qed.
End E2ER.

(* ---- the closed statement ---- *)
Theorem pack_all_reads_back_real_l :
  forall (hashf : list N -> N)
         (dcompress : list N -> option (list N)) (duncompress : list N -> nat -> option (list N)),
  (forall b c, dcompress b = Some c ->
     (length c < length b)%nat /\ forall n, (length b <= n)%nat -> duncompress c n = Some b) ->
  forall (mcompress : list N -> cres) (muncompress : list N -> option (list N)),
  (forall b c, mcompress b = CData c -> lenN c <= lenN b /\ muncompress c = Some b) ->
  forall uc, uc_meets muncompress uc ->
  forall limit, limit <= 65535 ->
  forall half cfg pi r,
  pack_all hashf dcompress duncompress half mcompress limit cfg pi = PDone r ->
  e2e_okb half cfg pi r = true -> xalloc_okb (r_xw r) = true ->
  forall depth efuel fuel,
  (e2e_depth r <= depth)%nat -> (e2e_efuel_real r <= efuel)%nat -> (e2e_fuel_real r <= fuel)%nat ->
  let img := image_bytes (r_w r) in
  let root := fs_root (r_fs r) in
  let arr := pp_inodes (r_pp r) in
  let fb := fb_of (N.to_nat (c_block_size cfg)) (r_st r) (pi_contents pi) (pp_files (r_pp r)) in
  let xa := xa_of (xattr_paths (r_pp r)) (r_idxs r) in
  exists T fl out,
    read_image_c05 uc depth efuel fuel img = RBase.Ok (sup_of (w_super (r_w r)), si_ids (w_img (r_w r)), T) /\
    denotes fb xa root fl /\
    flat_lt [] (ltree_of T) = map (number arr) fl /\
    (forall x, In x fl -> 1 <= ino_of arr (snd x) <= N.of_nat (length arr)) /\
    (forall x y, In x fl -> In y fl -> ino_of arr (snd x) = ino_of arr (snd y) -> snd x = snd y) /\
    read_all_real uc duncompress img efuel fuel depth = RBase.Ok out /\
    read_all uc muncompress duncompress img depth efuel fuel = RBase.Ok out /\
    Forall2 (entry_matches pi root arr) fl out /\
    (forall e1 e2, In e1 out -> In e2 out -> re_ino e1 = re_ino e2 ->
       re_view e1 = re_view e2 /\ re_data e1 = re_data e2 /\ Permutation (re_xattrs e1) (re_xattrs e2)).
Proof.
  intros hashf dcompress duncompress Hd mcompress muncompress Hm uc Huc limit Hl half cfg pi r Hrun Hok AL depth efuel fuel
         H1 H2 H3 img root arr fb xa.
  unfold e2e_efuel_real in H2. unfold e2e_fuel_real in H3.
  destruct (pack_all_reads_back_l hashf dcompress duncompress Hd mcompress muncompress Hm uc Huc limit Hl half cfg pi r
              Hrun Hok depth efuel fuel H1 ltac:(lia) ltac:(lia)) as (T & fl & out & A & B & C & D & E & F & G & H).
  exists T, fl, out. split; [exact A|]. split; [exact B|]. split; [exact C|]. split; [exact D|]. split; [exact E|].
  split; [|split; [exact F|split; [exact G|exact H]]].
  exact (read_all_real_eq hashf dcompress duncompress Hd half mcompress muncompress Hm uc Huc limit Hl cfg pi r Hrun Hok AL
           efuel fuel ltac:(lia) ltac:(lia) depth out T A F).
Qed.
