(* ImgXattrReader — non-vacuity: the packing run of ImgE2E/Example.v with three DIFFERENT attribute sets that share one
   long value (20 x '2': stored in line once, by out-of-line reference twice):

     d/a   user.a = "1", trusted.t = V          set 0: V in line
     d/c   security.x = V                       set 1: V out of line
     l     hard link to d/a (its pairs are recorded as a set of their own, index 2, stored nowhere)
     s     trusted.t = V, user.a = "0" then "12"  set 3: V out of line, one pair per key

   Every hypothesis of pack_all_reads_back_real holds, read_all_real (real-reader models only; ONE xattr reader object
   across all paths) returns the inputs and equals read_all; with too small a pair bound the answer is OutOfFuel. *)
From Coq Require Import List NArith ZArith Bool.
From SqfsV Require Import Base.Bytes Gen.Constants C03.Common.
From SqfsV Require C14.SuperModel.
From SqfsV Require Import C01.GenC01 C01.InodeModel C01.XattrModel Img.TreeModel.
From SqfsV Require Import C11.StrOrder C11.FstreeModel C11.PostModel.
From SqfsV Require Import ImgPost.Bridge ImgPost.PathsModel ImgPost.InputOk ImgPost.PathsProofs.
From SqfsV Require Import C08.DedupModel C08.DedupTheorems.
From SqfsV Require Import Image.FinishModel Image.FinishProofs Image.ImageProofs.
From SqfsV Require Import ImgXattr.XattrRead.
From SqfsV Require Import ImgReader.Embed ImgReader.ReadImage.
From SqfsV Require C05.RBase C05.Super C05.Xattr.
From SqfsV Require Import ImgE2E.PackAll ImgE2E.Hyps ImgE2E.Example.
From SqfsV Require Import ImgXattrReader.KSpec ImgXattrReader.SectionRefine ImgXattrReader.Session ImgXattrReader.RealAll
  ImgXattrReader.E2EReal.
Import ListNotations.
Local Open Scope N_scope.

Definition k_x : list N := [115; 101; 99; 117; 114; 105; 116; 121; 46; 120].     (* "security.x" *)
Definition ex_V : list N := repeat 50 20.

Definition exr_xattrs (p : path) : list (list N * list N) :=
  if path_eqb p [n_d; n_a] then [(k_a, [49]); (k_t, ex_V)]
  else if path_eqb p [n_d; n_c] then [(k_x, ex_V)]
  else if path_eqb p [n_s] then [(k_t, ex_V); (k_a, [48]); (k_a, [49; 50])]
  else if path_eqb p [n_l] then [(k_a, [51])]
  else [].
Definition exr_pi : pinput := mkPin (mkDefaults 0 0 1600000000 493) ex_ops ex_contents exr_xattrs [] [0%nat; 0%nat].

Definition exr_run : pres :=
  pack_all const_hash toy_compress toy_uncompress ex_half (img_compress 3) c_id_table_limit ex_cfg exr_pi.

Definition exr_read (r : prun) (efuel : nat) : RBase.res (list rentry) :=
  read_all_real (uc_of (img_uncompress 3)) toy_uncompress (image_bytes (r_w r)) efuel (e2e_fuel_real r) (e2e_depth r).

Definition exr_spec (r : prun) : RBase.res (list rentry) :=
  read_all (uc_of (img_uncompress 3)) (img_uncompress 3) toy_uncompress (image_bytes (r_w r))
           (e2e_depth r) (e2e_efuel_real r) (e2e_fuel_real r).

(* every decidable hypothesis of pack_all_reads_back_real, and the loop bounds *)
Example exr_hyps :
  match exr_run with
  | PDone r => e2e_okb ex_half ex_cfg exr_pi r = true /\ xalloc_okb (r_xw r) = true /\
               N.of_nat (e2e_depth r) = 5 /\ N.of_nat (e2e_efuel_real r) = 4 /\ N.of_nat (xw_efuel (r_xw r)) = 2 /\
               N.of_nat (e2e_fuel_real r) = 146 /\ lenN (w_xattrb (r_w r)) = 146 /\
               r_idxs r = [NOIDX; NOIDX; 0; 1; 2; 3]
  | _ => False
  end.
Proof. vm_compute. repeat split; reflexivity. Qed.

(* the lookup table of the section: (reference, pairs, bytes) per set — 39 bytes = two pairs with V in line (10 + 29);
   17 = one pair whose value is the 8 byte reference (in line it would be 29); 28 = 11 + 17: V by reference again *)
Example exr_descs :
  match exr_run with
  | PDone r =>
      match read_xattr_table (img_uncompress 3) (image_bytes (r_w r)) (w_super (r_w r)) with
      | Some t => map (fun k => xt_desc t k) [0; 1; 2; 3] =
                  [Res.Ok (0, 2, 39); Res.Ok (39, 1, 17); Res.Ok (56, 1, 10); Res.Ok (66, 2, 28)]
      | None => False
      end
  | _ => False
  end.
Proof. vm_compute. reflexivity. Qed.

(* the real-reader model, one reader object, the sets in an order that makes every out-of-line read leave and restore a
   position (3, 1, 0, NOIDX, 1, 3) *)
Example exr_session :
  match exr_run with
  | PDone r =>
      xattr_session (uc_of (img_uncompress 3)) (image_bytes (r_w r)) 2 146 (sup_of (w_super (r_w r))) [3; 1; 0; NOIDX; 1; 3] =
      RBase.Ok [ [(k_a, [49; 50]); (k_t, ex_V)]; [(k_x, ex_V)]; [(k_a, [49]); (k_t, ex_V)]; []; [(k_x, ex_V)];
                 [(k_a, [49; 50]); (k_t, ex_V)] ] /\
      xattr_session (uc_of (img_uncompress 3)) (image_bytes (r_w r)) 1 146 (sup_of (w_super (r_w r))) [1; 3] = RBase.OutOfFuel /\
      xattr_session (uc_of (img_uncompress 3)) (image_bytes (r_w r)) 2 146 (sup_of (w_super (r_w r))) [4] = RBase.Err RBase.E_OOB
  | _ => False
  end.
Proof. vm_compute. repeat split; reflexivity. Qed.

(* read_all_real on the bytes of the image: the inputs, and the same list read_all (xattrs by the specification) returns *)
Example exr_read_back :
  match exr_run with
  | PDone r =>
      match exr_read r (e2e_efuel_real r) with
      | RBase.Ok out =>
          map (fun e => (re_path e, re_ino e, re_data e, re_xattrs e)) out =
          [ ([], 5, None, []);
            ([n_d], 3, None, []);
            ([n_d; n_a], 1, Some ex_A, [(k_a, [49]); (k_t, ex_V)]);
            ([n_d; n_c], 2, Some ex_A, [(k_x, ex_V)]);
            ([n_l], 1, Some ex_A, [(k_a, [49]); (k_t, ex_V)]);
            ([n_s], 4, None, [(k_a, [49; 50]); (k_t, ex_V)]) ] /\
          exr_spec r = RBase.Ok out
      | _ => False
      end
  | _ => False
  end.
Proof. vm_compute. repeat split; reflexivity. Qed.
