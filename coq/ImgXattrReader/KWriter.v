(* ImgXattrReader — what write_blocks (the key-value stream of sqfs_xattr_writer_flush, C01.XattrModel) produces reads
   back through KSpec.k_scan: ImgXattr.CodecRel's write_pair_read / write_pairs_read / write_blocks_read with the field
   decoding of the C05 reader model (rdk / fld, Xattr.xattr_prefix) in place of rd16 / rd32 / rd64 / prefix_by_id.  Generic
   in the seek function, like CodecRel: the hypotheses are about the positions the stream really uses. *)
From Coq Require Import List NArith ZArith Bool Lia ZifyBool ZifyNat ZifyN.
From SqfsV Require Import Base.Bytes Gen.Constants C01.GenC01 C01.Res C01.XattrModel C01.XattrProofs C01.XattrWriterProofs.
From SqfsV Require C05.RBase C05.GenC05 C05.Xattr.
From SqfsV Require Import ImgXattr.CodecRel.
From SqfsV Require Import ImgXattrReader.KSpec.
Import ListNotations.
Local Open Scope N_scope.

Lemma rdk_le k n r : RBase.rdk k (le k n ++ r) = n mod 256 ^ N.of_nat k.
Proof. unfold RBase.rdk. rewrite rd_le_mod. apply N.mod_mod. apply N.pow_nonzero. discriminate. Qed.

Lemma rdk_le_small k n r : n < 256 ^ N.of_nat k -> RBase.rdk k (le k n ++ r) = n.
Proof. intro H. rewrite rdk_le. apply N.mod_small. exact H. Qed.

Lemma rdk4_le32 n : n < 4294967296 -> RBase.rdk 4 (le32 n) = n.
Proof. intro H. rewrite <- (app_nil_r (le32 n)). apply (rdk_le_small 4). exact H. Qed.

Lemma rdk8_le64 n : n < 18446744073709551616 -> RBase.rdk 8 (le64 n) = n.
Proof. intro H. rewrite <- (app_nil_r (le64 n)). apply (rdk_le_small 8). exact H. Qed.

Lemma fld_type a b : a < 65536 -> RBase.fld 2 GenC05.o_sqfs_xattr_entry_t_type (le16 a ++ le16 b) = a.
Proof. intro H. unfold RBase.fld. cbn [RBase.nN GenC05.o_sqfs_xattr_entry_t_type N.to_nat skipn]. apply (rdk_le_small 2). exact H. Qed.

Lemma fld_size a b : b < 65536 -> RBase.fld 2 GenC05.o_sqfs_xattr_entry_t_size (le16 a ++ le16 b) = b.
Proof.
  intro H. unfold RBase.fld, RBase.nN. change (N.to_nat GenC05.o_sqfs_xattr_entry_t_size) with 2%nat.
  unfold le16 at 1. rewrite skipn_le_app. rewrite <- (app_nil_r (le16 b)). apply (rdk_le_small 2). exact H.
Qed.

Lemma xattr_prefix_of_id t pfx : prefix_by_id t = Some pfx -> Xattr.xattr_prefix t = Some pfx.
Proof.
  unfold prefix_by_id, prefix_table, Xattr.xattr_prefix. cbn [prefix_by_id_scan].
  change GenC05.c5_SQFS_XATTR_USER with c_SQFS_XATTR_USER. change GenC05.c5_SQFS_XATTR_TRUSTED with c_SQFS_XATTR_TRUSTED.
  change GenC05.c5_SQFS_XATTR_SECURITY with c_SQFS_XATTR_SECURITY.
  rewrite (N.eqb_sym c_SQFS_XATTR_USER t), (N.eqb_sym c_SQFS_XATTR_TRUSTED t), (N.eqb_sym c_SQFS_XATTR_SECURITY t).
  destruct (t =? c_SQFS_XATTR_USER); [intro H; injection H as <-; reflexivity|].
  destruct (t =? c_SQFS_XATTR_TRUSTED); [intro H; injection H as <-; reflexivity|].
  destruct (t =? c_SQFS_XATTR_SECURITY); [intro H; injection H as <-; reflexivity|discriminate].
Qed.

Section KW.
  Variable bsK : N -> N.
  Variable seek : N -> res N.
  Variable LK : N.
  Hypothesis Hseek : forall p, p < LK -> seek (ref_at bsK p) = Ok p.
  Hypothesis Hsmall : forall p, p < LK -> ref_at bsK p < 18446744073709551616.

  Notation ool_inv := (CodecRel.ool_inv seek).

  Ltac nl := rewrite ?nlen_app, ?nlen_le, ?nlen_nil; cbn [N.of_nat Pos.of_succ_nat Pos.succ].

  Lemma write_pair_readk w pre ool kv bytes ool' post :
    tables_ok w -> pair_ok w kv -> write_pair bsK w (nlen pre) ool kv = (bytes, ool') -> ool_inv w pre ool ->
    nlen (pre ++ bytes ++ post) <= LK ->
    k_pair seek (pre ++ bytes ++ post) (nlen pre) = Ok (pair_kv w kv, nlen pre + nlen bytes) /\
    ool_inv w (pre ++ bytes) ool'.
  Proof.
    intros [TK TV] [PK PV] W I BL. unfold write_pair in W. unfold pair_kv.
    set (key := nth (fst kv) (x_keys w) []) in *. set (v := nth (snd kv) (x_vals w) []) in *.
    assert (KO : key_ok key) by (rewrite Forall_forall in TK; apply TK, nth_In; exact PK).
    assert (VO : val_ok v) by (rewrite Forall_forall in TV; apply TV, nth_In; exact PV).
    destruct KO as [ty [sfx [P KL]]]. rewrite P in W. unfold val_ok in VO.
    destruct (prefix_of_spec _ _ _ P) as [pfx [EK [SNE [TY [PB [OF [PB2 OF2]]]]]]].
    destruct (nth (snd kv) ool None) as [r|] eqn:EO.
    - (* out of line *)
      assert (EB : bytes = enc_key (ty + c_SQFS_XATTR_FLAG_OOL) sfx ++ enc_ool r) by congruence.
      assert (EL : ool' = ool) by congruence. subst bytes ool'. clear W.
      destruct (I _ _ EO) as [R [q [Q [V1 V2]]]]. fold v in V1, V2.
      split; [|apply CodecRel.ool_inv_app; exact I].
      unfold k_pair, enc_key, enc_ool.
      set (ty' := ty + c_SQFS_XATTR_FLAG_OOL) in *.
      assert (TY' : ty' < 65536) by (unfold ty'; change c_SQFS_XATTR_FLAG_OOL with 256; lia).
      set (S := pre ++ ((le16 ty' ++ le16 (nlen sfx) ++ sfx) ++ le32 8 ++ le64 r) ++ post).
      assert (R1 : rd_at S (nlen pre) 4 = Ok (le16 ty' ++ le16 (nlen sfx))).
      { apply rd_at_split with (a := pre) (b := sfx ++ le32 8 ++ le64 r ++ post);
          [unfold S; repeat rewrite <- app_assoc; reflexivity|reflexivity|unfold le16; nl; reflexivity]. }
      rewrite R1. cbn [bind]. rewrite fld_type by exact TY'. rewrite fld_size by lia.
      change GenC05.c5_SQFS_XATTR_PREFIX_MASK with c_SQFS_XATTR_PREFIX_MASK.
      change GenC05.c5_SQFS_XATTR_FLAG_OOL with c_SQFS_XATTR_FLAG_OOL.
      rewrite (xattr_prefix_of_id _ _ PB2).
      assert (R2 : rd_at S (nlen pre + 4) (nlen sfx) = Ok sfx).
      { apply rd_at_split with (a := pre ++ le16 ty' ++ le16 (nlen sfx)) (b := le32 8 ++ le64 r ++ post);
          [unfold S; repeat rewrite <- app_assoc; reflexivity|unfold le16; nl; lia|reflexivity]. }
      rewrite R2. cbn [bind].
      assert (R3 : rd_at S (nlen pre + 4 + nlen sfx) 4 = Ok (le32 8)).
      { apply rd_at_split with (a := pre ++ le16 ty' ++ le16 (nlen sfx) ++ sfx) (b := le64 r ++ post);
          [unfold S; repeat rewrite <- app_assoc; reflexivity|unfold le16; nl; lia|unfold le32; nl; reflexivity]. }
      rewrite R3. cbn [bind].
      destruct (N.eqb_spec (N.land ty' c_SQFS_XATTR_FLAG_OOL) 0) as [Z|_]; [exfalso; exact (OF2 Z)|]. cbn [negb].
      assert (R4 : rd_at S (nlen pre + 8 + nlen sfx) 8 = Ok (le64 r)).
      { apply rd_at_split with (a := pre ++ le16 ty' ++ le16 (nlen sfx) ++ sfx ++ le32 8) (b := post);
          [unfold S; repeat rewrite <- app_assoc; reflexivity|unfold le16, le32; nl; lia|unfold le64; nl; reflexivity]. }
      rewrite R4. cbn [bind].
      rewrite (rdk8_le64 r R). rewrite Q. cbn [bind].
      assert (V1' : rd_at S q 4 = Ok (le32 (nlen v))) by (unfold S; apply rd_at_app; exact V1).
      assert (V2' : rd_at S (q + 4) (nlen v) = Ok v) by (unfold S; apply rd_at_app; exact V2).
      rewrite V1'. cbn [bind].
      rewrite (rdk4_le32 _ VO).
      rewrite V2'. cbn [bind].
      rewrite EK. f_equal. f_equal. unfold le16, le32, le64. nl. lia.
    - (* in line *)
      assert (EB : bytes = enc_key ty sfx ++ enc_val v) by congruence.
      assert (EL : ool' = (if should_ool v (nth (snd kv) (x_refs w) 0)
                           then upd ool (snd kv) (fun _ => Some (ref_at bsK (nlen pre + nlen (enc_key ty sfx)))) else ool))
        by congruence.
      subst bytes ool'. clear W.
      set (kb := enc_key ty sfx) in *. set (S := pre ++ (kb ++ enc_val v) ++ post).
      assert (TY' : ty < 65536) by lia.
      assert (R1 : rd_at S (nlen pre) 4 = Ok (le16 ty ++ le16 (nlen sfx))).
      { apply rd_at_split with (a := pre) (b := sfx ++ le32 (nlen v) ++ v ++ post);
          [unfold S, kb, enc_key, enc_val; repeat rewrite <- app_assoc; reflexivity|reflexivity|unfold le16; nl; reflexivity]. }
      assert (R2 : rd_at S (nlen pre + 4) (nlen sfx) = Ok sfx).
      { apply rd_at_split with (a := pre ++ le16 ty ++ le16 (nlen sfx)) (b := le32 (nlen v) ++ v ++ post);
          [unfold S, kb, enc_key, enc_val; repeat rewrite <- app_assoc; reflexivity|unfold le16; nl; lia|reflexivity]. }
      assert (R3 : rd_at S (nlen pre + 4 + nlen sfx) 4 = Ok (le32 (nlen v))).
      { apply rd_at_split with (a := pre ++ le16 ty ++ le16 (nlen sfx) ++ sfx) (b := v ++ post);
          [unfold S, kb, enc_key, enc_val; repeat rewrite <- app_assoc; reflexivity|unfold le16; nl; lia|unfold le32; nl; reflexivity]. }
      assert (R4 : rd_at S (nlen pre + 8 + nlen sfx) (nlen v) = Ok v).
      { apply rd_at_split with (a := pre ++ le16 ty ++ le16 (nlen sfx) ++ sfx ++ le32 (nlen v)) (b := post);
          [unfold S, kb, enc_key, enc_val; repeat rewrite <- app_assoc; reflexivity|unfold le16, le32; nl; lia|reflexivity]. }
      assert (KB : nlen kb = 4 + nlen sfx) by (unfold kb, enc_key, le16; nl; lia).
      split.
      + unfold k_pair. fold S. rewrite R1. cbn [bind]. rewrite fld_type by exact TY'. rewrite fld_size by lia.
        change GenC05.c5_SQFS_XATTR_PREFIX_MASK with c_SQFS_XATTR_PREFIX_MASK.
        change GenC05.c5_SQFS_XATTR_FLAG_OOL with c_SQFS_XATTR_FLAG_OOL.
        rewrite (xattr_prefix_of_id _ _ PB), R2. cbn [bind]. rewrite R3. cbn [bind].
        rewrite OF, N.eqb_refl. cbn [negb].
        rewrite (rdk4_le32 _ VO).
        rewrite R4. cbn [bind].
        rewrite EK. f_equal. f_equal. unfold enc_val, le32. nl. lia.
      + (* the reference recorded for a shared long value points at this value *)
        assert (I' : ool_inv w (pre ++ kb ++ enc_val v) ool) by (apply CodecRel.ool_inv_app; exact I).
        destruct (should_ool v (nth (snd kv) (x_refs w) 0)); [|exact I'].
        assert (PL : nlen pre + nlen kb < LK).
        { revert BL. unfold enc_val, le32. nl. lia. }
        intros vi r' E. destruct (CodecRel.nth_upd_some _ _ _ _ _ E) as [[-> ->]|A]; [|exact (I' vi r' A)].
        split; [apply Hsmall; exact PL|]. exists (nlen pre + nlen kb). split; [apply Hseek; exact PL|]. fold v.
        split.
        * apply rd_at_split with (a := pre ++ kb) (b := v);
            [unfold enc_val; repeat rewrite <- app_assoc; reflexivity|nl; reflexivity|unfold le32; nl; reflexivity].
        * apply rd_at_split with (a := pre ++ kb ++ le32 (nlen v)) (b := []);
            [unfold enc_val; repeat rewrite <- app_assoc; rewrite app_nil_r; reflexivity|unfold le32; nl; lia|reflexivity].
  Qed.

  Lemma write_pairs_readk w : forall l pre ool bytes ool' post,
    tables_ok w -> Forall (pair_ok w) l -> write_pairs bsK w (nlen pre) ool l = (bytes, ool') -> ool_inv w pre ool ->
    nlen (pre ++ bytes ++ post) <= LK ->
    k_scan seek (pre ++ bytes ++ post) (nlen pre) (length l) = Ok (map (pair_kv w) l, nlen pre + nlen bytes) /\
    ool_inv w (pre ++ bytes) ool'.
  Proof.
    induction l as [|kv l IH]; intros pre ool bytes ool' post T F W I BL.
    - cbn [write_pairs] in W. injection W as <- <-. split; [cbn [length k_scan map]; rewrite nlen_nil, N.add_0_r; reflexivity|].
      rewrite app_nil_r. exact I.
    - cbn [write_pairs] in W. inversion F as [|? ? Fk Fl]; subst.
      destruct (write_pair bsK w (nlen pre) ool kv) as [b ool1] eqn:E1.
      destruct (write_pairs bsK w (nlen pre + nlen b) ool1 l) as [b2 ool2] eqn:E2.
      assert (EB : bytes = b ++ b2) by congruence. assert (EO : ool' = ool2) by congruence. subst bytes ool'. clear W.
      assert (BL1 : nlen (pre ++ b ++ b2 ++ post) <= LK) by (rewrite <- app_assoc in BL; exact BL).
      destruct (write_pair_readk w pre ool kv b ool1 (b2 ++ post) T Fk E1 I BL1) as [R1 I1].
      rewrite <- nlen_app in E2.
      assert (BL2 : nlen ((pre ++ b) ++ b2 ++ post) <= LK) by (rewrite <- app_assoc; exact BL1).
      destruct (IH (pre ++ b) ool1 b2 ool2 post T Fl E2 I1 BL2) as [R2 I2].
      split.
      + cbn [length k_scan map]. rewrite <- app_assoc. rewrite R1. cbn [bind].
        rewrite <- nlen_app. rewrite <- app_assoc in R2. rewrite R2. cbn [bind]. destruct (pair_kv w kv) as [k0 v0].
        rewrite !nlen_app. f_equal. f_equal. lia.
      + rewrite app_assoc. exact I2.
  Qed.

  (* every block of the stream reads back, from the reference its descriptor holds *)
  Lemma write_blocks_readk w : forall bl pre ool kv descs post,
    tables_ok w -> Forall (Forall (pair_ok w)) bl -> write_blocks bsK w (nlen pre) ool bl = (kv, descs) ->
    ool_inv w pre ool -> nlen (pre ++ kv ++ post) <= LK ->
    forall j b, nth_error bl j = Some b ->
      exists p sz, nth_error descs j = Some (ref_at bsK p, N.of_nat (length b), sz) /\
                   k_scan seek (pre ++ kv ++ post) p (length b) = Ok (map (pair_kv w) b, p + sz) /\
                   p + sz <= nlen (pre ++ kv).
  Proof.
    induction bl as [|b bl IH]; intros pre ool kv descs post T F W I BL.
    - intros j b H. destruct j; discriminate.
    - cbn [write_blocks] in W. inversion F as [|? ? Fb Fl]; subst.
      destruct (write_pairs bsK w (nlen pre) ool b) as [bytes ool1] eqn:E1.
      destruct (write_blocks bsK w (nlen pre + nlen bytes) ool1 bl) as [rest ds] eqn:E2.
      assert (EK : kv = bytes ++ rest) by congruence.
      assert (ED : descs = (ref_at bsK (nlen pre), N.of_nat (length b), nlen bytes) :: ds) by congruence.
      subst kv descs. clear W.
      assert (BL1 : nlen (pre ++ bytes ++ rest ++ post) <= LK) by (rewrite <- app_assoc in BL; exact BL).
      destruct (write_pairs_readk w b pre ool bytes ool1 (rest ++ post) T Fb E1 I BL1) as [R1 I1].
      rewrite <- nlen_app in E2.
      assert (BL2 : nlen ((pre ++ bytes) ++ rest ++ post) <= LK) by (rewrite <- app_assoc; exact BL1).
      pose proof (IH (pre ++ bytes) ool1 rest ds post T Fl E2 I1 BL2) as R2.
      intros j b' H. destruct j as [|j]; cbn [nth_error] in *.
      + injection H as <-. exists (nlen pre), (nlen bytes). split; [reflexivity|].
        split; [rewrite <- app_assoc; exact R1|]. rewrite !nlen_app; lia.
      + destruct (R2 j b' H) as [p [sz [D [R B1]]]]. exists p, sz. split; [exact D|].
        split; [rewrite <- !app_assoc in R; rewrite <- app_assoc; exact R|].
        rewrite <- app_assoc in B1; exact B1.
  Qed.
End KW.
