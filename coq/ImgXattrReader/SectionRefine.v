(* ImgXattrReader — the section sqfs_xattr_writer_flush appends (FlushShape.xshape), found inside an image, under the C05
   model of the real reader: sqfs_xattr_reader_load succeeds with the values the writer stored, the loaded reader meets
   the invariant of Refine, and sqfs_xattr_reader_read_all of index j returns the pairs of block j of the writer — in ANY
   state of the two meta readers that earlier calls can have left. *)
From Coq Require Import List NArith ZArith Lia Bool ZifyBool ZifyNat ZifyN.
From SqfsV Require Import Base.Bytes Gen.Constants.
From SqfsV Require Import C03.Common C03.ListN C03.MetaModel C03.MetaProofs C03.MetaRT C03.TableProofs.
From SqfsV Require Import C01.GenC01 C01.XattrModel C01.XattrProofs C01.XattrWriterProofs.
From SqfsV Require C01.Res.
From SqfsV Require Import Image.ReadLemmas.
From SqfsV Require Import ImgXattr.FlushModel ImgXattr.CodecRel ImgXattr.KvRefine ImgXattr.IdRefine ImgXattr.FlushShape
  ImgXattr.RoundTrip.
From SqfsV Require Import C05.RBase C05.GenC05 C05.Meta C05.Super.
From SqfsV Require C05.Xattr.
From SqfsV Require Import ImgReader.MetaRefine ImgReader.ImageLaid.
From SqfsV Require Import ImgXattrReader.KSpec ImgXattrReader.Geometry ImgXattrReader.KWriter ImgXattrReader.Refine.
Import ListNotations.
Local Open Scope N_scope.
Ltac Zify.zify_post_hook ::= Z.div_mod_to_equations.

(* what the run must satisfy beyond the writer's own domain: sqfs_xattr_reader_read allocates sizeof(sqfs_xattr_t) + key +
   value + 2 bytes per pair; the C05 model refuses allocations above RBase.alloc_limit (2 GiB) *)
Definition xalloc_okb (w : xwr) : bool :=
  forallb (forallb (fun kv => pair_alloc_okb (pair_kv w kv))) (x_blocks w).

(* loop bounds: pairs of the largest set / two rounds per metadata block of the section *)
Definition xw_efuel (w : xwr) : nat := list_max (map (@length (nat * nat)) (x_blocks w)).

Lemma items_le64 : forall l r, Forall (fun x => x < 18446744073709551616) l ->
  items 8 (length l) (concat (map le64 l) ++ r) = l.
Proof.
  induction l as [|x l IH]; intros r F; [reflexivity|].
  inversion F as [|? ? Hx Fl]; subst. cbn [length map concat items]. rewrite <- app_assoc. f_equal.
  - unfold le64. apply (rdk_le_small 8). exact Hx.
  - unfold le64 at 1. rewrite skipn_le_app. apply IH. exact Fl.
Qed.

Lemma all_le_spec l b : Forall (fun x => x <= b) l -> Xattr.all_le l b = true.
Proof.
  induction 1 as [|x l Hx _ IH]; [reflexivity|]. cbn [Xattr.all_le]. rewrite IH, andb_true_r. apply N.leb_le. exact Hx.
Qed.

Lemma k_scan_pos seek s p n l q : k_scan seek s p n = Res.Ok (l, q) -> n <> 0%nat -> p + 4 <= Res.nlen s.
Proof.
  destruct n as [|n]; [congruence|]. intros H _. cbn [k_scan] in H. unfold k_pair in H.
  destruct (rd_at s p 4) as [h| | |] eqn:R; cbn [Res.bind] in H; try discriminate.
  destruct (rd_at_ok_inv _ _ _ _ R) as [B _]. exact B.
Qed.

Section SR.
  Variable compress : list N -> cres.
  Variable uncompress : list N -> option (list N).
  Hypothesis compress_ok :
    forall b c, compress b = CData c -> cl c <= cl b /\ uncompress c = Some b.
  Variable uc : list N -> N -> res (list N).
  Hypothesis uc_ok :
    forall c b, uncompress c = Some b -> cl b <= meta_sz -> uc c meta_sz = Ok b.

  Notation enc := (enc compress).
  Notation startN := (startN compress).
  Notation bs_of := (bs_of compress).

  Lemma enc_ge3 r : blk_ok r -> 3 <= cl (enc r).
  Proof.
    intro OK. destruct (enc_cases compress uncompress compress_ok r OK) as [[_ (c & _ & Nc & -> & _)]|[_ ->]];
      rewrite ListN.lenN_app; unfold le16; rewrite ListN.lenN_le.
    - pose proof (lenN_pos c Nc). lia.
    - destruct OK. lia.
  Qed.

  Lemma enc_all_ge3 raws : Forall blk_ok raws -> 3 * cl raws <= cl (concat (map enc raws)).
  Proof.
    induction 1 as [|r raws Hr _ IH]; [cbn; lia|]. cbn [map concat]. rewrite ListN.lenN_app, ListN.lenN_cons.
    pose proof (enc_ge3 r Hr). lia.
  Qed.

  Variables (size0 : N) (w : xwr) (bytes : list N) (off : N) (kvr idr : list (list N)) (descs : list (N * N * N)).
  Hypothesis SH : xshape compress size0 w bytes off kvr idr descs.
  Variables (pre post : list N) (s : sup).
  Hypothesis Hpre : cl pre = size0.
  Hypothesis Hxs : s_xattr_start s = size0 + off.
  Hypothesis Hbu : s_bytes_used s = size0 + cl bytes.
  Hypothesis Hids : s_id_start s <= size0.
  Hypothesis Hflag : N.land (s_flags s) c_SQFS_FLAG_NO_XATTRS = 0.
  Hypothesis Hn : Res.nlen (x_blocks w) < 4294967296.
  Hypothesis H48 : cl bytes < 281474976710656.

  Let img := pre ++ bytes ++ post.
  Hypothesis Hsmall : cl img < two63.

  Let KV := concat (map enc kvr).
  Let ID := concat (map enc idr).
  Let n := Res.nlen (x_blocks w).
  Let locs := map (fun k => size0 + cl KV + startN idr k) (seq 0 (length idr)).
  Let HDR := xattr_header size0 n.
  Let T := mkT size0 (kvr ++ idr) (s_id_start s) (s_bytes_used s).

  Lemma bytes_eq : bytes = (KV ++ ID) ++ HDR ++ concat (map le64 locs).
  Proof. rewrite <- app_assoc. exact (xs_bytes _ _ _ _ _ _ _ _ SH). Qed.

  Lemma hdr_len : cl HDR = 16.
  Proof. unfold HDR, xattr_header, le64, le32. rewrite !ListN.lenN_app, !ListN.lenN_le. reflexivity. Qed.

  Lemma locs_len : cl (concat (map le64 locs)) = 8 * cl idr.
  Proof.
    rewrite lenN_concat_le64. unfold locs. rewrite ListN.lenN_map. unfold Common.lenN. rewrite seq_length. reflexivity.
  Qed.

  Lemma bytes_len : cl bytes = cl KV + cl ID + 16 + 8 * cl idr.
  Proof. rewrite bytes_eq, !ListN.lenN_app, hdr_len, locs_len. lia. Qed.

  Lemma off_eq : off = cl KV + cl ID.
  Proof. exact (xs_off _ _ _ _ _ _ _ _ SH). Qed.

  Lemma idr_len : cl idr = loc_count n.
  Proof. exact (xs_idn _ _ _ _ _ _ _ _ SH). Qed.

  Lemma n_pos : 1 <= n.
  Proof.
    pose proof (xs_blocks _ _ _ _ _ _ _ _ SH) as NE. unfold n. destruct (x_blocks w); [congruence|].
    unfold Res.nlen. cbn [length]. lia.
  Qed.

  Lemma idr_bounds : 1 <= cl idr /\ cl idr <= 8388609.
  Proof.
    rewrite idr_len. pose proof n_pos. unfold n in *. unfold loc_count. change sizeof_sqfs_xattr_id_t with 16.
    change META with 8192. destruct (N.eqb_spec ((Res.nlen (x_blocks w) * 16) mod 8192) 0); lia.
  Qed.

  Lemma idr_ne : idr <> [].
  Proof. pose proof idr_bounds as [P _]. intro Z. rewrite Z in P. cbn in P. lia. Qed.

  Lemma ids_len : cl (concat idr) = n * 16.
  Proof.
    rewrite (xs_ids _ _ _ _ _ _ _ _ SH). change (cl (flat_map enc_desc descs)) with (Res.nlen (flat_map enc_desc descs)).
    rewrite flat_desc_len. unfold n, Res.nlen. rewrite (xs_dlen _ _ _ _ _ _ _ _ SH). lia.
  Qed.

  Lemma disk_eq : disk compress T = KV ++ ID.
  Proof. unfold disk, T. cbn [t_raws]. rewrite map_app, concat_app. reflexivity. Qed.

  Lemma table_T : table_ok compress img T.
  Proof.
    unfold table_ok. rewrite disk_eq. change (t_raws T) with (kvr ++ idr). change (t_start T) with (s_id_start s).
    change (t_base T) with size0. change (t_limit T) with (s_bytes_used s).
    split; [apply Forall_app; split; [exact (xs_kvok _ _ _ _ _ _ _ _ SH)|exact (xs_idok _ _ _ _ _ _ _ _ SH)]|].
    split; [exact Hids|]. split.
    - rewrite Hbu, bytes_len, ListN.lenN_app. lia.
    - unfold img. rewrite bytes_eq, <- app_assoc. apply window_mid. exact Hpre.
  Qed.

  Lemma used_small : s_bytes_used s < two63.
  Proof. rewrite Hbu. unfold img in Hsmall. rewrite !ListN.lenN_app in Hsmall. lia. Qed.

  Lemma startN_le raws k : startN raws k <= cl (concat (map enc raws)).
  Proof.
    unfold KvRefine.startN. rewrite <- (firstn_skipn k raws) at 2. rewrite map_app, concat_app, ListN.lenN_app. lia.
  Qed.

  Lemma locs_nth b : (b < length idr)%nat ->
    nth_error locs b = Some (size0 + cl KV + startE compress idr b).
  Proof.
    intro H. unfold locs. rewrite nth_error_map, (nth_error_nth' (seq 0 (length idr)) 0%nat) by (rewrite seq_length; exact H).
    rewrite seq_nth by exact H. reflexivity.
  Qed.

  Lemma locs_small : Forall (fun x => x < 18446744073709551616) locs /\ Forall (fun x => x <= s_bytes_used s) locs.
  Proof.
    split; apply Forall_forall; intros x Hx; unfold locs in Hx; apply in_map_iff in Hx; destruct Hx as (k & <- & _);
      pose proof (startN_le idr k) as B; fold ID in B; pose proof bytes_len; pose proof used_small; unfold two63 in *;
      rewrite ?Hbu; lia.
  Qed.

  (* ---- sqfs_xattr_reader_load ---- *)
  Definition loaded : Xattr.xreader :=
    let m := mr_create (s_id_start s) (s_bytes_used s) in
    Xattr.MkXr size0 (s_bytes_used s) n locs (Some m) (Some m).

  Theorem xattr_load_written : Xattr.xattr_load img s = Ok loaded.
  Proof.
    pose proof bytes_len as BL. pose proof used_small as US. pose proof idr_bounds as [I1 I2]. pose proof off_eq as OE.
    pose proof hdr_len as HL. pose proof locs_len as LL.
    unfold Xattr.xattr_load. rewrite Hflag. cbn [N.eqb negb].
    destruct (N.eqb_spec (s_xattr_start s) max64) as [E|_]; [unfold max64, two64, two63 in *; lia|].
    destruct (N.leb_spec (s_bytes_used s) (s_xattr_start s)) as [|_]; [lia|].
    (* the header *)
    assert (W : window img (size0 + off) (HDR ++ concat (map le64 locs))).
    { unfold img. rewrite bytes_eq. rewrite OE.
      replace (pre ++ ((KV ++ ID) ++ HDR ++ concat (map le64 locs)) ++ post)
        with ((pre ++ KV ++ ID) ++ (HDR ++ concat (map le64 locs)) ++ post) by (rewrite <- !app_assoc; reflexivity).
      apply window_mid. rewrite !ListN.lenN_app. lia. }
    change sizeof_sqfs_xattr_id_table_t with 16.
    rewrite Hxs.
    pose proof (read_at_window img (size0 + off) _ 0 16 W ltac:(rewrite ListN.lenN_app; lia) ltac:(lia)
                  ltac:(unfold two63 in *; lia)) as RA.
    rewrite N.add_0_r in RA. rewrite RA. cbn [bind]. rewrite dropN_0.
    rewrite ListN.takeN_app_exact by exact HL.
    assert (F1 : fld 8 o_sqfs_xattr_id_table_t_xattr_table_start HDR = size0).
    { unfold fld, HDR, xattr_header. cbn [nN o_sqfs_xattr_id_table_t_xattr_table_start N.to_nat skipn].
      unfold le64. apply (rdk_le_small 8). unfold two63 in *. change (256 ^ N.of_nat 8) with 18446744073709551616. lia. }
    assert (F2 : fld 4 o_sqfs_xattr_id_table_t_xattr_ids HDR = n).
    { unfold fld, HDR, xattr_header, nN. change (N.to_nat o_sqfs_xattr_id_table_t_xattr_ids) with 8%nat.
      unfold le64. rewrite skipn_le_app. unfold le32. apply (rdk_le_small 4). exact Hn. }
    rewrite F1, F2.
    assert (NB : (n * Xattr.idsz) / meta_sz + (if (n * Xattr.idsz) mod meta_sz =? 0 then 0 else 1) = cl idr).
    { rewrite idr_len. reflexivity. }
    rewrite NB.
    unfold alloc_array, sz_mul_ov. destruct (N.ltb_spec (cl idr * 8) two64) as [_|]; [|unfold two64 in *; lia].
    unfold malloc_chk. destruct (N.ltb_spec alloc_limit (cl idr * 8)) as [|_]; [unfold alloc_limit in *; lia|]. cbn [bind].
    unfold put_check. destruct (N.leb_spec (0 + 8 * cl idr) (cl idr * 8)) as [_|]; [|lia]. cbn [bind].
    assert (U : u64 (size0 + off + 16) = size0 + off + 16).
    { unfold u64. apply N.mod_small. unfold two64, two63 in *. lia. }
    rewrite U.
    pose proof (read_at_window img (size0 + off) _ 16 (8 * cl idr) W ltac:(rewrite ListN.lenN_app; lia) ltac:(lia)
                  ltac:(unfold two63 in *; lia)) as RB.
    rewrite RB. cbn [bind].
    rewrite ListN.dropN_app_exact by exact HL. rewrite ListN.takeN_all by lia.
    assert (IT : items 8 (nN (cl idr)) (concat (map le64 locs)) = locs).
    { replace (nN (cl idr)) with (length locs)
        by (unfold locs, nN, Common.lenN; rewrite map_length, seq_length; lia).
      rewrite <- (app_nil_r (concat (map le64 locs))). apply items_le64. exact (proj1 locs_small). }
    rewrite IT. rewrite (all_le_spec _ _ (proj2 locs_small)). cbn [negb]. reflexivity.
  Qed.

  (* ---- the invariant ---- *)
  Notation XI := (XInv compress kvr idr size0 (s_id_start s) (s_bytes_used s) n locs).

  Lemma loaded_inv : XI loaded.
  Proof.
    unfold XInv, loaded. cbn [Xattr.x_start Xattr.x_end Xattr.x_num_ids Xattr.x_blocks Xattr.x_idrd Xattr.x_kvrd].
    repeat (split; [reflexivity|]). eexists _, _. split; [reflexivity|]. split; [reflexivity|].
    split; apply (Coh_create compress (mkT size0 (kvr ++ idr) (s_id_start s) (s_bytes_used s))).
  Qed.

  (* ---- every block reads back ---- *)
  Hypothesis TB : tables_ok w.
  Hypothesis BR : Forall (Forall (pair_ok w)) (x_blocks w).
  Hypothesis CB : Forall (fun b : list (nat * nat) => Res.nlen b < 4294967296) (x_blocks w).
  Hypothesis BNE : blocks_ne w.
  Hypothesis AL : xalloc_okb w = true.

  Let LK := Res.nlen (concat kvr).
  Notation sk := (sseek compress kvr).

  Lemma sk_at p : p < LK -> sk (ref_at (bs_of kvr) p) = Res.Ok p.
  Proof.
    intro H. destruct (chunked_index kvr p (xs_kvc _ _ _ _ _ _ _ _ SH) H) as (Hk & HL & HM). cbv zeta in *.
    unfold sseek, ref_at, KvRefine.bs_of. change META with 8192.
    pose proof (sfind_from compress uncompress compress_ok kvr 0 0 (N.to_nat (p / 8192)) (p mod 8192)
                  (xs_kvok _ _ _ _ _ _ _ _ SH) Hk HM ltac:(lia)) as R.
    rewrite N.add_0_l in R. unfold startE in R. unfold KvRefine.startN. rewrite R, HL. f_equal. lia.
  Qed.

  Lemma ref_small p : p < LK -> ref_at (bs_of kvr) p < 18446744073709551616.
  Proof.
    intros _. unfold ref_at, KvRefine.bs_of. change META with 8192.
    pose proof (startN_le kvr (N.to_nat (p / 8192))) as B. fold KV in B. pose proof bytes_len. lia.
  Qed.

  Lemma fuel_bound : (2 * length (kvr ++ idr) <= length bytes)%nat.
  Proof.
    pose proof (enc_all_ge3 kvr (xs_kvok _ _ _ _ _ _ _ _ SH)) as A. pose proof (enc_all_ge3 idr (xs_idok _ _ _ _ _ _ _ _ SH)) as B.
    fold KV in A. fold ID in B. pose proof bytes_len as BL. rewrite app_length. unfold Common.lenN in *. lia.
  Qed.

  Theorem read_all_written j b x efuel fuel fixed :
    nth_error (x_blocks w) j = Some b -> XI x ->
    (xw_efuel w <= efuel)%nat -> (length bytes <= fuel)%nat ->
    exists x', Xattr.xattr_read_all uc fixed img efuel fuel x (N.of_nat j) = Ok (x', map (pair_kv w) b) /\ XI x'.
  Proof.
    intros Hj X He Hf.
    pose proof (xs_kv _ _ _ _ _ _ _ _ SH) as W. unfold ool0 in W.
    assert (I0 : CodecRel.ool_inv sk w [] (map (fun _ => None) (x_vals w))).
    { intros vi r E. rewrite nth_map_none in E. discriminate. }
    change 0 with (Res.nlen (@nil N)) in W.
    assert (BL : Res.nlen ([] ++ concat kvr ++ []) <= LK) by (cbn [List.app]; rewrite app_nil_r; unfold LK; lia).
    destruct (write_blocks_readk (bs_of kvr) sk LK sk_at ref_small w (x_blocks w) [] _ _ _ [] TB BR W I0 BL j b Hj)
      as (p & sz & D & R & B1).
    cbn [List.app] in R, B1. rewrite app_nil_r in R.
    assert (Bne : b <> []).
    { unfold blocks_ne in BNE. rewrite Forall_forall in BNE. apply BNE. eapply nth_error_In. exact Hj. }
    assert (PK : p < LK).
    { pose proof (k_scan_pos _ _ _ _ _ _ R ltac:(destruct b; [congruence|discriminate])) as Q. unfold LK. lia. }
    assert (JL : N.of_nat j < n).
    { assert (j < length (XattrModel.x_blocks w))%nat by (apply nth_error_Some; congruence). unfold n, Res.nlen. lia. }
    assert (Cb : N.of_nat (length b) < 4294967296).
    { rewrite Forall_forall in CB. apply (CB b). eapply nth_error_In. exact Hj. }
    set (d := enc_desc (ref_at (bs_of kvr) p, N.of_nat (length b), sz)).
    assert (RDd : rd_at (concat idr) (N.of_nat j * 16) 16 = Res.Ok d).
    { rewrite (xs_ids _ _ _ _ _ _ _ _ SH). rewrite N.mul_comm. exact (rd_desc_at descs j _ D). }
    assert (F1 : fld 8 o_sqfs_xattr_id_t_xattr d = ref_at (bs_of kvr) p).
    { unfold fld, d, enc_desc. cbn [nN o_sqfs_xattr_id_t_xattr N.to_nat skipn]. unfold le64. apply (rdk_le_small 8).
      exact (ref_small p PK). }
    assert (F2 : fld 4 o_sqfs_xattr_id_t_count d = N.of_nat (length b)).
    { unfold fld, d, enc_desc, nN. change (N.to_nat o_sqfs_xattr_id_t_count) with 8%nat.
      unfold le64. rewrite skipn_le_app. unfold le32. apply (rdk_le_small 4). exact Cb. }
    assert (AB : Forall (fun kv => pair_alloc kv <= alloc_limit) (map (pair_kv w) b)).
    { unfold xalloc_okb in AL. rewrite forallb_forall in AL. pose proof (AL b (nth_error_In _ _ Hj)) as Ab.
      rewrite forallb_forall in Ab. apply Forall_forall. intros kv Hkv. apply in_map_iff in Hkv.
      destruct Hkv as (kv0 & <- & Hin). apply N.leb_le. exact (Ab kv0 Hin). }
    assert (EF : (length b <= efuel)%nat).
    { unfold xw_efuel in He. pose proof (proj1 (list_max_le _ _) He) as F. rewrite Forall_forall in F.
      apply F. apply in_map. eapply nth_error_In. exact Hj. }
    pose proof fuel_bound as FB.
    apply (read_all_ok compress uncompress compress_ok uc uc_ok img Hsmall kvr idr size0 (s_id_start s) (s_bytes_used s)
             table_T idr_ne n locs (xs_idc _ _ _ _ _ _ _ _ SH) ids_len locs_nth Hn
             ltac:(pose proof used_small; unfold two63, two64 in *; lia)
             x (N.of_nat j) d p (map (pair_kv w) b) (p + sz) efuel fuel fixed X JL RDd).
    - rewrite F1. exact (sk_at p PK).
    - rewrite F2, Nat2N.id. exact R.
    - exact AB.
    - rewrite F2, Nat2N.id. exact EF.
    - cbn [t_raws]. lia.
  Qed.
End SR.
