(* ImgXattrReader — entry points of the tie's driver (props/C01/xreal_driver.ml).  Definitions only. *)
From Coq Require Import List NArith ZArith Bool.
From SqfsV Require Import Base.Bytes C03.Common.
From SqfsV Require C05.RBase C05.Super C05.Xattr.
From SqfsV Require Import ImgReader.ReadImage.
From SqfsV Require Import ImgE2E.PackAll ImgE2E.DriverDefs.
From SqfsV Require Import ImgXattrReader.Session ImgXattrReader.RealAll.
Import ListNotations.

(* read_all_real: every reader is a model of the real reader *)
Definition read_all_real_out (muncompress : list N -> option (list N)) (duncompress : list N -> nat -> option (list N))
           (img : list N) (depth efuel fuel : nat) : raout :=
  match read_all_real (uc_of muncompress) duncompress img efuel fuel depth with
  | RBase.Ok l => RAOk l
  | RBase.Err e => RAErr e
  | RBase.Crash => RACrash
  | RBase.OutOfFuel => RAFuel
  end.

(* sqfs_super_read, sqfs_xattr_reader_load, then read_all for the given indices on the one reader object *)
Inductive xsout := XSOk (l : list (list (list N * list N))) | XSErr (e : Z) | XSCrash | XSFuel.

Definition xsession_out (muncompress : list N -> option (list N)) (img : list N) (efuel fuel : nat) (ks : list N) : xsout :=
  match RBase.bind (Super.super_read img) (fun s => xattr_session (uc_of muncompress) img efuel fuel s ks) with
  | RBase.Ok l => XSOk l
  | RBase.Err e => XSErr e
  | RBase.Crash => XSCrash
  | RBase.OutOfFuel => XSFuel
  end.
