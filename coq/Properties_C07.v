(* C07 — untrusted tar streams / description files never crash or hang the packers.
   Statements only; every proof is one [exact] of a lemma from coq/C07/*Proofs.v.
   Result type of every model: Ok v | Err e | Crash (out-of-bounds / NULL / dangling access) |
   OutOfFuel (the loop would still be running).  [graceful r] := r <> Crash /\ r <> OutOfFuel. *)
From Coq Require Import List NArith ZArith Bool.
From SqfsV Require Import C07.Res C07.GenC07 C07.HardLinkModel C07.HardLinkProofs.
Import ListNotations.
Local Open Scope N_scope.

(* ================================================================== *)
(* (1) hard-link resolution (hardlink.c, fstree.c)                     *)
(* ================================================================== *)

(* The repaired resolver terminates on EVERY fstree value (well-formed or not), with a loop
   budget of max_hops + 1 per walk, max_hops = 1 + number of listed links. *)
Theorem resolve_terminates : forall fs, resolve_all fs <> OutOfFuel.
Proof. exact resolve_terminates_l. Qed.
Print Assumptions resolve_terminates.

(* The code as it is in the unpatched tree does not: on the tree that tar2sqfs builds from
   hard links b->c, c->b, a->b (a resolved first) the walk is still running after ANY number
   of iterations (finding F11). *)
Theorem hardlink_cycle_refuted : forall fuel, resolve_all_old fuel built_cyc_fs = OutOfFuel.
Proof. exact hardlink_cycle_refuted_l. Qed.
Print Assumptions hardlink_cycle_refuted.

Example hardlink_cycle_tree_is_reachable :
  build [mkEntry [98] (EHard [99]); mkEntry [99] (EHard [98]); mkEntry [97] (EHard [98])] = Ok built_cyc_fs.
Proof. exact cyc_fs_is_built. Qed.

Example hardlink_cycle_repaired : resolve_all built_cyc_fs = Err c_EMLINK.
Proof. exact hardlink_cycle_repaired_l. Qed.

(* No out-of-bounds / dangling access on a well-formed heap ... *)
Theorem resolve_safe : forall fs, wf fs -> resolve_all fs <> Crash.
Proof. exact resolve_safe_l. Qed.
Print Assumptions resolve_safe.

(* ... every tree built by fstree_add_generic from ANY sequence of entries is well-formed, and
   building never crashes or hangs ... *)
Theorem build_wf : forall es fs, build es = Ok fs -> wf fs.
Proof. exact build_wf_l. Qed.
Theorem build_graceful : forall es, graceful (build es).
Proof. exact build_graceful_l. Qed.
Print Assumptions build_graceful.

(* ... hence: for every list of entries, build + resolve neither crashes nor hangs. *)
Theorem build_and_resolve_graceful : forall es, graceful (build_and_resolve es).
Proof. exact build_and_resolve_graceful_l. Qed.
Print Assumptions build_and_resolve_graceful.

(* What the resolver answers for one link (chain h p k q: following k links from p arrives at q;
   avoids: the walk does not come back to its start; m = max_hops). *)

(* cycle (through the start node or not; any walk that can always go on): EMLINK *)
Theorem resolve_link_cycle : forall h start m,
  endless h start -> resolve_link (S (N.to_nat m)) h start (Some m) = Err c_EMLINK.
Proof. exact resolve_link_cycle_l. Qed.
Print Assumptions resolve_link_cycle.

(* dangling (the k-th link's target path does not resolve): the lookup's errno (ENOENT / ENOTDIR) *)
Theorem resolve_link_dangling : forall h start m k q e,
  chain h start k q -> hop h q = Err e -> avoids h start start k -> N.of_nat k < m ->
  resolve_link (S (N.to_nat m)) h start (Some m) = Err e.
Proof. exact resolve_link_dangling_l. Qed.
Print Assumptions resolve_link_dangling.

(* the chain ends in a directory: EPERM *)
Theorem resolve_link_dir : forall h start m k t tn ch,
  chain h start k t -> deref h t = Ok tn -> n_kind tn = KDir ch ->
  avoids h start start k -> N.of_nat k <= m ->
  resolve_link (S (N.to_nat m)) h start (Some m) = Err c_EPERM.
Proof. exact resolve_link_dir_l. Qed.
Print Assumptions resolve_link_dir.

(* the chain ends in a file: the link is bound to it, its link count goes up, nothing else changes *)
Theorem resolve_link_good : forall h start m k t tn sn tg,
  chain h start k t -> deref h t = Ok tn -> n_kind tn = KOther -> n_links tn <> link_max ->
  deref h start = Ok sn -> n_kind sn = KLinkU tg ->
  avoids h start start k -> N.of_nat k <= m ->
  exists h', resolve_link (S (N.to_nat m)) h start (Some m) = Ok h' /\
    deref h' start = Ok (set_kind sn (KLinkR t)) /\
    deref h' t = Ok (set_links tn (n_links tn + 1)) /\
    (forall p, p <> start -> p <> t -> deref h' p = deref h p).
Proof. exact resolve_link_good_l. Qed.
Print Assumptions resolve_link_good.

(* conversely, success means the chain ended in a non-directory, non-link node *)
Theorem resolve_link_sound : forall fuel h start mh h',
  resolve_link fuel h start mh = Ok h' ->
  exists k t, chain h start k t /\ final h t /\ avoids h start start k.
Proof. exact resolve_link_sound_l. Qed.
Print Assumptions resolve_link_sound.

(* ---- non-vacuity ---- *)
(* a -> f, b -> a (chain of length 2 resolved first), dir d, link to d refused *)
Example ex_chain_ok :
  build_and_resolve [mkEntry [102] EOther; mkEntry [97] (EHard [102]); mkEntry [98] (EHard [97])]
  = Ok [ mkNode [] (KDir [2; 3; 1]%nat) 5 true;
         mkNode [102] KOther 3 false;
         mkNode [97] (KLinkR 1%nat) 1 false;
         mkNode [98] (KLinkR 1%nat) 1 false ].
Proof. vm_compute. reflexivity. Qed.
Example ex_self_link : build_and_resolve [mkEntry [97] (EHard [97])] = Err c_EMLINK.
Proof. vm_compute. reflexivity. Qed.
Example ex_dangling : build_and_resolve [mkEntry [97] (EHard [120])] = Err c_ENOENT.
Proof. vm_compute. reflexivity. Qed.
Example ex_through_file :
  build_and_resolve [mkEntry [102] EOther; mkEntry [97] (EHard [102; 47; 120])] = Err c_ENOTDIR.
Proof. vm_compute. reflexivity. Qed.
Example ex_link_to_dir : build_and_resolve [mkEntry [100] EDir; mkEntry [97] (EHard [100])] = Err c_EPERM.
Proof. vm_compute. reflexivity. Qed.
Example ex_endless : endless (heap built_cyc_fs) 3%nat.
Proof. exact built_cyc_endless. Qed.
