(* C07 — untrusted tar streams / description files never crash or hang the packers.
   Statements only; every proof is one [exact] of a lemma from coq/C07/*Proofs.v.
   Result type of every model: Ok v | Err e | Crash (out-of-bounds / NULL / dangling access) |
   OutOfFuel (the loop would still be running).  [graceful r] := r <> Crash /\ r <> OutOfFuel. *)
From Coq Require Import List NArith ZArith Bool.
From SqfsV Require Import C07.Res C07.GenC07 C07.HardLinkModel C07.HardLinkProofs.
From SqfsV Require Import C07.NumModel C07.NumProofs C07.TarModel C07.TarProofs C07.TextModel C07.TextProofs.
Import ListNotations.
Local Open Scope N_scope.

(* ================================================================== *)
(* (1) hard-link resolution (hardlink.c, fstree.c)                     *)
(* ================================================================== *)

(* The resolver (hardlink.c as it is now, with the hop bound of fix F11) terminates on EVERY fstree
   value -- well-formed or not, cyclic or not; there is NO no-cycle hypothesis -- with a loop budget of
   max_hops + 1 per walk, max_hops = 1 + number of listed links. *)
Theorem resolve_terminates : forall fs, resolve_all fs <> OutOfFuel.
Proof. exact resolve_terminates_l. Qed.
Print Assumptions resolve_terminates.

(* The code as it was before F11 (resolve_all_old: only "node == start" stops a walk) does not: on the tree that tar2sqfs builds from
   hard links b->c, c->b, a->b (a resolved first) the walk is still running after ANY number
   of iterations (finding F11). *)
Theorem hardlink_cycle_refuted : forall fuel, resolve_all_old fuel built_cyc_fs = OutOfFuel.
Proof. exact hardlink_cycle_refuted_l. Qed.
Print Assumptions hardlink_cycle_refuted.

Example hardlink_cycle_tree_is_reachable :
  build [mkEntry [98] (EHard [99]); mkEntry [99] (EHard [98]); mkEntry [97] (EHard [98])] = Ok built_cyc_fs.
Proof. exact cyc_fs_is_built. Qed.

Example hardlink_cycle_repaired : resolve_all built_cyc_fs = Err c_EMLINK.
Proof. exact hardlink_cycle_repaired_l. Qed.

(* No out-of-bounds / dangling access on a well-formed heap ... *)
Theorem resolve_safe : forall fs, wf fs -> resolve_all fs <> Crash.
Proof. exact resolve_safe_l. Qed.
Print Assumptions resolve_safe.

(* ... every tree built by fstree_add_generic from ANY sequence of entries is well-formed, and
   building never crashes or hangs ... *)
Theorem build_wf : forall es fs, build es = Ok fs -> wf fs.
Proof. exact build_wf_l. Qed.
Print Assumptions build_wf.
Theorem build_graceful : forall es, graceful (build es).
Proof. exact build_graceful_l. Qed.
Print Assumptions build_graceful.

(* ... hence: for every list of entries, build + resolve neither crashes nor hangs. *)
Theorem build_and_resolve_graceful : forall es, graceful (build_and_resolve es).
Proof. exact build_and_resolve_graceful_l. Qed.
Print Assumptions build_and_resolve_graceful.

(* What the resolver answers for one link (chain h p k q: following k links from p arrives at q;
   avoids: the walk does not come back to its start; m = max_hops). *)

(* cycle (through the start node or not; any walk that can always go on): EMLINK *)
Theorem resolve_link_cycle : forall h start m,
  endless h start -> resolve_link (S (N.to_nat m)) h start (Some m) = Err c_EMLINK.
Proof. exact resolve_link_cycle_l. Qed.
Print Assumptions resolve_link_cycle.

(* dangling (the k-th link's target path does not resolve): the lookup's errno (ENOENT / ENOTDIR) *)
Theorem resolve_link_dangling : forall h start m k q e,
  chain h start k q -> hop h q = Err e -> avoids h start start k -> N.of_nat k < m ->
  resolve_link (S (N.to_nat m)) h start (Some m) = Err e.
Proof. exact resolve_link_dangling_l. Qed.
Print Assumptions resolve_link_dangling.

(* the chain ends in a directory: EPERM *)
Theorem resolve_link_dir : forall h start m k t tn ch,
  chain h start k t -> deref h t = Ok tn -> n_kind tn = KDir ch ->
  avoids h start start k -> N.of_nat k <= m ->
  resolve_link (S (N.to_nat m)) h start (Some m) = Err c_EPERM.
Proof. exact resolve_link_dir_l. Qed.
Print Assumptions resolve_link_dir.

(* the chain ends in a file: the link is bound to it, its link count goes up, nothing else changes *)
Theorem resolve_link_good : forall h start m k t tn sn tg,
  chain h start k t -> deref h t = Ok tn -> n_kind tn = KOther -> n_links tn <> link_max ->
  deref h start = Ok sn -> n_kind sn = KLinkU tg ->
  avoids h start start k -> N.of_nat k <= m ->
  exists h', resolve_link (S (N.to_nat m)) h start (Some m) = Ok h' /\
    deref h' start = Ok (set_kind sn (KLinkR t)) /\
    deref h' t = Ok (set_links tn (n_links tn + 1)) /\
    (forall p, p <> start -> p <> t -> deref h' p = deref h p).
Proof. exact resolve_link_good_l. Qed.
Print Assumptions resolve_link_good.

(* conversely, success means the chain ended in a non-directory, non-link node *)
Theorem resolve_link_sound : forall fuel h start mh h',
  resolve_link fuel h start mh = Ok h' ->
  exists k t, chain h start k t /\ final h t /\ avoids h start start k.
Proof. exact resolve_link_sound_l. Qed.
Print Assumptions resolve_link_sound.

(* ---- non-vacuity ---- *)
(* a -> f, b -> a (chain of length 2 resolved first), dir d, link to d refused *)
Example ex_chain_ok :
  build_and_resolve [mkEntry [102] EOther; mkEntry [97] (EHard [102]); mkEntry [98] (EHard [97])]
  = Ok [ mkNode [] (KDir [2; 3; 1]%nat) 5 true;
         mkNode [102] KOther 3 false;
         mkNode [97] (KLinkR 1%nat) 1 false;
         mkNode [98] (KLinkR 1%nat) 1 false ].
Proof. vm_compute. reflexivity. Qed.
Example ex_self_link : build_and_resolve [mkEntry [97] (EHard [97])] = Err c_EMLINK.
Proof. vm_compute. reflexivity. Qed.
Example ex_dangling : build_and_resolve [mkEntry [97] (EHard [120])] = Err c_ENOENT.
Proof. vm_compute. reflexivity. Qed.
Example ex_through_file :
  build_and_resolve [mkEntry [102] EOther; mkEntry [97] (EHard [102; 47; 120])] = Err c_ENOTDIR.
Proof. vm_compute. reflexivity. Qed.
Example ex_link_to_dir : build_and_resolve [mkEntry [100] EDir; mkEntry [97] (EHard [100])] = Err c_EPERM.
Proof. vm_compute. reflexivity. Qed.
Example ex_endless : endless (heap built_cyc_fs) 3%nat.
Proof. exact built_cyc_endless. Qed.

(* ================================================================== *)
(* (2) the tar reader (read_header.c, pax_header.c, number.c,          *)
(*     read_sparse_map_{old,new}.c, record_to_memory.c)                *)
(* ================================================================== *)

(* For EVERY byte stream: read_header neither leaves one of its buffers (the 512-byte header, the
   PAX record of entsize + 1 bytes, the 1024-byte window of the GNU 1.0 sparse map, the xattr object)
   nor loops beyond its budget of one iteration per input byte. *)
Theorem read_header_graceful : forall s, graceful (read_header s).
Proof. exact read_header_graceful_l. Qed.
Print Assumptions read_header_graceful.

(* A returned header has consumed input ... *)
Theorem read_header_progress : forall s h s', read_header s = Ok (RH_hdr h s') -> (length s' < length s)%nat.
Proof. exact read_header_progress_l. Qed.
Print Assumptions read_header_progress.

(* ... hence the walk over the whole archive (header, skip record and padding, next header) terminates
   within one iteration per input byte and never crashes. *)
Theorem tar_walk_graceful : forall s, graceful (tar_walk_all s).
Proof. exact tar_walk_all_graceful_l. Qed.
Print Assumptions tar_walk_graceful.

(* a partial header record is an error (not the end of the archive) *)
Theorem read_header_partial : forall s, (0 < length s < 512)%nat -> exists e, read_header s = Err e.
Proof. exact read_header_partial_l. Qed.
Print Assumptions read_header_partial.

(* The lemmas that carry it.  pax_len_guard: one PAX record on a buffer of endp + 1 bytes whose last
   byte is NUL is refused or stays inside the buffer, keeps the buffer shape and advances the line. *)
Theorem pax_len_guard : forall buf endp line st,
  pax_buf_ok buf endp -> line < endp ->
  (exists e, pax_line buf endp line st = Err e) \/
  (exists buf' st' len, pax_line buf endp line st = Ok (buf', st', len) /\
     pax_buf_ok buf' endp /\ 1 <= len /\ line + len <= endp).
Proof. exact pax_line_safe. Qed.
Print Assumptions pax_len_guard.

(* sparse_window_bounds: one number of the GNU 1.0 map: diff stays within the first block of the window *)
Theorem sparse_window_bounds : forall st, win_ok st ->
  (exists e, new_sparse_step st = Err e) \/
  (exists v st', new_sparse_step st = Ok (v, st') /\ win_ok st' /\ (length (ns_s st') <= length (ns_s st))%nat).
Proof. exact new_sparse_step_safe. Qed.
Print Assumptions sparse_window_bounds.

(* every tar_header_t field that decode_header touches lies inside the 512-byte block (layout from the headers) *)
Theorem decode_header_in_bounds : forall h flags out ver, blen h = sizeof_tar_header_t ->
  (exists o, decode_header h flags out ver = Ok o) \/ (exists e, decode_header h flags out ver = Err e).
Proof. exact decode_header_safe. Qed.
Print Assumptions decode_header_in_bounds.

(* the numeric / small decoders on NUL-terminated or exactly sized inputs *)
Theorem read_number_safe : forall f, f <> [] -> graceful (read_number f).
Proof. exact read_number_graceful. Qed.
Theorem parse_uint_safe : forall s len whole base vmin vmax, In 0 s -> graceful (parse s len whole base vmin vmax).
Proof. exact parse_graceful. Qed.
Theorem parse_sint_safe : forall s len whole, In 0 s -> graceful (parse_int s len whole).
Proof. exact parse_int_graceful. Qed.
Theorem base64_decode_in_bounds : forall m ip in_len op cap,
  ip + in_len <= N.of_nat (length m) -> op + cap <= N.of_nat (length m) -> graceful (base64_decode m ip in_len op cap).
Proof. exact base64_decode_graceful. Qed.
Theorem hex_decode_in_bounds : forall s in_sz out_sz, in_sz <= N.of_nat (length s) -> graceful (hex_decode s in_sz out_sz).
Proof. exact hex_decode_graceful. Qed.
Print Assumptions read_number_safe.
Print Assumptions parse_uint_safe.
Print Assumptions parse_sint_safe.
Print Assumptions base64_decode_in_bounds.
Print Assumptions hex_decode_in_bounds.

(* ---- non-vacuity: a real (v7) archive member "f" of 3 bytes ---- *)
Definition ex_hdr : list N :=
  [102] ++ repeat 0 99%nat ++
  [48; 48; 48; 48; 54; 52; 52; 0; 48; 48; 48; 48; 48; 48; 48; 0; 48; 48; 48; 48; 48; 48; 48; 0;
   48; 48; 48; 48; 48; 48; 48; 48; 48; 48; 51; 0; 48; 48; 48; 48; 48; 48; 48; 48; 48; 48; 48; 0;
   48; 48; 52; 54; 54; 55; 0; 32; 48] ++ repeat 0 355%nat.
Definition ex_tar : list N := ex_hdr ++ [97; 98; 99] ++ repeat 0 509%nat ++ repeat 0 1024%nat.

Example ex_read_header :
  exists h s', read_header ex_tar = Ok (RH_hdr h s') /\ h_name h = Some [102] /\ h_record h = 3 /\
               h_mode h = 33188 /\ length s' = 1536%nat.
Proof. vm_compute. eexists; eexists; repeat split. Qed.
Example ex_walk : exists h, tar_walk_all ex_tar = Ok [h] /\ h_name h = Some [102].
Proof. vm_compute. eexists; split; reflexivity. Qed.
Example ex_eof : read_header [] = Ok RH_eof.
Proof. vm_compute. reflexivity. Qed.
Example ex_partial_header : read_header (firstn 300 ex_tar) = Err e_eof.
Proof. vm_compute. reflexivity. Qed.
Example ex_bad_checksum : read_header (ex_hdr ++ [0]) <> read_header (98 :: tl ex_hdr ++ [0])
                          /\ read_header (98 :: tl ex_hdr) = Err e_chksum.
Proof. vm_compute. split; [discriminate|reflexivity]. Qed.
(* Crash is reachable in this vocabulary: a field access outside the block / a scan without terminator *)
Example ex_crash_is_expressible : decode_header (firstn 100 ex_hdr) 0 hdr0 V_V7 = Crash /\ cstr [97; 98] = Crash.
Proof. vm_compute. split; reflexivity. Qed.

(* ================================================================== *)
(* (3) the text side (split_line.c, get_line.c trim, sort_by_file.c,   *)
(*     filemap_xattr.c); a line is l ++ [0], as istream_get_line hands *)
(*     it out (exactly strlen + 1 bytes)                               *)
(* ================================================================== *)

(* split_line(line, len, sep, &out) with len <= strlen-capacity: in place (dst <= src), inside the buffer *)
Theorem split_line_in_place : forall l sep len, len <= TextProofs.blen l -> graceful (split_line (l ++ [0]) sep 0 len).
Proof. exact split_line_graceful_l. Qed.
Print Assumptions split_line_in_place.

(* the contract (one more byte behind the len bytes) is needed *)
Example split_line_contract : split_line [97] [32] 0 1 = Crash.
Proof. exact split_line_contract_needed. Qed.

Theorem trim_safe : forall l, graceful (trim (l ++ [0]) 0).
Proof. exact trim_graceful_l. Qed.
Print Assumptions trim_safe.

(* one line of the sort file: decode_priority, decode_flags (split_line on the bracket, trim of every
   flag, memmove), decode_filename (in-place unquoting) *)
Theorem sort_line_safe : forall l, graceful (sort_line (l ++ [0])).
Proof. exact sort_line_graceful_l. Qed.
Print Assumptions sort_line_safe.

(* the getfattr value decoder (hex, base64, text with octal escapes into a buffer of strlen + 1 bytes) *)
Theorem xattr_value_safe : forall l, graceful (xattr_decode (l ++ [0])).
Proof. exact xattr_decode_graceful_l. Qed.
Print Assumptions xattr_value_safe.

(* one line of the xattr map file *)
Theorem xattr_line_safe : forall l have_file, graceful (xattr_line (l ++ [0]) have_file).
Proof. exact xattr_line_graceful_l. Qed.
Print Assumptions xattr_line_safe.

(* ---- non-vacuity ---- *)
(* a "b c"  with separators " \t"  ->  two arguments at offsets 0 and 2 *)
Example ex_split : exists m, split_line ([97; 32; 34; 98; 32; 99; 34] ++ [0]) [32; 9] 0 7 = Ok (m, [0; 2])
                             /\ cstr_at m 0 = Ok [97] /\ cstr_at m 2 = Ok [98; 32; 99].
Proof. vm_compute. eexists; repeat split. Qed.
Example ex_split_unmatched : split_line ([34; 97] ++ [0]) [32; 9] 0 2 = Err e_quote.
Proof. vm_compute. reflexivity. Qed.
(* 5 [glob] "x y" *)
Example ex_sort_line :
  sort_line ([53; 32; 91; 103; 108; 111; 98; 93; 32; 34; 120; 32; 121; 34] ++ [0]) = Ok (5%Z, [F_glob], [120; 32; 121]).
Proof. vm_compute. reflexivity. Qed.
(* 5 "f"x : refused (this is the line of the known 'no diagnostic' finding) *)
Example ex_sort_line_trailing : sort_line ([53; 32; 34; 102; 34; 120] ++ [0]) = Err e_sort.
Proof. vm_compute. reflexivity. Qed.
(* user.a="a\101"  ->  value "aA" *)
Example ex_xattr_line :
  xattr_line ([117; 46; 97; 61; 34; 97; 92; 49; 48; 49; 34] ++ [0]) true = Ok (XL_attr [117; 46; 97] [97; 65]).
Proof. vm_compute. reflexivity. Qed.
Example ex_xattr_hex : xattr_decode ([48; 120; 52; 49; 52; 50] ++ [0]) = Ok [65; 66].
Proof. vm_compute. reflexivity. Qed.

(* ---- non-vacuity of resolve_link_good / resolve_link_dir / resolve_link_dangling: their hypotheses (chain, links_in, ...)
   exhibited on one heap built by the model (independent audit) ---- *)
From Coq Require Import Lia.
(* f (file), d (dir), a -> f, b -> a, c -> d, x -> z (dangling) *)
Definition gap_es := [mkEntry [102] EOther; mkEntry [100] EDir; mkEntry [97] (EHard [102]); mkEntry [98] (EHard [97]);
                  mkEntry [99] (EHard [100]); mkEntry [120] (EHard [122])].
Definition gap_h : list node := match build gap_es with Ok fs => heap fs | _ => [] end.

Lemma gap_c1 : chain gap_h 4%nat 1 3%nat.
Proof. eapply chain_S; [vm_compute; reflexivity|apply chain_0]. Qed.
Lemma gap_c2 : chain gap_h 4%nat 2 1%nat.
Proof. eapply chain_S; [vm_compute; reflexivity|]. eapply chain_S; [vm_compute; reflexivity|apply chain_0]. Qed.
Lemma gap_c3 : chain gap_h 5%nat 1 2%nat.
Proof. eapply chain_S; [vm_compute; reflexivity|apply chain_0]. Qed.

(* all hypotheses of resolve_link_good: b -> a -> f, m = max_hops = 7 *)
Example ex_resolve_link_good_hyps :
  exists tn sn tg,
  chain gap_h 4%nat 2 1%nat /\ deref gap_h 1%nat = Ok tn /\ n_kind tn = KOther /\ n_links tn <> link_max /\
  deref gap_h 4%nat = Ok sn /\ n_kind sn = KLinkU tg /\ avoids gap_h 4%nat 4%nat 2 /\ N.of_nat 2 <= 7.
Proof.
  eexists; eexists; eexists. split; [exact gap_c2|].
  split; [vm_compute; reflexivity|]. split; [reflexivity|]. split; [vm_compute; discriminate|].
  split; [vm_compute; reflexivity|]. split; [reflexivity|]. split; [|vm_compute; discriminate].
  intros j q Hj Hc. assert (j = 1 \/ j = 2)%nat as [->| ->] by lia.
  - rewrite (chain_det _ _ _ _ _ Hc gap_c1). discriminate.
  - rewrite (chain_det _ _ _ _ _ Hc gap_c2). discriminate.
Qed.

(* all hypotheses of resolve_link_dir: c -> d *)
Example ex_resolve_link_dir_hyps :
  exists tn ch,
  chain gap_h 5%nat 1 2%nat /\ deref gap_h 2%nat = Ok tn /\ n_kind tn = KDir ch /\ avoids gap_h 5%nat 5%nat 1 /\ N.of_nat 1 <= 7.
Proof.
  eexists; eexists. split; [exact gap_c3|]. split; [vm_compute; reflexivity|]. split; [reflexivity|].
  split; [|vm_compute; discriminate].
  intros j q Hj Hc. assert (j = 1)%nat as -> by lia. rewrite (chain_det _ _ _ _ _ Hc gap_c3). discriminate.
Qed.

(* all hypotheses of resolve_link_dangling: x -> z *)
Example ex_resolve_link_dangling_hyps :
  chain gap_h 6%nat 0 6%nat /\ hop gap_h 6%nat = Err c_ENOENT /\ avoids gap_h 6%nat 6%nat 0 /\ N.of_nat 0 < 7.
Proof.
  split; [apply chain_0|]. split; [vm_compute; reflexivity|]. split; [|vm_compute; reflexivity].
  intros j q Hj. lia.
Qed.

(* and the conclusions compute *)
Example ex_resolve_link_results :
  (exists h', resolve_link 8 gap_h 4%nat (Some 7) = Ok h') /\ resolve_link 8 gap_h 5%nat (Some 7) = Err c_EPERM /\
  resolve_link 8 gap_h 6%nat (Some 7) = Err c_ENOENT.
Proof. vm_compute. split; [eexists; reflexivity|split; reflexivity]. Qed.

(* ================================================================== *)
(* (4) the xattr map file as a whole (session 3): filemap_xattr.c      *)
(*     xattr_open_map_file / parse_file_name / parse_xattr /           *)
(*     xattr_close_map_file / xattr_apply_map_file, istream_get_line,  *)
(*     sqfs_xattr_create, with every allocation in a resource list     *)
(* ================================================================== *)
From SqfsV Require Import C07.XattrFileModel C07.XattrFileProofs C07.XattrFileCodec C07.XattrFileB64.
From SqfsV Require Import C07.XattrFileApply C07.XattrFileWitness.

(* For EVERY byte string offered as the xattr map file and EVERY way the stream cuts it into windows (win):
   no access outside a block, no free of something that is not allocated (double free), no use of a released
   object, nothing released that is still linked ... *)
Theorem xattr_file_safe : forall win s, xattr_open_map_file win s <> Crash.
Proof. exact xattr_file_safe_l. Qed.
Print Assumptions xattr_file_safe.

(* ... and the reader is done within its budget of one loop iteration per input byte. *)
Theorem xattr_file_total : forall win s, xattr_open_map_file win s <> OutOfFuel.
Proof. exact xattr_file_total_l. Qed.
Print Assumptions xattr_file_total.

(* It answers a map that owns exactly the allocations still alive (owns t l: the resource list of t holds the ids
   l and nothing else, without repetition; map_ids: the map, its patterns, their paths and entries) and whose
   patterns all carry a NUL-terminated path -- or it refuses with EVERY allocation released. *)
Theorem xattr_file_graceful : forall win s,
  (exists t map, xattr_open_map_file win s = Ok (X_map t map) /\ owns t (map_ids map) /\ map_wf map) \/
  (exists t e ln, xattr_open_map_file win s = Ok (X_refused t e ln) /\ r_live t = []).
Proof. exact xattr_file_graceful_l. Qed.
Print Assumptions xattr_file_graceful.

(* in the vocabulary of the other C07 theorems: Ok map or Err e *)
Theorem xattr_file_verdict : forall win s, oe (xattr_open_verdict win s).
Proof. exact xattr_verdict_graceful_l. Qed.
Print Assumptions xattr_file_verdict.

(* xattr_close_map_file on a map that owns what is alive releases everything, each object once ... *)
Theorem xattr_close_releases : forall t map, owns t (map_ids map) ->
  exists t', xattr_close_map_file t map = Ok t' /\ r_live t' = [].
Proof. exact xattr_close_releases_l. Qed.
Print Assumptions xattr_close_releases.

(* ... hence open followed by close leaves nothing behind, whatever the file. *)
Theorem xattr_open_close_clean : forall win s, exists t, xattr_open_close false win s = Ok t /\ r_live t = [].
Proof. exact xattr_open_close_clean_l. Qed.
Print Assumptions xattr_open_close_clean.

(* istream_get_line: a line that is handed out is a NUL-terminated block (what every theorem of part (3) asks of
   its input), it is the one new allocation, and taking it consumed input *)
Theorem get_line_block : forall win t F s ln t' b s' ln', owns t F ->
  get_line win t s ln = Ok (t', GL_line b, s', ln') ->
  (exists L, buf_ok (b_data b) L) /\ (length s' < length s)%nat /\ owns t' (b_id b :: F).
Proof. exact get_line_block_l. Qed.
Print Assumptions get_line_block.

(* The code BEFORE fix F23 (pattern linked into the map before its path was accepted, freed on refusal while still
   linked): the release walk of the error path touches and frees the pattern again. *)
Theorem xattr_double_free_refuted :
  xattr_open_map_file_old win_all xf_dotdot = Crash /\ xattr_open_map_file_old win_one xf_dotdot = Crash /\
  xattr_open_map_file_old win_all xf_dotdot2 = Crash.
Proof. exact xattr_double_free_refuted_l. Qed.
Print Assumptions xattr_double_free_refuted.

Example xattr_double_free_repaired :
  (exists t, xattr_open_map_file win_all xf_dotdot = Ok (X_refused t e_badpath 1) /\ r_live t = []) /\
  (exists t, xattr_open_map_file win_all xf_dotdot2 = Ok (X_refused t e_badpath 3) /\ r_live t = []).
Proof. exact xattr_double_free_repaired_l. Qed.

(* decode_inverse: for every value (bytes < 256, any length) the decoder inverts the three encodings getfattr --dump
   writes: 0x + hex pairs, 0s + padded base64, and the quoted text form in which backslash and quote are escaped
   and the bytes selected by oct (NUL among them) are written as backslash + three octal digits. *)
Theorem decode_inverse : forall v, Forall byte v ->
  xattr_decode (hex_enc v ++ [0]) = Ok v /\ xattr_decode (b64_enc v ++ [0]) = Ok v /\
  (forall oct, oct 0 = true -> xattr_decode (text_enc oct v ++ [0]) = Ok v).
Proof. intros v H. split; [exact (decode_hex_l v H)|split; [exact (decode_b64_l v H)|intros oct H0; exact (decode_text_l oct H0 v H)]]. Qed.
Print Assumptions decode_inverse.

(* xattr_apply_map_file on a node path (NUL-free, handed over with its NUL): sqfs_xattr_writer_add (add: an
   arbitrary function of the writer state, the key and the value) sees exactly the entries of the patterns whose path
   is the node path -- strcmp, one leading slash of the node path dropped unless the pattern starts with one; the
   code has no glob matching -- in the order of the C lists, up to and including the first add that fails. *)
Theorem xattr_map_lookup_spec : forall (W : Type) (add : W -> list N -> list N -> W * Z) t map F path w,
  owns t (map_ids map ++ F) -> map_wf map -> Forall nz path ->
  xattr_apply_map_file W add t w (path ++ [0]) map
  = Ok (fst (run_adds W add w 0%Z (flat_map p_ents (filter (pat_matches path) (m_pats map))))).
Proof. exact xattr_map_lookup_spec_l. Qed.
Print Assumptions xattr_map_lookup_spec.

(* the order of the C lists is the reverse of the file: both lists are built by prepending *)
Theorem parse_file_name_prepends : forall t m map t' map', parse_file_name false t m map = Ok (t', map', None) ->
  exists p name r b tail, m_pats map' = p :: m_pats map /\ m_id map' = m_id map /\ p_ents p = [] /\
    cstr_at m 8 = Ok name /\ CanonModel.canon_result name = Some r /\ p_path p = Some b /\ b_data b = r ++ 0 :: tail.
Proof. exact parse_file_name_prepends_l. Qed.
Theorem parse_xattr_prepends : forall t m p map t' map', parse_xattr t m p map = Ok (t', map', None) ->
  exists cur rest e vs, m_pats map = cur :: rest /\ m_id map' = m_id map /\
    m_pats map' = mkPat (p_id cur) (p_path cur) (e :: p_ents cur) :: rest /\
    cstr_at m 0 = Ok (e_key e) /\ bfrom m (p + 1) = Ok vs /\ xattr_decode vs = Ok (e_val e).
Proof. exact parse_xattr_prepends_l. Qed.
Print Assumptions parse_file_name_prepends.
Print Assumptions parse_xattr_prepends.

(* ---- non-vacuity ---- *)
(* xf_three: "# file: /a//b/", a quoted value with an octal escape and an escaped quote, a hex value, an empty line,
   a base64 value between blanks with CR LF, a comment.  One pattern "a/b", entries newest first; the same for
   one-byte windows (ids differ, the payload does not). *)
Definition payload (r : res xopen) : option (list (res (list N) * list (list N * list N))) :=
  match r with
  | Ok (X_map _ m) => Some (map (fun p => (pat_path p, map ent_payload (p_ents p))) (m_pats m))
  | _ => None
  end.
Example ex_xfile_three :
  payload (xattr_open_map_file win_all xf_three)
  = Some [(Ok [97; 47; 98], [([117; 115; 101; 114; 46; 98], [65; 66]); ([117; 115; 101; 114; 46; 104], [65; 66]);
                             ([117; 115; 101; 114; 46; 116], [97; 65; 34; 113])])]
  /\ payload (xattr_open_map_file win_one xf_three) = payload (xattr_open_map_file win_all xf_three).
Proof. vm_compute. split; reflexivity. Qed.
(* a ".." path is refused, line number 1, nothing left allocated *)
Example ex_xfile_dotdot : exists t, xattr_open_map_file win_one xf_dotdot = Ok (X_refused t e_badpath 1) /\ r_live t = [].
Proof. vm_compute. eexists; split; reflexivity. Qed.
(* a key=value line before any "# file:" line, the value 0xzz (line 2), a line that is neither *)
Example ex_xfile_refusals :
  (exists t, xattr_open_map_file win_all [117; 61; 98; 10] = Ok (X_refused t e_nofile 1)) /\
  (exists t, xattr_open_map_file win_all [35; 32; 102; 105; 108; 101; 58; 32; 120; 10; 117; 61; 48; 120; 122; 122; 10] = Ok (X_refused t e_encoding 2)) /\
  (exists t, xattr_open_map_file win_all [10; 10; 120; 10] = Ok (X_refused t e_notkv 3)).
Proof. vm_compute. repeat split; eexists; reflexivity. Qed.
(* the hypotheses of xattr_close_releases / xattr_map_lookup_spec hold of the map read from xf_three (by
   xattr_file_graceful), and the lookup computes: node "/a/b" gets the three entries, node "/a" none; a writer that
   fails on the second add stops there *)
Definition ex_add (w : list (list N)) (k v : list N) : list (list N) * Z := (w ++ [k], 0%Z).
Definition ex_add_fail2 (w : list (list N)) (k v : list N) : list (list N) * Z :=
  (w ++ [k], if (length w =? 1)%nat then (-3)%Z else 0%Z).
Example ex_lookup :
  match xattr_open_map_file win_all xf_three with
  | Ok (X_map t m) =>
    xattr_apply_map_file _ ex_add t [] ([47; 97; 47; 98] ++ [0]) m
      = Ok ([[117; 115; 101; 114; 46; 98]; [117; 115; 101; 114; 46; 104]; [117; 115; 101; 114; 46; 116]], 0%Z) /\
    xattr_apply_map_file _ ex_add t [] ([47; 97] ++ [0]) m = Ok ([], 0%Z) /\
    xattr_apply_map_file _ ex_add_fail2 t [] ([97; 47; 98] ++ [0]) m
      = Ok ([[117; 115; 101; 114; 46; 98]; [117; 115; 101; 114; 46; 104]], (-3)%Z) /\
    filter (pat_matches [47; 97; 47; 98]) (m_pats m) = m_pats m
  | _ => False
  end.
Proof. vm_compute. repeat split. Qed.
(* decode_inverse on a value with NUL, quote, backslash, newline, a high byte; oct = getfattr's choice *)
Definition ex_oct (b : N) : bool := (b =? 0) || (b =? 10) || (b =? 13).
Example ex_decode_inverse :
  Forall byte [0; 34; 92; 10; 255; 65] /\ ex_oct 0 = true /\
  text_enc ex_oct [0; 34; 92; 10; 255; 65] = [34; 92; 48; 48; 48; 92; 34; 92; 92; 92; 48; 49; 50; 255; 65; 34] /\
  hex_enc [0; 255; 65] = [48; 120; 48; 48; 102; 102; 52; 49] /\ b64_enc [65; 66] = [48; 115; 81; 85; 73; 61].
Proof. split; [repeat constructor|]. vm_compute. repeat split. Qed.
(* a use after free / double free is expressible in this vocabulary *)
Example ex_resource_crash :
  (let (t, a) := r_alloc r_empty in do t1 <- r_free t a; r_free t1 a) = Crash /\
  (let (t, a) := r_alloc r_empty in do t1 <- r_free t a; r_use t1 a) = Crash.
Proof. vm_compute. split; reflexivity. Qed.

(* ---- what the reader computes, without resources and without stream windows (XattrFileSpec.v) ----
   lines_spec: the lines istream_get_line hands out as a function of the bytes still to come (cut at the first LF,
   one CR in front of it removed, trimmed, empty lines skipped and counted); step_spec: what a line does to the decoded
   map; xattr_file_spec: their fold.  For EVERY file and EVERY cutting into windows the run returns and what it
   returns -- verdict, error code and line number of a refusal, the decoded map (path blocks, keys, values, list
   order) -- is the specification's answer ...
   (Independent audit 4, finding 3: lines_spec / step_spec are built from the model's own helper functions, so these
   two theorems show independence of windows, ids and resources, not the FORMAT; the independent statement of the
   format and its equivalence with this specification are xattr_file_spec_plain_equiv / xattr_open_is_plain at the
   end of this file.) *)
From SqfsV Require Import C07.XattrFileSpec.
Theorem xattr_open_is_spec : forall win s, exists r, xattr_open_map_file win s = Ok r /\ xattr_file_spec s = Ok (erase r).
Proof. exact xattr_open_is_spec_l. Qed.
Print Assumptions xattr_open_is_spec.

(* ... hence it does not depend on the windows the stream hands out (nor on the ids the allocator gives). *)
Theorem xattr_window_independent : forall win1 win2 s r1 r2,
  xattr_open_map_file win1 s = Ok r1 -> xattr_open_map_file win2 s = Ok r2 -> erase r1 = erase r2.
Proof. exact xattr_window_independent_l. Qed.
Print Assumptions xattr_window_independent.

(* istream_get_line alone: the line block, the rest of the stream and the line counter are those of lines_spec *)
Theorem get_line_is_spec : forall win t s ln t' o s' ln', get_line win t s ln = Ok (t', o, s', ln') ->
  lines_spec (S (length s)) s ln = Ok (content o, s', ln').
Proof. exact get_line_spec_l. Qed.
Print Assumptions get_line_is_spec.

(* non-vacuity: the specification on xf_three (path block "a/b" NUL + the stale tail "b/" NUL of the in-place
   canonicalisation; entries newest first) and on a refusal in line 3 behind two blank lines *)
Example ex_file_spec :
  xattr_file_spec xf_three
  = Ok (XS_map [([97; 47; 98; 0; 98; 47; 0], [([117; 115; 101; 114; 46; 98], [65; 66]); ([117; 115; 101; 114; 46; 104], [65; 66]);
                                               ([117; 115; 101; 114; 46; 116], [97; 65; 34; 113])])])
  /\ xattr_file_spec [10; 32; 13; 10; 120; 10] = Ok (XS_refused e_notkv 3)
  /\ lines_spec 20 [32; 97; 61; 98; 9; 13; 10; 10; 120] 1 = Ok (Some [97; 61; 98; 0], [10; 120], 1).
Proof. vm_compute. repeat split. Qed.

(* ======================================================================================
   Audit 4, finding 3 (session 3, builder H3): an INDEPENDENT specification of the xattr map file.

   XattrFileSpec.lines_spec / step_spec above are assembled from the model's own helpers (trim_flags, cr_cut,
   strncmp_eq, cstr_at, strchr_go, bset, bfrom, xattr_decode): xattr_open_is_spec / get_line_is_spec establish
   independence of stream windows, allocator ids and the resource list - not the format.  C07/XattrPlain.v states
   the format over plain lists, with no definition of the text / number / xattr models (the one import is C18's
   SPECIFICATION canon_spec):
     lines_plain   split at LF; one CR directly in front of the LF dropped; what follows a NUL is invisible; leading
                   and trailing isspace bytes (HT LF VT FF CR SPACE) stripped; empty lines skipped; every piece
                   between LFs counts in the numbering
     step_plain    a line starting with the literal 8 bytes  # file:   opens a pattern (path = rest, canon_spec,
                   refused 222 on a dot-dot component); else split at the FIRST '=' (221 if no pattern yet, 109 if
                   the value is malformed); else a line starting with '#' is a comment; else 223
     decode_plain  0x/0X + hex pairs, 0s/0S + base64 groups with padding, else text with optional quotes,
                   backslash-backslash, backslash-quote and backslash + 1..3 octal digits
   and XattrPlainEquiv proves the model's specification equal to it for EVERY input.  The behaviours a reader of
   the format would not expect are kept in the plain specification explicitly, (O1)..(O7) in the header of
   XattrPlain.v; each has an Example below.
   ====================================================================================== *)
From SqfsV Require Import C07.XattrPlain C07.XattrPlainLines C07.XattrPlainDecode C07.XattrPlainEquiv.

(* [plain_view] reads a pattern's path block (result of the in-place canonicalisation, NUL, stale tail) as the C
   string it is; everything else is compared as it stands *)
Theorem xattr_file_spec_plain_equiv : forall s, exists x, xattr_file_spec s = Ok x /\ plain_view x = xattr_file_plain s.
Proof. exact xattr_file_spec_plain_equiv_l. Qed.
Print Assumptions xattr_file_spec_plain_equiv.

(* ... hence, end to end: for every file and every cutting into windows the run of the model of
   xattr_open_map_file returns, and verdict, error code and line of a refusal, and the decoded map are the plain
   specification's *)
Theorem xattr_open_is_plain : forall win s,
  exists r, xattr_open_map_file win s = Ok r /\ plain_view (erase r) = xattr_file_plain s.
Proof. exact xattr_open_is_plain_l. Qed.
Print Assumptions xattr_open_is_plain.

(* istream_get_line (LTRIM | RTRIM | SKIP_EMPTY) alone: the line handed out, the number reported for it and the
   stream behind it are the head and the tail of the plain list *)
Theorem get_line_is_plain : forall win t s ln t' o s' ln', get_line win t s ln = Ok (t', o, s', ln') ->
  match number_lines ln (split_lf s) with
  | [] => content o = None
  | (k, x) :: more => content o = Some (x ++ [0]) /\ ln' = k /\ number_lines (k + 1) (split_lf s') = more
  end.
Proof. exact get_line_is_plain_l. Qed.
Print Assumptions get_line_is_plain.

(* the lines of the plain specification: never empty, no NUL, no space at either end *)
Theorem lines_plain_are_trimmed : forall s k x, In (k, x) (lines_plain s) ->
  x <> [] /\ Forall nz x /\ (forall c r, x = c :: r -> isspace_plain c = false) /\
  (forall c r, rev x = c :: r -> isspace_plain c = false).
Proof. exact lines_plain_shape. Qed.
Print Assumptions lines_plain_are_trimmed.

(* the value decoder of filemap_xattr.c (decode + hex_decode + base64_decode, with all buffer arithmetic) computes
   decode_plain, for every value *)
Theorem xattr_decode_is_plain : forall v, Forall nz v ->
  xattr_decode (v ++ [0]) = match decode_plain v with Some d => Ok d | None => Err e_encoding end.
Proof. exact xattr_decode_plain. Qed.
Print Assumptions xattr_decode_is_plain.

(* the in-place trims of get_line.c are the plain strips *)
Theorem trim_flags_is_strip : forall t tl, Forall nz t ->
  exists m, trim_flags (t ++ 0 :: tl) = Ok (m, N.of_nat (length (strip t))) /\
            resize m (S (length (strip t))) = strip t ++ [0].
Proof. exact trim_flags_spec. Qed.
Print Assumptions trim_flags_is_strip.

(* (O5) the CR rule of istream_get_line cannot be observed under RTRIM: CR is a space *)
Theorem cr_rule_unobservable : forall l, line_text (l, true) = line_text (l, false).
Proof. exact cr_rule_absorbed. Qed.
Print Assumptions cr_rule_unobservable.

(* the error codes of the plain specification are the model's *)
Example ex_plain_codes : pe_nofile = e_nofile /\ pe_badpath = e_badpath /\ pe_notkv = e_notkv /\ pe_encoding = e_encoding.
Proof. exact plain_codes. Qed.

(* ---- a file that exercises every clause: CR LF line ends, a blank first line, an indented comment, a path that
   needs canonicalising, hex, base64 with two / one / no pad, a quoted value with an octal escape, an escaped
   backslash, an escaped quote and a two-digit octal, an unquoted value with a backslash that stays, an empty value,
   (O1) a '#' line with '=', (O2) an odd hex tail, (O6) a NUL hiding the rest of a line, an empty line, a second
   pattern, a last line without LF whose value contains '='.
   # file: /a//./b/ | user.hex=0x4142 | user.b1=0sQQ== | user.b2=0sQUI= | user.b3=0sQUJD | user.q=QUOTE a \101 \\ \QUOTE \12 x QUOTE |
   user.plain=p q\8 | user.empty= | #odd=0xabz | user.nul=v NUL hidden= | | # file: c | k=v=w *)
Definition xf_every : list N := [13; 10; 32; 32; 35; 32; 97; 32; 99; 111; 109; 109; 101; 110; 116; 13; 10; 35; 32; 102; 105; 108; 101; 58; 32; 47; 97; 47; 47; 46; 47; 98; 47; 10; 117; 115; 101; 114; 46; 104; 101; 120; 61; 48; 120; 52; 49; 52; 50; 10; 9; 117; 115; 101; 114; 46; 98; 49; 61; 48; 115; 81; 81; 61; 61; 32; 32; 10; 117; 115; 101; 114; 46; 98; 50; 61; 48; 115; 81; 85; 73; 61; 10; 117; 115; 101; 114; 46; 98; 51; 61; 48; 115; 81; 85; 74; 68; 10; 117; 115; 101; 114; 46; 113; 61; 34; 97; 92; 49; 48; 49; 92; 92; 92; 34; 92; 49; 50; 120; 34; 10; 117; 115; 101; 114; 46; 112; 108; 97; 105; 110; 61; 112; 32; 113; 92; 56; 10; 117; 115; 101; 114; 46; 101; 109; 112; 116; 121; 61; 10; 35; 111; 100; 100; 61; 48; 120; 97; 98; 122; 10; 117; 115; 101; 114; 46; 110; 117; 108; 61; 118; 0; 104; 105; 100; 100; 101; 110; 61; 10; 10; 35; 32; 102; 105; 108; 101; 58; 32; 99; 10; 107; 61; 118; 61; 119].

Example ex_plain_every_clause :
  map fst (lines_plain xf_every) = [2; 3; 4; 5; 6; 7; 8; 9; 10; 11; 12; 14; 15] /\
  xattr_file_plain xf_every
  = XP_map [([99], [([107], [118; 61; 119])]);
            ([97; 47; 98],
             [([117; 115; 101; 114; 46; 110; 117; 108], [118]);
              ([35; 111; 100; 100], [171]);
              ([117; 115; 101; 114; 46; 101; 109; 112; 116; 121], []);
              ([117; 115; 101; 114; 46; 112; 108; 97; 105; 110], [112; 32; 113; 92; 56]);
              ([117; 115; 101; 114; 46; 113], [97; 65; 92; 34; 10; 120]);
              ([117; 115; 101; 114; 46; 98; 51], [65; 66; 67]);
              ([117; 115; 101; 114; 46; 98; 50], [65; 66]);
              ([117; 115; 101; 114; 46; 98; 49], [65]);
              ([117; 115; 101; 114; 46; 104; 101; 120], [65; 66])])] /\
  (* the model, computed, agrees (as xattr_open_is_plain says it must), with one byte per window and with all at once *)
  (match xattr_open_map_file win_one xf_every with Ok r => plain_view (erase r) | _ => XP_refused 0 0 end) = xattr_file_plain xf_every /\
  (match xattr_open_map_file win_all xf_every with Ok r => plain_view (erase r) | _ => XP_refused 0 0 end) = xattr_file_plain xf_every.
Proof. vm_compute. repeat split. Qed.

(* the four refusals, with the line number reported: no pattern yet (line 1); a dot-dot component (line 2, behind an
   empty line); neither key=value nor comment (line 4, behind two empty lines); a base64 tail of three characters *)
Example ex_plain_refusals :
  xattr_file_plain [107; 61; 118; 10] = XP_refused 221 1 /\
  xattr_file_plain [10; 35; 32; 102; 105; 108; 101; 58; 32; 97; 47; 46; 46; 10] = XP_refused 222 2 /\
  xattr_file_plain [35; 32; 102; 105; 108; 101; 58; 32; 97; 10; 10; 10; 120; 121; 10] = XP_refused 223 4 /\
  xattr_file_plain [35; 32; 102; 105; 108; 101; 58; 32; 97; 10; 107; 61; 48; 115; 81; 85; 73; 10] = XP_refused 109 2.
Proof. vm_compute. repeat split. Qed.

(* (O1)..(O4), (O7): the behaviours kept visibly in the plain specification, one by one (values as byte lists;
   34 = QUOTE, 92 = BACKSLASH) *)
Example ex_plain_observed_behaviours :
  (* O1: '=' is tested before '#' *)
  step_plain [35; 97; 61; 98] [([120], [])] = ([([120], [([35; 97], [98])])], None) /\
  step_plain [35; 97; 32; 98] [([120], [])] = ([([120], [])], None) /\
  (* O2: 0xabz = 0xab: the odd last character is dropped unseen; 0xazb is refused *)
  decode_plain [48; 120; 97; 98; 122] = Some [171] /\ decode_plain [48; 120; 97; 122; 98] = None /\
  (* O3: '-' is 63, '_' pads; an unpadded tail is refused; a padded group must be the last *)
  decode_plain [48; 115; 45; 45; 95; 95] = Some [255] /\ decode_plain [48; 115; 81; 85; 73] = None /\
  decode_plain [48; 115; 81; 81; 61; 61; 81; 85; 74; 68] = None /\
  (* O4: QUOTE a b BACKSLASH QUOTE = a b QUOTE; a b BACKSLASH (unquoted) keeps the backslash; BACKSLASH 8 stays; BACKSLASH 777 = 255 *)
  decode_plain [34; 97; 98; 92; 34] = Some [97; 98; 34] /\ decode_plain [97; 98; 92] = Some [97; 98; 92] /\
  decode_plain [92; 56] = Some [92; 56] /\ decode_plain [92; 55; 55; 55] = Some [255] /\
  (* O7: a lone QUOTE, and a QUOTE only at the front, are ordinary bytes *)
  decode_plain [34] = Some [34] /\ decode_plain [34; 97] = Some [34; 97] /\ decode_plain [34; 34] = Some [].
Proof. vm_compute. repeat split. Qed.

(* the independent decoder inverts getfattr's encoders as well (decode_inverse + xattr_decode_is_plain; the
   encodings contain no NUL because their alphabets do not) - on the value of ex_decode_inverse *)
Example ex_plain_decode_inverse :
  decode_plain (hex_enc [0; 255; 65]) = Some [0; 255; 65] /\ decode_plain (b64_enc [65; 66]) = Some [65; 66] /\
  decode_plain (text_enc ex_oct [0; 34; 92; 10; 255; 65]) = Some [0; 34; 92; 10; 255; 65].
Proof. vm_compute. repeat split. Qed.

(* ================================================================== *)
(* (5) Strengthening, session 3 (seed C07-9): the tar stream inside a   *)
(*     compressed container (gzip / xz / bzip2 / zstd)                 *)
(* ================================================================== *)
(* tar2sqfs wraps standard input in istream_xfrm over a decompressor driver when it sees a magic.  The
   driver loops (lib/xfrm/src/{gzip,xz,bzip2,zstd}.c process_data) and the reader (istream.c precache) are
   C15's model (coq/C15/XfrmModel.v, tied by props/C15).  C07's share: on EVERY input byte string Z -- no
   hypothesis that Z is a sequence of members: truncated anywhere, damaged anywhere, garbage -- for every
   window schedule ws of the wrapped stream and every sequence of requests of the tar reader, the reader
   returns (never RFuel: each iteration consumes input, produces output or returns), and a clean end of file
   is reported only if Z is a sequence of complete members and acc is their whole content.  Hence a malformed
   container ends in RErr -- tar2sqfs prints "internal compressor error", exits 1, removes the output --,
   never in an endless loop (seed C07-9: `continue` with nothing consumed and nothing produced in bzip2.c)
   and never in a silent short archive.  Hypotheses: C15's contract of the library (one call of inflate /
   lzma_code, BZ2_bzDecompress, ZSTD_decompressStream); they are met by the toy codec (Examples below) and
   checked against the real libraries by props/C15; at tool level by props/C07/wrap.py (part_wrapped). *)
From SqfsV Require Import C15.XfrmModel C15.XfrmSpec C15.XfrmBase C15.XfrmDrvZlib C15.XfrmDrvBzip2
  C15.XfrmDrvZstd C15.XfrmIStreamProofs C15.ToyCodec C15.ToyFormat C15.ToyDecProofs C15.XfrmTop
  C07.WrappedStreams.

Theorem wrapped_gzip_xz_terminates :
  forall (Member : list N -> list N -> Prop), format_ok Member ->
  forall (S : Type) (C : codec S) (Rep : S -> list N -> list N -> Prop),
  dec_contract Member S C Rep true -> ok_progresses S C Rep -> mid_ok S C Rep ->
  forall bufsz, (0 < bufsz)%nat -> forall st0, Rep st0 [] [] ->
  forall Z ws ops acc e s',
  reader (mk_zlib C true) bufsz (istream_init st0 Z ws) ops [] = (acc, e, s') ->
  e <> RFuel /\ (e = REof -> Stream Member Z acc).
Proof. exact wrapped_gzip_xz_terminates_l. Qed.
Print Assumptions wrapped_gzip_xz_terminates.

Theorem wrapped_bzip2_terminates :
  forall (Member : list N -> list N -> Prop), format_ok Member ->
  forall (S : Type) (C : codec S) (Rep : S -> list N -> list N -> Prop),
  dec_contract Member S C Rep true -> never_buf S C Rep -> mid_ok S C Rep ->
  forall bufsz, (0 < bufsz)%nat -> forall st0, Rep st0 [] [] ->
  forall Z ws ops acc e s',
  reader (mk_bzip2 C true) bufsz (istream_init st0 Z ws) ops [] = (acc, e, s') ->
  e <> RFuel /\ (e = REof -> Stream Member Z acc).
Proof. exact wrapped_bzip2_terminates_l. Qed.
Print Assumptions wrapped_bzip2_terminates.

Theorem wrapped_zstd_terminates :
  forall (Member : list N -> list N -> Prop), format_ok Member ->
  forall (S : Type) (C : codec S) (Rep : S -> list N -> list N -> Prop),
  dec_contract Member S C Rep false -> end_progresses S C Rep ->
  forall bufsz, (0 < bufsz)%nat -> forall st0, Rep st0 [] [] ->
  forall Z ws ops acc e s',
  reader (mk_zstd C true) bufsz (istream_init (st0, false) Z ws) ops [] = (acc, e, s') ->
  e <> RFuel /\ (e = REof -> Stream Member Z acc).
Proof. exact wrapped_zstd_terminates_l. Qed.
Print Assumptions wrapped_zstd_terminates.

(* non-vacuity: the toy codec of C15 meets the hypotheses of the three statements ... *)
Example ex_wrapped_hyps :
  format_ok TMember /\
  (dec_contract TMember tdst toy_dec TRep true /\ ok_progresses tdst toy_dec TRep /\ mid_ok tdst toy_dec TRep /\
   TRep (toy_dec_init 1 1 true) [] []) /\
  (dec_contract TMember tdst (bzify _ (noflush _ toy_dec)) TRep true /\ never_buf tdst (bzify _ (noflush _ toy_dec)) TRep /\
   mid_ok tdst (bzify _ (noflush _ toy_dec)) TRep) /\
  (dec_contract TMember tdst (noflush _ toy_dec) TRep0 false /\ end_progresses tdst (noflush _ toy_dec) TRep0 /\
   TRep0 (toy_dec_init 0 0 false) [] []).
Proof. exact wrapped_hyps_toy. Qed.

(* ... and on it: a two-member container (C15's ex_z: 17 bytes) cut inside the second member, cut inside the
   magic of the first, with one byte damaged, and followed by garbage ends in RErr on each of the three driver
   loops; cut exactly between the members it is a shorter well-formed container (REof) *)
Definition wz : list N := [167; 1; 3; 97; 98; 99; 2; 5; 0; 122; 0; 136] ++ [167; 3; 3; 0; 113].
Definition wrapped_end (drv : driver tdst) (z : list N) : rend :=
  snd (fst (reader drv 4 (istream_init (toy_dec_init 2 3 false) z []) (repeat (1%nat, 1%nat) 20) [])).
Definition wrapped_end_zstd (z : list N) : rend :=
  snd (fst (reader toy_zstd_dec 4 (istream_init (toy_dec_init 2 3 false, false) z []) (repeat (1%nat, 1%nat) 20) [])).
Example ex_wrapped_malformed :
  let bad := [firstn 15 wz; firstn 1 wz ++ []; firstn 11 wz ++ 137 :: skipn 12 wz; wz ++ [0]] in
  map (wrapped_end toy_gzip_dec) bad = [RErr; RErr; RErr; RErr] /\
  map (wrapped_end toy_bzip2_dec) bad = [RErr; RErr; RErr; RErr] /\
  map wrapped_end_zstd bad = [RErr; RErr; RErr; RErr] /\
  (wrapped_end toy_gzip_dec wz, wrapped_end toy_bzip2_dec wz, wrapped_end_zstd wz) = (REof, REof, REof) /\
  (wrapped_end toy_gzip_dec (firstn 12 wz), wrapped_end toy_bzip2_dec (firstn 12 wz), wrapped_end_zstd (firstn 12 wz)) = (REof, REof, REof).
Proof. vm_compute. repeat split. Qed.
