(* C03 — executable model of lib/sqfs/src/dir_writer.c on top of the meta writer model
   (definitions only).

   C                                   model
   sqfs_dir_entry_t list               dw_list : list dent (in insertion order)
   index_ent_t list                    dw_idx  : list idxent (in insertion order)
   writer->dir_ref/dir_size/ent_count  dw_ref / dw_size / dw_count
   writer->dm                          dw_dm : mw (the meta writer model, state passed through)
   writer->export_tbl                  dw_export : option (list N)  (u64 values [0 .. used); None = no table)

   Machine-integer widths are written out where the C code narrows:
   idx->index (u32), hdr.start_block (u32), the s32 inode_num difference in get_conseq_entry_count, the s16
   inode_diff of an entry, the u16/u32 fields of the directory inodes, inodex_count (u16).
   Names are byte lists without NUL (the C API takes a C string). *)
From Coq Require Import List NArith ZArith Bool.
From SqfsV Require Import Base.Bytes Gen.Constants C03.GenC03 C03.Common C03.MetaModel.
Import ListNotations.
Local Open Scope N_scope.

Definition MAX_ENT : N := c_SQFS_MAX_DIR_ENT.
Definition HDR_SZ : N := sizeof_sqfs_dir_header_t.
Definition ENT_SZ : N := sizeof_sqfs_dir_node_t.
Definition IDX_SZ : N := sizeof_sqfs_dir_index_t.
Definition U16 : N := 65536.
Definition U32 : N := 4294967296.
Definition U64MAX : N := 18446744073709551615.

Record dent : Type := mkDent {
  de_name : list N;
  de_ref : N;     (* sqfs_u64 inode_ref *)
  de_num : N;     (* sqfs_u32 inode_num *)
  de_type : N     (* sqfs_u16 type *)
}.

Record idxent : Type := mkIdx {
  ix_ent : dent;
  ix_block : N;   (* sqfs_u64 block *)
  ix_index : N    (* sqfs_u32 index *)
}.

Record dw : Type := mkDw {
  dw_list : list dent;
  dw_idx : list idxent;
  dw_ref : N;
  dw_size : N;
  dw_count : N;
  dw_dm : mw;
  dw_export : option (list N)
}.

(* get_type() *)
Definition get_type (mode : N) : option N :=
  let f := N.land mode c_S_IFMT in
  if f =? c_S_IFSOCK then Some c_SQFS_INODE_SOCKET
  else if f =? c_S_IFIFO then Some c_SQFS_INODE_FIFO
  else if f =? c_S_IFLNK then Some c_SQFS_INODE_SLINK
  else if f =? c_S_IFBLK then Some c_SQFS_INODE_BDEV
  else if f =? c_S_IFCHR then Some c_SQFS_INODE_CDEV
  else if f =? c_S_IFDIR then Some c_SQFS_INODE_DIR
  else if f =? c_S_IFREG then Some c_SQFS_INODE_FILE
  else None.

(* add_export_table_entry() *)
Definition export_add (t : option (list N)) (inum iref : N) : res (option (list N)) :=
  match t with
  | None => Ok None
  | Some l =>
    if inum <? 1 then Err c_SQFS_ERROR_ARG_INVALID else
    let l1 := if lenN l <=? inum - 1 then l ++ repeat U64MAX (N.to_nat (inum - lenN l)) else l in
    Ok (Some (takeN (inum - 1) l1 ++ iref :: dropN inum l1))
  end.

(* sqfs_dir_writer_create(dm, flags) *)
Definition dw_create (dm : mw) (export : bool) : dw :=
  mkDw [] [] 0 0 0 dm (if export then Some [] else None).

(* sqfs_dir_writer_begin: writer_reset + dir_ref = (block << 16) | offset   (offset < 65536) *)
Definition dw_begin (w : dw) : dw :=
  let '(block, offset) := mw_position (dw_dm w) in
  mkDw [] [] (block * U16 + offset) 0 0 (dw_dm w) (dw_export w).

(* sqfs_dir_writer_add_entry *)
Definition dw_add_entry (w : dw) (name : list N) (inum iref mode : N) : res dw :=
  match get_type mode with
  | None => Err c_SQFS_ERROR_UNSUPPORTED
  | Some type =>
    if (lenN name =? 0) || (inum <? 1) then Err c_SQFS_ERROR_ARG_INVALID else
    match export_add (dw_export w) inum iref with
    | Ok ex =>
      Ok (mkDw (dw_list w ++ [mkDent name iref inum type]) (dw_idx w) (dw_ref w) (dw_size w)
               (dw_count w + 1) (dw_dm w) ex)
    | Err e => Err e
    | Fuel => Fuel
    end
  end.

(* (sqfs_s32)(a - b) for sqfs_u32 a, b *)
Definition s32_diff (a b : N) : Z :=
  let d := (a + U32 - b) mod U32 in
  if d <? 2147483648 then Z.of_N d else (Z.of_N d - 4294967296)%Z.

(* the for loop of get_conseq_entry_count *)
Fixpoint gcec_loop (head : dent) (l : list dent) (size count : N) : N :=
  match l with
  | [] => count
  | it :: r =>
    if negb (de_ref it / U16 =? de_ref head / U16) then count else
    let diff := s32_diff (de_num it) (de_num head) in
    if ((diff >? 32767) || (diff <? -32767))%Z then count else
    let size := size + ENT_SZ + lenN (de_name it) in
    if (0 <? count) && (MB <? size) then count else
    let count := count + 1 in
    if count =? MAX_ENT then count else gcec_loop head r size count
  end.

Definition gcec (offset : N) (l : list dent) : N :=
  match l with
  | [] => 0
  | head :: _ => gcec_loop head l ((offset + HDR_SZ) mod MB) 0
  end.

(* sqfs_dir_header_t as add_header fills it *)
Definition enc_header (count : N) (ref : dent) : list N :=
  le32 (count - 1) ++ le32 (de_ref ref / U16) ++ le32 (de_num ref).

(* sqfs_dir_node_t as sqfs_dir_writer_end fills it *)
Definition enc_entry (first it : dent) : list N :=
  le16 (de_ref it mod U16) ++ le16 (de_num it + U32 - de_num first) ++
  le16 (de_type it) ++ le16 (lenN (de_name it) - 1).

Section Dir.
  Variable compress : list N -> cres.
  Notation mw_append := (mw_append compress).

  (* the inner for (i = 0; i < count; ++i) loop *)
  Fixpoint dw_emit (dm : mw) (size : N) (first : dent) (run : list dent) : res (mw * N) :=
    match run with
    | [] => Ok (dm, size)
    | it :: r =>
      match mw_append dm (enc_entry first it) with
      | Ok dm1 =>
        match mw_append dm1 (de_name it) with
        | Ok dm2 => dw_emit dm2 (size + ENT_SZ + lenN (de_name it)) first r
        | Err e => Err e
        | Fuel => Fuel
        end
      | Err e => Err e
      | Fuel => Fuel
      end
    end.

  (* the outer loop of sqfs_dir_writer_end (with add_header inlined) *)
  Fixpoint dw_end_loop (fuel : nat) (dm : mw) (size : N) (idx : list idxent) (l : list dent)
    : res (mw * N * list idxent) :=
    match l with
    | [] => Ok (dm, size, idx)
    | first :: _ =>
      match fuel with
      | O => Fuel
      | S f =>
        let '(block, offset) := mw_position dm in
        let count := gcec offset l in
        match mw_append dm (enc_header count first) with
        | Ok dm1 =>
          let idx1 := idx ++ [mkIdx first block (size mod U32)] in
          match dw_emit dm1 (size + HDR_SZ) first (takeN count l) with
          | Ok (dm2, size2) => dw_end_loop f dm2 size2 idx1 (dropN count l)
          | Err e => Err e
          | Fuel => Fuel
          end
        | Err e => Err e
        | Fuel => Fuel
        end
      end
    end.

  Definition dw_end (w : dw) : res dw :=
    match dw_end_loop (S (length (dw_list w))) (dw_dm w) (dw_size w) (dw_idx w) (dw_list w) with
    | Ok (dm, size, idx) => Ok (mkDw (dw_list w) idx (dw_ref w) size (dw_count w) dm (dw_export w))
    | Err e => Err e
    | Fuel => Fuel
    end.
End Dir.

(* sqfs_dir_writer_get_index_size *)
Definition dw_index_size (w : dw) : N :=
  fold_left (fun a i => a + IDX_SZ + lenN (de_name (ix_ent i))) (dw_idx w) 0.

(* the inode sqfs_dir_writer_create_inode builds (native struct, not yet serialised) *)
Record dir_inode : Type := mkDirInode {
  di_ext : bool;
  di_nlink : N;
  di_size : N;
  di_start_block : N;
  di_offset : N;
  di_parent : N;
  di_xattr : N;
  di_icount : N;
  di_index : list (N * N * N * list N)    (* index, start_block, size, name *)
}.

Definition dw_create_inode (w : dw) (hlinks xattr parent : N) : dir_inode :=
  let start_block := dw_ref w / U16 in
  let block_offset := dw_ref w mod U16 in
  let ext0 := negb (xattr =? 4294967295) || (4294967295 <? start_block) || (65535 - 3 <? dw_size w) in
  let ext := ext0 || (c_DIR_INDEX_THRESHOLD <=? dw_count w) in
  let nlink := (dw_count w + hlinks + 2) mod U32 in
  if ext then
    mkDirInode true nlink ((dw_size w + 3) mod U32) (start_block mod U32) block_offset parent xattr
      (lenN (dw_idx w) mod U16)
      (map (fun i => (ix_index i, ix_block i mod U32, (lenN (de_name (ix_ent i)) - 1) mod U32,
                      de_name (ix_ent i))) (dw_idx w))
  else
    mkDirInode false nlink ((dw_size w + 3) mod U16) (start_block mod U32) block_offset parent 4294967295 0 [].

(* ---- independent reader side (spec level; from doc/format.adoc "Directory Table") ---- *)
(* one decoded entry: name, inode reference, type, inode number *)
Definition sext16 (v : N) : Z := if v <? 32768 then Z.of_N v else (Z.of_N v - 65536)%Z.

Record rhdr : Type := mkRhdr { rh_count : N; rh_start : N; rh_ino : N; rh_pos : N }.

Fixpoint parse_entries (k : nat) (start ino : N) (l : list N) : option (list dent * list N) :=
  match k with
  | O => Some ([], l)
  | S k' =>
    if lenN l <? 8 then None else
    let off := rd16 l in
    let diff := sext16 (rd16 (dropN 2 l)) in
    let type := rd16 (dropN 4 l) in
    let nsz := rd16 (dropN 6 l) + 1 in
    let rest := dropN 8 l in
    if lenN rest <? nsz then None else
    let name := takeN nsz rest in
    let num := Z.to_N ((Z.of_N ino + diff) mod 4294967296)%Z in
    match parse_entries k' start ino (dropN nsz rest) with
    | Some (es, tl) => Some (mkDent name (start * U16 + off) num type :: es, tl)
    | None => None
    end
  end.

(* the whole listing: list of (header, its entries) *)
Fixpoint parse_listing (fuel : nat) (pos : N) (l : list N) : option (list (rhdr * list dent)) :=
  match l with
  | [] => Some []
  | _ :: _ =>
    match fuel with
    | O => None
    | S f =>
      if lenN l <? 12 then None else
      let count := rd32 l + 1 in
      let start := rd32 (dropN 4 l) in
      let ino := rd32 (dropN 8 l) in
      if 256 <? count then None else
      match parse_entries (N.to_nat count) start ino (dropN 12 l) with
      | None => None
      | Some (es, tl) =>
        match parse_listing f (pos + (lenN l - lenN tl)) tl with
        | Some r => Some ((mkRhdr count start ino pos, es) :: r)
        | None => None
        end
      end
    end
  end.
