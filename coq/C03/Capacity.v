(* C03 -- capacity of the narrow on-disk fields that refer to the id table (lib/sqfs/src/id_table.c):
   sqfs_super_t.id_count and sqfs_inode_t.uid_idx / gid_idx are 16 bit wide.  The NEED: every table that
   sqfs_id_table_id_to_index builds has at most 2^16 - 1 entries, so that the 16-bit store of the count in
   sqfs_id_table_write is lossless and every index an inode carries is below the stored count.

   [c_id_table_accepts] (GenC03Cap.v) is probed on the working tree by props/C03/h_cap.c on every run of the C03 check:
   the number of distinct ids the real sqfs_id_table_id_to_index accepts.  The statements below are instantiated at that
   constant in Properties_C03.v: a tree whose table accepts a 65536th id no longer compiles them, and the refuted variant
   (the model at limit 65536: 65536 distinct ids are accepted, the stored count is 0) names the input that the
   capacity leg of the check (props/C03/cap_stage.py) replays on the implementation. *)
From Coq Require Import List NArith ZArith Bool Lia.
From SqfsV Require Import Base.Bytes Gen.Constants C01.Res C01.InodeModel C01.InodeProofs C01.IdProofs C03.GenC03Cap.
Import ListNotations.
Local Open Scope N_scope.

(* one lookup: the table stays within the limit, the count field holds its length, the index is below the count *)
Lemma id_step_fits limit tbl id tbl' i :
  limit <= 65535 -> nlen tbl <= limit -> id_to_index limit tbl id = Ok (tbl', i) ->
  nlen tbl' <= 65535 /\ id_count_field tbl' = nlen tbl' /\ i < id_count_field tbl' /\ index_to_id tbl' i = Some id.
Proof.
  intros Hl Ht H. destruct (id_to_index_spec _ _ _ _ _ H) as [_ [U1 [U2 [U3 _]]]]. specialize (U3 Ht).
  assert (C : id_count_field tbl' = nlen tbl') by (unfold id_count_field; apply N.mod_small; lia).
  split; [lia|]. split; [exact C|]. split; [rewrite C; exact U2|exact U1].
Qed.

(* a whole packing run from the empty table *)
Lemma id_run_fits limit ids t idxs :
  limit <= 65535 -> id_run limit [] ids = Ok (t, idxs) ->
  nlen t <= 65535 /\ id_count_field t = nlen t /\ length idxs = length ids /\
  forall k id, nth_error ids k = Some id ->
    exists i, nth_error idxs k = Some i /\ i < id_count_field t /\ index_to_id t i = Some id.
Proof.
  intros Hl H.
  assert (L0 : nlen (@nil N) <= limit) by (unfold nlen; cbn; lia).
  destruct (id_run_spec limit ids [] t idxs H L0 (NoDup_nil _)) as [A [_ [_ [C D]]]].
  assert (E : id_count_field t = nlen t) by (unfold id_count_field; apply N.mod_small; lia).
  split; [lia|]. split; [exact E|]. split; [exact C|].
  intros k id Hk. destruct (D k id Hk) as [i [I1 [I2 I3]]]. exists i. rewrite E. auto.
Qed.

(* the constant of the working tree meets the need *)
Lemma id_accepts_fits : c_id_table_accepts <= 65535 /\ c_id_table_accepts < 2 ^ c_id_count_field_bits /\
                        c_id_table_accepts < 2 ^ c_id_index_field_bits /\ 2 ^ c_id_count_field_bits = 65536.
Proof. vm_compute. repeat split; discriminate. Qed.

Lemma id_count_fits_16_bits_l ids t idxs :
  id_run c_id_table_accepts [] ids = Ok (t, idxs) ->
  nlen t <= 65535 /\ id_count_field t = nlen t /\ length idxs = length ids /\
  forall k id, nth_error ids k = Some id ->
    exists i, nth_error idxs k = Some i /\ i < id_count_field t /\ index_to_id t i = Some id.
Proof. exact (id_run_fits c_id_table_accepts ids t idxs (proj1 id_accepts_fits)). Qed.

(* more distinct ids than the table accepts: the run fails (no image), it does not wrap *)
Lemma id_capacity_refuses_l ids l :
  NoDup l -> incl l ids -> c_id_table_accepts < nlen l -> exists e, id_run c_id_table_accepts [] ids = Err e.
Proof. exact (id_refuses_l c_id_table_accepts ids l). Qed.

(* the need is tight: a table that accepts one more id stores the count 0 although every inode carries an index *)
Lemma id_count_wraps_at_65536_l :
  exists ids t idxs, NoDup ids /\ nlen ids = 65536 /\ id_run 65536 [] ids = Ok (t, idxs) /\ nlen t = 65536 /\
    id_count_field t = 0 /\ (forall i, ~ i < id_count_field t) /\
    forall payload, id_table_read (id_count_field t) payload = Err c_SQFS_ERROR_CORRUPTED.
Proof.
  remember (N.to_nat 65536) as n eqn:Hn'.
  assert (Hn : N.of_nat n = 65536) by (subst n; apply N2Nat.id). clear Hn'.
  destruct (id_run_fresh 65536 n 0) as [idxs E]; [rewrite Nat.add_0_l, Hn; lia|].
  rewrite Nat.add_0_l in E.
  assert (C : id_count_field (seqN n) = 0) by (unfold id_count_field; rewrite seqN_len, Hn; reflexivity).
  exists (seqN n), (seqN n), idxs.
  split; [unfold seqN; apply FinFun.Injective_map_NoDup; [intros a b; apply Nat2N.inj|apply seq_NoDup]|].
  split; [rewrite seqN_len; exact Hn|]. split; [exact E|]. split; [rewrite seqN_len; exact Hn|].
  split; [exact C|]. split; [intro i; rewrite C; lia|]. intro p. rewrite C. reflexivity.
Qed.

(* non-vacuity: a run of five lookups (two repeated ids) at the tree's constant *)
Example ex_id_run_small :
  id_run c_id_table_accepts [] [1000; 0; 1000; 4294967295; 0] = Ok ([1000; 0; 4294967295], [0; 1; 0; 2; 1]).
Proof. vm_compute. reflexivity. Qed.
