(* C03 — proofs about the inode numbering model (NumModel.v). *)
From Coq Require Import List NArith Lia ZifyNat ZifyN.
From SqfsV Require Import C03.NumModel.
Import ListNotations.
Local Open Scope N_scope.

(* induction principle with the hypothesis for all children *)
Fixpoint tnode_ind2 (P : tnode -> Prop) (Hl : forall h, P (TLeaf h))
         (Hd : forall ch, Forall P ch -> P (TDir ch)) (t : tnode) : P t :=
  match t with
  | TLeaf h => Hl h
  | TDir ch =>
    Hd ch ((fix go (l : list tnode) : Forall P l :=
              match l with
              | [] => Forall_nil P
              | c :: r => Forall_cons c (tnode_ind2 P Hl Hd c) (go r)
              end) ch)
  end.

Definition count_desc (t : tnode) : nat :=
  match t with
  | TLeaf _ => 0%nat
  | TDir ch => fold_right (fun c a => (count_sub c + a)%nat) 0%nat ch
  end.
Definition own (t : tnode) : nat := if is_hard t then 0%nat else 1%nat.

Lemma count_sub_split t : count_sub t = (count_desc t + own t)%nat.
Proof. destruct t as [[|]|ch]; simpl; unfold own; simpl; lia. Qed.

Definition consecutive (cnt : N) (l : list (list nat * N)) : Prop :=
  map snd l = map (fun j => cnt + N.of_nat j) (seq 1 (length l)).

Lemma seq_offset (cnt : N) (la : nat) : forall lb s,
  map (fun j => cnt + N.of_nat la + N.of_nat j) (seq s lb) = map (fun j => cnt + N.of_nat j) (seq (s + la) lb).
Proof.
  induction lb as [|k IH]; intro s; simpl; [reflexivity|]. f_equal; [lia|]. apply (IH (S s)).
Qed.

Lemma consecutive_app cnt a b :
  consecutive cnt a -> consecutive (cnt + N.of_nat (length a)) b -> consecutive cnt (a ++ b).
Proof.
  unfold consecutive. intros Ha Hb. rewrite map_app, app_length, seq_app, map_app, Ha, Hb.
  f_equal. apply seq_offset.
Qed.

Lemma consecutive_bounds cnt l q m : consecutive cnt l -> In (q, m) l -> cnt < m /\ m <= cnt + N.of_nat (length l).
Proof.
  unfold consecutive. intros H Hin.
  assert (Hm : In m (map snd l)) by (apply in_map_iff; exists (q, m); split; [reflexivity|exact Hin]).
  rewrite H in Hm. apply in_map_iff in Hm. destruct Hm as (j & <- & Hj). apply in_seq in Hj. lia.
Qed.

Lemma below_app_cons path i q : below (path ++ [i]) q -> below path q.
Proof.
  intros (r & Hr & ->). exists ([i] ++ r). split; [discriminate|]. rewrite <- app_assoc. reflexivity.
Qed.

Lemma no_cross path i j p q : below (path ++ [i]) p \/ p = path ++ [i] ->
  below (path ++ [j]) q \/ q = path ++ [j] -> i <> j -> ~ below p q.
Proof.
  intros Hp Hq Hij (r & Hr & E).
  assert (Ep : exists r1, p = path ++ i :: r1).
  { destruct Hp as [(r1 & _ & ->)| ->]; [exists r1|exists []]; rewrite <- ?app_assoc; reflexivity. }
  assert (Eq : exists r2, q = path ++ j :: r2).
  { destruct Hq as [(r2 & _ & ->)| ->]; [exists r2|exists []]; rewrite <- ?app_assoc; reflexivity. }
  destruct Ep as (r1 & ->). destruct Eq as (r2 & ->).
  rewrite <- app_assoc in E. apply app_inv_head in E. simpl in E. inversion E. congruence.
Qed.

Lemma below_len p q : below p q -> (length p < length q)%nat.
Proof. intros (r & Hr & ->). rewrite app_length. destruct r; [congruence|simpl; lia]. Qed.

(* ---- the children loop ---- *)
Lemma number_children_spec : forall l path i cnt,
  let '(b, cnt') := number_children l path i cnt in
  length b = fold_right (fun c a => (own c + a)%nat) 0%nat l /\
  cnt' = cnt + N.of_nat (length b) /\ consecutive cnt b /\
  (forall q m, In (q, m) b -> exists j, (i <= j)%nat /\ q = path ++ [j]).
Proof.
  induction l as [|c r IH]; intros path i cnt; cbn [number_children fold_right].
  - repeat split; try reflexivity; try (simpl; lia); try (intros q m []).
  - unfold own at 1. destruct (is_hard c).
    + specialize (IH path (S i) cnt). destruct (number_children r path (S i) cnt) as [b cnt'].
      destruct IH as (L & C & K & P). repeat split; try assumption.
      intros q m Hin. destruct (P q m Hin) as (j & Hj & ->). exists j. split; [lia|reflexivity].
    + specialize (IH path (S i) (cnt + 1)). destruct (number_children r path (S i) (cnt + 1)) as [b cnt'].
      destruct IH as (L & C & K & P). repeat split.
      * simpl. lia.
      * simpl length. lia.
      * change ((path ++ [i], cnt + 1) :: b) with ([(path ++ [i], cnt + 1)] ++ b).
        apply consecutive_app; [unfold consecutive; simpl; f_equal; lia|].
        simpl length. replace (cnt + N.of_nat 1) with (cnt + 1) by lia. exact K.
      * intros q m [Hin|Hin].
        -- inversion Hin; subst. exists i. split; [lia|reflexivity].
        -- destruct (P q m Hin) as (j & Hj & ->). exists j. split; [lia|reflexivity].
Qed.

(* what alloc_dir t path cnt returns *)
Definition res_ok (t : tnode) (path : list nat) (cnt : N) (r : list (list nat * N) * N) : Prop :=
  let '(l, cnt') := r in
  length l = count_desc t /\ cnt' = cnt + N.of_nat (length l) /\ consecutive cnt l /\
  (forall q m, In (q, m) l -> below path q) /\
  children_before_parents l.

Lemma sub_gen_spec path : forall ch,
  Forall (fun c => forall path cnt, res_ok c path cnt (alloc_dir c path cnt)) ch ->
  forall i cnt,
  let '(a, cnt') := sub_gen alloc_dir path ch i cnt in
  length a = fold_right (fun c acc => (count_desc c + acc)%nat) 0%nat ch /\
  cnt' = cnt + N.of_nat (length a) /\ consecutive cnt a /\
  (forall q m, In (q, m) a -> exists j, (i <= j)%nat /\ below (path ++ [j]) q) /\
  children_before_parents a.
Proof.
  induction 1 as [|c r Hc _ IH]; intros i cnt; cbn [sub_gen fold_right].
  - split; [reflexivity|]. split; [simpl; lia|]. split; [reflexivity|].
    split; [intros q m []|intros p n q m []].
  - specialize (Hc (path ++ [i]) cnt). unfold res_ok in Hc.
    destruct (alloc_dir c (path ++ [i]) cnt) as [a cnt1].
    destruct Hc as (L1 & C1 & K1 & P1 & B1).
    specialize (IH (S i) cnt1).
    change ((fix sub (l : list tnode) (i0 : nat) (cnt0 : N) {struct l} : list (list nat * N) * N :=
               match l with
               | [] => ([], cnt0)
               | c0 :: r0 =>
                 let '(a0, cnt2) := alloc_dir c0 (path ++ [i0]) cnt0 in
                 let '(b, cnt3) := sub r0 (S i0) cnt2 in (a0 ++ b, cnt3)
               end) r (S i) cnt1) with (sub_gen alloc_dir path r (S i) cnt1).
    destruct (sub_gen alloc_dir path r (S i) cnt1) as [b cnt2].
    destruct IH as (L2 & C2 & K2 & P2 & B2).
    repeat split.
    + rewrite app_length. lia.
    + rewrite app_length. lia.
    + apply consecutive_app; [exact K1|]. rewrite <- C1. exact K2.
    + intros q m Hin. apply in_app_or in Hin. destruct Hin as [Hin|Hin].
      * exists i. split; [lia|]. exact (P1 q m Hin).
      * destruct (P2 q m Hin) as (j & Hj & Hb). exists j. split; [lia|exact Hb].
    + intros p n q m Hp Hq Hb.
      apply in_app_or in Hp. apply in_app_or in Hq.
      destruct Hp as [Hp|Hp]; destruct Hq as [Hq|Hq].
      * exact (B1 p n q m Hp Hq Hb).
      * exfalso. destruct (P2 q m Hq) as (j & Hj & Hqb).
        apply (no_cross path i j p q); [left; exact (P1 p n Hp)|left; exact Hqb|lia|exact Hb].
      * exfalso. destruct (P2 p n Hp) as (j & Hj & Hpb).
        apply (no_cross path j i p q); [left; exact Hpb|left; exact (P1 q m Hq)|lia|exact Hb].
      * exact (B2 p n q m Hp Hq Hb).
Qed.

Lemma alloc_dir_spec : forall t path cnt, res_ok t path cnt (alloc_dir t path cnt).
Proof.
  induction t as [h|ch IH] using tnode_ind2; intros path cnt.
  - simpl. split; [reflexivity|]. split; [simpl; lia|]. split; [reflexivity|].
    split; [intros q m []|intros p n q m []].
  - cbn [alloc_dir].
    pose proof (sub_gen_spec path ch IH 0%nat cnt) as S1.
    destruct (sub_gen alloc_dir path ch 0%nat cnt) as [a cnt1].
    destruct S1 as (L1 & C1 & K1 & P1 & B1).
    pose proof (number_children_spec ch path 0%nat cnt1) as S2.
    destruct (number_children ch path 0%nat cnt1) as [b cnt2].
    destruct S2 as (L2 & C2 & K2 & P2).
    unfold res_ok. repeat split.
    + rewrite app_length, L1, L2. cbn [count_desc]. clear.
      induction ch as [|c r IH]; simpl; [reflexivity|]. rewrite count_sub_split. lia.
    + rewrite app_length. lia.
    + apply consecutive_app; [exact K1|]. rewrite <- C1. exact K2.
    + intros q m Hin. apply in_app_or in Hin. destruct Hin as [Hin|Hin].
      * destruct (P1 q m Hin) as (j & _ & Hb). exact (below_app_cons _ _ _ Hb).
      * destruct (P2 q m Hin) as (j & _ & ->). exists [j]. split; [discriminate|reflexivity].
    + intros p n q m Hp Hq Hb.
      apply in_app_or in Hp. apply in_app_or in Hq.
      destruct Hp as [Hp|Hp]; destruct Hq as [Hq|Hq].
      * exact (B1 p n q m Hp Hq Hb).
      * exfalso. destruct (P1 p n Hp) as (j & _ & Hpb). destruct (P2 q m Hq) as (j2 & _ & ->).
        apply below_len in Hb. apply below_len in Hpb. rewrite !app_length in *. simpl in *. lia.
      * (* p is a child, q lies in a sub-directory: q was numbered earlier *)
        destruct (consecutive_bounds _ _ _ _ K1 Hq) as [_ Hm].
        destruct (consecutive_bounds _ _ _ _ K2 Hp) as [Hn _]. lia.
      * exfalso. destruct (P2 p n Hp) as (j & _ & ->). destruct (P2 q m Hq) as (j2 & _ & ->).
        apply below_len in Hb. rewrite !app_length in Hb. simpl in Hb. lia.
Qed.

Lemma count_nodes_desc t : count_nodes t = S (count_desc t).
Proof. destruct t as [h|ch]; reflexivity. Qed.

Theorem numbering_dense_l : forall t,
  let nums := numbering t in
  map snd nums = map N.of_nat (seq 1 (count_nodes t)) /\
  children_before_parents nums.
Proof.
  intro t. cbv zeta. unfold numbering.
  pose proof (alloc_dir_spec t [] 0) as S1. unfold res_ok in S1.
  destruct (alloc_dir t [] 0) as [a cnt]. destruct S1 as (L & C & K & P & B).
  split.
  - rewrite count_nodes_desc, <- L.
    assert (Kc : consecutive 0 (a ++ [([], cnt + 1)])).
    { apply consecutive_app; [exact K|]. unfold consecutive. simpl. f_equal. lia. }
    unfold consecutive in Kc. rewrite Kc, app_length. simpl length.
    replace (length a + 1)%nat with (S (length a)) by lia.
    apply map_ext. intro j. lia.
  - intros p n q m Hp Hq Hb.
    apply in_app_or in Hp. apply in_app_or in Hq.
    destruct Hp as [Hp|[Hp|[]]]; destruct Hq as [Hq|[Hq|[]]].
    + exact (B p n q m Hp Hq Hb).
    + exfalso. inversion Hq; subst. apply below_len in Hb. simpl in Hb. lia.
    + inversion Hp; subst. destruct (consecutive_bounds _ _ _ _ K Hq) as [_ Hm]. lia.
    + exfalso. inversion Hp; subst. inversion Hq; subst. apply below_len in Hb. simpl in Hb. lia.
Qed.
