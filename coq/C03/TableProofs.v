(* C03 — proofs about TableModel.v: lookup table writer, super block, padding. *)
From Coq Require Import List NArith ZArith Lia Bool ZifyBool ZifyNat ZifyN.
From SqfsV Require Import Base.Bytes Gen.Constants C03.GenC03 C03.Common C03.ListN C03.MetaModel
  C03.MetaProofs C03.MetaRT C03.DirModel C03.TableModel.
Import ListNotations.
Local Open Scope N_scope.

(* ------------------------------------------------------------------------------------------ *)
(* padding                                                                                      *)
(* ------------------------------------------------------------------------------------------ *)
Lemma pad_len_ok : forall size blk, 0 < blk ->
  (size + pad_len size blk) mod blk = 0 /\ pad_len size blk < blk.
Proof.
  intros size blk Hb. unfold pad_len.
  assert (Hlt : size mod blk < blk) by (apply N.mod_lt; lia).
  destruct (size mod blk =? 0) eqn:E.
  - apply N.eqb_eq in E. rewrite N.add_0_r. split; [exact E|exact Hb].
  - apply N.eqb_neq in E. split; [|lia].
    pose proof (N.div_mod size blk) as D.
    replace (size + (blk - size mod blk)) with ((size / blk + 1) * blk).
    + apply N.mod_mul. lia.
    + assert (blk <> 0) by lia. specialize (D H). lia.
Qed.

(* ------------------------------------------------------------------------------------------ *)
(* super block                                                                                  *)
(* ------------------------------------------------------------------------------------------ *)
Fixpoint enc_fields (fs : list (nat * N)) : list N :=
  match fs with
  | [] => []
  | (k, v) :: r => le k v ++ enc_fields r
  end.

Fixpoint off_of (fs : list (nat * N)) (i : nat) : N :=
  match i, fs with
  | S i', (k, _) :: r => N.of_nat k + off_of r i'
  | _, _ => 0
  end.

Lemma field_read : forall fs i k v,
  nth_error fs i = Some (k, v) -> v < 256 ^ N.of_nat k ->
  rd k (dropN (off_of fs i) (enc_fields fs)) = v.
Proof.
  induction fs as [|[k0 v0] r IH]; intros i k v Hn Hv.
  - destruct i; discriminate.
  - destruct i as [|i].
    + simpl in Hn. inversion Hn; subst. cbn [off_of enc_fields]. rewrite dropN_0. apply rd_le. exact Hv.
    + simpl in Hn. cbn [off_of enc_fields].
      rewrite dropN_app_ge by (rewrite lenN_le; lia).
      rewrite lenN_le. replace (N.of_nat k0 + off_of r i - N.of_nat k0) with (off_of r i) by lia.
      apply IH; assumption.
Qed.

Lemma enc_fields_len fs : lenN (enc_fields fs) = off_of fs (length fs).
Proof.
  induction fs as [|[k v] r IH]; [reflexivity|]. cbn [enc_fields off_of length].
  rewrite lenN_app, lenN_le, IH. reflexivity.
Qed.

Definition super_fields (s : super) : list (nat * N) :=
  [(4%nat, s_magic s); (4%nat, s_inode_count s); (4%nat, s_mtime s); (4%nat, s_block_size s);
   (4%nat, s_frag_count s); (2%nat, s_comp s); (2%nat, s_block_log s); (2%nat, s_flags s);
   (2%nat, s_id_count s); (2%nat, s_vmaj s); (2%nat, s_vmin s); (8%nat, s_root s);
   (8%nat, s_bytes_used s); (8%nat, s_id_start s); (8%nat, s_xattr_start s); (8%nat, s_inode_start s);
   (8%nat, s_dir_start s); (8%nat, s_frag_start s); (8%nat, s_export_start s)].

Lemma super_write_fields s : super_write s = enc_fields (super_fields s).
Proof.
  unfold super_write, super_fields, le16, le32, le64. cbn [enc_fields].
  rewrite app_nil_r. reflexivity.
Qed.

(* every field fits its on-disk width *)
Definition super_fields_ok (s : super) : Prop :=
  s_magic s < 4294967296 /\ s_inode_count s < 4294967296 /\ s_block_size s < 4294967296 /\
  s_block_log s < 65536 /\ s_id_count s < 65536 /\ s_root s < 18446744073709551616 /\
  s_bytes_used s < 18446744073709551616 /\ s_id_start s < 18446744073709551616 /\
  s_xattr_start s < 18446744073709551616 /\ s_inode_start s < 18446744073709551616 /\
  s_dir_start s < 18446744073709551616 /\ s_frag_start s < 18446744073709551616 /\
  s_export_start s < 18446744073709551616.

Theorem super_write_ok_l : forall s,
  super_fields_ok s ->
  lenN (super_write s) = sizeof_sqfs_super_t /\
  rd32 (dropN off_sqfs_super_t_magic (super_write s)) = s_magic s /\
  rd32 (dropN off_sqfs_super_t_inode_count (super_write s)) = s_inode_count s /\
  rd32 (dropN off_sqfs_super_t_block_size (super_write s)) = s_block_size s /\
  rd16 (dropN off_sqfs_super_t_block_log (super_write s)) = s_block_log s /\
  rd16 (dropN off_sqfs_super_t_id_count (super_write s)) = s_id_count s /\
  rd64 (dropN off_sqfs_super_t_root_inode_ref (super_write s)) = s_root s /\
  rd64 (dropN off_sqfs_super_t_bytes_used (super_write s)) = s_bytes_used s /\
  rd64 (dropN off_sqfs_super_t_id_table_start (super_write s)) = s_id_start s /\
  rd64 (dropN off_sqfs_super_t_xattr_id_table_start (super_write s)) = s_xattr_start s /\
  rd64 (dropN off_sqfs_super_t_inode_table_start (super_write s)) = s_inode_start s /\
  rd64 (dropN off_sqfs_super_t_directory_table_start (super_write s)) = s_dir_start s /\
  rd64 (dropN off_sqfs_super_t_fragment_table_start (super_write s)) = s_frag_start s /\
  rd64 (dropN off_sqfs_super_t_export_table_start (super_write s)) = s_export_start s.
Proof.
  intros s (H1 & H2 & H3 & H4 & H5 & H6 & H7 & H8 & H9 & H10 & H11 & H12 & H13).
  rewrite super_write_fields.
  split; [rewrite enc_fields_len; reflexivity|].
  split; [exact (field_read (super_fields s) 0 4 _ eq_refl H1)|].
  split; [exact (field_read (super_fields s) 1 4 _ eq_refl H2)|].
  split; [exact (field_read (super_fields s) 3 4 _ eq_refl H3)|].
  split; [exact (field_read (super_fields s) 6 2 _ eq_refl H4)|].
  split; [exact (field_read (super_fields s) 8 2 _ eq_refl H5)|].
  split; [exact (field_read (super_fields s) 11 8 _ eq_refl H6)|].
  split; [exact (field_read (super_fields s) 12 8 _ eq_refl H7)|].
  split; [exact (field_read (super_fields s) 13 8 _ eq_refl H8)|].
  split; [exact (field_read (super_fields s) 14 8 _ eq_refl H9)|].
  split; [exact (field_read (super_fields s) 15 8 _ eq_refl H10)|].
  split; [exact (field_read (super_fields s) 16 8 _ eq_refl H11)|].
  split; [exact (field_read (super_fields s) 17 8 _ eq_refl H12)|].
  exact (field_read (super_fields s) 18 8 _ eq_refl H13).
Qed.

(* n & (n - 1) == 0 for n > 0 means n is a power of two *)
Lemma pow2_of_land n : n <> 0 -> N.land n (n - 1) = 0 -> n = 2 ^ N.log2 n.
Proof.
  intros Hn Hl.
  assert (Hpos : 0 < n) by lia.
  destruct (N.log2_spec n Hpos) as [Lo Hi].
  destruct (N.eq_dec n (2 ^ N.log2 n)) as [E|E]; [exact E|]. exfalso.
  assert (L1 : N.log2 (n - 1) = N.log2 n).
  { apply N.log2_unique; [lia|]. split; lia. }
  assert (B1 : N.testbit n (N.log2 n) = true) by (apply N.bit_log2; exact Hn).
  assert (B2 : N.testbit (n - 1) (N.log2 n) = true).
  { rewrite <- L1. apply N.bit_log2. lia. }
  assert (B : N.testbit (N.land n (n - 1)) (N.log2 n) = true) by (rewrite N.land_spec, B1, B2; reflexivity).
  rewrite Hl, N.bits_0 in B. discriminate.
Qed.

Theorem super_init_ok_l : forall bs mtime comp s,
  super_init bs mtime comp = Ok s ->
  s_block_size s = bs /\ bs = 2 ^ s_block_log s /\ c_SQFS_MIN_BLOCK_SIZE <= bs /\ bs <= c_SQFS_MAX_BLOCK_SIZE /\
  s_magic s = c_SQFS_MAGIC /\ s_vmaj s = 4 /\ s_vmin s = 0 /\ s_bytes_used s = sizeof_sqfs_super_t.
Proof.
  intros bs mtime comp s H. unfold super_init in H.
  remember (log_loop 64 bs 0) as lg eqn:Elg.
  destruct (N.land bs (bs - 1) =? 0) eqn:E1; cbn [negb] in H; [|discriminate].
  destruct (bs <? c_SQFS_MIN_BLOCK_SIZE) eqn:E2; [discriminate|].
  destruct (c_SQFS_MAX_BLOCK_SIZE <? bs) eqn:E3; [discriminate|].
  apply N.eqb_eq in E1. apply N.ltb_ge in E2. apply N.ltb_ge in E3.
  injection H as Hs. subst s. cbn [s_block_size s_block_log s_magic s_vmaj s_vmin s_bytes_used].
  assert (Vmin : c_SQFS_MIN_BLOCK_SIZE = 2 ^ 12) by reflexivity.
  assert (Vmax : c_SQFS_MAX_BLOCK_SIZE = 2 ^ 20) by reflexivity.
  split; [reflexivity|]. split; [|repeat split; try assumption; reflexivity].
  assert (Hn : bs <> 0) by (rewrite Vmin in E2; change (2 ^ 12) with 4096 in E2; lia).
  pose proof (pow2_of_land bs Hn E1) as P.
  remember (N.log2 bs) as k eqn:Ek. clear Ek.
  assert (K1 : 12 <= k).
  { apply (N.pow_le_mono_r_iff 2); [lia|]. rewrite <- P, <- Vmin. exact E2. }
  assert (K2 : k <= 20).
  { apply (N.pow_le_mono_r_iff 2); [lia|]. rewrite <- P, <- Vmax. exact E3. }
  assert (Hk : k = 12 \/ k = 13 \/ k = 14 \/ k = 15 \/ k = 16 \/ k = 17 \/ k = 18 \/ k = 19 \/ k = 20) by lia.
  clear E1 E2 E3 Hn K1 K2. subst bs lg.
  destruct Hk as [-> |[-> |[-> |[-> |[-> |[-> |[-> |[-> | ->]]]]]]]]; vm_compute; reflexivity.
Qed.

(* ------------------------------------------------------------------------------------------ *)
(* sqfs_write_table                                                                             *)
(* ------------------------------------------------------------------------------------------ *)
Lemma split_nth {A} (l : list A) k d : (k < length l)%nat ->
  l = firstn k l ++ nth k l d :: skipn (S k) l.
Proof.
  revert k. induction l as [|x l IH]; intros k H; [simpl in H; lia|].
  destruct k; [reflexivity|]. simpl. f_equal. apply IH. simpl in H. lia.
Qed.

Section Table.
  Variable compress : list N -> cres.
  Variable uncompress : list N -> option (list N).
  Hypothesis compress_ok :
    forall b c, compress b = CData c -> lenN c <= lenN b /\ uncompress c = Some b.

  Notation enc := (enc compress).
  Notation Idle := (Idle compress).
  Notation wt_loop := (wt_loop compress).
  Notation write_table := (write_table compress).

  (* where block k of a table lands: everything before it *)
  Definition loc_of (size0 : N) (pre chunks : list (list N)) (k : nat) : N :=
    size0 + lenN (concat (map enc (pre ++ firstn k chunks))).
  Definition table_locs (size0 : N) (chunks : list (list N)) : list N :=
    map (loc_of size0 [] chunks) (seq 0 (length chunks)).

  Lemma disk_out m raws : Idle m raws -> mw_keep m = false -> mw_out m = concat (map enc raws).
  Proof. intros [(A & _) _] K. unfold mw_disk in A. rewrite K in A. exact A. Qed.

  Lemma seq_shift_map {B} (f : nat -> B) n : map f (seq 1 n) = map (fun k => f (S k)) (seq 0 n).
  Proof. rewrite <- seq_shift, map_map. reflexivity. Qed.

  Lemma wt_loop_spec : forall fuel data m raws locs m' locs',
    Idle m raws -> mw_cur m = [] -> mw_keep m = false -> (length data <= fuel)%nat ->
    forall size0, wt_loop fuel m size0 data locs = Ok (m', locs') ->
    exists fulls, Idle m' (raws ++ fulls) /\ Forall full fulls /\ mw_keep m' = false /\
      concat fulls ++ mw_cur m' = data /\
      locs' = locs ++ map (loc_of size0 raws (fulls ++ ne (mw_cur m')))
                          (seq 0 (length (fulls ++ ne (mw_cur m')))).
  Proof.
    induction fuel as [|f IH]; intros data m raws locs m' locs' HI Hc Hk Hf size0 H.
    - destruct data; [|simpl in Hf; lia]. simpl in H. inversion H; subst.
      exists []. rewrite Hc. simpl. rewrite !app_nil_r.
      split; [exact HI|]. split; [constructor|]. split; [exact Hk|]. split; reflexivity.
    - destruct data as [|x d0].
      { simpl in H. inversion H; subst.
        exists []. rewrite Hc. simpl. rewrite !app_nil_r.
      split; [exact HI|]. split; [constructor|]. split; [exact Hk|]. split; reflexivity. }
      remember (x :: d0) as data eqn:Ed. cbn [TableModel.wt_loop] in H. rewrite Ed in H at 1.
      pose proof MB_pos as HP.
      assert (Hd : 0 < lenN data) by (rewrite Ed, lenN_cons; lia).
      set (diff := if lenN data <? MB then lenN data else MB) in *.
      destruct (mw_append compress m (takeN diff data)) as [m1|e|] eqn:A1; try discriminate.
      destruct (append_spec compress uncompress compress_ok _ _ _ _ HI A1)
        as (fulls1 & I1 & F1 & C1 & _ & K1).
      rewrite Hc in C1. simpl in C1. rewrite Hk in K1.
      assert (Lout : size0 + lenN (mw_out m) = loc_of size0 raws [] 0).
      { unfold loc_of. rewrite (disk_out _ _ HI Hk). simpl. rewrite app_nil_r. reflexivity. }
      destruct I1 as [I1 Lt1].
      destruct (lenN data <? MB) eqn:Q.
      + (* last, short chunk: nothing is flushed, the loop ends *)
        apply N.ltb_lt in Q. unfold diff in *.
        rewrite takeN_all in C1, A1 by lia.
        assert (Hd' : dropN (lenN data) data = []).
        { apply lenN_0. rewrite lenN_dropN. lia. }
        rewrite Hd' in H.
        assert (Hnil : forall mm ll, wt_loop f mm size0 [] ll = Ok (mm, ll)) by (intros; destruct f; reflexivity).
        rewrite Hnil in H. injection H as <- <-. simpl app in I1.
        assert (Hf1 : fulls1 = []).
        { destruct fulls1 as [|g r]; [reflexivity|]. exfalso.
          pose proof (Forall_inv F1) as Hg. unfold full in Hg.
          assert (Hll : lenN (concat (g :: r) ++ mw_cur m1) = lenN data) by (rewrite C1; reflexivity).
          simpl in Hll. rewrite !lenN_app in Hll. lia. }
        subst fulls1. simpl in C1. exists []. rewrite app_nil_r in *.
        split; [split; assumption|]. split; [constructor|]. split; [exact K1|].
        split; [exact C1|].
        rewrite C1. assert (NE : ne data = [data]) by (rewrite Ed; reflexivity).
        rewrite NE. simpl. f_equal. f_equal.
        unfold loc_of. simpl. rewrite Lout. unfold loc_of. simpl. reflexivity.
      + (* a full chunk: exactly one block is flushed *)
        apply N.ltb_ge in Q. unfold diff in *.
        assert (Ht : lenN (takeN MB data) = MB) by (rewrite lenN_takeN; lia).
        assert (Hf1 : fulls1 = [takeN MB data] /\ mw_cur m1 = []).
        { assert (Hl : lenN (concat fulls1) + lenN (mw_cur m1) = MB) by (rewrite <- lenN_app, C1; exact Ht).
          destruct fulls1 as [|g [|g2 r]].
          - cbn [concat] in Hl. rewrite ?lenN_nil in Hl. lia.
          - pose proof (Forall_inv F1) as Hg. unfold full in Hg. cbn [concat] in Hl, C1.
            rewrite app_nil_r in Hl, C1. assert (Z : lenN (mw_cur m1) = 0) by lia.
            apply lenN_0 in Z. rewrite Z in *. rewrite app_nil_r in C1. split; [f_equal; exact C1|reflexivity].
          - exfalso. pose proof (Forall_inv F1) as Hg. pose proof (Forall_inv (Forall_inv_tail F1)) as Hg2.
            unfold full in *. cbn [concat] in Hl. rewrite !lenN_app in Hl. lia. }
        destruct Hf1 as [-> Hc1].
        assert (Hlen : (length (dropN MB data) <= f)%nat).
        { assert (lenN (dropN MB data) < lenN data) by (rewrite lenN_dropN; lia).
          unfold lenN in *. lia. }
        destruct (IH _ _ _ _ _ _ (conj I1 Lt1) Hc1 K1 Hlen size0 H) as (fulls & I2 & F2 & K2 & C2 & L2).
        exists (takeN MB data :: fulls).
        split; [rewrite <- app_assoc in I2; exact I2|].
        split; [constructor; [exact Ht|exact F2]|]. split; [exact K2|].
        split; [simpl; rewrite <- app_assoc, C2; apply takeN_dropN|].
        rewrite L2, <- app_assoc. f_equal.
        cbn [app length seq map]. f_equal.
        * rewrite Lout. reflexivity.
        * rewrite seq_shift_map. apply map_ext. intro k. unfold loc_of.
          rewrite <- app_assoc. reflexivity.
  Qed.

  Lemma wt_loop_no_fuel : forall fuel data m raws locs size0,
    Idle m raws -> (length data <= fuel)%nat -> wt_loop fuel m size0 data locs <> Fuel.
  Proof.
    induction fuel as [|f IH]; intros data m raws locs size0 HI Hf.
    - destruct data; [discriminate|simpl in Hf; lia].
    - destruct data as [|x d0]; [discriminate|].
      remember (x :: d0) as data eqn:Ed. cbn [TableModel.wt_loop]. rewrite Ed at 1.
      pose proof MB_pos as HP.
      assert (Hd : 0 < lenN data) by (rewrite Ed, lenN_cons; lia).
      set (diff := if lenN data <? MB then lenN data else MB) in *.
      assert (Hdiff : 0 < diff) by (unfold diff; destruct (lenN data <? MB); lia).
      destruct (mw_append compress m (takeN diff data)) as [m1|e|] eqn:A1; try discriminate.
      + destruct (append_spec compress uncompress compress_ok _ _ _ _ HI A1) as (fulls1 & I1 & _).
        eapply IH; [exact I1|].
        assert (lenN (dropN diff data) < lenN data) by (rewrite lenN_dropN; lia).
        unfold lenN in *. lia.
      + exfalso. exact (append_no_fuel compress uncompress compress_ok _ _ _ HI A1).
  Qed.

  Theorem write_table_ok_l : forall size0 data bytes start,
    write_table size0 data = Ok (bytes, start) ->
    exists chunks,
      concat chunks = data /\
      Forall (fun ch => 0 < lenN ch /\ lenN ch <= MB) chunks /\
      Forall (fun ch => lenN ch = MB) (removelast chunks) /\
      lenN chunks = (lenN data + MB - 1) / MB /\
      bytes = concat (map enc chunks) ++ concat (map le64 (table_locs size0 chunks)) /\
      start = size0 + lenN (concat (map enc chunks)) /\
      forall k, (k < length chunks)%nat ->
        read_block uncompress bytes (nth k (table_locs size0 chunks) 0 - size0)
        = Some (nth k chunks [], stored_size compress (nth k chunks []), is_comp compress (nth k chunks [])).
  Proof.
    intros size0 data bytes start H. unfold TableModel.write_table in H.
    destruct (wt_loop (S (length data)) (mw_init false) size0 data []) as [[m locs]|e|] eqn:L; try discriminate.
    destruct (mw_flush compress m) as [mf|e|] eqn:Fl; try discriminate.
    inversion H; subst bytes start.
    pose proof (init_idle compress false) as I0.
    destruct (wt_loop_spec _ _ _ _ _ _ _ I0 eq_refl eq_refl (Nat.le_succ_diag_r _) _ L)
      as (fulls & I1 & F1 & K1 & C1 & L1).
    simpl app in I1, L1.
    destruct (flush_idle compress uncompress compress_ok _ _ _ I1 Fl) as (If & Cf & Kf & _).
    rewrite K1 in Kf.
    set (chunks := fulls ++ ne (mw_cur m)) in *.
    pose proof (disk_out _ _ If Kf) as Out.
    assert (Hok : Forall blk_ok chunks) by (destruct If as [(_ & _ & R & _) _]; exact R).
    pose proof MB_pos as HP.
    destruct I1 as [I1 Lt1].
    exists chunks.
    split; [unfold chunks; rewrite concat_app, concat_ne; exact C1|].
    split; [exact Hok|].
    split.
    { unfold chunks. destruct (mw_cur m) as [|c0 cr]; simpl ne.
      - rewrite app_nil_r. clear - F1. induction F1 as [|g r Hg F IH]; [constructor|].
        destruct r; [constructor|]. simpl. constructor; [exact Hg|exact IH].
      - rewrite removelast_app by discriminate. simpl. rewrite app_nil_r. exact F1. }
    split.
    { assert (Hl : lenN data = MB * lenN fulls + lenN (mw_cur m)).
      { rewrite <- C1, lenN_app, (lenN_concat_map_const fulls MB F1). reflexivity. }
      unfold chunks. rewrite lenN_app.
      destruct (mw_cur m) as [|c0 cr] eqn:Ec; simpl ne.
      - rewrite ?(@lenN_nil N), ?(@lenN_nil (list N)) in *. rewrite N.add_0_r.
        apply N.div_unique with (r := MB - 1); lia.
      - rewrite lenN_cons, ?(@lenN_nil N), ?(@lenN_nil (list N)). rewrite lenN_cons in Hl, Lt1.
        apply N.div_unique with (r := lenN cr); lia. }
    split; [rewrite Out, L1; reflexivity|].
    split; [rewrite Out; reflexivity|].
    intros k Hk. rewrite Out. unfold table_locs.
    rewrite (nth_indep _ 0 (loc_of size0 [] chunks 0)) by (rewrite map_length, seq_length; exact Hk).
    rewrite map_nth, seq_nth by exact Hk. unfold loc_of. simpl app.
    replace (size0 + lenN (concat (map enc (firstn k chunks))) - size0)
      with (lenN (concat (map enc (firstn k chunks)))) by lia.
    rewrite (split_nth chunks k [] Hk) at 1.
    rewrite map_app, concat_app. cbn [map concat]. rewrite <- !app_assoc.
    apply (read_block_enc compress uncompress compress_ok).
    rewrite Forall_forall in Hok. apply Hok. apply nth_In. exact Hk.
  Qed.

  Theorem write_table_no_fuel_l : forall size0 data, write_table size0 data <> Fuel.
  Proof.
    intros size0 data. unfold TableModel.write_table.
    destruct (wt_loop (S (length data)) (mw_init false) size0 data []) as [[m locs]|e|] eqn:L; try discriminate.
    - destruct (mw_flush compress m) as [mf|e|] eqn:Fl; try discriminate.
      exfalso. exact (flush_no_fuel compress _ Fl).
    - exfalso. eapply wt_loop_no_fuel; [apply (init_idle compress false)| |exact L]. lia.
  Qed.
End Table.
