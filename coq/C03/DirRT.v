(* C03 — directory writer, part 2: the pure description of the emitted listing (runs with their byte
   positions) and its read-back through the independent listing parser of DirModel.v. *)
From Coq Require Import List NArith ZArith Lia Bool ZifyBool ZifyNat ZifyN.
From SqfsV Require Import Base.Bytes Gen.Constants C03.GenC03 C03.Common C03.ListN C03.MetaModel
  C03.MetaProofs C03.DirModel C03.DirProofs.
Import ListNotations.
Local Open Scope N_scope.
Ltac Zify.zify_post_hook ::= Z.div_mod_to_equations.

Definition enc_body (first : dent) (run : list dent) : list N :=
  concat (map (fun it => enc_entry first it ++ de_name it) run).

(* header + entries of one run *)
Definition enc_run (run : list dent) : list N :=
  match run with
  | [] => []
  | first :: _ => enc_header (lenN run) first ++ enc_body first run
  end.

(* the runs of a listing that starts at in-block offset off: (byte position in the listing, entries) *)
Fixpoint hdrs_of (fuel : nat) (off pos : N) (l : list dent) : list (N * list dent) :=
  match l with
  | [] => []
  | _ :: _ =>
    match fuel with
    | O => []
    | S f =>
      let c := gcec off l in
      let run := takeN c l in
      let sz := lenN (enc_run run) in
      (pos, run) :: hdrs_of f ((off + sz) mod MB) (pos + sz) (dropN c l)
    end
  end.

Definition listing_of (hs : list (N * list dent)) : list N := concat (map (fun h => enc_run (snd h)) hs).
Definition listing (off : N) (l : list dent) : list N := listing_of (hdrs_of (length l) off 0 l).

(* representable entries: what fits the on-disk fields (names of 1 .. 65536 bytes; the property's
   quantifier, names of 1 .. 256 bytes, is inside this) *)
Definition dent_ok (e : dent) : Prop :=
  1 <= lenN (de_name e) /\ lenN (de_name e) <= 65536 /\
  de_ref e < 281474976710656 /\ de_num e < 4294967296 /\ de_type e < 65536.

Lemma lenN_enc_header c r : lenN (enc_header c r) = 12.
Proof. unfold enc_header. rewrite !lenN_app. unfold le32. rewrite !lenN_le. reflexivity. Qed.

Lemma lenN_enc_entry f it : lenN (enc_entry f it) = 8.
Proof. unfold enc_entry. rewrite !lenN_app. unfold le16. rewrite !lenN_le. reflexivity. Qed.

Lemma lenN_enc_body first run : lenN (enc_body first run) = run_bytes run.
Proof.
  unfold enc_body. induction run as [|it r IH]; [reflexivity|].
  cbn [map concat]. change (run_bytes (it :: r)) with (ent_bytes it + run_bytes r).
  rewrite !lenN_app, IH, lenN_enc_entry. unfold ent_bytes. rewrite ENT_SZ_val. lia.
Qed.

Lemma lenN_enc_run run : run <> [] -> lenN (enc_run run) = 12 + run_bytes run.
Proof.
  destruct run as [|first r]; [congruence|]. intros _. unfold enc_run.
  rewrite lenN_app, lenN_enc_header, lenN_enc_body. reflexivity.
Qed.

(* ---- arithmetic of the 16 bit inode number delta ---- *)
Lemma delta_rt a b :
  a < 4294967296 -> b < 4294967296 ->
  (-32767 <= s32_diff a b <= 32767)%Z ->
  Z.to_N ((Z.of_N b + sext16 ((a + U32 - b) mod 65536)) mod 4294967296)%Z = a.
Proof.
  intros Ha Hb. unfold s32_diff, sext16. rewrite U32_val.
  destruct ((a + 4294967296 - b) mod 4294967296 <? 2147483648) eqn:E1;
  destruct ((a + 4294967296 - b) mod 65536 <? 32768) eqn:E2; intro H; lia.
Qed.

Lemma ref_rt r f : r / U16 = f / U16 -> f / U16 * U16 + r mod U16 = r.
Proof. rewrite U16_val. intro H. rewrite <- H. lia. Qed.

(* ---- decoding one entry ---- *)
Lemma entry_fields a b c d rest :
  let l := le16 a ++ le16 b ++ le16 c ++ le16 d ++ rest in
  rd16 l = a mod 65536 /\ rd16 (dropN 2 l) = b mod 65536 /\ rd16 (dropN 4 l) = c mod 65536 /\
  rd16 (dropN 6 l) = d mod 65536 /\ dropN 8 l = rest /\ lenN l = 8 + lenN rest.
Proof.
  cbv zeta. unfold le16, le, rd16, dropN.
  change (N.to_nat 2) with 2%nat. change (N.to_nat 4) with 4%nat.
  change (N.to_nat 6) with 6%nat. change (N.to_nat 8) with 8%nat.
  cbn [app skipn rd]. repeat split; try lia. rewrite !lenN_cons. lia.
Qed.

Lemma header_fields a b c rest :
  let l := le32 a ++ le32 b ++ le32 c ++ rest in
  rd32 l = a mod 4294967296 /\ rd32 (dropN 4 l) = b mod 4294967296 /\ rd32 (dropN 8 l) = c mod 4294967296 /\
  dropN 12 l = rest /\ lenN l = 12 + lenN rest.
Proof.
  cbv zeta. unfold le32, le, rd32, dropN.
  change (N.to_nat 4) with 4%nat. change (N.to_nat 8) with 8%nat. change (N.to_nat 12) with 12%nat.
  cbn [app skipn rd]. repeat split; try lia. rewrite !lenN_cons. lia.
Qed.

Lemma parse_entries_rt first : de_ref first < 281474976710656 -> de_num first < 4294967296 ->
  forall run tl, Forall dent_ok run -> Forall (run_member_ok first) run ->
  parse_entries (length run) (de_ref first / U16) (de_num first) (enc_body first run ++ tl) = Some (run, tl).
Proof.
  intros Hfr Hfn. induction run as [|it r IH]; intros tl Hok Hrun.
  - reflexivity.
  - inversion Hok as [|? ? (N1 & N2 & R & Nu & Ty) Hok']; subst.
    inversion Hrun as [|? ? (Sb & Dl) Hrun']; subst.
    unfold enc_body. cbn [map concat]. fold (enc_body first r).
    cbn [parse_entries length]. unfold enc_entry. rewrite <- !app_assoc.
    set (rest := de_name it ++ enc_body first r ++ tl).
    destruct (entry_fields (de_ref it mod U16) (de_num it + U32 - de_num first) (de_type it)
                (lenN (de_name it) - 1) rest) as (F1 & F2 & F3 & F4 & F5 & F6).
    cbv zeta in F1, F2, F3, F4, F5, F6.
    rewrite F1, F2, F3, F4, F5, F6.
    assert (L8 : 8 + lenN rest <? 8 = false) by (apply N.ltb_ge; lia). rewrite L8.
    assert (Hn : (lenN (de_name it) - 1) mod 65536 + 1 = lenN (de_name it)) by lia.
    rewrite Hn.
    assert (L2 : lenN rest <? lenN (de_name it) = false).
    { apply N.ltb_ge. unfold rest. rewrite lenN_app. lia. }
    rewrite L2. unfold rest.
    rewrite takeN_app_exact by reflexivity. rewrite dropN_app_exact by reflexivity.
    rewrite IH by assumption.
    rewrite (delta_rt _ _ Nu Hfn Dl).
    rewrite (N.mod_small (de_type it)) by lia.
    assert (Hoff : (de_ref it mod U16) mod 65536 = de_ref it mod U16).
    { rewrite U16_val. rewrite N.mod_mod by discriminate. reflexivity. }
    rewrite Hoff. rewrite (ref_rt _ _ Sb).
    destruct it; reflexivity.
Qed.

(* ---- the runs ---- *)
Definition mk_rhdr (h : N * list dent) : rhdr * list dent :=
  match snd h with
  | [] => (mkRhdr 0 0 0 (fst h), [])
  | first :: _ => (mkRhdr (lenN (snd h)) (de_ref first / U16) (de_num first) (fst h), snd h)
  end.

Definition run_ok (run : list dent) : Prop :=
  match run with
  | [] => False
  | first :: _ => lenN run <= MAX_ENT /\ Forall (run_member_ok first) run
  end.

Lemma hdrs_of_spec : forall f off pos l, (length l <= f)%nat ->
  concat (map snd (hdrs_of f off pos l)) = l /\ Forall (fun h => run_ok (snd h)) (hdrs_of f off pos l).
Proof.
  induction f as [|f IH]; intros off pos l Hf.
  - destruct l; [split; [reflexivity|constructor]|simpl in Hf; lia].
  - destruct l as [|head rest]; [split; [reflexivity|constructor]|].
    cbn [hdrs_of]. cbv zeta.
    destruct (gcec_spec off head rest) as (G1 & G2 & G3 & G4 & _). cbv zeta in G1, G2, G3, G4.
    set (c := gcec off (head :: rest)) in *.
    assert (Hlen : (length (dropN c (head :: rest)) <= f)%nat).
    { assert (lenN (dropN c (head :: rest)) < lenN (head :: rest)) by (rewrite lenN_dropN; lia).
      unfold lenN in *. simpl in Hf. simpl length in *. lia. }
    destruct (IH ((off + lenN (enc_run (takeN c (head :: rest)))) mod MB)
                 (pos + lenN (enc_run (takeN c (head :: rest)))) _ Hlen) as [I1 I2].
    split.
    + cbn [map concat snd]. rewrite I1. apply takeN_dropN.
    + constructor; [|exact I2]. cbn [snd].
      assert (Ht : exists t, takeN c (head :: rest) = head :: t).
      { unfold takeN. destruct (N.to_nat c) eqn:E; [lia|]. simpl. eexists. reflexivity. }
      destruct Ht as (t & Ht). rewrite Ht in *. unfold run_ok. split; [|exact G4].
      rewrite <- Ht, lenN_takeN. lia.
Qed.

Lemma hdrs_of_pos : forall f off pos l, (length l <= f)%nat ->
  forall pre h post, hdrs_of f off pos l = pre ++ h :: post ->
  fst h = pos + lenN (listing_of pre).
Proof.
  induction f as [|f IH]; intros off pos l Hf pre h post E.
  - destruct l; simpl in E; destruct pre; discriminate.
  - destruct l as [|head rest]; [destruct pre; discriminate|].
    cbn [hdrs_of] in E. cbv zeta in E.
    destruct pre as [|p0 pre].
    + simpl in E. inversion E; subst. cbn [fst]. unfold listing_of. simpl. rewrite lenN_nil. lia.
    + simpl in E. inversion E as [[E1 E2]]. subst p0.
      destruct (gcec_spec off head rest) as (G1 & _ & G3 & _). cbv zeta in G1, G3.
      set (c := gcec off (head :: rest)) in *.
      assert (Hlen : (length (dropN c (head :: rest)) <= f)%nat).
      { assert (lenN (dropN c (head :: rest)) < lenN (head :: rest)) by (rewrite lenN_dropN; lia).
        unfold lenN in *. simpl in Hf. simpl length in *. lia. }
      rewrite (IH _ _ _ Hlen _ _ _ E2).
      unfold listing_of. cbn [map concat snd]. rewrite lenN_app. lia.
Qed.

Lemma parse_listing_rt : forall f off pos l fuel,
  (length l <= f)%nat -> (length l <= fuel)%nat -> Forall dent_ok l ->
  parse_listing fuel pos (listing_of (hdrs_of f off pos l)) = Some (map mk_rhdr (hdrs_of f off pos l)).
Proof.
  induction f as [|f IH]; intros off pos l fuel Hf Hfuel Hok.
  - destruct l; [|simpl in Hf; lia]. destruct fuel; reflexivity.
  - destruct l as [|head rest]; [destruct fuel; reflexivity|].
    cbn [hdrs_of]. cbv zeta.
    destruct (gcec_spec off head rest) as (G1 & G2 & G3 & G4 & _). cbv zeta in G1, G2, G3, G4.
    set (c := gcec off (head :: rest)) in *.
    assert (Ht : exists t, takeN c (head :: rest) = head :: t).
    { unfold takeN. destruct (N.to_nat c) eqn:E; [lia|]. simpl. eexists. reflexivity. }
    destruct Ht as (t & Ht).
    assert (Hlr : lenN (takeN c (head :: rest)) = c) by (rewrite lenN_takeN; lia).
    assert (Hokrun : Forall dent_ok (takeN c (head :: rest))).
    { rewrite <- (takeN_dropN c (head :: rest)) in Hok. apply Forall_app in Hok. apply Hok. }
    assert (Hokrest : Forall dent_ok (dropN c (head :: rest))).
    { rewrite <- (takeN_dropN c (head :: rest)) in Hok. apply Forall_app in Hok. apply Hok. }
    assert (Hlen : (length (dropN c (head :: rest)) < length (head :: rest))%nat).
    { assert (lenN (dropN c (head :: rest)) < lenN (head :: rest)) by (rewrite lenN_dropN; lia).
      unfold lenN in *. lia. }
    inversion Hok as [|? ? (N1 & N2 & R & Nu & Ty) _]; subst.
    destruct fuel as [|fuel]; [simpl in Hfuel; lia|].
    remember (lenN (enc_run (takeN c (head :: rest)))) as sz eqn:Esz.
    unfold listing_of. cbn [map concat snd].
    fold (listing_of (hdrs_of f ((off + sz) mod MB) (pos + sz) (dropN c (head :: rest)))).
    set (tl := listing_of _).
    pose proof MAX_ENT_le_256 as H256.
    rewrite Ht in *. cbn [enc_run] in *. unfold enc_header. rewrite <- !app_assoc.
    destruct (header_fields (lenN (head :: t) - 1) (de_ref head / U16) (de_num head)
                (enc_body head (head :: t) ++ tl)) as (F1 & F2 & F3 & F4 & F5).
    cbv zeta in F1, F2, F3, F4, F5.
    remember (le32 (lenN (head :: t) - 1) ++ le32 (de_ref head / U16) ++ le32 (de_num head) ++
              enc_body head (head :: t) ++ tl) as bytes eqn:Eb.
    assert (Hne : exists b0 br, bytes = b0 :: br).
    { rewrite Eb. unfold le32, le. cbn [app]. eexists. eexists. reflexivity. }
    destruct Hne as (b0 & br & Hne). rewrite Hne. cbn [parse_listing]. rewrite <- Hne.
    rewrite F1, F2, F3, F4, F5.
    assert (L12 : 12 + lenN (enc_body head (head :: t) ++ tl) <? 12 = false) by (apply N.ltb_ge; lia).
    rewrite L12.
    assert (Hc : (lenN (head :: t) - 1) mod 4294967296 + 1 = lenN (head :: t)) by lia.
    rewrite Hc.
    assert (L256 : 256 <? lenN (head :: t) = false) by (apply N.ltb_ge; lia). rewrite L256.
    replace (N.to_nat (lenN (head :: t))) with (length (head :: t)) by (unfold lenN; lia).
    assert (Hs : (de_ref head / U16) mod 4294967296 = de_ref head / U16).
    { apply N.mod_small. rewrite U16_val. lia. }
    rewrite Hs, (N.mod_small (de_num head)) by lia.
    rewrite (parse_entries_rt head R Nu (head :: t) tl Hokrun G4).
    assert (Hpos : pos + (12 + lenN (enc_body head (head :: t) ++ tl) - lenN tl) = pos + sz).
    { rewrite Esz, !lenN_app, lenN_enc_header. lia. }
    rewrite Hpos. unfold tl.
    assert (Hl1 : (length (dropN c (head :: rest)) <= f)%nat) by (simpl length in *; lia).
    assert (Hl2 : (length (dropN c (head :: rest)) <= fuel)%nat) by (simpl length in *; lia).
    rewrite (IH _ _ _ _ Hl1 Hl2 Hokrest).
    reflexivity.
Qed.

(* dir_runs_ok, pure part: for every entry list of representable entries, starting at any in-block
   offset, the emitted listing parses back to exactly the entries, and every run obeys the limits *)
Theorem dir_listing_rt_l : forall off l,
  Forall dent_ok l ->
  let hs := hdrs_of (length l) off 0 l in
  parse_listing (length l) 0 (listing off l) = Some (map mk_rhdr hs) /\
  concat (map snd hs) = l /\
  Forall (fun h => run_ok (snd h)) hs /\
  (forall pre h post, hs = pre ++ h :: post -> fst h = lenN (listing_of pre)).
Proof.
  intros off l Hok hs. unfold hs, listing.
  split; [apply parse_listing_rt; auto|].
  destruct (hdrs_of_spec (length l) off 0 l (Nat.le_refl _)) as [A B].
  split; [exact A|]. split; [exact B|].
  intros pre h post E. rewrite (hdrs_of_pos _ _ _ _ (Nat.le_refl _) _ _ _ E). lia.
Qed.
