(* C03 — executable models of lib/sqfs/src/write_table.c, the export table writer of dir_writer.c,
   lib/sqfs/src/super.c / write_super.c and the layout part of lib/common/src/writer/finish.c
   (definitions only).  The output file is modelled by its size before the call (size0) and the bytes the
   call appends (every write in these functions goes to file->get_size(), i.e. appends; the super block is
   the only write at a fixed offset). *)
From Coq Require Import List NArith ZArith Bool.
From SqfsV Require Import Base.Bytes Gen.Constants C03.GenC03 C03.Common C03.MetaModel C03.DirModel.
Import ListNotations.
Local Open Scope N_scope.

Section Table.
  Variable compress : list N -> cres.
  Notation mw_append := (mw_append compress).
  Notation mw_flush := (mw_flush compress).

  (* while (table_size > 0) { locations[blkidx++] = get_size(); append min(8192, rest) } *)
  Fixpoint wt_loop (fuel : nat) (m : mw) (size0 : N) (data : list N) (locs : list N)
    : res (mw * list N) :=
    match data with
    | [] => Ok (m, locs)
    | _ :: _ =>
      match fuel with
      | O => Fuel
      | S f =>
        let loc := size0 + lenN (mw_out m) in
        let diff := if lenN data <? MB then lenN data else MB in
        match mw_append m (takeN diff data) with
        | Ok m1 => wt_loop f m1 size0 (dropN diff data) (locs ++ [loc])
        | Err e => Err e
        | Fuel => Fuel
        end
      end
    end.

  (* sqfs_write_table: (bytes appended to the file, *start) *)
  Definition write_table (size0 : N) (data : list N) : res (list N * N) :=
    match wt_loop (S (length data)) (mw_init false) size0 data [] with
    | Ok (m, locs) =>
      match mw_flush m with
      | Ok m' => Ok (mw_out m' ++ concat (map le64 locs), size0 + lenN (mw_out m'))
      | Err e => Err e
      | Fuel => Fuel
      end
    | Err e => Err e
    | Fuel => Fuel
    end.

  (* sqfs_dir_writer_write_export_table: (bytes appended, Some (export_table_start) if a table was written).
     The array holds native sqfs_u64 values; the model is for a little-endian host. *)
  Definition dw_write_export_table (w : dw) (size0 root_num root_ref : N)
    : res (dw * list N * option N) :=
    match export_add (dw_export w) root_num root_ref with
    | Ok None => Ok (w, [], None)
    | Ok (Some l) =>
      let w' := mkDw (dw_list w) (dw_idx w) (dw_ref w) (dw_size w) (dw_count w) (dw_dm w) (Some l) in
      match write_table size0 (concat (map le64 l)) with
      | Ok (bytes, start) => Ok (w', bytes, Some start)
      | Err e => Err e
      | Fuel => Fuel
      end
    | Err e => Err e                 (* "if (ret) return ret;" (was "return 0" before fix 12b5ab1) *)
    | Fuel => Fuel
    end.
End Table.

(* ---- super block ---- *)
Record super : Type := mkSuper {
  s_magic : N; s_inode_count : N; s_mtime : N; s_block_size : N; s_frag_count : N;
  s_comp : N; s_block_log : N; s_flags : N; s_id_count : N; s_vmaj : N; s_vmin : N;
  s_root : N; s_bytes_used : N; s_id_start : N; s_xattr_start : N; s_inode_start : N;
  s_dir_start : N; s_frag_start : N; s_export_start : N
}.

(* for (i = block_size; i != 0x01; i >>= 1) block_log += 1;   (unsigned int i) *)
Fixpoint log_loop (fuel : nat) (i acc : N) : N :=
  if i =? 1 then acc else
  match fuel with
  | O => acc
  | S f => log_loop f (i / 2) (acc + 1)
  end.

Definition super_init (block_size mtime comp : N) : res super :=
  if negb (N.land block_size (block_size - 1) =? 0) then Err c_SQFS_ERROR_SUPER_BLOCK_SIZE else
  if block_size <? c_SQFS_MIN_BLOCK_SIZE then Err c_SQFS_ERROR_SUPER_BLOCK_SIZE else
  if c_SQFS_MAX_BLOCK_SIZE <? block_size then Err c_SQFS_ERROR_SUPER_BLOCK_SIZE else
  Ok (mkSuper c_SQFS_MAGIC 0 mtime block_size 0 comp (log_loop 64 block_size 0)
        (N.lor (N.lor c_SQFS_FLAG_NO_FRAGMENTS c_SQFS_FLAG_NO_XATTRS) c_SQFS_FLAG_NO_DUPLICATES)
        0 c_SQFS_VERSION_MAJOR c_SQFS_VERSION_MINOR 0 sizeof_sqfs_super_t
        U64MAX U64MAX U64MAX U64MAX U64MAX U64MAX).

(* sqfs_super_write: the 96 bytes written at offset 0 *)
Definition super_write (s : super) : list N :=
  le32 (s_magic s) ++ le32 (s_inode_count s) ++ le32 (s_mtime s) ++ le32 (s_block_size s) ++
  le32 (s_frag_count s) ++ le16 (s_comp s) ++ le16 (s_block_log s) ++ le16 (s_flags s) ++
  le16 (s_id_count s) ++ le16 (s_vmaj s) ++ le16 (s_vmin s) ++ le64 (s_root s) ++
  le64 (s_bytes_used s) ++ le64 (s_id_start s) ++ le64 (s_xattr_start s) ++ le64 (s_inode_start s) ++
  le64 (s_dir_start s) ++ le64 (s_frag_start s) ++ le64 (s_export_start s).

(* padd_sqfs: number of zero bytes appended after bytes_used *)
Definition pad_len (size blocksize : N) : N :=
  let p := size mod blocksize in
  if p =? 0 then 0 else blocksize - p.
