(* C03 — the toy compressor of the component harness meets the compressor contract (modes 0 and 1):
   the hypotheses of the meta/directory writer theorems are satisfiable by a real function pair. *)
From Coq Require Import List NArith ZArith Lia Bool ZifyBool ZifyNat ZifyN.
From SqfsV Require Import Base.Bytes C03.Common C03.ListN C03.MetaModel.
Import ListNotations.
Local Open Scope N_scope.

Lemma forallb_eq_repeat x r : forallb (N.eqb x) r = true -> r = repeat x (length r).
Proof.
  induction r as [|y r IH]; simpl; [reflexivity|]. intro H. apply andb_true_iff in H.
  destruct H as [H1 H2]. apply N.eqb_eq in H1. subst y. f_equal. apply IH. exact H2.
Qed.

Theorem toy_contract : forall mode, mode <= 1 ->
  forall b c, toy_compress mode b = CData c -> lenN c <= lenN b /\ toy_uncompress c = Some b.
Proof.
  intros mode Hm b c H.
  assert (M : mode = 0 \/ mode = 1) by lia. destruct M as [-> | ->]; [discriminate|].
  unfold toy_compress in H. destruct b as [|x r]; [discriminate|].
  destruct ((5 <=? lenN (x :: r)) && (lenN (x :: r) <? 16777216) && forallb (N.eqb x) r) eqn:E;
    [|discriminate].
  apply andb_true_iff in E. destruct E as [E E3]. apply andb_true_iff in E. destruct E as [E1 E2].
  apply N.leb_le in E1. apply N.ltb_lt in E2. inversion H; subst c. split.
  - rewrite !lenN_cons in *. rewrite lenN_nil. lia.
  - cbn [le toy_uncompress].
    assert (R : rd 3 [lenN (x :: r) mod 256; lenN (x :: r) / 256 mod 256; lenN (x :: r) / 256 / 256 mod 256]
                = lenN (x :: r)).
    { pose proof (rd_le 3 (lenN (x :: r)) []) as Q. cbn [le app] in Q. apply Q. simpl. exact E2. }
    rewrite R. f_equal. unfold lenN. rewrite Nat2N.id. simpl. f_equal. symmetry.
    apply forallb_eq_repeat. exact E3.
Qed.
