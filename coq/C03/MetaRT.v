(* C03 — meta writer: operation sequences, recorded positions, read-back and block invariants. *)
From Coq Require Import List NArith ZArith Lia Bool ZifyBool ZifyNat ZifyN.
From SqfsV Require Import Base.Bytes Gen.Constants C03.Common C03.ListN C03.MetaModel C03.MetaProofs.
Import ListNotations.
Local Open Scope N_scope.

Definition appended (ops : list mop) : list N :=
  concat (map (fun o => match o with MAppend d => d | MFlush => [] end) ops).

Definition no_flush (ops : list mop) : Prop :=
  Forall (fun o => match o with MAppend _ => True | MFlush => False end) ops.

Lemma appended_app a b : appended (a ++ b) = appended a ++ appended b.
Proof. unfold appended. rewrite map_app, concat_app. reflexivity. Qed.

Section RT.
  Variable compress : list N -> cres.
  Variable uncompress : list N -> option (list N).
  Hypothesis compress_ok :
    forall b c, compress b = CData c -> lenN c <= lenN b /\ uncompress c = Some b.

  Notation enc := (enc compress).
  Notation Inv := (Inv compress).
  Notation Idle := (Idle compress).
  Notation stored_size := (stored_size compress).
  Notation is_comp := (is_comp compress).
  Notation mw_flush := (mw_flush compress).
  Notation mw_append := (mw_append compress).
  Notation mw_run := (mw_run compress).
  Notation read_block := (read_block uncompress).
  Notation meta_read := (meta_read uncompress).
  Notation parse_blocks := (parse_blocks uncompress).

  Lemma concat_ne c : concat (ne c) = c.
  Proof. destruct c; simpl; [reflexivity|]. rewrite app_nil_r. reflexivity. Qed.

  (* ---- every operation sequence preserves the representation ---- *)
  Lemma run_spec : forall ops m raws m',
    Idle m raws -> mw_run m ops = Ok m' ->
    exists raws', Idle m' raws' /\ ext raws (mw_cur m) raws' (mw_cur m') /\
      concat raws' ++ mw_cur m' = concat raws ++ mw_cur m ++ appended ops /\
      mw_keep m' = mw_keep m /\
      (no_flush ops -> exists fulls, raws' = raws ++ fulls /\ Forall full fulls).
  Proof.
    induction ops as [|o ops IH]; intros m raws m' HI H.
    - simpl in H. inversion H; subst m'. exists raws.
      split; [assumption|]. split; [apply ext_refl|]. split; [|split; [reflexivity|]].
      + unfold appended. simpl. rewrite app_nil_r. reflexivity.
      + intros _. exists []. rewrite app_nil_r. split; [reflexivity|constructor].
    - cbn [MetaModel.mw_run] in H.
      destruct (mw_step compress m o) as [m1|e|] eqn:S1; try discriminate.
      destruct o as [d|]; cbn [mw_step] in S1.
      + destruct (append_spec compress uncompress compress_ok _ _ _ _ HI S1)
          as (fulls & I1 & F1 & C1 & E1 & K1).
        destruct (IH _ _ _ I1 H) as (raws' & I2 & E2 & C2 & K2 & NF2).
        exists raws'. split; [assumption|]. split; [eapply ext_trans; eassumption|].
        split; [|split; [congruence|]].
        * rewrite C2. change (appended (MAppend d :: ops)) with (d ++ appended ops).
          rewrite concat_app, <- !app_assoc. f_equal.
          rewrite !app_assoc. f_equal. exact C1.
        * intro NF. inversion NF; subst. destruct (NF2 H3) as (f2 & -> & Hf2).
          exists (fulls ++ f2). rewrite app_assoc. split; [reflexivity|].
          apply Forall_app. split; assumption.
      + destruct (flush_idle compress uncompress compress_ok _ _ _ HI S1) as (I1 & C1 & K1 & E1).
        destruct (IH _ _ _ I1 H) as (raws' & I2 & E2 & C2 & K2 & NF2).
        exists raws'. split; [assumption|]. split; [eapply ext_trans; eassumption|].
        split; [|split; [congruence|]].
        * rewrite C2, C1. change (appended (MFlush :: ops)) with (appended ops).
          rewrite concat_app, concat_ne, <- !app_assoc. reflexivity.
        * intro NF. inversion NF; subst. contradiction.
  Qed.

  Lemma run_app : forall a b m mf,
    mw_run m (a ++ b) = Ok mf -> exists mm, mw_run m a = Ok mm /\ mw_run mm b = Ok mf.
  Proof.
    induction a as [|o a IH]; intros b m mf H.
    - exists m. split; [reflexivity|exact H].
    - simpl in H |- *. destruct (mw_step compress m o) as [m1|e|]; try discriminate.
      apply IH. exact H.
  Qed.

  Lemma run_no_fuel : forall ops m raws, Idle m raws -> mw_run m ops <> Fuel.
  Proof.
    induction ops as [|o ops IH]; intros m raws HI; [discriminate|].
    cbn [MetaModel.mw_run].
    destruct (mw_step compress m o) as [m1|e|] eqn:S1; try discriminate.
    - destruct o as [d|]; cbn [mw_step] in S1.
      + destruct (append_spec compress uncompress compress_ok _ _ _ _ HI S1) as (fulls & I1 & _).
        eapply IH; eassumption.
      + destruct (flush_idle compress uncompress compress_ok _ _ _ HI S1) as (I1 & _).
        eapply IH; eassumption.
    - exfalso. destruct o as [d|]; cbn [mw_step] in S1.
      + exact (append_no_fuel compress uncompress compress_ok _ _ _ HI S1).
      + exact (flush_no_fuel compress _ S1).
  Qed.

  (* ---- recorded positions ---- *)
  (* position p = (block byte offset, offset in block) denotes logical stream offset L *)
  Definition pos_ok (raws : list (list N)) (cur : list N) (p : N * N) (L : N) : Prop :=
    exists k, (k <= length raws)%nat /\
      fst p = lenN (concat (map enc (firstn k raws))) /\
      L = lenN (concat (firstn k raws)) + snd p /\
      snd p <= lenN (nth k (raws ++ [cur]) []).

  Lemma pos_ok_here m raws :
    Idle m raws -> pos_ok raws (mw_cur m) (mw_position m) (lenN (concat raws) + lenN (mw_cur m)).
  Proof.
    intros [(A & B & _ & _ & _ & _ & O) _]. exists (length raws). unfold mw_position. cbn [fst snd].
    rewrite firstn_all. split; [lia|]. split; [exact B|]. split; [rewrite O; reflexivity|].
    rewrite app_nth2 by lia. rewrite Nat.sub_diag. simpl. lia.
  Qed.

  Lemma ext_prefix raws cur raws' cur' :
    ext raws cur raws' cur' ->
    exists t, raws' = raws ++ t /\ exists x, nth (length raws) (raws' ++ [cur']) [] = cur ++ x.
  Proof.
    intros (x & rest & H).
    assert (N1 : nth (length raws) (raws' ++ [cur']) [] = cur ++ x).
    { rewrite H. rewrite app_nth2 by lia. rewrite Nat.sub_diag. reflexivity. }
    destruct rest as [|b rest0 _] using rev_ind.
    - apply app_inj_tail in H. destruct H as [-> ->]. exists []. rewrite app_nil_r.
      split; [reflexivity|]. exists x. exact N1.
    - change (raws ++ (cur ++ x) :: rest0 ++ [b]) with (raws ++ ((cur ++ x) :: rest0) ++ [b]) in H.
      rewrite app_assoc in H. apply app_inj_tail in H. destruct H as [-> <-].
      exists ((cur ++ x) :: rest0). split; [reflexivity|]. exists x. exact N1.
  Qed.

  Lemma pos_ok_ext raws cur raws' cur' p L :
    ext raws cur raws' cur' -> pos_ok raws cur p L -> pos_ok raws' cur' p L.
  Proof.
    intros E (k & Hk & P1 & P2 & P3).
    destruct (ext_prefix _ _ _ _ E) as (t & -> & x & Hn).
    exists k. rewrite app_length. split; [lia|].
    assert (F : firstn k (raws ++ t) = firstn k raws).
    { rewrite firstn_app. replace (k - length raws)%nat with 0%nat by lia. simpl. apply app_nil_r. }
    rewrite F. split; [assumption|]. split; [assumption|].
    destruct (Nat.eq_dec k (length raws)) as [->|Hne].
    - rewrite Hn. rewrite app_nth2, Nat.sub_diag in P3 by lia. simpl in P3.
      rewrite lenN_app. lia.
    - rewrite <- app_assoc. rewrite app_nth1 by lia. rewrite app_nth1 in P3 by lia. exact P3.
  Qed.

  (* ---- the independent reader on encoded block sequences ---- *)
  Lemma read_block_enc pre r post :
    blk_ok r -> read_block (pre ++ enc r ++ post) (lenN pre) = Some (r, stored_size r, is_comp r).
  Proof.
    intro OK. pose proof MB_small as HS. pose proof FLAG_val as HF.
    pose proof (enc_len compress uncompress compress_ok r OK) as EL.
    unfold MetaModel.read_block. rewrite dropN_app_exact by reflexivity.
    destruct OK as [Hp Hm].
    destruct (enc_cases compress uncompress compress_ok r (conj Hp Hm))
      as [[IC (c & Ec & Nc & E & L & U)]|[IC E]]; rewrite IC.
    - rewrite E in *. rewrite <- app_assoc.
      assert (Hl : lenN (le16 (lenN c) ++ c ++ post) <? 2 = false).
      { apply N.ltb_ge. rewrite lenN_app. unfold le16. rewrite lenN_le. lia. }
      rewrite Hl. rewrite rd16_le16_app by lia. rewrite (N.mod_small (lenN c)) by lia.
      rewrite dropN_app_exact by (unfold le16; rewrite lenN_le; reflexivity).
      rewrite takeN_app_exact by reflexivity.
      rewrite N.ltb_irrefl.
      assert (Hf : META_FLAG <=? lenN c = false) by (apply N.leb_gt; lia).
      rewrite Hf, U.
      replace (stored_size r) with (lenN c); [reflexivity|].
      rewrite lenN_app in EL. unfold le16 in EL. rewrite lenN_le in EL. lia.
    - rewrite E in *. rewrite <- app_assoc.
      assert (Hl : lenN (le16 (lenN r + META_FLAG) ++ r ++ post) <? 2 = false).
      { apply N.ltb_ge. rewrite lenN_app. unfold le16. rewrite lenN_le. lia. }
      rewrite Hl. rewrite rd16_le16_app by lia.
      replace ((lenN r + META_FLAG) mod META_FLAG) with (lenN r) by (rewrite HF in *; lia).
      rewrite dropN_app_exact by (unfold le16; rewrite lenN_le; reflexivity).
      rewrite takeN_app_exact by reflexivity.
      rewrite N.ltb_irrefl.
      assert (Hf : META_FLAG <=? lenN r + META_FLAG = true) by (apply N.leb_le; lia).
      rewrite Hf.
      replace (stored_size r) with (lenN r); [reflexivity|].
      rewrite lenN_app in EL. unfold le16 in EL. rewrite lenN_le in EL. lia.
  Qed.

  Lemma meta_read_spec : forall rest pre off n fuel,
    Forall blk_ok rest -> off <= lenN (hd [] rest) -> off + n <= lenN (concat rest) ->
    (length rest <= fuel)%nat ->
    meta_read fuel (pre ++ concat (map enc rest)) (lenN pre) off n
      = Some (takeN n (dropN off (concat rest))).
  Proof.
    induction rest as [|r rest IH]; intros pre off n fuel HF Hoff Hn Hfuel.
    - simpl in Hn, Hoff. rewrite lenN_nil in *. assert (n = 0) by lia. subst n.
      destruct fuel; reflexivity.
    - destruct (N.eq_dec n 0) as [->|Hnz].
      { destruct fuel; reflexivity. }
      destruct fuel as [|f]; [simpl in Hfuel; lia|].
      cbn [MetaModel.meta_read]. apply N.eqb_neq in Hnz. rewrite Hnz. apply N.eqb_neq in Hnz.
      inversion HF as [|? ? OKr HF']; subst.
      simpl map. simpl concat. rewrite read_block_enc by assumption.
      simpl hd in Hoff. simpl concat in Hn. rewrite lenN_app in Hn.
      rewrite dropN_app_le by assumption.
      destruct (n <=? lenN (dropN off r)) eqn:Q.
      + apply N.leb_le in Q. rewrite takeN_app_le by assumption. reflexivity.
      + apply N.leb_gt in Q. rewrite lenN_dropN in Q.
        rewrite takeN_app_ge by (rewrite lenN_dropN; lia).
        rewrite app_assoc.
        replace (lenN pre + 2 + stored_size r) with (lenN (pre ++ enc r))
          by (rewrite lenN_app, (enc_len compress uncompress compress_ok r OKr); lia).
        rewrite IH.
        * rewrite dropN_0. reflexivity.
        * assumption.
        * lia.
        * rewrite lenN_dropN. lia.
        * simpl in Hfuel. lia.
  Qed.

  Lemma parse_blocks_spec : forall rest pre fuel,
    Forall blk_ok rest -> (length rest <= fuel)%nat ->
    parse_blocks fuel (pre ++ concat (map enc rest)) (lenN pre)
      = Some (map (fun r => (r, stored_size r, is_comp r)) rest).
  Proof.
    induction rest as [|r rest IH]; intros pre fuel HF Hfuel.
    - simpl. rewrite app_nil_r. destruct fuel; cbn [MetaModel.parse_blocks];
        rewrite (proj2 (N.leb_le _ _) (N.le_refl _)); reflexivity.
    - inversion HF as [|? ? OKr HF']; subst.
      pose proof (enc_len compress uncompress compress_ok r OKr) as EL.
      destruct fuel as [|f]; [simpl in Hfuel; lia|].
      cbn [MetaModel.parse_blocks]. simpl map. simpl concat.
      assert (Q : lenN (pre ++ enc r ++ concat (map enc rest)) <=? lenN pre = false).
      { apply N.leb_gt. rewrite !lenN_app. lia. }
      rewrite Q. rewrite read_block_enc by assumption.
      rewrite app_assoc.
      replace (lenN pre + 2 + stored_size r) with (lenN (pre ++ enc r)) by (rewrite lenN_app; lia).
      rewrite IH; [reflexivity|assumption|simpl in Hfuel; lia].
  Qed.

  Lemma blocks_le_disk raws : Forall blk_ok raws -> (length raws <= length (concat (map enc raws)))%nat.
  Proof.
    induction 1 as [|r raws OK _ IH]; simpl; [lia|].
    rewrite app_length. pose proof (enc_len compress uncompress compress_ok r OK) as EL.
    unfold lenN in EL. lia.
  Qed.

  (* reading at a recorded position *)
  Lemma read_at_pos m raws p L n fuel :
    Idle m raws -> pos_ok raws (mw_cur m) p L -> L + n <= lenN (concat raws) ->
    (length (mw_disk m) <= fuel)%nat ->
    meta_read fuel (mw_disk m) (fst p) (snd p) n = Some (takeN n (dropN L (concat raws))).
  Proof.
    intros [(A & B & C & D & E & F & O) _] (k & Hk & P1 & P2 & P3) Hn Hfuel.
    rewrite A in *. rewrite P1.
    replace (concat (map enc raws))
      with (concat (map enc (firstn k raws)) ++ concat (map enc (skipn k raws)))
      by (rewrite <- concat_app, <- map_app, firstn_skipn; reflexivity).
    replace (concat raws) with (concat (firstn k raws) ++ concat (skipn k raws)) in *
      by (rewrite <- concat_app, firstn_skipn; reflexivity).
    assert (Cs : Forall blk_ok (skipn k raws)).
    { rewrite <- (firstn_skipn k raws) in C. apply Forall_app in C. apply C. }
    rewrite meta_read_spec.
    - f_equal. f_equal. rewrite P2. rewrite dropN_app_ge by lia. f_equal. lia.
    - assumption.
    - destruct (Nat.eq_dec k (length raws)) as [->|Hne].
      + rewrite skipn_all. simpl. rewrite firstn_all in P2.
        rewrite firstn_all, skipn_all in Hn. simpl in Hn. rewrite app_nil_r in Hn.
        rewrite lenN_nil. lia.
      + rewrite app_nth1 in P3 by lia.
        rewrite <- (firstn_skipn k raws) in P3 at 1.
        rewrite app_nth2 in P3 by (rewrite firstn_length; lia).
        rewrite firstn_length in P3. replace (k - Nat.min k (length raws))%nat with 0%nat in P3 by lia.
        destruct (skipn k raws); simpl in *; assumption.
    - rewrite lenN_app in Hn. lia.
    - pose proof (blocks_le_disk raws C) as Q.
      assert (length (skipn k raws) <= length raws)%nat by (rewrite skipn_length; lia). lia.
  Qed.

  (* ---- theorems ---- *)

  (* meta_rt: whatever was appended right after a recorded position is read back from there,
     whatever happened before and after, once it has been flushed *)
  Theorem meta_rt_l : forall keep ops1 d ops2 m1 mf fuel,
    mw_run (mw_init keep) ops1 = Ok m1 ->
    mw_run m1 (MAppend d :: ops2 ++ [MFlush]) = Ok mf ->
    (length (mw_disk mf) <= fuel)%nat ->
    meta_read fuel (mw_disk mf) (fst (mw_position m1)) (snd (mw_position m1)) (lenN d) = Some d.
  Proof.
    intros keep ops1 d ops2 m1 mf fuel R1 R2 Hfuel.
    destruct (run_spec _ _ _ _ (init_idle compress keep) R1) as (raws1 & I1 & _ & C1 & _).
    pose proof (pos_ok_here _ _ I1) as P.
    change (MAppend d :: ops2 ++ [MFlush]) with ((MAppend d :: ops2) ++ [MFlush]) in R2.
    destruct (run_spec _ _ _ _ I1 R2) as (rawsf & If & Ef & Cf & _).
    apply (pos_ok_ext _ _ _ _ _ _ Ef) in P.
    (* the final flush leaves nothing in the open block *)
    assert (Cur : mw_cur mf = []).
    { destruct (run_app _ _ _ _ R2) as (mm & Ra & Rb).
      destruct (run_spec _ _ _ _ I1 Ra) as (rawsm & Im & _).
      simpl in Rb. destruct (mw_flush mm) as [m2| |] eqn:Fl; try discriminate.
      inversion Rb; subst m2.
      destruct (flush_idle compress uncompress compress_ok _ _ _ Im Fl) as (_ & C & _). exact C. }
    rewrite Cur, app_nil_r in Cf.
    rewrite appended_app in Cf. change (appended (MAppend d :: ops2)) with (d ++ appended ops2) in Cf.
    rewrite (read_at_pos mf rawsf _ _ (lenN d) fuel If P).
    - rewrite Cf. rewrite app_assoc.
      rewrite dropN_app_exact by (rewrite lenN_app; reflexivity).
      rewrite <- !app_assoc. rewrite takeN_app_exact by reflexivity. reflexivity.
    - rewrite Cf. rewrite !lenN_app. lia.
    - assumption.
  Qed.

  Definition block_facts (b : list N * N * bool) : Prop :=
    let '(raw, size, comp) := b in
    0 < lenN raw /\ lenN raw <= MB /\ size <= lenN raw /\ (comp = false -> size = lenN raw).

  (* meta_blocks_ok: the written area is a sequence of well-formed metadata blocks whose decoded
     contents, followed by the still open block, are exactly the appended bytes *)
  Theorem meta_blocks_ok_l : forall keep ops m fuel,
    mw_run (mw_init keep) ops = Ok m ->
    (length (mw_disk m) <= fuel)%nat ->
    exists blocks,
      parse_blocks fuel (mw_disk m) 0 = Some blocks /\
      Forall block_facts blocks /\
      concat (map (fun b => fst (fst b)) blocks) ++ mw_cur m = appended ops /\
      lenN (mw_cur m) < MB /\
      mw_boff m = lenN (mw_disk m) /\
      (no_flush ops -> Forall (fun b => lenN (fst (fst b)) = MB) blocks).
  Proof.
    intros keep ops m fuel R Hfuel.
    destruct (run_spec _ _ _ _ (init_idle compress keep) R) as (raws & I & _ & C & _ & NF).
    destruct I as [(A & B & Cr & D & E & F & O) Lt].
    exists (map (fun r => (r, stored_size r, is_comp r)) raws).
    split; [|split; [|split; [|split; [|split]]]].
    - rewrite A. change (concat (map enc raws)) with ([] ++ concat (map enc raws)).
      change 0 with (lenN (@nil N)).
      apply parse_blocks_spec; [assumption|].
      rewrite A in Hfuel. pose proof (blocks_le_disk raws Cr). lia.
    - apply Forall_map. eapply Forall_impl; [|exact Cr]. intros r OK. unfold block_facts.
      destruct OK as [Hp Hm]. split; [assumption|]. split; [assumption|].
      split; [apply (stored_le compress uncompress compress_ok); split; assumption|].
      intro Hc. unfold MetaProofs.stored_size.
      destruct (enc_cases compress uncompress compress_ok r (conj Hp Hm)) as [[IC _]|[_ ->]];
        [congruence|]. rewrite lenN_app. unfold le16. rewrite lenN_le. lia.
    - rewrite map_map. simpl. rewrite map_id. rewrite C. reflexivity.
    - assumption.
    - rewrite A. assumption.
    - intro H. destruct (NF H) as (fulls & -> & Hf). simpl in Hf |- *.
      apply Forall_map. eapply Forall_impl; [|exact Hf]. intros r Hr. exact Hr.
  Qed.

  Theorem meta_no_fuel_l : forall keep ops, mw_run (mw_init keep) ops <> Fuel.
  Proof. intros. eapply run_no_fuel. apply init_idle. Qed.

  (* KEEP_IN_MEMORY mode: writing the kept blocks to the file changes nothing *)
  Theorem meta_write_to_file_l : forall keep ops m,
    mw_run (mw_init keep) ops = Ok m ->
    mw_disk (mw_write_to_file m) = mw_disk m /\
    mw_out (mw_write_to_file m) = mw_disk m /\ mw_mem (mw_write_to_file m) = [].
  Proof.
    intros keep ops m R.
    destruct (run_spec _ _ _ _ (init_idle compress keep) R) as (raws & I & _).
    destruct I as [(A & B & Cr & D & E & F & O) Lt].
    assert (W : concat (map write_block (mw_mem m)) = concat (mw_mem m)).
    { f_equal. clear - E. induction E; simpl; [reflexivity|]. rewrite H, IHE. reflexivity. }
    unfold mw_write_to_file, mw_disk in *. cbn [mw_keep mw_mem mw_out]. rewrite W.
    destruct (mw_keep m) eqn:K.
    - simpl. rewrite app_nil_r. repeat split; reflexivity.
    - rewrite (F eq_refl). simpl. rewrite app_nil_r. repeat split; reflexivity.
  Qed.

  (* offset bookkeeping used by the directory writer: the in-block offset after an append *)
  Lemma append_offset m raws d m' :
    Idle m raws -> mw_append m d = Ok m' ->
    lenN (mw_cur m') = (lenN (mw_cur m) + lenN d) mod MB.
  Proof.
    intros HI H.
    destruct (append_spec compress uncompress compress_ok _ _ _ _ HI H) as (fulls & [I1 Lt] & F1 & C1 & _).
    assert (Q : lenN (concat fulls) + lenN (mw_cur m') = lenN (mw_cur m) + lenN d).
    { rewrite <- !lenN_app. rewrite C1. reflexivity. }
    rewrite (lenN_concat_map_const fulls MB F1) in Q.
    pose proof MB_pos.
    apply N.mod_unique with (q := lenN fulls); [assumption|lia].
  Qed.
End RT.
