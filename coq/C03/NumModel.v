(* C03 — model of the inode numbering of lib/fstree/src/post_process.c: alloc_inode_num_dfs and the
   number of the root in fstree_post_process (definitions only).

   A node is identified by its path of child indices from the root.  [hard] marks a hard link entry
   (S_ISLNK && FLAG_LINK_IS_HARD), which gets no number.  The 32 bit overflow test ("Too many inodes") and
   reorder_hard_links (which afterwards moves hard link targets in front of the first directory that names
   them) are not modelled. *)
From Coq Require Import List NArith.
Import ListNotations.
Local Open Scope N_scope.

Inductive tnode : Type :=
| TLeaf (hard : bool)
| TDir (children : list tnode).

Definition is_hard (t : tnode) : bool := match t with TLeaf h => h | TDir _ => false end.

(* the last loop of alloc_inode_num_dfs: every child that is not a hard link gets ++unique_inode_count *)
Fixpoint number_children (l : list tnode) (path : list nat) (i : nat) (cnt : N)
  : list (list nat * N) * N :=
  match l with
  | [] => ([], cnt)
  | c :: r =>
    if is_hard c then number_children r path (S i) cnt
    else let '(b, cnt') := number_children r path (S i) (cnt + 1) in
         ((path ++ [i], cnt + 1) :: b, cnt')
  end.

(* the first loop of alloc_inode_num_dfs: recursion into the children, in order (alloc_inode_num_dfs
   itself returns immediately for a non-directory) *)
Definition sub_gen (f : tnode -> list nat -> N -> list (list nat * N) * N) (path : list nat) :=
  fix sub (l : list tnode) (i : nat) (cnt : N) : list (list nat * N) * N :=
    match l with
    | [] => ([], cnt)
    | c :: r =>
      let '(a, cnt1) := f c (path ++ [i]) cnt in
      let '(b, cnt2) := sub r (S i) cnt1 in
      (a ++ b, cnt2)
    end.

(* alloc_inode_num_dfs(fs, t): first all sub-directories (depth first, in order), then the children *)
Fixpoint alloc_dir (t : tnode) (path : list nat) (cnt : N) : list (list nat * N) * N :=
  match t with
  | TLeaf _ => ([], cnt)
  | TDir ch =>
    let '(a, cnt1) := sub_gen alloc_dir path ch 0%nat cnt in
    let '(b, cnt2) := number_children ch path 0%nat cnt1 in
    (a ++ b, cnt2)
  end.

(* fstree_post_process: unique_inode_count = 0; alloc_inode_num_dfs(root); root gets the last number.
   Result: (path, inode number) in the order the numbers are handed out. *)
Definition numbering (t : tnode) : list (list nat * N) :=
  let '(a, cnt) := alloc_dir t [] 0 in a ++ [([], cnt + 1)].

(* number of nodes that get a number *)
Fixpoint count_sub (t : tnode) : nat :=
  match t with
  | TLeaf h => if h then 0%nat else 1%nat
  | TDir ch => S (fold_right (fun c a => (count_sub c + a)%nat) 0%nat ch)
  end.
Definition count_nodes (t : tnode) : nat :=
  match t with TLeaf _ => 1%nat | TDir _ => count_sub t end.

(* q is a proper descendant of p *)
Definition below (p q : list nat) : Prop := exists r, r <> [] /\ q = p ++ r.

Definition children_before_parents (nums : list (list nat * N)) : Prop :=
  forall p n q m, In (p, n) nums -> In (q, m) nums -> below p q -> m < n.
