(* C03 — proofs about the directory writer model, part 1: get_conseq_entry_count and the pure
   description of a listing (runs, headers, byte positions). *)
From Coq Require Import List NArith ZArith Lia Bool ZifyBool ZifyNat ZifyN.
From SqfsV Require Import Base.Bytes Gen.Constants C03.GenC03 C03.Common C03.ListN C03.MetaModel
  C03.MetaProofs C03.DirModel.
Import ListNotations.
Local Open Scope N_scope.

(* ---- facts about the constants (re-checked against the regenerated headers) ---- *)
Lemma MAX_ENT_pos : 1 <= MAX_ENT.
Proof. unfold MAX_ENT. vm_compute. discriminate. Qed.
(* the format allows at most 256 entries per header (doc/format.adoc); the reader spec refuses more *)
Lemma MAX_ENT_le_256 : MAX_ENT <= 256.
Proof. unfold MAX_ENT. vm_compute. discriminate. Qed.
Lemma HDR_SZ_val : HDR_SZ = 12.
Proof. reflexivity. Qed.
Lemma ENT_SZ_val : ENT_SZ = 8.
Proof. reflexivity. Qed.
Lemma IDX_SZ_val : IDX_SZ = 12.
Proof. reflexivity. Qed.
(* struct layouts the byte-level model relies on *)
Lemma dir_layout_ok :
  (off_sqfs_dir_header_t_count, off_sqfs_dir_header_t_start_block, off_sqfs_dir_header_t_inode_number,
   fsz_sqfs_dir_header_t_count, fsz_sqfs_dir_header_t_start_block, fsz_sqfs_dir_header_t_inode_number,
   sizeof_sqfs_dir_header_t) = (0, 4, 8, 4, 4, 4, 12) /\
  (off_sqfs_dir_node_t_offset, off_sqfs_dir_node_t_inode_diff, off_sqfs_dir_node_t_type, off_sqfs_dir_node_t_size,
   fsz_sqfs_dir_node_t_offset, fsz_sqfs_dir_node_t_inode_diff, fsz_sqfs_dir_node_t_type, fsz_sqfs_dir_node_t_size,
   sizeof_sqfs_dir_node_t) = (0, 2, 4, 6, 2, 2, 2, 2, 8) /\
  (off_sqfs_dir_index_t_index, off_sqfs_dir_index_t_start_block, off_sqfs_dir_index_t_size,
   sizeof_sqfs_dir_index_t) = (0, 4, 8, 12) /\
  (fsz_sqfs_inode_dir_t_size, fsz_sqfs_inode_dir_t_start_block, fsz_sqfs_inode_dir_t_offset,
   fsz_sqfs_inode_dir_ext_t_size, fsz_sqfs_inode_dir_ext_t_start_block,
   fsz_sqfs_inode_dir_ext_t_inodex_count) = (2, 4, 2, 4, 4, 2).
Proof. repeat split; reflexivity. Qed.
Global Opaque MAX_ENT HDR_SZ ENT_SZ IDX_SZ.

Lemma U16_val : U16 = 65536. Proof. reflexivity. Qed.
Lemma U32_val : U32 = 4294967296. Proof. reflexivity. Qed.

(* ---- what a run must satisfy ---- *)
Definition same_block (head it : dent) : Prop := de_ref it / U16 = de_ref head / U16.
Definition delta_ok (head it : dent) : Prop :=
  (-32767 <= s32_diff (de_num it) (de_num head) <= 32767)%Z.
Definition run_member_ok (head it : dent) : Prop := same_block head it /\ delta_ok head it.

Definition ent_bytes (it : dent) : N := ENT_SZ + lenN (de_name it).
Definition run_bytes (l : list dent) : N := fold_right (fun it a => ent_bytes it + a) 0 l.

Lemma run_bytes_app a b : run_bytes (a ++ b) = run_bytes a + run_bytes b.
Proof. induction a as [|x a IH]; simpl; [reflexivity|]. rewrite IH. lia. Qed.

Lemma s32_diff_refl a : s32_diff a a = 0%Z.
Proof.
  unfold s32_diff. rewrite U32_val.
  replace ((a + 4294967296 - a) mod 4294967296) with 0.
  - reflexivity.
  - replace (a + 4294967296 - a) with 4294967296 by lia. reflexivity.
Qed.

(* ---- get_conseq_entry_count ---- *)
Lemma gcec_loop_spec head : forall l size count,
  count < MAX_ENT ->
  let c := gcec_loop head l size count in
  count <= c /\ c <= MAX_ENT /\ c <= count + lenN l /\
  Forall (run_member_ok head) (takeN (c - count) l) /\
  (* no meta block crossing after the first entry of the header *)
  (count + 2 <= c \/ (0 < count /\ count + 1 <= c) -> size + run_bytes (takeN (c - count) l) <= MB).
Proof.
  induction l as [|it r IH]; intros size count Hc; cbn [gcec_loop].
  - cbv zeta. rewrite lenN_nil. replace (count - count) with 0 by lia.
    repeat split; try lia. constructor.
  - cbv zeta. rewrite lenN_cons.
    destruct (de_ref it / U16 =? de_ref head / U16) eqn:Eb; cbn [negb].
    2:{ replace (count - count) with 0 by lia. rewrite takeN_0.
        repeat split; try lia. constructor. }
    apply N.eqb_eq in Eb.
    destruct ((s32_diff (de_num it) (de_num head) >? 32767)%Z ||
              (s32_diff (de_num it) (de_num head) <? -32767)%Z) eqn:Ed.
    { replace (count - count) with 0 by lia. rewrite takeN_0.
      repeat split; try lia. constructor. }
    apply orb_false_iff in Ed. destruct Ed as [Ed1 Ed2].
    destruct ((0 <? count) && (MB <? size + ENT_SZ + lenN (de_name it))) eqn:Es.
    { replace (count - count) with 0 by lia. rewrite takeN_0.
      repeat split; try lia. constructor. }
    assert (Hit : run_member_ok head it).
    { split; [exact Eb|]. unfold delta_ok. lia. }
    destruct (count + 1 =? MAX_ENT) eqn:Em.
    + apply N.eqb_eq in Em. replace (count + 1 - count) with 1 by lia.
      change (takeN 1 (it :: r)) with [it].
      repeat split; try lia.
      * constructor; [exact Hit|constructor].
      * intros [H|[H1 H2]]; [lia|]. simpl run_bytes. unfold ent_bytes.
        apply andb_false_iff in Es. destruct Es as [Es|Es]; lia.
    + apply N.eqb_neq in Em.
      specialize (IH (size + ENT_SZ + lenN (de_name it)) (count + 1)).
      assert (Hc' : count + 1 < MAX_ENT) by lia. specialize (IH Hc'). cbv zeta in IH.
      set (c := gcec_loop head r (size + ENT_SZ + lenN (de_name it)) (count + 1)) in *.
      destruct IH as (I1 & I2 & I3 & I4 & I5).
      assert (Ht : takeN (c - count) (it :: r) = it :: takeN (c - (count + 1)) r).
      { unfold takeN. replace (N.to_nat (c - count)) with (S (N.to_nat (c - (count + 1)))) by lia.
        reflexivity. }
      rewrite Ht. repeat split; try lia.
      * constructor; assumption.
      * intro H. simpl run_bytes. unfold ent_bytes.
        destruct (N.eq_dec c (count + 1)) as [Ec|Ec].
        -- rewrite Ec. replace (count + 1 - (count + 1)) with 0 by lia. rewrite takeN_0. simpl.
           apply andb_false_iff in Es. destruct Es as [Es|Es]; lia.
        -- assert (Q : size + ENT_SZ + lenN (de_name it) + run_bytes (takeN (c - (count + 1)) r) <= MB).
           { apply I5. right. lia. }
           lia.
Qed.

Theorem gcec_spec : forall offset head rest,
  let l := head :: rest in
  let c := gcec offset l in
  1 <= c /\ c <= MAX_ENT /\ c <= lenN l /\
  Forall (run_member_ok head) (takeN c l) /\
  (2 <= c -> (offset + HDR_SZ) mod MB + run_bytes (takeN c l) <= MB).
Proof.
  intros offset head rest l c. unfold c, gcec, l.
  pose proof MAX_ENT_pos as HM.
  (* unfold the first iteration by hand: the head always passes the tests *)
  cbn [gcec_loop]. rewrite N.eqb_refl. cbn [negb].
  rewrite s32_diff_refl. cbn [Z.gtb Z.ltb Z.compare orb].
  change (0 <? 0) with false. cbn [andb].
  assert (Hhead : run_member_ok head head).
  { split; [reflexivity|]. unfold delta_ok. rewrite s32_diff_refl. lia. }
  rewrite lenN_cons.
  destruct (0 + 1 =? MAX_ENT) eqn:Em.
  - apply N.eqb_eq in Em. change (0 + 1) with 1 in *.
    change (takeN 1 (head :: rest)) with [head].
    repeat split; try lia. constructor; [exact Hhead|constructor].
  - apply N.eqb_neq in Em.
    pose proof (gcec_loop_spec head rest ((offset + HDR_SZ) mod MB + ENT_SZ + lenN (de_name head)) (0 + 1)) as S.
    assert (Hc : 0 + 1 < MAX_ENT) by lia. specialize (S Hc). cbv zeta in S.
    set (c1 := gcec_loop head rest ((offset + HDR_SZ) mod MB + ENT_SZ + lenN (de_name head)) (0 + 1)) in *.
    destruct S as (S1 & S2 & S3 & S4 & S5).
    assert (Ht : takeN c1 (head :: rest) = head :: takeN (c1 - (0 + 1)) rest).
    { unfold takeN. replace (N.to_nat c1) with (S (N.to_nat (c1 - (0 + 1)))) by lia. reflexivity. }
    rewrite Ht. repeat split; try lia.
    + constructor; assumption.
    + intro H. simpl run_bytes. unfold ent_bytes.
      assert (Q : (offset + HDR_SZ) mod MB + ENT_SZ + lenN (de_name head) +
                  run_bytes (takeN (c1 - (0 + 1)) rest) <= MB).
      { apply S5. right. lia. }
      replace (c1 - (0 + 1)) with (c1 - 1) in Q by lia.
      generalize dependent ((offset + HDR_SZ) mod MB). intros. lia.
Qed.
