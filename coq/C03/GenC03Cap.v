(* GENERATED from the working tree by props/C03/cap_stage.py (probe: props/C03/h_cap.c) -- do not edit *)
From Coq Require Import NArith.
Local Open Scope N_scope.
Definition c_id_table_accepts : N := 65535.
Definition c_id_count_field_bits : N := 16.
Definition c_id_index_field_bits : N := 16.
