(* C03 — shared small definitions: result type, N-indexed list helpers, the
   compressor oracle result type.  Definitions only. *)
From Coq Require Import List NArith ZArith.
Import ListNotations.
Local Open Scope N_scope.

(* Ok v | Err e (libsquashfs error code) | Fuel (loop fuel exhausted: proved unreachable) *)
Inductive res (A : Type) : Type :=
| Ok (a : A)
| Err (e : Z)
| Fuel.
Arguments Ok {A} a.
Arguments Err {A} e.
Arguments Fuel {A}.

Definition lenN {A : Type} (l : list A) : N := N.of_nat (length l).
Definition takeN {A : Type} (n : N) (l : list A) : list A := firstn (N.to_nat n) l.
Definition dropN {A : Type} (n : N) (l : list A) : list A := skipn (N.to_nat n) l.

(* what sqfs_compressor_t.do_block returns when compressing:
   < 0 -> CErr, 0 -> CStore ("does not shrink, store as is"), n > 0 -> CData (the n output bytes) *)
Inductive cres : Type :=
| CErr (e : Z)
| CStore
| CData (c : list N).
