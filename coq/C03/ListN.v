(* C03 — lemmas about the N-indexed list helpers of Common.v *)
From Coq Require Import List NArith ZArith Lia Bool ZifyBool ZifyNat ZifyN.
From SqfsV Require Import Base.Bytes C03.Common.
Import ListNotations.
Local Open Scope N_scope.

Lemma lenN_nil {A} : lenN (@nil A) = 0.
Proof. reflexivity. Qed.

Lemma lenN_cons {A} (x : A) l : lenN (x :: l) = lenN l + 1.
Proof. unfold lenN. simpl length. lia. Qed.

Lemma lenN_app {A} (a b : list A) : lenN (a ++ b) = lenN a + lenN b.
Proof. unfold lenN. rewrite app_length. lia. Qed.

Lemma lenN_takeN {A} n (l : list A) : lenN (takeN n l) = N.min n (lenN l).
Proof. unfold lenN, takeN. rewrite firstn_length. lia. Qed.

Lemma lenN_dropN {A} n (l : list A) : lenN (dropN n l) = lenN l - n.
Proof. unfold lenN, dropN. rewrite skipn_length. lia. Qed.

Lemma takeN_dropN {A} n (l : list A) : takeN n l ++ dropN n l = l.
Proof. apply firstn_skipn. Qed.

Lemma lenN_le k n : lenN (le k n) = N.of_nat k.
Proof. unfold lenN. rewrite le_length. reflexivity. Qed.

Lemma lenN_repeat {A} (x : A) k : lenN (repeat x k) = N.of_nat k.
Proof. unfold lenN. rewrite repeat_length. reflexivity. Qed.

Lemma lenN_0 {A} (l : list A) : lenN l = 0 -> l = [].
Proof. destruct l; [reflexivity|]. rewrite lenN_cons. lia. Qed.

Lemma lenN_map {A B} (f : A -> B) l : lenN (map f l) = lenN l.
Proof. unfold lenN. rewrite map_length. reflexivity. Qed.

Lemma takeN_all {A} n (l : list A) : lenN l <= n -> takeN n l = l.
Proof. unfold lenN, takeN. intro H. apply firstn_all2. lia. Qed.

Lemma takeN_app_exact {A} n (a b : list A) : lenN a = n -> takeN n (a ++ b) = a.
Proof.
  unfold lenN, takeN. intro H.
  replace (N.to_nat n) with (length a + 0)%nat by lia.
  rewrite firstn_app_2. simpl. apply app_nil_r.
Qed.

Lemma dropN_app_exact {A} n (a b : list A) : lenN a = n -> dropN n (a ++ b) = b.
Proof.
  unfold lenN, dropN. intro H.
  replace (N.to_nat n) with (length a) by lia.
  rewrite skipn_app, Nat.sub_diag, skipn_all. reflexivity.
Qed.

Lemma dropN_app_le {A} n (a b : list A) : n <= lenN a -> dropN n (a ++ b) = dropN n a ++ b.
Proof.
  unfold lenN, dropN. intro H. rewrite skipn_app.
  replace (N.to_nat n - length a)%nat with 0%nat by lia. reflexivity.
Qed.

Lemma takeN_app_le {A} n (a b : list A) : n <= lenN a -> takeN n (a ++ b) = takeN n a.
Proof.
  unfold lenN, takeN. intro H. rewrite firstn_app.
  replace (N.to_nat n - length a)%nat with 0%nat by lia. simpl. apply app_nil_r.
Qed.

Lemma takeN_app_ge {A} n (a b : list A) : lenN a <= n -> takeN n (a ++ b) = a ++ takeN (n - lenN a) b.
Proof.
  unfold lenN, takeN. intro H. rewrite firstn_app.
  rewrite firstn_all2 by lia. f_equal. f_equal. lia.
Qed.

Lemma dropN_app_ge {A} n (a b : list A) : lenN a <= n -> dropN n (a ++ b) = dropN (n - lenN a) b.
Proof.
  unfold lenN, dropN. intro H. rewrite skipn_app.
  rewrite skipn_all2 by lia. simpl. f_equal. lia.
Qed.

Lemma dropN_0 {A} (l : list A) : dropN 0 l = l.
Proof. reflexivity. Qed.

Lemma takeN_0 {A} (l : list A) : takeN 0 l = [].
Proof. reflexivity. Qed.

Lemma dropN_dropN {A} a b (l : list A) : dropN a (dropN b l) = dropN (a + b) l.
Proof.
  unfold dropN. revert l. replace (N.to_nat (a + b)) with (N.to_nat b + N.to_nat a)%nat by lia.
  induction (N.to_nat b) as [|k IH]; intro l; simpl.
  - reflexivity.
  - destruct l; [destruct (N.to_nat a); reflexivity|]. apply IH.
Qed.

Lemma takeN_takeN_dropN {A} a b (l : list A) :
  takeN a l ++ takeN b (dropN a l) = takeN (a + b) l.
Proof.
  unfold takeN, dropN. replace (N.to_nat (a + b)) with (N.to_nat a + N.to_nat b)%nat by lia.
  revert l. induction (N.to_nat a) as [|k IH]; intro l; simpl.
  - reflexivity.
  - destruct l; simpl; [destruct (N.to_nat b); reflexivity|]. f_equal. apply IH.
Qed.

Lemma rd16_le16_app n r : n < 65536 -> rd16 (le16 n ++ r) = n.
Proof. intro H. unfold rd16, le16. apply rd_le. simpl. exact H. Qed.

Lemma rd32_le32_app n r : n < 4294967296 -> rd32 (le32 n ++ r) = n.
Proof. intro H. unfold rd32, le32. apply rd_le. simpl. exact H. Qed.

Lemma rd16_le16_mod n r : rd16 (le16 n ++ r) = n mod 65536.
Proof. unfold rd16, le16. rewrite rd_le_mod. reflexivity. Qed.

Lemma rd32_le32_mod n r : rd32 (le32 n ++ r) = n mod 4294967296.
Proof. unfold rd32, le32. rewrite rd_le_mod. reflexivity. Qed.

Lemma lenN_concat_map_const {A} (l : list (list A)) k :
  Forall (fun r => lenN r = k) l -> lenN (concat l) = k * lenN l.
Proof.
  induction 1 as [|x l Hx _ IH]; simpl.
  - unfold lenN. simpl. lia.
  - rewrite lenN_app, lenN_cons, IH, Hx. lia.
Qed.
