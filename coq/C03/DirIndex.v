(* C03 — directory writer, part 4: index entries read back the run they describe; the directory inode
   (basic/extended choice, size field, index payload); the export table. *)
From Coq Require Import List NArith ZArith Lia Bool ZifyBool ZifyNat ZifyN.
From SqfsV Require Import Base.Bytes Gen.Constants C03.GenC03 C03.Common C03.ListN C03.MetaModel
  C03.MetaProofs C03.MetaRT C03.DirModel C03.DirProofs C03.DirRT C03.DirEnd.
Import ListNotations.
Local Open Scope N_scope.

Lemma Forall2_ctx {A B : Type} (R Q : A -> B -> Prop) : forall l hs acc,
  Forall2 R l hs ->
  (forall pre h post ix, acc ++ hs = pre ++ h :: post -> R ix h -> Q ix h) ->
  Forall2 Q l hs.
Proof.
  intros l hs acc F. revert acc. induction F as [|a h l hs Hah F IH]; intros acc H; constructor.
  - apply (H acc h hs a); [reflexivity|exact Hah].
  - apply (IH (acc ++ [h])). intros pre h' post ix E. apply (H pre h' post ix).
    rewrite <- E, <- app_assoc. reflexivity.
Qed.

Section DirIndex.
  Variable compress : list N -> cres.
  Variable uncompress : list N -> option (list N).
  Hypothesis compress_ok :
    forall b c, compress b = CData c -> lenN c <= lenN b /\ uncompress c = Some b.

  Notation Idle := (Idle compress).
  Notation dw_end := (dw_end compress).

  (* what an index entry promises (this is how the kernel uses it: block = directory table start +
     start_block, offset = (directory offset + index) mod 8192): the whole run, header first, is read
     back from there once the stream has been flushed, whatever is appended afterwards *)
  Theorem dir_index_read_l : forall w raws w' ops mf fuel,
    Idle (dw_dm w) raws -> dw_idx w = [] -> dw_size w = 0 ->
    dw_end w = Ok w' ->
    mw_run compress (dw_dm w') (ops ++ [MFlush]) = Ok mf ->
    (length (mw_disk mf) <= fuel)%nat ->
    let off := mw_off (dw_dm w) in
    let hs := hdrs_of (length (dw_list w)) off 0 (dw_list w) in
    Forall2 (fun ix h =>
               hd_error (snd h) = Some (ix_ent ix) /\ ix_index ix = fst h mod U32 /\
               meta_read uncompress fuel (mw_disk mf) (ix_block ix) ((off + fst h) mod MB)
                         (lenN (enc_run (snd h))) = Some (enc_run (snd h)))
            (dw_idx w') hs.
  Proof.
    intros w raws w' ops mf fuel HI Hidx Hsize He Hrun Hfuel. cbv zeta.
    destruct (dw_end_spec_l compress uncompress compress_ok _ _ _ HI Hidx Hsize He)
      as (raws' & V & Sz & R & _).
    cbv zeta in V, R. destruct V as (I' & E' & C' & _).
    destruct (run_app compress _ _ _ _ Hrun) as (mm & Ra & Rb).
    destruct (run_spec compress uncompress compress_ok _ _ _ _ I' Ra) as (rawsm & Im & Em & Cm & _).
    simpl in Rb. destruct (mw_flush compress mm) as [m2| |] eqn:Fl; try discriminate.
    inversion Rb; subst m2.
    destruct (flush_idle compress uncompress compress_ok _ _ _ Im Fl) as (If & Cf & _ & Ef).
    set (rawsF := rawsm ++ ne (mw_cur mm)) in *.
    assert (EF : MetaProofs.ext raws' (mw_cur (dw_dm w')) rawsF (mw_cur mf)).
    { eapply ext_trans; eassumption. }
    assert (CF : concat rawsF = (concat raws ++ mw_cur (dw_dm w)) ++
                                listing (mw_off (dw_dm w)) (dw_list w) ++ appended ops).
    { unfold rawsF. rewrite concat_app, concat_ne, Cm, app_assoc, C', <- !app_assoc. reflexivity. }
    eapply Forall2_ctx with (acc := []); [exact R|].
    intros pre h post ix Eh (Q1 & Q2 & _ & Q4). simpl in Eh.
    split; [exact Q1|]. split; [exact Q2|].
    replace (fst h - 0) with (fst h) in Q4 by lia.
    apply (pos_ok_ext compress uncompress compress_ok _ _ _ _ _ _ EF) in Q4.
    pose proof (hdrs_of_pos _ _ _ _ (Nat.le_refl _) _ _ _ Eh) as Hp. rewrite N.add_0_l in Hp.
    assert (Hl : listing (mw_off (dw_dm w)) (dw_list w)
                 = listing_of pre ++ enc_run (snd h) ++ listing_of post).
    { unfold listing. rewrite Eh. rewrite listing_of_app. reflexivity. }
    pose proof (read_at_pos compress uncompress compress_ok mf rawsF _ _ (lenN (enc_run (snd h))) fuel
                  If Q4) as RD.
    cbn [fst snd] in RD. rewrite RD.
    - rewrite CF, Hl, Hp. f_equal.
      replace ((concat raws ++ mw_cur (dw_dm w)) ++
               (listing_of pre ++ enc_run (snd h) ++ listing_of post) ++ appended ops)
        with (((concat raws ++ mw_cur (dw_dm w)) ++ listing_of pre) ++
              enc_run (snd h) ++ (listing_of post ++ appended ops))
        by (rewrite <- !app_assoc; reflexivity).
      rewrite dropN_app_exact by (rewrite !lenN_app; lia).
      rewrite takeN_app_exact by reflexivity. reflexivity.
    - rewrite CF, Hl, Hp. rewrite !lenN_app. lia.
    - exact Hfuel.
  Qed.
End DirIndex.

(* ---- the directory inode ---- *)
Theorem dir_inode_ok_l : forall w hl xattr parent,
  let di := dw_create_inode w hl xattr parent in
  (* extended exactly when one of the four reasons holds *)
  (di_ext di = true <->
     xattr <> 4294967295 \/ 4294967295 < dw_ref w / U16 \/ 65532 < dw_size w \/
     c_DIR_INDEX_THRESHOLD <= dw_count w) /\
  (* basic: 16 bit size field holds listing size + 3 without truncation, no index *)
  (di_ext di = false -> di_size di = dw_size w + 3 /\ di_size di < 65536 /\
                        di_start_block di = dw_ref w / U16 /\ di_index di = [] /\ di_icount di = 0) /\
  (* extended: 32 bit size field, one index entry per recorded header, in order *)
  (di_ext di = true ->
     di_size di = (dw_size w + 3) mod U32 /\ di_icount di = lenN (dw_idx w) mod U16 /\
     di_xattr di = xattr /\
     di_index di = map (fun i => (ix_index i, ix_block i mod U32,
                                  (lenN (de_name (ix_ent i)) - 1) mod U32, de_name (ix_ent i))) (dw_idx w)) /\
  di_offset di = dw_ref w mod U16 /\ di_parent di = parent /\
  di_nlink di = (dw_count w + hl + 2) mod U32.
Proof.
  intros w hl xattr parent. cbv zeta. unfold dw_create_inode.
  destruct (N.eqb_spec xattr 4294967295) as [E1|E1];
  destruct (N.ltb_spec 4294967295 (dw_ref w / U16)) as [E2|E2];
  destruct (N.ltb_spec (65535 - 3) (dw_size w)) as [E3|E3];
  destruct (N.leb_spec c_DIR_INDEX_THRESHOLD (dw_count w)) as [E4|E4];
  cbn [negb orb di_ext di_size di_start_block di_index di_icount di_offset di_parent di_nlink di_xattr];
  change (65535 - 3) with 65532 in *; rewrite ?U32_val, ?U16_val in *;
  (split; [split; [intro Hx; try discriminate Hx; lia|intro Hx; try reflexivity; exfalso; lia]|]);
  (split; [intro Hx; try discriminate Hx;
           (split; [lia|]); (split; [lia|]); (split; [apply N.mod_small; lia|]); split; reflexivity|]);
  (split; [intro Hx; try discriminate Hx; repeat split; reflexivity|]);
  repeat split; reflexivity.
Qed.

(* ---- export table ---- *)
Lemma export_add_none inum iref : export_add None inum iref = Ok None.
Proof. reflexivity. Qed.

Lemma nth_takeN_lt {A} (l : list A) n j d : (j < N.to_nat n)%nat -> nth j (takeN n l) d = nth j l d.
Proof.
  unfold takeN. revert l j. induction (N.to_nat n) as [|k IH]; intros l j H; [lia|].
  destruct l; [destruct j; reflexivity|]. destruct j; [reflexivity|]. simpl. apply IH. lia.
Qed.

Theorem export_add_spec : forall l inum iref,
  1 <= inum ->
  exists l', export_add (Some l) inum iref = Ok (Some l') /\
    lenN l' = N.max (lenN l) inum /\
    nth (N.to_nat (inum - 1)) l' U64MAX = iref /\
    (forall j, j <> N.to_nat (inum - 1) -> nth j l' U64MAX = nth j l U64MAX).
Proof.
  intros l inum iref H. unfold export_add.
  assert (Q : inum <? 1 = false) by (apply N.ltb_ge; lia). rewrite Q.
  set (l1 := if lenN l <=? inum - 1 then l ++ repeat U64MAX (N.to_nat (inum - lenN l)) else l).
  assert (L1 : lenN l1 = N.max (lenN l) inum /\ forall j, nth j l1 U64MAX = nth j l U64MAX).
  { unfold l1. destruct (lenN l <=? inum - 1) eqn:E.
    - apply N.leb_le in E. split; [rewrite lenN_app, lenN_repeat; lia|].
      intro j. destruct (Nat.lt_ge_cases j (length l)) as [Hj|Hj].
      + apply app_nth1. exact Hj.
      + rewrite app_nth2 by exact Hj. rewrite (nth_overflow l) by exact Hj.
        apply nth_repeat.
    - apply N.leb_gt in E. split; [lia|reflexivity]. }
  destruct L1 as [L1 L2].
  eexists. split; [reflexivity|].
  assert (Ht : lenN (takeN (inum - 1) l1) = inum - 1) by (rewrite lenN_takeN; lia).
  split; [|split].
  - rewrite lenN_app, lenN_cons, Ht, lenN_dropN. lia.
  - rewrite app_nth2 by (unfold lenN in Ht; lia).
    replace (N.to_nat (inum - 1) - length (takeN (inum - 1) l1))%nat with 0%nat
      by (unfold lenN in Ht; lia). reflexivity.
  - intros j Hj. rewrite <- L2.
    destruct (Nat.lt_ge_cases j (N.to_nat (inum - 1))) as [Hlt|Hge].
    + rewrite app_nth1 by (unfold lenN in Ht; lia). apply nth_takeN_lt. exact Hlt.
    + rewrite app_nth2 by (unfold lenN in Ht; lia).
      replace (j - length (takeN (inum - 1) l1))%nat with (S (j - N.to_nat inum))
        by (unfold lenN in Ht; lia).
      cbn [nth]. unfold dropN.
      rewrite <- (firstn_skipn (N.to_nat inum) l1) at 2.
      destruct (Nat.le_gt_cases (length l1) (N.to_nat inum)) as [Hs|Hs].
      * rewrite skipn_all2 by exact Hs. rewrite nth_overflow by (simpl; lia).
        rewrite app_nil_r. rewrite nth_overflow; [reflexivity|].
        rewrite firstn_length. lia.
      * rewrite app_nth2 by (rewrite firstn_length; lia).
        rewrite firstn_length. f_equal. lia.
Qed.
