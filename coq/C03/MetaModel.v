(* C03 — executable model of lib/sqfs/src/meta_writer.c (definitions only).

   C state                         model
   m->data[0 .. m->offset)         mw_cur        (the rest of data[] is zero)
   m->offset                       mw_off        (invariant, proved: mw_off = lenN mw_cur)
   m->block_offset                 mw_boff
   m->flags & KEEP_IN_MEMORY       mw_keep
   m->list .. m->list_end          mw_mem        (each element: 2 byte header ++ payload; the C buffer
                                                  is calloc'ed to 8194 bytes, the tail is never read)
   bytes written through m->file   mw_out        (write_block always writes at file->get_size(), i.e.
                                                  appends; only the bytes this writer appended are kept)
   m->cmp->do_block                Section variable [compress] (result: Common.cres)            *)
From Coq Require Import List NArith ZArith Bool.
From SqfsV Require Import Base.Bytes Gen.Constants C03.Common.
Import ListNotations.
Local Open Scope N_scope.

Definition MB : N := c_SQFS_META_BLOCK_SIZE.     (* sizeof(m->data) *)
Definition META_FLAG : N := 32768.               (* the literal 0x8000 of meta_writer.c *)

Record mw : Type := mkMw {
  mw_cur : list N;
  mw_off : N;
  mw_boff : N;
  mw_keep : bool;
  mw_mem : list (list N);
  mw_out : list N
}.

Definition mw_init (keep : bool) : mw := mkMw [] 0 0 keep [] [].

(* write_block(): the byte count is re-derived from the stored header *)
Definition write_block (blk : list N) : list N :=
  let count := rd16 blk mod META_FLAG in
  takeN (count + 2) (blk ++ repeat 0 (N.to_nat (MB + 2 - lenN blk))).

Section Meta.
  Variable compress : list N -> cres.

  (* header ++ payload as sqfs_meta_writer_flush builds it, and the value added to block_offset *)
  Definition build_block (cur : list N) (off : N) (r : cres) : list N * N :=
    match r with
    | CData ((_ :: _) as c) => (le16 (lenN c) ++ c, lenN c + 2)
    | _ => (le16 (N.lor off META_FLAG) ++ cur, off + 2)
    end.

  Definition mw_flush (m : mw) : res mw :=
    if mw_off m =? 0 then Ok m else
    match compress (mw_cur m) with
    | CErr e => Err e
    | r =>
      let '(blk, count) := build_block (mw_cur m) (mw_off m) r in
      if mw_keep m
      then Ok (mkMw [] 0 (mw_boff m + count) true (mw_mem m ++ [blk]) (mw_out m))
      else Ok (mkMw [] 0 (mw_boff m + count) false (mw_mem m) (mw_out m ++ write_block blk))
    end.

  (* the while (size != 0) loop of sqfs_meta_writer_append *)
  Fixpoint mw_append_loop (fuel : nat) (m : mw) (d : list N) : res mw :=
    match d with
    | [] => Ok m
    | _ :: _ =>
      match fuel with
      | O => Fuel
      | S f =>
        let diff0 := MB - mw_off m in
        let step (m1 : mw) (diff1 : N) : res mw :=
          let diff := if lenN d <? diff1 then lenN d else diff1 in
          mw_append_loop f
            (mkMw (mw_cur m1 ++ takeN diff d) (mw_off m1 + diff) (mw_boff m1) (mw_keep m1) (mw_mem m1) (mw_out m1))
            (dropN diff d) in
        if diff0 =? 0 then
          match mw_flush m with
          | Ok m1 => step m1 MB
          | Err e => Err e
          | Fuel => Fuel
          end
        else step m diff0
      end
    end.

  Definition mw_append (m : mw) (d : list N) : res mw :=
    match mw_append_loop (S (length d)) m d with
    | Ok m' => if mw_off m' =? MB then mw_flush m' else Ok m'
    | r => r
    end.

  (* sqfs_meta_writer_get_position *)
  Definition mw_position (m : mw) : N * N := (mw_boff m, mw_off m).

  (* sqfs_meta_write_write_to_file: every kept block is written (appended) and unlinked *)
  Definition mw_write_to_file (m : mw) : mw :=
    mkMw (mw_cur m) (mw_off m) (mw_boff m) (mw_keep m) [] (mw_out m ++ concat (map write_block (mw_mem m))).

  (* sqfs_meta_writer_reset *)
  Definition mw_reset (m : mw) : mw := mkMw [] 0 0 (mw_keep m) (mw_mem m) (mw_out m).

  (* where the blocks of this writer are (in memory or on file) *)
  Definition mw_disk (m : mw) : list N :=
    if mw_keep m then mw_out m ++ concat (mw_mem m) else mw_out m.

  (* ---- operation sequences (what the theorems quantify over) ---- *)
  Inductive mop : Type := MAppend (d : list N) | MFlush.

  Definition mw_step (m : mw) (o : mop) : res mw :=
    match o with
    | MAppend d => mw_append m d
    | MFlush => mw_flush m
    end.

  Fixpoint mw_run (m : mw) (ops : list mop) : res mw :=
    match ops with
    | [] => Ok m
    | o :: r => match mw_step m o with
                | Ok m' => mw_run m' r
                | Err e => Err e
                | Fuel => Fuel
                end
    end.
End Meta.

(* ---- independent reader side (spec level; written from doc/format.adoc "Metadata blocks") ---- *)
Section MetaRead.
  Variable uncompress : list N -> option (list N).

  (* parse the metadata block at byte offset pos: (uncompressed content, stored size, compressed?) *)
  Definition read_block (disk : list N) (pos : N) : option (list N * N * bool) :=
    let d := dropN pos disk in
    if lenN d <? 2 then None else
    let h := rd16 d in
    let size := h mod META_FLAG in
    let raw := takeN size (dropN 2 d) in
    if lenN raw <? size then None else
    if META_FLAG <=? h then Some (raw, size, false)
    else match uncompress raw with
         | Some b => Some (b, size, true)
         | None => None
         end.

  (* read n bytes starting at offset off of the block at pos, continuing into the following blocks *)
  Fixpoint meta_read (fuel : nat) (disk : list N) (pos off n : N) : option (list N) :=
    if n =? 0 then Some [] else
    match fuel with
    | O => None
    | S f =>
      match read_block disk pos with
      | None => None
      | Some (b, size, _) =>
        let avail := dropN off b in
        if n <=? lenN avail then Some (takeN n avail)
        else match meta_read f disk (pos + 2 + size) 0 (n - lenN avail) with
             | Some r => Some (avail ++ r)
             | None => None
             end
      end
    end.

  (* all blocks of a metadata area, front to back: (content, stored size, compressed?) *)
  Fixpoint parse_blocks (fuel : nat) (disk : list N) (pos : N) : option (list (list N * N * bool)) :=
    if lenN disk <=? pos then Some [] else
    match fuel with
    | O => None
    | S f =>
      match read_block disk pos with
      | None => None
      | Some (b, size, c) =>
        match parse_blocks f disk (pos + 2 + size) with
        | Some r => Some ((b, size, c) :: r)
        | None => None
        end
      end
    end.
End MetaRead.

(* ---- the toy compressor of the component harness (same function in props/C03/h_dirmeta.c) ----
   mode 0: never shrinks.
   mode 1: run-length: a block of >= 5 (and < 2^24) equal bytes x of length n becomes [x; n as le24]; everything else
           "does not shrink".
   mode 2: deliberately breaks the contract (used only to compare model and C code outside the contract):
           blocks shorter than 64 bytes are "compressed" to [0xEE; 0xEE] ++ block. *)
Definition toy_compress (mode : N) (b : list N) : cres :=
  match mode with
  | 0 => CStore
  | 1 => match b with
         | x :: r => if (5 <=? lenN b) && (lenN b <? 16777216) && forallb (N.eqb x) r
                     then CData (x :: le 3 (lenN b)) else CStore
         | [] => CStore
         end
  | _ => if lenN b <? 64 then CData (238 :: 238 :: b) else CStore
  end.

Definition toy_uncompress (c : list N) : option (list N) :=
  match c with
  | [x; a; b; d] => Some (repeat x (N.to_nat (rd 3 [a; b; d])))
  | _ => None
  end.
