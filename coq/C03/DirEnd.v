(* C03 — directory writer, part 3: the stateful sqfs_dir_writer_end model (on top of the meta writer
   model) emits exactly the pure listing of DirRT.v, and the index entries it records denote the header
   positions. *)
From Coq Require Import List NArith ZArith Lia Bool ZifyBool ZifyNat ZifyN.
From SqfsV Require Import Base.Bytes Gen.Constants C03.GenC03 C03.Common C03.ListN C03.MetaModel
  C03.MetaProofs C03.MetaRT C03.DirModel C03.DirProofs C03.DirRT.
Import ListNotations.
Local Open Scope N_scope.

Lemma hdrs_of_fuel : forall f1 f2 off pos l,
  (length l <= f1)%nat -> (length l <= f2)%nat -> hdrs_of f1 off pos l = hdrs_of f2 off pos l.
Proof.
  induction f1 as [|f1 IH]; intros f2 off pos l H1 H2.
  - destruct l; [destruct f2; reflexivity|simpl in H1; lia].
  - destruct l as [|head rest]; [destruct f2; reflexivity|].
    destruct f2 as [|f2]; [simpl in H2; lia|].
    cbn [hdrs_of]. cbv zeta. f_equal.
    destruct (gcec_spec off head rest) as (G1 & _ & G3 & _). cbv zeta in G1, G3.
    assert (lenN (dropN (gcec off (head :: rest)) (head :: rest)) < lenN (head :: rest))
      by (rewrite lenN_dropN; lia).
    apply IH; unfold lenN in *; simpl length in *; lia.
Qed.

Lemma Forall2_imp {A B : Type} (P Q : A -> B -> Prop) l1 l2 :
  (forall a b, P a b -> Q a b) -> Forall2 P l1 l2 -> Forall2 Q l1 l2.
Proof. intros H F. induction F; constructor; auto. Qed.

Lemma listing_of_app a b : listing_of (a ++ b) = listing_of a ++ listing_of b.
Proof. unfold listing_of. rewrite map_app, concat_app. reflexivity. Qed.

Section DirEnd.
  Variable compress : list N -> cres.
  Variable uncompress : list N -> option (list N).
  Hypothesis compress_ok :
    forall b c, compress b = CData c -> lenN c <= lenN b /\ uncompress c = Some b.

  Notation Idle := (Idle compress).
  Notation ext := MetaProofs.ext.
  Notation pos_ok := (pos_ok compress).
  Notation mw_append := (mw_append compress).
  Notation dw_emit := (dw_emit compress).
  Notation dw_end_loop := (dw_end_loop compress).
  Notation dw_end := (dw_end compress).

  (* dm' is dm after appending exactly the bytes d *)
  Definition adv (dm : mw) (raws : list (list N)) (d : list N) (dm' : mw) (raws' : list (list N)) : Prop :=
    Idle dm' raws' /\ ext raws (mw_cur dm) raws' (mw_cur dm') /\
    concat raws' ++ mw_cur dm' = (concat raws ++ mw_cur dm) ++ d /\
    mw_off dm' = (mw_off dm + lenN d) mod MB /\ mw_keep dm' = mw_keep dm.

  Lemma idle_off dm raws : Idle dm raws -> mw_off dm = lenN (mw_cur dm) /\ mw_off dm < MB.
  Proof. intros [(_ & _ & _ & _ & _ & _ & O) L]. split; [exact O|]. rewrite O. exact L. Qed.

  Lemma adv_nil dm raws : Idle dm raws -> adv dm raws [] dm raws.
  Proof.
    intro HI. destruct (idle_off _ _ HI) as [O L]. unfold adv.
    split; [exact HI|]. split; [apply ext_refl|]. split; [rewrite app_nil_r; reflexivity|].
    split; [|reflexivity]. rewrite lenN_nil, N.add_0_r. symmetry. apply N.mod_small. exact L.
  Qed.

  Lemma adv_append dm raws d dm' :
    Idle dm raws -> mw_append dm d = Ok dm' -> exists raws', adv dm raws d dm' raws'.
  Proof.
    intros HI H.
    pose proof (append_offset compress uncompress compress_ok _ _ _ _ HI H) as Hoff.
    destruct (append_spec compress uncompress compress_ok _ _ _ _ HI H) as (fulls & I1 & F1 & C1 & E1 & K1).
    exists (raws ++ fulls). unfold adv.
    split; [exact I1|]. split; [exact E1|]. split; [|split; [|exact K1]].
    - rewrite concat_app, <- !app_assoc. f_equal. exact C1.
    - destruct (idle_off _ _ HI) as [O _]. destruct (idle_off _ _ I1) as [O1 _].
      rewrite O1, O. exact Hoff.
  Qed.

  Lemma adv_trans dm raws d1 dm1 raws1 d2 dm2 raws2 :
    adv dm raws d1 dm1 raws1 -> adv dm1 raws1 d2 dm2 raws2 -> adv dm raws (d1 ++ d2) dm2 raws2.
  Proof.
    intros (I1 & E1 & C1 & O1 & K1) (I2 & E2 & C2 & O2 & K2). unfold adv.
    split; [exact I2|]. split; [eapply ext_trans; eassumption|].
    split; [|split; [|congruence]].
    - rewrite C2, C1, <- !app_assoc. reflexivity.
    - rewrite O2, O1, lenN_app. pose proof MB_pos.
      rewrite N.add_mod_idemp_l by lia. f_equal. lia.
  Qed.

  Lemma adv_idle dm raws d dm' raws' : adv dm raws d dm' raws' -> Idle dm' raws'.
  Proof. intros (I & _). exact I. Qed.

  (* ---- the inner loop ---- *)
  Lemma emit_spec : forall run dm raws size first dm' size',
    Idle dm raws -> dw_emit dm size first run = Ok (dm', size') ->
    exists raws', adv dm raws (enc_body first run) dm' raws' /\ size' = size + run_bytes run.
  Proof.
    induction run as [|it r IH]; intros dm raws size first dm' size' HI H.
    - simpl in H. inversion H; subst. exists raws. split; [apply adv_nil; assumption|].
      simpl. lia.
    - cbn [DirModel.dw_emit] in H.
      destruct (mw_append dm (enc_entry first it)) as [dm1|e|] eqn:A1; try discriminate.
      destruct (mw_append dm1 (de_name it)) as [dm2|e|] eqn:A2; try discriminate.
      destruct (adv_append _ _ _ _ HI A1) as (raws1 & V1).
      destruct (adv_append _ _ _ _ (adv_idle _ _ _ _ _ V1) A2) as (raws2 & V2).
      destruct (IH _ _ _ _ _ _ (adv_idle _ _ _ _ _ V2) H) as (raws3 & V3 & S3).
      exists raws3. split.
      + unfold enc_body. cbn [map concat]. fold (enc_body first r).
        rewrite <- app_assoc. eapply adv_trans; [exact V1|]. eapply adv_trans; [exact V2|exact V3].
      + rewrite S3. change (run_bytes (it :: r)) with (ent_bytes it + run_bytes r).
        unfold ent_bytes. lia.
  Qed.

  Lemma emit_no_fuel : forall run dm raws size first,
    Idle dm raws -> dw_emit dm size first run <> Fuel.
  Proof.
    induction run as [|it r IH]; intros dm raws size first HI; [discriminate|].
    cbn [DirModel.dw_emit].
    destruct (mw_append dm (enc_entry first it)) as [dm1|e|] eqn:A1; try discriminate.
    - destruct (adv_append _ _ _ _ HI A1) as (raws1 & V1).
      destruct (mw_append dm1 (de_name it)) as [dm2|e|] eqn:A2; try discriminate.
      + destruct (adv_append _ _ _ _ (adv_idle _ _ _ _ _ V1) A2) as (raws2 & V2).
        eapply IH. exact (adv_idle _ _ _ _ _ V2).
      + exfalso. exact (append_no_fuel compress uncompress compress_ok _ _ _ (adv_idle _ _ _ _ _ V1) A2).
    - exfalso. exact (append_no_fuel compress uncompress compress_ok _ _ _ HI A1).
  Qed.

  (* ---- the outer loop ---- *)
  (* index entry ix describes header h = (listing position, run); positions are relative to the state
     (dm, raws, size) in which the loop was entered, and are valid in the final state (rawsF, curF) *)
  Definition idx_rel (dm : mw) (raws : list (list N)) (size : N)
             (rawsF : list (list N)) (curF : list N) (ix : idxent) (h : N * list dent) : Prop :=
    hd_error (snd h) = Some (ix_ent ix) /\ ix_index ix = fst h mod U32 /\ size <= fst h /\
    pos_ok rawsF curF (ix_block ix, (mw_off dm + (fst h - size)) mod MB)
           (lenN (concat raws ++ mw_cur dm) + (fst h - size)).

  Lemma end_loop_spec : forall fuel l dm raws size idx dm' size' idx',
    Idle dm raws -> (length l <= fuel)%nat ->
    dw_end_loop fuel dm size idx l = Ok (dm', size', idx') ->
    let hs := hdrs_of fuel (mw_off dm) size l in
    exists raws', adv dm raws (listing_of hs) dm' raws' /\
      size' = size + lenN (listing_of hs) /\
      exists nidx, idx' = idx ++ nidx /\
        Forall2 (idx_rel dm raws size raws' (mw_cur dm')) nidx hs.
  Proof.
    induction fuel as [|f IH]; intros l dm raws size idx dm' size' idx' HI Hf H; cbv zeta.
    - destruct l; [|simpl in Hf; lia]. simpl in H. inversion H; subst.
      exists raws. split; [apply adv_nil; assumption|]. split; [unfold listing_of; simpl; rewrite lenN_nil; lia|].
      exists []. rewrite app_nil_r. split; [reflexivity|constructor].
    - destruct l as [|head rest].
      { simpl in H. inversion H; subst.
        exists raws. split; [apply adv_nil; assumption|].
        split; [unfold listing_of; simpl; rewrite lenN_nil; lia|].
        exists []. rewrite app_nil_r. split; [reflexivity|constructor]. }
      cbn [DirModel.dw_end_loop] in H. unfold mw_position in H. cbv zeta in H.
      cbn [hdrs_of]. cbv zeta.
      destruct (gcec_spec (mw_off dm) head rest) as (G1 & G2 & G3 & G4 & _). cbv zeta in G1, G2, G3, G4.
      set (c := gcec (mw_off dm) (head :: rest)) in *.
      assert (Ht : exists t, takeN c (head :: rest) = head :: t).
      { unfold takeN. destruct (N.to_nat c) eqn:E; [lia|]. simpl. eexists. reflexivity. }
      destruct Ht as (t & Ht).
      assert (Hlr : lenN (takeN c (head :: rest)) = c) by (rewrite lenN_takeN; lia).
      destruct (mw_append dm (enc_header c head)) as [dm1|e|] eqn:A1; try discriminate.
      destruct (dw_emit dm1 (size + HDR_SZ) head (takeN c (head :: rest))) as [[dm2 size2]|e|] eqn:A2;
        try discriminate.
      destruct (adv_append _ _ _ _ HI A1) as (raws1 & V1).
      destruct (emit_spec _ _ _ _ _ _ _ (adv_idle _ _ _ _ _ V1) A2) as (raws2 & V2 & S2).
      pose proof (adv_trans _ _ _ _ _ _ _ _ V1 V2) as V12.
      assert (Erun : enc_header c head ++ enc_body head (takeN c (head :: rest)) = enc_run (takeN c (head :: rest))).
      { rewrite Ht. cbn [enc_run]. rewrite <- Ht, Hlr. reflexivity. }
      rewrite Erun in V12.
      assert (Hne : takeN c (head :: rest) <> []) by (rewrite Ht; discriminate).
      set (run := takeN c (head :: rest)) in *.
      assert (Hsz : lenN (enc_run run) = HDR_SZ + run_bytes run).
      { rewrite (lenN_enc_run _ Hne). rewrite HDR_SZ_val. reflexivity. }
      assert (Hsize2 : size2 = size + lenN (enc_run run)) by (rewrite Hsz; lia).
      assert (Hlen : (length (dropN c (head :: rest)) <= f)%nat).
      { assert (lenN (dropN c (head :: rest)) < lenN (head :: rest)) by (rewrite lenN_dropN; lia).
        unfold lenN in *. simpl length in *. lia. }
      destruct (IH _ _ _ _ _ _ _ _ (adv_idle _ _ _ _ _ V12) Hlen H) as (raws3 & V3 & S3 & nidx & E3 & R3).
      cbv zeta in V3, S3, R3.
      destruct V12 as (I12 & E12 & C12 & O12 & K12).
      rewrite O12, Hsize2 in V3, S3, R3.
      set (hs2 := hdrs_of f ((mw_off dm + lenN (enc_run run)) mod MB) (size + lenN (enc_run run))
                    (dropN c (head :: rest))) in *.
      assert (V : adv dm raws (enc_run run ++ listing_of hs2) dm' raws3).
      { eapply adv_trans; [|exact V3]. exact (conj I12 (conj E12 (conj C12 (conj O12 K12)))). }
      exists raws3.
      change (listing_of ((size, run) :: hs2)) with (enc_run run ++ listing_of hs2).
      split; [exact V|]. split; [rewrite S3, lenN_app; lia|].
      exists (mkIdx head (mw_boff dm) (size mod U32) :: nidx).
      split; [rewrite E3, <- app_assoc; reflexivity|].
      destruct (idle_off _ _ HI) as [O L].
      constructor.
      + unfold idx_rel. cbn [fst snd ix_ent ix_block ix_index].
        split; [change (hd_error run = Some head); rewrite Ht; reflexivity|].
        split; [reflexivity|]. split; [lia|].
        replace (size - size) with 0 by lia. rewrite !N.add_0_r, (N.mod_small _ _ L).
        destruct V as (_ & EV & _).
        eapply (pos_ok_ext compress uncompress compress_ok); [exact EV|].
        pose proof (pos_ok_here compress dm raws HI) as P. unfold mw_position in P.
        rewrite lenN_app. rewrite O in *. exact P.
      + eapply Forall2_imp; [|exact R3]. intros ix h (Q1 & Q2 & Q3 & Q4).
        rewrite O12 in Q4. unfold idx_rel. split; [exact Q1|]. split; [exact Q2|]. split; [lia|].
        replace ((mw_off dm + (fst h - size)) mod MB)
          with (((mw_off dm + lenN (enc_run run)) mod MB + (fst h - (size + lenN (enc_run run)))) mod MB).
        * replace (lenN (concat raws ++ mw_cur dm) + (fst h - size))
            with (lenN (concat raws2 ++ mw_cur dm2) + (fst h - (size + lenN (enc_run run)))); [exact Q4|].
          rewrite C12, lenN_app. lia.
        * pose proof MB_pos. rewrite N.add_mod_idemp_l by lia. f_equal. lia.
  Qed.

  Lemma end_loop_no_fuel : forall fuel l dm raws size idx,
    Idle dm raws -> (length l <= fuel)%nat -> dw_end_loop fuel dm size idx l <> Fuel.
  Proof.
    induction fuel as [|f IH]; intros l dm raws size idx HI Hf.
    - destruct l; [discriminate|simpl in Hf; lia].
    - destruct l as [|head rest]; [discriminate|].
      cbn [DirModel.dw_end_loop]. unfold mw_position. cbv zeta.
      destruct (gcec_spec (mw_off dm) head rest) as (G1 & _ & G3 & _). cbv zeta in G1, G3.
      set (c := gcec (mw_off dm) (head :: rest)) in *.
      destruct (mw_append dm (enc_header c head)) as [dm1|e|] eqn:A1; try discriminate.
      + destruct (adv_append _ _ _ _ HI A1) as (raws1 & V1).
        destruct (dw_emit dm1 (size + HDR_SZ) head (takeN c (head :: rest))) as [[dm2 size2]|e|] eqn:A2;
          try discriminate.
        * destruct (emit_spec _ _ _ _ _ _ _ (adv_idle _ _ _ _ _ V1) A2) as (raws2 & V2 & _).
          eapply IH; [exact (adv_idle _ _ _ _ _ V2)|].
          assert (lenN (dropN c (head :: rest)) < lenN (head :: rest)) by (rewrite lenN_dropN; lia).
          unfold lenN in *. simpl length in *. lia.
        * exfalso. exact (emit_no_fuel _ _ _ _ _ (adv_idle _ _ _ _ _ V1) A2).
      + exfalso. exact (append_no_fuel compress uncompress compress_ok _ _ _ HI A1).
  Qed.

  (* ---- sqfs_dir_writer_begin .. sqfs_dir_writer_end ---- *)
  Theorem dw_end_spec_l : forall w raws w',
    Idle (dw_dm w) raws -> dw_idx w = [] -> dw_size w = 0 ->
    dw_end w = Ok w' ->
    let off := mw_off (dw_dm w) in
    let hs := hdrs_of (length (dw_list w)) off 0 (dw_list w) in
    exists raws',
      adv (dw_dm w) raws (listing off (dw_list w)) (dw_dm w') raws' /\
      dw_size w' = lenN (listing off (dw_list w)) /\
      Forall2 (idx_rel (dw_dm w) raws 0 raws' (mw_cur (dw_dm w'))) (dw_idx w') hs /\
      dw_list w' = dw_list w /\ dw_ref w' = dw_ref w /\ dw_count w' = dw_count w /\
      dw_export w' = dw_export w.
  Proof.
    intros w raws w' HI Hidx Hsize H. cbv zeta. unfold DirModel.dw_end in H.
    destruct (dw_end_loop (S (length (dw_list w))) (dw_dm w) (dw_size w) (dw_idx w) (dw_list w))
      as [[[dm' size'] idx']|e|] eqn:L; try discriminate.
    inversion H; subst w'. cbn [dw_dm dw_size dw_idx dw_list dw_ref dw_count dw_export].
    apply end_loop_spec with (raws := raws) in L; [|assumption|lia].
    cbv zeta in L. destruct L as (raws' & V & Sz & nidx & E & R).
    rewrite Hsize, Hidx in *. simpl in E. subst idx'.
    rewrite (hdrs_of_fuel (S (length (dw_list w))) (length (dw_list w))) in V, Sz, R by lia.
    exists raws'. unfold listing.
    split; [exact V|]. split; [rewrite Sz; lia|]. split; [exact R|].
    repeat split; reflexivity.
  Qed.

  Theorem dw_end_no_fuel_l : forall w raws, Idle (dw_dm w) raws -> dw_end w <> Fuel.
  Proof.
    intros w raws HI. unfold DirModel.dw_end.
    destruct (dw_end_loop (S (length (dw_list w))) (dw_dm w) (dw_size w) (dw_idx w) (dw_list w))
      as [[[dm' size'] idx']|e|] eqn:L; try discriminate.
    exfalso. eapply end_loop_no_fuel; [exact HI| |exact L]. lia.
  Qed.
End DirEnd.
