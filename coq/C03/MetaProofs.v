(* C03 — proofs about the meta writer model (MetaModel.v). *)
From Coq Require Import List NArith ZArith Lia Bool ZifyBool ZifyNat ZifyN.
From SqfsV Require Import Base.Bytes Gen.Constants C03.Common C03.ListN C03.MetaModel.
Import ListNotations.
Local Open Scope N_scope.

(* ---- the only facts about the constants that the proofs use (re-checked against the
        regenerated Constants.v: SQFS_META_BLOCK_SIZE must be positive and below the 0x8000 flag) ---- *)
Lemma MB_pos : 0 < MB.
Proof. reflexivity. Qed.
Lemma MB_small : MB < META_FLAG.
Proof. reflexivity. Qed.
Lemma FLAG_val : META_FLAG = 32768.
Proof. reflexivity. Qed.
Global Opaque MB META_FLAG.

Lemma land_flag n : n < 32768 -> N.land n 32768 = 0.
Proof.
  intro H. apply N.bits_inj_0. intro i. rewrite N.land_spec.
  change 32768 with (2 ^ 15). rewrite N.pow2_bits_eqb.
  destruct (N.eqb_spec 15 i) as [<-|_].
  - rewrite andb_true_r. destruct (N.eq_dec n 0) as [->|Hn]; [apply N.bits_0|].
    apply N.bits_above_log2. apply N.log2_lt_pow2; [lia|exact H].
  - apply andb_false_r.
Qed.

Lemma lor_flag n : n < META_FLAG -> N.lor n META_FLAG = n + META_FLAG.
Proof.
  rewrite FLAG_val. intro H. pose proof (land_flag n H) as L.
  rewrite <- (N.lxor_lor _ _ L), <- (N.add_nocarry_lxor _ _ L). reflexivity.
Qed.

Section Proofs.
  Variable compress : list N -> cres.
  Variable uncompress : list N -> option (list N).
  (* the contract of include/sqfs/compressor.h: a positive result is not larger than the input and
     uncompresses to the input *)
  Hypothesis compress_ok :
    forall b c, compress b = CData c -> lenN c <= lenN b /\ uncompress c = Some b.

  Notation mw_flush := (mw_flush compress).
  Notation mw_append := (mw_append compress).
  Notation mw_append_loop := (mw_append_loop compress).
  Notation mw_run := (mw_run compress).
  Notation mw_step := (mw_step compress).
  Notation read_block := (read_block uncompress).
  Notation meta_read := (meta_read uncompress).
  Notation parse_blocks := (parse_blocks uncompress).

  (* on-disk form of an uncompressed block content r *)
  Definition enc (r : list N) : list N := fst (build_block r (lenN r) (compress r)).
  Definition blk_ok (r : list N) : Prop := 0 < lenN r /\ lenN r <= MB.
  Definition stored_size (r : list N) : N := lenN (enc r) - 2.
  Definition is_comp (r : list N) : bool :=
    match compress r with CData (_ :: _) => true | _ => false end.

  Lemma build_block_count r x :
    snd (build_block r (lenN r) x) = lenN (fst (build_block r (lenN r) x)).
  Proof.
    unfold build_block. destruct x as [e| |[|c0 c]]; cbn [fst snd];
      rewrite lenN_app; unfold le16; rewrite lenN_le; lia.
  Qed.

  Lemma enc_cases r : blk_ok r ->
    (is_comp r = true /\ exists c, compress r = CData c /\ c <> [] /\ enc r = le16 (lenN c) ++ c /\
                          lenN c <= lenN r /\ uncompress c = Some r) \/
    (is_comp r = false /\ enc r = le16 (lenN r + META_FLAG) ++ r).
  Proof.
    intros [Hp Hm]. unfold enc, is_comp, build_block.
    pose proof MB_small.
    destruct (compress r) as [e| |[|c0 c]] eqn:E; cbn [fst].
    - right. split; [reflexivity|]. rewrite lor_flag by lia. reflexivity.
    - right. split; [reflexivity|]. rewrite lor_flag by lia. reflexivity.
    - right. split; [reflexivity|]. rewrite lor_flag by lia. reflexivity.
    - left. split; [reflexivity|]. exists (c0 :: c). destruct (compress_ok _ _ E) as [A B].
      repeat split; try assumption; try reflexivity. discriminate.
  Qed.

  Lemma enc_len r : blk_ok r -> lenN (enc r) = stored_size r + 2.
  Proof.
    intro H. unfold stored_size.
    destruct (enc_cases r H) as [[_ (c & _ & _ & -> & _)]|[_ ->]];
      rewrite lenN_app; unfold le16; rewrite lenN_le; lia.
  Qed.

  Lemma stored_le r : blk_ok r -> stored_size r <= lenN r.
  Proof.
    intro H. unfold stored_size.
    destruct (enc_cases r H) as [[_ (c & _ & _ & -> & L & _)]|[_ ->]];
      rewrite lenN_app; unfold le16; rewrite lenN_le; lia.
  Qed.

  Lemma write_block_enc r : blk_ok r -> write_block (enc r) = enc r.
  Proof.
    intro H. pose proof MB_small as HS. pose proof FLAG_val as HF. destruct H as [Hp Hm].
    unfold write_block.
    destruct (enc_cases r (conj Hp Hm)) as [[_ (c & _ & _ & -> & L & _)]|[_ ->]].
    - rewrite rd16_le16_app by lia. rewrite N.mod_small by lia.
      apply takeN_app_exact. rewrite lenN_app. unfold le16. rewrite lenN_le. lia.
    - rewrite rd16_le16_app by lia.
      replace ((lenN r + META_FLAG) mod META_FLAG) with (lenN r).
      + apply takeN_app_exact. rewrite lenN_app. unfold le16. rewrite lenN_le. lia.
      + rewrite HF in *. lia.
  Qed.

  (* ---- representation invariant ---- *)
  Definition Inv (m : mw) (raws : list (list N)) : Prop :=
    mw_disk m = concat (map enc raws) /\
    mw_boff m = lenN (concat (map enc raws)) /\
    Forall blk_ok raws /\
    lenN (mw_cur m) <= MB /\
    Forall (fun b => write_block b = b) (mw_mem m) /\
    (mw_keep m = false -> mw_mem m = []) /\
    mw_off m = lenN (mw_cur m).

  Definition ne (l : list N) : list (list N) := match l with [] => [] | _ => [l] end.

  (* the abstract state (raws', cur') continues (raws, cur): same closed blocks, the open block only grew *)
  Definition ext (raws : list (list N)) (cur : list N) (raws' : list (list N)) (cur' : list N) : Prop :=
    exists x rest, raws' ++ [cur'] = raws ++ (cur ++ x) :: rest.

  Lemma ext_refl raws cur : ext raws cur raws cur.
  Proof. exists [], []. rewrite app_nil_r. reflexivity. Qed.

  Lemma ext_trans r1 c1 r2 c2 r3 c3 : ext r1 c1 r2 c2 -> ext r2 c2 r3 c3 -> ext r1 c1 r3 c3.
  Proof.
    intros (x & rest & H1) (y & rest' & H2).
    destruct rest as [|b rest0] using rev_ind.
    - apply app_inj_tail in H1. destruct H1 as [-> ->].
      exists (x ++ y), rest'. rewrite H2, <- app_assoc. reflexivity.
    - clear IHrest0.
      change (r1 ++ (c1 ++ x) :: rest0 ++ [b]) with (r1 ++ ((c1 ++ x) :: rest0) ++ [b]) in H1.
      rewrite app_assoc in H1. apply app_inj_tail in H1. destruct H1 as [-> <-].
      exists x, (rest0 ++ (c2 ++ y) :: rest'). rewrite H2.
      rewrite <- app_assoc. reflexivity.
  Qed.

  Lemma Inv_set_cur m raws c o :
    Inv m raws -> lenN c <= MB -> o = lenN c ->
    Inv (mkMw c o (mw_boff m) (mw_keep m) (mw_mem m) (mw_out m)) raws.
  Proof.
    intros (A & B & C & D & E & F & O) H Ho. unfold Inv, mw_disk in *.
    cbn [mw_cur mw_off mw_boff mw_keep mw_mem mw_out].
    repeat split; assumption.
  Qed.

  Lemma flush_spec m raws m' :
    Inv m raws -> mw_flush m = Ok m' ->
    Inv m' (raws ++ ne (mw_cur m)) /\ mw_cur m' = [] /\ mw_keep m' = mw_keep m /\
    (mw_cur m = [] -> m' = m).
  Proof.
    intros (A & B & C & D & E & F & O) H. unfold MetaModel.mw_flush in H. rewrite O in H.
    destruct (lenN (mw_cur m) =? 0) eqn:Z.
    - apply N.eqb_eq in Z. apply lenN_0 in Z. inversion H; subst m'. rewrite Z. simpl ne.
      rewrite app_nil_r. repeat split; assumption.
    - apply N.eqb_neq in Z.
      assert (OK : blk_ok (mw_cur m)) by (split; lia).
      assert (NE : ne (mw_cur m) = [mw_cur m]).
      { destruct (mw_cur m); [exfalso; apply Z; reflexivity|reflexivity]. }
      assert (Hcount : forall x, compress (mw_cur m) = x ->
                 fst (build_block (mw_cur m) (lenN (mw_cur m)) x) = enc (mw_cur m) /\
                 snd (build_block (mw_cur m) (lenN (mw_cur m)) x) = lenN (enc (mw_cur m))).
      { intros x <-. split; [reflexivity|]. rewrite build_block_count. reflexivity. }
      rewrite NE.
      assert (G : forall blk count, blk = enc (mw_cur m) -> count = lenN (enc (mw_cur m)) ->
                (if mw_keep m
                 then Ok (mkMw [] 0 (mw_boff m + count) true (mw_mem m ++ [blk]) (mw_out m))
                 else Ok (mkMw [] 0 (mw_boff m + count) false (mw_mem m) (mw_out m ++ write_block blk))) = Ok m' ->
                Inv m' (raws ++ [mw_cur m]) /\ mw_cur m' = [] /\ mw_keep m' = mw_keep m /\
                (mw_cur m = [] -> m' = m)).
      { intros blk count -> -> G. unfold Inv, mw_disk in *.
        rewrite map_app, concat_app. simpl map. simpl concat. rewrite app_nil_r.
        destruct (mw_keep m) eqn:K; inversion G; subst m'; cbn [mw_cur mw_off mw_boff mw_keep mw_mem mw_out].
        - repeat split.
          + rewrite concat_app. simpl. rewrite app_nil_r, app_assoc, A. reflexivity.
          + rewrite lenN_app, B. reflexivity.
          + apply Forall_app. split; [assumption|]. constructor; [assumption|constructor].
          + rewrite lenN_nil. lia.
          + apply Forall_app. split; [assumption|]. constructor; [|constructor].
            apply write_block_enc. assumption.
          + discriminate.
          + intro Q. exfalso. apply Z. rewrite Q. reflexivity.
        - repeat split.
          + rewrite write_block_enc by assumption. rewrite A. reflexivity.
          + rewrite lenN_app, B. reflexivity.
          + apply Forall_app. split; [assumption|]. constructor; [assumption|constructor].
          + rewrite lenN_nil. lia.
          + assumption.
          + assumption.
          + intro Q. exfalso. apply Z. rewrite Q. reflexivity. }
      destruct (compress (mw_cur m)) as [e| |c] eqn:Ec; [discriminate| |].
      + destruct (Hcount _ eq_refl) as [H1 H2].
        destruct (build_block (mw_cur m) (lenN (mw_cur m)) CStore) as [blk count]. cbn [fst snd] in *.
        apply (G blk count); assumption.
      + destruct (Hcount _ eq_refl) as [H1 H2].
        destruct (build_block (mw_cur m) (lenN (mw_cur m)) (CData c)) as [blk count]. cbn [fst snd] in *.
        apply (G blk count); assumption.
  Qed.

  Ltac split5 := split; [|split; [|split; [|split]]].

  (* ---- the append loop ---- *)
  Definition full (r : list N) : Prop := lenN r = MB.

  Lemma loop_spec : forall fuel d m raws m',
    Inv m raws -> (length d <= fuel)%nat -> mw_append_loop fuel m d = Ok m' ->
    exists fulls, Inv m' (raws ++ fulls) /\ Forall full fulls /\
      concat fulls ++ mw_cur m' = mw_cur m ++ d /\
      ext raws (mw_cur m) (raws ++ fulls) (mw_cur m') /\
      mw_keep m' = mw_keep m.
  Proof.
    induction fuel as [|f IH]; intros d m raws m' HI Hlen H.
    - destruct d; [|simpl in Hlen; lia]. simpl in H. inversion H; subst m'.
      exists []. rewrite !app_nil_r. split5; try assumption; try constructor. apply ext_refl.
    - destruct d as [|x d0].
      + simpl in H. inversion H; subst m'.
        exists []. rewrite !app_nil_r. split5; try assumption; try constructor. apply ext_refl.
      + remember (x :: d0) as d eqn:Ed. cbn [MetaModel.mw_append_loop] in H. rewrite Ed in H at 1.
        pose proof MB_pos as HP.
        assert (Hd : 0 < lenN d) by (rewrite Ed, lenN_cons; lia).
        assert (STEP : forall m1 raws1 diff1, Inv m1 raws1 -> 0 < diff1 -> lenN (mw_cur m1) + diff1 <= MB ->
                  mw_append_loop f
                    (mkMw (mw_cur m1 ++ takeN (if lenN d <? diff1 then lenN d else diff1) d)
                          (mw_off m1 + (if lenN d <? diff1 then lenN d else diff1))
                          (mw_boff m1) (mw_keep m1) (mw_mem m1) (mw_out m1))
                    (dropN (if lenN d <? diff1 then lenN d else diff1) d) = Ok m' ->
                  exists fulls, Inv m' (raws1 ++ fulls) /\ Forall full fulls /\
                    concat fulls ++ mw_cur m' = mw_cur m1 ++ d /\
                    ext raws1 (mw_cur m1) (raws1 ++ fulls) (mw_cur m') /\ mw_keep m' = mw_keep m1).
        { intros m1 raws1 diff1 HI1 Hpos Hfit G.
          set (diff := if lenN d <? diff1 then lenN d else diff1) in *.
          assert (Hdiff : 0 < diff /\ diff <= lenN d /\ diff <= diff1).
          { unfold diff. destruct (lenN d <? diff1) eqn:Q; lia. }
          apply IH with (raws := raws1) in G.
          - destruct G as (fulls & I2 & F2 & C2 & E2 & K2). cbn [mw_cur mw_keep] in *.
            exists fulls. split5; try assumption.
            + rewrite C2, <- app_assoc, takeN_dropN. reflexivity.
            + destruct E2 as (y & rest & E2). exists (takeN diff d ++ y), rest.
              rewrite E2, <- app_assoc. reflexivity.
          - apply Inv_set_cur; [assumption| |]; rewrite lenN_app, lenN_takeN;
              [lia|]. destruct HI1 as (_ & _ & _ & _ & _ & _ & O1). rewrite O1. lia.
          - assert (lenN (dropN diff d) < lenN d) by (rewrite lenN_dropN; lia).
            unfold lenN in *. lia. }
        assert (O : mw_off m = lenN (mw_cur m)) by (destruct HI as (_ & _ & _ & _ & _ & _ & O); exact O).
        destruct (MB - mw_off m =? 0) eqn:Z.
        * apply N.eqb_eq in Z.
          destruct (MetaModel.mw_flush compress m) as [m1|e|] eqn:Fl; try discriminate.
          destruct (flush_spec _ _ _ HI Fl) as (I1 & C1 & K1 & _).
          destruct HI as (A & B & C & D & E & F & _).
          assert (Hfull : lenN (mw_cur m) = MB) by lia.
          assert (NE : ne (mw_cur m) = [mw_cur m]).
          { destruct (mw_cur m); [rewrite lenN_nil in Hfull; lia|reflexivity]. }
          rewrite NE in I1.
          apply (STEP m1 (raws ++ [mw_cur m]) MB) in H; try assumption; [|rewrite C1, lenN_nil; lia].
          destruct H as (fulls & I2 & F2 & C2 & E2 & K2).
          exists (mw_cur m :: fulls). rewrite C1 in *. simpl app in C2.
          split5.
          -- rewrite <- app_assoc in I2. exact I2.
          -- constructor; assumption.
          -- simpl concat. rewrite <- app_assoc, C2. reflexivity.
          -- exists [], (fulls ++ [mw_cur m']). rewrite app_nil_r, <- app_assoc. reflexivity.
          -- congruence.
        * apply N.eqb_neq in Z. pose proof HI as (A & B & C & D & E & F & _).
          apply (STEP m raws (MB - mw_off m)) in H; try lia; assumption.
  Qed.

  Lemma flush_no_fuel m : mw_flush m <> Fuel.
  Proof.
    unfold MetaModel.mw_flush. destruct (mw_off m =? 0); [discriminate|].
    destruct (compress (mw_cur m)); try discriminate;
      destruct (build_block _ _ _); destruct (mw_keep m); discriminate.
  Qed.

  Lemma loop_no_fuel : forall fuel d m raws,
    Inv m raws -> (length d <= fuel)%nat -> mw_append_loop fuel m d <> Fuel.
  Proof.
    induction fuel as [|f IH]; intros d m raws HI Hlen.
    - destruct d; [discriminate|simpl in Hlen; lia].
    - destruct d as [|x d0]; [discriminate|].
      remember (x :: d0) as d eqn:Ed. cbn [MetaModel.mw_append_loop]. rewrite Ed at 1.
      pose proof MB_pos as HP.
      assert (Hd : 0 < lenN d) by (rewrite Ed, lenN_cons; lia).
      assert (STEP : forall m1 raws1 diff1, Inv m1 raws1 -> 0 < diff1 -> lenN (mw_cur m1) + diff1 <= MB ->
                  mw_append_loop f
                    (mkMw (mw_cur m1 ++ takeN (if lenN d <? diff1 then lenN d else diff1) d)
                          (mw_off m1 + (if lenN d <? diff1 then lenN d else diff1))
                          (mw_boff m1) (mw_keep m1) (mw_mem m1) (mw_out m1))
                    (dropN (if lenN d <? diff1 then lenN d else diff1) d) <> Fuel).
      { intros m1 raws1 diff1 HI1 Hpos Hfit.
        set (diff := if lenN d <? diff1 then lenN d else diff1) in *.
        assert (Hdiff : 0 < diff /\ diff <= lenN d /\ diff <= diff1).
        { unfold diff. destruct (lenN d <? diff1) eqn:Q; lia. }
        apply IH with (raws := raws1).
        - apply Inv_set_cur; [assumption| |]; rewrite lenN_app, lenN_takeN;
            [lia|]. destruct HI1 as (_ & _ & _ & _ & _ & _ & O1). rewrite O1. lia.
        - assert (lenN (dropN diff d) < lenN d) by (rewrite lenN_dropN; lia).
          unfold lenN in *. lia. }
      assert (O : mw_off m = lenN (mw_cur m)) by (destruct HI as (_ & _ & _ & _ & _ & _ & O); exact O).
      destruct (MB - mw_off m =? 0) eqn:Z.
      + apply N.eqb_eq in Z.
        destruct (MetaModel.mw_flush compress m) as [m1|e|] eqn:Fl; try discriminate.
        * destruct (flush_spec _ _ _ HI Fl) as (I1 & C1 & K1 & _).
          apply (STEP m1 _ MB I1); [lia|rewrite C1, lenN_nil; lia].
        * exfalso. exact (flush_no_fuel _ Fl).
      + apply N.eqb_neq in Z. pose proof HI as (A & B & C & D & E & F & _).
        apply (STEP m raws (MB - mw_off m)); try lia. assumption.
  Qed.

  (* state between two API calls: the open block is never full (eager flush) *)
  Definition Idle (m : mw) (raws : list (list N)) : Prop := Inv m raws /\ lenN (mw_cur m) < MB.

  Lemma append_spec m raws d m' :
    Idle m raws -> mw_append m d = Ok m' ->
    exists fulls, Idle m' (raws ++ fulls) /\ Forall full fulls /\
      concat fulls ++ mw_cur m' = mw_cur m ++ d /\
      ext raws (mw_cur m) (raws ++ fulls) (mw_cur m') /\
      mw_keep m' = mw_keep m.
  Proof.
    intros [HI Hlt] H. unfold MetaModel.mw_append in H.
    destruct (mw_append_loop (S (length d)) m d) as [m1|e|] eqn:L; try discriminate.
    apply loop_spec with (raws := raws) in L; [|assumption|lia].
    destruct L as (fulls & I1 & F1 & C1 & E1 & K1).
    assert (O1 : mw_off m1 = lenN (mw_cur m1)) by (destruct I1 as (_ & _ & _ & _ & _ & _ & O); exact O).
    rewrite O1 in H.
    destruct (lenN (mw_cur m1) =? MB) eqn:Q.
    - apply N.eqb_eq in Q. destruct (flush_spec _ _ _ I1 H) as (I2 & C2 & K2 & _).
      assert (NE : ne (mw_cur m1) = [mw_cur m1]).
      { destruct (mw_cur m1); [rewrite lenN_nil in Q; pose proof MB_pos; lia|reflexivity]. }
      rewrite NE in I2. exists (fulls ++ [mw_cur m1]). rewrite C2.
      split5.
      + split; [rewrite app_assoc; exact I2|]. rewrite C2, lenN_nil. apply MB_pos.
      + apply Forall_app. split; [assumption|]. constructor; [exact Q|constructor].
      + rewrite concat_app. simpl. rewrite !app_nil_r. exact C1.
      + apply ext_trans with (r2 := raws ++ fulls) (c2 := mw_cur m1); [assumption|].
        exists [], [[]]. rewrite app_nil_r, <- !app_assoc. reflexivity.
      + congruence.
    - apply N.eqb_neq in Q. inversion H; subst m'. exists fulls.
      split5; try assumption. split; [assumption|]. destruct I1 as (A & B & C & D & E & F & _). lia.
  Qed.

  Lemma append_no_fuel m raws d : Idle m raws -> mw_append m d <> Fuel.
  Proof.
    intros [HI _]. unfold MetaModel.mw_append.
    destruct (mw_append_loop (S (length d)) m d) as [m1|e|] eqn:L; try discriminate.
    - destruct (mw_off m1 =? MB); [apply flush_no_fuel|discriminate].
    - exfalso. apply (loop_no_fuel _ _ _ _ HI (Nat.le_succ_diag_r _) L).
  Qed.

  Lemma flush_idle m raws m' :
    Idle m raws -> mw_flush m = Ok m' ->
    Idle m' (raws ++ ne (mw_cur m)) /\ mw_cur m' = [] /\ mw_keep m' = mw_keep m /\
    ext raws (mw_cur m) (raws ++ ne (mw_cur m)) (mw_cur m').
  Proof.
    intros [HI _] H. destruct (flush_spec _ _ _ HI H) as (I1 & C1 & K1 & _).
    split; [split; [assumption|rewrite C1, lenN_nil; apply MB_pos]|].
    split; [assumption|]. split; [assumption|].
    rewrite C1. destruct (mw_cur m) eqn:Ec; simpl ne.
    - rewrite app_nil_r. apply ext_refl.
    - exists [], [[]]. rewrite app_nil_r, <- app_assoc. reflexivity.
  Qed.

  Lemma init_idle keep : Idle (mw_init keep) [].
  Proof.
    unfold Idle, Inv, mw_init, mw_disk. cbn [mw_cur mw_off mw_boff mw_keep mw_mem mw_out].
    pose proof MB_pos.
    destruct keep; simpl; repeat split; try constructor; try reflexivity;
      try (rewrite lenN_nil; lia); try discriminate.
  Qed.
End Proofs.
