(* C06 — unpacking any image writes only inside the chosen unpack directory.
   Statements only; every proof is one [exact] of a lemma from coq/C06/*.v.

   unpack_ops order fl raw : what `rdsquashfs -u / -p R [-C -O -T -X]` does after
   mkdir_p(R); chdir(R) for the image tree [raw] (arbitrary byte strings as
   names / targets / keys, arbitrary order and repetition of entries):
   UDup = refused by tree_sort before anything is touched, UOps l = the
   path-taking system calls in program order (the run stops at the first one
   that fails).  [order] is the qsort of the file list by on-disk location: any
   permutation.  run ... fuel W R l executes l in the POSIX model of
   C06/FsModel.v with working directory R. *)
From Coq Require Import List NArith Bool Permutation.
From SqfsV Require Import C18.CanonModel C18.CanonSpec C18.CanonProofs
     C06.UnpackModel C06.SortProofs C06.UnpackProofs C06.PathsProofs
     C06.FsModel C06.FsProofs C06.MainProofs.
Import ListNotations.
Local Open Scope N_scope.

(* ---- the model is total: merge-sort fuel suffices, the assert() behind
   canonicalize_name is never reached ---- *)
Theorem unpack_total : forall order fl raw, unpack_ops order fl raw <> UFuel.
Proof. exact unpack_never_fuel. Qed.
Print Assumptions unpack_total.

Theorem unpack_no_assert :
  forall order, (forall l, Permutation l (order l)) ->
  forall fl raw ops, unpack_ops order fl raw = UOps ops -> ~ In OAssert ops.
Proof. exact unpack_never_assert. Qed.
Print Assumptions unpack_no_assert.

(* ---- tree_sort: an accepted tree is the same tree with the children of every
   directory permuted, and no directory has two entries with the same (C string)
   name; it refuses exactly the trees that have such a directory ---- *)
Theorem tree_sort_sound : forall t t', tree_sort t = SortOk t' -> sorted_ok t' /\ tperm t t'.
Proof. exact tree_sort_ok. Qed.
Print Assumptions tree_sort_sound.

Theorem tree_sort_accepts_distinct : forall t, names_distinct t -> exists t', tree_sort t = SortOk t'.
Proof. exact tree_sort_accepts. Qed.
Print Assumptions tree_sort_accepts_distinct.

Theorem tree_sort_refuses_only_duplicates : forall t, tree_sort t = SortDup -> ~ names_distinct t.
Proof. exact tree_sort_dup. Qed.
Print Assumptions tree_sort_refuses_only_duplicates.

(* ---- ops_paths_clean: every path handed to a system call is empty (that is the
   path of the root entry itself; the statement does not say for which root
   kinds it occurs - an independent audit pointed out that an earlier comment
   claimed more - and unpack_confined below covers the empty path like every
   other: nothing at or above R changes) or relative with only
   non-empty components other than "." and "..", and every proper prefix of it
   was the argument of an earlier mkdir of the same run ---- *)
Theorem ops_paths_clean :
  forall order, (forall l, Permutation l (order l)) ->
  forall fl raw ops, unpack_ops order fl raw = UOps ops ->
  forall l1 o l2 p, ops = l1 ++ o :: l2 -> op_path o = Some p ->
  p = [] \/
  (Forall clean_comp (split_slash p) /\ (forall x, p <> slash :: x) /\
   forall pre c r, split_slash p = pre ++ c :: r -> pre <> [] ->
                   exists q, In (OMkdir q) l1 /\ split_slash q = pre).
Proof. exact ops_paths_clean_l. Qed.
Print Assumptions ops_paths_clean.

(* ---- unpack_confined: for every image tree, every option set, every order of
   filling the files, whatever values the calls write, every fuel, and every
   initial world in which no symbolic link exists at or below R: the world
   after the run equals the initial world at every physical path that is not
   strictly beneath R (same object or same absence, same metadata, content,
   link target). ---- *)
Theorem unpack_confined :
  forall order, (forall l, Permutation l (order l)) ->
  forall (new_meta : op -> meta) (set_meta : op -> meta -> meta) (new_data : op -> data)
         fl raw ops fuel (W : world) (R : list (list N)),
  unpack_ops order fl raw = UOps ops ->
  (forall s m tgt, W (R ++ s) <> Some (OLink m tgt)) ->
  forall q, ~ under R q -> fst (run new_meta set_meta new_data fuel W R ops) q = W q.
Proof. exact unpack_confined_l. Qed.
Print Assumptions unpack_confined.

(* the step behind it, for any world that has links only where this image put
   them: a call on a clean path that has no such link as a proper prefix (nor as
   its last component if the call follows) touches exactly R ++ path *)
Theorem exec_op_confined :
  forall new_meta set_meta new_data fuel W R LS o W',
  links_in W R LS -> op_safe LS o ->
  exec_op new_meta set_meta new_data fuel W R o = Some W' ->
  links_in W' R LS /\ (forall q, ~ under R q -> W' q = W q).
Proof. exact exec_op_inv. Qed.
Print Assumptions exec_op_confined.

(* ---- skip_is_local: the entries refused by is_filename_sane remove exactly
   their own subtrees from all three walks: the operations are those of the
   image without them, in which nothing is skipped ---- *)
Theorem skip_is_local :
  forall order fl t, ops_of_sorted order fl (prune t) = ops_of_sorted order fl t.
Proof. exact skip_is_local_l. Qed.
Print Assumptions skip_is_local.

(* ---- the rest of the image is still unpacked: the accepted tree is the image
   tree up to the order of entries, and every entry of it that is reachable
   through accepted non-empty names has its creating call (mkdir / symlink /
   mknod / open O_EXCL, by kind) in the list ---- *)
Theorem unpack_covers :
  forall order fl raw ops, unpack_ops order fl raw = UOps ops ->
  exists t, tree_sort (load raw) = SortOk t /\ tperm (load raw) t /\
    (iname t = [] ->
     forall cs k, In (cs, k) (visit_root t) -> Forall clean_name cs ->
                  exists tg, In (create_op k tg (join cs)) ops).
Proof. exact unpack_covers_l. Qed.
Print Assumptions unpack_covers.

Theorem prune_skips_nothing : forall t, is_dir (ikind t) = true -> skipped (prune t) = [].
Proof. exact skipped_prune. Qed.
Print Assumptions prune_skips_nothing.

(* ================= witnesses and non-vacuity ================= *)
Definition s_d := [100].                                  (* "d" *)
Definition s_pwn := [112; 119; 110].                      (* "pwn" *)
Definition s_up_outside := [46; 46; 47; 111; 117; 116; 115; 105; 100; 101].   (* "../outside" *)
Definition s_w := [119].
Definition s_R := [82].
Definition s_outside := [111; 117; 116; 115; 105; 100; 101].
Definition all_flags := mk_uflags true true true true.
Definition idorder (l : list (list N)) := l.
Definition nm (_ : op) : meta := 1.
Definition sm (_ : op) (m : meta) : meta := m + 1.
Definition nd (_ : op) : data := 1.

(* /, /w, /w/R (unpack root), /w/outside *)
Definition world0 : world :=
  world_of [([], ODir 0); ([s_w], ODir 0); ([s_w; s_R], ODir 0); ([s_w; s_outside], ODir 0)].
Definition R0 := [s_w; s_R].

Lemma world0_no_links : forall s m tgt, world0 (R0 ++ s) <> Some (OLink m tgt).
Proof.
  intros s m tgt. unfold world0, world_of, upd.
  repeat match goal with |- context [ppath_eqb ?a ?b] => destruct (ppath_eqb a b) end; discriminate.
Qed.

Lemma outside_pwn_not_under : ~ under R0 [s_w; s_outside; s_pwn].
Proof. intros (s & _ & E). discriminate E. Qed.

(* the attack image: symlink d -> ../outside next to directory d containing pwn *)
Definition attack : itree :=
  INode [] KDir [] []
    [ INode s_d KLnk s_up_outside [] [];
      INode s_d KDir [] [] [ INode s_pwn KReg [] [] [] ] ].

(* the real code refuses it ... *)
Example attack_refused : unpack_ops idorder all_flags attack = UDup.
Proof. vm_compute. reflexivity. Qed.

(* ... and has to: without the duplicate test of tree_sort (the walks applied
   to the merely sorted tree) the run creates /w/outside/pwn. *)
Theorem unpack_dup_needed_refuted :
  exists t W R q,
    (forall s m tgt, W (R ++ s) <> Some (OLink m tgt)) /\ ~ under R q /\
    fst (run nm sm nd 100 W R (ops_of_sorted idorder all_flags t)) q <> W q.
Proof.
  exists attack, world0, R0, [s_w; s_outside; s_pwn].
  split; [exact world0_no_links|]. split; [exact outside_pwn_not_under|].
  vm_compute. discriminate.
Qed.
Print Assumptions unpack_dup_needed_refuted.

(* the hypothesis "no symbolic link at or below R" cannot be dropped: with
   /w/R/d -> ../outside already present, a harmless image (directory d with
   file pwn) is unpacked through it (mkdir tolerates EEXIST). *)
Definition benign : itree :=
  INode [] KDir [] [] [ INode s_d KDir [] [] [ INode s_pwn KReg [] [] [] ] ].
Definition world_planted : world := upd world0 [s_w; s_R; s_d] (OLink 0 s_up_outside).

Theorem unpack_preexisting_link_refuted :
  exists ops q,
    unpack_ops idorder all_flags benign = UOps ops /\ ~ under R0 q /\
    fst (run nm sm nd 100 world_planted R0 ops) q <> world_planted q.
Proof.
  eexists. exists [s_w; s_outside; s_pwn]. split; [vm_compute; reflexivity|].
  split; [exact outside_pwn_not_under|]. vm_compute. discriminate.
Qed.
Print Assumptions unpack_preexisting_link_refuted.

(* non-vacuity of unpack_confined: a hostile but duplicate-free image is
   accepted, all of its calls succeed, objects appear beneath R. *)
Definition s_dotdot := [46; 46].
Definition s_slashname := [100; 47; 112].       (* "d/p" *)
Definition s_nul := [120; 0; 121].              (* "x\0y" *)
Definition hostile : itree :=
  INode [] KDir [] []
    [ INode s_pwn KDir [] [] [ INode s_d KLnk s_up_outside [] []; INode s_nul KReg [] [[117]] [] ];
      INode s_dotdot KDir [] [] [ INode s_pwn KReg [] [] [] ];
      INode s_slashname KReg [] [] [];
      INode s_d KLnk [47] [] [] ].

Example hostile_ops :
  unpack_ops idorder all_flags hostile =
  UOps [ OSymlink [47] s_d; OMkdir s_pwn; OSymlink s_up_outside (s_pwn ++ [47] ++ s_d);
         OCreatExcl (s_pwn ++ [47; 120]); OOpenTrunc (s_pwn ++ [47; 120]);
         OUtimens s_d; OChown s_d;
         OUtimens (s_pwn ++ [47] ++ s_d); OChown (s_pwn ++ [47] ++ s_d);
         OSetxattr (s_pwn ++ [47; 120]) [117]; OUtimens (s_pwn ++ [47; 120]); OChown (s_pwn ++ [47; 120]);
         OChmod (s_pwn ++ [47; 120]);
         OUtimens s_pwn; OChown s_pwn; OChmod s_pwn ].
Proof. vm_compute. reflexivity. Qed.

Example hostile_runs_to_completion :
  match unpack_ops idorder all_flags hostile with
  | UOps ops =>
    let (Wf, n) := run nm sm nd 20 world0 R0 ops in
    n = length ops /\ Wf [s_w; s_R; s_pwn; [120]] = Some (OFile 5 1) /\
    Wf [s_w; s_R; s_d] = Some (OLink 3 [47]) /\ Wf [s_w; s_outside; s_pwn] = None
  | _ => False
  end.
Proof. vm_compute. repeat split. Qed.

Example hostile_skipped :
  match tree_sort (load hostile) with
  | SortOk t => skipped t = [s_dotdot; s_slashname]
  | _ => False
  end.
Proof. vm_compute. reflexivity. Qed.

(* names cut at the first NUL collide: "d" and "d\0z" are the same entry *)
Example nul_cut_duplicate :
  unpack_ops idorder all_flags
    (INode [] KDir [] [] [ INode s_d KLnk s_up_outside [] []; INode [100; 0; 122] KDir [] [] [] ]) = UDup.
Proof. vm_compute. reflexivity. Qed.

(* an entry whose C-string name is empty passes is_filename_sane but
   sqfs_tree_node_get_path refuses it: the tool gives up *)
Example empty_name_aborts :
  unpack_ops idorder all_flags (INode [] KDir [] [] [ INode [0] KDir [] [] [] ]) = UOps [OAbort; OAbort].
Proof. vm_compute. reflexivity. Qed.

(* a root inode that is not a directory: the only paths are empty *)
Example root_symlink :
  unpack_ops idorder all_flags (INode [] KLnk s_up_outside [] []) =
  UOps [OSymlink s_up_outside []; OUtimens []; OChown []].
Proof. vm_compute. reflexivity. Qed.
