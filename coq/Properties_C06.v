(* C06 — unpacking any image writes only inside the chosen unpack directory.
   Statements only; every proof is one [exact] of a lemma from coq/C06/*.v.

   unpack_ops order fl raw : what `rdsquashfs -u / -p R [-C -O -T -X]` does after
   mkdir_p(R); chdir(R) for the image tree [raw] (arbitrary byte strings as
   names / targets / keys, arbitrary order and repetition of entries):
   UDup = refused by tree_sort before anything is touched, UOps l = the
   path-taking system calls in program order (the run stops at the first one
   that fails).  [order] is the qsort of the file list by on-disk location: any
   permutation.  run ... fuel W R l executes l in the POSIX model of
   C06/FsModel.v with working directory R. *)
From Coq Require Import List NArith Bool Permutation.
From SqfsV Require Import C18.CanonModel C18.CanonSpec C18.CanonProofs
     C06.UnpackModel C06.SortProofs C06.UnpackProofs C06.PathsProofs
     C06.FsModel C06.FsProofs C06.MainProofs.
Import ListNotations.
Local Open Scope N_scope.

(* ---- the model is total: merge-sort fuel suffices, the assert() behind
   canonicalize_name is never reached ---- *)
Theorem unpack_total : forall order fl raw, unpack_ops order fl raw <> UFuel.
Proof. exact unpack_never_fuel. Qed.
Print Assumptions unpack_total.

Theorem unpack_no_assert :
  forall order, (forall l, Permutation l (order l)) ->
  forall fl raw ops, unpack_ops order fl raw = UOps ops -> ~ In OAssert ops.
Proof. exact unpack_never_assert. Qed.
Print Assumptions unpack_no_assert.

(* ---- tree_sort: an accepted tree is the same tree with the children of every
   directory permuted, and no directory has two entries with the same (C string)
   name; it refuses exactly the trees that have such a directory ---- *)
Theorem tree_sort_sound : forall t t', tree_sort t = SortOk t' -> sorted_ok t' /\ tperm t t'.
Proof. exact tree_sort_ok. Qed.
Print Assumptions tree_sort_sound.

Theorem tree_sort_accepts_distinct : forall t, names_distinct t -> exists t', tree_sort t = SortOk t'.
Proof. exact tree_sort_accepts. Qed.
Print Assumptions tree_sort_accepts_distinct.

Theorem tree_sort_refuses_only_duplicates : forall t, tree_sort t = SortDup -> ~ names_distinct t.
Proof. exact tree_sort_dup. Qed.
Print Assumptions tree_sort_refuses_only_duplicates.

(* ---- ops_paths_clean: every path handed to a system call is empty (that is the
   path of the root entry itself; the statement does not say for which root
   kinds it occurs - an independent audit pointed out that an earlier comment
   claimed more - and unpack_confined below covers the empty path like every
   other: nothing at or above R changes) or relative with only
   non-empty components other than "." and "..", and every proper prefix of it
   was the argument of an earlier mkdir of the same run ---- *)
Theorem ops_paths_clean :
  forall order, (forall l, Permutation l (order l)) ->
  forall fl raw ops, unpack_ops order fl raw = UOps ops ->
  forall l1 o l2 p, ops = l1 ++ o :: l2 -> op_path o = Some p ->
  p = [] \/
  (Forall clean_comp (split_slash p) /\ (forall x, p <> slash :: x) /\
   forall pre c r, split_slash p = pre ++ c :: r -> pre <> [] ->
                   exists q, In (OMkdir q) l1 /\ split_slash q = pre).
Proof. exact ops_paths_clean_l. Qed.
Print Assumptions ops_paths_clean.

(* ---- unpack_confined: for every image tree, every option set, every order of
   filling the files, whatever values the calls write, every fuel, and every
   initial world in which no symbolic link exists at or below R: the world
   after the run equals the initial world at every physical path that is not
   strictly beneath R (same object or same absence, same metadata, content,
   link target). ---- *)
Theorem unpack_confined :
  forall order, (forall l, Permutation l (order l)) ->
  forall (new_meta : op -> meta) (set_meta : op -> meta -> meta) (new_data : op -> data)
         fl raw ops fuel (W : world) (R : list (list N)),
  unpack_ops order fl raw = UOps ops ->
  (forall s m tgt, W (R ++ s) <> Some (OLink m tgt)) ->
  forall q, ~ under R q -> fst (run new_meta set_meta new_data fuel W R ops) q = W q.
Proof. exact unpack_confined_l. Qed.
Print Assumptions unpack_confined.

(* the step behind it, for any world that has links only where this image put
   them: a call on a clean path that has no such link as a proper prefix (nor as
   its last component if the call follows) touches exactly R ++ path *)
Theorem exec_op_confined :
  forall new_meta set_meta new_data fuel W R LS o W',
  links_in W R LS -> op_safe LS o ->
  exec_op new_meta set_meta new_data fuel W R o = Some W' ->
  links_in W' R LS /\ (forall q, ~ under R q -> W' q = W q).
Proof. exact exec_op_inv. Qed.
Print Assumptions exec_op_confined.

(* ---- skip_is_local: the entries refused by is_filename_sane remove exactly
   their own subtrees from all three walks: the operations are those of the
   image without them, in which nothing is skipped ---- *)
Theorem skip_is_local :
  forall order fl t, ops_of_sorted order fl (prune t) = ops_of_sorted order fl t.
Proof. exact skip_is_local_l. Qed.
Print Assumptions skip_is_local.

(* ---- the rest of the image is still unpacked: the accepted tree is the image
   tree up to the order of entries, and every entry of it that is reachable
   through accepted non-empty names has its creating call (mkdir / symlink /
   mknod / open O_EXCL, by kind) in the list ---- *)
Theorem unpack_covers :
  forall order fl raw ops, unpack_ops order fl raw = UOps ops ->
  exists t, tree_sort (load raw) = SortOk t /\ tperm (load raw) t /\
    (iname t = [] ->
     forall cs k, In (cs, k) (visit_root t) -> Forall clean_name cs ->
                  exists tg, In (create_op k tg (join cs)) ops).
Proof. exact unpack_covers_l. Qed.
Print Assumptions unpack_covers.

Theorem prune_skips_nothing : forall t, is_dir (ikind t) = true -> skipped (prune t) = [].
Proof. exact skipped_prune. Qed.
Print Assumptions prune_skips_nothing.

(* ================= witnesses and non-vacuity ================= *)
Definition s_d := [100].                                  (* "d" *)
Definition s_pwn := [112; 119; 110].                      (* "pwn" *)
Definition s_up_outside := [46; 46; 47; 111; 117; 116; 115; 105; 100; 101].   (* "../outside" *)
Definition s_w := [119].
Definition s_R := [82].
Definition s_outside := [111; 117; 116; 115; 105; 100; 101].
Definition all_flags := mk_uflags true true true true.
Definition idorder (l : list (list N)) := l.
Definition nm (_ : op) : meta := 1.
Definition sm (_ : op) (m : meta) : meta := m + 1.
Definition nd (_ : op) : data := 1.

(* /, /w, /w/R (unpack root), /w/outside *)
Definition world0 : world :=
  world_of [([], ODir 0); ([s_w], ODir 0); ([s_w; s_R], ODir 0); ([s_w; s_outside], ODir 0)].
Definition R0 := [s_w; s_R].

Lemma world0_no_links : forall s m tgt, world0 (R0 ++ s) <> Some (OLink m tgt).
Proof.
  intros s m tgt. unfold world0, world_of, upd.
  repeat match goal with |- context [ppath_eqb ?a ?b] => destruct (ppath_eqb a b) end; discriminate.
Qed.

Lemma outside_pwn_not_under : ~ under R0 [s_w; s_outside; s_pwn].
Proof. intros (s & _ & E). discriminate E. Qed.

(* the attack image: symlink d -> ../outside next to directory d containing pwn *)
Definition attack : itree :=
  INode [] KDir [] []
    [ INode s_d KLnk s_up_outside [] [];
      INode s_d KDir [] [] [ INode s_pwn KReg [] [] [] ] ].

(* the real code refuses it ... *)
Example attack_refused : unpack_ops idorder all_flags attack = UDup.
Proof. vm_compute. reflexivity. Qed.

(* ... and has to: without the duplicate test of tree_sort (the walks applied
   to the merely sorted tree) the run creates /w/outside/pwn. *)
Theorem unpack_dup_needed_refuted :
  exists t W R q,
    (forall s m tgt, W (R ++ s) <> Some (OLink m tgt)) /\ ~ under R q /\
    fst (run nm sm nd 100 W R (ops_of_sorted idorder all_flags t)) q <> W q.
Proof.
  exists attack, world0, R0, [s_w; s_outside; s_pwn].
  split; [exact world0_no_links|]. split; [exact outside_pwn_not_under|].
  vm_compute. discriminate.
Qed.
Print Assumptions unpack_dup_needed_refuted.

(* the hypothesis "no symbolic link at or below R" cannot be dropped: with
   /w/R/d -> ../outside already present, a harmless image (directory d with
   file pwn) is unpacked through it (mkdir tolerates EEXIST). *)
Definition benign : itree :=
  INode [] KDir [] [] [ INode s_d KDir [] [] [ INode s_pwn KReg [] [] [] ] ].
Definition world_planted : world := upd world0 [s_w; s_R; s_d] (OLink 0 s_up_outside).

Theorem unpack_preexisting_link_refuted :
  exists ops q,
    unpack_ops idorder all_flags benign = UOps ops /\ ~ under R0 q /\
    fst (run nm sm nd 100 world_planted R0 ops) q <> world_planted q.
Proof.
  eexists. exists [s_w; s_outside; s_pwn]. split; [vm_compute; reflexivity|].
  split; [exact outside_pwn_not_under|]. vm_compute. discriminate.
Qed.
Print Assumptions unpack_preexisting_link_refuted.

(* non-vacuity of unpack_confined: a hostile but duplicate-free image is
   accepted, all of its calls succeed, objects appear beneath R. *)
Definition s_dotdot := [46; 46].
Definition s_slashname := [100; 47; 112].       (* "d/p" *)
Definition s_nul := [120; 0; 121].              (* "x\0y" *)
Definition hostile : itree :=
  INode [] KDir [] []
    [ INode s_pwn KDir [] [] [ INode s_d KLnk s_up_outside [] []; INode s_nul KReg [] [[117]] [] ];
      INode s_dotdot KDir [] [] [ INode s_pwn KReg [] [] [] ];
      INode s_slashname KReg [] [] [];
      INode s_d KLnk [47] [] [] ].

Example hostile_ops :
  unpack_ops idorder all_flags hostile =
  UOps [ OSymlink [47] s_d; OMkdir s_pwn; OSymlink s_up_outside (s_pwn ++ [47] ++ s_d);
         OCreatExcl (s_pwn ++ [47; 120]); OOpenTrunc (s_pwn ++ [47; 120]);
         OUtimens s_d; OChown s_d;
         OUtimens (s_pwn ++ [47] ++ s_d); OChown (s_pwn ++ [47] ++ s_d);
         OSetxattr (s_pwn ++ [47; 120]) [117]; OUtimens (s_pwn ++ [47; 120]); OChown (s_pwn ++ [47; 120]);
         OChmod (s_pwn ++ [47; 120]);
         OUtimens s_pwn; OChown s_pwn; OChmod s_pwn ].
Proof. vm_compute. reflexivity. Qed.

Example hostile_runs_to_completion :
  match unpack_ops idorder all_flags hostile with
  | UOps ops =>
    let (Wf, n) := run nm sm nd 20 world0 R0 ops in
    n = length ops /\ Wf [s_w; s_R; s_pwn; [120]] = Some (OFile 5 1) /\
    Wf [s_w; s_R; s_d] = Some (OLink 3 [47]) /\ Wf [s_w; s_outside; s_pwn] = None
  | _ => False
  end.
Proof. vm_compute. repeat split. Qed.

Example hostile_skipped :
  match tree_sort (load hostile) with
  | SortOk t => skipped t = [s_dotdot; s_slashname]
  | _ => False
  end.
Proof. vm_compute. reflexivity. Qed.

(* names cut at the first NUL collide: "d" and "d\0z" are the same entry *)
Example nul_cut_duplicate :
  unpack_ops idorder all_flags
    (INode [] KDir [] [] [ INode s_d KLnk s_up_outside [] []; INode [100; 0; 122] KDir [] [] [] ]) = UDup.
Proof. vm_compute. reflexivity. Qed.

(* an entry whose C-string name is empty passes is_filename_sane but
   sqfs_tree_node_get_path refuses it: the tool gives up *)
Example empty_name_aborts :
  unpack_ops idorder all_flags (INode [] KDir [] [] [ INode [0] KDir [] [] [] ]) = UOps [OAbort; OAbort].
Proof. vm_compute. reflexivity. Qed.

(* a root inode that is not a directory: the only paths are empty *)
Example root_symlink :
  unpack_ops idorder all_flags (INode [] KLnk s_up_outside [] []) =
  UOps [OSymlink s_up_outside []; OUtimens []; OChown []].
Proof. vm_compute. reflexivity. Qed.

(* ======================================================================
   Session 3 extension: a NON-FRESH unpack root, and the root handling of main()
   (coq/C06/RootsNonfresh.v, RootsModel.v, RootsMain.v)
   ====================================================================== *)
From SqfsV Require Import C06.RootsModel C06.RootsNonfresh C06.RootsMain.

(* ---- unpack_nonfresh_characterised: EVERY initial world (R may hold files,
   directories and symbolic links left by earlier runs, at names the image uses
   or not).  If after the run any physical path q that is not strictly beneath R
   differs from before, then there is a witness: one of the run's own
   (EEXIST-tolerant) mkdir calls, with path p, and a symbolic link that existed
   BEFORE the run at R/p.  No other way out of R exists. ---- *)
Theorem unpack_nonfresh_characterised :
  forall order, (forall l, Permutation l (order l)) ->
  forall (new_meta : op -> meta) (set_meta : op -> meta -> meta) (new_data : op -> data)
         fl raw ops fuel (W : world) (R : list (list N)) q,
  unpack_ops order fl raw = UOps ops ->
  ~ under R q ->
  fst (run new_meta set_meta new_data fuel W R ops) q <> W q ->
  exists p m tgt, In (OMkdir p) ops /\ W (R ++ split_slash p) = Some (OLink m tgt).
Proof. exact unpack_nonfresh_characterised_l. Qed.
Print Assumptions unpack_nonfresh_characterised.

(* the witness' mkdir is the mkdir of a DIRECTORY of the (sorted) image: its
   path is the clean join of the names leading to a visited KDir node *)
Theorem witness_is_image_directory :
  forall order, (forall l, Permutation l (order l)) ->
  forall fl raw ops p, unpack_ops order fl raw = UOps ops -> In (OMkdir p) ops ->
  exists t, tree_sort (load raw) = SortOk t /\
    (p = [] \/ exists cs, p = join cs /\ cs <> [] /\ Forall clean_name cs /\ In (cs, KDir) (visit_root t)).
Proof. exact mkdir_is_image_dir. Qed.
Print Assumptions witness_is_image_directory.

(* ---- no_write_through_preexisting_link: R may contain symbolic links at the
   names the image uses for regular files, devices, fifos, sockets and symbolic
   links, and anywhere else; as long as none sits where the run makes a
   DIRECTORY, (1) no object outside R is created or changed, in content or
   metadata, and (2) every symbolic link that existed below R is still exactly
   the same object.  (unpack_confined is the special case without any link.) ---- *)
Theorem no_write_through_preexisting_link :
  forall order, (forall l, Permutation l (order l)) ->
  forall (new_meta : op -> meta) (set_meta : op -> meta -> meta) (new_data : op -> data)
         fl raw ops fuel (W : world) (R : list (list N)),
  unpack_ops order fl raw = UOps ops ->
  no_link_at_mkdir W R ops ->
  (forall q, ~ under R q -> fst (run new_meta set_meta new_data fuel W R ops) q = W q) /\
  (forall s m tgt, W (R ++ s) = Some (OLink m tgt) ->
                   fst (run new_meta set_meta new_data fuel W R ops) (R ++ s) = Some (OLink m tgt)).
Proof. exact unpack_nonfresh_l. Qed.
Print Assumptions no_write_through_preexisting_link.

(* why: (a) symlink / mknod / open(O_CREAT|O_EXCL) fail on ANY existing name,
   a symbolic link included (the run stops with an error) ... *)
Theorem excl_create_refuses_existing :
  forall new_meta set_meta new_data fuel W R o p pp ob,
  excl_create o = true -> op_path o = Some p ->
  resolve fuel W R p false = RFound pp ob ->
  exec_op new_meta set_meta new_data fuel W R o = None.
Proof. exact excl_create_refuses_existing_l. Qed.
Print Assumptions excl_create_refuses_existing.

(* ... when they succeed, exactly one object appears at a place where the
   no-follow resolution found nothing, a regular file being empty ... *)
Theorem excl_create_effect :
  forall new_meta set_meta new_data fuel W R o p W',
  excl_create o = true -> op_path o = Some p ->
  exec_op new_meta set_meta new_data fuel W R o = Some W' ->
  exists pp ob, resolve fuel W R p false = RMissing pp /\ W' = upd W pp ob /\
                (forall m d, ob = OFile m d -> d = 0).
Proof. exact excl_create_effect_l. Qed.
Print Assumptions excl_create_effect.

(* ... and (b) the fill pass opens (O_TRUNC, following) only names whose
   exclusive creation stands earlier in the list of the same run *)
Theorem fill_opens_only_created :
  forall order, (forall l, Permutation l (order l)) ->
  forall fl raw ops l1 p l2,
  unpack_ops order fl raw = UOps ops -> ops = l1 ++ OOpenTrunc p :: l2 ->
  p = [] \/ In (OCreatExcl p) l1.
Proof. exact fill_opens_only_created_l. Qed.
Print Assumptions fill_opens_only_created.

(* ---- witnesses.  /w/R holds conf -> ../outside/victim (an earlier image's
   legitimate symlink) and an unrelated link zz -> /; the second image has a
   regular file conf and a directory d with file pwn. ---- *)
Definition s_conf := [99; 111; 110; 102].                   (* "conf" *)
Definition s_zz := [122; 122].
Definition s_victim := [118; 105; 99; 116; 105; 109].       (* "victim" *)
Definition s_to_victim := [46; 46; 47; 111; 117; 116; 115; 105; 100; 101; 47; 118; 105; 99; 116; 105; 109].
Definition second_image : itree :=
  INode [] KDir [] [] [ INode s_conf KReg [] [] []; INode s_d KDir [] [] [ INode s_pwn KReg [] [] [] ] ].
Definition world_nonfresh : world :=
  upd (upd (upd world0 [s_w; s_outside; s_victim] (OFile 0 7))
           [s_w; s_R; s_conf] (OLink 0 s_to_victim))
      [s_w; s_R; s_zz] (OLink 0 [47]).
Definition victim_path : list (list N) := [s_w; s_outside; s_victim].

Lemma victim_not_under : ~ under R0 victim_path.
Proof. intros (s & _ & E). discriminate E. Qed.

(* non-vacuity of no_write_through_preexisting_link: the hypothesis holds in a
   world WITH symbolic links below R (one at the name of a regular file of the
   image); the run stops at the first call, open(conf, O_CREAT|O_EXCL) = EEXIST *)
Example nonfresh_hypothesis_holds :
  match unpack_ops idorder all_flags second_image with
  | UOps ops =>
    ops = [OCreatExcl s_conf; OMkdir s_d; OCreatExcl (s_d ++ [47] ++ s_pwn);
           OOpenTrunc s_conf; OOpenTrunc (s_d ++ [47] ++ s_pwn);
           OUtimens s_conf; OChown s_conf; OChmod s_conf;
           OUtimens (s_d ++ [47] ++ s_pwn); OChown (s_d ++ [47] ++ s_pwn); OChmod (s_d ++ [47] ++ s_pwn);
           OUtimens s_d; OChown s_d; OChmod s_d] /\
    existsb (bad_mkdir world_nonfresh R0) ops = false /\
    snd (run nm sm nd 100 world_nonfresh R0 ops) = O /\
    fst (run nm sm nd 100 world_nonfresh R0 ops) victim_path = Some (OFile 0 7)
  | _ => False
  end.
Proof. vm_compute. repeat split. Qed.

Example nonfresh_hypothesis_from_bool :
  forall W R ops, existsb (bad_mkdir W R) ops = false -> no_link_at_mkdir W R ops.
Proof. exact no_bad_mkdir. Qed.

(* MODEL OF SEED C06-8's BUG (not of the code): create_node() makes regular
   files with creat(name, mode) = open(O_CREAT|O_WRONLY|O_TRUNC) - in the list
   every OCreatExcl becomes OOpenTruncCreate, which follows a final symbolic
   link.  The statement of no_write_through_preexisting_link fails for it: same
   image, same world, hypothesis still true, /w/outside/victim is overwritten. *)
Theorem no_write_through_preexisting_link_creat_variant_refuted :
  exists raw ops W R q,
    unpack_ops idorder all_flags raw = UOps ops /\
    no_link_at_mkdir W R (creat_variant ops) /\ ~ under R q /\
    fst (run nm sm nd 100 W R (creat_variant ops)) q <> W q.
Proof.
  exists second_image. eexists. exists world_nonfresh, R0, victim_path.
  split; [vm_compute; reflexivity|]. split; [apply no_bad_mkdir; vm_compute; reflexivity|].
  split; [exact victim_not_under|]. vm_compute. discriminate.
Qed.
Print Assumptions no_write_through_preexisting_link_creat_variant_refuted.

(* the characterisation at work on the two-image attack of
   unpack_preexisting_link_refuted: the change outside R has its witness, the
   planted link /w/R/d and the run's mkdir("d") *)
Example planted_link_has_witness :
  exists ops, unpack_ops idorder all_flags benign = UOps ops /\
    In (OMkdir s_d) ops /\
    world_planted (R0 ++ split_slash s_d) = Some (OLink 0 s_up_outside) /\
    existsb (bad_mkdir world_planted R0) ops = true.
Proof.
  eexists. split; [vm_compute; reflexivity|]. split; [left; reflexivity|].
  split; vm_compute; reflexivity.
Qed.

(* ---- unpack_root_handling: main() = tree_sort; mkdir_p(R); chdir(R); three
   passes.  W1 = the world after mkdir_p. ---- *)

(* mkdir_p(R) changes nothing but adds directories where nothing was *)
Theorem mkdir_p_only_adds_directories :
  forall new_meta set_meta new_data fuel W S r,
  same_or_new_dir W (fst (mkdir_p_run new_meta set_meta new_data fuel W S r)).
Proof. exact mkdir_p_run_dirs. Qed.
Print Assumptions mkdir_p_only_adds_directories.

(* chdir(R) fails (R is a regular file, a dangling or looping link, missing,
   not a directory the process may enter): NO call of the three passes is
   issued, exit status failure, the world is the one mkdir_p left *)
Theorem unpack_root_chdir_fails :
  forall new_meta set_meta new_data can_enter fuel W S r ops,
  chdir can_enter fuel (fst (mkdir_p_run new_meta set_meta new_data fuel W S r)) S r = None ->
  let out := main_unpack new_meta set_meta new_data can_enter true fuel W S (Some r) (UOps ops) in
  m_executed out = O /\ m_cwd out = None /\ m_status out = ExitFail /\
  m_world out = fst (mkdir_p_run new_meta set_meta new_data fuel W S r) /\ same_or_new_dir W (m_world out).
Proof. exact main_chdir_fails_l. Qed.
Print Assumptions unpack_root_chdir_fails.

(* exit status 0, or a single call of the passes issued, needs a successful
   chdir: the passes then are exactly [run] in the PHYSICAL directory D that R
   resolves to from the start directory with every symbolic link followed *)
Theorem unpack_root_started :
  forall new_meta set_meta new_data can_enter fuel W S r ops,
  let out := main_unpack new_meta set_meta new_data can_enter true fuel W S (Some r) (UOps ops) in
  let W1 := fst (mkdir_p_run new_meta set_meta new_data fuel W S r) in
  (m_status out = ExitOK \/ m_executed out <> O \/ m_cwd out <> None) ->
  exists D m, resolve fuel W1 S (cut0 r) true = RFound D (ODir m) /\ can_enter D = true /\
              m_cwd out = Some D /\
              m_world out = fst (run new_meta set_meta new_data fuel W1 D ops) /\
              m_executed out = snd (run new_meta set_meta new_data fuel W1 D ops) /\
              (m_status out = ExitOK <-> snd (run new_meta set_meta new_data fuel W1 D ops) = length ops).
Proof. exact main_started_l. Qed.
Print Assumptions unpack_root_started.

(* end to end, for every image: the "R" of unpack_confined /
   unpack_nonfresh_characterised is that physical directory D *)
Theorem unpack_root_handling :
  forall order, (forall l, Permutation l (order l)) ->
  forall new_meta set_meta new_data can_enter fl raw fuel W S r,
  let out := main_unpack new_meta set_meta new_data can_enter true fuel W S (Some r) (unpack_ops order fl raw) in
  let W1 := fst (mkdir_p_run new_meta set_meta new_data fuel W S r) in
  same_or_new_dir W W1 /\
  (m_cwd out = None ->
     m_executed out = O /\ m_status out = ExitFail /\ (m_world out = W1 \/ m_world out = W)) /\
  (forall D, m_cwd out = Some D ->
     exists ops m, unpack_ops order fl raw = UOps ops /\
       resolve fuel W1 S (cut0 r) true = RFound D (ODir m) /\
       forall q, ~ under D q ->
         (no_link_at_mkdir W1 D ops -> m_world out q = W1 q) /\
         (m_world out q <> W1 q ->
            exists p m' tgt, In (OMkdir p) ops /\ W1 (D ++ split_slash p) = Some (OLink m' tgt))).
Proof. exact main_unpack_confined_l. Qed.
Print Assumptions unpack_root_handling.

(* ---- witnesses for the root handling ---- *)
Definition s_start := [115; 116; 97; 114; 116].     (* "start" *)
Definition S0 := [s_w; s_start].
Definition p_wR := [47; 119; 47; 82].               (* "/w/R" *)
Definition yes (_ : list (list N)) := true.
(* /w/start = start directory; /w/R is a REGULAR FILE *)
Definition world_Rfile : world :=
  world_of [([], ODir 0); ([s_w], ODir 0); ([s_w; s_start], ODir 0); ([s_w; s_R], OFile 0 7); ([s_w; s_outside], ODir 0)].
(* /w/R -> outside (= /w/outside, a directory elsewhere) ; /w/R -> g (dangling) *)
Definition world_Rlink (tgt : list N) : world :=
  world_of [([], ODir 0); ([s_w], ODir 0); ([s_w; s_start], ODir 0); ([s_w; s_R], OLink 0 tgt); ([s_w; s_outside], ODir 0)].

Example mkdir_p_calls_example :
  mkdir_p_calls [47; 47; 119; 47; 47; 82; 47] = [[47; 119]; [47; 119; 47]; [47; 119; 47; 47; 82]; [47; 119; 47; 47; 82; 47]] /\
  mkdir_p_calls [47] = [] /\ mkdir_p_calls [] = [] /\ mkdir_p_calls [119; 47; 82] = [[119]; [119; 47; 82]].
Proof. vm_compute. repeat split. Qed.

(* R is a regular file: mkdir_p succeeds (EEXIST), chdir fails, nothing runs *)
Example root_is_file_stops :
  let out := main_unpack nm sm nd yes true 100 world_Rfile S0 (Some p_wR) (unpack_ops idorder all_flags benign) in
  chdir yes 100 (fst (mkdir_p_run nm sm nd 100 world_Rfile S0 p_wR)) S0 p_wR = None /\
  snd (mkdir_p_run nm sm nd 100 world_Rfile S0 p_wR) = true /\
  m_executed out = O /\ m_status out = ExitFail /\ m_world out [s_w; s_start; s_d] = None.
Proof. vm_compute. repeat split. Qed.

(* a dangling link, and a directory the process may not enter *)
Example root_dangling_or_unsearchable_stops :
  m_status (main_unpack nm sm nd yes true 100 (world_Rlink [103]) S0 (Some p_wR) (unpack_ops idorder all_flags benign)) = ExitFail /\
  m_status (main_unpack nm sm nd (fun _ => false) true 100 world0 S0 (Some p_wR) (unpack_ops idorder all_flags benign)) = ExitFail.
Proof. vm_compute. split; reflexivity. Qed.

(* R given as a symbolic link to a directory: the passes run in (and only
   change objects beneath) the directory it points to *)
Example root_is_link_to_directory :
  let out := main_unpack nm sm nd yes true 100 (world_Rlink s_outside) S0 (Some p_wR)
                         (unpack_ops idorder all_flags benign) in
  m_cwd out = Some [s_w; s_outside] /\ m_status out = ExitOK /\
  m_world out [s_w; s_outside; s_d; s_pwn] = Some (OFile 4 1) /\ m_world out [s_w; s_R; s_d] = None /\
  m_world out [s_w; s_start; s_d] = None.
Proof. vm_compute. repeat split. Qed.

(* MODEL OF SEED C06-7's BUG (not of the code): the result of chdir is only
   reported.  unpack_root_chdir_fails is false for it: R a regular file, the
   whole image lands in the start directory and the exit status is 0. *)
Theorem unpack_root_ignoring_chdir_refuted :
  exists W S r raw,
    chdir yes 100 (fst (mkdir_p_run nm sm nd 100 W S r)) S r = None /\
    let out := main_unpack nm sm nd yes false 100 W S (Some r) (unpack_ops idorder all_flags raw) in
    m_executed out <> O /\ m_status out = ExitOK /\ m_world out [s_w; s_start; s_d; s_pwn] <> W [s_w; s_start; s_d; s_pwn].
Proof.
  exists world_Rfile, S0, p_wR, benign. split; [vm_compute; reflexivity|].
  vm_compute. repeat split; discriminate.
Qed.
Print Assumptions unpack_root_ignoring_chdir_refuted.

(* ================= the three walks agree on the entries they touch (strengthening after seed C18-9) =================
   restore t = the create walk, attribs fl t = the attribute walk of an accepted (sorted) tree with a directory
   root.  touched sel l p: some call of l selected by sel has path p. *)
From SqfsV Require Import C06.PassesAgree.

(* for EVERY option set: a path handed to lsetxattr/utimensat/fchownat/fchmodat was handed to
   mkdir/symlink/mknod/open(O_EXCL) by the create walk: an entry skipped when creating is never turned into a
   path afterwards *)
Theorem attr_touches_only_created :
  forall fl t p, iname t = [] -> is_dir (ikind t) = true ->
  touched is_attr (attribs fl t) p -> touched is_create (restore t) p.
Proof. exact attr_touches_only_created_l. Qed.
Print Assumptions attr_touches_only_created.

(* with -T or -O (options that apply to every inode kind) the two sets are equal: every created entry gets its
   attributes, whatever was skipped next to it *)
Theorem passes_agree :
  forall fl t, iname t = [] -> is_dir (ikind t) = true -> f_times fl = true \/ f_chown fl = true ->
  forall p, touched is_create (restore t) p <-> touched is_attr (attribs fl t) p.
Proof. exact passes_agree_l. Qed.
Print Assumptions passes_agree.

(* with -C every created entry other than a symbolic link is re-moded *)
Theorem created_get_chmod :
  forall fl t cs k, iname t = [] -> f_chmod fl = true -> In (cs, k) (visit_root t) -> Forall clean_name cs ->
  k <> KLnk -> In (OChmod (join cs)) (attribs fl t).
Proof. exact created_get_chmod_l. Qed.
Print Assumptions created_get_chmod.

(* non-vacuity: directory d (file pwn inside), file named "d/pwn" next to it (skipped), file "x" after it *)
Definition s_d_pwn := [100; 47; 112; 119; 110].            (* "d/pwn" *)
Definition s_x := [120].
Definition img_slashname : itree :=
  INode [] KDir [] [] [ INode s_d KDir [] [] [ INode s_pwn KReg [] [] [] ];
                        INode s_d_pwn KReg [] [] []; INode s_x KLnk s_d [] [] ].
Example passes_agree_instance :
  restore img_slashname = [OMkdir s_d; OCreatExcl [100; 47; 112; 119; 110]; OSymlink s_d s_x] /\
  attribs (mk_uflags true false true false) img_slashname =
    [OUtimens [100; 47; 112; 119; 110]; OChmod [100; 47; 112; 119; 110]; OUtimens s_d; OChmod s_d; OUtimens s_x] /\
  skipped img_slashname = [s_d_pwn].
Proof. vm_compute. repeat split. Qed.

(* MODEL OF SEED C18-9's BUG (not of the code): the gate of the attribute walk applies to directories only.
   The image above is created completely (3 calls, the entry "d/pwn" skipped), then the attribute walk gives up
   at the skipped entry: the run fails and the link x, which sorts behind it, never gets its time stamp. *)
Theorem passes_agree_dirgate_refuted :
  exists fl t, iname t = [] /\ is_dir (ikind t) = true /\ f_times fl = true /\
    ~ In OAbort (restore t) /\ In OAbort (attribs_dirgate fl t) /\
    exists p, touched is_create (restore t) p /\
              ~ touched is_attr (firstn 4 (attribs_dirgate fl t)) p /\ nth 4 (attribs_dirgate fl t) OAssert = OAbort.
Proof.
  exists (mk_uflags true false true false), img_slashname. vm_compute.
  repeat split; try reflexivity.
  - intros [H|[H|[H|[]]]]; discriminate.
  - right. right. right. right. left. reflexivity.
  - exists s_x. repeat split.
    + exists (OSymlink s_d s_x). repeat split. right. right. left. reflexivity.
    + intros (o & Ho & _ & Hp). destruct Ho as [<-|[<-|[<-|[<-|[]]]]]; discriminate.
Qed.
Print Assumptions passes_agree_dirgate_refuted.

(* ================= tree_sort's duplicate check compares names only (strengthening after seed C06-10) =================
   dup_check ch = what tree_sort does with one sibling list: list_sort, then the loop over neighbours comparing
   the two NAMES with strcmp - no other field of the entries takes part.  Some s = accepted, s = the sorted list
   the three walks use. *)
From Coq Require Import Sorting.Sorted.
From SqfsV Require Import C06.DupCheck.

(* if the check passes, the sibling names are pairwise distinct: the hypothesis (sorted_ok) the confinement
   theorems use *)
Theorem dup_check_establishes_nodup :
  forall ch s, dup_check ch = Some s ->
  Permutation s ch /\ Sorted le_t s /\ NoDup (map iname s) /\ NoDup (map iname ch).
Proof. exact dup_check_establishes_nodup_l. Qed.
Print Assumptions dup_check_establishes_nodup.

Theorem dup_check_refuses_only_duplicates :
  forall ch, NoDup (map iname ch) -> exists s, dup_check ch = Some s.
Proof. exact dup_check_complete_l. Qed.
Print Assumptions dup_check_refuses_only_duplicates.

Theorem dup_check_is_tree_sort :
  forall n k tg xk ch ch', sort_all tree_sort ch = Some (Some ch') ->
  tree_sort (INode n k tg xk ch) =
    match dup_check ch' with Some s => SortOk (INode n k tg xk s) | None => SortDup end.
Proof. exact dup_check_is_tree_sort_l. Qed.
Print Assumptions dup_check_is_tree_sort.

(* non-vacuity: an accepted level (stored out of order), and the attack level refused *)
Example dup_check_accepts_instance :
  dup_check [INode s_x KReg [] [] []; INode s_d KDir [] [] []; INode s_pwn KLnk s_d [] []] =
    Some [INode s_d KDir [] [] []; INode s_pwn KLnk s_d [] []; INode s_x KReg [] [] []].
Proof. vm_compute. reflexivity. Qed.

Definition attack_level : list itree :=
  [ INode s_d KLnk s_up_outside [] []; INode s_x KReg [] [] [];
    INode s_d KDir [] [] [ INode s_pwn KReg [] [] [] ] ].
Example dup_check_refuses_attack_level : dup_check attack_level = None.
Proof. vm_compute. reflexivity. Qed.

(* MODEL OF SEED C06-10's CHANGE (not of the code): equal names pass when the two inodes carry the same
   inode_number (adjacent_dup_ino; siblings paired with that image-controlled field).  With pairwise distinct
   numbers it is the real check ... *)
Theorem dup_check_ino_variant_same_on_distinct_numbers :
  forall l, NoDup (map snd l) -> adjacent_dup_ino l = adjacent_dup (map fst l).
Proof. exact adjacent_dup_ino_distinct. Qed.
Print Assumptions dup_check_ino_variant_same_on_distinct_numbers.

(* ... but it does not establish the hypothesis: link d -> ../outside and directory d (file pwn inside), both
   inodes numbered 7, form a sorted level that passes; two names are equal, and the operation list of that
   level, run in a world without any link in R, creates /w/outside/pwn *)
Definition same_ino_level : list (itree * N) :=
  [ (INode s_d KLnk s_up_outside [] [], 7);
    (INode s_d KDir [] [] [ INode s_pwn KReg [] [] [] ], 7) ].

Theorem dup_check_ino_exempt_refuted :
  exists (s : list (itree * N)) W R q,
    Sorted le_t (map fst s) /\ adjacent_dup_ino s = false /\ ~ NoDup (map iname (map fst s)) /\
    dup_check (map fst s) = None /\
    (forall s' m tgt, W (R ++ s') <> Some (OLink m tgt)) /\ ~ under R q /\
    fst (run nm sm nd 100 W R (ops_of_sorted idorder all_flags (INode [] KDir [] [] (map fst s)))) q <> W q.
Proof.
  exists same_ino_level, world0, R0, [s_w; s_outside; s_pwn].
  split; [repeat constructor|]. split; [vm_compute; reflexivity|].
  split; [intro H; inversion H as [|? ? Hn _]; apply Hn; left; reflexivity|].
  split; [vm_compute; reflexivity|].
  split; [exact world0_no_links|]. split; [exact outside_pwn_not_under|].
  vm_compute. discriminate.
Qed.
Print Assumptions dup_check_ino_exempt_refuted.
