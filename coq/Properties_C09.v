(* C09 — worker pool: FIFO, exactly-once, deadlock-free under every interleaving.
   Statements only; every proof is one [exact] of a lemma from C09/*.v.

   Model: C09/PoolModel.v — lib/util/src/threadpool.c as a labelled transition system
   at mutex / condition-variable granularity ([step]), threadpool_serial.c
   ([serial_call]) and the specification "FIFO queue of f(item)" ([spec_call]).
   All theorems are for every callback ([cb_val] = effect on the item, [cb_st] = its
   return status, 0 = success: arbitrary failing items), every number of workers,
   every client program and every finite sequence of steps (= every interleaving,
   including spurious wake-ups).  [fx] selects the code with ([true]) or without
   ([false]) the repair of finding F01; safety holds for both, absence of stuck
   states is proved for the repaired code and refuted for the code as found. *)
From Coq Require Import List ZArith Bool Arith Permutation.
From SqfsV Require Import C09.PoolModel C09.PoolLemmas C09.PoolSafety C09.PoolProgress
  C09.PoolFailure C09.PoolCtx C09.PoolRefine C09.PoolTheorems.
Import ListNotations.

Section Statements.
Variable cb_val : nat -> nat.
Variable cb_st : nat -> Z.

(* ---- exactly once: the partition invariant ---- *)
(* the tickets handed back, in safe_done, in done, held by a worker between callback and
   store, being processed, and queued are together exactly 0 .. next_ticket-1, each once *)
Theorem pool_exactly_once : forall fx n s,
  reachable cb_val cb_st fx n s -> Permutation (tickets s) (seq 0 (next_ticket s)).
Proof. exact (pool_exactly_once_l cb_val cb_st). Qed.

(* the complete invariant (data integrity of every list, counters) *)
Theorem pool_inv : forall fx n s, reachable cb_val cb_st fx n s -> Inv cb_val cb_st s.
Proof. exact (pool_inv_l cb_val cb_st). Qed.

(* every ticket's callback completes at most once; what was handed back went through it *)
Theorem pool_callback_once : forall fx n s,
  reachable cb_val cb_st fx n s ->
  NoDup (g_ran s) /\ forall t, t < length (g_ret s) -> In t (g_ran s).
Proof. exact (pool_callback_once_l cb_val cb_st). Qed.

(* ---- FIFO ---- *)
(* the non-NULL dequeue results are f applied to a prefix of the accepted submissions, in order *)
Theorem pool_fifo : forall fx n s,
  reachable cb_val cb_st fx n s -> g_ret s = map cb_val (firstn (length (g_ret s)) (g_sub s)).
Proof. exact (pool_fifo_l cb_val cb_st). Qed.

(* refinement (exported for C02): if no accepted item fails, the results of all completed API
   calls are those of the specification, whatever the schedule and the number of workers *)
Theorem pool_refines_fifo : forall fx n ls s es,
  run cb_val cb_st fx (init n) ls = Some (s, es) -> nofail cb_st (g_sub s) ->
  map snd (rets es) = spec_run cb_val [] (map fst (rets es)).
Proof. exact (pool_refines_fifo_l cb_val cb_st). Qed.

(* threadpool_serial.c computes the same specification *)
Theorem serial_refines_spec : forall os,
  nofail cb_st (subs os) -> serial_run cb_val cb_st serial_init os = spec_run cb_val [] os.
Proof. exact (serial_refines_spec_l cb_val cb_st). Qed.

(* ---- per-worker context exclusivity ---- *)
Theorem pool_ctx_exclusive : forall fx n ls s es w,
  run cb_val cb_st fx (init n) ls = Some (s, es) -> ctx_alt w false es.
Proof. exact (pool_ctx_exclusive_l cb_val cb_st). Qed.

Theorem pool_ctx_valid : forall fx s l s' w it,
  step cb_val cb_st fx s l = Some (s', ECbBegin w it) -> w < length (ws s) /\ l = LWorker w.
Proof. exact (pool_ctx_valid_l cb_val cb_st). Qed.

(* ---- no stuck state, no lost wake-up (repaired code) ---- *)
(* whenever an API call is in progress some thread can take a non-spurious step *)
Theorem pool_no_stuck : forall n s,
  n >= 1 -> reachable cb_val cb_st true n s -> busy s ->
  exists l, internal l = true /\ step cb_val cb_st true s l <> None.
Proof. exact (pool_no_stuck_l cb_val cb_st). Qed.

(* every non-spurious step of a worker or of the blocked main thread decreases the measure *)
Theorem pool_measure_decreases : forall fx n s l s' e,
  reachable cb_val cb_st fx n s -> internal l = true -> step cb_val cb_st fx s l = Some (s', e) ->
  mu s' < mu s.
Proof. exact (pool_measure_decreases_l cb_val cb_st). Qed.

(* hence at most [mu s] such steps fit before the pending call returns ... *)
Theorem pool_progress_bound : forall fx n s ls s' es,
  reachable cb_val cb_st fx n s -> Forall (fun l => internal l = true) ls ->
  run cb_val cb_st fx s ls = Some (s', es) -> length ls + mu s' <= mu s.
Proof. exact (pool_progress_bound_l cb_val cb_st). Qed.

(* ... and it can always be completed: submit, dequeue, get_status and destroy return *)
Theorem pool_call_returns : forall n s,
  n >= 1 -> reachable cb_val cb_st true n s ->
  exists ls s' es, Forall (fun l => internal l = true) ls /\
    run cb_val cb_st true s ls = Some (s', es) /\ ~ busy s'.
Proof. exact (pool_call_returns_l cb_val cb_st). Qed.

(* destroy returns only after every worker has exited *)
Theorem pool_destroy_joins_all : forall fx n s,
  reachable cb_val cb_st fx n s -> ms s = MDead -> Forall (fun x => x = WExited) (ws s).
Proof. exact (pool_destroy_joins_all_l cb_val cb_st). Qed.

(* ---- failure is reported ---- *)
(* the error status latches *)
Theorem pool_status_sticky : forall fx s l s' e,
  step cb_val cb_st fx s l = Some (s', e) -> status s <> 0%Z -> status s' <> 0%Z.
Proof. exact (pool_status_sticky_l cb_val cb_st). Qed.

(* an item whose callback failed and that was handed back: the status is set ... *)
Theorem pool_failure_latched : forall fx n s k d0,
  reachable cb_val cb_st fx n s -> k < length (g_ret s) -> nth_error (g_sub s) k = Some d0 ->
  cb_st d0 <> 0%Z -> status s <> 0%Z.
Proof. exact (pool_failure_latched_l cb_val cb_st). Qed.

(* ... it is a status some completed callback really returned ... *)
Theorem pool_status_genuine : forall fx n s,
  reachable cb_val cb_st fx n s -> status s <> 0%Z -> ~ destroyed s ->
  exists t d0, In t (g_ran s) /\ nth_error (g_sub s) t = Some d0 /\ status s = cb_st d0.
Proof. exact (pool_status_genuine_l cb_val cb_st). Qed.

(* ... submit reports it and accepts nothing, get_status reports it ... *)
Theorem pool_submit_after_failure : forall fx s d s' e,
  status s <> 0%Z -> step cb_val cb_st fx s (LCall (OSubmit d)) = Some (s', e) ->
  e = ERet (OSubmit d) (RStatus (status s)) /\ g_sub s' = g_sub s /\ queue s' = queue s /\ status s' = status s.
Proof. exact (pool_submit_after_failure_l cb_val cb_st). Qed.

Theorem pool_get_status_reports : forall fx s s' e,
  step cb_val cb_st fx s (LCall OStatus) = Some (s', e) -> e = ERet OStatus (RStatus (status s)) /\ s' = s.
Proof. exact (pool_get_status_reports_l cb_val cb_st). Qed.

(* ... and dequeue answers NULL only for an empty pipeline or a failed pool (it returns in every
   case: pool_no_stuck / pool_call_returns make no assumption about the status) *)
Theorem pool_dequeue_null_only_if : forall fx s l s',
  step cb_val cb_st fx s l = Some (s', ERet ODequeue RNull) ->
  item_count s = 0 \/ (fx = true /\ status s <> 0%Z).
Proof. exact (pool_dequeue_null_only_if_l cb_val cb_st). Qed.

End Statements.

Print Assumptions pool_exactly_once.
Print Assumptions pool_inv.
Print Assumptions pool_callback_once.
Print Assumptions pool_fifo.
Print Assumptions pool_refines_fifo.
Print Assumptions serial_refines_spec.
Print Assumptions pool_ctx_exclusive.
Print Assumptions pool_ctx_valid.
Print Assumptions pool_no_stuck.
Print Assumptions pool_measure_decreases.
Print Assumptions pool_progress_bound.
Print Assumptions pool_call_returns.
Print Assumptions pool_destroy_joins_all.
Print Assumptions pool_status_sticky.
Print Assumptions pool_failure_latched.
Print Assumptions pool_status_genuine.
Print Assumptions pool_submit_after_failure.
Print Assumptions pool_get_status_reports.
Print Assumptions pool_dequeue_null_only_if.

(* ---- F01: on the code as found the statement "every dequeue returns" is false ---- *)
(* 1 worker, items [0;1], the callback fails on item 0: the worker exits with item 1 still queued,
   the second dequeue waits on done_cond; no thread can ever move again, spurious wake-ups included *)
Theorem pool_failure_deadlock_refuted :
  exists s es, run cbv0 cbs0 false (init 1) f01_schedule = Some (s, es) /\
    busy s /\
    (forall l, internal l = true -> step cbv0 cbs0 false s l = None) /\
    (forall ls s' es', run cbv0 cbs0 false s ls = Some (s', es') -> busy s').
Proof. exact f01_deadlock_refuted_l. Qed.
Print Assumptions pool_failure_deadlock_refuted.

(* ---- non-vacuity ---- *)
(* a run with 2 workers and 3 items in which items complete out of order (ticket 1 before
   ticket 0) and are still handed back in order, each processed once *)
Definition ex_schedule : list label :=
  [LCall (OSubmit 0); LCall (OSubmit 1); LCall (OSubmit 2);
   LWorker 0; LWorker 1; LWorker 1; LWorker 1; LCall ODequeue; LWorker 0; LWorker 0;
   LMain; LWorker 1; LWorker 1; LCall ODequeue; LCall ODequeue; LCall ODequeue].

Example ex_run_fifo :
  exists s es, run cbv0 (fun _ => 0%Z) true (init 2) ex_schedule = Some (s, es) /\
    g_sub s = [0; 1; 2] /\ g_ret s = [100; 101; 102] /\ g_ran s = [2; 0; 1] /\
    map snd (rets es) = [RStatus 0; RStatus 0; RStatus 0; RItem 100; RItem 101; RItem 102; RNull]%Z.
Proof. eexists. eexists. split; [vm_compute; reflexivity|]. simpl. auto. Qed.

(* hypotheses of pool_refines_fifo / serial_refines_spec are satisfiable, the results non-trivial *)
Example ex_nofail : nofail (fun _ => 0%Z) [0; 1; 2] /\
  spec_run cbv0 [] [OSubmit 0; OSubmit 1; ODequeue; ODequeue; ODequeue]
  = [RStatus 0; RStatus 0; RItem 100; RItem 101; RNull]%Z /\
  serial_run cbv0 cbs0 serial_init [OSubmit 0; OSubmit 1; ODequeue; OSubmit 2; OStatus]
  = [RStatus 0; RStatus 0; RItem 100; RStatus 5; RStatus 5]%Z.
Proof. split; [intros d _; reflexivity|]. split; reflexivity. Qed.

(* a reachable busy state (hypothesis of pool_no_stuck): main blocked in dequeue, worker mid-callback *)
Example ex_busy :
  exists s es, run cbv0 cbs0 true (init 1) [LCall (OSubmit 7); LCall ODequeue; LWorker 0] = Some (s, es) /\
    busy s /\ ms s = MDeqWait /\ ws s = [WWorking (0, 7)] /\ mu s = 3.
Proof. eexists. eexists. split; [vm_compute; reflexivity|]. simpl. repeat split; discriminate. Qed.

(* a reachable failed pool (hypotheses of the failure theorems): the failing item was handed back,
   status = the callback's 5, the next dequeue yields NULL although an item is still queued,
   submit is refused with 5, destroy completes *)
Example ex_failure :
  exists s es, run cbv0 cbs0 true (init 1)
      (f01_schedule ++ [LCall (OSubmit 2); LCall OStatus; LCall ODestroy]) = Some (s, es) /\
    ms s = MDead /\ ws s = [WExited] /\ g_sub s = [0; 1] /\ g_ret s = [100] /\
    map snd (rets es) = [RStatus 0; RStatus 0; RItem 100; RNull; RStatus 5; RStatus 5; RVoid]%Z.
Proof. eexists. eexists. split; [vm_compute; reflexivity|]. simpl. auto. Qed.

(* the context-exclusivity predicate is not trivially true: overlapping callbacks are rejected *)
Example ex_ctx_alt_rejects :
  ~ ctx_alt 0 false [ECbBegin 0 (0, 0); ECbBegin 0 (1, 1)] /\
  ctx_alt 0 false [ECbBegin 0 (0, 0); ECbBegin 1 (1, 1); ECbEnd 0 (0, 100) 0%Z; ECbBegin 0 (2, 2)].
Proof. split; simpl; [intros [_ [H _]]; discriminate|auto]. Qed.

(* ==== Ownership of work items: the client contract of submit (strengthening, session 3) ==== *)
(* submit transfers an item to the pool exactly when it returns 0.  A refused submit (a worker failed
   before) leaves everything the pool holds untouched: the item stays with the caller, who must dispose
   of it exactly once (lib/sqfs/src/block_processor/frontend.c:enqueue_block puts it on the free list,
   so its callers have to forget their pointer whatever enqueue_block returns: the logic seeded change
   C09-4 broke; the block processor's side is checked on the implementation by props/C09/h_bpfail.c). *)
From SqfsV Require Import C09.PoolOwnership.

Section OwnershipStatements.
Variable cb_val : nat -> nat.
Variable cb_st : nat -> Z.

(* after a refused submit the pool owns exactly what it owned before; nothing was accepted *)
Theorem pool_submit_refused_not_owned : forall fx s d s' e,
  step cb_val cb_st fx s (LCall (OSubmit d)) = Some (s', e) -> status s <> 0%Z ->
  e = ERet (OSubmit d) (RStatus (status s)) /\ accepted1 e = [] /\ refused1 e = [d] /\
  owned s' = owned s /\ tickets s' = tickets s /\ next_ticket s' = next_ticket s /\
  item_count s' = item_count s /\ g_sub s' = g_sub s /\ g_ret s' = g_ret s.
Proof. exact (submit_refused_not_owned cb_val cb_st). Qed.

(* an accepted submit: the pool owns one more ticket, the new one *)
Theorem pool_submit_accepted_owned : forall fx s d s' e,
  step cb_val cb_st fx s (LCall (OSubmit d)) = Some (s', e) -> status s = 0%Z ->
  e = ERet (OSubmit d) (RStatus 0%Z) /\ accepted1 e = [d] /\ refused1 e = [] /\
  owned s' = owned s ++ [next_ticket s] /\ next_ticket s' = S (next_ticket s) /\
  item_count s' = S (item_count s) /\ g_sub s' = g_sub s ++ [d] /\ g_ret s' = g_ret s.
Proof. exact (submit_accepted_owned cb_val cb_st). Qed.

(* for every run: the accepted submissions are exactly the items of the submit calls that returned 0,
   what was handed back is exactly what dequeue returned ... *)
Theorem pool_accepts_exactly : forall fx n ls s es,
  run cb_val cb_st fx (init n) ls = Some (s, es) -> g_sub s = accepted es /\ g_ret s = returned es.
Proof. exact (accepts_exactly cb_val cb_st). Qed.

(* ... everything dequeue hands back is f of an accepted item, in order: a refused item never comes back ... *)
Theorem pool_returned_are_accepted : forall fx n ls s es,
  run cb_val cb_st fx (init n) ls = Some (s, es) ->
  returned es = map cb_val (firstn (length (returned es)) (accepted es)).
Proof. exact (returned_are_accepted cb_val cb_st). Qed.

(* ... and the pool owns exactly the accepted, not yet returned tickets, each once, item_count many *)
Theorem pool_owned_are_accepted_minus_returned : forall fx n ls s es,
  run cb_val cb_st fx (init n) ls = Some (s, es) ->
  Permutation (owned s) (seq (length (returned es)) (length (accepted es) - length (returned es))) /\
  item_count s + length (returned es) = length (accepted es) /\ length (owned s) = item_count s.
Proof. exact (owned_are_accepted_minus_returned cb_val cb_st). Qed.

End OwnershipStatements.

Print Assumptions pool_submit_refused_not_owned.
Print Assumptions pool_submit_accepted_owned.
Print Assumptions pool_accepts_exactly.
Print Assumptions pool_returned_are_accepted.
Print Assumptions pool_owned_are_accepted_minus_returned.

(* non-vacuity: 1 worker, items 0 and 1 accepted, the callback fails on item 0 (status 5), item 2 is
   refused; item 0 comes back, the pool is destroyed with ticket 1 inside: the refused item is neither
   accepted, nor owned, nor returned *)
Example ex_submit_refused :
  exists s es, run (fun d => 100 + d) (fun d => if d =? 0 then 5%Z else 0%Z) true (init 1) own_schedule = Some (s, es) /\
    accepted es = [0; 1] /\ refused es = [2] /\ returned es = [100] /\ owned s = [1] /\ item_count s = 1 /\
    status s = (-1)%Z.
Proof. exact ex_refused_not_owned. Qed.

(* ---- The reduction argument under the LTS (session 3, seeded change C09-6) ----
   PoolModel.step treats one critical section as one atomic step.  That is sound for code that keeps
   the lock discipline: every access to the state the threads share, every cond_wait and every
   signal / broadcast happens with pool->mtx held.  The obligation is [disciplined] (C09/PoolDiscipline.v,
   on fine-grained executions: lock / unlock / wait / wake / shared access / thread-local code); it is
   CHECKED on the real threadpool.c in every execution of the tie (props/C09/shim_sched.c, guard_check;
   signature tie:lock-discipline) instead of being assumed, and the schedule search pre-empts threads at
   the entry of cond_wait (mutex held, not yet a waiter), at the entry of a broadcast and after unlock.
   What follows from it: *)
From SqfsV Require Import C09.PoolDiscipline.

(* while a thread holds the mutex, every event of another thread is thread-local *)
Theorem pool_sections_atomic : forall pre h u a post t,
  ok h (pre ++ (u, a) :: post) = true -> hafter h pre = Some t -> u <> t -> a = ALocal.
Proof. exact sections_atomic_l. Qed.

(* every execution that respects the mutex and the discipline is equivalent (same events per thread, same
   order of all shared accesses and lock operations; only thread-local events of other threads moved) to
   a legal disciplined execution in which every critical section is one contiguous block, which CORRESPONDS TO one step of the LTS (the correspondence
   between a contiguous section and PoolModel.step is the hand-written transcription tied by the trace tie, not a
   theorem; that ALocal events commute is part of the classification of events - independent audit 4, item 13) *)
Theorem pool_reduction : forall tr, ok None tr = true ->
  contiguous None (normalise tr) = true /\
  ok None (normalise tr) = true /\
  (forall u, proj u (normalise tr) = proj u tr) /\
  sync (normalise tr) = sync tr.
Proof. exact reduction_l. Qed.

Print Assumptions pool_sections_atomic.
Print Assumptions pool_reduction.

(* non-vacuity: an interleaved execution of the unchanged code (foreign thread-local events inside two
   critical sections) meets the hypothesis and is not contiguous; its normal form is *)
Example ex_discipline_holds : ok None ex_trace = true /\ contiguous None ex_trace = false.
Proof. exact ex_trace_ok. Qed.

Example ex_discipline_normal_form :
  normalise ex_trace =
  [ (0, ALocal); (1, ALock); (1, AShared); (1, AWait);
    (1, ALocal); (0, ALock); (0, AShared); (0, AShared); (0, AUnlock);
    (0, ALocal); (1, AWake); (1, AShared); (1, AUnlock); (1, ALocal) ] /\
  contiguous None (normalise ex_trace) = true.
Proof. exact ex_trace_normalised. Qed.

(* the hypothesis is needed: the interleaving of seeded change C09-6 (destroy() writes status and
   broadcasts without the mutex while the worker is between its predicate and pthread_cond_wait) is a
   legal execution of the mutex, is not disciplined, and a foreign shared access sits inside the worker's
   critical section *)
Example ex_c09_6_outside_the_model :
  mutex_ok None c09_6_trace = true /\ disciplined None c09_6_trace = false /\
  hafter None [ (1, ALock); (1, AShared) ] = Some 1 /\
  nth_error c09_6_trace 2 = Some (0, AShared).
Proof. exact c09_6_not_disciplined. Qed.

(* ==================================================================================================== *)
(* What dequeue owes the caller after a worker failure (seeded change C09-10: dequeue tested the status
   before it looked at the done list, so completed items were never handed back).  The search oracles
   `dequeue-null-with-completed-item-ready` / `dequeue-null-for-item-stored-before-the-call` of
   props/C09/h_pool.c judge the implementation by exactly these statements. *)
From SqfsV Require Import C09.PoolNullReady.

Section NullReadyStatements.
Variable cb_val : nat -> nat.
Variable cb_st : nat -> Z.

(* NULL is answered only when the pipeline is empty or NO completed item with the next ticket is at the
   head of the done list (and, at the call itself, safe_done is empty) - for both code versions, whatever
   the status *)
Theorem pool_dequeue_null_nothing_ready : forall fx s l s',
  step cb_val cb_st fx s l = Some (s', ERet ODequeue RNull) ->
  item_count s = 0 \/ (done_ready s = false /\ (l = LCall ODequeue -> safe_done s = [])).
Proof. exact (dequeue_null_nothing_ready cb_val cb_st). Qed.

(* no hypothesis on the status: a completed item that is next in submission order is handed back *)
Theorem pool_dequeue_ready_delivered : forall fx s it r,
  ms s = MIdle -> item_count s <> 0 ->
  (safe_done s = it :: r \/ (safe_done s = [] /\ done s = it :: r /\ fst it = next_deq s)) ->
  exists s', step cb_val cb_st fx s (LCall ODequeue) = Some (s', ERet ODequeue (RItem (snd it))) /\
             g_ret s' = g_ret s ++ [snd it].
Proof. exact (dequeue_ready_delivered cb_val cb_st). Qed.

Theorem pool_dequeue_woken_ready_delivered : forall fx s it r,
  ms s = MDeqWoken -> done s = it :: r -> fst it = next_deq s ->
  exists s', step cb_val cb_st fx s LMain = Some (s', ERet ODequeue (RItem (snd it))) /\
             g_ret s' = g_ret s ++ [snd it].
Proof. exact (dequeue_woken_ready_delivered cb_val cb_st). Qed.

End NullReadyStatements.

Print Assumptions pool_dequeue_null_nothing_ready.
Print Assumptions pool_dequeue_ready_delivered.
Print Assumptions pool_dequeue_woken_ready_delivered.

(* non-vacuity: failed pool (status 5), ticket 0 completed in the done list, ticket 1 still queued and never
   going to run: the first dequeue hands ticket 0 back, the second answers NULL *)
Example ex_pool_failed_ready_delivers :
  done_ready ex_failed_ready = true /\
  option_map snd (step (fun d => d + 100) (fun _ => 0%Z) true ex_failed_ready (LCall ODequeue)) =
    Some (ERet ODequeue (RItem 110)) /\
  (match step (fun d => d + 100) (fun _ => 0%Z) true ex_failed_ready (LCall ODequeue) with
   | Some (s1, _) => option_map snd (step (fun d => d + 100) (fun _ => 0%Z) true s1 (LCall ODequeue))
   | None => None end) = Some (ERet ODequeue RNull).
Proof. exact ex_failed_ready_delivers. Qed.
