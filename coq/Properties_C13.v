(* C13 -- fail-stop: an I/O failure (or any other failing call on the modelled
   paths) is reported, never yields a bad image.  Statements only; proofs are in
   C13/FaultGeneric.v, FaultProofs.v, FaultTop.v.

   [run p o st0] interprets a tool model against a fault oracle o : nat -> bool
   (the n-th fallible call fails iff o n); traces are newest-event-first.
   The theorems are for EVERY script (shape of the run: numbers of files,
   blocks, reads, branches taken in the block processor ...) and EVERY oracle
   (single faults are the instances [single k]).
   Allocation faults are *not* covered by these theorems beyond the abstract
   stage calls of the model; they are enumerated on the real tools by the
   check (evidence: the coverage fields named alloc_...). *)
From Coq Require Import List ZArith Bool Arith.
From SqfsV Require Import Gen.Constants C13.FaultMonad C13.FaultGeneric C13.FaultModel
                          C13.FaultProofs C13.FaultTop C13.FaultWitness.
Import ListNotations.
Local Open Scope Z_scope.

(* ---- io_fault_failstop: packers ---- *)
Theorem io_fault_failstop_gensquashfs : forall g o,
  let rs := run (gensquashfs repaired g) o st0 in
  bad (tr (snd rs)) = true ->
  fst rs <> 0 /\ has_diag (tr (snd rs)) = true /\
  (created (tr (snd rs)) = true -> exists rest, tr (snd rs) = EvUnlink FOut :: rest).
Proof. exact gensquashfs_failstop. Qed.
Print Assumptions io_fault_failstop_gensquashfs.

Theorem io_fault_failstop_tar2sqfs : forall t o,
  let rs := run (tar2sqfs repaired t) o st0 in
  bad (tr (snd rs)) = true ->
  fst rs <> 0 /\ has_diag (tr (snd rs)) = true /\
  (created (tr (snd rs)) = true -> exists rest, tr (snd rs) = EvUnlink FOut :: rest).
Proof. exact tar2sqfs_failstop. Qed.
Print Assumptions io_fault_failstop_tar2sqfs.

(* any non-zero exit (whatever the reason) is accompanied by a diagnostic and,
   once the output exists, ends with its removal *)
Theorem nonzero_exit_diag_gensquashfs : forall g o,
  fst (run (gensquashfs repaired g) o st0) <> 0 ->
  has_diag (tr (snd (run (gensquashfs repaired g) o st0))) = true.
Proof. exact gen_nonzero_diag. Qed.
Theorem nonzero_exit_unlink_gensquashfs : forall g o,
  fst (run (gensquashfs repaired g) o st0) <> 0 ->
  created (tr (snd (run (gensquashfs repaired g) o st0))) = true ->
  exists rest, tr (snd (run (gensquashfs repaired g) o st0)) = EvUnlink FOut :: rest.
Proof. exact gen_nonzero_unlink. Qed.
Print Assumptions nonzero_exit_unlink_gensquashfs.

(* the packer never unlinks anything it did not create in this run
   (an existing file that could not be opened with O_EXCL stays) *)
Theorem unlink_only_created_gensquashfs : forall g o,
  has_unlink (tr (snd (run (gensquashfs repaired g) o st0))) = true ->
  created (tr (snd (run (gensquashfs repaired g) o st0))) = true.
Proof. exact gen_unlink_only_created. Qed.
Print Assumptions unlink_only_created_gensquashfs.

(* ---- exit0_means_faultfree ---- *)
Theorem exit0_means_faultfree_gensquashfs : forall g o,
  fst (run (gensquashfs repaired g) o st0) = 0 ->
  run (gensquashfs repaired g) o st0 = run (gensquashfs repaired g) nofault st0.
Proof. exact gensquashfs_exit0_faultfree. Qed.
Print Assumptions exit0_means_faultfree_gensquashfs.

Theorem exit0_means_faultfree_tar2sqfs : forall t o,
  fst (run (tar2sqfs repaired t) o st0) = 0 ->
  run (tar2sqfs repaired t) o st0 = run (tar2sqfs repaired t) nofault st0.
Proof. exact tar2sqfs_exit0_faultfree. Qed.
Print Assumptions exit0_means_faultfree_tar2sqfs.

(* same output object (successful output calls in order) as the fault-free run *)
Corollary exit0_same_output_gensquashfs : forall g o,
  fst (run_tool (gensquashfs repaired g) o) = 0 ->
  output_of (snd (run_tool (gensquashfs repaired g) o)) =
  output_of (snd (run_tool (gensquashfs repaired g) nofault)).
Proof.
  intros g o. unfold run_tool.
  destruct (run (gensquashfs repaired g) o st0) as [c s] eqn:E. cbn [fst]. intros H.
  pose proof (gensquashfs_exit0_faultfree g o) as X. rewrite E in X. cbn [fst] in X.
  rewrite <- (X H). reflexivity.
Qed.
Print Assumptions exit0_same_output_gensquashfs.

(* ---- readers (sqfs2tar, rdsquashfs -c / -u) ---- *)
Theorem io_fault_failstop_readers : forall l o,
  let rs := run (reader_tool repaired l) o st0 in
  bad (tr (snd rs)) = true -> fst rs <> 0 /\ has_diag (tr (snd rs)) = true.
Proof. exact reader_failstop. Qed.
Theorem exit0_means_faultfree_readers : forall l o,
  fst (run (reader_tool repaired l) o st0) = 0 ->
  run (reader_tool repaired l) o st0 = run (reader_tool repaired l) nofault st0.
Proof. exact reader_exit0_faultfree. Qed.
Print Assumptions exit0_means_faultfree_readers.

(* ---- status_propagates, per layer (repaired code) ----
   strict p: result 0  ==>  no call inside p failed and the pool status is untouched
   sound p : result 0  ==>  a call inside p failed only if that failure is parked in
                            the pool status (worker), to be picked up by the next
                            submit or by sqfs_block_processor_finish *)
Theorem status_propagates_meta_writer : forall b n, strict (meta_flushes b n).
Proof. exact strict_meta_flushes. Qed.
Theorem status_propagates_write_table : forall n, strict (write_table n).
Proof. exact strict_write_table. Qed.
Theorem status_propagates_block_writer : forall p, strict (write_data_block p).
Proof. exact strict_write_data_block. Qed.
Theorem status_propagates_completed_block : forall p, strict (process_completed_block p).
Proof. exact strict_pcb. Qed.
Theorem status_propagates_completed_fragment : forall s, strict (process_completed_fragment repaired s).
Proof. exact strict_pcf. Qed.
Theorem status_propagates_enqueue : forall e, strict (enqueue_block e).
Proof. exact strict_enqueue_block. Qed.
Theorem status_propagates_dequeue : forall l, sound (dequeue_block repaired l).
Proof. exact sound_dequeue_block. Qed.
Theorem status_propagates_append : forall l, sound (bp_append repaired l).
Proof. exact sound_bp_append. Qed.
Theorem status_propagates_end_file : forall s, sound (bp_end_file repaired s).
Proof. exact sound_bp_end_file. Qed.
Theorem status_propagates_bp_finish : forall f, sound (bp_finish repaired f).
Proof. exact sound_bp_finish. Qed.
Theorem worker_error_reported : forall f o s,
  fst (run (bp_finish repaired f) o s) = 0 -> perr (snd (run (bp_finish repaired f) o s)) = false.
Proof. exact bp_finish_clears. Qed.
Theorem status_propagates_pack_file : forall f, sound (pack_file repaired f).
Proof. exact sound_pack_file. Qed.
Theorem status_propagates_serialize : forall s, strict (serialize_fstree s).
Proof. exact strict_serialize_fstree. Qed.
Theorem status_propagates_finish : forall f, sound (writer_finish repaired f).
Proof. exact sound_writer_finish. Qed.
Theorem status_propagates_init : forall v c, strict (writer_init v c).
Proof. exact strict_writer_init. Qed.
Theorem status_propagates_process_tarball : forall l, sound (process_tarball repaired l).
Proof. exact sound_process_tarball. Qed.
Print Assumptions status_propagates_finish.
Print Assumptions status_propagates_process_tarball.

(* ---- the code as it is today: refutation witnesses (one per repaired site) ---- *)
Definition P := gensquashfs unpatched.

(* F15: sqfs_writer_init fails at the first super block write: the created output stays *)
Theorem init_failure_leaves_file_refuted :
  let r := run_tool (P gen_blk) (first_fault (P gen_blk) is_write_out) in
  code_of r <> 0 /\ created (trace_of r) = true /\ has_unlink (trace_of r) = false.
Proof. vm_compute. repeat split; discriminate. Qed.

(* F16: add_export_table_entry fails in write_export_table: `if (ret) return 0;` -> exit 0 *)
Theorem export_error_swallowed_refuted :
  let r := run_tool (P gen_blk) (first_fault (P gen_blk) (is_stage S_EXPORT_ENT)) in
  code_of r = 0 /\ bad (trace_of r) = true.
Proof. vm_compute. split; reflexivity. Qed.

(* N1: the export table cannot be written: exit 1 but nothing on stderr *)
Theorem export_failure_no_diag_refuted :
  let r := run_tool (P gen_blk) (nth_fault (P gen_blk) is_write_out 5) in
  code_of r <> 0 /\ bad (trace_of r) = true /\ has_diag (trace_of r) = false.
Proof. vm_compute. repeat split; discriminate. Qed.

(* N2: set_block_size fails for a sparse fragment: status dropped, exit 0 *)
Theorem sparse_fragment_status_dropped_refuted :
  let r := run_tool (P gen_sparse) (first_fault (P gen_sparse) (is_stage S_SET_SIZE)) in
  code_of r = 0 /\ bad (trace_of r) = true.
Proof. vm_compute. split; reflexivity. Qed.

(* N3: the compressor fails in a worker for the last block: nobody looks at the pool status *)
Theorem worker_error_dropped_refuted :
  let r := run_tool (P gen_blk) (nth_fault (P gen_blk) (is_stage S_WORKER) 1) in
  code_of r = 0 /\ bad (trace_of r) = true.
Proof. vm_compute. split; reflexivity. Qed.

(* N4: tar2sqfs: the first read of stdin fails inside tar_open_stream: ignored *)
Theorem tar_probe_error_ignored_refuted :
  let p := tar2sqfs unpatched tar_blk in
  let r := run_tool p (first_fault p (is_read_of FStdin)) in
  code_of r = 0 /\ bad (trace_of r) = true.
Proof. vm_compute. split; reflexivity. Qed.

(* N5: relative output path + --pack-dir: after chdir the cleanup unlinks another path *)
Theorem cleanup_unlinks_wrong_path_refuted :
  let r := run_tool (P gen_blk) (nth_fault (P gen_blk) is_write_out 1) in
  code_of r <> 0 /\ last_ev r = Some (EvUnlink FWrong).
Proof. vm_compute. split; [discriminate|reflexivity]. Qed.

(* N6: a read error in the pack file / sort file: exit 1, nothing on stderr *)
Theorem getline_error_no_diag_refuted :
  let r := run_tool (P gen_blk) (first_fault (P gen_blk) (is_read_of FIn)) in
  code_of r <> 0 /\ has_diag (trace_of r) = false.
Proof. vm_compute. split; [discriminate|reflexivity]. Qed.

(* N7: tar2sqfs: skipping to the next header fails: exit 1, nothing on stderr *)
Theorem tar_next_error_no_diag_refuted :
  let p := tar2sqfs unpatched tar_blk in
  let r := run_tool p (nth_fault p (is_read_of FStdin) 2) in
  code_of r <> 0 /\ has_diag (trace_of r) = false.
Proof. vm_compute. split; [discriminate|reflexivity]. Qed.

(* N8: sqfs2tar: the two terminating zero records cannot be written: exit 1, nothing on stderr *)
Theorem sqfs2tar_terminate_no_diag_refuted :
  let p := reader_tool unpatched s2t_small in
  let r := run_tool p (single 9) in
  code_of r <> 0 /\ bad (trace_of r) = true /\ has_diag (trace_of r) = false.
Proof. vm_compute. repeat split; discriminate. Qed.
Print Assumptions worker_error_dropped_refuted.

(* ---- non-vacuity of the theorems about the repaired code ---- *)
Definition R := gensquashfs repaired.

(* the fault-free run of a non-trivial script exits 0, creates the output and keeps it *)
Example ex_faultfree_exit0 :
  let r := run_tool (R gen_blk) nofault in
  code_of r = 0 /\ created (trace_of r) = true /\ has_unlink (trace_of r) = false /\
  length (trace_of r) = 61%nat.
Proof. vm_compute. repeat split; reflexivity. Qed.

(* hypotheses of io_fault_failstop are met: a data block write fails *)
Example ex_fault_data_write :
  let r := run_tool (R gen_blk) (nth_fault (R gen_blk) is_write_out 1) in
  bad (trace_of r) = true /\ code_of r = 1 /\ has_diag (trace_of r) = true /\
  last_ev r = Some (EvUnlink FOut).
Proof. vm_compute. repeat split; reflexivity. Qed.

(* F15 repaired: the super block write fails, the output is removed *)
Example ex_fault_init_write :
  let r := run_tool (R gen_blk) (first_fault (R gen_blk) is_write_out) in
  code_of r = 1 /\ created (trace_of r) = true /\ last_ev r = Some (EvUnlink FOut).
Proof. vm_compute. repeat split; reflexivity. Qed.

(* the open itself fails: exit 1, nothing unlinked (an existing file stays) *)
Example ex_fault_open :
  let r := run_tool (R gen_blk) (single 1) in
  code_of r = 1 /\ created (trace_of r) = false /\ has_unlink (trace_of r) = false /\
  has_diag (trace_of r) = true.
Proof. vm_compute. repeat split; reflexivity. Qed.

(* worker failure on the last block is reported by the repaired finish *)
Example ex_fault_worker :
  let r := run_tool (R gen_blk) (nth_fault (R gen_blk) (is_stage S_WORKER) 1) in
  code_of r = 1 /\ has_diag (trace_of r) = true /\ last_ev r = Some (EvUnlink FOut).
Proof. vm_compute. repeat split; reflexivity. Qed.

(* two faults at once (the theorems are not about single faults only) *)
Example ex_two_faults :
  let o := fun n => orb (Nat.eqb n 30) (Nat.eqb n 33) in
  let r := run_tool (R gen_blk) o in
  code_of r = 1 /\ last_ev r = Some (EvUnlink FOut).
Proof. vm_compute. repeat split; reflexivity. Qed.

Example ex_tar_faultfree :
  code_of (run_tool (tar2sqfs repaired tar_blk) nofault) = 0.
Proof. vm_compute. reflexivity. Qed.
Example ex_tar_probe_fault :
  let p := tar2sqfs repaired tar_blk in
  let r := run_tool p (first_fault p (is_read_of FStdin)) in
  code_of r = 1 /\ has_diag (trace_of r) = true /\ created (trace_of r) = false.
Proof. vm_compute. repeat split; reflexivity. Qed.
Example ex_reader_fault :
  let p := reader_tool repaired s2t_small in
  let r := run_tool p (single 9) in
  code_of r = 1 /\ has_diag (trace_of r) = true.
Proof. vm_compute. repeat split; reflexivity. Qed.

(* ==================================================================================================
   Containers under allocation failure (session 3, coq/UtilAlloc).

   The allocation clause of C13, bottom-up: lib/util/src/{array,hash_table,rbtree,str_table}.c
   with EVERY malloc / calloc / realloc / alloc_flex site consulting an oracle (a list of
   booleans consumed one per allocation call, any list) and taking the C code's own failure
   path.  [owned_by h own F]: the live allocation ids of heap h are exactly [own] (the object's)
   plus the frame F; an operation that maps owned_by to owned_by for every frame and leaves
   [h_bad] alone leaks nothing and frees nothing twice.  The models reuse the functions of the
   Util models (coq/Util), so with an oracle that never fails they ARE the Util models
   (the alloc_model_conservative theorems).
   ================================================================================================== *)
From Coq Require Import NArith Permutation.
From SqfsV Require Import Util.GenUtil Util.FastRem Util.HashModel Util.HashBase Util.HashRows Util.HashInv
     Util.ArrayModel Util.ArrayProofs Util.RbModel Util.RbOrder Util.RbTheorems Util.StrModel Util.StrProofs
     UtilAlloc.AllocBase UtilAlloc.ArrayAlloc UtilAlloc.HashAlloc UtilAlloc.HashAllocInv UtilAlloc.HashAllocProofs
     UtilAlloc.RbAlloc UtilAlloc.RbAllocProofs UtilAlloc.StrAlloc UtilAlloc.StrAllocInv UtilAlloc.StrAllocProofs
     UtilAlloc.StrAllocCopy UtilAlloc.UtilAllocTop.
Local Open Scope N_scope.

(* ---- array.c ---- *)
(* array_append: 0 and the element appended, or SQFS_ERROR_ALLOC and the very same array; the
   data block is owned before and after, nothing else is touched *)
Theorem array_alloc_failstop : forall (E : Type) (a : aarr E) (x : E) h F z a' h',
  aarr_inv E a -> owned_by h (aa_owns E a) F -> array_append_a E a x h = (z, a', h') ->
  owned_by h' (aa_owns E a') F /\ h_bad h' = h_bad h /\
  ((z = 0%Z /\ aarr_inv E a' /\ aa_abs E a' = aa_abs E a ++ [x] /\
    a_used (aa_core a') = a_used (aa_core a) + 1 /\ a_size (aa_core a') = a_size (aa_core a)) \/
   (z = c_SQFS_ERROR_ALLOC /\ a' = a)).
Proof. exact array_append_a_spec. Qed.
Print Assumptions array_alloc_failstop.

(* a full array whose realloc fails does report the failure *)
Theorem array_alloc_fault_reported : forall (E : Type) (a : aarr E) (x : E) h o,
  a_used (aa_core a) = a_count (aa_core a) -> h_orc h = false :: o ->
  fst (fst (array_append_a E a x h)) = c_SQFS_ERROR_ALLOC /\ snd (fst (array_append_a E a x h)) = a.
Proof. exact array_append_a_alloc_fails. Qed.

Theorem array_set_capacity_alloc_failstop : forall (E : Type) (a : aarr E) cap h F,
  aarr_inv E a -> cap <= util_size_max -> owned_by h (aa_owns E a) F ->
  exists z a' h', array_set_capacity_a E a cap h = Ok (z, a', h') /\
    owned_by h' (aa_owns E a') F /\ h_bad h' = h_bad h /\
    ((z = 0%Z /\ aarr_inv E a' /\ aa_abs E a' = aa_abs E a /\ a_used (aa_core a') = a_used (aa_core a) /\
      a_size (aa_core a') = a_size (aa_core a) /\ cap <= a_count (aa_core a')) \/
     (z = c_SQFS_ERROR_ALLOC /\ a' = a)).
Proof. exact array_set_capacity_a_spec. Qed.

Theorem array_init_copy_alloc_failstop : forall (E : Type) (src : aarr E) h F z a h',
  aarr_inv E src -> owned_by h [] F -> array_init_copy_a E src h = (z, a, h') ->
  owned_by h' (aa_owns E a) F /\ h_bad h' = h_bad h /\
  ((z = 0%Z /\ aarr_inv E a /\ aa_abs E a = aa_abs E src /\ a_used (aa_core a) = a_used (aa_core src) /\
    a_size (aa_core a) = a_size (aa_core src)) \/
   (z <> 0%Z /\ a = aa_zero E /\ (z = c_SQFS_ERROR_OVERFLOW \/ z = c_SQFS_ERROR_ALLOC))).
Proof. exact array_init_copy_a_spec. Qed.
Print Assumptions array_init_copy_alloc_failstop.

Theorem alloc_model_conservative_array : forall (E : Type) (a : aarr E) (x : E) h,
  all_ok h ->
  let '(z, a', _) := array_append_a E a x h in array_append E (aa_core a) x = (z, aa_core a').
Proof. exact array_append_a_conservative. Qed.

Example ex_array_alloc_failstop :
  let '(z, a, h) := array_init_a (list N) 2 0 (heap0 (fail_at 0)) in
  let '(z1, a1, h1) := array_append_a (list N) a [1; 2] h in
  let '(z2, a2, h2) := array_append_a (list N) a1 [3; 4] h1 in
  z = 0%Z /\ z1 = c_SQFS_ERROR_ALLOC /\ a1 = a /\ h_live h1 = [] /\
  z2 = 0%Z /\ aa_abs _ a2 = [[3; 4]] /\ h_live h2 = [0] /\ h_bad h2 = false.
Proof. vm_compute. repeat split. Qed.

(* ---- hash_table.c ---- *)
(* hash_table_insert under ANY oracle: the invariant wfa (Util's wf without the load bound, which a
   failed rehash breaks) is kept; NULL is returned only after the calloc of this very call failed on
   a completely full table and then the state is the very same; every other outcome -- also with a
   failed rehash -- is the insert of the Util contract; the two blocks are owned before and after;
   exact counters stay exact; no allocation failure => never NULL *)
Theorem hash_table_alloc_failstop : forall (K V : Type) (keq : K -> K -> bool) (t : ahtab K V) hash key data h F,
  wfa K V (ah_core t) -> hash < two32 -> ht_entries K V (ah_core t) < ht_safe_limit ->
  owned_by h (ah_owns K V t) F ->
  exists t' r h', ht_insert_a K V keq t hash key data h = Ok (t', r, h') /\
    wfa K V (ah_core t') /\ owned_by h' (ah_owns K V t') F /\ h_bad h' = h_bad h /\
    (wfs K V (ah_core t) -> wfs K V (ah_core t')) /\
    (r = None -> t' = t /\ exists o, h_orc h = false :: o) /\
    (all_ok h -> r <> None).
Proof. exact hash_table_alloc_failstop_thm. Qed.
Print Assumptions hash_table_alloc_failstop.

Theorem hash_table_insert_contract_any_oracle :
  forall (K V : Type) (keq : K -> K -> bool) (t : ahtab K V) hash key data h F,
  wfa K V (ah_core t) -> hash < two32 -> ht_entries K V (ah_core t) < ht_safe_limit ->
  owned_by h (ah_owns K V t) F ->
  exists t' r h', ht_insert_a K V keq t hash key data h = Ok (t', r, h') /\
    wfa K V (ah_core t') /\ owned_by h' (ah_owns K V t') F /\ h_bad h' = h_bad h /\ ah_sid t' = ah_sid t /\
    match r with
    | None => t' = t /\ alloc h = (None, h') /\ table_full K V (ah_core t) /\ no_match K V keq (ah_core t) hash key
    | Some a =>
      nthN (ht_table K V (ah_core t')) a = Some (SPresent hash key data) /\
      (ins_replaced K V keq t t' hash key data \/ ins_added K V keq t t' a hash key data) /\
      (count_del K V (ht_table K V (ah_core t)) = 0 -> count_del K V (ht_table K V (ah_core t')) = 0)
    end.
Proof. exact ht_insert_a_spec. Qed.

(* search never looked at the counters: Util's contract under wfa *)
Theorem hash_table_search_contract_any_oracle : forall (K V : Type) (keq : K -> K -> bool) (t : htab K V) hash key,
  wfa K V t -> hash < two32 ->
  exists r, ht_search K V keq t hash key = Ok r /\
    match r with
    | Some a => exists k d, nthN (ht_table K V t) a = Some (SPresent hash k d) /\ keq key k = true
    | None => forall p k d, nthN (ht_table K V t) p = Some (SPresent hash k d) -> keq key k = false
    end.
Proof. exact ht_search_wfa. Qed.

Theorem hash_table_create_alloc_failstop : forall (K V : Type) h F,
  owned_by h [] F ->
  let '(r, h') := ht_create_a K V h in
  h_bad h' = h_bad h /\
  match r with
  | Some t => owned_by h' (ah_owns K V t) F /\ wfs K V (ah_core t) /\ ah_live K V t = [] /\
              ht_create K V = Some (ah_core t) /\ h_calls h' = h_calls h + 2
  | None => owned_by h' [] F /\ exists k, (k < 2)%nat /\ nth_error (h_orc h) k = Some false
  end.
Proof. exact ht_create_a_spec. Qed.

Theorem hash_table_destroy_frees_all : forall (K V : Type) (t : ahtab K V) h F,
  owned_by h (ah_owns K V t) F ->
  owned_by (ht_destroy_a K V t h) [] F /\ h_bad (ht_destroy_a K V t h) = h_bad h.
Proof. exact ht_destroy_a_spec. Qed.

Theorem alloc_model_conservative_hash : forall (K V : Type) (keq : K -> K -> bool) (t : ahtab K V) hash key data h F,
  wfa K V (ah_core t) -> hash < two32 -> ht_entries K V (ah_core t) < ht_safe_limit ->
  owned_by h (ah_owns K V t) F -> all_ok h ->
  exists t' r h', ht_insert_a K V keq t hash key data h = Ok (t', r, h') /\
    ht_insert K V keq (ah_core t) hash key data = Ok (ah_core t', r) /\ all_ok h'.
Proof. exact ht_insert_a_conservative. Qed.
Print Assumptions alloc_model_conservative_hash.

Example ex_hash_table_full_null :
  exists t ans h,
    ht_fill [true; true; false; false; false; false] 6 = Some (t, ans, h) /\
    ans = [Some 1; Some 2; Some 3; Some 4; Some 0; None] /\
    ht_entries _ _ (ah_core t) = 5 /\ ht_size_index _ _ (ah_core t) = 0%nat /\ h_live h = [1; 0] /\ h_bad h = false.
Proof. exact hash_table_full_null_example. Qed.

(* ---- rbtree.c (calloc variant) ---- *)
Theorem rbtree_alloc_failstop : forall (cmp : list N -> list N -> Z),
  (forall a b, (cmp a b < 0 <-> 0 < cmp b a)%Z) ->
  (forall a b c, (cmp a b <= 0 -> cmp b c <= 0 -> cmp a c <= 0)%Z) ->
  forall t key value h own F,
  rbtree_inv cmp t -> RbModel.lenN key = rb_key_size t -> RbModel.lenN value = rb_value_size t ->
  owned_by h (tids (rb_root t) ++ own) F ->
  exists z t' h', rbtree_insert_a cmp t key value h = Some (z, t', h') /\ h_bad h' = h_bad h /\
    owned_by h' (tids (rb_root t') ++ own) F /\ rbtree_inv cmp t' /\
    (all_ok h -> z = 0%Z /\ all_ok h') /\
    ((z = 0%Z /\ rbtree_insert cmp t (h_next h) key value = Some (t', h_next h') /\
      elements (rb_root t') =
        ins_sorted cmp (rb_key_size t) (new_elem t (h_next h) key value) (elements (rb_root t))) \/
     (z = c_SQFS_ERROR_ALLOC /\ t' = t /\ exists o, h_orc h = false :: o)).
Proof. exact rbtree_insert_a_spec. Qed.
Print Assumptions rbtree_alloc_failstop.

(* rbtree_copy: on success it IS the Util model's copy (started at the heap's next id) and owns its
   nodes; on failure SQFS_ERROR_ALLOC, *out zeroed, every node allocated on the way freed once *)
Theorem rbtree_copy_alloc_failstop : forall t h own F,
  layout_ok t -> owned_by h own F ->
  exists z t' h', rbtree_copy_a t h = Some (z, t', h') /\ h_bad h' = h_bad h /\
    (all_ok h -> z = 0%Z /\ all_ok h') /\
    ((z = 0%Z /\ rbtree_copy t (h_next h) = Some (t', h_next h') /\
      owned_by h' (tids (rb_root t') ++ own) F) \/
     (z = c_SQFS_ERROR_ALLOC /\ t' = rb_zero /\ owned_by h' own F)).
Proof. exact rbtree_copy_a_spec. Qed.
Print Assumptions rbtree_copy_alloc_failstop.

Theorem rbtree_cleanup_frees_all : forall t h own F,
  owned_by h (tids (rb_root t) ++ own) F ->
  owned_by (snd (rbtree_cleanup_a t h)) own F /\ h_bad (snd (rbtree_cleanup_a t h)) = h_bad h /\
  fst (rbtree_cleanup_a t h) = rb_zero.
Proof. exact rbtree_cleanup_a_spec. Qed.

Example ex_rbtree_copy_unwind :
  exists t h z t' h',
    rb3 = Some (t, h) /\ rbtree_copy_a t h = Some (z, t', h') /\
    z = c_SQFS_ERROR_ALLOC /\ t' = rb_zero /\ h_live h' = h_live h /\ h_bad h' = false /\ h_calls h' = 6 /\
    h_next h' = 5.
Proof. exact rbtree_copy_unwind_example. Qed.

(* ---- str_table.c ---- *)
(* every sequence of get_index / get_string calls, every oracle, the code BEFORE the repairs C13N13/C13N14 (fx = false; /repo now is fx = true) and
   repaired (fx = true): no crash, the weak invariant and the ownership are kept, nothing is freed
   twice, and the answers are those of the abstract machine in which a failed call is a no-op
   (no lost string, no phantom string, no changed index); with the repair the exact counters
   (Util's invariant) are kept as well *)
Theorem str_table_alloc_failstop : forall fx ops b t h F,
  astr_inv b t -> owned_by h (as_owns t) F ->
  ht_entries skey N (st_ht (as_core t)) + N.of_nat (length ops) < ht_safe_limit ->
  exists b' t' h' ans,
    st_run fx (b, t, h) ops = SOk ((b', t', h'), ans) /\
    astr_inv b' t' /\ owned_by h' (as_owns t') F /\ h_bad h' = h_bad h /\
    abs_run (str_abs b (as_core t)) ops ans (str_abs b' (as_core t')) /\
    (fx = true -> stra_strict (as_core t) -> stra_strict (as_core t')).
Proof. exact str_table_run_failstop. Qed.
Print Assumptions str_table_alloc_failstop.

(* one call with a new string, all three allocation sites *)
Theorem str_table_get_index_alloc_failstop : forall fx b t s h F,
  astr_inv b t -> ~ In s (strings b (as_core t)) ->
  ht_entries skey N (st_ht (as_core t)) < ht_safe_limit ->
  owned_by h (as_owns t) F ->
  exists b' t' z idx h',
    str_table_get_index_a fx b t s h = SOk (b', t', z, idx, h') /\
    astr_inv b' t' /\ owned_by h' (as_owns t') F /\ h_bad h' = h_bad h /\
    (forall id, id <> h_next h -> bh_get b' id = bh_get b id) /\
    ((z = 0%Z /\ gi_ok b t s b' t' idx) \/ (z = c_SQFS_ERROR_ALLOC /\ idx = 0 /\ gi_failed fx b t b' t')).
Proof. exact get_index_a_new. Qed.

Theorem str_table_init_alloc_failstop : forall h F,
  owned_by h [] F ->
  let '(z, r, h') := str_table_init_a h in
  h_bad h' = h_bad h /\
  match r with
  | Some t => z = 0%Z /\ owned_by h' (as_owns t) F /\ st_next_index (as_core t) = 0 /\
              (forall b, astr_inv b t /\ stra_strict (as_core t) /\ str_abs b (as_core t) = [])
  | None => z = c_SQFS_ERROR_ALLOC /\ owned_by h' [] F /\ exists k, (k < 2)%nat /\ nth_error (h_orc h) k = Some false
  end.
Proof. exact str_table_init_a_spec. Qed.

Theorem str_table_cleanup_frees_all : forall b t h F,
  astr_inv b t -> owned_by h (as_owns t) F ->
  let '(b', h') := str_table_cleanup_a b t h in
  owned_by h' [] F /\ h_bad h' = h_bad h /\
  (forall id, ~ In id (a_data (st_arr (as_core t))) -> bh_get b' id = bh_get b id).
Proof. exact str_table_cleanup_a_spec. Qed.
Print Assumptions str_table_cleanup_frees_all.

(* the code before repair C13N13 (cd1928f): a failed get_index left ht->entries one too high (Util's invariant broken),
   and a table holding one string gets re-hashed into the next row; repaired: it does not *)
Theorem str_table_entries_drift_refuted_thm :
  exists st ans, run_from false (fail_at 3) [OGet [97]] = Some (st, ans) /\
    ans = [AGet c_SQFS_ERROR_ALLOC 0] /\ present_of st = 0 /\ entries_of st = 1 /\
    ~ stra_strict (as_core (snd (fst st))).
Proof. exact str_table_entries_drift_refuted. Qed.

Theorem str_table_drift_grows_refuted_thm :
  let o := [true; true; true; false; true; false] in
  let ops := [OGet [97]; OGet [98]; OGet [99]] in
  (exists st ans, run_from false o ops = Some (st, ans) /\ present_of st = 1 /\ entries_of st = 3 /\
                  row_of st = 1%nat /\ h_calls (snd st) = 9) /\
  (exists st ans, run_from true o ops = Some (st, ans) /\ present_of st = 1 /\ entries_of st = 1 /\
                  row_of st = 0%nat /\ h_calls (snd st) = 8).
Proof. exact str_table_drift_grows_refuted. Qed.

(* str_table_copy as it is frees buckets of the SOURCE when its bucket loop cannot allocate *)
Theorem str_table_copy_frees_source_refuted_thm :
  exists b' h' src,
    copy_after false 11 = Some (b', None, c_SQFS_ERROR_ALLOC, h', src) /\
    h_bad h' = false /\
    (exists bid, In bid (a_data (st_arr (as_core src))) /\ ~ In bid (h_live h')) /\
    str_table_get_string_a b' src 0 = SCrash /\
    h_bad (snd (str_table_cleanup_a b' src h')) = true.
Proof. exact str_table_copy_frees_source_refuted. Qed.

(* str_table_copy repaired (props/C13/fixes/C13N14): fail-stop for every oracle *)
Theorem str_table_copy_alloc_failstop : forall b dst src h F,
  astr_inv b src -> owned_by h (as_owns src) F ->
  exists b' r z h',
    str_table_copy_a true b dst src h = SOk (b', r, z, h') /\ h_bad h' = h_bad h /\
    (forall id, In id (h_live h) -> bh_get b' id = bh_get b id) /\
    ((z = 0%Z /\ exists t' new, r = Some t' /\ owned_by h' (new ++ as_owns src) F) \/
     (z <> 0%Z /\ r = None /\ owned_by h' (as_owns src) F)).
Proof. exact str_table_copy_a_failstop. Qed.
Print Assumptions str_table_copy_alloc_failstop.

Theorem str_table_copy_source_intact : forall b dst src h F b' r z h',
  astr_inv b src -> owned_by h (as_owns src) F ->
  str_table_copy_a true b dst src h = SOk (b', r, z, h') -> z <> 0%Z ->
  astr_inv b' src /\ str_abs b' (as_core src) = str_abs b (as_core src) /\ owned_by h' (as_owns src) F /\
  h_bad h' = h_bad h.
Proof. exact str_table_copy_a_source_intact. Qed.

Example ex_str_table_copy_fixed :
  exists b' h' src,
    copy_after true 11 = Some (b', None, c_SQFS_ERROR_ALLOC, h', src) /\
    h_bad h' = false /\
    str_table_get_string_a b' src 0 = SOk (Some [97; 97]) /\
    h_bad (snd (str_table_cleanup_a b' src h')) = false /\ h_live (snd (str_table_cleanup_a b' src h')) = [].
Proof. exact str_table_copy_fixed_example. Qed.

(* the hypotheses of str_table_alloc_failstop hold for every table str_table_init returns *)
Example ex_str_table_start :
  forall o, match st_start o with
            | Some (b, t, h) => astr_inv b t /\ owned_by h (as_owns t) (fun _ => False) /\
                                stra_strict (as_core t) /\ str_abs b (as_core t) = []
            | None => True
            end.
Proof. exact str_table_run_example. Qed.

(* ---- one level up: the xattr writer's recording path over the containers: create / begin / add_kv / destroy.
   NOT modelled: sqfs_xattr_writer_end (the rbtree lookup + insert of the block descriptor - the part of the recording path
   that allocates a tree node - and the qsort) and the two SQFS_ERROR_OVERFLOW returns; "a failing call returns
   SQFS_ERROR_ALLOC" is therefore a statement about the modelled calls only (independent audit 4, item 11) ---- *)
From SqfsV Require Import UtilAlloc.XattrAlloc UtilAlloc.XattrAllocProofs.

(* sqfs_xattr_writer_add_kv under ANY oracle: no crash; the invariants of both string tables and of
   the pair array and the ownership of every block are kept (the temporary value string is freed on
   every path); a failing call returns SQFS_ERROR_ALLOC and has recorded or altered NO pair; what
   it may leave behind are strings appended to the key / value table (old strings keep their
   indices) and reference counts; a successful call has the pair in the array and both strings in
   their tables *)
Theorem xattr_writer_add_kv_alloc_failstop : forall fx b w key value h F,
  axw_inv b w -> owned_by h (xw_owns w) F ->
  ht_entries skey N (st_ht (as_core (xw_keys w))) < ht_safe_limit ->
  ht_entries skey N (st_ht (as_core (xw_values w))) < ht_safe_limit ->
  exists b' w' z h',
    xw_add_kv_a fx b w key value h = SOk (b', w', z, h') /\
    axw_inv b' w' /\ owned_by h' (xw_owns w') F /\ h_bad h' = h_bad h /\
    xw_residue b w b' w' /\
    (z <> 0%Z -> z = c_SQFS_ERROR_ALLOC /\ xw_pairs w' = xw_pairs w) /\
    (z = 0%Z -> exists ki vi,
        nth_error (strings b' (as_core (xw_keys w'))) (N.to_nat ki) = Some key /\
        nth_error (strings b' (as_core (xw_values w'))) (N.to_nat vi) = Some (to_base32 value) /\
        In (mk_pair ki vi) (aa_abs N (xw_pairs w'))).
Proof. exact xattr_add_kv_alloc_failstop. Qed.
Print Assumptions xattr_writer_add_kv_alloc_failstop.

(* the error path of the tools (sqfs_drop of the writer) is safe in every such state *)
Theorem xattr_writer_destroy_frees_all : forall b w h F,
  axw_inv b w -> owned_by h (xw_owns w) F ->
  owned_by (snd (xw_destroy_a b w h)) [] F /\ h_bad (snd (xw_destroy_a b w h)) = h_bad h.
Proof. exact xattr_destroy_frees_all. Qed.

Theorem xattr_writer_create_alloc_failstop : forall h F,
  owned_by h [] F ->
  let '(r, h') := xw_create_a h in
  h_bad h' = h_bad h /\
  match r with
  | Some w => owned_by h' (xw_owns w) F /\ (forall b, axw_inv b w)
  | None => owned_by h' [] F
  end.
Proof. exact xattr_create_alloc_failstop. Qed.
Print Assumptions xattr_writer_create_alloc_failstop.

(* create; one add whose last allocation (the value's index array) fails; the key "user.a" stays in
   the key table without a pair; destroy releases everything *)
Example ex_xattr_writer_residue :
  match xw_create_a (heap0 (fail_at 8)) with
  | (Some w, h) =>
    match xw_add_kv_a true (mk_bheap 0 []) (xw_begin_a w) [117; 115; 101; 114; 46; 97] [1; 2] h with
    | SOk (b', w', z, h') =>
      z = c_SQFS_ERROR_ALLOC /\ aa_abs N (xw_pairs w') = [] /\
      strings b' (as_core (xw_keys w')) = [[117; 115; 101; 114; 46; 97]] /\
      strings b' (as_core (xw_values w')) = [] /\
      h_live (snd (xw_destroy_a b' w' h')) = [] /\ h_bad (snd (xw_destroy_a b' w' h')) = false
    | _ => False
    end
  | _ => False
  end.
Proof. vm_compute. repeat split. Qed.

(* ---- non-vacuity (independent audit 4): ALL hypotheses of hash_table_alloc_failstop and of rbtree_alloc_failstop, jointly, on
   non-empty containers over a heap whose next allocation fails.  (Proofs inline: they USE the theorems of this file.) ---- *)
From Coq Require Import List NArith ZArith Bool Lia.
From SqfsV Require Import Util.GenUtil Util.FastRem Util.HashModel Util.HashBase Util.HashRows Util.HashInv
     UtilAlloc.AllocBase UtilAlloc.HashAlloc UtilAlloc.HashAllocInv UtilAlloc.HashAllocProofs.
From Coq Require Import List NArith ZArith Bool Lia.
From SqfsV Require Import Util.GenUtil Util.RbModel Util.RbOrder Util.RbTheorems Util.RbExamples
     UtilAlloc.AllocBase UtilAlloc.RbAlloc UtilAlloc.RbAllocProofs.
(* all hypotheses of hash_table_alloc_failstop / hash_table_insert_contract_any_oracle, jointly, on a table that
   holds an entry, over a heap whose next allocation fails: create (two allocations succeed), one insert *)
Example ex_hash_table_alloc_failstop_hyps :
  exists (t : ahtab N N) (h : heap),
    wfa N N (ah_core t) /\ wfs N N (ah_core t) /\ (7 < two32) /\ ht_entries N N (ah_core t) < ht_safe_limit /\
    ht_entries N N (ah_core t) = 1 /\
    owned_by h (ah_owns N N t) (fun _ => False) /\ h_orc h = [false].
Proof.
  pose (h0 := heap0 [true; true; false]).
  assert (O0 : owned_by h0 [] (fun _ => False)).
  { split; [apply heap0_ok|]. split; [constructor|]. split; [intros id H; destruct H|]. intro id. vm_compute. tauto. }
  pose proof (hash_table_create_alloc_failstop N N h0 (fun _ => False) O0) as C.
  destruct (ht_create_a N N h0) as [[t0|] h1] eqn:E0.
  2:{ vm_compute in E0. discriminate. }
  destruct C as (_ & O1 & W1 & _ & _ & _).
  assert (L : ht_entries N N (ah_core t0) < ht_safe_limit).
  { vm_compute in E0. inversion E0; subst. vm_compute. reflexivity. }
  destruct (hash_table_alloc_failstop N N N.eqb t0 5 1 100 h1 (fun _ => False) (proj1 W1) (eq_refl : 5 < two32) L O1)
    as (t1 & r & h2 & E1 & Wa & O2 & _ & Ws & _ & _).
  specialize (Ws W1).
  vm_compute in E0. inversion E0; subst t0 h1. vm_compute in E1. inversion E1; subst t1 r h2.
  eexists; eexists. split; [exact Wa|]. split; [exact Ws|]. split; [reflexivity|]. split; [reflexivity|].
  split; [reflexivity|]. split; [exact O2|reflexivity].
Qed.
Print Assumptions ex_hash_table_alloc_failstop_hyps.
(* all hypotheses of rbtree_alloc_failstop, jointly, on a NON-EMPTY tree and a heap whose next two allocations
   succeed and whose third fails: the tree after one successful insert into the directory reader's tree *)
Example ex_rbtree_alloc_failstop_hyps :
  exists (t : rbtree) (h : heap) (key value : list N),
    (forall a b, (cmp_u32 a b < 0 <-> 0 < cmp_u32 b a)%Z) /\
    (forall a b c, (cmp_u32 a b <= 0 -> cmp_u32 b c <= 0 -> cmp_u32 a c <= 0)%Z) /\
    rbtree_inv cmp_u32 t /\ rb_root t <> Leaf /\
    RbModel.lenN key = rb_key_size t /\ RbModel.lenN value = rb_value_size t /\
    owned_by h (tids (rb_root t) ++ []) (fun _ => False) /\ h_orc h = [true; false].
Proof.
  destruct (conj cmp_u32_antisym cmp_u32_trans) as [A T].
  assert (I0 : rbtree_inv cmp_u32 ex_tree0).
  { apply (rbtree_init_inv cmp_u32 4 8). vm_compute. reflexivity. }
  pose (h0 := heap0 [true; true; false]).
  assert (O0 : owned_by h0 (tids (rb_root ex_tree0) ++ []) (fun _ => False)).
  { split; [apply heap0_ok|]. split; [vm_compute; constructor|]. split; [intros id H; vm_compute in H; tauto|].
    intro id. vm_compute. tauto. }
  destruct (rbtree_alloc_failstop cmp_u32 A T ex_tree0 (le4 5) [1;2;3;4;5;6;7;8] h0 [] (fun _ => False) I0
              eq_refl eq_refl O0) as (z & t1 & h1 & E & _ & O1 & I1 & _ & _).
  vm_compute in E. inversion E; subst z t1 h1.
  eexists; eexists; exists (le4 7), [2;2;2;2;2;2;2;2].
  split; [exact A|]. split; [exact T|]. split; [exact I1|]. split; [discriminate|].
  split; [reflexivity|]. split; [reflexivity|]. split; [exact O1|reflexivity].
Qed.
Print Assumptions ex_rbtree_alloc_failstop_hyps.

(* ==== Extension (session 3, audit 4 item 11): sqfs_xattr_writer_end, the whole recording API as a run, and the
   allocation sites of sqfs_xattr_writer_flush ====
   Models: UtilAlloc/XattrEndAlloc.v (create with the block tree, begin, add_kv with the prefix / key length checks it
   makes before it allocates, end, destroy with rbtree_cleanup, sessions), UtilAlloc/XattrFlushAlloc.v.
   sqfs_xattr_writer_end has NO SQFS_ERROR_OVERFLOW return; of the two in the recording path the key length one is in
   xw_add_kv_chk_a, "key_index / value_index > 0xFFFFFFFF" (unreachable below 2^32 strings) stays unmodelled. *)
From SqfsV Require Import Base.Bytes UtilAlloc.XattrAddExt UtilAlloc.XattrEndAlloc UtilAlloc.XattrEndBase UtilAlloc.XattrEndProofs
     UtilAlloc.XattrSession UtilAlloc.XattrFlushAlloc UtilAlloc.XattrFlushProofs UtilAlloc.XattrEndRefine UtilAlloc.XattrEndTop.
From SqfsV Require C01.XattrModel.

(* sqfs_xattr_writer_end under ANY oracle, from any state with a set under construction ([x2_inv] with the fence at
   kv_start: the recording invariant of add_kv plus: the block tree is a red-black search tree under block_compare of the
   pair array AS IT IS, every block lies in front of kv_start, the stored indices are pairwise different and below
   num_blocks).  No crash (the second lookup finds the node just inserted).
   A FAILING end returns SQFS_ERROR_ALLOC - the oracle said NULL to rbtree_insert's node -, assigns no index
   (out = None), leaves the tree, the list through the descriptors, num_blocks, both string tables and kv_start as
   they were ([end_failed], [end_same_rest]) and the abstract table index -> block unchanged; the pairs since begin
   are the same multiset, sorted in place; the invariant holds again with the same fence: end can be repeated, add_kv
   or begin called, or the writer destroyed (xattr_writer_destroy2_frees_all).
   A SUCCESSFUL end of a non-empty set hands out an index that is in the table with a block holding byte for byte
   the sorted pairs; every entry the table had is still there; an empty set answers 0xFFFFFFFF and changes nothing. *)
Theorem xattr_writer_end_alloc_failstop : forall b w h F,
  x2_inv b w (x2_start w) -> x2_used w < 2 ^ 64 -> x2_num w < 4294967295 ->
  owned_by h (x2_owns w) F ->
  exists w' z out h',
    xw_end_a w h = EOk w' z out h' /\
    owned_by h' (x2_owns w') F /\ h_bad h' = h_bad h /\ end_same_rest w w' /\
    ((z = 0%Z /\ x2_inv b w' (x2_used w') /\ incl (set_table w) (set_table w') /\
      exists idx, out = Some idx /\
        (x2_used w = x2_start w -> idx = NO_INDEX /\ w' = w /\ h' = h) /\
        (x2_start w < x2_used w -> exists S, In (idx, S) (set_table w') /\
             flat_map le64 S = flat_map le64 (sort_u64 (skipnN (x2_start w) (x2_data w)))) /\
        (x2_start w < x2_used w -> end_found w w' idx \/ end_new w w' h idx))
     \/
     (z = c_SQFS_ERROR_ALLOC /\ out = None /\ (exists o, h_orc h = false :: o) /\ end_failed w w' /\
      x2_inv b w' (x2_start w') /\ set_table w' = set_table w)).
Proof. exact xw_end_a_spec. Qed.
Print Assumptions xattr_writer_end_alloc_failstop.

(* the run level: ANY sequence of begin / add_kv / end calls over ANY oracle, from any state satisfying the invariant
   (for instance the one create returns: xattr_writer_create2_alloc_failstop) with room for the calls (hash table
   counters below the bound of the hash table theorems, used below 2^64, fewer than 2^32 - 1 blocks).
   xw_run_a answers SessMisuse when add_kv / end is called without a begin since the last successful end (a use the API
   does not define: the pairs of a finished block would be edited); otherwise it never crashes, keeps the invariant
   and the ownership (so destroy frees everything exactly once), frees nothing twice, only ADDS to the table
   index -> block, both string tables only grow at their ends (an index into them keeps its string), and every
   index a successful end handed out ([xw_handed]: the index with the bytes of the sorted pairs of its set AT THAT
   MOMENT) denotes, in the final state and whatever failed in between, a block holding exactly those bytes. *)
Theorem xattr_writer_session_alloc_failstop : forall fx ops s F,
  sess_inv s F -> sess_room s (N.of_nat (length ops)) ->
  match xw_run_a fx s ops with
  | SessOk s' log =>
    sess_inv s' F /\ h_bad (xs_h s') = h_bad (xs_h s) /\
    incl (set_table (xs_w s)) (set_table (xs_w s')) /\
    prefix (keys_of s) (keys_of s') /\ prefix (values_of s) (values_of s') /\
    length log = length ops /\
    Forall (fun x => denotes (xs_w s') (fst x) (snd x)) (xw_handed fx s ops)
  | SessMisuse => True
  | SessCrash | SessFuel => False
  end.
Proof. exact xw_session_failstop. Qed.
Print Assumptions xattr_writer_session_alloc_failstop.

(* one call: what each answer promises (a failing add_kv: the pairs are what they were; a failing end: see above;
   SessMisuse only for add_kv / end on a closed writer) *)
Theorem xattr_writer_step_alloc_failstop : forall fx s op F n,
  sess_inv s F -> sess_room s (n + 1) ->
  match xw_step_a fx s op with
  | SessOk s' log => step_ok s s' F n /\ exists a, log = [a] /\ ans_ok s s' a
  | SessMisuse => xs_open s = false /\ op <> OBegin
  | SessCrash | SessFuel => False
  end.
Proof. exact xw_step_spec. Qed.
Print Assumptions xattr_writer_step_alloc_failstop.

(* "denotes" is functional: the table holds at most one block per index *)
Theorem xattr_table_index_functional : forall b w f idx S1 S2,
  x2_inv b w f -> In (idx, S1) (set_table w) -> In (idx, S2) (set_table w) -> S1 = S2.
Proof. exact denotes_functional. Qed.

(* create (with rbtree_init and the fail_tree path) is all or nothing and establishes the invariant; begin keeps it
   (audit 4: no statement said so) and moves the fence to used; destroy (rbtree_cleanup first) frees every block of
   every state the invariant describes exactly once *)
Theorem xattr_writer_create2_alloc_failstop : forall h F,
  owned_by h [] F ->
  let '(r, h') := xw_create2_a h in
  h_bad h' = h_bad h /\
  match r with
  | Some w => owned_by h' (x2_owns w) F /\ (forall b, x2_inv b w (x2_start w)) /\ set_table w = [] /\ x2_num w = 0
  | None => owned_by h' [] F
  end.
Proof. exact xw_create2_alloc_failstop. Qed.
Print Assumptions xattr_writer_create2_alloc_failstop.

Theorem xattr_writer_begin_keeps_inv : forall b w f,
  x2_inv b w f ->
  x2_inv b (xw_begin2_a w) (x2_used w) /\ x2_start (xw_begin2_a w) = x2_used w /\
  x2_used (xw_begin2_a w) = x2_used w /\ x2_data (xw_begin2_a w) = x2_data w /\
  x2_owns (xw_begin2_a w) = x2_owns w /\ set_table (xw_begin2_a w) = set_table w.
Proof. exact xw_begin2_spec. Qed.

Theorem xattr_writer_destroy2_frees_all : forall b w f h F,
  x2_inv b w f -> owned_by h (x2_owns w) F ->
  owned_by (snd (xw_destroy2_a b w h)) [] F /\ h_bad (snd (xw_destroy2_a b w h)) = h_bad h.
Proof. exact xw_destroy2_frees_all. Qed.
Print Assumptions xattr_writer_destroy2_frees_all.

(* add_kv once more, with what a run needs: the entry counters of both tables grow by at most one per call, the pairs
   in front of kv_start are untouched, used grows by at most one ([xw_more]) *)
Theorem xattr_writer_add_kv_alloc_failstop_ext : forall fx b w key value h F,
  axw_inv b w -> owned_by h (xw_owns w) F ->
  ht_entries skey N (st_ht (as_core (xw_keys w))) < ht_safe_limit ->
  ht_entries skey N (st_ht (as_core (xw_values w))) < ht_safe_limit ->
  exists b' w' z h',
    xw_add_kv_a fx b w key value h = SOk (b', w', z, h') /\
    axw_inv b' w' /\ owned_by h' (xw_owns w') F /\ h_bad h' = h_bad h /\
    xw_residue b w b' w' /\ xw_more w w' /\
    (z <> 0%Z -> z = c_SQFS_ERROR_ALLOC /\ xw_pairs w' = xw_pairs w) /\
    (z = 0%Z -> exists ki vi,
        nth_error (strings b' (as_core (xw_keys w'))) (N.to_nat ki) = Some key /\
        nth_error (strings b' (as_core (xw_values w'))) (N.to_nat vi) = Some (to_base32 value) /\
        In (mk_pair ki vi) (aa_abs N (xw_pairs w'))).
Proof. exact xattr_add_kv_alloc_failstop_ext. Qed.
Print Assumptions xattr_writer_add_kv_alloc_failstop_ext.

(* the success path IS C01's functional model of end: from a state whose blocks are pairwise different, whose
   descriptor list enumerates the nodes in index order and whose array holds sqfs_u64 values ([x2_rinv]), with an
   oracle that never says NULL, xw_end_a succeeds with the index and the block list C01.XattrModel.xw_end computes on
   the abstraction (pairs behind kv_start as (key index, value index); block k = the pairs of the node storing k),
   and both invariants hold again.  (x2_rinv is kept by end - proved here - and trivially by begin; that add_kv keeps
   "the array holds values < 2^64" needs key / value indices < 2^32, which the C code checks and the allocation-aware
   add_kv model does not: hypothesis per call, not a run-level refinement.) *)
Theorem xattr_writer_end_refines_c01 : forall kk vv rr b w h F,
  x2_inv b w (x2_start w) -> x2_rinv w -> x2_used w < 2 ^ 64 -> x2_num w < 4294967295 ->
  owned_by h (x2_owns w) F -> all_ok h ->
  exists w' idx h',
    xw_end_a w h = EOk w' 0%Z (Some idx) h' /\
    x2_inv b w' (x2_used w') /\ x2_rinv w' /\
    C01.XattrModel.xw_end (C01.XattrModel.mkX kk vv rr (cur_of w) (blocks_of w))
    = (C01.XattrModel.mkX kk vv rr [] (blocks_of w'), idx).
Proof. exact xw_end_a_refines_xw_end. Qed.
Print Assumptions xattr_writer_end_refines_c01.

(* the allocation sites of sqfs_xattr_writer_flush and of the meta writer it drives (the meta writer, the
   out-of-line table, one buffer per in-line value, one block per metadata block flushed - also in the middle of an
   append -, the location table): for EVERY oracle and every writer state whatever the flush allocated is freed again
   when it returns, nothing else is freed, nothing twice, and the only error codes are SQFS_ERROR_ALLOC /
   SQFS_ERROR_OVERFLOW.  (The writer is a const argument: unchanged by construction.  Bytes written: C01 / C03.
   NOT modelled: I/O errors of write_at, the compressor's own allocations.) *)
Theorem xattr_writer_flush_allocs_failstop : forall b w h own F,
  owned_by h own F ->
  owned_by (snd (xw_flush_a b w h)) own F /\ h_bad (snd (xw_flush_a b w h)) = h_bad h /\
  (forall z, fst (xw_flush_a b w h) = Some z -> z = 0%Z \/ z = c_SQFS_ERROR_ALLOC \/ z = c_SQFS_ERROR_OVERFLOW).
Proof. exact xw_flush_a_spec. Qed.
Print Assumptions xattr_writer_flush_allocs_failstop.

(* ---- non-vacuity ---- *)
(* every state create returns meets the hypotheses of the session theorem *)
Example ex_xattr_session_start : forall o s, xs_start o = Some s ->
  sess_inv s (fun _ => False) /\ xs_open s = false /\ set_table (xs_w s) = [] /\ x2_num (xs_w s) = 0.
Proof. exact xs_start_inv. Qed.

(* a writer created over an oracle whose 15th allocation call - the tree node of the first end - fails:
   begin, two adds, end (fails: SQFS_ERROR_ALLOC, no index), end again (index 0); the same set added in the other
   order (index 0 again: the tree lookup finds the block); a third set (index 1); destroy frees everything *)
Example ex_xattr_session_run :
  match xs_start (fail_at 14) with
  | Some s =>
    sess_room s (N.of_nat (length ex_ops)) /\
    match xw_run_a true s ex_ops with
    | SessOk s' log =>
      log = [ABegin; AAdd 0; AAdd 0; AEnd c_SQFS_ERROR_ALLOC None; AEnd 0 (Some 0%N);
             ABegin; AAdd 0; AAdd 0; AEnd 0 (Some 0%N); ABegin; AAdd 0; AEnd 0 (Some 1%N)] /\
      xw_handed true s ex_ops = [(0%N, ex_bytes1); (0%N, ex_bytes1); (1%N, ex_bytes2)] /\
      set_table (xs_w s') = [(1%N, [2%N]); (0%N, [0%N; 4294967297%N])] /\
      x2_chain (xs_w s') = [14%N; 20%N] /\
      h_live (snd (xw_destroy2_a (xs_b s') (xs_w s') (xs_h s'))) = [] /\
      h_bad (snd (xw_destroy2_a (xs_b s') (xs_w s') (xs_h s'))) = false
    | _ => False
    end
  | None => False
  end.
Proof. exact ex_session_run. Qed.

(* the session theorem applied to that run *)
Example ex_xattr_session_theorem :
  exists s s' log,
    xs_start (fail_at 14) = Some s /\ xw_run_a true s ex_ops = SessOk s' log /\
    sess_inv s' (fun _ => False) /\
    Forall (fun x => denotes (xs_w s') (fst x) (snd x)) [(0%N, ex_bytes1); (0%N, ex_bytes1); (1%N, ex_bytes2)].
Proof. exact ex_session_theorem. Qed.
Print Assumptions ex_xattr_session_theorem.

(* the flush of the final writer of that run, with one more failing call at each of its allocation sites in turn:
   eight give SQFS_ERROR_ALLOC, behind the last one the flush succeeds; the live set is the writer's every time *)
Example ex_xattr_flush_faults :
  map (fun k =>
         match ex_final (repeat true 14 ++ [false] ++ repeat true (7 + k) ++ [false]) with
         | Some s' =>
           let r := xw_flush_a (xs_b s') (xs_w s') (xs_h s') in
           (fst r, (N.of_nat (length (h_live (snd r))) =? N.of_nat (length (h_live (xs_h s'))))%N, h_bad (snd r))
         | None => (None, false, true)
         end) (seq 0 9)
  = repeat (Some c_SQFS_ERROR_ALLOC, true, false) 8 ++ [(Some 0%Z, true, false)].
Proof. exact ex_flush_faults. Qed.

(* the refinement theorem's hypotheses hold before the successful end of the first set, and its conclusion computed *)
Example ex_xattr_end_refines :
  exists s0 s l w' idx h',
    xs_start (fail_at 14) = Some s0 /\ xw_run_a true s0 ex_ops4 = SessOk s l /\
    xw_end_a (xs_w s) (xs_h s) = EOk w' 0%Z (Some idx) h' /\
    C01.XattrModel.xw_end (C01.XattrModel.mkX [] [] [] (cur_of (xs_w s)) (blocks_of (xs_w s)))
    = (C01.XattrModel.mkX [] [] [] [] (blocks_of w'), idx) /\
    idx = 0%N /\ blocks_of w' = [[(0%nat, 0%nat); (1%nat, 1%nat)]].
Proof. exact ex_refine_theorem. Qed.
Print Assumptions ex_xattr_end_refines.
