(* C13 -- fail-stop: an I/O failure (or any other failing call on the modelled
   paths) is reported, never yields a bad image.  Statements only; proofs are in
   C13/FaultGeneric.v, FaultProofs.v, FaultTop.v.

   [run p o st0] interprets a tool model against a fault oracle o : nat -> bool
   (the n-th fallible call fails iff o n); traces are newest-event-first.
   The theorems are for EVERY script (shape of the run: numbers of files,
   blocks, reads, branches taken in the block processor ...) and EVERY oracle
   (single faults are the instances [single k]).
   Allocation faults are *not* covered by these theorems beyond the abstract
   stage calls of the model; they are enumerated on the real tools by the
   check (evidence: the coverage fields named alloc_...). *)
From Coq Require Import List ZArith Bool Arith.
From SqfsV Require Import Gen.Constants C13.FaultMonad C13.FaultGeneric C13.FaultModel
                          C13.FaultProofs C13.FaultTop C13.FaultWitness.
Import ListNotations.
Local Open Scope Z_scope.

(* ---- io_fault_failstop: packers ---- *)
Theorem io_fault_failstop_gensquashfs : forall g o,
  let rs := run (gensquashfs repaired g) o st0 in
  bad (tr (snd rs)) = true ->
  fst rs <> 0 /\ has_diag (tr (snd rs)) = true /\
  (created (tr (snd rs)) = true -> exists rest, tr (snd rs) = EvUnlink FOut :: rest).
Proof. exact gensquashfs_failstop. Qed.
Print Assumptions io_fault_failstop_gensquashfs.

Theorem io_fault_failstop_tar2sqfs : forall t o,
  let rs := run (tar2sqfs repaired t) o st0 in
  bad (tr (snd rs)) = true ->
  fst rs <> 0 /\ has_diag (tr (snd rs)) = true /\
  (created (tr (snd rs)) = true -> exists rest, tr (snd rs) = EvUnlink FOut :: rest).
Proof. exact tar2sqfs_failstop. Qed.
Print Assumptions io_fault_failstop_tar2sqfs.

(* any non-zero exit (whatever the reason) is accompanied by a diagnostic and,
   once the output exists, ends with its removal *)
Theorem nonzero_exit_diag_gensquashfs : forall g o,
  fst (run (gensquashfs repaired g) o st0) <> 0 ->
  has_diag (tr (snd (run (gensquashfs repaired g) o st0))) = true.
Proof. exact gen_nonzero_diag. Qed.
Theorem nonzero_exit_unlink_gensquashfs : forall g o,
  fst (run (gensquashfs repaired g) o st0) <> 0 ->
  created (tr (snd (run (gensquashfs repaired g) o st0))) = true ->
  exists rest, tr (snd (run (gensquashfs repaired g) o st0)) = EvUnlink FOut :: rest.
Proof. exact gen_nonzero_unlink. Qed.
Print Assumptions nonzero_exit_unlink_gensquashfs.

(* the packer never unlinks anything it did not create in this run
   (an existing file that could not be opened with O_EXCL stays) *)
Theorem unlink_only_created_gensquashfs : forall g o,
  has_unlink (tr (snd (run (gensquashfs repaired g) o st0))) = true ->
  created (tr (snd (run (gensquashfs repaired g) o st0))) = true.
Proof. exact gen_unlink_only_created. Qed.
Print Assumptions unlink_only_created_gensquashfs.

(* ---- exit0_means_faultfree ---- *)
Theorem exit0_means_faultfree_gensquashfs : forall g o,
  fst (run (gensquashfs repaired g) o st0) = 0 ->
  run (gensquashfs repaired g) o st0 = run (gensquashfs repaired g) nofault st0.
Proof. exact gensquashfs_exit0_faultfree. Qed.
Print Assumptions exit0_means_faultfree_gensquashfs.

Theorem exit0_means_faultfree_tar2sqfs : forall t o,
  fst (run (tar2sqfs repaired t) o st0) = 0 ->
  run (tar2sqfs repaired t) o st0 = run (tar2sqfs repaired t) nofault st0.
Proof. exact tar2sqfs_exit0_faultfree. Qed.
Print Assumptions exit0_means_faultfree_tar2sqfs.

(* same output object (successful output calls in order) as the fault-free run *)
Corollary exit0_same_output_gensquashfs : forall g o,
  fst (run_tool (gensquashfs repaired g) o) = 0 ->
  output_of (snd (run_tool (gensquashfs repaired g) o)) =
  output_of (snd (run_tool (gensquashfs repaired g) nofault)).
Proof.
  intros g o. unfold run_tool.
  destruct (run (gensquashfs repaired g) o st0) as [c s] eqn:E. cbn [fst]. intros H.
  pose proof (gensquashfs_exit0_faultfree g o) as X. rewrite E in X. cbn [fst] in X.
  rewrite <- (X H). reflexivity.
Qed.
Print Assumptions exit0_same_output_gensquashfs.

(* ---- readers (sqfs2tar, rdsquashfs -c / -u) ---- *)
Theorem io_fault_failstop_readers : forall l o,
  let rs := run (reader_tool repaired l) o st0 in
  bad (tr (snd rs)) = true -> fst rs <> 0 /\ has_diag (tr (snd rs)) = true.
Proof. exact reader_failstop. Qed.
Theorem exit0_means_faultfree_readers : forall l o,
  fst (run (reader_tool repaired l) o st0) = 0 ->
  run (reader_tool repaired l) o st0 = run (reader_tool repaired l) nofault st0.
Proof. exact reader_exit0_faultfree. Qed.
Print Assumptions exit0_means_faultfree_readers.

(* ---- status_propagates, per layer (repaired code) ----
   strict p: result 0  ==>  no call inside p failed and the pool status is untouched
   sound p : result 0  ==>  a call inside p failed only if that failure is parked in
                            the pool status (worker), to be picked up by the next
                            submit or by sqfs_block_processor_finish *)
Theorem status_propagates_meta_writer : forall b n, strict (meta_flushes b n).
Proof. exact strict_meta_flushes. Qed.
Theorem status_propagates_write_table : forall n, strict (write_table n).
Proof. exact strict_write_table. Qed.
Theorem status_propagates_block_writer : forall p, strict (write_data_block p).
Proof. exact strict_write_data_block. Qed.
Theorem status_propagates_completed_block : forall p, strict (process_completed_block p).
Proof. exact strict_pcb. Qed.
Theorem status_propagates_completed_fragment : forall s, strict (process_completed_fragment repaired s).
Proof. exact strict_pcf. Qed.
Theorem status_propagates_enqueue : forall e, strict (enqueue_block e).
Proof. exact strict_enqueue_block. Qed.
Theorem status_propagates_dequeue : forall l, sound (dequeue_block repaired l).
Proof. exact sound_dequeue_block. Qed.
Theorem status_propagates_append : forall l, sound (bp_append repaired l).
Proof. exact sound_bp_append. Qed.
Theorem status_propagates_end_file : forall s, sound (bp_end_file repaired s).
Proof. exact sound_bp_end_file. Qed.
Theorem status_propagates_bp_finish : forall f, sound (bp_finish repaired f).
Proof. exact sound_bp_finish. Qed.
Theorem worker_error_reported : forall f o s,
  fst (run (bp_finish repaired f) o s) = 0 -> perr (snd (run (bp_finish repaired f) o s)) = false.
Proof. exact bp_finish_clears. Qed.
Theorem status_propagates_pack_file : forall f, sound (pack_file repaired f).
Proof. exact sound_pack_file. Qed.
Theorem status_propagates_serialize : forall s, strict (serialize_fstree s).
Proof. exact strict_serialize_fstree. Qed.
Theorem status_propagates_finish : forall f, sound (writer_finish repaired f).
Proof. exact sound_writer_finish. Qed.
Theorem status_propagates_init : forall v c, strict (writer_init v c).
Proof. exact strict_writer_init. Qed.
Theorem status_propagates_process_tarball : forall l, sound (process_tarball repaired l).
Proof. exact sound_process_tarball. Qed.
Print Assumptions status_propagates_finish.
Print Assumptions status_propagates_process_tarball.

(* ---- the code as it is today: refutation witnesses (one per repaired site) ---- *)
Definition P := gensquashfs unpatched.

(* F15: sqfs_writer_init fails at the first super block write: the created output stays *)
Theorem init_failure_leaves_file_refuted :
  let r := run_tool (P gen_blk) (first_fault (P gen_blk) is_write_out) in
  code_of r <> 0 /\ created (trace_of r) = true /\ has_unlink (trace_of r) = false.
Proof. vm_compute. repeat split; discriminate. Qed.

(* F16: add_export_table_entry fails in write_export_table: `if (ret) return 0;` -> exit 0 *)
Theorem export_error_swallowed_refuted :
  let r := run_tool (P gen_blk) (first_fault (P gen_blk) (is_stage S_EXPORT_ENT)) in
  code_of r = 0 /\ bad (trace_of r) = true.
Proof. vm_compute. split; reflexivity. Qed.

(* N1: the export table cannot be written: exit 1 but nothing on stderr *)
Theorem export_failure_no_diag_refuted :
  let r := run_tool (P gen_blk) (nth_fault (P gen_blk) is_write_out 5) in
  code_of r <> 0 /\ bad (trace_of r) = true /\ has_diag (trace_of r) = false.
Proof. vm_compute. repeat split; discriminate. Qed.

(* N2: set_block_size fails for a sparse fragment: status dropped, exit 0 *)
Theorem sparse_fragment_status_dropped_refuted :
  let r := run_tool (P gen_sparse) (first_fault (P gen_sparse) (is_stage S_SET_SIZE)) in
  code_of r = 0 /\ bad (trace_of r) = true.
Proof. vm_compute. split; reflexivity. Qed.

(* N3: the compressor fails in a worker for the last block: nobody looks at the pool status *)
Theorem worker_error_dropped_refuted :
  let r := run_tool (P gen_blk) (nth_fault (P gen_blk) (is_stage S_WORKER) 1) in
  code_of r = 0 /\ bad (trace_of r) = true.
Proof. vm_compute. split; reflexivity. Qed.

(* N4: tar2sqfs: the first read of stdin fails inside tar_open_stream: ignored *)
Theorem tar_probe_error_ignored_refuted :
  let p := tar2sqfs unpatched tar_blk in
  let r := run_tool p (first_fault p (is_read_of FStdin)) in
  code_of r = 0 /\ bad (trace_of r) = true.
Proof. vm_compute. split; reflexivity. Qed.

(* N5: relative output path + --pack-dir: after chdir the cleanup unlinks another path *)
Theorem cleanup_unlinks_wrong_path_refuted :
  let r := run_tool (P gen_blk) (nth_fault (P gen_blk) is_write_out 1) in
  code_of r <> 0 /\ last_ev r = Some (EvUnlink FWrong).
Proof. vm_compute. split; [discriminate|reflexivity]. Qed.

(* N6: a read error in the pack file / sort file: exit 1, nothing on stderr *)
Theorem getline_error_no_diag_refuted :
  let r := run_tool (P gen_blk) (first_fault (P gen_blk) (is_read_of FIn)) in
  code_of r <> 0 /\ has_diag (trace_of r) = false.
Proof. vm_compute. split; [discriminate|reflexivity]. Qed.

(* N7: tar2sqfs: skipping to the next header fails: exit 1, nothing on stderr *)
Theorem tar_next_error_no_diag_refuted :
  let p := tar2sqfs unpatched tar_blk in
  let r := run_tool p (nth_fault p (is_read_of FStdin) 2) in
  code_of r <> 0 /\ has_diag (trace_of r) = false.
Proof. vm_compute. split; [discriminate|reflexivity]. Qed.

(* N8: sqfs2tar: the two terminating zero records cannot be written: exit 1, nothing on stderr *)
Theorem sqfs2tar_terminate_no_diag_refuted :
  let p := reader_tool unpatched s2t_small in
  let r := run_tool p (single 9) in
  code_of r <> 0 /\ bad (trace_of r) = true /\ has_diag (trace_of r) = false.
Proof. vm_compute. repeat split; discriminate. Qed.
Print Assumptions worker_error_dropped_refuted.

(* ---- non-vacuity of the theorems about the repaired code ---- *)
Definition R := gensquashfs repaired.

(* the fault-free run of a non-trivial script exits 0, creates the output and keeps it *)
Example ex_faultfree_exit0 :
  let r := run_tool (R gen_blk) nofault in
  code_of r = 0 /\ created (trace_of r) = true /\ has_unlink (trace_of r) = false /\
  length (trace_of r) = 61%nat.
Proof. vm_compute. repeat split; reflexivity. Qed.

(* hypotheses of io_fault_failstop are met: a data block write fails *)
Example ex_fault_data_write :
  let r := run_tool (R gen_blk) (nth_fault (R gen_blk) is_write_out 1) in
  bad (trace_of r) = true /\ code_of r = 1 /\ has_diag (trace_of r) = true /\
  last_ev r = Some (EvUnlink FOut).
Proof. vm_compute. repeat split; reflexivity. Qed.

(* F15 repaired: the super block write fails, the output is removed *)
Example ex_fault_init_write :
  let r := run_tool (R gen_blk) (first_fault (R gen_blk) is_write_out) in
  code_of r = 1 /\ created (trace_of r) = true /\ last_ev r = Some (EvUnlink FOut).
Proof. vm_compute. repeat split; reflexivity. Qed.

(* the open itself fails: exit 1, nothing unlinked (an existing file stays) *)
Example ex_fault_open :
  let r := run_tool (R gen_blk) (single 1) in
  code_of r = 1 /\ created (trace_of r) = false /\ has_unlink (trace_of r) = false /\
  has_diag (trace_of r) = true.
Proof. vm_compute. repeat split; reflexivity. Qed.

(* worker failure on the last block is reported by the repaired finish *)
Example ex_fault_worker :
  let r := run_tool (R gen_blk) (nth_fault (R gen_blk) (is_stage S_WORKER) 1) in
  code_of r = 1 /\ has_diag (trace_of r) = true /\ last_ev r = Some (EvUnlink FOut).
Proof. vm_compute. repeat split; reflexivity. Qed.

(* two faults at once (the theorems are not about single faults only) *)
Example ex_two_faults :
  let o := fun n => orb (Nat.eqb n 30) (Nat.eqb n 33) in
  let r := run_tool (R gen_blk) o in
  code_of r = 1 /\ last_ev r = Some (EvUnlink FOut).
Proof. vm_compute. repeat split; reflexivity. Qed.

Example ex_tar_faultfree :
  code_of (run_tool (tar2sqfs repaired tar_blk) nofault) = 0.
Proof. vm_compute. reflexivity. Qed.
Example ex_tar_probe_fault :
  let p := tar2sqfs repaired tar_blk in
  let r := run_tool p (first_fault p (is_read_of FStdin)) in
  code_of r = 1 /\ has_diag (trace_of r) = true /\ created (trace_of r) = false.
Proof. vm_compute. repeat split; reflexivity. Qed.
Example ex_reader_fault :
  let p := reader_tool repaired s2t_small in
  let r := run_tool p (single 9) in
  code_of r = 1 /\ has_diag (trace_of r) = true.
Proof. vm_compute. repeat split; reflexivity. Qed.
