(* ImgScan — non-vacuity of the -x theorems: the tree of ImgScan.Example with host xattrs.  a (= m, one host inode) and d/x
   carry the same set S1, z another set S2 (sharing one pair with S1), the directory d a third one S3 (a prefix of S1), the
   other nodes none.  Two enumeration orders. *)
From Coq Require Import List NArith ZArith Bool.
From SqfsV Require Import C01.GenC01 C01.Res C01.InodeModel C01.XattrModel Img.TreeModel.
From SqfsV Require Import C11.StrOrder C11.FstreeModel C11.PostModel C11.ScanModel C11.CanonProofs C11.ScanProofs ImgPost.Bridge.
From SqfsV Require C02.BpModel C02.BpConcrete C03.Common.
From SqfsV Require Image.FinishModel Image.FinishProofs ImgXattr.FlushModel Image.ValidModel Image.ImageProofs.
From SqfsV Require Import ImgScan.PackModel ImgScan.PackProofs ImgScan.Example ImgScan.XattrModel ImgScan.XattrProofs.
Import ListNotations.
Local Open Scope N_scope.

Definition k_a : list N := [117;115;101;114;46;97].      (* "user.a" *)
Definition k_b : list N := [117;115;101;114;46;98].      (* "user.b" *)
Definition k_c : list N := [117;115;101;114;46;99].      (* "user.c" *)
Definition xS1 := [(k_a, [49]); (k_b, [120;121])].
Definition xS2 := [(k_b, [120;121]); (k_c, [])].
Definition xS3 := [(k_a, [49])].
Definition x_hx (nm : list N) : option (list (list N * list N)) :=
  match nm with
  | [97] | [109] => Some xS1                 (* a, m: two names of one inode *)
  | [100; 47; 120] => Some xS1               (* d/x: the same set on another file *)
  | [122] => Some xS2                        (* z *)
  | [100] => Some xS3                        (* d *)
  | _ => Some []
  end.

Definition x_sx (t : hnode) : xres := scan_xattrs x_fnmatch x_dflt x_cfg true x_hx true t (fs_init x_dflt).

(* indices in the order of the sorted tree: S1 is first met at a (index 0), S3 at d (1), S2 at z (2); d/x and m reuse 0;
   the section (flushed at any offset, here 1000, stored uncompressed) is the same and is present *)
Example ex_scan_xattrs :
  x_sx x_tree = x_sx x_tree' /\
  match x_sx x_tree' with
  | XRDone idx xw =>
      idx = [([], NOX); ([nA], 0); ([nB], NOX); ([nC], NOX); ([nD], 1); ([nD; nE], NOX); ([nD; nE; nF], NOX);
             ([nD; nX], 0); ([nD; nY], NOX); ([nM], 0); ([nN], NOX); ([nZ], 2)] /\
      x_keys xw = [k_a; k_b; k_c] /\ length (x_blocks xw) = 3%nat
  | _ => False
  end /\
  xsection (img_compress 3) 1000 (x_sx x_tree) = xsection (img_compress 3) 1000 (x_sx x_tree') /\
  match xsection (img_compress 3) 1000 (x_sx x_tree') with
  | Some (Ok (Some (b, off))) => (0 <? off) = true /\ (off <? Common.lenN b) = true
  | _ => False
  end.
Proof. vm_compute. repeat split; reflexivity. Qed.

(* a failing host call (llistxattr on d/y) stops the run at that node, whatever the order *)
Definition x_hx_fail (nm : list N) := match nm with [100; 47; 121] => None | _ => x_hx nm end.
Example ex_scan_xattrs_host_error :
  scan_xattrs x_fnmatch x_dflt x_cfg true x_hx_fail true x_tree (fs_init x_dflt) = XRStage (XHostErr [nD; nY]) /\
  scan_xattrs x_fnmatch x_dflt x_cfg true x_hx_fail true x_tree' (fs_init x_dflt) = XRStage (XHostErr [nD; nY]).
Proof. vm_compute. split; reflexivity. Qed.

(* without -x nothing is attached *)
Example ex_scan_no_x :
  match scan_xattrs x_fnmatch x_dflt x_cfg false x_hx true x_tree (fs_init x_dflt) with
  | XRDone idx xw => forallb (fun e => snd e =? NOX) idx = true /\ xw = xw_empty
  | _ => False
  end.
Proof. vm_compute. split; reflexivity. Qed.

(* ---- the whole image ---- *)
Definition x_wcx : FinishModel.wcfg := FinishModel.mkCfg 4096 0 1 4096 true false.     (* xattrs enabled *)

Definition x_packx (backlog : N) (t : hnode) : pres_imgx :=
  pack_image_x x_fnmatch x_dflt x_cfg BpConcrete.cht BpConcrete.cht_search BpConcrete.cht_insert
               BpConcrete.cbw BpConcrete.cbw_write x_bw_bytes x_host_file true x_hx [] (img_compress 3) c_id_table_limit x_wcx
               (list BpModel.blk) BpModel.sp_submit (BpModel.sp_dequeue (BpModel.process_block x_hash BpConcrete.toy_compress))
               true backlog [] [] x_bw0 t (fs_init x_dflt).

Example ex_pack_image_x :
  (0 <? FinishModel.c_block_size x_wcx) = true /\
  x_packx 3 x_tree = x_packx 40 x_tree' /\
  match x_packx 40 x_tree' with
  | IRest (IImage (Ok w)) =>
      let b := FinishModel.image_bytes w in
      ImageProofs.image_fits w = true /\
      ValidModel.valid_image (img_uncompress 3) 4096 b = true /\
      SuperModel.s_inode_count (FinishModel.w_super w) = 11 /\
      (SuperModel.s_xattr_start (FinishModel.w_super w) <? SuperModel.s_bytes_used (FinishModel.w_super w)) = true /\
      (* the image differs from the one packed without -x *)
      Some b <> image_file (x_pack 40 x_tree')
  | _ => False
  end.
Proof. vm_compute. repeat split; try reflexivity. discriminate. Qed.

(* ---- the variant that attaches xattrs from the scan callback ---- *)
(* it is order dependent as soon as the delivery order is: unsorted native iterator, hard link filter off (the case in which
   the fstree, inode numbers and file list ARE order independent, C11 theorem (3)) *)
Definition x_scan_order_x (sorted : bool) (t : hnode) : option xstage :=
  match scan_dir x_fnmatch x_dflt x_cfg_nohl sorted t (fs_init x_dflt) with
  | Some (_, s) => Some (apply_xattrs_scan_order x_hx s)
  | None => None
  end.

Lemma xattrs_in_scan_order_refuted :
  exists fnmatch dflt cfg hx t t' fs0 fs fs' s s',
    hwf t /\ hperm t t' /\ order_free_case false cfg t /\
    scan_dir fnmatch dflt cfg false t fs0 = Some (fs, s) /\ scan_dir fnmatch dflt cfg false t' fs0 = Some (fs', s') /\
    post_process fs = post_process fs' /\
    apply_xattrs_scan_order hx s <> apply_xattrs_scan_order hx s'.
Proof.
  destruct (scan_dir x_fnmatch x_dflt x_cfg_nohl false x_tree (fs_init x_dflt)) as [[fs s]|] eqn:E1;
    [|vm_compute in E1; discriminate].
  destruct (scan_dir x_fnmatch x_dflt x_cfg_nohl false x_tree' (fs_init x_dflt)) as [[fs' s']|] eqn:E2;
    [|vm_compute in E2; discriminate].
  exists x_fnmatch, x_dflt, x_cfg_nohl, x_hx, x_tree, x_tree', (fs_init x_dflt), fs, fs', s, s'.
  split; [exact x_tree_wf|]. split; [exact x_tree_perm|]. split; [right; left; reflexivity|].
  split; [exact E1|]. split; [exact E2|].
  vm_compute in E1, E2. inversion E1; inversion E2; subst. split; [vm_compute; reflexivity|].
  vm_compute. discriminate.
Qed.

(* with the sorting native iterator (the code as it is) the delivery order itself is order independent, so even that
   variant would be: on the present tree it is the sort in dir_unix.c that makes an order dependence of this kind
   unobservable, and the walk over the sorted tree that makes the result independent of it *)
Lemma xattrs_in_scan_order_free_when_sorted fnmatch dflt cfg (hx : hostx) t t' fs0 :
  hwf t -> hperm t t' ->
  option_map (fun r => apply_xattrs_scan_order hx (snd r)) (scan_dir fnmatch dflt cfg true t fs0) =
  option_map (fun r => apply_xattrs_scan_order hx (snd r)) (scan_dir fnmatch dflt cfg true t' fs0).
Proof. intros Hw Hp. rewrite (scan_order_free_l fnmatch dflt cfg t t' fs0 Hw Hp). reflexivity. Qed.
