(* ImgScan — gensquashfs --pack-dir from the host directory to the image bytes, as the composition of the layer models
   that exist in this development.  Definitions only.

   bin/gensquashfs/src/mkfs.c main()                     model
   dir_tree_iterator_create + scan_directory             C11.ScanModel.scan_dir            (host tree -> fstree)
   fstree_post_process                                   C11.PostModel.post_process        (-> inode numbers, file list)
     both together                                       [scan_post] (= C11.CanonProofs.pack_with)
   apply_xattrs                                          ABSTRACT: [xa] (xattr index per node), [xsec] (the xattr section)
   pack_files: for (node = fs->files; ...)               [pack_inputs]: per path of pp_files, in that order, the host file
     path = input_file ? input_file : fstree_get_path      named [input_name] is read ([host_file]: an oracle — flag word
     pack_file: open, splice block_size chunks, flush      and the chunks handed to append) ...
     sqfs_block_processor (frontend/backend/workers)     ... and goes through C02.BpModel.run (any pool, any backlog)
     n->data.file.inode                                  [fb_of]: the inode the run leaves for file number k (position in
                                                         fs->files), as the C01 inode body the serializer takes
     block writer                                        [bw_bytes] of the final writer state: the bytes it appended
     fragment table                                      s_ftbl of the final state
   sqfs_writer_finish                                    Image.FinishModel.write_image on
                                                           in_tree = ImgPost.Bridge.to_img fb xa pp   (serialize_fstree's input)
                                                           in_data, in_frags from the data path, in_opts / in_xattr abstract

   What is NOT modelled and therefore a parameter that both runs of an order-independence statement share:
     - the bytes of the host files ([host_file]: a function of the file NAME — the packer chdir()s into the pack directory
       and opens that name) and the flag word (n->data.file.flags is 0 for a directory scan; -T adds DONT_FRAGMENT by size),
     - xattrs (apply_xattrs walks the sorted tree; -x reads the host's xattrs per path),
     - compressor options, the sort file (fstree_sort_files), I/O errors. *)
From Coq Require Import List NArith ZArith Bool.
From SqfsV Require Import C01.GenC01 C01.Res C01.InodeModel Img.TreeModel.
From SqfsV Require Import C11.StrOrder C11.FstreeModel C11.PostModel C11.ScanModel ImgPost.Bridge.
From SqfsV Require C02.BpModel.
From SqfsV Require Image.FinishModel.
Import ListNotations.
Local Open Scope N_scope.

(* scan_directory, then fstree_post_process *)
Definition scan_post (fnmatch : list N -> list N -> bool -> bool) (dflt : fsdefaults) (cfg : scfg)
           (sorted : bool) (t : hnode) (fs0 : fstree) : option (pres ppout) :=
  option_map (fun r => post_process (fst r)) (scan_dir fnmatch dflt cfg sorted t fs0).

(* ------------------------------------------------------------------ *)
(* the serialized tables of a post-processed tree                       *)
(* ------------------------------------------------------------------ *)

(* what the metadata part of the image consists of: inode table, directory table, id table, root reference — plus the
   inode numbers (fs->inodes) and fs->files *)
Record tables := mkTab {
  tb_itbl : list N; tb_dtbl : list N; tb_ids : list N; tb_root : N;
  tb_refs : list N;              (* inode reference of inode k + 1 *)
  tb_inodes : list path;         (* position k: the path of the node with inode number k + 1 *)
  tb_files : list path }.

Definition tables_of_img (pp : ppout) (img : simg) : tables :=
  mkTab (si_itbl img) (si_dtbl img) (si_ids img) (si_root img) (si_refs img) (pp_inodes pp) (pp_files pp).

Inductive tres := TScanErr | TPostErr | TPostLoop | TSer (r : res tables).

Section Tables.
  Variable fnmatch : list N -> list N -> bool -> bool.
  Variable dflt : fsdefaults.
  Variable cfg : scfg.
  Variable mcompress : list N -> Common.cres.      (* metadata compressor *)
  Variable limit : N.                              (* id table limit *)
  Variable fb : path -> ibody.                     (* file inodes, abstract at this level *)
  Variable xa : path -> N.

  Definition pp_tables (pp : ppout) : res tables :=
    match serialize_fstree mcompress limit (to_img fb xa pp) with
    | Ok img => Ok (tables_of_img pp img)
    | Err e => Err e
    | Crash => Crash
    | OutOfFuel => OutOfFuel
    end.

  (* host directory -> tables *)
  Definition scan_tables (sorted : bool) (t : hnode) (fs0 : fstree) : tres :=
    match scan_post fnmatch dflt cfg sorted t fs0 with
    | None => TScanErr
    | Some PErr => TPostErr
    | Some PFuel => TPostLoop
    | Some (POk pp) => TSer (pp_tables pp)
    end.
End Tables.

(* ------------------------------------------------------------------ *)
(* pack_files                                                           *)
(* ------------------------------------------------------------------ *)

(* const char *path = node->data.file.input_file;  if (path == NULL) path = fstree_get_path(node) (canonicalized) *)
Definition input_name (root : tnode) (p : path) : list N :=
  match lookup_path p root with
  | Some nd => match a_input (node_attr nd) with Some x => x | None => join_slash p end
  | None => join_slash p
  end.

Definition input_names (pp : ppout) : list (list N) := map (input_name (pp_root pp)) (pp_files pp).

(* the inode the block processor leaves, as serialize_tree_node's input (inode.c: sqfs_inode_make_extended sets
   nlink = 1 and xattr_idx = 0xFFFFFFFF) *)
Definition ibody_of_bp (i : BpModel.inode) : ibody :=
  if BpModel.i_ext i
  then BFileX (BpModel.i_start i) (BpModel.i_size i) (BpModel.i_sparse i) 1 (BpModel.i_fidx i) (BpModel.i_foff i) NOX
              (BpModel.i_blocks i)
  else BFile (BpModel.i_start i) (BpModel.i_fidx i) (BpModel.i_foff i) (BpModel.i_size i) (BpModel.i_blocks i).

(* n->data.file.inode of the regular file at path p: file number = position in fs->files *)
Definition fb_of (ino : BpModel.itab) (files : list path) (p : path) : ibody :=
  match PostModel.index_of p files with
  | Some k => ibody_of_bp (ino (N.of_nat k))
  | None => ibody_of_bp BpModel.new_inode
  end.

Inductive pres_img :=
| IScanErr | IPostErr | IPostLoop
| IDataErr (e : Z) | IDataCrash | IDataFuel
| IImage (r : res FinishModel.wimage).

Section Pack.
  (* scan *)
  Variable fnmatch : list N -> list N -> bool -> bool.
  Variable dflt : fsdefaults.
  Variable cfg : scfg.
  (* data path: the oracles of C02 *)
  Variable HT : Type.
  Variable ht_search : HT -> BpModel.blk -> option (N * N).
  Variable ht_insert : HT -> BpModel.blk -> N * N -> HT.
  Variable BW : Type.
  Variable bw_write : BW -> BpModel.blk -> BW * N.
  Variable bw_bytes : BW -> list N.                (* the bytes the block writer appended to the image *)
  Variable host_file : list N -> BpModel.file.     (* file name -> (flag word, chunks read) *)
  (* the rest of the packer *)
  Variable xa : path -> N.
  Variable xsec : option (list N * N).
  Variable opts : list N.
  Variable mcompress : list N -> Common.cres.
  Variable limit : N.
  Variable wc : FinishModel.wcfg.

  Definition pack_inputs (pp : ppout) : list BpModel.file := map host_file (input_names pp).

  (* sqfs_writer_finish on what the data path left *)
  Definition finish_image (pp : ppout) (ino : BpModel.itab) (bw : BW) (ftbl : list (N * N)) : res FinishModel.wimage :=
    FinishModel.write_image mcompress limit wc
      (FinishModel.mkIn opts (bw_bytes bw) ftbl (to_img (fb_of ino (pp_files pp)) xa pp) xsec).

  (* the worker pool: any type with submit / dequeue (C02.BpModel.run's parameters) *)
  Variable P : Type.
  Variable p_submit : P -> BpModel.blk -> P.
  Variable p_dequeue : P -> option (BpModel.blk * P).

  Definition pack_image (sorted : bool) (backlog : N) (p0 : P) (ht0 : HT) (bw0 : BW) (t : hnode) (fs0 : fstree)
    : pres_img :=
    match scan_post fnmatch dflt cfg sorted t fs0 with
    | None => IScanErr
    | Some PErr => IPostErr
    | Some PFuel => IPostLoop
    | Some (POk pp) =>
      match BpModel.run HT ht_search ht_insert BW bw_write P p_submit p_dequeue
                        (FinishModel.c_block_size wc) (BpModel.clamp_backlog backlog) p0 ht0 bw0 (pack_inputs pp) with
      | BpModel.Ok s =>
          IImage (finish_image pp (BpModel.s_ino _ _ _ s) (BpModel.s_bw _ _ _ s) (BpModel.s_ftbl _ _ _ s))
      | BpModel.Err e => IDataErr e
      | BpModel.Crash => IDataCrash
      | BpModel.Fuel => IDataFuel
      end
    end.
End Pack.

(* the file the run leaves *)
Definition image_file (r : pres_img) : option (list N) :=
  match r with
  | IImage (Ok w) => Some (FinishModel.image_bytes w)
  | _ => None
  end.
