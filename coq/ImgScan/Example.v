(* ImgScan — non-vacuity.  A host directory with eight entries (regular files of 0, 300, 5000 and 9000 bytes, a symlink,
   a fifo, a device, a second name for one of the files) and a sub directory with a nested one, enumerated in two
   different orders (every directory reversed).  The hypotheses of the order-independence statements hold, the composed
   model computes, and both enumerations give the same serialized tables and — through the concrete data path of
   C02.BpConcrete (toy compressor, fragment table by content, block writer with deduplication, serial pool) and
   sqfs_writer_finish — the same image bytes, which the executable format validator accepts and the reader
   specification reads back. *)
From Coq Require Import List NArith ZArith Bool Permutation.
From SqfsV Require Import Base.Bytes Gen.Constants C03.Common.
From SqfsV Require Import C01.GenC01 C01.Res C01.InodeModel Img.TreeModel.
From SqfsV Require Import C11.StrOrder C11.FstreeModel C11.PostModel C11.ScanModel C11.CanonProofs C11.ScanProofs.
From SqfsV Require Import ImgPost.Bridge ImgPost.InputOk ImgPost.PathsModel.
From SqfsV Require C02.BpModel C02.BpProofs C02.BpConcrete.
From SqfsV Require Image.FinishModel Image.ReaderModel Image.ValidModel Image.ImageProofs.
From SqfsV Require Import ImgScan.PackModel ImgScan.PackProofs ImgScan.ScanAdds.
Import ListNotations.
Local Open Scope N_scope.

Definition xs_reg (ino : N) : hstat := mkStat FReg 420 1000 100 1600000000%Z 1 ino 0 [].
Definition xs_dir (ino : N) : hstat := mkStat FDir 493 1000 100 1600000001%Z 1 ino 0 [].

Definition nA : name := [97].            (* a      300 bytes *)
Definition nB : name := [98].            (* b      symlink -> "a" *)
Definition nC : name := [99].            (* c      fifo *)
Definition nD : name := [100].           (* d/     directory *)
Definition nX : name := [120].           (* d/x    5000 bytes *)
Definition nY : name := [121].           (* d/y    empty *)
Definition nE : name := [101].           (* d/e/   directory *)
Definition nF : name := [102].           (* d/e/f  9000 bytes, same content as a block of d/x *)
Definition nM : name := [109].           (* m      second name of a (same dev, ino) *)
Definition nN : name := [110].           (* n      character device 1:3 *)
Definition nZ : name := [122].           (* z      300 bytes, same content as a *)

Definition xA := HNode nA (xs_reg 10) [].
Definition xB := HNode nB (mkStat FLnk 511 0 0 5%Z 1 11 0 [97]) [].
Definition xC := HNode nC (mkStat FFifo 384 0 0 6%Z 1 12 0 []) [].
Definition xX := HNode nX (xs_reg 14) [].
Definition xY := HNode nY (xs_reg 15) [].
Definition xF := HNode nF (xs_reg 17) [].
Definition xE := HNode nE (xs_dir 16) [xF].
Definition xD := HNode nD (xs_dir 13) [xX; xY; xE].
Definition xD' := HNode nD (xs_dir 13) [xE; xY; xX].
Definition xM := HNode nM (xs_reg 10) [].
Definition xN := HNode nN (mkStat FChr 432 0 5 7%Z 1 18 259 []) [].
Definition xZ := HNode nZ (xs_reg 19) [].

Definition x_tree : hnode := HNode [] (xs_dir 2) [xA; xB; xC; xD; xM; xN; xZ].
Definition x_tree' : hnode := HNode [] (xs_dir 2) [xZ; xN; xM; xD'; xC; xB; xA].

(* gensquashfs --pack-dir DIR --keep-time (owner, mode and time stamps of the host) *)
Definition x_cfg : scfg :=
  mkCfg true true true true  false false false false
        false false false false false false false
        0 0 0 0%Z [] None None.
Definition x_dflt : fsdefaults := mkDefaults 0 0 0 493.
Definition x_fnmatch (pat s : list N) (pathname : bool) : bool := true.

Lemma x_tree_wf : hwf x_tree.
Proof. repeat (constructor; simpl); try (intuition discriminate). Qed.

Lemma x_tree_perm : hperm x_tree x_tree'.
Proof.
  apply hperm_node with (cs1 := [xA; xB; xC; xD'; xM; xN; xZ]).
  - repeat constructor; try apply hperm_refl.
    apply hperm_node with (cs1 := [xX; xY; xE]).
    + repeat constructor; apply hperm_refl.
    + change [xE; xY; xX] with (rev [xX; xY; xE]). apply Permutation_rev.
  - change [xZ; xN; xM; xD'; xC; xB; xA] with (rev [xA; xB; xC; xD'; xM; xN; xZ]). apply Permutation_rev.
Qed.

(* ---- the tables, file inodes abstract ---- *)
Definition x_fb (p : path) : ibody := BFile 0 NOX NOX 0 [].
Definition x_xa (p : path) : N := NOX.
Definition x_tables (sorted : bool) (t : hnode) : tres :=
  scan_tables x_fnmatch x_dflt x_cfg (img_compress 3) c_id_table_limit x_fb x_xa sorted t (fs_init x_dflt).

Example ex_scan_tables :
  hwf x_tree /\ hperm x_tree x_tree' /\ x_tree <> x_tree' /\ order_free_case true x_cfg x_tree /\
  x_tables true x_tree = x_tables true x_tree' /\
  match x_tables true x_tree with
  | TSer (Ok tb) =>
      tb_inodes tb = [[nD; nE; nF]; [nD; nE]; [nD; nX]; [nD; nY]; [nA]; [nB]; [nC]; [nD]; [nN]; [nZ]; []] /\
      tb_files tb = [[nA]; [nD; nE; nF]; [nD; nX]; [nD; nY]; [nZ]] /\
      tb_ids tb = [1000; 100; 0; 5] /\
      (lenN (tb_itbl tb) =? 0) = false /\ (lenN (tb_dtbl tb) =? 0) = false
  | _ => False
  end.
Proof.
  split; [exact x_tree_wf|]. split; [exact x_tree_perm|]. split; [discriminate|]. split; [left; reflexivity|].
  split; vm_compute; [reflexivity|repeat split; reflexivity].
Qed.

(* the unsorted iterator with the hard link filter off (-H): the other case of the statements *)
Definition x_cfg_nohl : scfg :=
  mkCfg true true true true  false false true false
        false false false false false false false
        0 0 0 0%Z [] None None.
Example ex_scan_tables_nohl :
  order_free_case false x_cfg_nohl x_tree /\
  scan_tables x_fnmatch x_dflt x_cfg_nohl (img_compress 3) c_id_table_limit x_fb x_xa false x_tree (fs_init x_dflt) =
  scan_tables x_fnmatch x_dflt x_cfg_nohl (img_compress 3) c_id_table_limit x_fb x_xa false x_tree' (fs_init x_dflt) /\
  match scan_tables x_fnmatch x_dflt x_cfg_nohl (img_compress 3) c_id_table_limit x_fb x_xa false x_tree' (fs_init x_dflt) with
  | TSer (Ok tb) => length (tb_inodes tb) = 12%nat
  | _ => False
  end.
Proof. split; [right; left; reflexivity|]. split; vm_compute; reflexivity. Qed.

(* ---- the whole image ---- *)
(* what the packer reads for a file name: a 300 bytes, z the same 300 bytes, d/x 5000 bytes, d/e/f 9000 bytes whose first
   block equals the first block of d/x, d/y nothing; one chunk per file (append splits it at the block size) *)
Definition x_content (nm : list N) : list N :=
  match nm with
  | [97] | [122] => repeat 65 300
  | [100; 47; 120] => repeat 7 4096 ++ repeat 9 904
  | [100; 47; 101; 47; 102] => repeat 7 4096 ++ repeat 8 4904
  | _ => []
  end.
Definition x_host_file (nm : list N) : BpModel.file :=
  (0, match x_content nm with [] => [] | c => [c] end).
Definition x_hash (l : list N) : N := fold_left N.add l 0 mod 4294967296.

Lemma x_host_file_ok : forall nm, BpProofs.file_ok (x_host_file nm).
Proof.
  intro nm. split; [reflexivity|]. unfold x_host_file. cbn [snd].
  destruct (x_content nm); constructor; [discriminate|constructor].
Qed.

Lemma x_serial_laws : fifo_laws x_hash BpConcrete.toy_compress (list BpModel.blk) BpModel.sp_submit
                        (BpModel.sp_dequeue (BpModel.process_block x_hash BpConcrete.toy_compress)) (fun x => x).
Proof.
  split.
  - intros p b. reflexivity.
  - intros p b r H. exact (BpProofs.serial_deq_cons (BpModel.process_block x_hash BpConcrete.toy_compress) p b r H).
Qed.

(* block size 4096, mtime 0, compressor id 1, device block 4096, exportable, xattrs disabled *)
Definition x_wc : FinishModel.wcfg := FinishModel.mkCfg 4096 0 1 4096 true true.
(* the block writer appends behind the 96 bytes of the super block *)
Definition x_bw0 : BpConcrete.cbw := BpConcrete.mkBw (repeat 0 96) [] 0.
Definition x_bw_bytes (w : BpConcrete.cbw) : list N := skipn 96 (BpConcrete.w_file w).

Definition x_pack (backlog : N) (t : hnode) : pres_img :=
  pack_image x_fnmatch x_dflt x_cfg BpConcrete.cht BpConcrete.cht_search BpConcrete.cht_insert
             BpConcrete.cbw BpConcrete.cbw_write x_bw_bytes x_host_file x_xa None [] (img_compress 3) c_id_table_limit x_wc
             (list BpModel.blk) BpModel.sp_submit (BpModel.sp_dequeue (BpModel.process_block x_hash BpConcrete.toy_compress))
             true backlog [] [] x_bw0 t (fs_init x_dflt).

Definition x_is_some {A} (o : option A) : bool := match o with Some _ => true | None => false end.

Example ex_pack_image :
  (0 <? FinishModel.c_block_size x_wc) = true /\
  x_pack 3 x_tree = x_pack 40 x_tree' /\
  match x_pack 40 x_tree' with
  | IImage (Ok w) =>
      let b := FinishModel.image_bytes w in
      ImageProofs.image_fits w = true /\
      ValidModel.valid_image (img_uncompress 3) 4096 b = true /\
      lenN b = 4096 /\ SuperModel.s_bytes_used (FinishModel.w_super w) = 2298 /\
      SuperModel.s_inode_count (FinishModel.w_super w) = 11 /\ SuperModel.s_frag_count (FinishModel.w_super w) = 1 /\
      (* what a reader finds: every path with its inode number (a and m are one inode) and the location of the file
         data — z deduplicated against a (same fragment, offset 0), d/e/f and d/x sharing the block at 96 *)
      option_map (fun lt => map (fun x => (fst (fst x), snd x, pv_kind (snd (fst x)))) (flat_lt [] lt))
                 (ReaderModel.read_image_tree (img_uncompress 3) b) =
      Some [([], 11, LDir 0); ([nA], 5, LFile 0 300 0 0 0 []); ([nB], 6, LSlink [97]); ([nC], 7, LIpc false);
            ([nD], 8, LDir 0); ([nD; nE], 2, LDir 0); ([nD; nE; nF], 1, LFile 96 9000 0 0 300 [4; 4]);
            ([nD; nX], 3, LFile 96 5000 0 0 1108 [4]); ([nD; nY], 4, LFile 0 0 0 NOX NOX []);
            ([nM], 5, LFile 0 300 0 0 0 []); ([nN], 9, LDev true 259); ([nZ], 10, LFile 0 300 0 0 0 [])]
  | _ => False
  end.
Proof. vm_compute. repeat split; reflexivity. Qed.

(* the scan is a packing run in ImgPost's sense and its input bounds hold, so the tables are those of a representable tree
   and read back as the paths of the scanned tree (scan_image_reads_back) *)
Example ex_scan_reads_back :
  match scan_dir x_fnmatch x_dflt x_cfg true x_tree' (fs_init x_dflt) with
  | Some (fs, stream) =>
      length (ops_of_stream stream) = 11%nat /\
      run_adds x_dflt (fs_init x_dflt) (ops_of_stream stream) = Some fs /\
      input_okb 4096 x_dflt (ops_of_stream stream) = true /\
      match post_process fs with
      | POk pp => attached_okb 4096 x_fb x_xa pp = true /\ representable 4096 (to_img x_fb x_xa pp) = true
      | _ => False
      end
  | None => False
  end.
Proof. vm_compute. repeat split; reflexivity. Qed.
